#!/usr/bin/env python3
"""vcheck: driver of the openGemini property checks.

  vcheck.py setup                      warm the build cache (test binaries + server binaries)
  vcheck.py run CNN --tier quick|thorough
  vcheck.py replay <file>              re-execute one replay file (prints PASS/FAIL)

Exit codes of `run`: 0 property held on everything explored (KNOWN-FINDING lines possible),
1 violation (a line `VIOLATION property=<id> replay=<path>` was printed), 2 inconclusive
(build failure, timeout, worker death) - never a violation.
"""
import argparse, glob, hashlib, json, os, shutil, signal, subprocess, sys, time

ROOT = os.path.dirname(os.path.abspath(__file__))
REPO = os.environ.get("VERIF_REPO", "/repo")
# Runs against an overlay (seeded-change self-validation) keep their binaries and their evidence apart from the real ones:
# evidence/<id>.json is only ever written by a run against /repo itself.
_OV = os.environ.get("VERIF_OVERLAY")
BUILD = os.path.join(ROOT, ".build") if not _OV else os.path.join(ROOT, ".build", "ov-" + hashlib.sha256(_OV.encode()).hexdigest()[:10])
# VERIF_ONLY=<regex over campaign names> (development aid): run only those sub-campaigns, no replays; evidence kept apart as well
_ONLY = os.environ.get("VERIF_ONLY")
EVDIR = os.environ.get("VERIF_EVIDENCE_DIR") or (os.path.join(ROOT, "evidence") if not (_OV or _ONLY) else os.path.join(ROOT, ".run", "ov-evidence"))
TOOLCHAIN = "/root/go/pkg/mod/golang.org/toolchain@v0.0.1-go1.25.0.linux-amd64/bin"

sys.path.insert(0, ROOT)
from campaigns import CAMPAIGNS  # noqa: E402


def goenv():
    e = dict(os.environ)
    if os.path.isdir(TOOLCHAIN):
        e["PATH"] = TOOLCHAIN + ":" + e.get("PATH", "")
        e["GOTOOLCHAIN"] = "local"
    e["GOFLAGS"] = "-mod=mod"
    e["GOPROXY"] = "off"
    e.pop("GOSUMDB", None)
    e["GONOSUMDB"] = "*"
    e["GONOSUMCHECK"] = "1"
    e["GOFLAGS"] = "-mod=mod"
    return e


def log(*a):
    print(*a, flush=True)


def sh(cmd, cwd, env=None, timeout=None):
    p = subprocess.run(cmd, cwd=cwd, env=env or goenv(), stdout=subprocess.PIPE, stderr=subprocess.STDOUT, timeout=timeout)
    return p.returncode, p.stdout.decode("utf-8", "replace")


def sync_gosum():
    # the harness module needs the repository's go.sum entries (offline, no sumdb)
    src = os.path.join(REPO, "go.sum")
    dst = os.path.join(ROOT, "go.sum")
    have = set(open(dst).read().splitlines()) if os.path.exists(dst) else set()
    want = set(open(src).read().splitlines())
    if not want <= have:
        with open(dst, "w") as f:
            f.write("\n".join(sorted(have | want)) + "\n")


def overlay_args():
    # VERIF_OVERLAY=<overlay.json> builds against edited copies of /repo files without touching /repo
    # (self-validation with seeded mutants): {"Replace": {"/repo/path/x.go": "/work/x_mutant.go"}}
    ov = os.environ.get("VERIF_OVERLAY")
    return ["-overlay", ov] if ov else []


def build_test(pid, race=False):
    spec = CAMPAIGNS[pid]
    os.makedirs(os.path.join(BUILD, pid), exist_ok=True)
    out = os.path.join(BUILD, pid, "prop.test")
    cmd = ["go", "test", "-c", "-tags", "verif", "-vet=off", "-o", out] + overlay_args() + ["./" + spec["pkg"]]
    rc, o = sh(cmd, ROOT, timeout=1800)
    if rc != 0:
        log(o[-6000:])
        log("BUILD-FAILED property=%s (inconclusive)" % pid)
        sys.exit(2)
    return out


def build_bins(pid, bins, race=False):
    """builds server binaries from /repo's working tree with the verif tag"""
    outdir = os.path.join(BUILD, pid)
    os.makedirs(outdir, exist_ok=True)
    env = goenv()
    for b in bins:
        out = os.path.join(outdir, b + ("-race" if race else ""))
        cmd = ["go", "build", "-tags", "verif", "-o", out] + overlay_args()
        if race:
            cmd.append("-race")
        cmd.append("./app/" + b)
        rc, o = sh(cmd, REPO, env=env, timeout=3600)
        if rc != 0:
            log(o[-6000:])
            log("BUILD-FAILED property=%s binary=%s (inconclusive)" % (pid, b))
            sys.exit(2)
    return outdir


def load_known():
    p = os.path.join(ROOT, "known_findings.json")
    if not os.path.exists(p):
        return []
    return json.load(open(p))["findings"]


def save_failure(pid, src):
    os.makedirs(os.path.join(ROOT, "failures"), exist_ok=True)
    data = open(src, "rb").read()
    h = hashlib.sha256(data).hexdigest()[:10]
    ext = os.path.splitext(src)[1] or ".json"
    dst = os.path.join(ROOT, "failures", "%s-%s%s" % (pid, h, ext))
    with open(dst, "wb") as f:
        f.write(data)
    return dst


def run_procs(jobs, timeout):
    """jobs: list of (name, cmd, env, logpath). Runs all concurrently. Returns list of (name, rc, out)."""
    procs = []
    for name, cmd, env, lp in jobs:
        f = open(lp, "wb")
        p = subprocess.Popen(cmd, cwd=os.path.dirname(lp), env=env, stdout=f, stderr=subprocess.STDOUT, start_new_session=True)
        procs.append((name, p, f, lp))
    res = []
    deadline = time.time() + timeout
    for name, p, f, lp in procs:
        left = max(1, deadline - time.time())
        try:
            rc = p.wait(timeout=left)
        except subprocess.TimeoutExpired:
            try:
                os.killpg(p.pid, signal.SIGKILL)
            except Exception:
                pass
            p.wait()
            rc = -999
        f.close()
        out = open(lp, "rb").read().decode("utf-8", "replace")
        res.append((name, rc, out))
    return res


def cmd_run(pid, tier, keep=False):
    t0 = time.time()
    spec = CAMPAIGNS[pid]
    base = int(os.environ.get("VERIF_SEED", "0") or 0)
    if base == 0:
        base = 1
    sync_gosum()
    rundir = os.path.join(ROOT, ".run", "%s-%d" % (pid, os.getpid()))
    shutil.rmtree(rundir, ignore_errors=True)
    os.makedirs(rundir)
    faildir = os.path.join(rundir, "fail")
    os.makedirs(faildir)
    testbin = build_test(pid)
    bindir = ""
    if spec.get("bins"):
        bindir = build_bins(pid, spec["bins"])
    if tier == "thorough" and spec.get("race_bins"):
        build_bins(pid, spec["race_bins"], race=True)
    # clear rapid's own failure database
    for d in glob.glob(os.path.join(ROOT, spec["pkg"], "testdata", "rapid")):
        shutil.rmtree(d, ignore_errors=True)

    violations = []   # (path)
    known_lines = []
    inconclusive = []
    known = [k for k in load_known() if k["property"] == pid]

    def mkenv(tag):
        e = goenv()
        e["VERIF_STATS"] = os.path.join(rundir, "stats-%s.json" % tag)
        e["VERIF_FAILDIR"] = os.path.join(faildir, tag)
        e["VERIF_TIER"] = tier
        e["VERIF_BIN"] = bindir
        e["VERIF_ROOT"] = ROOT
        e["VERIF_REPO"] = REPO
        e["VERIF_SEED"] = str(base)
        e["VERIF_TAG"] = tag
        return e

    # ---- replay tier (runs concurrently with the generated campaigns, judged first) -----------
    replays = sorted(glob.glob(os.path.join(ROOT, "replays", pid, "*.json")))
    replay_results = {}
    replay_job = None
    if replays and spec.get("replay", True) and not _ONLY:
        e = mkenv("replay")
        e["VERIF_REPLAY_FILES"] = "\n".join(replays)
        e["VERIF_REPLAY_OUT"] = os.path.join(rundir, "replay-out.json")
        # the replay process gets loopback addresses of its own (instances 0.. belong to the campaign processes of this run)
        e["VERIF_INSTANCE"] = str(int(os.environ.get("VERIF_INSTANCE_OFFSET", "0")) + 100)
        lp = os.path.join(rundir, "replay.log")
        rt = spec.get("replay_timeout", 900)
        replay_job = ("replay", [testbin, "-test.run", "^TestReplay$", "-test.count=1", "-test.timeout=%ds" % rt], e, lp, rt)

    def judge_replays(out):
        nonlocal replay_results
        e_out = os.path.join(rundir, "replay-out.json")
        if os.path.exists(e_out):
            replay_results = json.load(open(e_out))
        else:
            inconclusive.append("replay tier produced no result: " + out[-2000:])
        byfile = {os.path.join(ROOT, k["replay"]): k for k in known if k.get("replay")}
        for f in replays:
            res = replay_results.get(f)
            if res is None:
                continue
            k = byfile.get(f)
            if res["ok"]:
                if k and k["status"] == "known":
                    log("NOTE: known finding %s did not reproduce in this run (replay %s passes)" % (k["id"], os.path.relpath(f, ROOT)))
                continue
            if res.get("inconclusive"):
                inconclusive.append("replay %s: %s" % (f, res.get("msg")))
                continue
            if k and k["status"] == "known":
                known_lines.append("KNOWN-FINDING: property=%s %s [%s]" % (pid, k["what"], k["id"]))
            else:
                violations.append(f)
                log("replay failed: %s: %s" % (os.path.relpath(f, ROOT), res.get("msg", "")[:500]))

    # ---- generated campaigns ----------------------------------------------------------
    jobs = []
    ncpu = os.cpu_count() or 4
    for ci, c in enumerate(spec["campaigns"]):
        b = c[tier] if tier in c else c["quick"]
        if b is None:
            continue
        if _ONLY:
            import re
            if not re.search(_ONLY, c["name"]):
                continue
        procs = min(b.get("procs", 1), ncpu)
        for i in range(procs):
            tag = "%s-%d" % (c["name"], i)
            # rapid derives the k-th case from seed + k(k+1)/2: keep the processes' seeds far apart
            seed = base * 1000000007 + ci * 10000019 + (i + 1) * 100003
            e = mkenv(tag)
            e["VERIF_SHARD"] = str(i)
            e["VERIF_SHARDS"] = str(procs)
            # VERIF_INSTANCE_OFFSET keeps two driver runs of one property on this machine apart (loopback addresses)
            e["VERIF_INSTANCE"] = str(int(os.environ.get("VERIF_INSTANCE_OFFSET", "0")) + len(jobs))
            for k2, v2 in b.get("env", {}).items():
                e[k2] = str(v2)
            tmo = b.get("timeout", 900)
            cmd = [testbin, "-test.run", c["run"], "-test.count=1", "-test.timeout=%ds" % tmo,
                   "-rapid.checks=%d" % b.get("checks", 100), "-rapid.seed=%d" % seed,
                   "-rapid.shrinktime=%s" % b.get("shrinktime", "30s")]
            if "steps" in b:
                cmd.append("-rapid.steps=%d" % b["steps"])
            lp = os.path.join(rundir, "log-%s.txt" % tag)
            jobs.append((tag, cmd, e, lp, tmo, c["name"], b.get("checks", 100)))
    # run in waves of at most ncpu processes
    results = []
    wave = []
    maxpar = spec.get("max_parallel", ncpu)
    if replay_job:
        jobs.insert(0, (replay_job[0], replay_job[1], replay_job[2], replay_job[3], replay_job[4], "replay", 0))
    for j in jobs:
        wave.append(j)
        if len(wave) == maxpar:
            results += run_procs([(x[0], x[1], x[2], x[3]) for x in wave], max(x[4] for x in wave) + 60)
            wave = []
    if wave:
        results += run_procs([(x[0], x[1], x[2], x[3]) for x in wave], max(x[4] for x in wave) + 60)

    # ---- native fuzz (thorough only) ---------------------------------------------------
    if tier == "thorough":
        for fz in spec.get("fuzz", []):
            e = mkenv("fuzz-" + fz["target"])
            cdir = os.path.join(rundir, "fuzzcache")
            e["GOCACHE_FUZZ"] = cdir
            cmd = ["go", "test", "-tags", "verif", "-vet=off", "-run", "^$", "-fuzz", "^" + fz["target"] + "$",
                   "-fuzztime", "%ds" % fz.get("seconds", 60), "./" + spec["pkg"], "-test.fuzzcachedir=" + cdir]
            rc, o = sh(cmd, ROOT, env=e, timeout=fz.get("seconds", 60) + 900)
            tag = "fuzz-" + fz["target"]
            open(os.path.join(rundir, "log-%s.txt" % tag), "w").write(o)
            results.append((tag, rc, o))
            # crashers are written under the package's testdata/fuzz/<target>/
            if rc != 0:
                cr = sorted(glob.glob(os.path.join(ROOT, spec["pkg"], "testdata", "fuzz", fz["target"], "*")), key=os.path.getmtime)
                fresh = [x for x in cr if os.path.getmtime(x) >= t0]
                for x in fresh:
                    dst = save_failure(pid, x)
                    violations.append(dst)
                    os.remove(x)

    # ---- judge -----------------------------------------------------------------------
    for tag, rc, out in results:
        if tag == "replay":
            judge_replays(out)
    results = [r for r in results if r[0] != "replay"]
    for tag, rc, out in results:
        fdir = os.path.join(faildir, tag)
        ffiles = sorted(glob.glob(os.path.join(fdir, "*.json")))
        if rc == 0:
            continue
        if ffiles:
            incon = False
            for ff in ffiles:
                try:
                    fj = json.load(open(ff))
                except Exception:
                    fj = {}
                if fj.get("inconclusive"):
                    inconclusive.append("%s: %s" % (tag, fj.get("message", "")[:1000]))
                    incon = True
                    continue
                dst = save_failure(pid, ff)
                violations.append(dst)
                log("--- failing case (%s): %s" % (tag, fj.get("message", "")[:1500]))
            continue
        if tag.startswith("fuzz-") and violations:
            continue
        if rc == -999 or "panic: test timed out" in out or "signal: killed" in out:
            inconclusive.append("%s: timeout / killed" % tag)
            continue
        # failed without a recorded case: keep the output as the report
        lp = os.path.join(rundir, "log-%s.txt" % tag)
        tail = out[-20000:]
        tmp = os.path.join(rundir, "out-%s.log" % tag)
        open(tmp, "w").write(tail)
        if "VERIF-INCONCLUSIVE" in out:
            inconclusive.append("%s: %s" % (tag, tail[-1500:]))
        else:
            dst = save_failure(pid, tmp)
            violations.append(dst)
            log("--- failing run without recorded case (%s):\n%s" % (tag, tail[-3000:]))

    # ---- evidence --------------------------------------------------------------------
    merged = {}
    for sf in glob.glob(os.path.join(rundir, "stats-*.json")):
        try:
            d = json.load(open(sf))
        except Exception:
            continue
        for camp, s in d.items():
            m = merged.setdefault(camp, {"evaluations": 0, "classes": {}, "excluded": {}, "nt": set(), "samples": [], "notes": {}})
            m["evaluations"] += s.get("evaluations", 0)
            for k2, v2 in (s.get("classes") or {}).items():
                m["classes"][k2] = m["classes"].get(k2, 0) + v2
            for k2, v2 in (s.get("excluded") or {}).items():
                m["excluded"][k2] = m["excluded"].get(k2, 0) + v2
            m["nt"].update(s.get("nontrivial") or [])
            for smp in (s.get("samples") or []):
                if len(m["samples"]) < 4:
                    m["samples"].append(smp)
            for k2, v2 in (s.get("notes") or {}).items():
                m["notes"][k2] = v2
    evaluations = sum(m["evaluations"] for m in merged.values())
    distinct = sum(len(m["nt"]) for m in merged.values())
    samples = []
    for camp, m in sorted(merged.items()):
        for smp in m["samples"][:3]:
            samples.append({"campaign": camp, "case": smp})
    percamp = {camp: {"evaluations": m["evaluations"], "distinct_nontrivial": len(m["nt"]), "classes": m["classes"],
                      "excluded_by_construction": m["excluded"], "notes": m["notes"]} for camp, m in sorted(merged.items())}
    ev = {
        "property_id": pid, "tier": tier, "seed": base, "level": spec["level"],
        "coverage": {
            "evaluations": evaluations, "distinct_nontrivial": distinct, "rule": spec["rule"],
            "samples": samples[:12], "campaigns": percamp,
            "replays_run": len(replay_results), "replays_failed_known": len(known_lines),
            "processes": len([j for j in jobs if j[0] != "replay"]), "fuzz_targets": [f["target"] for f in spec.get("fuzz", [])] if tier == "thorough" else [],
        },
        "assumptions": spec.get("assumptions", []),
        "wall_s": round(time.time() - t0, 2),
        "violations": len(violations),
        "known_findings_reported": known_lines,
        "inconclusive": inconclusive,
    }
    if spec.get("exhaustive_note"):
        ev["coverage"]["exhaustive_part"] = spec["exhaustive_note"]
    os.makedirs(EVDIR, exist_ok=True)
    with open(os.path.join(EVDIR, pid + ".json"), "w") as f:
        json.dump(ev, f, indent=1, sort_keys=True)
        f.write("\n")

    for l in known_lines:
        log(l)
    log("property=%s tier=%s seed=%d evaluations=%d distinct_nontrivial=%d wall=%.1fs" % (pid, tier, base, evaluations, distinct, time.time() - t0))
    if not keep and not violations and not inconclusive:
        shutil.rmtree(rundir, ignore_errors=True)
    if violations:
        for v in violations:
            log("VIOLATION property=%s replay=%s" % (pid, v))
        return 1
    if inconclusive:
        for i in inconclusive:
            log("INCONCLUSIVE: " + i)
        return 2
    if evaluations == 0:
        log("INCONCLUSIVE: no case was evaluated")
        return 2
    return 0


def cmd_setup():
    sync_gosum()
    t0 = time.time()
    built = set()
    for pid, spec in sorted(CAMPAIGNS.items()):
        build_test(pid)
        for b in spec.get("bins", []):
            if b not in built:
                build_bins(pid, [b])
                built.add(b)
            else:
                build_bins(pid, [b])
    log("setup done in %.0fs" % (time.time() - t0))
    return 0


def cmd_replay(path):
    path = os.path.abspath(path)
    try:
        pid = json.load(open(path)).get("property")
    except Exception:
        pid = os.path.basename(path).split("-")[0]
    spec = CAMPAIGNS[pid]
    sync_gosum()
    testbin = build_test(pid)
    bindir = build_bins(pid, spec["bins"]) if spec.get("bins") else ""
    e = goenv()
    out = os.path.join(BUILD, pid, "replay-out-%d.json" % os.getpid())
    if os.path.exists(out):
        os.remove(out)
    e["VERIF_INSTANCE"] = str(int(os.environ.get("VERIF_INSTANCE_OFFSET", "0")) + 100)
    e.update({"VERIF_REPLAY_FILES": path, "VERIF_REPLAY_OUT": out, "VERIF_BIN": bindir, "VERIF_ROOT": ROOT, "VERIF_TIER": "quick", "VERIF_TAG": "replay"})
    rc, o = sh([testbin, "-test.run", "^TestReplay$", "-test.count=1", "-test.v"], os.path.join(BUILD, pid), env=e, timeout=1800)
    res = json.load(open(out)).get(path) if os.path.exists(out) else None
    if res is None:
        log(o[-3000:])
        log("INCONCLUSIVE")
        return 2
    if res["ok"]:
        log("PASS %s" % path)
        return 0
    log("FAIL %s: %s" % (path, res.get("msg")))
    log("VIOLATION property=%s replay=%s" % (pid, path))
    return 1


def main():
    ap = argparse.ArgumentParser()
    sub = ap.add_subparsers(dest="cmd")
    r = sub.add_parser("run")
    r.add_argument("pid")
    r.add_argument("--tier", default=os.environ.get("VERIF_TIER", "quick"))
    r.add_argument("--keep", action="store_true")
    sub.add_parser("setup")
    p = sub.add_parser("replay")
    p.add_argument("path")
    a = ap.parse_args()
    if a.cmd == "run":
        sys.exit(cmd_run(a.pid, a.tier, a.keep))
    if a.cmd == "setup":
        sys.exit(cmd_setup())
    if a.cmd == "replay":
        sys.exit(cmd_replay(a.path))
    ap.print_help()
    sys.exit(2)


if __name__ == "__main__":
    main()
