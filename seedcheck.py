#!/usr/bin/env python3
"""seedcheck.py <seed-id> [--tier quick] [--seeds 1,2]: applies seeded/<seed-id>/patch.diff to /repo, runs the check of the property
named in seeded/<seed-id>/meta.json against it and records the outcome in seeded/<seed-id>/result.json."""
import json, os, subprocess, sys, time
ROOT = os.path.dirname(os.path.abspath(__file__))
REPO = "/repo"

def main():
    sid = sys.argv[1]
    tier = "quick"
    seeds = ["1"]
    for i, a in enumerate(sys.argv):
        if a == "--tier": tier = sys.argv[i + 1]
        if a == "--seeds": seeds = sys.argv[i + 1].split(",")
    d = os.path.join(ROOT, "seeded", sid)
    meta = json.load(open(os.path.join(d, "meta.json")))
    props = meta["property"] if isinstance(meta["property"], list) else [meta["property"]]
    for i, a in enumerate(sys.argv):
        if a == "--props": props = sys.argv[i + 1].split(",")  # run other properties' checks against the change as well
    # The patch is applied in a scratch worktree and reaches the build through a Go overlay (VERIF_OVERLAY), so /repo itself
    # is never modified (other runs may be building from it at the same time); the result is the same as applying it to /repo.
    wt = "/tmp/seedwt-" + sid
    subprocess.run(["git", "-C", REPO, "worktree", "remove", "--force", wt], capture_output=True)
    r = subprocess.run(["git", "-C", REPO, "worktree", "add", "--detach", wt, "HEAD"], capture_output=True, text=True)
    if r.returncode != 0:
        print("worktree:", r.stderr); return 2
    results = []
    try:
        r = subprocess.run(["git", "-C", wt, "apply", os.path.join(d, "patch.diff")], capture_output=True, text=True)
        if r.returncode != 0:
            # later fix: commits may have moved the context of an older seeded change: retry with reduced context
            r = subprocess.run(["git", "-C", wt, "apply", "-C1", os.path.join(d, "patch.diff")], capture_output=True, text=True)
        if r.returncode != 0:
            print("patch does not apply:", r.stderr); return 2
        changed = subprocess.run(["git", "-C", wt, "status", "--porcelain"], capture_output=True, text=True).stdout.splitlines()
        repl = {}
        for l in changed:
            f = l[3:].strip()
            if f.endswith(".go"):
                repl[os.path.join(REPO, f)] = os.path.join(wt, f)
        ov = os.path.join(wt, "verif-overlay.json")
        json.dump({"Replace": repl}, open(ov, "w"))
        for p in props:
            for s in seeds:
                t0 = time.time()
                e = dict(os.environ); e["VERIF_SEED"] = s; e["VERIF_OVERLAY"] = ov; e.setdefault("VERIF_INSTANCE_OFFSET", "16")
                r = subprocess.run(["python3", os.path.join(ROOT, "vcheck.py"), "run", p, "--tier", tier], capture_output=True, text=True, env=e, cwd=ROOT)
                lines = [l for l in r.stdout.splitlines() if l.startswith("VIOLATION") or l.startswith("--- failing") or l.startswith("replay failed") or l.startswith("BUILD-FAILED")]
                results.append({"property": p, "tier": tier, "seed": int(s), "exit": r.returncode, "wall_s": round(time.time() - t0, 1), "lines": [l[:400] for l in lines[:6]]})
                print(p, "seed", s, "exit", r.returncode, "%.0fs" % (time.time() - t0), (lines[0][:200] if lines else ""))
    finally:
        subprocess.run(["git", "-C", REPO, "worktree", "remove", "--force", wt], capture_output=True)
        import hashlib, shutil
        shutil.rmtree(os.path.join(ROOT, ".build", "ov-" + hashlib.sha256(os.path.join(wt, "verif-overlay.json").encode()).hexdigest()[:10]), ignore_errors=True)
    caught = any(x["exit"] == 1 for x in results)
    rf = os.path.join(d, "result.json")
    if "--props" in sys.argv and os.path.exists(rf):
        old = json.load(open(rf))
        results = old.get("runs", []) + results
        caught = caught or old.get("caught", False)
    json.dump({"caught": caught, "runs": results, "at": time.strftime("%Y-%m-%dT%H:%M:%SZ", time.gmtime())}, open(os.path.join(d, "result.json"), "w"), indent=1)
    print("CAUGHT" if caught else "MISSED")
    return 0

if __name__ == "__main__":
    sys.exit(main())
