//go:build verif

package metagen

import (
	"fmt"
	"math"
	"sort"
	"time"

	metasvc "github.com/openGemini/openGemini/app/ts-meta/meta"
	"github.com/openGemini/openGemini/lib/tokenizer"
	meta "github.com/openGemini/openGemini/lib/util/lifted/influx/meta"
	"go.uber.org/zap"
	"pgregory.net/rapid"
)

func init() {
	// the store normally gets this logger from the meta service start-up code
	meta.DataLogger = zap.NewNop()
}

const (
	hour = int64(time.Hour)
	day  = 24 * hour
)

// Profile steers the command mix and the narrow exclusions (known-finding classes).
type Profile struct {
	Weights map[string]int
	// NoSGDurChangeWithLiveGroups leaves the shard-group duration out of an ALTER RETENTION POLICY whose target holds a
	// shard group (known class C16-overlap-after-shard-duration-change); counted in Excluded.
	NoSGDurChangeWithLiveGroups bool
	// NoMixedShardType does not re-create a measurement with another sharding type while its mark-deleted predecessor is the
	// only other measurement of the policy (would leave the policy with two sharding types).
	NoMixedShardType bool
	// NoExtremeTimes keeps shard-group timestamps inside the range whose truncated start is representable as int64 nanoseconds
	// (known class: the start of such a group wraps around in the snapshot).
	NoExtremeTimes bool
	// NoInitShardsAboveGroupSize avoids CREATE MEASUREMENT ... SHARDS n with n above the size of an existing shard group.
	NoInitShardsAboveGroupSize bool
	// NoDropDefaultRP does not mark the default policy of a database for deletion.
	NoDropDefaultRP bool
	// NoAmbiguousDropSubscription does not send DROP SUBSCRIPTION name ON db (without policy) when several policies of the
	// database hold a subscription of that name (known class: which one goes depends on map iteration order).
	NoAmbiguousDropSubscription bool
	// NoCancelDeleteNextToReplacement does not revive (CancelDelete) a deleted shard group whose span a live group covers.
	NoCancelDeleteNextToReplacement bool
	// IndexDeleteOnlyWhenUnreferenced models the retention service: an index group is deleted / its indexes pruned only when no
	// live shard group refers to it any more (index groups outlive the shard groups they serve).
	IndexDeleteOnlyWhenUnreferenced bool
	// NoSchemaConflictAfterNewField puts a conflicting field first in an UpdateSchemaCommand (known class: the command adds
	// the fields in front of the conflicting one and then fails).
	NoSchemaConflictAfterNewField bool
	// NoTagFieldNameClash does not declare the same name as tag and as field in CREATE MEASUREMENT (known class: the
	// measurement is created and the command then fails on the schema).
	NoTagFieldNameClash bool
	// NoDownSampleReportAcrossSparseGroups does not send a shard down-sample report when another shard group of the same policy
	// spans the shard id without holding it (ids become non-contiguous after ExpandGroups): UpdateShardDownSampleInfo panics.
	NoDownSampleReportAcrossSparseGroups bool
}

// Weights of the broad C15 mix (every registered command type the harness can shape like a real sender).
func BroadWeights() map[string]int {
	return map[string]int{
		"createdatanode": 6, "createdb": 6, "createdb_rp": 4, "createrp": 5, "updaterp": 6, "setdefaultrp": 2, "markrpdel": 2, "droprp": 2,
		"markdbdel": 2, "dropdb": 2, "createmst": 8, "createmst_simple": 3, "altershardkey": 3, "updateschema": 5, "markmstdel": 3, "dropmst": 3,
		"updatemst": 2, "createsg": 12, "deletesg": 5, "deleteig": 2, "prune": 6, "shardtier": 2, "indextier": 4, "sharddownsample": 3,
		"createuser": 3, "dropuser": 1, "updateuser": 1, "setpriv": 2, "setadmin": 1,
		"createsqlnode": 2, "createmetanode": 2, "setmetanode": 1, "deletemetanode": 1, "deletedatanode": 1, "nodestatus": 3, "sqlnodestatus": 1,
		"metanodestatus": 1, "removenode": 1, "segregate": 1, "nodetmpindex": 1, "verifydatanode": 1, "expandgroups": 2, "marktakeover": 1, "markbalancer": 1,
		"updateptinfo": 3, "updateptversion": 1, "createevent": 2, "updateevent": 1, "removeevent": 1, "updatereplication": 1,
		"createstream": 2, "dropstream": 1, "createcq": 2, "dropcq": 1, "cqreport": 1, "cqlease": 1, "createsub": 2, "dropsub": 1,
		"createdownsample": 2, "dropdownsample": 1, "registerqueryid": 1, "insertfiles": 1, "resharding": 3, "mergeshards": 5,
	}
}

// Weights of the C16 mix: create/alter/drop of databases, policies, measurements, shard groups, prune, node join/leave,
// partition changes, shard-key changes and duration changes.
func CatalogueWeights() map[string]int {
	return map[string]int{
		"createdatanode": 6, "createdb": 6, "createdb_rp": 5, "createrp": 6, "updaterp": 10, "setdefaultrp": 3, "markrpdel": 3, "droprp": 3,
		"markdbdel": 2, "dropdb": 2, "createmst": 8, "createmst_simple": 3, "altershardkey": 4, "updateschema": 2, "markmstdel": 3, "dropmst": 3,
		"createsg": 22, "deletesg": 8, "deleteig": 3, "prune": 9, "shardtier": 1, "indextier": 1,
		"nodestatus": 3, "removenode": 1, "segregate": 1, "expandgroups": 3, "updateptinfo": 3, "updateptversion": 1,
		"createevent": 1, "removeevent": 1, "marktakeover": 1, "createdownsample": 1, "dropdownsample": 1, "createsub": 1, "dropsub": 1,
	}
}

var (
	dbPool    = []string{"d0", "d1", "d2"}
	rpPool    = []string{"autogen", "rp0", "rp1"}
	mstPool   = []string{"m0", "m1", "m2"}
	userPool  = []string{"u0", "u1", "u2"}
	fieldPool = []string{"f0", "f1", "f2", "t0", "t1"}
	tagPool   = []string{"t0", "t1", "t2"}
)

// Gen is a state-aware command generator: it keeps its own FSM instance in step with the commands it emits so that ids and
// names can be drawn from what exists (and from what existed).
type Gen struct {
	Cfg  Config
	Prof Profile
	F    *metasvc.VerifFSM
	Ops  []Op
	Res  []string
	// per kind: generated / succeeded
	Generated map[string]int
	Succeeded map[string]int
	Excluded  map[string]int
	Panic     string // set when the generator-side instance panicked on the last op
	kinds     []string
	total     int
	everShard []uint64
	everIndex []uint64
	everSG    []uint64
	everIG    []uint64
	ltime     uint64
}

func NewGen(cfg Config, prof Profile) *Gen {
	g := &Gen{Cfg: cfg, Prof: prof, F: NewFSM(cfg), Generated: map[string]int{}, Succeeded: map[string]int{}, Excluded: map[string]int{}}
	for k := range prof.Weights {
		g.kinds = append(g.kinds, k)
	}
	sort.Strings(g.kinds)
	for _, k := range g.kinds {
		g.total += prof.Weights[k]
	}
	return g
}

// SafeApply applies an op and turns a panic of the code under test into a value.
func SafeApply(f *metasvc.VerifFSM, i int, o Op) (res string, panicked string) {
	defer func() {
		if r := recover(); r != nil {
			panicked = fmt.Sprint(r)
		}
	}()
	return Apply(f, i, o), ""
}

func (g *Gen) emit(o Op) bool {
	i := len(g.Ops)
	g.Ops = append(g.Ops, o)
	g.Generated[o.K]++
	res, p := SafeApply(g.F, i, o)
	if p != "" {
		g.Panic = p
		g.Res = append(g.Res, "panic: "+p)
		return false
	}
	g.Res = append(g.Res, res)
	if res == "<nil>" {
		g.Succeeded[o.K]++
	}
	g.remember()
	return res == "<nil>"
}

func addUniq(l []uint64, v uint64) []uint64 {
	for _, x := range l {
		if x == v {
			return l
		}
	}
	if len(l) > 64 {
		return l
	}
	return append(l, v)
}

func (g *Gen) remember() {
	d := g.F.Data()
	for _, db := range d.Databases {
		for _, rp := range db.RetentionPolicies {
			for i := range rp.ShardGroups {
				g.everSG = addUniq(g.everSG, rp.ShardGroups[i].ID)
				for _, s := range rp.ShardGroups[i].Shards {
					g.everShard = addUniq(g.everShard, s.ID)
				}
			}
			for i := range rp.IndexGroups {
				g.everIG = addUniq(g.everIG, rp.IndexGroups[i].ID)
				for _, s := range rp.IndexGroups[i].Indexes {
					g.everIndex = addUniq(g.everIndex, s.ID)
				}
			}
		}
	}
	sort.Slice(g.everShard, func(i, j int) bool { return g.everShard[i] < g.everShard[j] })
	sort.Slice(g.everIndex, func(i, j int) bool { return g.everIndex[i] < g.everIndex[j] })
	sort.Slice(g.everSG, func(i, j int) bool { return g.everSG[i] < g.everSG[j] })
	sort.Slice(g.everIG, func(i, j int) bool { return g.everIG[i] < g.everIG[j] })
}

// ---------------------------------------------------------------- views of the generator-side state (sorted, deterministic)

type rpRef struct {
	db, rp string
	info   *meta.RetentionPolicyInfo
	dbi    *meta.DatabaseInfo
}

func (g *Gen) dbNames() []string {
	var out []string
	for k := range g.F.Data().Databases {
		out = append(out, k)
	}
	sort.Strings(out)
	return out
}

func (g *Gen) rps() []rpRef {
	var out []rpRef
	d := g.F.Data()
	for _, dbn := range g.dbNames() {
		db := d.Databases[dbn]
		var names []string
		for k := range db.RetentionPolicies {
			names = append(names, k)
		}
		sort.Strings(names)
		for _, n := range names {
			out = append(out, rpRef{dbn, n, db.RetentionPolicies[n], db})
		}
	}
	return out
}

// ui draws an (almost) uniform integer in [lo, hi]. rapid's own integer generators are deliberately biased towards small
// values and the bounds, which would skew a weighted choice towards whatever happens to come first; a value assembled from
// single bits is uniform and still shrinks towards lo.
func ui(t *rapid.T, lo, hi int, label string) int {
	n := hi - lo + 1
	if n <= 1 {
		return lo
	}
	bits := 0
	for (1 << bits) < n {
		bits++
	}
	bits += 3 // keeps the modulo bias below 1/8 of a slot
	v := 0
	for i := 0; i < bits; i++ {
		v = v<<1 | rapid.IntRange(0, 1).Draw(t, label)
	}
	return lo + v%n
}

// Uniform is ui for other packages.
func Uniform(t *rapid.T, lo, hi int, label string) int { return ui(t, lo, hi, label) }

func pick[T any](t *rapid.T, l []T, label string) T {
	return l[ui(t, 0, len(l)-1, label)]
}

func (g *Gen) anyDB(t *rapid.T) string {
	names := g.dbNames()
	if len(names) > 0 && ui(t, 0, 9, "dbExisting") < 8 {
		return pick(t, names, "db")
	}
	return pick(t, dbPool, "dbPool")
}

// target picks a (db, rp) pair: mostly an existing one, sometimes names from the pools (unknown / stale).
func (g *Gen) target(t *rapid.T) (string, string, *rpRef) {
	rps := g.rps()
	if len(rps) > 0 && ui(t, 0, 9, "rpExisting") < 8 {
		r := pick(t, rps, "rpRef")
		return r.db, r.rp, &r
	}
	db, rp := g.anyDB(t), pick(t, rpPool, "rpPool")
	for i := range rps {
		if rps[i].db == db && rps[i].rp == rp {
			return db, rp, &rps[i]
		}
	}
	return db, rp, nil
}

// mstOf picks a measurement (origin) name: mostly one the policy knows, sometimes any name of the pool.
func (g *Gen) mstOf(t *rapid.T, ref *rpRef) string {
	if ref != nil && ui(t, 0, 9, "mstExisting") < 7 {
		var names []string
		for k := range ref.info.MstVersions {
			names = append(names, k)
		}
		sort.Strings(names)
		if len(names) > 0 {
			return pick(t, names, "mstRef")
		}
	}
	return pick(t, mstPool, "mst")
}

// writable picks a policy a point could be written to (live database and policy, at least one measurement) - mostly.
func (g *Gen) writable(t *rapid.T) (string, string, *rpRef) {
	if ui(t, 0, 9, "writable") < 7 {
		var c []rpRef
		for _, r := range g.rps() {
			if !r.dbi.MarkDeleted && !r.info.MarkDeleted && len(r.info.Measurements) > 0 {
				c = append(c, r)
			}
		}
		if len(c) > 0 {
			r := pick(t, c, "writableRef")
			return r.db, r.rp, &r
		}
	}
	return g.target(t)
}

func (g *Gen) existingOr(t *rapid.T, existing []string, pool []string, label string) string {
	sort.Strings(existing)
	if len(existing) > 0 && ui(t, 0, 9, label+"Existing") < 7 {
		return pick(t, existing, label+"Ref")
	}
	return pick(t, pool, label)
}

func (g *Gen) userName(t *rapid.T) string {
	var ex []string
	for _, u := range g.F.Data().Users {
		ex = append(ex, u.Name)
	}
	return g.existingOr(t, ex, userPool, "user")
}

// liveIndexRefs returns the index ids live shard groups of the policy refer to.
func liveIndexRefs(rp *meta.RetentionPolicyInfo) map[uint64]bool {
	out := map[uint64]bool{}
	for i := range rp.ShardGroups {
		if rp.ShardGroups[i].Deleted() {
			continue
		}
		for _, s := range rp.ShardGroups[i].Shards {
			out[s.IndexID] = true
		}
	}
	return out
}

func igReferenced(rp *meta.RetentionPolicyInfo, ig *meta.IndexGroupInfo) bool {
	refs := liveIndexRefs(rp)
	for _, ix := range ig.Indexes {
		if refs[ix.ID] {
			return true
		}
	}
	return false
}

func mstNames(rp *meta.RetentionPolicyInfo) []string {
	var out []string
	for k := range rp.Measurements {
		out = append(out, k)
	}
	sort.Strings(out)
	return out
}

// ---------------------------------------------------------------- value generators

var sgDurs = []int64{hour, 2 * hour, 3 * hour, 4 * hour, day, 7 * day, 30 * int64(time.Minute), 90 * int64(time.Minute)}
var rpDurs = []int64{0, hour, 2 * hour, 6 * hour, day, 2 * day, 30 * day, 200 * day, 30 * int64(time.Minute)}
var tierDurs = []int64{0, hour, 2 * hour, 4 * hour, day, 90 * int64(time.Minute)}
var igDurs = []int64{0, hour, 2 * hour, 4 * hour, day, 2 * day, 90 * int64(time.Minute)}

func optDur(t *rapid.T, pool []int64, pct int, label string) *int64 {
	if ui(t, 0, 99, label+"?") >= pct {
		return nil
	}
	v := pick(t, pool, label)
	return &v
}

// timestamp draws a shard-group timestamp: small multiples of an hour around the epoch with +-1 ns boundary instants,
// day/week grid points, far past / far future, and the extremes a client may write.
func (g *Gen) timestamp(t *rapid.T) int64 {
	switch ui(t, 0, 19, "tsClass") {
	case 0, 1, 2, 3, 4, 5, 6, 7, 8, 9:
		return int64(ui(t, 0, 12, "tsHour")) * hour
	case 10, 11:
		return int64(ui(t, 0, 12, "tsHour"))*hour + int64(pick(t, []int{-1, 1, 1800e9}, "tsOff"))
	case 12, 13:
		return int64(ui(t, -3, 20, "tsDay")) * day
	case 14:
		return int64(ui(t, -60, -1, "tsNegHour")) * hour
	case 15:
		return int64(ui(t, 2800, 2810, "tsWeek")) * 7 * day // ~ year 2023
	case 16:
		return pick(t, []int64{-8000000000 * int64(time.Second), 7000000000 * int64(time.Second)}, "tsFar") // 1716, 2191
	case 17:
		v := pick(t, []int64{math.MinInt64 + 2, math.MaxInt64 - 1, math.MinInt64 + 2 + 8*day, math.MaxInt64 - 1 - 8*day}, "tsExtreme")
		if g.Prof.NoExtremeTimes && v < math.MinInt64+8*day {
			// the group start (timestamp truncated to the shard duration) would lie below the smallest int64 nanosecond
			g.Excluded["group-start-below-int64-nanoseconds"]++
			return math.MinInt64 + 2 + 8*day
		}
		return v
	default:
		return rapid.Int64Range(-400*day, 20000*day).Draw(t, "tsAny")
	}
}

func (g *Gen) shardKey(t *rapid.T) []string {
	switch ui(t, 0, 3, "skN") {
	case 0:
		return nil
	case 1:
		return []string{pick(t, tagPool, "sk")}
	default:
		return []string{"t0", "t1"} // sorted, as the parser leaves it
	}
}

func (g *Gen) schemaFields(t *rapid.T, n int) []Field {
	var out []Field
	used := map[string]bool{}
	for i := 0; i < n; i++ {
		name := pick(t, fieldPool, "fname")
		if used[name] {
			continue // the columns of one written row have distinct names
		}
		used[name] = true
		typ := int32(ui(t, 1, 5, "ftype"))
		if name[0] == 't' {
			typ = 6 // tag
		} else if ui(t, 0, 4, "fstable") > 0 {
			typ = int32(name[1]-'0') + 1 // usually a stable type per field name, sometimes a conflicting one
		}
		f := Field{N: name, T: typ}
		if g.Cfg.SchemaCleanEn {
			f.E = int32(ui(t, 0, 6, "fend"))
		}
		out = append(out, f)
	}
	return out
}

// ---------------------------------------------------------------- one generation step

// Step draws the next command(s) (a CREATE DATABASE is two log entries, as in ts-meta) and applies them to the generator's
// own instance. It returns the number of ops emitted (0 when the drawn kind had nothing in-domain to say).
func (g *Gen) Step(t *rapid.T) int {
	before := len(g.Ops)
	d := g.F.Data()
	var kind string
	// early bias: a cluster needs a store node and a database before anything else can succeed
	if len(d.DataNodes) == 0 && ui(t, 0, 3, "boot") > 0 && g.Prof.Weights["createdatanode"] > 0 {
		kind = "createdatanode"
	} else if len(d.Databases) == 0 && len(d.DataNodes) > 0 && ui(t, 0, 2, "bootdb") > 0 {
		kind = pick(t, []string{"createdb", "createdb_rp"}, "bootdbKind")
	} else {
		x := ui(t, 0, g.total-1, "kind")
		for _, k := range g.kinds {
			if x < g.Prof.Weights[k] {
				kind = k
				break
			}
			x -= g.Prof.Weights[k]
		}
	}
	g.gen(t, kind)
	return len(g.Ops) - before
}

func (g *Gen) nodeAddr(t *rapid.T) int { return ui(t, 1, 4, "node") }

func (g *Gen) nodeID(t *rapid.T, nodes []meta.DataNode) uint64 {
	if len(nodes) > 0 && ui(t, 0, 9, "nodeExisting") < 8 {
		return pick(t, nodes, "nodeRef").ID
	}
	return uint64(ui(t, 0, 9, "nodeID"))
}

type sgRef struct {
	r  rpRef
	sg *meta.ShardGroupInfo
}

func (g *Gen) groups() []sgRef {
	var out []sgRef
	for _, r := range g.rps() {
		for i := range r.info.ShardGroups {
			out = append(out, sgRef{r, &r.info.ShardGroups[i]})
		}
	}
	return out
}

func (g *Gen) gen(t *rapid.T, kind string) {
	d := g.F.Data()
	switch kind {
	case "createdatanode":
		k := g.nodeAddr(t)
		role := pick(t, []string{"", "", "", "writer", "reader"}, "role")
		op := Op{K: kind, Name: fmt.Sprintf("127.0.0.%d:8400", k), S: fmt.Sprintf("127.0.0.%d:8401", k), S2: role}
		if az := pick(t, []string{"", "az1", "az2"}, "az"); az != "" { // [data] availability-zone of the store's config
			op.SS = []string{az}
		}
		g.emit(op)
	case "createsqlnode":
		k := g.nodeAddr(t)
		g.emit(Op{K: kind, Name: fmt.Sprintf("127.0.0.%d:8086", k), S: fmt.Sprintf("127.0.0.%d:8011", k)})
	case "createmetanode", "setmetanode":
		k := g.nodeAddr(t)
		g.emit(Op{K: kind, Name: fmt.Sprintf("127.0.0.%d:8091", k), S: fmt.Sprintf("127.0.0.%d:8092", k), S2: fmt.Sprintf("127.0.0.%d:8088", k), ID: uint64(ui(t, 1, 1000, "rand"))})
	case "deletemetanode":
		var id uint64
		if len(d.MetaNodes) > 0 && rapid.Bool().Draw(t, "existing") {
			id = pick(t, d.MetaNodes, "mn").ID
		} else {
			id = uint64(ui(t, 0, 9, "id"))
		}
		g.emit(Op{K: kind, ID: id})
	case "deletedatanode", "verifydatanode":
		g.emit(Op{K: kind, ID: g.nodeID(t, d.DataNodes)})
	case "nodestatus", "sqlnodestatus", "metanodestatus":
		var id uint64
		switch kind {
		case "nodestatus":
			id = g.nodeID(t, d.DataNodes)
		case "sqlnodestatus":
			id = g.nodeID(t, d.SqlNodes)
		default:
			if len(d.MetaNodes) > 0 {
				id = pick(t, d.MetaNodes, "mn").ID
			}
		}
		// serf member status: none 0, alive 1, leaving 2, left 3, failed 4; lamport time mostly advancing, sometimes stale
		if ui(t, 0, 5, "ltimeAdv") > 0 {
			g.ltime += uint64(ui(t, 0, 2, "ltimeStep"))
		}
		lt := g.ltime
		if ui(t, 0, 7, "ltimeStale") == 0 && lt > 0 {
			lt--
		}
		g.emit(Op{K: kind, ID: id, N: int64(pick(t, []int{1, 1, 4, 3, 2, 0}, "status")), ID2: lt, S: "8011"})
	case "removenode":
		// SQL "remove node": only nodes that were segregated first are removed by the real sender; unknown ids are ignored
		g.emit(Op{K: kind, IDs: []uint64{g.nodeID(t, d.DataNodes)}})
	case "segregate":
		g.emit(Op{K: kind, IDs: []uint64{g.nodeID(t, d.DataNodes)}, Ns: []int64{int64(ui(t, 0, 2, "seg"))}})
	case "nodetmpindex":
		role := ui(t, 0, 2, "role")
		nodes := d.DataNodes
		if role == 0 {
			nodes = d.SqlNodes
		}
		g.emit(Op{K: kind, N: int64(role), ID: uint64(len(g.Ops) + ui(t, 0, 3, "idx")), ID2: g.nodeID(t, nodes)})
	case "expandgroups", "cqlease", "insertfiles":
		g.emit(Op{K: kind})
	case "marktakeover", "markbalancer":
		g.emit(Op{K: kind, B: rapid.Bool().Draw(t, "enable")})

	case "createdb", "createdb_rp":
		db := pick(t, dbPool, "dbPool")
		var op Op
		if kind == "createdb" {
			op = Op{K: kind, DB: db, B: ui(t, 0, 4, "tagarr") == 0, B2: ui(t, 0, 6, "obs") == 0}
		} else {
			op = Op{K: kind, DB: db, RP: pick(t, rpPool, "rpPool"), B: ui(t, 0, 4, "tagarr") == 0,
				Dur: optDur(t, rpDurs, 50, "dur"), SGDur: optDur(t, sgDurs, 60, "sgdur"), Hot: optDur(t, tierDurs, 10, "hot"), Warm: optDur(t, tierDurs, 10, "warm"),
				IGDur: optDur(t, igDurs, 20, "igdur"), ICold: optDur(t, tierDurs, 5, "icold"), Merge: optDur(t, igDurs, 8, "merge")}
			g.mergeDur(t, &op)
			if ui(t, 0, 3, "dbski") == 0 {
				op.SS, op.S = []string{pick(t, tagPool, "sk")}, "hash"
			}
			if !op.ClientAccepts() {
				g.Excluded["client-rejects-rp-spec"]++
				return
			}
		}
		// ts-meta applies CreateDbPtViewCommand first and forwards the CreateDatabaseCommand only when that succeeded
		if !g.emit(Op{K: "createdbpt", DB: db}) || g.Panic != "" {
			return
		}
		g.emit(op)
	case "markdbdel":
		g.emit(Op{K: kind, DB: g.anyDB(t)})
	case "dropdb":
		// sent by ts-meta once the stores have dropped the data of a database that is marked for deletion (or again after a retry)
		var cands []string
		for _, n := range g.dbNames() {
			if d.Databases[n].MarkDeleted {
				cands = append(cands, n)
			}
		}
		for _, n := range dbPool {
			if d.Databases[n] == nil {
				cands = append(cands, n)
			}
		}
		if len(cands) == 0 {
			return
		}
		g.emit(Op{K: kind, DB: pick(t, cands, "db")})
	case "createrp":
		op := Op{K: kind, DB: g.anyDB(t), RP: pick(t, rpPool, "rpPool"), B: ui(t, 0, 3, "default") == 0,
			Dur: optDur(t, rpDurs, 60, "dur"), SGDur: optDur(t, sgDurs, 60, "sgdur"), Hot: optDur(t, tierDurs, 10, "hot"), Warm: optDur(t, tierDurs, 10, "warm"),
			IGDur: optDur(t, igDurs, 20, "igdur"), ICold: optDur(t, tierDurs, 5, "icold"), Merge: optDur(t, igDurs, 8, "merge")}
		g.mergeDur(t, &op)
		if !op.ClientAccepts() {
			g.Excluded["client-rejects-rp-spec"]++
			return
		}
		g.emit(op)
	case "updaterp":
		db, rp, ref := g.target(t)
		op := Op{K: kind, DB: db, RP: rp, B: ui(t, 0, 5, "default") == 0,
			Dur: optDur(t, rpDurs, 35, "dur"), SGDur: optDur(t, sgDurs, 50, "sgdur"), Hot: optDur(t, tierDurs, 15, "hot"), Warm: optDur(t, tierDurs, 15, "warm"),
			IGDur: optDur(t, igDurs, 25, "igdur"), ICold: optDur(t, tierDurs, 10, "icold")}
		// (a group that is marked deleted counts too: "recall data" can revive it)
		if g.Prof.NoSGDurChangeWithLiveGroups && op.SGDur != nil && ref != nil && len(ref.info.ShardGroups) > 0 {
			nd := time.Duration(*op.SGDur)
			if nd < time.Hour {
				nd = time.Hour // normalisedShardDuration
			}
			if nd != ref.info.ShardGroupDuration {
				g.Excluded["shard-duration-change-with-live-groups"]++
				op.SGDur = nil
			}
		}
		g.emit(op)
	case "setdefaultrp":
		db, rp, _ := g.target(t)
		g.emit(Op{K: kind, DB: db, RP: rp})
	case "markrpdel":
		db, rp, ref := g.target(t)
		if g.Prof.NoDropDefaultRP && ref != nil && ref.dbi.DefaultRetentionPolicy == rp {
			g.Excluded["drop-default-rp"]++
			return
		}
		g.emit(Op{K: kind, DB: db, RP: rp})
	case "droprp":
		// sent by ts-meta for policies that are marked for deletion (or again after a retry, when already gone)
		type c struct{ db, rp string }
		var cands []c
		for _, r := range g.rps() {
			if r.info.MarkDeleted {
				cands = append(cands, c{r.db, r.rp})
			}
		}
		for _, dbn := range g.dbNames() {
			for _, rp := range rpPool {
				if d.Databases[dbn].RetentionPolicies[rp] == nil {
					cands = append(cands, c{dbn, rp})
				}
			}
		}
		if len(cands) == 0 {
			return
		}
		x := pick(t, cands, "rp")
		g.emit(Op{K: kind, DB: x.db, RP: x.rp})

	case "createmst", "createmst_simple":
		db, rp, ref := g.target(t)
		mst := pick(t, mstPool, "mst")
		if kind == "createmst_simple" {
			if ref != nil && g.Prof.NoMixedShardType {
				for _, n := range mstNames(ref.info) {
					m := ref.info.Measurements[n]
					if m.MarkDeleted && m.OriginName() == mst && len(m.ShardKeys) > 0 && m.ShardKeys[0].Type != meta.HASH {
						g.Excluded["recreate-measurement-with-other-shard-type"]++
						return
					}
				}
			}
			g.emit(Op{K: kind, DB: db, RP: rp, Mst: mst, N: int64(ui(t, 0, 4, "engine") / 4)})
			return
		}
		op := Op{K: kind, DB: db, RP: rp, Mst: mst, S: pick(t, []string{"hash", "hash", "hash", "range"}, "shardType"), SS: g.shardKey(t),
			N: int64(ui(t, 0, 4, "engine") / 4), N2: int64(pick(t, []int{0, 0, 0, -1, 1, 2, 5}, "numShards")),
			B: ui(t, 0, 5, "ir") == 0, B2: rapid.Bool().Draw(t, "opts")}
		if op.S == "range" {
			op.N2 = 0 // the parser refuses SHARDS n for range sharding
		}
		// half of the commands take the complete shape of one concrete sender, so that every field of ColStoreInfo, of the index
		// relation and of Options gets non-zero values: the SQL statement (row store / column store) or the create-logstream request
		shape := ui(t, 0, 9, "mstShape")
		switch {
		case shape < 2:
			g.sqlRowStore(t, &op, ref)
		case shape < 4:
			g.sqlColumnStore(t, &op)
		case shape == 4:
			g.logstream(t, &op, ref)
		}
		if op.M == nil && ui(t, 0, 3, "schema") == 0 {
			// stmt.Tags and stmt.Fields are maps: a name occurs once per map, but may be declared as tag AND as field
			for _, n := range []string{"t0", "t1"} {
				if ui(t, 0, 2, "withTag") == 0 {
					op.F = append(op.F, Field{N: n, T: 6})
				}
			}
			for _, n := range []string{"f0", "f1", "t0"} {
				if ui(t, 0, 2, "withField") == 0 {
					if n == "t0" && g.Prof.NoTagFieldNameClash && len(op.F) > 0 && op.F[0].N == "t0" {
						g.Excluded["tag-and-field-of-same-name-in-create-measurement"]++
						continue
					}
					op.F = append(op.F, Field{N: n, T: int32(ui(t, 1, 5, "ftype"))})
				}
			}
		}
		if ref != nil {
			if g.Prof.NoMixedShardType {
				// the hole: validMeasurementShardType skips measurements of the same name, so a mark-deleted predecessor of another
				// sharding type does not stop the re-creation
				for _, n := range mstNames(ref.info) {
					m := ref.info.Measurements[n]
					if m.MarkDeleted && m.OriginName() == op.Mst && len(m.ShardKeys) > 0 && m.ShardKeys[0].Type != op.S {
						g.Excluded["recreate-measurement-with-other-shard-type"]++
						op.S = m.ShardKeys[0].Type
						if op.S == "range" {
							op.N2 = 0
						}
						break
					}
				}
			}
			if g.Prof.NoInitShardsAboveGroupSize && op.N2 != 0 {
				n := op.N2
				if n == -1 {
					n = int64(d.NumOfShards)
				}
				for i := range ref.info.ShardGroups {
					if int64(len(ref.info.ShardGroups[i].Shards)) < n {
						g.Excluded["init-shards-above-group-size"]++
						op.N2 = 0
						break
					}
				}
			}
		}
		g.emit(op)
	case "altershardkey":
		db, rp, ref := g.target(t)
		g.emit(Op{K: kind, DB: db, RP: rp, Mst: g.mstOf(t, ref), S: pick(t, []string{"hash", "hash", "range"}, "shardType"), SS: g.shardKey(t)})
	case "updateschema":
		db, rp, ref := g.writable(t)
		op := Op{K: kind, DB: db, RP: rp, Mst: g.mstOf(t, ref), F: g.schemaFields(t, ui(t, 1, 3, "nfields"))}
		if g.Prof.NoSchemaConflictAfterNewField && len(op.F) > 1 {
			// would a later field conflict (with the catalogue or with an earlier field of the same command)?
			known := map[string]int32{}
			if ref != nil {
				if m := ref.info.Measurement(op.Mst); m != nil && m.Schema != nil {
					m.Schema.RangeTypCall(func(k string, typ int32) { known[k] = typ })
				}
			}
			for i, f := range op.F {
				if typ, ok := known[f.N]; ok && typ != f.T {
					if i > 0 {
						g.Excluded["schema-conflict-after-applied-fields"]++
						op.F[0], op.F[i] = op.F[i], op.F[0]
					}
					break
				}
			}
		}
		g.emit(op)
	case "markmstdel":
		db, rp, ref := g.target(t)
		g.emit(Op{K: kind, DB: db, RP: rp, Mst: g.mstOf(t, ref)})
	case "updatemst":
		db, rp, ref := g.target(t)
		op := Op{K: kind, DB: db, RP: rp, Mst: g.mstOf(t, ref), N: pick(t, []int64{0, 1, 3, day, 3 * day}, "ttl")}
		if rapid.Bool().Draw(t, "fullOptions") { // update-logstream request: the body is decoded into an Options WITHOUT defaults, then validated
			op.O = g.optSpec(t, false)
		}
		g.emit(op)
	case "dropmst":
		// ts-meta sends the versioned name of a measurement that is marked for deletion (or again after a retry)
		type c struct{ db, rp, m string }
		var cands []c
		for _, r := range g.rps() {
			for _, n := range mstNames(r.info) {
				if r.info.Measurements[n].MarkDeleted {
					cands = append(cands, c{r.db, r.rp, n})
				}
			}
			cands = append(cands, c{r.db, r.rp, "m0_0009"})
		}
		if len(cands) == 0 {
			return
		}
		x := pick(t, cands, "mst")
		g.emit(Op{K: kind, DB: x.db, RP: x.rp, Mst: x.m})

	case "createsg":
		db, rp, ref := g.writable(t)
		eng := int64(0)
		if ref != nil {
			// the writer passes the engine type of the measurement it writes to
			if names := mstNames(ref.info); len(names) > 0 {
				eng = int64(ref.info.Measurements[pick(t, names, "mstForEngine")].EngineType)
			}
		} else {
			eng = int64(ui(t, 0, 4, "engine") / 4)
		}
		ts := g.timestamp(t)
		if ref != nil && ref.info.ShardMergeDuration != 0 && len(ref.info.ShardGroups) > 0 && rapid.Bool().Draw(t, "adjacent") {
			// a policy that merges shards: write right behind the newest group, so that a later merge report finds time-consecutive groups
			// (a group that ends at the end of time has no successor: the largest timestamp a client can write is MaxInt64-1)
			if e := ref.info.ShardGroups[len(ref.info.ShardGroups)-1].EndTime.UnixNano(); e < math.MaxInt64-1 {
				ts = e
			}
		}
		g.emit(Op{K: kind, DB: db, RP: rp, N: ts, ID: uint64(pick(t, []int{1, 1, 1, 2}, "tier")), N2: eng, ID2: uint64(ui(t, 0, 5, "ver") / 5)})
	case "deletesg":
		gs := g.groups()
		var op Op
		if len(gs) > 0 && ui(t, 0, 9, "sgExisting") < 8 {
			x := pick(t, gs, "sg")
			op = Op{K: kind, DB: x.r.db, RP: x.r.rp, ID: x.sg.ID}
		} else {
			db, rp, _ := g.target(t)
			op = Op{K: kind, DB: db, RP: rp, ID: g.staleID(t, g.everSG)}
		}
		op.N = int64(pick(t, []int{0, 0, 0, 1}, "deleteType")) // MarkDelete / CancelDelete
		if op.N == 1 && g.Prof.NoCancelDeleteNextToReplacement {
			// "recall data" revives the groups of a policy; expired spans cannot have been written to in the meantime, so no
			// live group covers the span of a group that is revived
			for _, x := range gs {
				if x.r.db == op.DB && x.r.rp == op.RP && x.sg.ID == op.ID && x.sg.Deleted() {
					// ... and the indexes of a group that is revived are still there (index groups outlive their shard groups)
					have := map[uint64]bool{}
					for i := range x.r.info.IndexGroups {
						for _, ix := range x.r.info.IndexGroups[i].Indexes {
							have[ix.ID] = true
						}
					}
					for _, sh := range x.sg.Shards {
						if !have[sh.IndexID] && op.N == 1 {
							g.Excluded["cancel-delete-after-index-pruned"]++
							op.N = 0
						}
					}
					for i := range x.r.info.ShardGroups {
						o := &x.r.info.ShardGroups[i]
						if !o.Deleted() && o.EngineType == x.sg.EngineType && o.StartTime.Before(x.sg.EndTime) && x.sg.StartTime.Before(o.EndTime) {
							g.Excluded["cancel-delete-next-to-replacement-group"]++
							op.N = 0
						}
					}
				}
			}
		}
		if ui(t, 0, 3, "delay") == 0 {
			op.N2 = 1700000000 * int64(time.Second)
		}
		g.emit(op)
	case "deleteig":
		type c struct {
			db, rp string
			id     uint64
		}
		var cands []c
		for _, r := range g.rps() {
			for i := range r.info.IndexGroups {
				if g.Prof.IndexDeleteOnlyWhenUnreferenced && igReferenced(r.info, &r.info.IndexGroups[i]) {
					continue
				}
				cands = append(cands, c{r.db, r.rp, r.info.IndexGroups[i].ID})
			}
		}
		if len(cands) > 0 && ui(t, 0, 9, "igExisting") < 8 {
			x := pick(t, cands, "ig")
			g.emit(Op{K: kind, DB: x.db, RP: x.rp, ID: x.id})
		} else {
			db, rp, _ := g.target(t)
			g.emit(Op{K: kind, DB: db, RP: rp, ID: g.staleID(t, g.everIG)})
		}
	case "prune":
		// the store reports the shard / index it has removed: ids that exist(ed)
		if ui(t, 0, 3, "pruneKind") > 0 {
			var ids []uint64
			// prefer shards of groups that are marked deleted (that is what the retention service prunes)
			for _, x := range g.groups() {
				if x.sg.Deleted() || ui(t, 0, 3, "alsoLive") == 0 {
					for _, s := range x.sg.Shards {
						if !s.MarkDelete {
							ids = append(ids, s.ID)
						}
					}
				}
			}
			if len(ids) == 0 {
				ids = g.everShard
			}
			if len(ids) == 0 {
				return
			}
			g.emit(Op{K: kind, B: true, ID: pick(t, ids, "shard")})
		} else {
			ids := g.everIndex
			if g.Prof.IndexDeleteOnlyWhenUnreferenced {
				ids = nil
				live := map[uint64]bool{}
				for _, r := range g.rps() {
					for i := range r.info.IndexGroups {
						ig := &r.info.IndexGroups[i]
						for _, ix := range ig.Indexes {
							live[ix.ID] = true
							if ig.Deleted() && !igReferenced(r.info, ig) && !ix.MarkDelete {
								ids = append(ids, ix.ID)
							}
						}
					}
				}
				for _, id := range g.everIndex { // an index that is gone already (repeated report)
					if !live[id] {
						ids = append(ids, id)
					}
				}
			}
			if len(ids) == 0 {
				return
			}
			g.emit(Op{K: kind, B: false, ID: pick(t, ids, "index")})
		}
	case "shardtier", "indextier":
		type c struct {
			db, rp string
			id     uint64
		}
		var cands []c
		for _, r := range g.rps() {
			if kind == "shardtier" {
				for i := range r.info.ShardGroups {
					for _, s := range r.info.ShardGroups[i].Shards {
						cands = append(cands, c{r.db, r.rp, s.ID})
					}
				}
			} else {
				for i := range r.info.IndexGroups {
					for _, s := range r.info.IndexGroups[i].Indexes {
						cands = append(cands, c{r.db, r.rp, s.ID})
					}
				}
			}
		}
		if len(cands) > 0 && ui(t, 0, 9, "existing") < 8 {
			x := pick(t, cands, "ref")
			tier := int64(ui(t, 1, 4, "tier"))
			if kind == "indextier" && rapid.Bool().Draw(t, "cold") {
				tier = 3 // util.Cold: recorded in the index group's replica clear info
			}
			g.emit(Op{K: kind, DB: x.db, RP: x.rp, ID: x.id, N: tier})
		} else {
			db, rp, _ := g.target(t)
			g.emit(Op{K: kind, DB: db, RP: rp, ID: uint64(ui(t, 0, 40, "id")), N: int64(ui(t, 1, 4, "tier"))})
		}
	case "sharddownsample":
		// the store reports about a shard it owns: an existing (db, rp, group, shard) tuple
		gs := g.groups()
		if len(gs) == 0 {
			return
		}
		x := pick(t, gs, "sg")
		si := ui(t, 0, len(x.sg.Shards)-1, "shard")
		s := x.sg.Shards[si]
		if g.Prof.NoDownSampleReportAcrossSparseGroups {
			for i := range x.r.info.ShardGroups {
				o := &x.r.info.ShardGroups[i]
				if o.Shards[0].ID <= s.ID && s.ID <= o.Shards[len(o.Shards)-1].ID && o.Shard(s.ID) == nil {
					g.Excluded["downsample-report-across-sparse-shard-ids"]++
					return
				}
			}
		}
		g.emit(Op{K: kind, DB: x.r.db, RP: x.r.rp, ID: s.ID, ID2: x.sg.ID, N: int64(s.Owners[0]), S: "hash", N2: int64(ui(t, 0, 2, "level")),
			IDs: []uint64{uint64(ui(t, 0, 2, "dsid"))}, B: rapid.Bool().Draw(t, "ro")})
	case "resharding":
		// ts-meta splits the newest shard group of a range-sharded policy
		for _, r := range g.rps() {
			if r.info.MarkDeleted || r.dbi.MarkDeleted || len(r.info.ShardGroups) == 0 {
				continue
			}
			rangeType := false
			for _, n := range mstNames(r.info) {
				m := r.info.Measurements[n]
				if len(m.ShardKeys) > 0 && m.ShardKeys[0].Type == meta.RANGE {
					rangeType = true
				}
			}
			if !rangeType {
				continue
			}
			last := &r.info.ShardGroups[len(r.info.ShardGroups)-1]
			if last.EndTime.Sub(last.StartTime) < 2 || int(d.ClusterPtNum) < 2 {
				continue
			}
			id := last.ID
			if ui(t, 0, 5, "staleSG") == 0 {
				id = g.staleID(t, g.everSG)
			}
			split := last.StartTime.UnixNano() + int64(last.EndTime.Sub(last.StartTime))/2
			// the split never asks for more shards than the policy's index groups have indexes (the sender's own rule is not
			// known to the harness; CreateShardGroupWithBounds indexes igi.Indexes by partition id)
			maxShards := int(d.ClusterPtNum)
			for i := range r.info.IndexGroups {
				if n := len(r.info.IndexGroups[i].Indexes); n < maxShards {
					maxShards = n
				}
			}
			if maxShards < 2 {
				continue
			}
			nb := ui(t, 1, maxShards-1, "nbounds")
			var bounds []string
			for i := 0; i < nb; i++ {
				bounds = append(bounds, fmt.Sprintf("k%d", i))
			}
			g.emit(Op{K: kind, DB: r.db, RP: r.rp, ID: id, N: split, SS: bounds})
			return
		}
	case "mergeshards":
		// the store reports shards of ONE partition, taken from time-consecutive live groups of one policy, in time order
		for _, r := range g.rps() {
			if r.info.ShardMergeDuration == 0 || r.info.MarkDeleted || r.dbi.MarkDeleted || len(r.info.Measurements) == 0 {
				continue
			}
			gs := r.info.ShardGroups
			// runs of adjacent live groups of one engine type
			type run struct{ from, to int }
			var runs []run
			for i := 0; i+1 < len(gs); i++ {
				j := i
				for j+1 < len(gs) && !gs[j].Deleted() && !gs[j+1].Deleted() && gs[j+1].EngineType == gs[i].EngineType && gs[j+1].StartTime.Equal(gs[j].EndTime) {
					j++
				}
				if j > i {
					runs = append(runs, run{i, j})
				}
			}
			if len(runs) == 0 {
				// nothing to merge yet: write next to the newest group instead, so that a later report finds neighbours
				ts, eng := int64(0), int64(0)
				if len(gs) > 0 {
					ts, eng = gs[len(gs)-1].EndTime.UnixNano(), int64(gs[len(gs)-1].EngineType)
					if ts >= math.MaxInt64-1 { // the newest group ends at the end of time: no timestamp behind it
						continue
					}
				} else {
					eng = int64(r.info.Measurements[mstNames(r.info)[0]].EngineType)
				}
				g.emit(Op{K: "createsg", DB: r.db, RP: r.rp, N: ts, ID: 1, N2: eng})
				return
			}
			x := pick(t, runs, "mergeRun")
			to := ui(t, x.from+1, x.to, "mergeTo")
			var ids []uint64
			for i := x.from; i <= to; i++ {
				for _, sh := range gs[i].Shards {
					if len(sh.Owners) > 0 && sh.Owners[0] == 0 {
						ids = append(ids, sh.ID)
						break
					}
				}
			}
			if len(ids) == to-x.from+1 {
				g.emit(Op{K: kind, DB: r.db, RP: r.rp, N: 0, IDs: ids})
			}
			return
		}

	case "createuser":
		g.emit(Op{K: kind, Name: pick(t, userPool, "user"), S: "hash" + fmt.Sprint(ui(t, 0, 2, "pw")), B: ui(t, 0, 2, "admin") == 0, B2: ui(t, 0, 3, "rw") == 0})
	case "dropuser":
		g.emit(Op{K: kind, Name: g.userName(t)})
	case "updateuser":
		g.emit(Op{K: kind, Name: g.userName(t), S: "hash" + fmt.Sprint(ui(t, 0, 2, "pw"))})
	case "setpriv":
		g.emit(Op{K: kind, Name: g.userName(t), DB: g.anyDB(t), N: int64(ui(t, 0, 3, "priv"))})
	case "setadmin":
		g.emit(Op{K: kind, Name: g.userName(t), B: rapid.Bool().Draw(t, "admin")})

	case "updateptinfo", "updateptversion", "createevent", "updateevent":
		// ts-meta acts on partitions it has read from its own catalogue (possibly a moment ago)
		var dbs []string
		for k := range d.PtView {
			dbs = append(dbs, k)
		}
		sort.Strings(dbs)
		if len(dbs) == 0 {
			if kind == "updateptversion" {
				g.emit(Op{K: kind, DB: pick(t, dbPool, "dbPool"), N: int64(ui(t, 0, 3, "pt"))})
			}
			return
		}
		db := pick(t, dbs, "ptdb")
		wantPt := -1
		if kind == "updateevent" && len(d.MigrateEvents) > 0 && ui(t, 0, 4, "evExisting") > 0 {
			var evs []string
			for k := range d.MigrateEvents {
				evs = append(evs, k)
			}
			sort.Strings(evs)
			if p := d.MigrateEvents[pick(t, evs, "evRef")].GetPtInfo(); p != nil && p.Pti != nil && int(p.Pti.PtId) < len(d.PtView[p.Db]) {
				db, wantPt = p.Db, int(p.Pti.PtId)
			}
		}
		pts := d.PtView[db]
		if len(pts) == 0 {
			return
		}
		p := pts[ui(t, 0, len(pts)-1, "pt")]
		if wantPt >= 0 {
			p = pts[wantPt]
		}
		switch kind {
		case "updateptversion":
			ptid := int64(p.PtId)
			if ui(t, 0, 5, "ptUnknown") == 0 {
				ptid = int64(len(pts)) + 1
			}
			g.emit(Op{K: kind, DB: db, N: ptid})
		case "updateptinfo":
			owner, status := p.Owner.NodeID, int64(p.Status)
			if ui(t, 0, 4, "stalePt") == 0 { // the view it read is outdated
				status = int64(ui(t, 0, 6, "oldStatus"))
			}
			newOwner := uint64(0)
			if rapid.Bool().Draw(t, "withOwner") {
				newOwner = g.nodeID(t, d.DataNodes)
			}
			g.emit(Op{K: kind, DB: db, N: int64(p.PtId), ID: owner, N2: status, ID2: newOwner, Ns: []int64{int64(pick(t, []int{0, 3, 1, 2, 6}, "newStatus")), int64(p.Ver), int64(p.RGID)}})
		default:
			if d.Databases[db] == nil {
				return // events are created for partitions of existing databases only
			}
			evType := int64(ui(t, 0, 2, "evType"))
			cur, pre := int64(ui(t, 0, 11, "cur")), int64(ui(t, 0, 11, "pre"))
			opID := uint64(0)
			if kind == "updateevent" {
				if e := d.MigrateEvents[fmt.Sprintf("%s$%d", db, p.PtId)]; e != nil && ui(t, 0, 4, "rightOp") > 0 {
					opID = e.GetOpId()
				} else {
					opID = uint64(ui(t, 0, 5, "opid"))
				}
			}
			op := Op{K: kind, DB: db, N: int64(p.PtId), ID: p.Owner.NodeID, N2: int64(p.Status), Ns: []int64{evType, cur, pre, int64(p.Ver)}, ID2: p.Owner.NodeID,
				IDs: []uint64{g.nodeID(t, d.DataNodes), opID}, B: evType == 2, B2: d.Databases[db].EnableTagArray}
			// ts-meta attaches the shards of the partition (balance_store.go: Data.GetShardDurationsByDbPt) to the event's partition info
			sh := d.GetShardDurationsByDbPt(db, p.PtId)
			ids := make([]uint64, 0, len(sh))
			for id := range sh {
				ids = append(ids, id)
			}
			sort.Slice(ids, func(i, j int) bool { return ids[i] < ids[j] })
			for _, id := range ids {
				x := sh[id]
				op.Sh = append(op.Sh, ShardDur{ID: id, SG: x.Ident.ShardGroupID, RP: x.Ident.Policy, Typ: x.Ident.ShardType, DSL: x.Ident.DownSampleLevel, DSID: x.Ident.DownSampleID,
					RO: x.Ident.ReadOnly, Eng: x.Ident.EngineType, Tier: x.DurationInfo.Tier, TierDur: int64(x.DurationInfo.TierDuration), Dur: int64(x.DurationInfo.Duration),
					Merge: int64(x.DurationInfo.MergeDuration)})
			}
			g.emit(op)
		}
	case "removeevent":
		var ids []string
		for k := range d.MigrateEvents {
			ids = append(ids, k)
		}
		sort.Strings(ids)
		ids = append(ids, "d0$0", "d9$1")
		g.emit(Op{K: kind, Name: pick(t, ids, "event")})
	case "updatereplication":
		g.emit(Op{K: kind, DB: g.anyDB(t), N: int64(ui(t, 0, 1, "rg")), N2: int64(ui(t, 0, 2, "master"))})

	case "createstream":
		sdb, srp, _ := g.target(t)
		ddb, drp, _ := g.target(t)
		op := Op{K: kind, Name: pick(t, []string{"s0", "s1"}, "stream"), DB: sdb, RP: srp, Mst: pick(t, mstPool, "srcMst"),
			SS: []string{ddb, drp, pick(t, mstPool, "dstMst")}, Ns: []int64{int64(ui(t, 1, 3, "interval")) * int64(time.Minute), int64(ui(t, 0, 2, "delay")) * int64(time.Second)}}
		if rapid.Bool().Draw(t, "dims") {
			op.SS = append(op.SS, "t0")
		}
		n := ui(t, 1, 2, "ncalls")
		for i := 0; i < n; i++ {
			f := Field{N: fmt.Sprintf("f%d", i), T: int32(ui(t, 0, 3, "call"))} // sorted by field, as NewStreamInfo leaves them
			if ui(t, 0, 3, "alias") == 0 {
				f.E = int32(ui(t, 1, 3, "aliasNo")) // ... AS a<k>
			}
			op.F = append(op.F, f)
		}
		// every field of the catalogue object gets a non-zero value in some cases (a field forgotten by clone / marshal is only
		// visible when it is set). The statement executor builds two shapes: an aggregate stream (NewStreamInfo: calls, dims,
		// interval, delay; never a condition) and, for a SELECT without GROUP BY, a filter stream (NewStreamInfoNoCall: the condition,
		// the select-all flag, plain columns as calls without a call name; no dims, interval or delay)
		if ui(t, 0, 9, "streamKind") < 4 {
			op.S = pick(t, []string{"f0 > 1", "level = 'error'", "f0 > 1 AND t0 = 'a'"}, "cond")
			op.F, op.SS, op.Ns = nil, op.SS[:3], []int64{0, 0}
			op.N = int64(ui(t, 0, 1, "selectAll"))
			for i, n := 0, ui(t, 1, 3, "ncols"); i < n; i++ {
				op.F = append(op.F, Field{N: []string{"f0", "f1", "t0"}[i], T: -1})
			}
		}
		g.emit(op)
	case "dropstream":
		var ex []string
		for k := range d.Streams {
			ex = append(ex, k)
		}
		g.emit(Op{K: kind, Name: g.existingOr(t, ex, []string{"s0", "s1", "s2"}, "stream")})
	case "createcq":
		g.emit(Op{K: kind, DB: g.anyDB(t), Name: pick(t, []string{"cq0", "cq1"}, "cq"), S: pick(t, []string{"CREATE CONTINUOUS QUERY q ON d BEGIN SELECT mean(f0) INTO a FROM m0 GROUP BY time(1m) END", "create continuous query q on d begin select mean(f0) into a from m0 group by time(1m) end", "CREATE CONTINUOUS QUERY q ON d BEGIN SELECT max(f1) INTO b FROM m1 GROUP BY time(5m) END"}, "query")})
	case "dropcq":
		g.emit(Op{K: kind, DB: g.anyDB(t), Name: pick(t, []string{"cq0", "cq1", "cq2"}, "cq")})
	case "cqreport":
		// the sql node that holds the lease reports the queries it ran (names it read from the catalogue; sometimes one dropped meanwhile)
		var ex []string
		for _, dbn := range g.dbNames() {
			for n := range d.Databases[dbn].ContinuousQueries {
				ex = append(ex, n)
			}
		}
		op := Op{K: kind}
		for i, n := 0, ui(t, 1, 2, "ncq"); i < n; i++ {
			name := g.existingOr(t, ex, []string{"cq0", "cq1", "cq2"}, "cq")
			if i > 0 && name == op.SS[0] {
				continue
			}
			op.SS = append(op.SS, name)
			op.Ns = append(op.Ns, int64(ui(t, 1, 5, "run"))*1700000000*int64(time.Second)/5)
		}
		g.emit(op)
	case "createsub":
		db, rp, _ := g.target(t)
		g.emit(Op{K: kind, DB: db, RP: rp, Name: pick(t, []string{"sub0", "sub1"}, "sub"), S: pick(t, []string{"ALL", "ANY"}, "mode"), SS: g.destinations(t)})
	case "dropsub":
		db, rp, _ := g.target(t)
		switch ui(t, 0, 9, "dropSubShape") {
		case 0:
			db, rp = "", "" // DROP ALL SUBSCRIPTIONS
		case 1:
			rp = ""
		}
		name := pick(t, []string{"sub0", "sub1", ""}, "sub")
		if g.Prof.NoAmbiguousDropSubscription && rp == "" && name != "" && db != "" {
			// DROP SUBSCRIPTION name ON db (no policy) removes the first match met while ranging over the policy map
			n := 0
			if dbi := d.Databases[db]; dbi != nil {
				for _, r := range dbi.RetentionPolicies {
					for i := range r.Subscriptions {
						if r.Subscriptions[i].Name == name {
							n++
						}
					}
				}
			}
			if n > 1 {
				g.Excluded["drop-subscription-without-policy-ambiguous"]++
				return
			}
		}
		g.emit(Op{K: kind, DB: db, RP: rp, Name: name})
	case "createdownsample":
		// the statement executor checks db, rp and "no policy yet" against its catalogue and validates the intervals
		for _, r := range g.rps() {
			if r.dbi.MarkDeleted || r.info.HasDownSamplePolicy() || ui(t, 0, 2, "skipRp") == 0 {
				continue
			}
			dur := r.info.Duration
			if rapid.Bool().Draw(t, "ownDur") {
				dur = time.Duration(pick(t, []int64{day, 2 * day, 30 * day}, "dsDur"))
			}
			// CREATE DOWNSAMPLE ON rp (float(sum,max), integer(first)) WITH DURATION d SAMPLEINTERVAL(s1,s2) TIMEINTERVAL(t1,t2): up to
			// three levels (sample and time intervals strictly increasing, each time interval a multiple of the one before) and up to
			// three per-type operator lists
			var ns []int64
			si, ti := int64(r.info.ShardGroupDuration)*int64(ui(t, 1, 2, "s1")), int64(time.Minute)*int64(pick(t, []int{1, 5}, "t1"))
			info := &meta.DownSamplePolicyInfo{Duration: dur}
			for i, n := 0, ui(t, 1, 3, "dsLevels"); i < n; i++ {
				if i > 0 {
					si, ti = si*int64(ui(t, 2, 3, "sMul")), ti*int64(ui(t, 2, 3, "tMul"))
				}
				ns = append(ns, si, ti)
				info.DownSamplePolicies = append(info.DownSamplePolicies, meta.NewDownSamplePolicy(time.Duration(si), time.Duration(ti)))
			}
			var calls []Field
			aggs := []string{"first", "last", "min", "max", "sum", "count", "mean"}
			for i, n := 0, ui(t, 1, 3, "dsCalls"); i < n; i++ {
				ops := ""
				for j, m := 0, ui(t, 1, 3, "dsOps"); j < m; j++ {
					if j > 0 {
						ops += ","
					}
					ops += pick(t, aggs, "agg")
				}
				calls = append(calls, Field{N: ops, T: int32(ui(t, 1, 4, "dt"))})
				info.Calls = append(info.Calls, &meta.DownSampleOperators{AggOps: []string{ops}, DataType: int64(calls[i].T)})
			}
			if info.Check(r.info) != nil {
				g.Excluded["client-rejects-downsample"]++
				continue
			}
			d64 := int64(info.Duration)
			g.emit(Op{K: kind, DB: r.db, RP: r.rp, Dur: &d64, Ns: ns, F: calls})
			return
		}
	case "dropdownsample":
		for _, r := range g.rps() {
			if r.dbi.MarkDeleted {
				continue
			}
			all := ui(t, 0, 3, "dropAll") == 0
			if !all && !r.info.HasDownSamplePolicy() {
				continue
			}
			g.emit(Op{K: kind, DB: r.db, RP: r.rp, B: all})
			return
		}
	case "registerqueryid":
		g.emit(Op{K: kind, Name: fmt.Sprintf("127.0.0.%d:8086", g.nodeAddr(t))})
	default:
		panic("harness: no generator for kind " + kind)
	}
}

// sqlRowStore shapes op like CREATE MEASUREMENT m (...) WITH ENGINETYPE = tsstore INDEXTYPE text INDEXLIST .. field INDEXLIST .. SHARDKEY .. TTL ..
// (coordinator executeCreateMeasurementStatement): empty ColStoreInfo, index relation and Options{Ttl} are always sent.
func (g *Gen) sqlRowStore(t *rapid.T, op *Op, ref *rpRef) {
	op.N, op.B, op.B2 = 0, false, false
	m := &MstSpec{Shape: "sql"}
	for i, n := 0, ui(t, 0, 2, "nIdx"); i < n; i++ {
		if rapid.Bool().Draw(t, "fieldIdx") {
			m.IdxT, m.IdxL = append(m.IdxT, "field"), append(m.IdxL, []string{pick(t, []string{"f0", "f1"}, "idxCol")}) // one column per field index
		} else {
			m.IdxT, m.IdxL = append(m.IdxT, "text"), append(m.IdxL, [][]string{{"f2"}, {"f1", "f2"}}[ui(t, 0, 1, "textCols")])
		}
	}
	// the client refuses a TTL above the policy's duration (a policy without expiry has duration 0)
	if ref != nil && ref.info.Duration > 0 && ui(t, 0, 2, "ttl") == 0 {
		m.TTL = pick(t, []int64{hour, int64(ref.info.Duration)}, "ttlVal")
		if m.TTL > int64(ref.info.Duration) {
			m.TTL = int64(ref.info.Duration)
		}
	}
	if ui(t, 0, 2, "schema") == 0 {
		for _, n := range []string{"t0", "t1"} {
			if ui(t, 0, 1, "withTag") == 0 {
				op.F = append(op.F, Field{N: n, T: 6})
			}
		}
		for _, n := range []string{"f0", "f1", "f2"} {
			if ui(t, 0, 1, "withField") == 0 {
				op.F = append(op.F, Field{N: n, T: int32(ui(t, 1, 4, "ftype"))})
			}
		}
	}
	op.M = m
}

// sqlColumnStore shapes op like CREATE MEASUREMENT m (t0 TAG, f0 FLOAT64 ..) WITH ENGINETYPE = columnstore INDEXTYPE timecluster(1h) bloomfilter INDEXLIST ..
// SHARDKEY .. PRIMARYKEY .. SORTKEY .. PROPERTY k=v COMPACT block: the parser wants every key column declared (or "time"), the
// primary key a prefix of the sort key, the shard key and the indexed columns among the declared columns.
func (g *Gen) sqlColumnStore(t *rapid.T, op *Op) {
	op.N, op.B, op.B2 = 1, false, false
	m := &MstSpec{Shape: "sql", Compact: pick(t, []string{"row", "block"}, "compact")}
	cols := []string{"t0"}
	op.F = []Field{{N: "t0", T: 6}}
	if rapid.Bool().Draw(t, "t1") {
		cols, op.F = append(cols, "t1"), append(op.F, Field{N: "t1", T: 6})
	}
	for _, n := range []string{"f0", "f1"} {
		if ui(t, 0, 2, "withField") > 0 {
			cols, op.F = append(cols, n), append(op.F, Field{N: n, T: int32(ui(t, 1, 4, "ftype"))})
		}
	}
	keyCols := append([]string{"time"}, cols...)
	used := map[string]bool{}
	for i, n := 0, ui(t, 0, 3, "nSort"); i < n; i++ {
		c := pick(t, keyCols, "sortCol")
		if !used[c] {
			used[c] = true
			m.SK = append(m.SK, c)
		}
	}
	if len(m.SK) > 0 {
		m.PK = m.SK[:ui(t, 1, len(m.SK), "nPrimary")] // no PRIMARYKEY clause = the sort key
	}
	// shard key among the declared columns, sorted
	op.SS = nil
	if rapid.Bool().Draw(t, "cssk") {
		op.SS = []string{pick(t, cols, "sk")}
	}
	if rapid.Bool().Draw(t, "timecluster") {
		m.TCDur = pick(t, []int64{hour, day, 10 * int64(time.Minute)}, "tcDur")
		m.IdxT, m.IdxL = append(m.IdxT, "timecluster"), append(m.IdxL, []string{"time"})
	}
	for i, n := 0, ui(t, 0, 2, "nIdx"); i < n; i++ {
		types := []string{"bloomfilter", "minmax", "bloomfilter_ip"}
		if m.TCDur == 0 {
			types = append(types, "text")
		}
		m.IdxT, m.IdxL = append(m.IdxT, pick(t, types, "idxType")), append(m.IdxL, []string{pick(t, cols, "idxCol")})
	}
	for i, n := 0, ui(t, 0, 2, "nProp"); i < n; i++ {
		m.PropK, m.PropV = append(m.PropK, fmt.Sprintf("p%d", i)), append(m.PropV, pick(t, []string{"v", "7"}, "propVal"))
	}
	op.M = m
}

// optSpec draws a logstream option set the way validateLogstreamOptions leaves it: TTL in days (0 = keep for ever), delimiters
// defaulted; a create request starts from InitDefault (thresholds 1), an update request from the zero value.
func (g *Gen) optSpec(t *rapid.T, create bool) *OptSpec {
	lo := 0
	if create {
		lo = 1
	}
	return &OptSpec{CI: rapid.Bool().Draw(t, "ci"), AM: rapid.Bool().Draw(t, "am"), WT: ui(t, lo, 3, "wt"), RT: ui(t, lo, 3, "rt"), SC: ui(t, lo, 3, "sc"),
		Split:    pick(t, []string{tokenizer.CONTENT_SPLITTER, ",;", " |"}, "split"),
		TagSplit: pick(t, []string{tokenizer.TAGS_SPLITTER_BEFORE, ";"}, "tagSplit")}
}

// logstream shapes op like the create-logstream request (httpd serveCreateLogstream): policy and measurement carry the logstream's
// name, column store, hash sharding without key, the complete option set.
func (g *Gen) logstream(t *rapid.T, op *Op, ref *rpRef) {
	op.Mst, op.S, op.SS, op.N, op.N2, op.B, op.B2 = op.RP, "hash", nil, 1, 0, false, false
	op.O = g.optSpec(t, true)
	// the handler creates the policy with duration = TTL days first; the client refuses a TTL above the policy's duration
	if ref != nil && ref.info.Duration >= time.Duration(day) {
		op.O.Ttl = int64(ref.info.Duration / time.Duration(day))
	}
	op.M = &MstSpec{Shape: "logstream"}
}

var subDests = []string{"http://127.0.0.1:9999", "http://127.0.0.2:9999", "https://127.0.0.3:9443"}

// destinations draws one to three distinct subscription destinations.
func (g *Gen) destinations(t *rapid.T) []string {
	out := []string{pick(t, subDests, "dest")}
	for i, n := 0, ui(t, 0, 2, "moreDests"); i < n; i++ {
		d := pick(t, subDests, "dest")
		dup := false
		for _, x := range out {
			dup = dup || x == d
		}
		if !dup {
			out = append(out, d)
		}
	}
	return out
}

// mergeDur makes shard-merge policies reachable: CheckSpecValid accepts a merge duration only when it is a multiple of the shard
// duration and equal to the index duration.
func (g *Gen) mergeDur(t *rapid.T, op *Op) {
	if op.SGDur != nil && *op.SGDur >= hour && *op.SGDur <= 4*hour && ui(t, 0, 3, "withMerge") == 0 {
		m := *op.SGDur * int64(pick(t, []int{2, 4}, "mergeFactor"))
		op.Merge, op.IGDur = &m, &m
	} else if op.Merge != nil {
		op.IGDur = op.Merge
	}
}

func (g *Gen) staleID(t *rapid.T, ever []uint64) uint64 {
	if len(ever) > 0 && rapid.Bool().Draw(t, "everID") {
		return pick(t, ever, "ever")
	}
	return uint64(ui(t, 0, 30, "anyID"))
}
