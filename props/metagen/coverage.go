//go:build verif

package metagen

import (
	"reflect"
	"sort"

	meta "github.com/openGemini/openGemini/lib/util/lifted/influx/meta"
)

// Field coverage of the generator: a field that is zero in every generated catalogue cannot reveal that Clone / Marshal /
// Unmarshal forgets it (that is how the seeded "StreamInfo.clone() drops Cond" change slipped through). FieldsSet walks a
// catalogue by reflection and reports, per "Type.Field" of every struct type reachable from meta.Data, whether SOME instance
// holds a non-zero value; AllFields lists every such field from the types alone, so that the fields no generated command ever
// sets show up by name in the evidence.

// outside the catalogue: replication book-keeping of the incremental sync, the SQLite handle, locks (see Dump)
var coverageSkip = map[string]bool{
	"Data.OpsMap": true, "Data.OpsMapMinIndex": true, "Data.OpsMapMaxIndex": true, "Data.OpsToMarshalIndex": true, "Data.SQLite": true,
	"MeasurementInfo.SchemaLock": true,
}

// types whose unexported fields are catalogue state (read through getters by Dump)
var coverageUnexported = map[string]bool{"MigrateEventInfo": true}

func isTime(t reflect.Type) bool { return t.PkgPath() == "time" && t.Name() == "Time" }

func nonZero(v reflect.Value) bool {
	switch v.Kind() {
	case reflect.Slice, reflect.Map:
		return v.Len() > 0
	case reflect.Ptr, reflect.Interface:
		return !v.IsNil()
	}
	return !v.IsZero()
}

func walkValue(v reflect.Value, out map[string]bool) {
	switch v.Kind() {
	case reflect.Ptr, reflect.Interface:
		if !v.IsNil() {
			walkValue(v.Elem(), out)
		}
	case reflect.Slice, reflect.Array:
		for i := 0; i < v.Len(); i++ {
			walkValue(v.Index(i), out)
		}
	case reflect.Map:
		it := v.MapRange()
		for it.Next() {
			walkValue(it.Value(), out)
		}
	case reflect.Struct:
		t := v.Type()
		if isTime(t) {
			return
		}
		for i := 0; i < t.NumField(); i++ {
			f := t.Field(i)
			key := t.Name() + "." + f.Name
			if coverageSkip[key] || (f.PkgPath != "" && !coverageUnexported[t.Name()]) || f.Type.PkgPath() == "sync" {
				continue
			}
			fv := v.Field(i)
			if f.Anonymous {
				walkValue(fv, out)
				continue
			}
			if nonZero(fv) {
				out[key] = true
			}
			walkValue(fv, out)
		}
	}
}

func walkType(t reflect.Type, seen map[reflect.Type]bool, out map[string]bool) {
	switch t.Kind() {
	case reflect.Ptr, reflect.Slice, reflect.Array, reflect.Map:
		walkType(t.Elem(), seen, out)
	case reflect.Struct:
		if isTime(t) || seen[t] {
			return
		}
		seen[t] = true
		for i := 0; i < t.NumField(); i++ {
			f := t.Field(i)
			key := t.Name() + "." + f.Name
			if coverageSkip[key] || (f.PkgPath != "" && !coverageUnexported[t.Name()]) || f.Type.PkgPath() == "sync" {
				continue
			}
			if !f.Anonymous {
				out[key] = true
			}
			walkType(f.Type, seen, out)
		}
	}
}

// FieldsSet returns the set of "Type.Field" names that hold a non-zero value somewhere in the catalogue.
func FieldsSet(d *meta.Data) map[string]bool {
	out := map[string]bool{}
	walkValue(reflect.ValueOf(d), out)
	return out
}

var allFields []string

// AllFields lists every "Type.Field" of the catalogue types (sorted).
func AllFields() []string {
	if allFields == nil {
		m := map[string]bool{}
		walkType(reflect.TypeOf(meta.Data{}), map[reflect.Type]bool{}, m)
		for k := range m {
			allFields = append(allFields, k)
		}
		sort.Strings(allFields)
	}
	return allFields
}

// FieldTotals accumulates, per process, in how many catalogues each field was non-zero.
type FieldTotals struct {
	Cases int
	Set   map[string]int
}

func (f *FieldTotals) Add(set map[string]bool) {
	if f.Set == nil {
		f.Set = map[string]int{}
	}
	f.Cases++
	for k := range set {
		f.Set[k]++
	}
}

// Summary renders the totals for the evidence: share per field and the list of fields that were never populated.
func (f *FieldTotals) Summary() (populated map[string]int, never []string) {
	populated = map[string]int{}
	for _, k := range AllFields() {
		if n := f.Set[k]; n > 0 {
			populated[k] = n
		} else {
			never = append(never, k)
		}
	}
	return
}
