//go:build verif

// Package metagen generates meta-store commands shaped field-for-field the way the real senders
// (lib/metaclient, coordinator statement executor, ts-meta's own store.go helpers) build them,
// encodes them as raft log payloads, and renders the catalogue (meta.Data) canonically.
// It is shared by the C15 (replica convergence) and C16 (catalogue well-formedness) checks.
package metagen

import (
	"fmt"
	"strings"
	"time"

	"github.com/hashicorp/raft"
	metasvc "github.com/openGemini/openGemini/app/ts-meta/meta"
	"github.com/openGemini/openGemini/lib/config"
	"github.com/openGemini/openGemini/lib/index"
	"github.com/openGemini/openGemini/lib/tokenizer"
	"github.com/openGemini/openGemini/lib/util/lifted/influx/influxql"
	meta "github.com/openGemini/openGemini/lib/util/lifted/influx/meta"
	proto2 "github.com/openGemini/openGemini/lib/util/lifted/influx/meta/proto"
	"github.com/openGemini/openGemini/lib/util/lifted/protobuf/proto"
)

// Op is the replayable, JSON-encodable description of one command. Only the fields a kind uses are set.
type Op struct {
	K    string   `json:"k"`              // kind, see Kinds
	DB   string   `json:"db,omitempty"`   // database
	RP   string   `json:"rp,omitempty"`   // retention policy
	Mst  string   `json:"mst,omitempty"`  // measurement
	Name string   `json:"name,omitempty"` // user / stream / cq / subscription / host ...
	S    string   `json:"s,omitempty"`    // second string (hash, query, tcp addr, mode, shard type ...)
	S2   string   `json:"s2,omitempty"`   // third string (role, gossip addr ...)
	SS   []string `json:"ss,omitempty"`   // string list (shard key, destinations, bounds, dims ...)
	ID   uint64   `json:"id,omitempty"`
	ID2  uint64   `json:"id2,omitempty"`
	IDs  []uint64 `json:"ids,omitempty"`
	N    int64    `json:"n,omitempty"`  // timestamp / status / privilege / tier ...
	N2   int64    `json:"n2,omitempty"` // second number
	Ns   []int64  `json:"ns,omitempty"` // number list (see kind)
	B    bool     `json:"b,omitempty"`
	B2   bool     `json:"b2,omitempty"`
	// durations as *int64 nanoseconds: nil = not given
	Dur   *int64 `json:"dur,omitempty"`
	SGDur *int64 `json:"sgdur,omitempty"`
	Hot   *int64 `json:"hot,omitempty"`
	Warm  *int64 `json:"warm,omitempty"`
	IGDur *int64 `json:"igdur,omitempty"`
	ICold *int64 `json:"icold,omitempty"`
	Merge *int64 `json:"merge,omitempty"`
	// fields for schema commands: name, type, endTime triples
	F []Field `json:"f,omitempty"`
	// M: CREATE MEASUREMENT in the shape of one concrete sender (statement executor / logstream handler); nil = the older encoding
	M *MstSpec `json:"m,omitempty"`
	// O: measurement options as the logstream handlers send them (create / update logstream)
	O *OptSpec `json:"o,omitempty"`
	// Sh: shards of the partition a migrate event is about (ts-meta attaches Data.GetShardDurationsByDbPt to the event)
	Sh []ShardDur `json:"sh,omitempty"`
}

// MstSpec carries what a CREATE MEASUREMENT statement / a create-logstream request adds to the command.
type MstSpec struct {
	Shape   string     `json:"shape"` // "sql": coordinator executeCreateMeasurementStatement, "logstream": httpd serveCreateLogstream
	PK      []string   `json:"pk,omitempty"`
	SK      []string   `json:"sk,omitempty"`
	PropK   []string   `json:"propk,omitempty"`
	PropV   []string   `json:"propv,omitempty"`
	TCDur   int64      `json:"tcdur,omitempty"`
	Compact string     `json:"compact,omitempty"`
	IdxT    []string   `json:"idxt,omitempty"` // index type names
	IdxL    [][]string `json:"idxl,omitempty"` // indexed columns per index type
	TTL     int64      `json:"ttl,omitempty"`
}

type OptSpec struct {
	CI       bool   `json:"ci,omitempty"`
	AM       bool   `json:"am,omitempty"`
	WT       int    `json:"wt,omitempty"`
	RT       int    `json:"rt,omitempty"`
	SC       int    `json:"sc,omitempty"`
	Split    string `json:"split,omitempty"`
	TagSplit string `json:"tagsplit,omitempty"`
	Ttl      int64  `json:"ttl,omitempty"`
}

func (p *OptSpec) options() *meta.Options {
	return &meta.Options{CaseInSensitive: p.CI, AppendMeta: p.AM, WriteThreshold: p.WT, ReadThreshold: p.RT, StorageCapacity: p.SC, SplitChar: p.Split, TagsSplit: p.TagSplit, Ttl: p.Ttl}
}

// ShardDur is one entry of DbPtInfo.Shards (meta.ShardDurationInfo) in replayable form.
type ShardDur struct {
	ID      uint64 `json:"id"`
	SG      uint64 `json:"sg"`
	RP      string `json:"rp"`
	Typ     string `json:"typ,omitempty"`
	DSL     int    `json:"dsl,omitempty"`
	DSID    uint64 `json:"dsid,omitempty"`
	RO      bool   `json:"ro,omitempty"`
	Eng     uint32 `json:"eng,omitempty"`
	Tier    uint64 `json:"tier,omitempty"`
	TierDur int64  `json:"tierdur,omitempty"`
	Dur     int64  `json:"dur,omitempty"`
	Merge   int64  `json:"merge,omitempty"`
}

type Field struct {
	N string `json:"n"`
	T int32  `json:"t"`
	E int32  `json:"e,omitempty"`
}

func (o Op) String() string {
	s := o.K
	add := func(k string, v any) { s += fmt.Sprintf(" %s=%v", k, v) }
	if o.DB != "" {
		add("db", o.DB)
	}
	if o.RP != "" {
		add("rp", o.RP)
	}
	if o.Mst != "" {
		add("mst", o.Mst)
	}
	if o.Name != "" {
		add("name", o.Name)
	}
	if o.S != "" {
		add("s", o.S)
	}
	if o.S2 != "" {
		add("s2", o.S2)
	}
	if len(o.SS) > 0 {
		add("ss", o.SS)
	}
	if o.ID != 0 {
		add("id", o.ID)
	}
	if o.ID2 != 0 {
		add("id2", o.ID2)
	}
	if len(o.IDs) > 0 {
		add("ids", o.IDs)
	}
	if o.N != 0 {
		add("n", o.N)
	}
	if o.N2 != 0 {
		add("n2", o.N2)
	}
	if len(o.Ns) > 0 {
		add("ns", o.Ns)
	}
	if o.B {
		add("b", o.B)
	}
	if o.B2 {
		add("b2", o.B2)
	}
	for _, d := range []struct {
		k string
		v *int64
	}{{"dur", o.Dur}, {"sgdur", o.SGDur}, {"hot", o.Hot}, {"warm", o.Warm}, {"igdur", o.IGDur}, {"icold", o.ICold}, {"merge", o.Merge}} {
		if d.v != nil {
			add(d.k, time.Duration(*d.v))
		}
	}
	if len(o.F) > 0 {
		add("f", o.F)
	}
	if o.M != nil {
		add("m", fmt.Sprintf("%+v", *o.M))
	}
	if o.O != nil {
		add("o", fmt.Sprintf("%+v", *o.O))
	}
	if len(o.Sh) > 0 {
		add("sh", fmt.Sprintf("%+v", o.Sh))
	}
	return s
}

func durp(p *int64) *time.Duration {
	if p == nil {
		return nil
	}
	d := time.Duration(*p)
	return &d
}
func durv(p *int64) time.Duration {
	if p == nil {
		return 0
	}
	return time.Duration(*p)
}

func enc(typ proto2.Command_Type, desc *proto.ExtensionDesc, v interface{}) []byte {
	c := &proto2.Command{Type: &typ}
	if err := proto.SetExtension(c, desc, v); err != nil {
		panic(fmt.Errorf("harness: SetExtension %v: %v", typ, err))
	}
	b, err := proto.Marshal(c)
	if err != nil {
		panic(fmt.Errorf("harness: Marshal %v: %v", typ, err))
	}
	return b
}

// rpSpec rebuilds the RetentionPolicySpec a CREATE DATABASE ... WITH / CREATE RETENTION POLICY statement yields.
func (o Op) rpSpec(withPtrDefaults bool) *meta.RetentionPolicySpec {
	one := 1
	spec := &meta.RetentionPolicySpec{
		Name:               o.RP,
		ReplicaN:           &one,
		Duration:           durp(o.Dur),
		ShardGroupDuration: durv(o.SGDur),
		ShardMergeDuration: durv(o.Merge),
		HotDuration:        durp(o.Hot),
		WarmDuration:       durp(o.Warm),
		IndexColdDuration:  durp(o.ICold),
		IndexGroupDuration: durv(o.IGDur),
	}
	if withPtrDefaults {
		// the statement executor passes &stmt.X for these three (never nil)
		z1, z2, z3 := durv(o.Hot), durv(o.Warm), durv(o.ICold)
		spec.HotDuration, spec.WarmDuration, spec.IndexColdDuration = &z1, &z2, &z3
	}
	return spec
}

// ClientAccepts reports whether the sending client would transmit the command at all (pure argument checks the
// client performs before sending; checks against the client's cached catalogue are NOT modelled here).
func (o Op) ClientAccepts() bool {
	switch o.K {
	case "createdb_rp":
		rpi := o.rpSpec(true).NewRetentionPolicyInfo()
		return rpi.CheckSpecValid() == nil
	case "createrp":
		if o.Dur != nil && time.Duration(*o.Dur) < meta.MinRetentionPolicyDuration && *o.Dur != 0 {
			return false
		}
	}
	return true
}

func ski(keys []string, typ string, sg uint64) *proto2.ShardKeyInfo {
	s := &meta.ShardKeyInfo{ShardKey: keys, Type: typ, ShardGroup: sg}
	return s.Marshal()
}

func fields(fs []Field) []*proto2.FieldSchema {
	var out []*proto2.FieldSchema
	for _, f := range fs {
		x := &proto2.FieldSchema{FieldName: proto.String(f.N), FieldType: proto.Int32(f.T)}
		if f.E != 0 {
			x.EndTime = proto.Int32(f.E)
		}
		out = append(out, x)
	}
	return out
}

// Bytes encodes the command exactly as the real sender does.
func (o Op) Bytes() []byte {
	switch o.K {
	case "createdbpt": // ts-meta handlers_process.go:createDatabase, always precedes CreateDatabaseCommand
		return enc(proto2.Command_CreateDbPtViewCommand, proto2.E_CreateDbPtViewCommand_Command,
			&proto2.CreateDbPtViewCommand{DbName: proto.String(o.DB), ReplicaNum: proto.Uint32(1)})
	case "createdb": // metaclient.CreateDatabase
		cmd := &proto2.CreateDatabaseCommand{Name: proto.String(o.DB), EnableTagArray: proto.Bool(o.B), ReplicaNum: proto.Uint32(1)}
		if o.B2 {
			cmd.Options = &proto2.ObsOptions{Enabled: proto.Bool(true), BucketName: proto.String("bkt"), Ak: proto.String("ak"), Sk: proto.String("sk"), Endpoint: proto.String("ep"), BasePath: proto.String("base")}
		}
		return enc(proto2.Command_CreateDatabaseCommand, proto2.E_CreateDatabaseCommand_Command, cmd)
	case "createdb_rp": // metaclient.CreateDatabaseWithRetentionPolicy
		rpi := o.rpSpec(true).NewRetentionPolicyInfo()
		_ = rpi.CheckSpecValid() // the client normalises through this call before marshalling
		cmd := &proto2.CreateDatabaseCommand{Name: proto.String(o.DB), RetentionPolicy: rpi.Marshal(), EnableTagArray: proto.Bool(o.B), ReplicaNum: proto.Uint32(1)}
		if len(o.SS) > 0 {
			cmd.Ski = ski(o.SS, o.S, 0)
		}
		return enc(proto2.Command_CreateDatabaseCommand, proto2.E_CreateDatabaseCommand_Command, cmd)
	case "markdbdel":
		return enc(proto2.Command_MarkDatabaseDeleteCommand, proto2.E_MarkDatabaseDeleteCommand_Command, &proto2.MarkDatabaseDeleteCommand{Name: proto.String(o.DB)})
	case "dropdb":
		return enc(proto2.Command_DropDatabaseCommand, proto2.E_DropDatabaseCommand_Command, &proto2.DropDatabaseCommand{Name: proto.String(o.DB)})
	case "createrp": // metaclient.CreateRetentionPolicy
		rpi := o.rpSpec(false).NewRetentionPolicyInfo()
		return enc(proto2.Command_CreateRetentionPolicyCommand, proto2.E_CreateRetentionPolicyCommand_Command,
			&proto2.CreateRetentionPolicyCommand{Database: proto.String(o.DB), RetentionPolicy: rpi.Marshal(), DefaultRP: proto.Bool(o.B)})
	case "updaterp": // statement executor -> metaclient.UpdateRetentionPolicy (never a new name, ReplicaN always 1)
		return enc(proto2.Command_UpdateRetentionPolicyCommand, proto2.E_UpdateRetentionPolicyCommand_Command,
			&proto2.UpdateRetentionPolicyCommand{Database: proto.String(o.DB), Name: proto.String(o.RP), Duration: o.Dur, ReplicaN: proto.Uint32(1),
				ShardGroupDuration: o.SGDur, MakeDefault: proto.Bool(o.B), HotDuration: o.Hot, WarmDuration: o.Warm, IndexGroupDuration: o.IGDur, IndexColdDuration: o.ICold})
	case "setdefaultrp":
		return enc(proto2.Command_SetDefaultRetentionPolicyCommand, proto2.E_SetDefaultRetentionPolicyCommand_Command,
			&proto2.SetDefaultRetentionPolicyCommand{Database: proto.String(o.DB), Name: proto.String(o.RP)})
	case "markrpdel":
		return enc(proto2.Command_MarkRetentionPolicyDeleteCommand, proto2.E_MarkRetentionPolicyDeleteCommand_Command,
			&proto2.MarkRetentionPolicyDeleteCommand{Database: proto.String(o.DB), Name: proto.String(o.RP)})
	case "droprp":
		return enc(proto2.Command_DropRetentionPolicyCommand, proto2.E_DropRetentionPolicyCommand_Command,
			&proto2.DropRetentionPolicyCommand{Database: proto.String(o.DB), Name: proto.String(o.RP)})
	case "createmst": // metaclient.CreateMeasurement: S = shard type, SS = shard key, N = engine type, N2 = InitNumOfShards,
		// B = with index relation, B2 = with Options (SQL statement always passes Options), F = schema info, ID = sgid of ski
		cmd := &proto2.CreateMeasurementCommand{DBName: proto.String(o.DB), RpName: proto.String(o.RP), Name: proto.String(o.Mst),
			EngineType: proto.Uint32(uint32(o.N)), InitNumOfShards: proto.Int32(int32(o.N2)), Ski: ski(o.SS, o.S, o.ID)}
		if m := o.M; m != nil && m.Shape == "sql" {
			// coordinator executeCreateMeasurementStatement: ColStoreInfo, index relation and Options{Ttl} are ALWAYS passed
			var prop [][]string
			if len(m.PropK) > 0 {
				prop = [][]string{m.PropK, m.PropV}
			}
			cmd.ColStoreInfo = meta.NewColStoreInfo(m.PK, m.SK, prop, time.Duration(m.TCDur), m.Compact).Marshal()
			ir := influxql.NewIndexRelation()
			for i, tn := range m.IdxT {
				oid, err := index.GetIndexTypeByName(tn)
				if err != nil {
					panic("harness: " + err.Error())
				}
				ir.Oids = append(ir.Oids, uint32(oid))
				ir.IndexNames = append(ir.IndexNames, tn)
				ir.IndexList = append(ir.IndexList, &influxql.IndexList{IList: m.IdxL[i]})
				switch oid {
				case index.TimeCluster:
					ir.IndexOptions = append(ir.IndexOptions, &influxql.IndexOptions{Options: []*influxql.IndexOption{{TimeClusterDuration: time.Duration(m.TCDur)}}})
				case index.Text:
					ir.IndexOptions = append(ir.IndexOptions, &influxql.IndexOptions{Options: []*influxql.IndexOption{{Tokens: tokenizer.CONTENT_SPLITTER}}})
				default:
					ir.IndexOptions = append(ir.IndexOptions, &influxql.IndexOptions{})
				}
			}
			cmd.IR = meta.EncodeIndexRelation(ir)
			if len(o.F) > 0 {
				cmd.SchemaInfo = fields(o.F)
			}
			cmd.Options = (&meta.Options{Ttl: m.TTL}).Marshal()
			return enc(proto2.Command_CreateMeasurementCommand, proto2.E_CreateMeasurementCommand_Command, cmd)
		} else if m != nil && m.Shape == "logstream" {
			// httpd serveCreateLogstream / getDefaultSchemaForLog: column store, time-sorted, block compaction, one full-text bloom filter
			opt := o.O.options()
			cmd.ColStoreInfo = meta.NewColStoreInfo([]string{"time"}, []string{"time"}, nil, 0, "block").Marshal()
			cmd.IR = meta.EncodeIndexRelation(&influxql.IndexRelation{Rid: 0, Oids: []uint32{uint32(index.BloomFilterFullText)}, IndexNames: []string{index.BloomFilterFullTextIndex},
				IndexList:    []*influxql.IndexList{{IList: []string{}}},
				IndexOptions: []*influxql.IndexOptions{{Options: []*influxql.IndexOption{{Tokens: opt.SplitChar, Tokenizers: "standard"}}}}})
			cmd.Options = opt.Marshal()
			return enc(proto2.Command_CreateMeasurementCommand, proto2.E_CreateMeasurementCommand_Command, cmd)
		}
		if o.B {
			ir := influxql.NewIndexRelation()
			ir.Oids = append(ir.Oids, 4)
			ir.IndexNames = append(ir.IndexNames, "field")
			ir.IndexList = append(ir.IndexList, &influxql.IndexList{IList: []string{"f0"}})
			ir.IndexOptions = append(ir.IndexOptions, &influxql.IndexOptions{})
			cmd.IR = meta.EncodeIndexRelation(ir)
		}
		if o.N == int64(config.COLUMNSTORE) {
			cs := meta.NewColStoreInfo([]string{"t0"}, []string{"t0"}, nil, 0, "")
			cmd.ColStoreInfo = cs.Marshal()
		}
		if len(o.F) > 0 {
			cmd.SchemaInfo = fields(o.F)
		}
		if o.B2 {
			opt := &meta.Options{Ttl: 0}
			cmd.Options = opt.Marshal()
		}
		return enc(proto2.Command_CreateMeasurementCommand, proto2.E_CreateMeasurementCommand_Command, cmd)
	case "createmst_simple": // metaclient.SimpleCreateMeasurement
		cmd := &proto2.CreateMeasurementCommand{DBName: proto.String(o.DB), RpName: proto.String(o.RP), Name: proto.String(o.Mst), EngineType: proto.Uint32(uint32(o.N)), Ski: ski(nil, meta.HASH, 0)}
		return enc(proto2.Command_CreateMeasurementCommand, proto2.E_CreateMeasurementCommand_Command, cmd)
	case "altershardkey":
		return enc(proto2.Command_AlterShardKeyCmd, proto2.E_AlterShardKeyCmd_Command,
			&proto2.AlterShardKeyCmd{DBName: proto.String(o.DB), RpName: proto.String(o.RP), Name: proto.String(o.Mst), Ski: ski(o.SS, o.S, 0)})
	case "updateschema":
		return enc(proto2.Command_UpdateSchemaCommand, proto2.E_UpdateSchemaCommand_Command,
			&proto2.UpdateSchemaCommand{Database: proto.String(o.DB), RpName: proto.String(o.RP), Measurement: proto.String(o.Mst), FieldToCreate: fields(o.F)})
	case "markmstdel":
		return enc(proto2.Command_MarkMeasurementDeleteCommand, proto2.E_MarkMeasurementDeleteCommand_Command,
			&proto2.MarkMeasurementDeleteCommand{Database: proto.String(o.DB), Policy: proto.String(o.RP), Measurement: proto.String(o.Mst)})
	case "dropmst": // Mst is the name WITH version here (ts-meta store.go:deleteMeasurementMetaData)
		return enc(proto2.Command_DropMeasurementCommand, proto2.E_DropMeasurementCommand_Command,
			&proto2.DropMeasurementCommand{Database: proto.String(o.DB), Policy: proto.String(o.RP), Measurement: proto.String(o.Mst)})
	case "updatemst": // metaclient.UpdateMeasurement: N = ttl
		opt := &meta.Options{Ttl: o.N}
		if o.O != nil { // httpd serveUpdateLogstream: the whole option set
			opt = o.O.options()
			opt.Ttl = o.N
		}
		return enc(proto2.Command_UpdateMeasurementCommand, proto2.E_UpdateMeasurementCommand_Command,
			&proto2.UpdateMeasurementCommand{Db: proto.String(o.DB), Rp: proto.String(o.RP), Mst: proto.String(o.Mst), Options: opt.Marshal()})
	case "createsg": // metaclient.CreateShardGroup: N = timestamp, ID = tier, N2 = engine type, ID2 = version
		return enc(proto2.Command_CreateShardGroupCommand, proto2.E_CreateShardGroupCommand_Command,
			&proto2.CreateShardGroupCommand{Database: proto.String(o.DB), Policy: proto.String(o.RP), Timestamp: proto.Int64(o.N), ShardTier: proto.Uint64(o.ID),
				EngineType: proto.Uint32(uint32(o.N2)), Version: proto.Uint32(uint32(o.ID2))})
	case "deletesg": // N = delete type, N2 = deletedAt (0: not given -> wall clock)
		cmd := &proto2.DeleteShardGroupCommand{Database: proto.String(o.DB), Policy: proto.String(o.RP), ShardGroupID: proto.Uint64(o.ID), DeleteType: proto.Int32(int32(o.N))}
		if o.N2 != 0 {
			cmd.DeletedAt = proto.Int64(o.N2)
		}
		return enc(proto2.Command_DeleteShardGroupCommand, proto2.E_DeleteShardGroupCommand_Command, cmd)
	case "deleteig":
		return enc(proto2.Command_DeleteIndexGroupCommand, proto2.E_DeleteIndexGroupCommand_Command,
			&proto2.DeleteIndexGroupCommand{Database: proto.String(o.DB), Policy: proto.String(o.RP), IndexGroupID: proto.Uint64(o.ID)})
	case "prune": // B = shard group (else index group), ID = shard / index id
		return enc(proto2.Command_PruneGroupsCommand, proto2.E_PruneGroupsCommand_Command, &proto2.PruneGroupsCommand{ShardGroup: proto.Bool(o.B), ID: proto.Uint64(o.ID)})
	case "shardtier":
		return enc(proto2.Command_UpdateShardInfoTierCommand, proto2.E_UpdateShardInfoTierCommand_Command,
			&proto2.UpdateShardInfoTierCommand{ShardID: proto.Uint64(o.ID), Tier: proto.Uint64(uint64(o.N)), DbName: proto.String(o.DB), RpName: proto.String(o.RP)})
	case "indextier":
		return enc(proto2.Command_UpdateIndexInfoTierCommand, proto2.E_UpdateIndexInfoTierCommand_Command,
			&proto2.UpdateIndexInfoTierCommand{IndexID: proto.Uint64(o.ID), Tier: proto.Uint64(uint64(o.N)), DbName: proto.String(o.DB), RpName: proto.String(o.RP)})
	case "sharddownsample": // metaclient.UpdateShardDownSampleInfo: ID shard, ID2 group, N pt, N2 level, IDs[0] downsample id, B readonly
		var dsid uint64
		if len(o.IDs) > 0 {
			dsid = o.IDs[0]
		}
		id := &meta.ShardIdentifier{ShardID: o.ID, ShardGroupID: o.ID2, OwnerDb: o.DB, OwnerPt: uint32(o.N), Policy: o.RP, ShardType: o.S, DownSampleLevel: int(o.N2), DownSampleID: dsid, ReadOnly: o.B}
		return enc(proto2.Command_UpdateShardDownSampleInfoCommand, proto2.E_UpdateShardDownSampleInfoCommand_Command, &proto2.UpdateShardDownSampleInfoCommand{Ident: id.Marshal()})
	case "resharding": // ts-meta store.go:reSharding
		return enc(proto2.Command_ReShardingCommand, proto2.E_ReShardingCommand_Command,
			&proto2.ReShardingCommand{Database: proto.String(o.DB), RpName: proto.String(o.RP), ShardGroupID: proto.Uint64(o.ID), SplitTime: proto.Int64(o.N), ShardBounds: o.SS})
	case "mergeshards": // metaclient.ReplaceMergeShards
		return enc(proto2.Command_ReplaceMergeShardsCommand, proto2.E_ReplaceMergeShardsCommand_Command,
			&proto2.ReplaceMergeShardsCommand{Db: proto.String(o.DB), Rp: proto.String(o.RP), PtId: proto.Uint32(uint32(o.N)), ShardId: o.IDs})

	case "createuser":
		return enc(proto2.Command_CreateUserCommand, proto2.E_CreateUserCommand_Command,
			&proto2.CreateUserCommand{Name: proto.String(o.Name), Hash: proto.String(o.S), Admin: proto.Bool(o.B), RwUser: proto.Bool(o.B2)})
	case "dropuser":
		return enc(proto2.Command_DropUserCommand, proto2.E_DropUserCommand_Command, &proto2.DropUserCommand{Name: proto.String(o.Name)})
	case "updateuser":
		return enc(proto2.Command_UpdateUserCommand, proto2.E_UpdateUserCommand_Command, &proto2.UpdateUserCommand{Name: proto.String(o.Name), Hash: proto.String(o.S)})
	case "setpriv":
		return enc(proto2.Command_SetPrivilegeCommand, proto2.E_SetPrivilegeCommand_Command,
			&proto2.SetPrivilegeCommand{Username: proto.String(o.Name), Database: proto.String(o.DB), Privilege: proto.Int32(int32(o.N))})
	case "setadmin":
		return enc(proto2.Command_SetAdminPrivilegeCommand, proto2.E_SetAdminPrivilegeCommand_Command,
			&proto2.SetAdminPrivilegeCommand{Username: proto.String(o.Name), Admin: proto.Bool(o.B)})

	case "createdatanode": // Name http addr, S tcp addr, S2 role, SS[0] az
		az := ""
		if len(o.SS) > 0 {
			az = o.SS[0]
		}
		return enc(proto2.Command_CreateDataNodeCommand, proto2.E_CreateDataNodeCommand_Command,
			&proto2.CreateDataNodeCommand{HTTPAddr: proto.String(o.Name), TCPAddr: proto.String(o.S), Role: proto.String(o.S2), Az: proto.String(az)})
	case "createsqlnode":
		return enc(proto2.Command_CreateSqlNodeCommand, proto2.E_CreateSqlNodeCommand_Command,
			&proto2.CreateSqlNodeCommand{HTTPAddr: proto.String(o.Name), GossipAddr: proto.String(o.S)})
	case "createmetanode": // Name http, S rpc, S2 tcp, ID rand
		return enc(proto2.Command_CreateMetaNodeCommand, proto2.E_CreateMetaNodeCommand_Command,
			&proto2.CreateMetaNodeCommand{HTTPAddr: proto.String(o.Name), RPCAddr: proto.String(o.S), TCPAddr: proto.String(o.S2), Rand: proto.Uint64(o.ID)})
	case "setmetanode":
		return enc(proto2.Command_SetMetaNodeCommand, proto2.E_SetMetaNodeCommand_Command,
			&proto2.SetMetaNodeCommand{HTTPAddr: proto.String(o.Name), RPCAddr: proto.String(o.S), TCPAddr: proto.String(o.S2), Rand: proto.Uint64(o.ID)})
	case "deletemetanode":
		return enc(proto2.Command_DeleteMetaNodeCommand, proto2.E_DeleteMetaNodeCommand_Command, &proto2.DeleteMetaNodeCommand{ID: proto.Uint64(o.ID)})
	case "deletedatanode":
		return enc(proto2.Command_DeleteDataNodeCommand, proto2.E_DeleteDataNodeCommand_Command, &proto2.DeleteDataNodeCommand{ID: proto.Uint64(o.ID)})
	case "nodestatus": // ID node, N status, ID2 ltime, S gossip port
		return enc(proto2.Command_UpdateNodeStatusCommand, proto2.E_UpdateNodeStatusCommand_Command,
			&proto2.UpdateNodeStatusCommand{ID: proto.Uint64(o.ID), Status: proto.Int32(int32(o.N)), Ltime: proto.Uint64(o.ID2), GossipAddr: proto.String(o.S)})
	case "sqlnodestatus":
		return enc(proto2.Command_UpdateSqlNodeStatusCommand, proto2.E_UpdateSqlNodeStatusCommand_Command,
			&proto2.UpdateSqlNodeStatusCommand{ID: proto.Uint64(o.ID), Status: proto.Int32(int32(o.N)), Ltime: proto.Uint64(o.ID2), GossipAddr: proto.String(o.S)})
	case "metanodestatus":
		return enc(proto2.Command_UpdateMetaNodeStatusCommand, proto2.E_UpdateMetaNodeStatusCommand_Command,
			&proto2.UpdateMetaNodeStatusCommand{ID: proto.Uint64(o.ID), Status: proto.Int32(int32(o.N)), Ltime: proto.Uint64(o.ID2), GossipAddr: proto.String(o.S)})
	case "removenode":
		return enc(proto2.Command_RemoveNodeCommand, proto2.E_RemoveNodeCommand_Command, &proto2.RemoveNodeCommand{NodeIds: o.IDs})
	case "segregate": // IDs node ids, Ns statuses (same length)
		st := make([]uint64, len(o.Ns))
		for i, v := range o.Ns {
			st[i] = uint64(v)
		}
		return enc(proto2.Command_SetNodeSegregateStatusCommand, proto2.E_SetNodeSegregateStatusCommand_Command,
			&proto2.SetNodeSegregateStatusCommand{Status: st, NodeIds: o.IDs})
	case "nodetmpindex": // N role, ID index, ID2 node
		return enc(proto2.Command_UpdateNodeTmpIndexCommand, proto2.E_UpdateNodeTmpIndexCommand_Command,
			&proto2.UpdateNodeTmpIndexCommand{Role: proto.Int32(int32(o.N)), Index: proto.Uint64(o.ID), NodeId: proto.Uint64(o.ID2)})
	case "verifydatanode":
		return enc(proto2.Command_VerifyDataNodeCommand, proto2.E_VerifyDataNodeCommand_Command, &proto2.VerifyDataNodeCommand{NodeID: proto.Uint64(o.ID)})
	case "expandgroups":
		return enc(proto2.Command_ExpandGroupsCommand, proto2.E_ExpandGroupsCommand_Command, &proto2.ExpandGroupsCommand{})
	case "marktakeover":
		return enc(proto2.Command_MarkTakeoverCommand, proto2.E_MarkTakeoverCommand_Command, &proto2.MarkTakeoverCommand{Enable: proto.Bool(o.B)})
	case "markbalancer":
		return enc(proto2.Command_MarkBalancerCommand, proto2.E_MarkBalancerCommand_Command, &proto2.MarkBalancerCommand{Enable: proto.Bool(o.B)})
	case "updateptinfo": // ts-meta store.go:updatePtInfo: N pt id, ID current owner, N2 current status, ID2 new owner (0 = none), Ns[0] new status, Ns[1] ver, Ns[2] rgid
		pi := &meta.PtInfo{Owner: meta.PtOwner{NodeID: o.ID}, Status: meta.PtStatus(o.N2), PtId: uint32(o.N), Ver: uint64(o.Ns[1]), RGID: uint32(o.Ns[2])}
		cmd := &proto2.UpdatePtInfoCommand{Db: proto.String(o.DB), Pt: pi.Marshal(), Status: proto.Uint32(uint32(o.Ns[0]))}
		if o.ID2 > 0 {
			cmd.OwnerNode = proto.Uint64(o.ID2)
		}
		return enc(proto2.Command_UpdatePtInfoCommand, proto2.E_UpdatePtInfoCommand_Command, cmd)
	case "updateptversion":
		return enc(proto2.Command_UpdatePtVersionCommand, proto2.E_UpdatePtVersionCommand_Command, &proto2.UpdatePtVersionCommand{Db: proto.String(o.DB), Pt: proto.Uint32(uint32(o.N))})
	case "createevent", "updateevent":
		// AssignEvent/MoveEvent.marshalEvent: N pt id, ID pt owner, N2 pt status, Ns = [eventType, currState, preState, ptVer], ID2 = src, IDs = [dest, opId], B = checkConflict, B2 = db EnableTagArray
		pi := &meta.PtInfo{Owner: meta.PtOwner{NodeID: o.ID}, Status: meta.PtStatus(o.N2), PtId: uint32(o.N), Ver: uint64(o.Ns[3])}
		dbpt := &meta.DbPtInfo{Db: o.DB, Pti: pi, DBBriefInfo: &meta.DatabaseBriefInfo{Name: o.DB, EnableTagArray: o.B2, Replicas: 1}}
		if len(o.Sh) > 0 {
			dbpt.Shards = map[uint64]*meta.ShardDurationInfo{}
			for _, x := range o.Sh {
				dbpt.Shards[x.ID] = &meta.ShardDurationInfo{
					Ident: meta.ShardIdentifier{ShardID: x.ID, ShardGroupID: x.SG, Policy: x.RP, OwnerDb: o.DB, OwnerPt: uint32(o.N), ShardType: x.Typ, DownSampleLevel: x.DSL,
						DownSampleID: x.DSID, ReadOnly: x.RO, EngineType: x.Eng},
					DurationInfo: meta.DurationDescriptor{Tier: x.Tier, TierDuration: time.Duration(x.TierDur), Duration: time.Duration(x.Dur), MergeDuration: time.Duration(x.Merge)}}
			}
		}
		ev := &proto2.MigrateEventInfo{EventId: proto.String(dbpt.String()), EventType: proto.Int(int(o.Ns[0])), Pti: dbpt.Marshal(), CurrState: proto.Int(int(o.Ns[1])), PreState: proto.Int(int(o.Ns[2])),
			Src: proto.Uint64(o.ID2), Dest: proto.Uint64(o.IDs[0]), OpId: proto.Uint64(o.IDs[1]), CheckConflict: proto.Bool(o.B)}
		if o.K == "createevent" {
			return enc(proto2.Command_CreateEventCommand, proto2.E_CreateEventCommand_Command, &proto2.CreateEventCommand{EventInfo: ev})
		}
		return enc(proto2.Command_UpdateEventCommand, proto2.E_UpdateEventCommand_Command, &proto2.UpdateEventCommand{EventInfo: ev})
	case "removeevent":
		return enc(proto2.Command_RemoveEventCommand, proto2.E_RemoveEventCommand_Command, &proto2.RemoveEventCommand{EventId: proto.String(o.Name)})
	case "updatereplication":
		return enc(proto2.Command_UpdateReplicationCommand, proto2.E_UpdateReplicationCommand_Command,
			&proto2.UpdateReplicationCommand{Database: proto.String(o.DB), RepGroupId: proto.Uint32(uint32(o.N)), MasterId: proto.Uint32(uint32(o.N2))})

	case "createstream": // Name, DB/RP/Mst = source, SS = [destDb, destRp, destMst, dims...], Ns = [interval, delay], F = calls (N=field, T index into call names)
		callNames := []string{"sum", "count", "min", "max"}
		si := &meta.StreamInfo{Name: o.Name, Interval: time.Duration(o.Ns[0]), Delay: time.Duration(o.Ns[1]),
			SrcMst: &meta.StreamMeasurementInfo{Name: o.Mst, Database: o.DB, RetentionPolicy: o.RP},
			DesMst: &meta.StreamMeasurementInfo{Name: o.SS[2], Database: o.SS[0], RetentionPolicy: o.SS[1]},
			Dims:   o.SS[3:], Cond: o.S, IsSelectAll: o.N == 1}
		for _, f := range o.F {
			if f.T < 0 { // filter-only stream (NewStreamInfoNoCall): plain column, no call name, alias = column name
				si.Calls = append(si.Calls, &meta.StreamCall{Call: "", Field: f.N, Alias: f.N})
				continue
			}
			cn := callNames[int(f.T)%len(callNames)]
			alias := cn + "_" + f.N
			if f.E != 0 { // SELECT sum(f0) AS a<k>
				alias = fmt.Sprintf("a%d", f.E)
			}
			si.Calls = append(si.Calls, &meta.StreamCall{Call: cn, Field: f.N, Alias: alias})
		}
		return enc(proto2.Command_CreateStreamCommand, proto2.E_CreateStreamCommand_Command, &proto2.CreateStreamCommand{StreamInfo: si.Marshal()})
	case "dropstream":
		return enc(proto2.Command_DropStreamCommand, proto2.E_DropStreamCommand_Command, &proto2.DropStreamCommand{Name: proto.String(o.Name)})
	case "createcq":
		return enc(proto2.Command_CreateContinuousQueryCommand, proto2.E_CreateContinuousQueryCommand_Command,
			&proto2.CreateContinuousQueryCommand{Database: proto.String(o.DB), Name: proto.String(o.Name), Query: proto.String(o.S)})
	case "dropcq":
		return enc(proto2.Command_DropContinuousQueryCommand, proto2.E_DropContinuousQueryCommand_Command,
			&proto2.DropContinuousQueryCommand{Name: proto.String(o.Name), Database: proto.String(o.DB)})
	case "cqreport": // SS names, Ns last run times
		var st []*proto2.CQState
		for i := range o.SS {
			st = append(st, &proto2.CQState{Name: proto.String(o.SS[i]), LastRunTime: proto.Int64(o.Ns[i])})
		}
		return enc(proto2.Command_ContinuousQueryReportCommand, proto2.E_ContinuousQueryReportCommand_Command, &proto2.ContinuousQueryReportCommand{CQStates: st})
	case "cqlease":
		return enc(proto2.Command_NotifyCQLeaseChangedCommand, proto2.E_NotifyCQLeaseChangedCommand_Command, &proto2.NotifyCQLeaseChangedCommand{})
	case "createsub":
		return enc(proto2.Command_CreateSubscriptionCommand, proto2.E_CreateSubscriptionCommand_Command,
			&proto2.CreateSubscriptionCommand{Database: proto.String(o.DB), RetentionPolicy: proto.String(o.RP), Name: proto.String(o.Name), Mode: proto.String(o.S), Destinations: o.SS})
	case "dropsub":
		return enc(proto2.Command_DropSubscriptionCommand, proto2.E_DropSubscriptionCommand_Command,
			&proto2.DropSubscriptionCommand{Database: proto.String(o.DB), RetentionPolicy: proto.String(o.RP), Name: proto.String(o.Name)})
	case "createdownsample": // statement executor: Dur = duration, Ns = [sample1, time1, sample2, time2 ...], F: calls (N = agg op, T = data type)
		info := &meta.DownSamplePolicyInfo{Duration: durv(o.Dur)}
		for i := 0; i+1 < len(o.Ns); i += 2 {
			info.DownSamplePolicies = append(info.DownSamplePolicies, meta.NewDownSamplePolicy(time.Duration(o.Ns[i]), time.Duration(o.Ns[i+1])))
		}
		for _, f := range o.F {
			info.Calls = append(info.Calls, &meta.DownSampleOperators{AggOps: strings.Split(f.N, ","), DataType: int64(f.T)})
		}
		return enc(proto2.Command_CreateDownSamplePolicyCommand, proto2.E_CreateDownSamplePolicyCommand_Command,
			&proto2.CreateDownSamplePolicyCommand{Database: proto.String(o.DB), Name: proto.String(o.RP), DownSamplePolicyInfo: info.Marshal()})
	case "dropdownsample":
		return enc(proto2.Command_DropDownSamplePolicyCommand, proto2.E_DropDownSamplePolicyCommand_Command,
			&proto2.DropDownSamplePolicyCommand{Database: proto.String(o.DB), RpName: proto.String(o.RP), DropAll: proto.Bool(o.B)})
	case "registerqueryid":
		return enc(proto2.Command_RegisterQueryIDOffsetCommand, proto2.E_RegisterQueryIDOffsetCommand_Command, &proto2.RegisterQueryIDOffsetCommand{Host: proto.String(o.Name)})
	case "insertfiles":
		return enc(proto2.Command_InsertFilesCommand, proto2.E_InsertFilesCommand_Command, &proto2.InsertFilesCommand{})
	}
	panic("harness: unknown op kind " + o.K)
}

// kindType maps an op kind to the registered command type it is encoded as.
var kindType = map[string]proto2.Command_Type{
	"createdbpt": proto2.Command_CreateDbPtViewCommand, "createdb": proto2.Command_CreateDatabaseCommand, "createdb_rp": proto2.Command_CreateDatabaseCommand,
	"markdbdel": proto2.Command_MarkDatabaseDeleteCommand, "dropdb": proto2.Command_DropDatabaseCommand, "createrp": proto2.Command_CreateRetentionPolicyCommand,
	"updaterp": proto2.Command_UpdateRetentionPolicyCommand, "setdefaultrp": proto2.Command_SetDefaultRetentionPolicyCommand, "markrpdel": proto2.Command_MarkRetentionPolicyDeleteCommand,
	"droprp": proto2.Command_DropRetentionPolicyCommand, "createmst": proto2.Command_CreateMeasurementCommand, "createmst_simple": proto2.Command_CreateMeasurementCommand,
	"altershardkey": proto2.Command_AlterShardKeyCmd, "updateschema": proto2.Command_UpdateSchemaCommand, "markmstdel": proto2.Command_MarkMeasurementDeleteCommand,
	"dropmst": proto2.Command_DropMeasurementCommand, "updatemst": proto2.Command_UpdateMeasurementCommand, "createsg": proto2.Command_CreateShardGroupCommand,
	"deletesg": proto2.Command_DeleteShardGroupCommand, "deleteig": proto2.Command_DeleteIndexGroupCommand, "prune": proto2.Command_PruneGroupsCommand,
	"shardtier": proto2.Command_UpdateShardInfoTierCommand, "indextier": proto2.Command_UpdateIndexInfoTierCommand, "sharddownsample": proto2.Command_UpdateShardDownSampleInfoCommand,
	"resharding": proto2.Command_ReShardingCommand, "mergeshards": proto2.Command_ReplaceMergeShardsCommand, "createuser": proto2.Command_CreateUserCommand,
	"dropuser": proto2.Command_DropUserCommand, "updateuser": proto2.Command_UpdateUserCommand, "setpriv": proto2.Command_SetPrivilegeCommand, "setadmin": proto2.Command_SetAdminPrivilegeCommand,
	"createdatanode": proto2.Command_CreateDataNodeCommand, "createsqlnode": proto2.Command_CreateSqlNodeCommand, "createmetanode": proto2.Command_CreateMetaNodeCommand,
	"setmetanode": proto2.Command_SetMetaNodeCommand, "deletemetanode": proto2.Command_DeleteMetaNodeCommand, "deletedatanode": proto2.Command_DeleteDataNodeCommand,
	"nodestatus": proto2.Command_UpdateNodeStatusCommand, "sqlnodestatus": proto2.Command_UpdateSqlNodeStatusCommand, "metanodestatus": proto2.Command_UpdateMetaNodeStatusCommand,
	"removenode": proto2.Command_RemoveNodeCommand, "segregate": proto2.Command_SetNodeSegregateStatusCommand, "nodetmpindex": proto2.Command_UpdateNodeTmpIndexCommand,
	"verifydatanode": proto2.Command_VerifyDataNodeCommand, "expandgroups": proto2.Command_ExpandGroupsCommand, "marktakeover": proto2.Command_MarkTakeoverCommand,
	"markbalancer": proto2.Command_MarkBalancerCommand, "updateptinfo": proto2.Command_UpdatePtInfoCommand, "updateptversion": proto2.Command_UpdatePtVersionCommand,
	"createevent": proto2.Command_CreateEventCommand, "updateevent": proto2.Command_UpdateEventCommand, "removeevent": proto2.Command_RemoveEventCommand,
	"updatereplication": proto2.Command_UpdateReplicationCommand, "createstream": proto2.Command_CreateStreamCommand, "dropstream": proto2.Command_DropStreamCommand,
	"createcq": proto2.Command_CreateContinuousQueryCommand, "dropcq": proto2.Command_DropContinuousQueryCommand, "cqreport": proto2.Command_ContinuousQueryReportCommand,
	"cqlease": proto2.Command_NotifyCQLeaseChangedCommand, "createsub": proto2.Command_CreateSubscriptionCommand, "dropsub": proto2.Command_DropSubscriptionCommand,
	"createdownsample": proto2.Command_CreateDownSamplePolicyCommand, "dropdownsample": proto2.Command_DropDownSamplePolicyCommand,
	"registerqueryid": proto2.Command_RegisterQueryIDOffsetCommand, "insertfiles": proto2.Command_InsertFilesCommand,
}

// TypeName names the registered command type an Op kind is encoded as (for the evidence).
func (o Op) TypeName() string {
	t, ok := kindType[o.K]
	if !ok {
		return "?" + o.K
	}
	return t.String()
}

// Config is the per-case store configuration.
type Config struct {
	PtNumPerNode  uint32 `json:"pt_per_node"`
	SchemaCleanEn bool   `json:"schema_clean"`
	ExpandShards  bool   `json:"expand_shards"`
}

func NewFSM(c Config) *metasvc.VerifFSM {
	cfg := config.NewMeta()
	cfg.PtNumPerNode = c.PtNumPerNode
	cfg.SchemaCleanEn = c.SchemaCleanEn
	cfg.ExpandShardsEnable = c.ExpandShards
	return metasvc.NewVerifFSM(cfg)
}

// Apply applies op number i (0-based) of a log and renders the FSM's answer.
func Apply(f *metasvc.VerifFSM, i int, o Op) string {
	r := f.Apply(&raft.Log{Index: uint64(i + 2), Term: 1, Type: raft.LogCommand, Data: o.Bytes()})
	if r == nil {
		return "<nil>"
	}
	if e, ok := r.(error); ok {
		if e == nil {
			return "<nil>"
		}
		return "error: " + e.Error()
	}
	return fmt.Sprintf("%T: %v", r, r)
}
