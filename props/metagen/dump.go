//go:build verif

package metagen

import (
	"bytes"
	"encoding/json"
	"fmt"
	"sort"
	"time"

	meta "github.com/openGemini/openGemini/lib/util/lifted/influx/meta"
)

// DumpOpts selects the narrow normalisations used to keep a known-finding class out of the main campaign.
type DumpOpts struct {
	MaskMstID       bool // leave MeasurementInfo.ID out (known: lost by the snapshot's deep copy)
	MaskCQLastRun   bool // render a never-reported CQ LastRunTime (zero time / its wrapped image) as "unset"
	MaskEventPre    bool // leave MigrateEventInfo.preState out (known: restored from currState)
	MaskEvents      bool // leave the migrate events out altogether
	MaskSGTimeRange bool // not used by default
	// not a dump option: tolerate that two replicas refuse a CreateEvent with different DDL-conflict errors (known: the first
	// conflict met while ranging over maps is reported)
	MaskConflictErrorChoice bool
}

func ts(t time.Time) string {
	// faithful rendering of the instant (UnixNano would wrap outside 1678..2262)
	return t.UTC().Format(time.RFC3339Nano)
}

func set(t time.Time) string {
	// wall-clock stamps are compared as set/unset only
	if t.IsZero() {
		return "unset"
	}
	return "set"
}

type M = map[string]any

func nodeInfo(n meta.NodeInfo) M {
	return M{"ID": n.ID, "Host": n.Host, "RPCAddr": n.RPCAddr, "TCPHost": n.TCPHost, "Status": int(n.Status), "LTime": n.LTime,
		"GossipAddr": n.GossipAddr, "SegregateStatus": n.SegregateStatus, "Role": n.Role}
}

func dataNode(n meta.DataNode) M {
	m := nodeInfo(n.NodeInfo)
	m["ConnID"] = n.ConnID
	m["AliveConnID"] = n.AliveConnID
	m["Az"] = n.Az
	// n.Index is replication book-keeping (UpdateNodeTmpIndex) and is not persisted: excluded
	return m
}

func skiDump(s meta.ShardKeyInfo) M {
	return M{"ShardKey": strs(s.ShardKey), "Type": s.Type, "ShardGroup": s.ShardGroup}
}

func strs(s []string) []any {
	out := make([]any, len(s))
	for i := range s {
		out[i] = s[i]
	}
	return out
}

func u32s(s []uint32) []any {
	out := make([]any, len(s))
	for i := range s {
		out[i] = s[i]
	}
	return out
}

func mstDump(m *meta.MeasurementInfo, o DumpOpts) M {
	out := M{"Name": m.Name, "InitNumOfShards": m.InitNumOfShards, "MarkDeleted": m.MarkDeleted, "EngineType": int(m.EngineType)}
	if !o.MaskMstID {
		out["ID"] = m.ID
	}
	var sk []any
	for _, s := range m.ShardKeys {
		sk = append(sk, skiDump(s))
	}
	out["ShardKeys"] = sk
	si := M{}
	for k, v := range m.ShardIdexes {
		var l []any
		for _, x := range v {
			l = append(l, x)
		}
		si[fmt.Sprint(k)] = l
	}
	out["ShardIdexes"] = si
	sc := M{}
	if m.Schema != nil {
		m.Schema.RangeTypTimeCall(func(k string, typ int32, end int32) { sc[k] = M{"Typ": typ, "EndTime": end} })
	}
	out["Schema"] = sc
	ir := M{"Rid": m.IndexRelation.Rid, "IndexNames": strs(m.IndexRelation.IndexNames)}
	var oids []any
	for _, x := range m.IndexRelation.Oids {
		oids = append(oids, x)
	}
	ir["Oids"] = oids
	var il []any
	for _, l := range m.IndexRelation.IndexList {
		if l == nil {
			il = append(il, nil)
			continue
		}
		il = append(il, strs(l.IList))
	}
	ir["IndexList"] = il
	var io []any
	for _, l := range m.IndexRelation.IndexOptions {
		var opts []any
		if l != nil {
			for _, x := range l.Options {
				opts = append(opts, M{"Tokens": x.Tokens, "Tokenizers": x.Tokenizers, "TimeClusterDuration": int64(x.TimeClusterDuration)})
			}
		}
		io = append(io, M{"Options": opts})
	}
	ir["IndexOptions"] = io
	out["IndexRelation"] = ir
	if c := m.ColStoreInfo; c != nil {
		out["ColStoreInfo"] = M{"PrimaryKey": strs(c.PrimaryKey), "SortKey": strs(c.SortKey), "PropertyKey": strs(c.PropertyKey), "PropertyValue": strs(c.PropertyValue),
			"TimeClusterDuration": int64(c.TimeClusterDuration), "CompactionType": int(c.CompactionType)}
	}
	if p := m.Options; p != nil {
		out["Options"] = M{"CaseInSensitive": p.CaseInSensitive, "AppendMeta": p.AppendMeta, "WriteThreshold": p.WriteThreshold, "ReadThreshold": p.ReadThreshold,
			"StorageCapacity": p.StorageCapacity, "SplitChar": p.SplitChar, "TagsSplit": p.TagsSplit, "Ttl": p.Ttl}
	}
	// m.ObsOptions is a lazily filled copy of the database's options: excluded
	return out
}

func sgDump(g *meta.ShardGroupInfo) M {
	out := M{"ID": g.ID, "StartTime": ts(g.StartTime), "EndTime": ts(g.EndTime), "DeletedAt": set(g.DeletedAt), "EngineType": int(g.EngineType), "Version": g.Version}
	if !g.TruncatedAt.IsZero() {
		out["TruncatedAt"] = ts(g.TruncatedAt)
	}
	var sh []any
	for _, s := range g.Shards {
		sh = append(sh, M{"ID": s.ID, "Owners": u32s(s.Owners), "Min": s.Min, "Max": s.Max, "Tier": s.Tier, "IndexID": s.IndexID, "DownSampleID": s.DownSampleID,
			"DownSampleLevel": s.DownSampleLevel, "ReadOnly": s.ReadOnly, "MarkDelete": s.MarkDelete, "MergedNum": s.MergedNum})
	}
	out["Shards"] = sh
	return out
}

func igDump(g *meta.IndexGroupInfo) M {
	out := M{"ID": g.ID, "StartTime": ts(g.StartTime), "EndTime": ts(g.EndTime), "DeletedAt": set(g.DeletedAt), "EngineType": int(g.EngineType)}
	var ix []any
	for _, s := range g.Indexes {
		ix = append(ix, M{"ID": s.ID, "Owners": u32s(s.Owners), "Tier": s.Tier, "MarkDelete": s.MarkDelete})
	}
	out["Indexes"] = ix
	if c := g.ClearInfo; c != nil {
		var p []any
		for _, x := range c.ClearPeers {
			p = append(p, x)
		}
		out["ClearInfo"] = M{"NoClearIndexId": c.NoClearIndexId, "ClearPeers": p}
	}
	return out
}

func rpDump(rp *meta.RetentionPolicyInfo, o DumpOpts) M {
	out := M{"Name": rp.Name, "ReplicaN": rp.ReplicaN, "Duration": int64(rp.Duration), "ShardGroupDuration": int64(rp.ShardGroupDuration), "ShardMergeDuration": int64(rp.ShardMergeDuration),
		"HotDuration": int64(rp.HotDuration), "WarmDuration": int64(rp.WarmDuration), "IndexColdDuration": int64(rp.IndexColdDuration), "IndexGroupDuration": int64(rp.IndexGroupDuration),
		"MarkDeleted": rp.MarkDeleted}
	var igs, sgs, subs []any
	for i := range rp.IndexGroups {
		igs = append(igs, igDump(&rp.IndexGroups[i]))
	}
	for i := range rp.ShardGroups {
		sgs = append(sgs, sgDump(&rp.ShardGroups[i]))
	}
	for _, s := range rp.Subscriptions {
		subs = append(subs, M{"Name": s.Name, "Mode": s.Mode, "Destinations": strs(s.Destinations)})
	}
	out["IndexGroups"], out["ShardGroups"], out["Subscriptions"] = igs, sgs, subs
	ms := M{}
	for k, m := range rp.Measurements {
		ms[k] = mstDump(m, o)
	}
	out["Measurements"] = ms
	mv := M{}
	for k, v := range rp.MstVersions {
		mv[k] = M{"NameWithVersion": v.NameWithVersion, "Version": v.Version}
	}
	out["MstVersions"] = mv
	if d := rp.DownSamplePolicyInfo; d != nil {
		var calls, pols []any
		for _, c := range d.Calls {
			calls = append(calls, M{"AggOps": strs(c.AggOps), "DataType": c.DataType})
		}
		for _, p := range d.DownSamplePolicies {
			pols = append(pols, M{"SampleInterval": int64(p.SampleInterval), "TimeInterval": int64(p.TimeInterval), "WaterMark": int64(p.WaterMark)})
		}
		out["DownSamplePolicyInfo"] = M{"TaskID": d.TaskID, "Duration": int64(d.Duration), "Calls": calls, "DownSamplePolicies": pols}
	}
	return out
}

// zeroTimeImage is what a zero time.Time becomes after ContinuousQueryInfo.Marshal/unmarshal (UnixNano of year 1 wraps).
var zeroTimeImage = time.Unix(0, time.Time{}.UnixNano())

func dbDump(db *meta.DatabaseInfo, o DumpOpts) M {
	out := M{"Name": db.Name, "DefaultRetentionPolicy": db.DefaultRetentionPolicy, "MarkDeleted": db.MarkDeleted, "ShardKey": skiDump(db.ShardKey),
		"EnableTagArray": db.EnableTagArray, "ReplicaN": db.ReplicaN}
	rps := M{}
	for k, rp := range db.RetentionPolicies {
		rps[k] = rpDump(rp, o)
	}
	out["RetentionPolicies"] = rps
	cqs := M{}
	for k, cq := range db.ContinuousQueries {
		lr := ts(cq.LastRunTime)
		if o.MaskCQLastRun && (cq.LastRunTime.IsZero() || cq.LastRunTime.Equal(zeroTimeImage)) {
			lr = "never"
		}
		cqs[k] = M{"Name": cq.Name, "Query": cq.Query, "LastRunTime": lr}
	}
	out["ContinuousQueries"] = cqs
	if p := db.Options; p != nil {
		out["Options"] = M{"Enabled": p.Enabled, "BucketName": p.BucketName, "Ak": p.Ak, "Sk": p.Sk, "Endpoint": p.Endpoint, "BasePath": p.BasePath}
	}
	return out
}

// Dump renders the catalogue as a canonical tree: a WHITELIST of what property C15 enumerates (databases, policies,
// measurements and schemas, shard and index groups, partitions, nodes, users and privileges, streams, continuous queries,
// the id counters, plus the applied-log position). Replication book-keeping (OpsMap*, UpdateNodeTmpIndexCommandStart,
// DataNode.Index), the config mirror ExpandShardsEnable and the SQLite handle are left out.
func Dump(d *meta.Data, o DumpOpts) any {
	out := M{
		"Term": d.Term, "Index": d.Index, "ClusterID": d.ClusterID, "ClusterPtNum": d.ClusterPtNum, "PtNumPerNode": d.PtNumPerNode, "NumOfShards": d.NumOfShards,
		"AdminUserExists": d.AdminUserExists, "TakeOverEnabled": d.TakeOverEnabled, "BalancerEnabled": d.BalancerEnabled,
		"MaxNodeID": d.MaxNodeID, "MaxShardGroupID": d.MaxShardGroupID, "MaxShardID": d.MaxShardID, "MaxMstID": d.MaxMstID, "MaxIndexGroupID": d.MaxIndexGroupID,
		"MaxIndexID": d.MaxIndexID, "MaxEventOpId": d.MaxEventOpId, "MaxDownSampleID": d.MaxDownSampleID, "MaxStreamID": d.MaxStreamID, "MaxConnID": d.MaxConnID,
		"MaxSubscriptionID": d.MaxSubscriptionID, "MaxCQChangeID": d.MaxCQChangeID,
	}
	var mn, dn, sn []any
	for _, n := range d.MetaNodes {
		mn = append(mn, nodeInfo(n))
	}
	for _, n := range d.DataNodes {
		dn = append(dn, dataNode(n))
	}
	for _, n := range d.SqlNodes {
		sn = append(sn, dataNode(n))
	}
	out["MetaNodes"], out["DataNodes"], out["SqlNodes"] = mn, dn, sn
	pv := M{}
	for db, pts := range d.PtView {
		var l []any
		for _, p := range pts {
			l = append(l, M{"Owner": p.Owner.NodeID, "Status": int(p.Status), "PtId": p.PtId, "Ver": p.Ver, "RGID": p.RGID})
		}
		if l == nil {
			l = []any{"<empty view>"} // an entry with no partitions is still an entry (CreateDBPtView tests for nil)
		}
		pv[db] = l
	}
	out["PtView"] = pv
	rg := M{}
	for db, gs := range d.ReplicaGroups {
		var l []any
		for _, g := range gs {
			var peers []any
			for _, p := range g.Peers {
				peers = append(peers, M{"ID": p.ID, "Role": int(p.PtRole)})
			}
			l = append(l, M{"ID": g.ID, "MasterPtID": g.MasterPtID, "Status": int(g.Status), "Term": g.Term, "Peers": peers})
		}
		rg[db] = l
	}
	out["ReplicaGroups"] = rg
	dbs := M{}
	for k, db := range d.Databases {
		dbs[k] = dbDump(db, o)
	}
	out["Databases"] = dbs
	st := M{}
	for k, s := range d.Streams {
		var calls []any
		for _, c := range s.Calls {
			calls = append(calls, M{"Call": c.Call, "Field": c.Field, "Alias": c.Alias})
		}
		st[k] = M{"Name": s.Name, "ID": s.ID, "Interval": int64(s.Interval), "Delay": int64(s.Delay), "Cond": s.Cond, "IsSelectAll": s.IsSelectAll, "Dims": strs(s.Dims), "Calls": calls,
			"Src": M{"Name": s.SrcMst.Name, "Database": s.SrcMst.Database, "RetentionPolicy": s.SrcMst.RetentionPolicy},
			"Des": M{"Name": s.DesMst.Name, "Database": s.DesMst.Database, "RetentionPolicy": s.DesMst.RetentionPolicy}}
	}
	out["Streams"] = st
	var us []any
	for _, u := range d.Users {
		pr := M{}
		for k, v := range u.Privileges {
			pr[k] = int(v)
		}
		us = append(us, M{"Name": u.Name, "Hash": u.Hash, "Admin": u.Admin, "Rwuser": u.Rwuser, "Privileges": pr})
	}
	out["Users"] = us
	if !o.MaskEvents {
		ev := M{}
		for k, e := range d.MigrateEvents {
			m := M{"EventType": e.GetEventType(), "OpId": e.GetOpId(), "CurrState": e.GetCurrentState(), "Src": e.GetSrc(), "Dest": e.GetDst()}
			if !o.MaskEventPre {
				m["PreState"] = e.GetPreState()
			}
			m["AliveConnId"] = e.GetAliveConnId()
			if p := e.GetPtInfo(); p != nil && p.Pti != nil {
				pt := M{"Db": p.Db, "Owner": p.Pti.Owner.NodeID, "Status": int(p.Pti.Status), "PtId": p.Pti.PtId, "Ver": p.Pti.Ver, "RGID": p.Pti.RGID}
				if b := p.DBBriefInfo; b != nil {
					pt["DBBriefInfo"] = M{"Name": b.Name, "EnableTagArray": b.EnableTagArray, "Replicas": b.Replicas}
				}
				// the shards ts-meta attached to the event (what the store is told to load / move)
				sh := M{}
				for id, x := range p.Shards {
					if x == nil {
						sh[fmt.Sprint(id)] = "<nil>"
						continue
					}
					i, du := x.Ident, x.DurationInfo
					sh[fmt.Sprint(id)] = M{"ShardID": i.ShardID, "ShardGroupID": i.ShardGroupID, "Policy": i.Policy, "OwnerDb": i.OwnerDb, "OwnerPt": i.OwnerPt, "ShardType": i.ShardType,
						"DownSampleLevel": i.DownSampleLevel, "DownSampleID": i.DownSampleID, "ReadOnly": i.ReadOnly, "EngineType": i.EngineType, "StartTime": set(i.StartTime), "EndTime": set(i.EndTime),
						"Tier": du.Tier, "TierDuration": int64(du.TierDuration), "Duration": int64(du.Duration), "MergeDuration": int64(du.MergeDuration)}
				}
				pt["Shards"] = sh
				m["Pt"] = pt
			}
			ev[k] = m
		}
		out["MigrateEvents"] = ev
	}
	q := M{}
	for k, v := range d.QueryIDInit {
		q[string(k)] = v
	}
	out["QueryIDInit"] = q
	return Canon(out)
}

// Canon normalises a tree: nil, empty slices and empty maps are the same thing (dropped); numbers become json numbers.
func Canon(v any) any {
	b, err := json.Marshal(v)
	if err != nil {
		panic(err)
	}
	var x any
	dec := json.NewDecoder(bytes.NewReader(b))
	dec.UseNumber()
	if err := dec.Decode(&x); err != nil {
		panic(err)
	}
	return norm(x)
}

func norm(v any) any {
	switch x := v.(type) {
	case map[string]any:
		for k, e := range x {
			n := norm(e)
			if n == nil {
				delete(x, k)
			} else {
				x[k] = n
			}
		}
		if len(x) == 0 {
			return nil
		}
		return x
	case []any:
		if len(x) == 0 {
			return nil
		}
		for i := range x {
			x[i] = norm(x[i])
		}
		return x
	}
	return v
}

// String renders a canonical tree (map keys sorted by encoding/json).
func String(v any) string {
	b, _ := json.Marshal(v)
	return string(b)
}

// Diff returns the first differing paths (up to max) between two canonical trees, "" when equal.
func Diff(a, b any, max int) string {
	var out []string
	diff("", a, b, &out, max)
	s := ""
	for i, l := range out {
		if i > 0 {
			s += "; "
		}
		s += l
	}
	return s
}

func short(v any) string {
	s := String(v)
	if len(s) > 160 {
		s = s[:160] + "..."
	}
	return s
}

func diff(path string, a, b any, out *[]string, max int) {
	if len(*out) >= max {
		return
	}
	switch x := a.(type) {
	case map[string]any:
		y, ok := b.(map[string]any)
		if !ok {
			*out = append(*out, fmt.Sprintf("%s: %s vs %s", path, short(a), short(b)))
			return
		}
		keys := map[string]bool{}
		for k := range x {
			keys[k] = true
		}
		for k := range y {
			keys[k] = true
		}
		ks := make([]string, 0, len(keys))
		for k := range keys {
			ks = append(ks, k)
		}
		sort.Strings(ks)
		for _, k := range ks {
			diff(path+"/"+k, x[k], y[k], out, max)
		}
		return
	case []any:
		y, ok := b.([]any)
		if !ok || len(x) != len(y) {
			*out = append(*out, fmt.Sprintf("%s: %s vs %s", path, short(a), short(b)))
			return
		}
		for i := range x {
			diff(fmt.Sprintf("%s[%d]", path, i), x[i], y[i], out, max)
		}
		return
	}
	if String(a) != String(b) {
		*out = append(*out, fmt.Sprintf("%s: %s vs %s", path, short(a), short(b)))
	}
}
