package c06

// Native fuzz target (thorough tier): the fuzzer's bytes are the choice sequence of the same generator the rapid
// campaigns use (structured points -> spellings -> ONE-mutation broken lines -> request body); the round-trip oracle
// of the parser campaign runs inside. Known-finding classes are left out exactly as in the campaigns.

import (
	"testing"

	"verif/internal/ev"
)

func FuzzLineRoundTrip(f *testing.F) {
	f.Add([]byte{})
	f.Add([]byte{1, 2, 3, 4, 5, 6, 7, 8, 9, 10, 11, 12, 13, 14, 15, 16, 17, 18, 19, 20, 21, 22, 23, 24, 25, 26, 27, 28, 29, 30, 31, 32})
	f.Add([]byte("\x03\x02\x05\x09\x04\x0c\x01\x08\xff\xfe\x7f\x80\x00\x10\x20\x30\x40\x50\x60\x70\x11\x21\x31\x41\x51\x61\x71\x81\x91\xa1\xb1\xc1\xd1\xe1\xf1" +
		"\x02\x04\x06\x08\x0a\x0c\x0e\x12\x14\x16\x18\x1a\x1c\x1e\x22\x24\x26\x28\x2a\x2c\x2e\x32\x34\x36\x38\x3a\x3c\x3e\x42\x44\x46\x48\x4a\x4c\x4e"))
	seed := make([]byte, 600)
	for i := range seed {
		seed[i] = byte(i*37 + i/7)
	}
	f.Add(seed)
	for k := 0; k < 4; k++ {
		s2 := make([]byte, 400)
		for i := range s2 {
			s2[i] = byte((i+k)*(11+2*k) ^ (i >> 2))
		}
		f.Add(s2)
	}
	f.Fuzz(func(t *testing.T, data []byte) {
		if len(data) > 4096 {
			data = data[:4096]
		}
		opt, strict := withEnvSwitches(libOpts())
		o := genCase(&byteSrc{b: data}, opt)
		o.cs.Strict = strict
		_, err := checkLib(o.cs)
		if _, inc := err.(ev.InconclusiveError); inc {
			t.Skip(err.Error())
		}
		if err != nil {
			t.Fatalf("%v\nprecision=%s body=%q", err, o.cs.Precision, o.cs.Body)
		}
	})
}
