package c06

import (
	"fmt"
	"os"
	"testing"
	"time"

	"verif/internal/bb"
)

func TestProbeServer(t *testing.T) {
	if os.Getenv("C06_PROBE") == "" {
		t.Skip()
	}
	s := bb.NewServer(bb.Options{Prop: 6, Instance: 7})
	s.MustStart()
	s.MustExec("", "create database db0")
	fmt.Println("READY", s.URL(), s.Dir)
	time.Sleep(3 * time.Hour)
	bb.CleanupAll()
}
