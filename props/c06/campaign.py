from campaigns_util import B

SPEC = {
    "pkg": "props/c06", "level": "exploration", "bins": ["ts-server"], "max_parallel": 8, "replay_timeout": 600,
    "rule": ("write_query_roundtrip: structured points (1-3 fresh measurements per case, 0-4 tags, 1-6 typed fields; names from an alphabet with comma, space, '=', "
             "quotes, backslash, unicode, punctuation) are spelled as line protocol (every escape form the parser accepts incl. bare backslashes; int64 boundary-biased; "
             "floats as integers, with leading/trailing point, fixed, exponent e/E with and without sign, 17-digit, subnormal, max, -0; ten boolean spellings; strings "
             "with quotes and backslashes; unique timestamps near 2023, the epoch, the maximum and a shard-group boundary, precision ns/u/ms/s; CRLF, blank and comment "
             "lines, extra spaces), 50-200 lines are POSTed in one request to one long-lived real ts-server, optionally with lines broken by ONE mutation each (13 "
             "kinds; one case in eight is a body of 700-1500 valid lines = several 64 KiB read blocks); sentinel points written afterwards tell when the index has caught up; then `select * from \"<m>\" group by *` (epoch=ns, json.Number) of every "
             "measurement of the case, `show measurements` and `show field keys` must equal the structured points bit for bit: HTTP 204 => every valid line stored "
             "exactly and nothing else; a request whose last line is broken must get 4xx; on 4xx the valid lines are stored as a whole or not at all; a value, row, "
             "series or measurement that no valid line wrote is never admissible. parse_roundtrip: the same generator (1-6 lines, full measurement alphabet, lines "
             "without timestamp, any non-negative timestamp) through the handler's unit of work (GetUnmarshalWork.Unmarshal: parse, precision, CheckValid), rows "
             "compared field by field. Non-trivial: the request was accepted/stored and contains an escape sequence, an exponent float, an integer beyond 32 bits or "
             "a precision other than ns; distinct = hash of (body, precision)"),
    "assumptions": ["names are restricted where the system documents a restriction or cannot express them: no control characters anywhere (NUL separates the parts of a "
                    "series key, a raw newline ends a line and cannot be written in an InfluxQL string), no '\"' in field keys (the parser has no escape for it there), "
                    "no ',' ';' '/' '\\\\' in measurement names of the server campaign (refused by meta.ValidMeasurementName; the parser campaign uses them), names of one "
                    "point are distinct and tag keys differ from field keys",
                    "one request body stays below the handler's 64 KiB read block, so that one request is one parse unit",
                    "a valid line that is refused (4xx/5xx) is counted (outcome_valid_batch_rejected) but not failed: the property speaks about accepted points",
                    "the expected float of a spelling is strconv.ParseFloat's correctly rounded reading of the text; JSON numbers are compared after strconv.ParseFloat",
                    "known-finding classes are left out by construction and counted under excluded_by_construction: |int| > 2^53; float spellings on which the model of the "
                    "best-effort fast path (fastPathFloat) is not correctly rounded, incl. a leading '+'; timestamp x precision beyond int64; mutated values ending in 'f'; "
                    "quotes inside unquoted values; the acknowledgement of a request in which a broken line is followed by another line. After a fix a class is switched "
                    "back on with env C06_ALLOW=bigint,floatfast,tsoverflow,garbagef,quoteinside,strict (budget key `env`)"],
    "campaigns": [
        {"name": "write_query_roundtrip", "run": "^TestWriteQueryRoundTrip$", "quick": B(10, 5, 600, shrinktime="60s"), "thorough": B(160, 7, 3000, shrinktime="180s")},
        {"name": "parse_roundtrip", "run": "^TestParseRoundTrip$", "quick": B(40000, 2, 600), "thorough": B(1000000, 4, 3000)},
    ],
    "fuzz": [
        {"target": "FuzzLineRoundTrip", "seconds": 180},
    ],
}

META = {
    "engine": "bb-server",
    "technique": "property-based round-trip testing (rapid): line protocol -> POST /write on a real server -> InfluxQL query, compared with the structured points; "
                 "parser-level companion campaign and native go fuzz (thorough) with the same generator and oracle",
    "text": ("Generated points are spelled as line protocol in every form the parser accepts, written to a real server and read back; every value, tag, name and "
             "timestamp must come back bit for bit, lines broken by one mutation must be rejected with 4xx and leave nothing behind. Exploration: samples spellings, "
             "escapes and mutations (counted in the evidence), never proves absence."),
    "note": ("Trusts strconv's float parsing/printing, the harness' escaper (cross-checked by the parser campaign accepting every generated valid line) and the sentinel "
             "rule for index visibility (points written after the request in the same shard groups are visible => the request's series are). Seven known-finding "
             "classes are left out of the generated runs and listed under excluded_by_construction; each has a replay under replays/C06."),
}
