package c06

// Black-box campaign: one long-lived real ts-server per test process; every case posts one generated request
// body to /write under fresh measurement names, awaits visibility once and compares everything the server
// returns for the case's measurements with the structured points.

import (
	"encoding/json"
	"fmt"
	"math"
	"os"
	"sort"
	"strconv"
	"strings"
	"testing"
	"time"

	"pgregory.net/rapid"
	"verif/internal/bb"
	"verif/internal/ev"
)

const dbName = "db0"

type bbEnv struct {
	srv    *bb.Server
	known  map[string]bool // measurements that must exist (written validly and acknowledged or observed complete)
	caseNo int
	inst   string
	starts int
}

func newEnv(instance int) *bbEnv {
	e := &bbEnv{inst: os.Getenv("VERIF_INSTANCE"), known: map[string]bool{}}
	if e.inst == "" {
		e.inst = "0"
	}
	e.inst += "i" + strconv.Itoa(instance)
	e.start(instance)
	return e
}

func (e *bbEnv) start(instance int) {
	e.srv = bb.NewServer(bb.Options{Prop: 6, Instance: instance, NoHook: true})
	e.srv.MustStart()
	e.srv.MustExec("", "create database "+dbName)
	e.known = map[string]bool{}
	e.starts++
}

func (e *bbEnv) nextPrefix() string {
	e.caseNo++
	return fmt.Sprintf("c06x%sx%dx", e.inst, e.caseNo)
}

// cell is one observed value.
type cell struct {
	kind string // number | string | bool
	num  json.Number
	str  string
	b    bool
}

func (c cell) String() string {
	switch c.kind {
	case "number":
		return c.num.String()
	case "string":
		return strconv.Quote(c.str)
	}
	return strconv.FormatBool(c.b)
}

type observed map[string]map[int64]map[string]cell // series -> time -> field -> value

func observe(series []bb.Series) (observed, error) {
	obs := observed{}
	for _, se := range series {
		var tags [][2]string
		for k, v := range se.Tags {
			if v != "" {
				tags = append(tags, [2]string{k, v})
			}
		}
		sort.Slice(tags, func(i, j int) bool { return tags[i][0] < tags[j][0] })
		key := seriesKey(se.Name, tags)
		if _, dup := obs[key]; dup {
			return nil, fmt.Errorf("series %s returned twice", key)
		}
		rows := map[int64]map[string]cell{}
		obs[key] = rows
		if len(se.Columns) == 0 || se.Columns[0] != "time" {
			return nil, fmt.Errorf("series %s: first column is not time: %v", key, se.Columns)
		}
		for _, vals := range se.Values {
			tn, ok := vals[0].(json.Number)
			if !ok {
				return nil, fmt.Errorf("series %s: time is %T %v", key, vals[0], vals[0])
			}
			ts, err := strconv.ParseInt(tn.String(), 10, 64)
			if err != nil {
				return nil, fmt.Errorf("series %s: time %q", key, tn.String())
			}
			if _, dup := rows[ts]; dup {
				return nil, fmt.Errorf("series %s: time %d returned twice", key, ts)
			}
			row := map[string]cell{}
			for ci := 1; ci < len(se.Columns) && ci < len(vals); ci++ {
				switch x := vals[ci].(type) {
				case nil:
				case json.Number:
					row[se.Columns[ci]] = cell{kind: "number", num: x}
				case string:
					row[se.Columns[ci]] = cell{kind: "string", str: x}
				case bool:
					row[se.Columns[ci]] = cell{kind: "bool", b: x}
				default:
					return nil, fmt.Errorf("series %s time %d column %q holds %T", key, ts, se.Columns[ci], x)
				}
			}
			rows[ts] = row
		}
	}
	return obs, nil
}

func (o observed) rows() int {
	n := 0
	for _, r := range o {
		n += len(r)
	}
	return n
}

// cellMatches compares an observed cell with the written field, bit for bit.
func cellMatches(c cell, f fieldJ) bool {
	switch f.Kind {
	case "int":
		if c.kind != "number" {
			return false
		}
		i, err := strconv.ParseInt(c.num.String(), 10, 64)
		return err == nil && i == intOf(f.Val)
	case "float":
		if c.kind != "number" {
			return false
		}
		g, err := strconv.ParseFloat(c.num.String(), 64)
		return err == nil && math.Float64bits(g) == math.Float64bits(floatOf(f.Val))
	case "bool":
		return c.kind == "bool" && c.b == (f.Val == "true")
	default:
		return c.kind == "string" && c.str == f.Val
	}
}

type expRow struct {
	line   int
	fields map[string]fieldJ
}

// expectation of one measurement when every valid line is stored
type expected map[string]map[int64]expRow

func buildExpected(cs *caseJ) map[string]expected {
	out := map[string]expected{}
	for i, l := range cs.Lines {
		if !l.Valid {
			continue
		}
		p := l.Exp
		m := out[p.Mst]
		if m == nil {
			m = expected{}
			out[p.Mst] = m
		}
		k := seriesKey(p.Mst, p.effTags())
		if m[k] == nil {
			m[k] = map[int64]expRow{}
		}
		r := expRow{line: i, fields: map[string]fieldJ{}}
		for _, f := range p.Fields {
			r.fields[f.Key] = f
		}
		m[k][p.TSNs] = r
	}
	return out
}

// diffAll describes the first difference between what is stored for a measurement and "all valid lines stored".
// invented=true when the difference is something stored that no valid line said (never admissible).
func diffAll(cs *caseJ, exp expected, obs observed) (msg string, invented bool, line int) {
	for sk, rows := range obs {
		er, ok := exp[sk]
		if !ok {
			if len(rows) == 0 {
				continue
			}
			return fmt.Sprintf("series %s with %d row(s) is stored, but no valid line wrote it%s", sk, len(rows), brokenHint(cs, sk, rows)), true, -1
		}
		for ts, row := range rows {
			e, ok := er[ts]
			if !ok {
				return fmt.Sprintf("series %s has a row at time %d (%v) that no valid line wrote%s", sk, ts, row, brokenHint(cs, sk, rows)), true, -1
			}
			for fk, c := range row {
				f, ok := e.fields[fk]
				if !ok {
					return fmt.Sprintf("line %q: field %q = %v is stored but was not written", cs.Lines[e.line].Text, fk, c), true, e.line
				}
				if !cellMatches(c, f) {
					return fmt.Sprintf("line %q: field %q reads back as %v, written %s", cs.Lines[e.line].Text, fk, c, f.describe()), true, e.line
				}
			}
		}
	}
	for sk, er := range exp {
		rows := obs[sk]
		for ts, e := range er {
			row, ok := rows[ts]
			if !ok {
				return fmt.Sprintf("line %q: no row at time %d in series %s", cs.Lines[e.line].Text, ts, sk), false, e.line
			}
			for fk, f := range e.fields {
				if _, ok := row[fk]; !ok {
					return fmt.Sprintf("line %q: field %q (%s) is missing in the row read back", cs.Lines[e.line].Text, fk, f.describe()), false, e.line
				}
			}
		}
	}
	return "", false, -1
}

func brokenHint(cs *caseJ, sk string, rows map[int64]map[string]cell) string {
	for _, l := range cs.Lines {
		if l.Valid || l.Exp == nil {
			continue
		}
		if _, ok := rows[l.Exp.TSNs]; ok {
			return fmt.Sprintf(" (the broken line [%s] %q carries that timestamp)", l.Mut, l.Text)
		}
	}
	return ""
}

// shardBucket identifies the 7-day shard group of a timestamp (groups start on Mondays; 1970-01-01 was a Thursday).
func shardBucket(ts int64) int64 {
	return (ts/1e9 + 3*86400) / (7 * 86400)
}

// violation is a property violation; line >= 0 names the line of the case it is about.
type violation struct {
	msg  string
	line int
}

func (v *violation) Error() string { return v.msg }

// reduceToLine builds the one-line case of line i under a fresh measurement prefix.
func reduceToLine(cs *caseJ, i int, prefix string) *caseJ {
	b, _ := json.Marshal(cs.Lines[i])
	var l lineJ
	_ = json.Unmarshal(b, &l)
	l.Text = strings.ReplaceAll(l.Text, cs.Prefix, prefix)
	if l.Exp != nil {
		l.Exp.Mst = strings.ReplaceAll(l.Exp.Mst, cs.Prefix, prefix)
	}
	return &caseJ{Kind: cs.Kind, Precision: cs.Precision, Prefix: prefix, Lines: []lineJ{l}, Body: l.Text + "\n", Strict: cs.Strict}
}

type bbVerdict struct {
	status        int
	stored        bool // every valid line was found stored exactly
	statusSkipped bool
	retries5xx    int
	flushed       bool // verified once more after a forced flush
}

func (e *bbEnv) dead(cs *caseJ, when string) error {
	msg := fmt.Sprintf("the server process died %s; %s", when, e.srv.PanicInLogs())
	e.srv.Destroy()
	e.start(e.starts % 4)
	return fmt.Errorf("%s", msg)
}

func (e *bbEnv) writeRetry(precision, body string) (int, string, int) {
	deadline := time.Now().Add(15 * time.Second)
	retries := 0
	for {
		st, resp := e.srv.Write(dbName, "", precision, body)
		if st >= 200 && st < 500 {
			return st, resp, retries
		}
		if !e.srv.Alive() || time.Now().After(deadline) {
			return st, resp, retries
		}
		retries++
		time.Sleep(100 * time.Millisecond)
	}
}

// check posts the case and judges what the server stored. err != nil is a violation of the property.
func (e *bbEnv) check(cs *caseJ) (v bbVerdict, err error) {
	srv := e.srv
	status, resp, retries := e.writeRetry(cs.Precision, cs.Body)
	v.status, v.retries5xx = status, retries
	if !srv.Alive() {
		return v, e.dead(cs, "while handling the write request")
	}
	nb, last := cs.broken()
	exp := buildExpected(cs)
	msts := map[string]bool{}
	for _, l := range cs.Lines {
		if l.Exp != nil {
			msts[l.Exp.Mst] = true
		}
	}
	for _, x := range cs.Extra {
		msts[x] = true
	}
	var names []string
	for m := range msts {
		names = append(names, m)
	}
	sort.Strings(names)

	// The acknowledgement decides which final states are admissible.
	mustAll := false // every valid line must be stored (else: all of them or none of them)
	switch {
	case status == 204 && nb > 0 && (last || cs.Strict):
		l := cs.Lines[len(cs.Lines)-1]
		for _, x := range cs.Lines {
			if !x.Valid {
				l = x
			}
		}
		return v, fmt.Errorf("HTTP 204 for a request with the broken line [%s] %q: invalid input was not rejected with an error%s", l.Mut, l.Text, e.whatIsStored(cs))
	case status == 204:
		mustAll = true
		v.statusSkipped = nb > 0
	case status >= 400 && status < 500:
	default: // persistent 5xx / transport error with a living server: a refusal
	}

	// Sentinels: one point per shard group the request touches, written AFTER the request; once they are visible
	// the index has made visible everything that was added before them.
	buckets := map[int64]int64{}
	for _, l := range cs.Lines {
		if l.Exp != nil && l.Exp.HasTS {
			if _, ok := buckets[shardBucket(l.Exp.TSNs)]; !ok {
				buckets[shardBucket(l.Exp.TSNs)] = l.Exp.TSNs
			}
		}
	}
	sname := cs.Prefix + "zsentinel"
	var sb strings.Builder
	for _, ts := range buckets {
		fmt.Fprintf(&sb, "%s v=1i %d\n", sname, ts)
	}
	if st, r, _ := e.writeRetry("ns", sb.String()); st != 204 {
		if !srv.Alive() {
			return v, e.dead(cs, "while handling the sentinel write")
		}
		bb.Fatal("sentinel write refused: %d %s", st, r)
	}

	q := "select * from " + bb.Quote(sname)
	for _, m := range names {
		q += "; select * from " + bb.Quote(m) + " group by *"
	}
	deadline := time.Now().Add(20 * time.Second)
	var sentinelSince time.Time
	var lastDiff string
	var lastInvented bool
	var lastEmpty bool
	inventedPolls := 0
	lastLine := -1
	for {
		res, qerr := srv.Query(dbName, q, nil)
		if !srv.Alive() {
			return v, e.dead(cs, "while answering a query")
		}
		settled := false
		if qerr == nil && res.Err == "" && len(res.Results) == len(names)+1 {
			byID := map[int]bb.StmtResult{}
			for _, r := range res.Results {
				byID[r.ID] = r
			}
			sentinelOK := false
			if s0 := byID[0]; len(s0.Series) == 1 && len(s0.Series[0].Values) == len(buckets) {
				sentinelOK = true
				if sentinelSince.IsZero() {
					sentinelSince = time.Now()
				}
			}
			lastDiff, lastInvented, lastEmpty, lastLine = "", false, true, -1
			for i, m := range names {
				r := byID[i+1]
				if r.Err != "" && !strings.Contains(r.Err, "measurement not found") {
					lastDiff = fmt.Sprintf("query of %q failed: %s", m, r.Err)
					break
				}
				obs, oerr := observe(r.Series)
				if oerr != nil {
					lastDiff, lastInvented = oerr.Error(), true
					break
				}
				if obs.rows() > 0 {
					lastEmpty = false
				}
				ex := exp[m]
				if ex == nil {
					ex = expected{}
				}
				if d, inv, ln := diffAll(cs, ex, obs); d != "" && (lastDiff == "" || inv && !lastInvented) {
					lastDiff, lastInvented, lastLine = fmt.Sprintf("measurement %q: %s", m, d), inv, ln
				}
			}
			// with broken lines in the request the sentinels must have been visible for a while before a state is
			// taken as final (something stored for a broken line may surface under a name nobody polls for)
			calm := nb == 0 || (sentinelOK && time.Since(sentinelSince) > 500*time.Millisecond)
			switch {
			case lastDiff == "" && sentinelOK && calm:
				settled = true // every valid line stored exactly, nothing else
			case !mustAll && lastEmpty && sentinelOK && time.Since(sentinelSince) > 1500*time.Millisecond:
				settled = true // nothing stored, and later writes are visible for a while already
			}
		} else if qerr != nil {
			lastDiff = "query failed: " + qerr.Error()
		} else {
			lastDiff = "query failed: " + res.Err
		}
		if settled {
			break
		}
		// something stored that no valid line wrote does not go away: no need to wait for the deadline once the
		// index has caught up and three polls in a row saw it
		if lastInvented && !sentinelSince.IsZero() && time.Since(sentinelSince) > 1500*time.Millisecond {
			inventedPolls++
		} else {
			inventedPolls = 0
		}
		if time.Now().After(deadline) || inventedPolls >= 3 {
			if sentinelSince.IsZero() {
				bb.Fatal("sentinel points did not become visible in 20 s (%s)", lastDiff)
			}
			what := "every valid line must be stored"
			if !mustAll {
				what = "the valid lines must be stored as a whole or not at all, and nothing else"
			}
			return v, &violation{msg: fmt.Sprintf("HTTP %d (%s): %s [%s]", status, strings.TrimSpace(resp), lastDiff, what), line: lastLine}
		}
		time.Sleep(100 * time.Millisecond)
	}
	v.stored = lastDiff == "" && len(exp) > 0

	// No measurement may exist that was not written by a valid line (a broken line stored under another name).
	for m := range exp {
		e.known[m] = true
	}
	e.known[sname] = true
	have, merr := srv.ShowMeasurements(dbName)
	if merr != nil {
		if !srv.Alive() {
			return v, e.dead(cs, "while answering show measurements")
		}
		bb.Fatal("show measurements: %v", merr)
	}
	for _, m := range have {
		if !e.known[m] {
			e.known[m] = true // report once
			return v, fmt.Errorf("HTTP %d; measurement %q exists although no valid line wrote it (request body: %q)", status, m, cs.Body)
		}
	}

	// field types as declared by the written spelling
	if v.stored && len(exp) > 0 {
		if terr := e.checkFieldTypes(cs, exp); terr != nil {
			return v, terr
		}
	}
	// The same answer once the rows have left the memory table: forced flush, then the same selection again (the
	// statement is about what queries return, wherever the rows currently live).
	if v.stored && len(exp) > 0 {
		srv.Flush()
		if !srv.Alive() {
			return v, e.dead(cs, "while flushing")
		}
		q2 := ""
		for i, m := range names {
			if i > 0 {
				q2 += "; "
			}
			q2 += "select * from " + bb.Quote(m) + " group by *"
		}
		res, qerr := srv.Query(dbName, q2, nil)
		if !srv.Alive() {
			return v, e.dead(cs, "while answering a query after the flush")
		}
		if qerr != nil || res.Err != "" || len(res.Results) != len(names) {
			bb.Fatal("query after flush failed: %v %s", qerr, res.Err)
		}
		byID := map[int]bb.StmtResult{}
		for _, r := range res.Results {
			byID[r.ID] = r
		}
		for i, m := range names {
			r := byID[i]
			if r.Err != "" && !strings.Contains(r.Err, "measurement not found") {
				return v, fmt.Errorf("after flush: query of %q failed: %s", m, r.Err)
			}
			obs, oerr := observe(r.Series)
			if oerr != nil {
				return v, fmt.Errorf("after flush: %v", oerr)
			}
			ex := exp[m]
			if ex == nil {
				ex = expected{}
			}
			if d, _, ln := diffAll(cs, ex, obs); d != "" {
				return v, &violation{msg: fmt.Sprintf("HTTP %d; stored exactly while in the memory table, but after a flush: measurement %q: %s", status, m, d), line: ln}
			}
		}
		v.flushed = true
	}
	return v, nil
}

// whatIsStored waits for the index and describes what the measurements of the case hold (diagnosis for a wrongly
// acknowledged request).
func (e *bbEnv) whatIsStored(cs *caseJ) string {
	time.Sleep(2500 * time.Millisecond)
	seen := map[string]bool{}
	var sb strings.Builder
	for _, l := range cs.Lines {
		if l.Valid || l.Exp == nil || seen[l.Exp.Mst] {
			continue
		}
		seen[l.Exp.Mst] = true
		res, err := e.srv.Query(dbName, "select * from "+bb.Quote(l.Exp.Mst)+" group by *", nil)
		if err != nil || len(res.Results) == 0 {
			continue
		}
		for _, se := range res.Results[0].Series {
			for _, vals := range se.Values {
				if tn, ok := vals[0].(json.Number); ok && tn.String() != strconv.FormatInt(l.Exp.TSNs, 10) && l.Mut != "timestamp_overflow" {
					continue
				}
				fmt.Fprintf(&sb, "; stored for it: %s %v columns %v values %v", se.Name, se.Tags, se.Columns, vals)
			}
		}
	}
	return sb.String()
}

var typeNames = map[string]string{"int": "integer", "float": "float", "string": "string", "bool": "boolean"}

func (e *bbEnv) checkFieldTypes(cs *caseJ, exp map[string]expected) error {
	var names []string
	for m := range exp {
		names = append(names, m)
	}
	sort.Strings(names)
	for _, m := range names {
		res, err := e.srv.Query(dbName, "show field keys from "+bb.Quote(m), nil)
		if err != nil || res.Err != "" || len(res.Results) == 0 {
			continue // judged elsewhere; this is an additional observation only
		}
		got := map[string]string{}
		for _, se := range res.Results[0].Series {
			for _, v := range se.Values {
				if len(v) >= 2 {
					k, _ := v[0].(string)
					t, _ := v[1].(string)
					got[k] = t
				}
			}
		}
		for _, rows := range exp[m] {
			for _, r := range rows {
				for k, f := range r.fields {
					if t, ok := got[k]; ok && t != typeNames[f.Kind] {
						return fmt.Errorf("line %q: field %q is of type %s in the catalogue, written as %s", cs.Lines[r.line].Text, k, t, f.describe())
					}
				}
			}
		}
	}
	return nil
}

func bbOpts(prefix string) genOpts {
	return genOpts{prefix: prefix, minLines: 50, maxLines: 200, bigBodies: true}
}

func TestWriteQueryRoundTrip(t *testing.T) {
	env := newEnv(0)
	rapid.Check(t, ev.Prop(prop, "write_query_roundtrip", func(t *rapid.T, c *ev.Case) {
		opt, strict := withEnvSwitches(bbOpts(env.nextPrefix()))
		o := genCase(rapidSrc{t}, opt)
		o.cs.Strict = strict
		commit(c, o)
		v, err := env.check(o.cs)
		if err != nil {
			rep, msg := o.cs, err.Error()
			if ve, ok := err.(*violation); ok && ve.line >= 0 && len(o.cs.Lines) > 1 {
				small := reduceToLine(o.cs, ve.line, env.nextPrefix())
				if _, e2 := env.check(small); e2 != nil {
					rep, msg = small, e2.Error()+" (case reduced to the offending line)"
				}
			}
			c.Failf(t, prop, rep, "%s", msg)
		}
		nb, _ := o.cs.broken()
		c.Class(fmt.Sprintf("http_%d", v.status))
		if v.retries5xx > 0 {
			c.Class("write_refused_5xx_then_retried")
		}
		switch {
		case v.stored:
			c.Class("outcome_valid_lines_stored")
		case nb == 0:
			c.Class("outcome_valid_batch_rejected")
		default:
			c.Class("outcome_rejected_as_a_whole")
		}
		if v.flushed {
			c.Class("verified_again_after_flush")
		}
		if v.statusSkipped {
			c.Excluded(exSilentDrop)
		}
		c.Class(fmt.Sprintf("lines_%d+", min(len(o.cs.Lines)/50*50, 250)))
		if o.nt && v.stored {
			smp := o.cs.Lines
			if len(smp) > 3 {
				smp = smp[:3]
			}
			var texts []string
			for _, l := range smp {
				texts = append(texts, l.Text)
			}
			c.Sample(map[string]any{"precision": o.cs.Precision, "lines": len(o.cs.Lines), "first_lines": texts, "http": v.status})
			c.Nontrivial(o.cs.Body + "|" + o.cs.Precision)
		}
	}))
}
