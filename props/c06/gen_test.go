package c06

// Generator of structured points, their spellings and ONE-mutation broken lines. All randomness comes from a
// `src`: rapid draws in the campaigns, the fuzzer's bytes in the native fuzz target.

import (
	"fmt"
	"math"
	"os"
	"strconv"
	"strings"

	"pgregory.net/rapid"
)

type src interface {
	n(label string, k int) int // a number in [0,k); 0 is the simplest choice
	u64(label string) uint64
}

type rapidSrc struct{ t *rapid.T }

func (r rapidSrc) n(l string, k int) int {
	if k <= 1 {
		return 0
	}
	return rapid.IntRange(0, k-1).Draw(r.t, l)
}
func (r rapidSrc) u64(l string) uint64 { return rapid.Uint64().Draw(r.t, l) }

// byteSrc reads choices from a byte string (native fuzzing); an exhausted source answers 0.
type byteSrc struct {
	b []byte
	i int
}

func (s *byteSrc) next() byte {
	if s.i >= len(s.b) {
		return 0
	}
	v := s.b[s.i]
	s.i++
	return v
}
func (s *byteSrc) n(_ string, k int) int {
	if k <= 1 {
		return 0
	}
	if k <= 256 {
		return int(s.next()) % k
	}
	return (int(s.next())<<8 | int(s.next())) % k
}
func (s *byteSrc) u64(_ string) uint64 {
	var v uint64
	for i := 0; i < 8; i++ {
		v = v<<8 | uint64(s.next())
	}
	return v
}

// known-finding classes that are left out of the main campaigns by construction (each has a replay)
const (
	exBigInt      = "int_abs_gt_2p53"                 // C06-int-over-2p53
	exFloatFast   = "float_spelling_fastpath_inexact" // C06-float-fastpath (exponent/short-mantissa spellings, leading '+')
	exTSOverflow  = "timestamp_times_precision_overflows_int64"
	exGarbageF    = "garbage_value_ending_in_f"
	exQuoteInside = "quote_inside_unquoted_value"
	exSilentDrop  = "broken_line_followed_by_another_line_status_not_judged"
)

type genOpts struct {
	lib       bool   // parser campaign: full measurement alphabet, lines without timestamp, arbitrary timestamps
	prefix    string // measurement name prefix, unique per case
	minLines  int
	maxLines  int
	bigBodies bool // now and then a body larger than the handler's read block (valid lines only)
	// known-finding classes let through (only the dedicated known-finding tests set these)
	allowBigInt, allowFloatFast, allowTSOverflow, allowGarbageF, allowQuoteInside bool
}

// withEnvSwitches lets known-finding classes through that are named in C06_ALLOW (comma separated: bigint,
// floatfast, tsoverflow, garbagef, quoteinside). campaign.py can set it per budget (`env`) once a finding is fixed;
// "strict" additionally judges the acknowledgement of requests in which a broken line is followed by another line.
func withEnvSwitches(o genOpts) (genOpts, bool) {
	strict := false
	// fixed in /repo (83d1537, c209245, 7cc6ec2): these classes are part of the main campaigns again
	o.allowFloatFast, o.allowTSOverflow, o.allowGarbageF, o.allowQuoteInside = true, true, true, true
	for _, k := range strings.Split(os.Getenv("C06_ALLOW"), ",") {
		switch strings.TrimSpace(k) {
		case "bigint":
			o.allowBigInt = true
		case "floatfast":
			o.allowFloatFast = true
		case "tsoverflow":
			o.allowTSOverflow = true
		case "garbagef":
			o.allowGarbageF = true
		case "quoteinside":
			o.allowQuoteInside = true
		case "strict":
			strict = true
		}
	}
	return o, strict
}

type genOut struct {
	cs       *caseJ
	classes  map[string]bool
	excluded []string
	nt       bool // non-trivial by the stated rule

	tsOverflow bool // set by genTS for the line being generated (only with allowTSOverflow)
}

func (o *genOut) class(c string) { o.classes[c] = true }

var (
	alPlain   = []rune("abcxyzABZ_-")
	alSpecial = []rune{',', ' ', '=', '"', '\\', '\''}
	alUni     = []rune{'ü', 'é', '€', 'Ω', '日', '本', '😀'}
	alPunct   = []rune("#!@$%^&*()[]{}<>?|~`:+.;/")
)

// genRunes draws 0..maxLen runes; no digits (digits are reserved for the stems that keep names distinct),
// no control characters (the series key format uses NUL as separator; a raw newline ends the line).
func genRunes(s src, label string, maxLen int, forbid string) string {
	n := s.n(label+"_len", maxLen+1)
	var sb strings.Builder
	for i := 0; i < n; i++ {
		var r rune
		switch c := s.n(label+"_cat", 20); {
		case c < 8:
			r = alPlain[s.n(label+"_p", len(alPlain))]
		case c < 15:
			r = alSpecial[s.n(label+"_s", len(alSpecial))]
		case c < 18:
			r = alUni[s.n(label+"_u", len(alUni))]
		default:
			r = alPunct[s.n(label+"_q", len(alPunct))]
		}
		if strings.ContainsRune(forbid, r) {
			r = 'a'
		}
		sb.WriteRune(r)
	}
	return sb.String()
}

func noteString(o *genOut, what, v string) {
	if strings.ContainsAny(v, ", =") {
		o.class(what + "_escaped_delimiter")
		o.nt = true
	}
	if strings.ContainsRune(v, '\\') {
		o.class(what + "_backslash")
		o.nt = true
	}
	if strings.ContainsRune(v, '"') {
		o.class(what + "_quote")
		if what == "string" {
			o.nt = true
		}
	}
	for _, r := range v {
		if r > 127 {
			o.class(what + "_unicode")
			break
		}
	}
}

type fieldSpec struct {
	key  string
	kind string
}

type schema struct {
	mst     string
	tagKeys []string
	tagVals [][]string // small pool of values per tag key (series are reused by several lines)
	fields  []fieldSpec
	bare    bool // write backslashes bare where the parser allows it
	escEq   bool // escape '=' in the measurement name (not required, accepted)
}

var kinds = []string{"int", "float", "string", "bool"}

func genSchema(s src, o *genOut, opt genOpts, j int) *schema {
	sc := &schema{}
	forbid := `,;/\` // the server refuses these in measurement names (meta.ValidMeasurementName)
	if opt.lib {
		forbid = ""
	}
	sc.mst = opt.prefix + strconv.Itoa(j) + genRunes(s, "mst", 5, forbid)
	noteString(o, "mst", sc.mst)
	nt := s.n("ntags", 5)
	for i := 0; i < nt; i++ {
		k := genRunes(s, "tkpre", 2, "") + "k" + strconv.Itoa(i) + genRunes(s, "tksuf", 3, "")
		sc.tagKeys = append(sc.tagKeys, k)
		noteString(o, "tagkey", k)
		nv := 1 + s.n("ntagvals", 3)
		var vals []string
		for v := 0; v < nv; v++ {
			x := genRunes(s, "tv", 6, "")
			if x == "" && s.n("tv_empty", 4) != 0 {
				x = "v" + strconv.Itoa(v)
			}
			vals = append(vals, x)
			noteString(o, "tagval", x)
		}
		sc.tagVals = append(sc.tagVals, vals)
	}
	nf := 1 + s.n("nfields", 6)
	for i := 0; i < nf; i++ {
		// a '"' cannot be written in a field key (the parser has no escape for it there)
		k := genRunes(s, "fkpre", 2, `"`) + "f" + strconv.Itoa(i) + genRunes(s, "fksuf", 3, `"`)
		sc.fields = append(sc.fields, fieldSpec{key: k, kind: kinds[s.n("fkind", 4)]})
		noteString(o, "fieldkey", k)
	}
	sc.bare = s.n("bare", 3) == 1
	sc.escEq = s.n("esceq", 2) == 1
	return sc
}

var intBoundaries = []int64{0, 1, -1, math.MaxInt32, math.MaxInt32 + 1, math.MinInt32, math.MinInt32 - 1, 1 << 32, 1<<53 - 1, 1 << 53, -(1 << 53),
	1<<53 + 1, -(1<<53 + 1), 1 << 62, math.MaxInt64 - 1, math.MaxInt64, math.MinInt64, math.MinInt64 + 1, 999999999999999999, 1000000000000000000, -1000000000000000000}

func genInt(s src, o *genOut, opt genOpts) int64 {
	var v int64
	switch s.n("int_shape", 4) {
	case 0:
		v = int64(s.n("int_small", 201)) - 100
	case 1:
		v = intBoundaries[s.n("int_boundary", len(intBoundaries))]
		o.class("int_boundary")
	case 2:
		v = int64(s.u64("int_any"))
	default: // uniform in the bit length
		v = int64(s.u64("int_bits") >> uint(s.n("int_shift", 64)))
		if s.n("int_neg", 2) == 1 {
			v = -v
		}
	}
	if absGT2p53(v) && !opt.allowBigInt {
		o.excluded = append(o.excluded, exBigInt)
		v /= 2048
	}
	if v > math.MaxInt32 || v < math.MinInt32 {
		o.class("int_beyond_32bit")
		o.nt = true
	}
	if v == maxExactInt || v == -maxExactInt {
		o.class("int_at_2p53")
	}
	if absGT2p53(v) {
		o.class("int_beyond_2p53")
	}
	return v
}

var floatBoundaries = []string{"1.7976931348623157e308", "-1.7976931348623157e+308", "5e-324", "4.9406564584124654e-324", "-4.9406564584124654E-324",
	"2.2250738585072014e-308", "2.225073858507201e-308", "9007199254740992", "9007199254740994", "0.1", "0.30000000000000004", "1e22", "1e23", "-1e-3", "1E+5",
	"123456789012345678", "1234567890123456789", "0.000001", "1e-7", "-0", "-0.0", "0e0", "0.0", "1e-300", "1E300", "179769313486231570000000000000000000000"}

// genFloat returns a spelling and the float64 it denotes (strconv's correctly rounded reading of the text).
func genFloat(s src, o *genOut, opt genOpts) (string, float64) {
	var text string
	switch s.n("float_shape", 7) {
	case 0:
		text = strconv.Itoa(s.n("float_small", 41) - 20)
		o.class("float_spelled_as_integer")
	case 1:
		text = []string{"1.0", "5.", ".5", "-.5", "-0", "-0.0", "10.", "0.", ".25"}[s.n("float_pointy", 9)]
		o.class("float_leading_or_trailing_point")
	case 2:
		text = fmt.Sprintf("%d.%0*d", s.n("float_ip", 2001)-1000, 1+s.n("float_fw", 6), s.n("float_fp", 1000))
	case 3: // short mantissa with exponent: -1e-3, 1E+5, 2.5e10
		m := strconv.Itoa(s.n("float_em", 199) - 99)
		if s.n("float_efrac", 2) == 1 {
			m += "." + strconv.Itoa(s.n("float_efd", 100))
		}
		e := s.n("float_eexp", 61) - 30
		es := strconv.Itoa(e)
		if e >= 0 && s.n("float_eplus", 2) == 1 {
			es = "+" + es
		}
		text = m + []string{"e", "E"}[s.n("float_ecase", 2)] + es
	case 4:
		text = floatBoundaries[s.n("float_boundary", len(floatBoundaries))]
		o.class("float_boundary")
	default: // any finite float64 in one of the formats strconv can print it exactly
		u := s.u64("float_bits")
		f := math.Float64frombits(u)
		if math.IsNaN(f) || math.IsInf(f, 0) {
			f = math.Float64frombits(u &^ (1 << 62))
		}
		switch s.n("float_fmt", 6) {
		case 0:
			text = strconv.FormatFloat(f, 'g', -1, 64)
		case 1:
			text = strconv.FormatFloat(f, 'e', -1, 64)
		case 2:
			text = strconv.FormatFloat(f, 'E', -1, 64)
		case 3:
			text = strconv.FormatFloat(f, 'f', -1, 64)
		case 4:
			text = strconv.FormatFloat(f, 'e', 16, 64)
		default:
			text = strconv.FormatFloat(f, 'g', 17, 64)
		}
	}
	want, err := strconv.ParseFloat(text, 64)
	if err != nil {
		panic(fmt.Sprintf("harness: float spelling %q: %v", text, err))
	}
	if floatSpellingKnownInexact(text, want) && !opt.allowFloatFast {
		o.excluded = append(o.excluded, exFloatFast)
		text = strconv.FormatFloat(want, 'e', 16, 64) // 17 significant digits: read by strconv inside the parser
	}
	if strings.ContainsAny(text, "eE") {
		o.class("float_exponent")
		o.nt = true
	}
	if want != 0 && math.Abs(want) < 2.2250738585072014e-308 {
		o.class("float_subnormal")
	}
	if math.Abs(want) == math.MaxFloat64 {
		o.class("float_max")
	}
	if want == 0 && math.Signbit(want) {
		o.class("float_negative_zero")
	}
	if len(text) > 40 {
		o.class("float_long_decimal")
	}
	return text, want
}

var boolSpellings = []string{"true", "false", "t", "f", "T", "F", "True", "False", "TRUE", "FALSE"}

func genField(s src, o *genOut, opt genOpts, sc *schema, fs fieldSpec) fieldJ {
	f := fieldJ{Key: fs.key, Kind: fs.kind}
	switch fs.kind {
	case "int":
		v := genInt(s, o, opt)
		f.Val = strconv.FormatInt(v, 10)
		f.Text = f.Val + "i"
		if v == 0 && s.n("int_negzero", 8) == 1 {
			f.Text = "-0i"
		}
	case "float":
		text, v := genFloat(s, o, opt)
		f.Val, f.Text = floatVal(v), text
	case "bool":
		sp := boolSpellings[s.n("bool_spelling", len(boolSpellings))]
		f.Text = sp
		f.Val = strconv.FormatBool(sp[0] == 't' || sp[0] == 'T')
		o.class("bool_" + sp)
	default:
		v := genRunes(s, "str", 10, "")
		if v != "" && s.n("str_digits", 4) == 0 {
			v += strconv.Itoa(s.n("str_num", 1000))
		}
		f.Val = v
		f.Text = escString(v, sc.bare)
		noteString(o, "string", v)
		if v == "" {
			o.class("string_empty")
		}
	}
	return f
}

// timestamps: every line of a case gets its own timestamp (idx is the line number), so that a broken line
// that was stored after all shows up as an extra row.
const (
	baseSec     = int64(1700000000) // 2023-11-14, shard group 2023-11-13
	weekEdgeSec = int64(1700438400) // 2023-11-20T00:00:00Z, a shard group boundary
	maxTimeNs   = int64(math.MaxInt64 - 1)
)

func genTS(s src, o *genOut, opt genOpts, prec string, idx int) (text string, ns int64, has bool) {
	mult := precMult[prec]
	perSec := int64(1e9) / mult
	u := int64(idx)*8 + int64(s.n("ts_jitter", 8))
	var units int64
	nshape := 8
	if opt.lib {
		nshape = 11
	}
	switch shape := s.n("ts_shape", nshape); {
	case shape <= 4:
		units = baseSec*perSec + u
	case shape == 5:
		units = u
		o.class("ts_near_epoch")
	case shape == 6:
		units = maxTimeNs/mult - u
		o.class("ts_near_max")
	case shape == 7:
		if s.n("ts_edge_side", 2) == 0 {
			units = weekEdgeSec*perSec + u
		} else {
			units = weekEdgeSec*perSec - 1 - u
		}
		o.class("ts_at_shard_group_boundary")
	case shape == 8:
		o.class("no_timestamp")
		return "", 0, false
	default: // lib only: any non-negative int64
		units = int64(s.u64("ts_any") >> 1)
		if units > maxTimeNs/mult && units <= math.MaxInt64/mult {
			units = maxTimeNs / mult // math.MaxInt64 ns itself is refused by the points writer (time outside range), not by the parser
		}
		if units > math.MaxInt64/mult {
			if opt.allowTSOverflow {
				o.class("ts_overflow")
				o.tsOverflow = true // the caller turns the line into a broken one (mutation timestamp_overflow)
				return strconv.FormatInt(units, 10), units * mult, true
			}
			o.excluded = append(o.excluded, exTSOverflow)
			units %= maxTimeNs / mult
		}
		o.class("ts_any")
	}
	return strconv.FormatInt(units, 10), units * mult, true
}

type lineParts struct {
	lead, head, sp1 string
	fields          []string
	sp2, ts, trail  string
}

func (p *lineParts) text() string {
	t := p.lead + p.head + p.sp1 + strings.Join(p.fields, ",")
	if p.ts != "" {
		t += p.sp2 + p.ts
	}
	return t + p.trail
}

func genPoint(s src, o *genOut, opt genOpts, sc *schema, prec string, idx int) (*pointJ, *lineParts) {
	p := &pointJ{Mst: sc.mst}
	lp := &lineParts{sp1: " ", sp2: " "}
	lp.head = escIdent(sc.mst, true, sc.escEq, sc.bare)
	for i, k := range sc.tagKeys {
		if s.n("tag_present", 4) == 0 {
			continue
		}
		v := sc.tagVals[i][s.n("tag_val", len(sc.tagVals[i]))]
		p.Tags = append(p.Tags, [2]string{k, v})
		lp.head += "," + escIdent(k, false, false, sc.bare) + "=" + escIdent(v, false, false, sc.bare)
		if v == "" {
			o.class("empty_tag_value")
		}
	}
	if len(p.effTags()) == 0 {
		o.class("series_without_tags")
	}
	mask := s.n("field_mask", 1<<len(sc.fields)-1) + 1
	for i, fs := range sc.fields {
		if mask&(1<<i) == 0 {
			continue
		}
		f := genField(s, o, opt, sc, fs)
		p.Fields = append(p.Fields, f)
		lp.fields = append(lp.fields, escIdent(f.Key, false, false, sc.bare)+"="+f.Text)
	}
	p.TSText, p.TSNs, p.HasTS = genTS(s, o, opt, prec, idx)
	lp.ts = p.TSText
	switch s.n("ws", 10) {
	case 1:
		lp.sp1 = "  "
		o.class("ws_extra_spaces")
	case 2:
		lp.sp2 = "   "
		o.class("ws_extra_spaces")
	case 3:
		lp.trail = " "
		o.class("ws_trailing_space")
	case 4:
		lp.lead = "  "
		o.class("ws_leading_space")
	}
	if sc.bare && (strings.Contains(lp.head, `\`) || strings.Contains(strings.Join(lp.fields, ","), `\`)) {
		o.class("spelling_bare_backslash_allowed")
	}
	return p, lp
}

var mutKinds = []string{"no_fields", "num_two_points", "int_garbage", "unterminated_string", "bad_timestamp", "stray_equals", "empty_field_value",
	"missing_tag_value", "bad_number", "unescaped_space_in_tag", "empty_measurement", "trailing_comma", "float_overflow"}

var badNumbers = []string{"1e", "e5", "--1", "1e+", "0x10", "1_000", ".", "-", "NaN", "nan", "1.5F", "tru", "TRUE1", "yes", "1,5", "1i5i", "i", "1ii", "1.5i", "1e3i", "1..", "1e5.0", "+-1"}
var badTimestamps = []string{"12x", "1.5", "abc", "1e9", "0x10", "99999999999999999999", "9223372036854775808", "17 18", "1700000000i", "+5"}

// mutate breaks the line by exactly one mutation; returns the mutation's name.
func mutate(s src, o *genOut, opt genOpts, p *pointJ, lp *lineParts, sc *schema, prec string) string {
	nk := len(mutKinds)
	extra := []string{}
	if opt.allowGarbageF {
		extra = append(extra, "garbage_f")
	}
	if opt.allowQuoteInside {
		extra = append(extra, "quote_inside_unquoted")
	}
	if opt.allowTSOverflow && lp.ts != "" && precMult[prec] > 1 {
		extra = append(extra, "timestamp_overflow")
	}
	k := s.n("mut_kind", nk+len(extra))
	kind := ""
	if k < nk {
		kind = mutKinds[k]
	} else {
		kind = extra[k-nk]
	}
	fi := s.n("mut_field", len(lp.fields))
	key := escIdent(p.Fields[fi].Key, false, false, sc.bare)
	numeric := -1 // a field that is not a string (quotes inside a value are a different, known class)
	for i := range p.Fields {
		if p.Fields[(fi+i)%len(p.Fields)].Kind != "string" {
			numeric = (fi + i) % len(p.Fields)
			break
		}
	}
	// a value of more than one character that ends in 'f' is read best-effort as a float (known finding
	// C06-garbage-f): such a mutated value is left out and replaced by the empty-key form
	setNumeric := func(v string) {
		if len(v) > 1 && v[len(v)-1] == 'f' && !opt.allowGarbageF {
			o.excluded = append(o.excluded, exGarbageF)
			lp.fields[fi] = "=1"
			return
		}
		lp.fields[numeric] = escIdent(p.Fields[numeric].Key, false, false, sc.bare) + "=" + v
	}
	switch kind {
	case "num_two_points":
		lp.fields[fi] = key + "=1.2.3"
	case "int_garbage":
		lp.fields[fi] = key + "=1i2"
	case "unterminated_string": // the LAST field of the line loses its closing quote
		last := len(lp.fields) - 1
		lp.fields[last] = escIdent(p.Fields[last].Key, false, false, sc.bare) + "=" + []string{`"abc`, `"`, `"a b`, `"a,b=c`}[s.n("mut_unterm", 4)]
	case "bad_timestamp":
		if lp.ts == "" {
			kind = "no_fields"
			break
		}
		lp.ts = badTimestamps[s.n("mut_ts", len(badTimestamps))]
	case "stray_equals":
		switch v := s.n("mut_eq", 3); {
		case v == 0 && numeric >= 0:
			setNumeric("=" + p.Fields[numeric].Text)
		case v == 1 && numeric >= 0:
			setNumeric(p.Fields[numeric].Text + "=" + p.Fields[numeric].Text)
		default:
			lp.fields[fi] = "=1"
		}
	case "empty_field_value":
		lp.fields[fi] = key + "="
	case "missing_tag_value":
		lp.head += ",zz"
	case "bad_number":
		lp.fields[fi] = key + "=" + badNumbers[s.n("mut_num", len(badNumbers))]
	case "unescaped_space_in_tag":
		lp.head += ",zk=a b"
	case "empty_measurement":
		lp.head = ",zk=v"
		lp.lead = ""
	case "trailing_comma":
		lp.fields[len(lp.fields)-1] += ","
	case "float_overflow":
		lp.fields[fi] = key + "=" + []string{"1e309", "-1e400", "2e308", "1.8e308", "-1.7976931348623159e308"}[s.n("mut_of", 5)]
	case "garbage_f":
		lp.fields[fi] = key + "=" + []string{"abcf", "1.2.3f", "Inf", "inf", "-inf", "1i2f", "xf"}[s.n("mut_gf", 7)]
	case "timestamp_overflow": // digits that fit int64, times the precision they do not
		lp.ts = strconv.FormatInt(maxTimeNs/precMult[prec]+2+int64(s.n("mut_tsof", 1000)), 10)
		if s.n("mut_tsof_wrap", 2) == 1 { // far enough to wrap around to a positive time
			lp.ts = strconv.FormatInt(2*(math.MaxInt64/precMult[prec])+3+int64(s.n("mut_tsof2", 1000)), 10)
		}
	case "quote_inside_unquoted":
		lp.fields[fi] = key + "=" + []string{`abc"def"`, `="x"`, `12"3"`}[s.n("mut_qi", 3)]
	}
	if kind == "no_fields" {
		lp.fields = nil
		switch s.n("mut_nf", 3) {
		case 0: // "m,t=v 123"
			lp.sp1 = " "
			if lp.ts != "" {
				lp.fields = []string{lp.ts}
				lp.ts = ""
			} else {
				lp.sp1 = ""
			}
		case 1: // "m,t=v"
			lp.sp1, lp.ts = "", ""
		default: // "m,t=v "
			lp.sp1, lp.ts = " ", ""
		}
		lp.trail = ""
	}
	o.class("mut:" + kind)
	return kind
}

// genCase draws one request.
func genCase(s src, opt genOpts) *genOut {
	o := &genOut{classes: map[string]bool{}}
	cs := &caseJ{Kind: "bb_batch", Prefix: opt.prefix}
	if opt.lib {
		cs.Kind = "lib_batch"
	}
	cs.Precision = []string{"ns", "s", "ms", "u"}[s.n("precision", 4)]
	if cs.Precision != "ns" {
		o.nt = true
	}
	o.class("precision_" + cs.Precision)
	nsch := 1 + s.n("nschemas", 3)
	schemas := make([]*schema, nsch)
	for j := range schemas {
		schemas[j] = genSchema(s, o, opt, j)
	}
	nl := opt.minLines + s.n("nlines", opt.maxLines-opt.minLines+1)
	size := 0
	brokenMode := s.n("broken_mode", 4) // 0,1: none; 2: a few anywhere; 3: the last line (and maybe others)
	// server campaign, one case in eight: a body of several 64 KiB read blocks, valid lines only (so that the
	// admissible outcome does not depend on where the handler cuts the blocks)
	big := opt.bigBodies && s.n("big_body", 8) == 7
	if big {
		nl = 700 + s.n("nlines_big", 801)
		brokenMode = 0
		o.class("body_several_read_blocks")
	}
	for i := 0; i < nl; i++ {
		sc := schemas[s.n("schema", nsch)]
		o.tsOverflow = false
		p, lp := genPoint(s, o, opt, sc, cs.Precision, i)
		l := lineJ{Valid: true, Exp: p}
		breakIt := false
		if o.tsOverflow { // out of the supported range: must be rejected, never stored at the wrapped time
			l.Valid, l.Mut = false, "timestamp_overflow"
			o.class("mut:timestamp_overflow")
		}
		switch brokenMode {
		case 2:
			breakIt = s.n("break", max(3, nl/2)) == 0
		case 3:
			breakIt = i == nl-1 || s.n("break", max(4, nl)) == 0
		}
		if breakIt && l.Valid {
			if s.n("broken_own_mst", 3) == 0 { // a measurement of its own: must not exist afterwards
				own := opt.prefix + "b" + strconv.Itoa(i)
				lp.head = strings.Replace(lp.head, escIdent(sc.mst, true, sc.escEq, sc.bare), own, 1)
				p.Mst = own
				cs.Extra = append(cs.Extra, own)
			}
			l.Mut = mutate(s, o, opt, p, lp, sc, cs.Precision)
			l.Valid = false
		}
		l.Text = lp.text()
		cs.Lines = append(cs.Lines, l)
		if size += len(l.Text) + 40; size > 40000 && !big {
			o.class("body_cut_at_40k") // the handler parses the body in blocks of 64 KiB: one request = one block
			break
		}
	}
	nb, last := cs.broken()
	switch {
	case nb == 0:
		o.class("batch_all_valid")
	case last:
		o.class("batch_broken_line_last")
	default:
		o.class("batch_broken_line_not_last")
	}
	if nb > 0 && nb < len(cs.Lines) {
		o.class("batch_mixed_valid_and_broken")
	}
	// the body: terminators, blank lines and comments between the lines (nothing after the last line but the
	// optional final newline when a line is broken: what follows a broken line is part of a known finding)
	var sb strings.Builder
	term := "\n"
	if s.n("crlf", 5) == 1 {
		term = "\r\n"
		o.class("body_crlf")
	}
	for i, l := range cs.Lines {
		sb.WriteString(l.Text)
		if i < len(cs.Lines)-1 {
			sb.WriteString(term)
			switch s.n("between", 12) {
			case 1:
				sb.WriteString(term)
				o.class("body_blank_line")
			case 2:
				sb.WriteString("# a comment, with = and \"quotes\"" + term)
				o.class("body_comment_line")
			}
		} else if s.n("final_newline", 3) != 0 {
			sb.WriteString(term)
		} else {
			o.class("body_no_final_newline")
		}
	}
	cs.Body = sb.String()
	o.cs = cs
	return o
}
