package c06

// Known findings on the pinned tree: the minimal inputs, kept as replay files under replays/C06. The classes are left
// out of the generated campaigns by construction (see the ex* constants in gen_test.go).
// `C06_MAKE_REPLAYS=<dir> go test -run TestMakeReplays` re-creates the files (needs VERIF_BIN for the bb ones).

import (
	"encoding/json"
	"os"
	"path/filepath"
	"strconv"
	"testing"

	"verif/internal/ev"
)

func pt(mst string, ts int64, tsText string, fs ...fieldJ) *pointJ {
	return &pointJ{Mst: mst, Fields: fs, HasTS: true, TSText: tsText, TSNs: ts}
}

func oneLine(kind, precision, prefix, text string, valid bool, mut string, p *pointJ) *caseJ {
	return &caseJ{Kind: kind, Precision: precision, Prefix: prefix, Lines: []lineJ{{Text: text, Valid: valid, Mut: mut, Exp: p}}, Body: text + "\n"}
}

type knownCase struct {
	file string
	cs   *caseJ
}

func knownCases() []knownCase {
	const ts = int64(1700000000000000000)
	tss := strconv.FormatInt(ts, 10)
	var out []knownCase
	add := func(file string, cs *caseJ) { out = append(out, knownCase{file, cs}) }

	// 1. integers beyond 2^53 travel as float64 (Field.NumValue)
	p := "c06k1x"
	add("int_over_2p53", oneLine("bb_batch", "ns", p, p+"0 v=9007199254740993i "+tss, true, "", pt(p+"0", ts, tss, fieldJ{"v", "int", "9007199254740993", "9007199254740993i"})))
	p = "c06k2x"
	add("int_max_wraps_to_min", oneLine("bb_batch", "ns", p, p+"0 v=9223372036854775807i "+tss, true, "", pt(p+"0", ts, tss, fieldJ{"v", "int", "9223372036854775807", "9223372036854775807i"})))
	add("int_over_2p53_parser", oneLine("lib_batch", "ns", "m", "m0 v=-9007199254740993i 1", true, "", pt("m0", 1, "1", fieldJ{"v", "int", "-9007199254740993", "-9007199254740993i"})))

	// 2. a broken line followed by another line is dropped without an error
	p = "c06k3x"
	l1 := lineJ{Text: p + "0 v=1i " + tss, Valid: true, Exp: pt(p+"0", ts, tss, fieldJ{"v", "int", "1", "1i"})}
	l2 := lineJ{Text: p + "0 v=1.2.3 " + strconv.FormatInt(ts+1, 10), Valid: false, Mut: "num_two_points", Exp: pt(p+"0", ts+1, strconv.FormatInt(ts+1, 10), fieldJ{"v", "float", floatVal(1.2), "1.2.3"})}
	l3 := lineJ{Text: p + "0 v=2i " + strconv.FormatInt(ts+2, 10), Valid: true, Exp: pt(p+"0", ts+2, strconv.FormatInt(ts+2, 10), fieldJ{"v", "int", "2", "2i"})}
	add("broken_line_silently_dropped", &caseJ{Kind: "bb_batch", Precision: "ns", Prefix: p, Strict: true, Lines: []lineJ{l1, l2, l3}, Body: l1.Text + "\n" + l2.Text + "\n" + l3.Text + "\n"})
	m1 := lineJ{Text: "m0 v=1i2 1", Valid: false, Mut: "int_garbage", Exp: pt("m0", 1, "1", fieldJ{"v", "int", "1", "1i2"})}
	m2 := lineJ{Text: "m0 v=2i 2", Valid: true, Exp: pt("m0", 2, "2", fieldJ{"v", "int", "2", "2i"})}
	add("broken_line_silently_dropped_parser", &caseJ{Kind: "lib_batch", Precision: "ns", Prefix: "m", Strict: true, Lines: []lineJ{m1, m2}, Body: m1.Text + "\n" + m2.Text + "\n"})

	// 3. timestamp x precision overflows int64 and wraps
	p = "c06k4x"
	add("timestamp_precision_overflow", oneLine("bb_batch", "s", p, p+"0 v=1i 18446744074", false, "timestamp_overflow", pt(p+"0", 290448384, "18446744074", fieldJ{"v", "int", "1", "1i"})))
	add("timestamp_precision_overflow_parser", oneLine("lib_batch", "ms", "m", "m0 v=1i 9223372036855", false, "timestamp_overflow", pt("m0", 0, "9223372036855", fieldJ{"v", "int", "1", "1i"})))

	// 4. float spellings the best-effort fast path does not read exactly
	add("float_plus_sign_reads_zero", oneLine("lib_batch", "ns", "m", "m0 v=+1.5 1", true, "", pt("m0", 1, "1", fieldJ{"v", "float", floatVal(1.5), "+1.5"})))
	add("float_exponent_inexact", oneLine("lib_batch", "ns", "m", "m0 v=1.1e-1 1", true, "", pt("m0", 1, "1", fieldJ{"v", "float", floatVal(0.11), "1.1e-1"})))
	p = "c06k5x"
	add("float_exponent_inexact_server", oneLine("bb_batch", "ns", p, p+"0 v=3e23 "+tss, true, "", pt(p+"0", ts, tss, fieldJ{"v", "float", floatVal(3e23), "3e23"})))

	// 5. any value of more than one character ending in 'f' is read best-effort as a float
	p = "c06k6x"
	add("garbage_ending_in_f_stored_as_zero", oneLine("bb_batch", "ns", p, p+"0 v=abcf "+tss, false, "garbage_f", pt(p+"0", ts, tss, fieldJ{"v", "float", floatVal(0), "abcf"})))
	add("garbage_ending_in_f_parser", oneLine("lib_batch", "ns", "m", "m0 v=1.2.3f 1", false, "garbage_f", pt("m0", 1, "1", fieldJ{"v", "float", floatVal(0), "1.2.3f"})))

	// 6. a quote inside a value that does not start with a quote: stored as the empty string
	p = "c06k7x"
	add("quote_inside_unquoted_value_stored_empty", oneLine("bb_batch", "ns", p, p+`0 v=abc"def" `+tss, false, "quote_inside_unquoted", pt(p+"0", ts, tss, fieldJ{"v", "string", "", `abc"def"`})))
	return out
}

func TestMakeReplays(t *testing.T) {
	dir := os.Getenv("C06_MAKE_REPLAYS")
	if dir == "" {
		t.Skip("set C06_MAKE_REPLAYS=<dir>")
	}
	var env *bbEnv
	for _, k := range knownCases() {
		var err error
		if k.cs.Kind == "lib_batch" {
			_, err = checkLib(k.cs)
		} else {
			if env == nil {
				env = newEnv(6)
			}
			_, err = env.check(k.cs)
		}
		if err == nil {
			t.Errorf("%s: the property holds on this case (not a finding on this tree)", k.file)
			continue
		}
		b, _ := json.MarshalIndent(ev.Failure{Property: prop, Campaign: "known", Message: err.Error(), Case: k.cs}, "", " ")
		if werr := os.WriteFile(filepath.Join(dir, k.file+".json"), append(b, '\n'), 0o644); werr != nil {
			t.Fatal(werr)
		}
		t.Logf("%s: %v", k.file, err)
	}
}
