package c06

// Parser campaign: the request text goes through the unit of work the HTTP handler schedules
// (influx.GetUnmarshalWork -> Unmarshal: PointRows.Unmarshal + precision multiplication + CheckValid) and the
// rows handed to the callback are compared with the structured points.

import (
	"encoding/json"
	"fmt"
	"math"
	"testing"
	"time"

	"github.com/openGemini/openGemini/lib/util/lifted/vm/protoparser/influx"
	"pgregory.net/rapid"
	"verif/internal/ev"
)

type libVerdict struct {
	rejected      bool // the parser returned an error (callers store nothing)
	statusSkipped bool // a broken line was followed by another line: the error report is a known finding, not judged
}

func kindOfType(t int32) string {
	switch t {
	case influx.Field_Type_Int:
		return "int"
	case influx.Field_Type_Float:
		return "float"
	case influx.Field_Type_String:
		return "string"
	case influx.Field_Type_Boolean:
		return "bool"
	}
	return fmt.Sprintf("type%d", t)
}

// compareRow checks one parsed row against the structured point (now0/now1 bound the server-side time for lines without timestamp).
func compareRow(r *influx.Row, p *pointJ, now0, now1 int64) error {
	if r.Name != p.Mst {
		return fmt.Errorf("measurement %q, written %q", r.Name, p.Mst)
	}
	want := p.effTags()
	if len(r.Tags) != len(want) {
		return fmt.Errorf("%d tags %v, written %v", len(r.Tags), r.Tags, want)
	}
	for i, t := range want {
		if r.Tags[i].Key != t[0] || r.Tags[i].Value != t[1] || r.Tags[i].IsArray {
			return fmt.Errorf("tag %d is %q=%q, written %q=%q", i, r.Tags[i].Key, r.Tags[i].Value, t[0], t[1])
		}
	}
	if len(r.Fields) != len(p.Fields) {
		return fmt.Errorf("%d fields, written %d", len(r.Fields), len(p.Fields))
	}
	for i, f := range p.Fields {
		g := r.Fields[i]
		if g.Key != f.Key {
			return fmt.Errorf("field %d has key %q, written %q", i, g.Key, f.Key)
		}
		if k := kindOfType(g.Type); k != f.Kind {
			return fmt.Errorf("field %q parsed as %s, written as %s", f.Key, k, f.describe())
		}
		switch f.Kind {
		case "int":
			// the write path converts with int64(NumValue) (lib/record/record_group.go)
			if got := int64(g.NumValue); got != intOf(f.Val) || g.NumValue != math.Trunc(g.NumValue) {
				return fmt.Errorf("field %q = %d (carried as float64 %v), written %s", f.Key, got, g.NumValue, f.describe())
			}
		case "float":
			if math.Float64bits(g.NumValue) != math.Float64bits(floatOf(f.Val)) {
				return fmt.Errorf("field %q = %v (bits %016x), written %s", f.Key, g.NumValue, math.Float64bits(g.NumValue), f.describe())
			}
		case "bool":
			if (g.NumValue == 1) != (f.Val == "true") || (g.NumValue != 0 && g.NumValue != 1) {
				return fmt.Errorf("field %q = %v, written %s", f.Key, g.NumValue, f.describe())
			}
		default:
			if g.StrValue != f.Val {
				return fmt.Errorf("field %q = %q, written %s", f.Key, g.StrValue, f.describe())
			}
		}
	}
	if p.HasTS {
		if r.Timestamp != p.TSNs {
			return fmt.Errorf("timestamp %d, written %s (= %d ns)", r.Timestamp, p.TSText, p.TSNs)
		}
	} else if r.Timestamp < now0 || r.Timestamp > now1 {
		return fmt.Errorf("line without timestamp got %d, outside the call window [%d,%d]", r.Timestamp, now0, now1)
	}
	return nil
}

// checkLib returns an error when the parser's output breaks the property on this request.
func checkLib(cs *caseJ) (v libVerdict, err error) {
	mult := precMult[cs.Precision]
	if mult == 0 {
		return v, ev.InconclusiveError("unknown precision " + cs.Precision)
	}
	uw := influx.GetUnmarshalWork()
	uw.Db = "db0"
	uw.TsMultiplier = mult
	uw.ReqBuf = append(uw.ReqBuf[:0], cs.Body...)
	nb, last := cs.broken()
	called := false
	now0 := time.Now().UnixNano()
	uw.Callback = func(db string, rows []influx.Row, perr error) {
		called = true
		now1 := time.Now().UnixNano()
		if perr != nil {
			v.rejected = true
			return // the handler stores nothing of this block
		}
		if nb > 0 && (last || cs.Strict) {
			l := cs.Lines[len(cs.Lines)-1]
			for _, x := range cs.Lines {
				if !x.Valid {
					l = x
				}
			}
			err = fmt.Errorf("broken line (%s) %q was accepted without an error", l.Mut, l.Text)
			return
		}
		if nb > 0 {
			v.statusSkipped = true
		}
		i := 0
		for _, l := range cs.Lines {
			if !l.Valid {
				continue
			}
			if i >= len(rows) {
				err = fmt.Errorf("no row for valid line %q (%d rows for %d valid lines)", l.Text, len(rows), len(cs.Lines)-nb)
				return
			}
			if e := compareRow(&rows[i], l.Exp, now0, now1); e != nil {
				err = fmt.Errorf("line %q: %v", l.Text, e)
				return
			}
			i++
		}
		if i != len(rows) {
			r := rows[i]
			err = fmt.Errorf("%d rows for %d valid lines; extra row: measurement %q tags %v fields %v time %d", len(rows), i, r.Name, r.Tags, r.Fields, r.Timestamp)
		}
	}
	uw.Unmarshal()
	if !called {
		return v, ev.InconclusiveError("callback not called")
	}
	return v, err
}

func caseJSON(cs *caseJ) json.RawMessage {
	b, _ := json.Marshal(cs)
	return b
}

func commit(c *ev.Case, o *genOut) {
	for k := range o.classes {
		c.Class(k)
	}
	for _, e := range o.excluded {
		c.Excluded(e)
	}
}

func libOpts() genOpts { return genOpts{lib: true, prefix: "m", minLines: 1, maxLines: 6} }

func TestParseRoundTrip(t *testing.T) {
	rapid.Check(t, ev.Prop(prop, "parse_roundtrip", func(t *rapid.T, c *ev.Case) {
		opt, strict := withEnvSwitches(libOpts())
		o := genCase(rapidSrc{t}, opt)
		o.cs.Strict = strict
		commit(c, o)
		v, err := checkLib(o.cs)
		if _, inc := err.(ev.InconclusiveError); inc {
			t.Fatalf("harness: %v", err)
		}
		if err != nil {
			c.Failf(t, prop, o.cs, "%v", err)
		}
		nb, _ := o.cs.broken()
		switch {
		case v.rejected && nb == 0:
			c.Class("outcome_valid_batch_rejected")
		case v.rejected:
			c.Class("outcome_rejected")
		default:
			c.Class("outcome_accepted")
		}
		if v.statusSkipped {
			c.Excluded(exSilentDrop)
		}
		if o.nt && !v.rejected {
			c.Sample(map[string]any{"precision": o.cs.Precision, "body": o.cs.Body})
			c.Nontrivial(o.cs.Body + "|" + o.cs.Precision)
		}
	}))
}
