package c06

import (
	"encoding/json"
	"fmt"
	"testing"

	"verif/internal/ev"
)

var replayEnv *bbEnv

// TestReplay re-executes saved cases: kind lib_batch through the parser's unit of work, kind bb_batch against a
// real server (one server for all bb replays; every replay file uses its own measurement prefix).
func TestReplay(t *testing.T) {
	ev.RunReplays(func(raw json.RawMessage, f ev.Failure) error {
		var cs caseJ
		if err := json.Unmarshal(raw, &cs); err != nil {
			return ev.InconclusiveError(err.Error())
		}
		if len(cs.Lines) == 0 || cs.Body == "" {
			return ev.InconclusiveError("case without lines/body")
		}
		for _, l := range cs.Lines {
			if l.Exp == nil {
				return ev.InconclusiveError(fmt.Sprintf("line %q without structured point", l.Text))
			}
		}
		switch cs.Kind {
		case "lib_batch":
			_, err := checkLib(&cs)
			return err
		case "bb_batch":
			if cs.Prefix == "" {
				return ev.InconclusiveError("bb case without prefix")
			}
			if replayEnv == nil {
				replayEnv = newEnv(5)
			}
			// replays share one server: what earlier replays left behind (a failing replay returns before its
			// measurements are recorded) is not this case's business
			if have, merr := replayEnv.srv.ShowMeasurements(dbName); merr == nil {
				for _, m := range have {
					replayEnv.known[m] = true
				}
			}
			_, err := replayEnv.check(&cs)
			return err
		}
		return ev.InconclusiveError(fmt.Sprintf("no replayer for kind %q", cs.Kind))
	})
}
