package c06

// Structured points, their line-protocol rendering (escaping rules and spellings the parser in
// lib/util/lifted/vm/protoparser/influx accepts), and the replayable case format.

import (
	"encoding/json"
	"fmt"
	"math"
	"sort"
	"strconv"
	"strings"
)

const prop = "C06"

// fieldJ is one field of a structured point together with the spelling used for it in the text.
type fieldJ struct {
	Key  string `json:"key"`
	Kind string `json:"kind"` // int | float | string | bool
	Val  string `json:"val"`  // int: decimal; float: 16 hex digits of the IEEE bits; string: the value; bool: true|false
	Text string `json:"text"` // spelling of the value in the line
}

// pointJ is the structured point a line was rendered from (= what a query must return for it).
type pointJ struct {
	Mst    string      `json:"mst"`
	Tags   [][2]string `json:"tags,omitempty"` // as written; an empty value means "no such tag" (ignore-empty-tag)
	Fields []fieldJ    `json:"fields"`
	HasTS  bool        `json:"has_ts"`
	TSText string      `json:"ts_text,omitempty"` // digits written in the line (in units of the precision)
	TSNs   int64       `json:"ts_ns"`             // the time the point must be stored at
}

// lineJ is one line of a request body.
type lineJ struct {
	Text  string  `json:"text"`
	Valid bool    `json:"valid"`
	Mut   string  `json:"mut,omitempty"` // for a broken line: the ONE mutation applied
	Exp   *pointJ `json:"exp,omitempty"` // valid: the point; broken: the point it was derived from
}

// caseJ is one generated request (bb: POST /write; lib: one parser call).
type caseJ struct {
	Kind      string   `json:"kind"` // bb_batch | lib_batch
	Precision string   `json:"precision"`
	Prefix    string   `json:"prefix"` // every measurement name of the case starts with it
	Lines     []lineJ  `json:"lines"`
	Body      string   `json:"body"`            // the text sent: the lines with their terminators, blank lines and comments
	Extra     []string `json:"extra,omitempty"` // measurement names that must NOT exist afterwards (own names of broken lines)
	// Strict: also judge the acknowledgement when a broken line is followed by another line (the generated campaigns
	// leave that judgement out: known finding C06-broken-line-silently-dropped; its replay sets it)
	Strict bool `json:"strict,omitempty"`
}

func (c *caseJ) broken() (n int, last bool) {
	for i, l := range c.Lines {
		if !l.Valid {
			n++
			if i == len(c.Lines)-1 {
				last = true
			}
		}
	}
	return
}

func floatVal(f float64) string { return fmt.Sprintf("%016x", math.Float64bits(f)) }
func floatOf(v string) float64  { u, _ := strconv.ParseUint(v, 16, 64); return math.Float64frombits(u) }
func intOf(v string) int64      { i, _ := strconv.ParseInt(v, 10, 64); return i }
func (f fieldJ) describe() string {
	switch f.Kind {
	case "float":
		return fmt.Sprintf("float %s (bits %s, written %q)", strconv.FormatFloat(floatOf(f.Val), 'g', -1, 64), f.Val, f.Text)
	case "string":
		return fmt.Sprintf("string %q (written %s)", f.Val, f.Text)
	default:
		return fmt.Sprintf("%s %s (written %q)", f.Kind, f.Val, f.Text)
	}
}

// effTags returns the tags a stored point has: non-empty values, sorted by key.
func (p *pointJ) effTags() [][2]string {
	var out [][2]string
	for _, t := range p.Tags {
		if t[1] != "" {
			out = append(out, t)
		}
	}
	sort.Slice(out, func(i, j int) bool { return out[i][0] < out[j][0] })
	return out
}

func seriesKey(mst string, tags [][2]string) string {
	b, _ := json.Marshal(struct {
		M string
		T [][2]string
	}{mst, tags})
	return string(b)
}

// ---------------------------------------------------------------- escaping

// escIdent escapes a measurement name (mst=true: comma, space, backslash; '=' optionally) or a tag key /
// tag value / field key (comma, equals, space, backslash). A backslash is written as `\\`, or - when bare
// is set and the next character is neither special nor the end of the token - as a bare `\` (the parser keeps
// a backslash that does not precede one of the escapable characters).
func escIdent(s string, mst, escEq, bare bool) string {
	var sb strings.Builder
	rs := []rune(s)
	for i, r := range rs {
		switch r {
		case ',', ' ':
			sb.WriteByte('\\')
			sb.WriteRune(r)
		case '=':
			if !mst || escEq {
				sb.WriteByte('\\')
			}
			sb.WriteRune(r)
		case '\\':
			if bare && i+1 < len(rs) && !strings.ContainsRune(`, =\`, rs[i+1]) {
				sb.WriteByte('\\')
			} else {
				sb.WriteString(`\\`)
			}
		default:
			sb.WriteRune(r)
		}
	}
	return sb.String()
}

// escString renders a string field value: `"` -> `\"`, `\` -> `\\` (or bare when the next character is
// neither `"` nor `\` nor the end).
func escString(s string, bare bool) string {
	var sb strings.Builder
	sb.WriteByte('"')
	rs := []rune(s)
	for i, r := range rs {
		switch r {
		case '"':
			sb.WriteString(`\"`)
		case '\\':
			if bare && i+1 < len(rs) && rs[i+1] != '"' && rs[i+1] != '\\' {
				sb.WriteByte('\\')
			} else {
				sb.WriteString(`\\`)
			}
		default:
			sb.WriteRune(r)
		}
	}
	sb.WriteByte('"')
	return sb.String()
}

// ---------------------------------------------------------------- model of the best-effort float fast path

var pow10tab = [...]float64{1e0, 1e1, 1e2, 1e3, 1e4, 1e5, 1e6, 1e7, 1e8, 1e9, 1e10, 1e11, 1e12, 1e13, 1e14, 1e15, 1e16}

// fastPathFloat mirrors the arithmetic of the best-effort float parser the line-protocol parser calls
// (github.com/valyala/fastjson/fastfloat.ParseBestEffort): mantissa digits accumulated in a uint64, divided by a
// power of ten, multiplied by math.Pow10(exp). fast=false when that parser hands the text to strconv (long
// mantissa, |exp| > 300). It is used ONLY to leave the known-finding class "spelling on which the fast path is
// not correctly rounded" out of the main campaign by construction.
func fastPathFloat(s string) (v float64, fast bool) {
	if len(s) == 0 {
		return 0, true
	}
	i := 0
	minus := s[0] == '-'
	if minus {
		i++
		if i >= len(s) {
			return 0, true
		}
	}
	if s[i] == '.' && (i+1 >= len(s) || s[i+1] < '0' || s[i+1] > '9') {
		return 0, true
	}
	d := uint64(0)
	j := i
	for i < len(s) && s[i] >= '0' && s[i] <= '9' {
		d = d*10 + uint64(s[i]-'0')
		i++
		if i > 18 {
			return 0, false
		}
	}
	if i <= j && s[i] != '.' {
		return 0, true // "+1", "inf", ... -> 0 (or inf/nan)
	}
	f := float64(d)
	sign := func(x float64) float64 {
		if minus {
			return -x
		}
		return x
	}
	if i >= len(s) {
		return sign(f), true
	}
	if s[i] == '.' {
		i++
		if i >= len(s) {
			return sign(f), true
		}
		k := i
		for i < len(s) && s[i] >= '0' && s[i] <= '9' {
			d = d*10 + uint64(s[i]-'0')
			i++
			if i-j >= len(pow10tab) {
				return 0, false
			}
		}
		f = float64(d) / pow10tab[i-k]
		if i >= len(s) {
			return sign(f), true
		}
	}
	if s[i] == 'e' || s[i] == 'E' {
		i++
		if i >= len(s) {
			return 0, true
		}
		expMinus := false
		if s[i] == '+' || s[i] == '-' {
			expMinus = s[i] == '-'
			i++
			if i >= len(s) {
				return 0, true
			}
		}
		exp := 0
		j2 := i
		for i < len(s) && s[i] >= '0' && s[i] <= '9' {
			exp = exp*10 + int(s[i]-'0')
			i++
			if exp > 300 {
				return 0, false
			}
		}
		if i <= j2 {
			return 0, true
		}
		if expMinus {
			exp = -exp
		}
		f *= math.Pow10(exp)
		if i >= len(s) {
			return sign(f), true
		}
	}
	return 0, true
}

// floatSpellingKnownInexact reports whether text is in the known-finding class C06-float-fastpath: a spelling the
// best-effort fast path does not round correctly (incl. a leading '+', which it reads as 0).
func floatSpellingKnownInexact(text string, want float64) bool {
	v, fast := fastPathFloat(text)
	return fast && math.Float64bits(v) != math.Float64bits(want)
}

const maxExactInt = int64(1) << 53

func absGT2p53(v int64) bool { return v > maxExactInt || v < -maxExactInt }

var precMult = map[string]int64{"ns": 1, "u": 1e3, "ms": 1e6, "s": 1e9}
