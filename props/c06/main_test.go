package c06

import (
	"os"
	"testing"

	"verif/internal/bb"
	"verif/internal/ev"
)

func TestMain(m *testing.M) {
	code := m.Run()
	ev.Flush()
	bb.CleanupAll()
	os.Exit(code)
}
