package c10

// rapid generators: series universes, batches, predicate trees, regular expressions.

import (
	"fmt"
	"regexp"
	"sort"
	"strings"
	"unicode/utf8"

	"pgregory.net/rapid"
)

var mstPool = []string{"cpu", "cpu2", "mem", "c", "cp", "测量é", "m-1.x", "a b"}

// tag keys: shared prefixes, protocol separators (escaped on the wire), unicode, index separator bytes
var keyPool = []string{"host", "hos", "hostx", "region", "dc", "a b", "k=x", "k,y", "ключ", "t\x01k", "_k", "h"}

var absentKeys = []string{"nokey", "ho", "zz", "regio"}

var realisticVals = []string{"web-1", "web-10", "web-2", "web", "db-1", "db", "w", "d", "xweb-1", "value1", "value11", "value2",
	"eu", "us", "eu-west-1", "a", "ab", "abc", "b", "ba", "1", "10", "0"}

var valAlphabet = []string{"a", "b", "w", "d", "e", "1", "0", "-", ".", ",", "=", " ", "\x00", "\x01", "\x02", "é", "世", "[", "]", "|", "*", "(", ")", "^", "$", "\\", "/", "'", "\"", "+", "?"}

func genValue(t *rapid.T, label string) string {
	switch rapid.IntRange(0, 19).Draw(t, label+"kind") {
	case 0, 1, 2, 3, 4, 5, 6, 7, 8, 9:
		return rapid.SampledFrom(realisticVals).Draw(t, label)
	case 19:
		return rapid.SampledFrom([]string{"\xff", "a\xfe", "\xfe\x01", "é\xff"}).Draw(t, label)
	default:
		n := rapid.IntRange(1, 4).Draw(t, label+"n")
		var b strings.Builder
		for i := 0; i < n; i++ {
			b.WriteString(rapid.SampledFrom(valAlphabet).Draw(t, label+"c"))
		}
		return b.String()
	}
}

type universe struct {
	msts []string
	keys []string
	vals map[string][]string
}

func genUniverse(t *rapid.T) *universe {
	u := &universe{vals: map[string][]string{}}
	nm := rapid.IntRange(1, 3).Draw(t, "nmst")
	u.msts = pickDistinct(t, mstPool, nm, "mst")
	nk := rapid.IntRange(1, 5).Draw(t, "nkeys")
	u.keys = pickDistinct(t, keyPool, nk, "key")
	for _, k := range u.keys {
		nv := rapid.IntRange(1, 6).Draw(t, "nvals")
		seen := map[string]bool{}
		for i := 0; i < nv; i++ {
			v := genValue(t, "val")
			// derived values: shared prefixes and suffixes of values already in the pool
			if len(u.vals[k]) > 0 && rapid.IntRange(0, 3).Draw(t, "derive") == 0 {
				base := rapid.SampledFrom(u.vals[k]).Draw(t, "base")
				switch rapid.IntRange(0, 2).Draw(t, "how") {
				case 0:
					v = base + rapid.SampledFrom(valAlphabet).Draw(t, "suffix")
				case 1:
					v = rapid.SampledFrom(valAlphabet).Draw(t, "prefix") + base
				default:
					if r := []rune(base); utf8.ValidString(base) && len(r) > 1 {
						v = string(r[:len(r)-1])
					}
				}
			}
			if v == "" || seen[v] {
				continue
			}
			seen[v] = true
			u.vals[k] = append(u.vals[k], v)
		}
		if len(u.vals[k]) == 0 {
			u.vals[k] = []string{"v"}
		}
	}
	return u
}

func pickDistinct(t *rapid.T, pool []string, n int, label string) []string {
	if n > len(pool) {
		n = len(pool)
	}
	perm := rapid.Permutation(pool).Draw(t, label+"perm")
	out := append([]string(nil), perm[:n]...)
	return out
}

func genSeries(t *rapid.T, u *universe) series {
	s := series{M: rapid.SampledFrom(u.msts).Draw(t, "m")}
	for _, k := range u.keys {
		if rapid.IntRange(0, 9).Draw(t, "has") < 6 {
			s.T = append(s.T, kv{k, rapid.SampledFrom(u.vals[k]).Draw(t, "v")})
		}
	}
	sort.Slice(s.T, func(i, j int) bool { return s.T[i].K < s.T[j].K })
	return s
}

// genBatch: mostly small batches of fresh and already known series (the same series may occur twice in a
// batch: several points of one series); rarely a big batch sharing one tag value so that one tag->ids row of
// the index overflows (mergeindex.MaxTSIDsPerRow = 64) and is split/merged.
func genBatch(t *rapid.T, u *universe, m *model) ([]series, bool) {
	if rapid.IntRange(0, 29).Draw(t, "big") == 0 {
		n := rapid.IntRange(66, 140).Draw(t, "bign")
		base := genSeries(t, u)
		var out []series
		for i := 0; i < n; i++ {
			s := series{M: base.M}
			for _, p := range base.T {
				if p.K != "n" {
					s.T = append(s.T, p)
				}
			}
			s.T = append(s.T, kv{"n", fmt.Sprintf("%03d", i)})
			sort.Slice(s.T, func(i, j int) bool { return s.T[i].K < s.T[j].K })
			out = append(out, s)
		}
		return out, true
	}
	n := rapid.IntRange(1, 8).Draw(t, "n")
	var out []series
	for i := 0; i < n; i++ {
		if len(m.all) > 0 && rapid.IntRange(0, 9).Draw(t, "known") < 3 {
			out = append(out, m.all[rapid.IntRange(0, len(m.all)-1).Draw(t, "which")])
			continue
		}
		out = append(out, genSeries(t, u))
	}
	return out, false
}

// ---------------------------------------------------------------- predicates

const (
	rungEq = iota
	rungNeq
	rungReLit
	rungReFull
)

type predGen struct {
	u    *universe
	rung int
	c    excluder
}

type excluder interface {
	Excluded(string)
	Class(string)
}

func (g *predGen) key(t *rapid.T) string {
	if rapid.IntRange(0, 9).Draw(t, "absentkey") < 2 {
		return rapid.SampledFrom(absentKeys).Draw(t, "ak")
	}
	return rapid.SampledFrom(g.u.keys).Draw(t, "k")
}

func (g *predGen) literal(t *rapid.T, key string) string {
	pool := g.u.vals[key]
	x := rapid.IntRange(0, 19).Draw(t, "lit")
	switch {
	case x < 13 && len(pool) > 0:
		return rapid.SampledFrom(pool).Draw(t, "lv")
	case x < 15:
		return ""
	default:
		return genValue(t, "lv")
	}
}

func (g *predGen) leaf(t *rapid.T) *pnode {
	k := g.key(t)
	ops := []string{"="}
	switch g.rung {
	case rungNeq:
		ops = []string{"=", "!=", "!="}
	case rungReLit, rungReFull:
		ops = []string{"=", "!=", "=~", "=~", "=~", "!~", "!~"}
	}
	o := rapid.SampledFrom(ops).Draw(t, "op")
	n := &pnode{Op: o, K: bstr(k)}
	if o == "=" || o == "!=" {
		n.V = bstr(g.literal(t, k))
		return n
	}
	for try := 0; try < 20; try++ {
		var pat string
		if g.rung == rungReLit {
			pat = g.simpleRegex(t, k)
		} else {
			pat = g.fullRegex(t, k)
		}
		if _, err := regexp.Compile(pat); err != nil {
			continue
		}
		if cls := knownRegexDefectFor(pat, g.u.vals[k]); cls != "" {
			if g.c != nil {
				g.c.Excluded(cls)
				if knownRegexDefect(pat) == "" {
					// ideally never: the pattern-derived probes are meant to suffice
					g.c.Class("regex_excluded_only_by_values_in_play")
				}
			}
			continue
		}
		if g.c != nil && g.rung == rungReFull {
			g.c.Class("regex_plan_" + optimise(pat).describe())
		}
		n.V = bstr(pat)
		return n
	}
	// no admissible regex found: fall back to an equality leaf
	n.Op = "="
	n.V = bstr(g.literal(t, k))
	return n
}

// fragment: a piece of text taken from the values in play (whole value, prefix, suffix, inner part)
func (g *predGen) fragment(t *rapid.T, key string) string {
	pool := g.u.vals[key]
	var v string
	if len(pool) > 0 && rapid.IntRange(0, 9).Draw(t, "frompool") < 8 {
		v = rapid.SampledFrom(pool).Draw(t, "fv")
	} else {
		v = genValue(t, "fv")
	}
	if !utf8.ValidString(v) {
		return "a"
	}
	r := []rune(v)
	switch rapid.IntRange(0, 3).Draw(t, "cut") {
	case 0:
		return v
	case 1:
		return string(r[:rapid.IntRange(1, len(r)).Draw(t, "to")])
	case 2:
		return string(r[rapid.IntRange(0, len(r)-1).Draw(t, "from"):])
	default:
		a := rapid.IntRange(0, len(r)-1).Draw(t, "from")
		b := rapid.IntRange(a+1, len(r)).Draw(t, "to")
		return string(r[a:b])
	}
}

// simpleRegex: literal text, optionally anchored at either end; .* and .+
func (g *predGen) simpleRegex(t *rapid.T, key string) string {
	lit := regexp.QuoteMeta(g.fragment(t, key))
	switch rapid.IntRange(0, 11).Draw(t, "form") {
	case 0, 1, 2, 3:
		return lit
	case 4, 5:
		return "^" + lit
	case 6, 7:
		return lit + "$"
	case 8, 9:
		return "^" + lit + "$"
	case 10:
		return ".*"
	default:
		return ".+"
	}
}

func (g *predGen) reAtom(t *rapid.T, key string, depth int) string {
	frag := g.fragment(t, key)
	r := []rune(frag)
	ch := string(r[rapid.IntRange(0, len(r)-1).Draw(t, "chi")])
	switch rapid.IntRange(0, 11).Draw(t, "atom") {
	case 0, 1, 2:
		return regexp.QuoteMeta(frag)
	case 3:
		return regexp.QuoteMeta(ch)
	case 4:
		return "."
	case 5, 6:
		other := rapid.SampledFrom([]string{"a", "w", "d", "1", "-", "e"}).Draw(t, "cc2")
		return "[" + ccEscape(ch) + ccEscape(other) + "]"
	case 7:
		// negated and wide classes are rare: printing them is slow in regexp/syntax (case folding tables)
		return rapid.SampledFrom([]string{"[0-9]", "[a-z]", "\\d", "[a-c]", "[0-9]", "[a-z]", "[a-c]", "[w-z]", "[^" + ccEscape(ch) + "]", "\\w", "\\s", "[[:alpha:]]"}).Draw(t, "class")
	case 8, 9:
		if depth > 0 {
			return "(" + g.reAlt(t, key, depth-1) + ")"
		}
		return regexp.QuoteMeta(frag)
	case 10:
		if depth > 0 {
			return "(?:" + g.reAlt(t, key, depth-1) + ")"
		}
		return "."
	default:
		return ".*"
	}
}

func ccEscape(ch string) string {
	switch ch {
	case "]", "\\", "^", "-", "[":
		return "\\" + ch
	}
	return ch
}

func (g *predGen) rePiece(t *rapid.T, key string, depth int) string {
	a := g.reAtom(t, key, depth)
	needGroup := len([]rune(a)) > 1 && !strings.HasPrefix(a, "(") && !strings.HasPrefix(a, "[") && !strings.HasPrefix(a, "\\") && a != ".*"
	q := rapid.SampledFrom([]string{"", "", "", "", "", "*", "+", "?", "{1,2}"}).Draw(t, "quant")
	if q == "" || a == ".*" {
		return a
	}
	if needGroup {
		if rapid.Bool().Draw(t, "grp") {
			return "(" + a + ")" + q
		}
		return a + q // quantifier binds to the last character only
	}
	return a + q
}

func (g *predGen) reConcat(t *rapid.T, key string, depth int) string {
	n := rapid.IntRange(1, 3).Draw(t, "npieces")
	var b strings.Builder
	for i := 0; i < n; i++ {
		b.WriteString(g.rePiece(t, key, depth))
	}
	return b.String()
}

func (g *predGen) reAlt(t *rapid.T, key string, depth int) string {
	n := rapid.SampledFrom([]int{1, 1, 1, 2, 2, 3}).Draw(t, "nalt")
	parts := make([]string, n)
	for i := range parts {
		parts[i] = g.reConcat(t, key, depth)
	}
	return strings.Join(parts, "|")
}

func (g *predGen) fullRegex(t *rapid.T, key string) string {
	body := g.reAlt(t, key, 2)
	if rapid.IntRange(0, 19).Draw(t, "fold") == 0 {
		body = "(?i)" + body
	}
	a := rapid.IntRange(0, 9).Draw(t, "anchor")
	if a < 5 && strings.Contains(body, "|") && rapid.IntRange(0, 9).Draw(t, "groupalt") < 8 {
		body = "(" + body + ")" // ^a|b would anchor the first branch only
	}
	switch a {
	case 0, 1:
		return "^" + body
	case 2, 3:
		return body + "$"
	case 4:
		return "^" + body + "$"
	case 5:
		return "^(" + body + ")$"
	}
	return body
}

func (g *predGen) tree(t *rapid.T, depth int) *pnode {
	if depth <= 1 || rapid.IntRange(0, 9).Draw(t, "isleaf") < 3 {
		return g.leaf(t)
	}
	n := &pnode{Op: rapid.SampledFrom([]string{"AND", "OR"}).Draw(t, "bool")}
	n.L = g.tree(t, depth-1)
	n.R = g.tree(t, depth-1)
	// the query language gives AND precedence over OR: parenthesise sub-trees where the generated shape needs it,
	// and sometimes where it does not
	for _, ch := range []*pnode{n.L, n.R} {
		if !ch.leaf() {
			if (n.Op == "AND" && ch.Op == "OR") || rapid.IntRange(0, 3).Draw(t, "paren") == 0 {
				ch.Paren = true
			}
		} else if rapid.IntRange(0, 7).Draw(t, "parenleaf") == 0 {
			ch.Paren = true
		}
	}
	// a right child with the same operator must be parenthesised to keep the generated shape (left associative parser)
	if !n.R.leaf() && n.R.Op == n.Op {
		n.R.Paren = true
	}
	return n
}

func (g *predGen) pred(t *rapid.T) *pnode {
	d := rapid.SampledFrom([]int{1, 1, 2, 2, 2, 3, 3}).Draw(t, "depth")
	return g.tree(t, d)
}
