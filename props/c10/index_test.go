package c10

// C10 - series index is exact: one stable id per series, predicates match precisely.
// rapid state machines over tsi.IndexBuilder / MergeSetIndex (exported API), oracle = model map + brute force.

import (
	"encoding/json"
	"strings"
	"testing"
	"unicode/utf8"

	"pgregory.net/rapid"
	"verif/internal/ev"
)

type machineParams struct {
	campaign   string
	rung       int
	searchBias int  // how many of 10 action draws are searches
	unflushed  bool // allow cache clears while raw items are pending (id checks only, no searches)
	bloom      bool // [index] bloom-filter-enable (slow: 32 filter files are rewritten at every flush)
}

type caseStats struct {
	inserted, reinserted, reopened, restarted, cleared, flushed bool
	reinsertAfterReopen, reinsertAfterClear                     bool
	afterReopen, afterClear                                     bool
	nontrivialSearch                                            bool
	searches                                                    int
}

func machine(p machineParams) func(t *rapid.T, c *ev.Case) {
	return func(t *rapid.T, c *ev.Case) {
		cfg := sutCfg{Bloom: p.bloom, NoPersist: rapid.Bool().Draw(t, "nopersist"), Seq0: uint64(rapid.IntRange(0, 1000).Draw(t, "seq0"))}
		u := genUniverse(t)
		r, err := newRunner(cfg)
		if err != nil {
			t.Fatalf("VERIF-INCONCLUSIVE: cannot create index: %v", err)
		}
		defer r.close()
		cd := caseDesc{Kind: "history", Cfg: cfg}
		var st caseStats
		pg := &predGen{u: u, rung: p.rung, c: c}
		if cfg.Bloom {
			c.Class("cfg_bloom_filter")
		}
		if cfg.NoPersist {
			c.Class("cfg_read_cache_not_persistent")
		}
		if len(u.msts) > 1 {
			c.Class("multi_measurement")
		}

		do := func(o op) {
			cd.Ops = append(cd.Ops, o)
			if v := r.apply(o); v != "" {
				c.Sample(cd)
				c.Failf(t, prop, cd, "%s", v)
			}
			if r.lastSkipped != "" {
				c.Class("skipped_" + r.lastSkipped)
			}
		}

		insert := func(t *rapid.T) {
			batch, big := genBatch(t, u, r.m)
			if big {
				c.Class("big_batch_over_64_ids_per_value")
			}
			before := len(r.m.all)
			known := 0
			for _, s := range batch {
				if _, ok := r.m.ids[s.key()]; ok {
					known++
				}
				classifySeries(c, s)
			}
			do(op{Op: "insert", Series: batch})
			st.inserted = true
			if known > 0 {
				st.reinserted = true
				c.Class("reinsert_known_series")
				if st.afterReopen {
					st.reinsertAfterReopen = true
					c.Class("reinsert_after_reopen")
				}
				if st.afterClear {
					st.reinsertAfterClear = true
					c.Class("reinsert_after_clear")
				}
			}
			if len(r.m.all) > before && before > 0 && (st.afterReopen) {
				c.Class("new_series_after_reopen")
			}
		}
		flush := func(t *rapid.T) {
			do(op{Op: "flush"})
			st.flushed = true
			c.Class("flush")
		}
		clear := func(t *rapid.T) {
			o := op{Op: "clear"}
			if r.m.dirty {
				if p.unflushed && rapid.Bool().Draw(t, "noflush") {
					o.NoFlush = true
					c.Class("clear_with_unflushed_items")
				} else if !p.unflushed {
					c.Excluded("clear_with_unflushed_items")
				}
			}
			do(o)
			if len(r.m.all) > 0 {
				st.cleared, st.afterClear = true, true
				c.Class("clear_cache")
			}
		}
		reopen := func(t *rapid.T) {
			restart := rapid.Bool().Draw(t, "restart")
			do(op{Op: "reopen", Restart: restart})
			if len(r.m.all) > 0 {
				st.reopened, st.afterReopen = true, true
				c.Class("reopen")
				if restart {
					st.restarted = true
					c.Class("reopen_restart_new_clock")
				}
			}
		}
		lookup := func(t *rapid.T) {
			var s series
			if len(r.m.all) > 0 && rapid.IntRange(0, 9).Draw(t, "known") < 7 {
				s = r.m.all[rapid.IntRange(0, len(r.m.all)-1).Draw(t, "which")]
				c.Class("lookup_known")
			} else {
				s = genSeries(t, u)
				if _, ok := r.m.ids[s.key()]; !ok {
					c.Class("lookup_unknown")
				}
			}
			do(op{Op: "lookup", Series: []series{s}})
		}
		pickMst := func(t *rapid.T) string {
			if rapid.IntRange(0, 19).Draw(t, "nomst") == 0 {
				return "nomst"
			}
			return rapid.SampledFrom(u.msts).Draw(t, "smst")
		}
		pickKeys := func(t *rapid.T) []bstr {
			n := rapid.IntRange(0, 2).Draw(t, "nk")
			var out []bstr
			for i := 0; i < n; i++ {
				if rapid.IntRange(0, 9).Draw(t, "absent") == 0 {
					out = append(out, bstr(rapid.SampledFrom(absentKeys).Draw(t, "ak")))
				} else {
					out = append(out, bstr(rapid.SampledFrom(u.keys).Draw(t, "lk")))
				}
			}
			return out
		}
		search := func(t *rapid.T) {
			if p.unflushed {
				return
			}
			o := op{Op: "search", Mst: pickMst(t), Pred: pg.pred(t), Keys: pickKeys(t)}
			if !noExclusions && regexOverSeparatorBytes(o.Pred, r.m, o.Mst) {
				// known finding: regular expressions are matched against the ESCAPED stored form of values
				// holding the bytes 0x00-0x02
				c.Excluded("regex_over_values_with_bytes_0_1_2")
				return
			}
			if cls := knownPredDefect(o.Pred); cls != "" {
				c.Excluded(cls)
				return
			}
			do(o)
			if r.lastSkipped != "" {
				return
			}
			st.searches++
			if classifySearch(c, o.Pred, r, o.Mst) {
				st.nontrivialSearch = true
			}
		}
		list := func(t *rapid.T) {
			if p.unflushed {
				return
			}
			do(op{Op: "list", Mst: pickMst(t), Keys: pickKeys(t)})
			c.Class("listing")
		}

		// a case starts with data so that searches are rarely over an empty index
		insert(t)
		acts := map[string]func(*rapid.T){}
		add := func(name string, n int, f func(*rapid.T)) {
			for i := 0; i < n; i++ {
				acts[name+string(rune('a'+i))] = f
			}
		}
		add("insert", 3, insert)
		add("flush", 1, flush)
		add("clear", 1, clear)
		add("reopen", 1, reopen)
		add("lookup", 1, lookup)
		if !p.unflushed {
			add("list", 1, list)
			add("search", p.searchBias, search)
		}
		t.Repeat(acts)

		c.Sample(cd)
		if p.unflushed || p.searchBias <= 2 {
			// history rule: an identifier was re-requested after the caches were dropped or the index reopened
			if st.reinsertAfterReopen || st.reinsertAfterClear {
				c.Nontrivial(cd)
			}
		} else if st.nontrivialSearch {
			c.Nontrivial(cd)
		}
	}
}

// regexOverSeparatorBytes: the predicate has a regex leaf on a tag key for which some series of the measurement
// holds a value containing one of the index's escape/separator bytes.
func regexOverSeparatorBytes(p *pnode, m *model, mst string) bool {
	hit := false
	p.walk(func(n *pnode) {
		if !n.leaf() || (n.Op != "=~" && n.Op != "!~") {
			return
		}
		for _, s := range m.ofMst(mst) {
			if v, ok := s.tag(string(n.K)); ok && strings.ContainsAny(v, "\x00\x01\x02") {
				hit = true
			}
		}
	})
	return hit
}

func classifySeries(c *ev.Case, s series) {
	if len(s.T) == 0 {
		c.Class("series_without_tags")
	}
	for _, p := range s.T {
		for _, x := range []string{p.K, p.V} {
			if !utf8.ValidString(x) {
				c.Class("bytes_invalid_utf8")
				continue
			}
			for _, r := range x {
				switch {
				case r <= 2:
					c.Class("bytes_index_separators_0_1_2")
				case r == ',' || r == '=' || r == ' ':
					c.Class("bytes_protocol_separators")
				case r > 127:
					c.Class("bytes_unicode")
				}
			}
		}
	}
}

// classifySearch counts the shape of an executed search; returns whether it is non-trivial by the rule:
// >= 2 different operators (of = != =~ !~ AND OR) or a regex that is neither a literal nor anchored literal,
// over >= 5 series of the measurement, with at least one series lacking one of the referenced tags.
func classifySearch(c *ev.Case, p *pnode, r *runner, mst string) bool {
	ops := map[string]bool{}
	richRegex := false
	p.walk(func(n *pnode) {
		if n.Paren {
			c.Class("pred_parentheses")
		}
		if !n.leaf() {
			c.Class("pred_" + n.Op)
			ops[n.Op] = true
			return
		}
		ops[n.Op] = true
		c.Class("pred_op_" + n.Op)
		if n.Op == "=~" || n.Op == "!~" {
			cls := regexClass(string(n.V))
			c.Class("regex_" + cls)
			if cls == "full" || cls == "dotstar" {
				richRegex = true
			}
		} else if n.V == "" {
			c.Class("pred_empty_literal")
		}
		known := false
		for _, k := range r.m.ofMst(mst) {
			if _, ok := k.tag(string(n.K)); ok {
				known = true
				break
			}
		}
		if !known {
			c.Class("pred_key_absent_everywhere")
		}
	})
	switch p.depth() {
	case 1:
		c.Class("pred_depth_1")
	case 2:
		c.Class("pred_depth_2")
	default:
		c.Class("pred_depth_3")
	}
	n := len(r.m.ofMst(mst))
	switch {
	case n == 0:
		c.Class("search_empty_measurement")
	case r.lastWant == 0:
		c.Class("result_none")
	case r.lastWant == n:
		c.Class("result_all")
	default:
		c.Class("result_partial")
	}
	if r.lastAbsent {
		c.Class("pred_over_series_lacking_the_tag")
	}
	nt := (len(ops) >= 2 || richRegex) && n >= 5 && r.lastAbsent
	if nt {
		c.Class("nontrivial_search")
	}
	return nt
}

func TestHistory(t *testing.T) {
	rapid.Check(t, ev.Prop(prop, "history", machine(machineParams{campaign: "history", rung: rungEq, searchBias: 2})))
}

func TestHistoryBloom(t *testing.T) {
	rapid.Check(t, ev.Prop(prop, "history_bloom", machine(machineParams{campaign: "history_bloom", rung: rungEq, searchBias: 2, bloom: true})))
}

// TestUnflushed is NOT part of the campaign table: it probes the known-finding class that the other campaigns
// leave out by construction (cache clear while freshly created series are not yet flushed to the item store,
// replays/C10/dup_id_after_cache_clear_unflushed.json). It must pass once that finding is repaired.
func TestUnflushed(t *testing.T) {
	rapid.Check(t, ev.Prop(prop, "unflushed_clear", machine(machineParams{campaign: "unflushed_clear", rung: rungEq, searchBias: 0, unflushed: true})))
}

func TestPredEq(t *testing.T) {
	rapid.Check(t, ev.Prop(prop, "pred_eq", machine(machineParams{campaign: "pred_eq", rung: rungEq, searchBias: 10})))
}

func TestPredNeq(t *testing.T) {
	rapid.Check(t, ev.Prop(prop, "pred_neq", machine(machineParams{campaign: "pred_neq", rung: rungNeq, searchBias: 10})))
}

func TestPredRegexLit(t *testing.T) {
	rapid.Check(t, ev.Prop(prop, "pred_regex_literal", machine(machineParams{campaign: "pred_regex_literal", rung: rungReLit, searchBias: 10})))
}

func TestPredRegexFull(t *testing.T) {
	rapid.Check(t, ev.Prop(prop, "pred_regex_full", machine(machineParams{campaign: "pred_regex_full", rung: rungReFull, searchBias: 10})))
}

var _ = json.Marshal
