package c10

import (
	"os"
	"testing"

	"verif/internal/bb"
	"verif/internal/ev"
)

const prop = "C10"

// the library-level campaigns never start a server; the black-box campaign (bb_test.go) and its replays do:
// every server of this process is killed and its directory removed after the run
func TestMain(m *testing.M) {
	code := m.Run()
	ev.Flush()
	bb.CleanupAll()
	os.Exit(code)
}
