package c10

import (
	"testing"

	"verif/internal/ev"
)

const prop = "C10"

func TestMain(m *testing.M) { ev.Main(m) }
