package c10

// TestClassifierRegressions (plain unit test, not part of the campaign table): the classifier must
//   - put the pattern of every regular-expression replay under replays/C10 into a known-finding class,
//   - put the manifestations that once slipped through (failed on the unchanged tree at fresh seeds) into the class
//     of their root cause,
//   - leave alone the shapes the index evaluates correctly (they are what the regex rungs test).
//
//	go test -tags verif -vet=off -count=1 ./props/c10/ -run TestClassifierRegressions

import "testing"

func TestClassifierRegressions(t *testing.T) {
	if noExclusions {
		t.Skip("exclusions are switched off")
	}
	excluded := map[string]string{
		// the replays of the listed classes
		"[wd]":       "regex_alternatives_not_fully_anchored",
		"web|db":     "regex_alternatives_not_fully_anchored",
		"^web|db$":   "regex_anchor_not_at_pattern_ends",
		"^$":         "regex_anchored_matching_empty",
		"^web-[0-9]": "regex_anchored_prefix_then_general",
		"^web-.?1":   "", // any class
		"^.eb":       "regex_begin_anchor_before_non_literal",
		"(?i)-1":     "regex_case_insensitive_caseless_text",
		"a\x01":      "regex_containing_bytes_0_1_2",
		"^[a-z]+$":   "regex_fully_anchored_general",
		"^web$":      "regex_fully_anchored_literal",
		"(a.b|c)d":   "regex_group_branch_ending_in_literal",
		"web.*1":     "regex_literal_prefix_unanchored",
		"web-[0-9]":  "regex_literal_prefix_unanchored",
		"web.*":      "regex_literal_prefix_unanchored", // xweb matches, the seek prefix misses it
		// manifestations that were not covered by the first, symptom-derived classifier
		"(-)w":                               "regex_literal_prefix_unanchored", // capture group around the literal prefix (thorough, seed 5)
		"(?i)[11](?:0b1(?:1.|b1b|.*b?.)|e)?": "",                                // caseless text under (?i) (quick, seed 22)
		"(a)[aa]":                            "regex_literal_prefix_unanchored",
		"(?:(a))a":                           "regex_literal_prefix_unanchored",
		"(we|web-11|web-11)$":                "",
		"^av[a-z]":                           "regex_anchored_prefix_then_general",
		"^b[[:alpha:]][[:alpha:]]":           "regex_anchored_prefix_then_general",
		"^((?i).*[wa]|[a-c]+[ba].*)":         "",
		"dabc{1,2}|(bb+|(dabc)*bc)[^b]":      "regex_group_branch_ending_in_literal",
	}
	for pat, want := range excluded {
		got := knownRegexDefect(pat)
		if got == "" {
			t.Errorf("%q is not excluded (want %q)", pat, want)
		} else if want != "" && got != want {
			t.Errorf("%q: class %q, want %q", pat, got, want)
		}
	}
	// evaluated correctly by the pinned index: must stay in the tested domain
	for _, pat := range []string{"web", "web-1", `\(`, `a\.b`, "^web", "web$", "^web.*", ".*", ".+", ".*web", "^web.*1",
		"^[ab]$", "^(web|db)$", "[wd]$", "[0-9]+$", "w.?2$", `\d{1,2}`, "[0w]{1,2}", "[a-z]-1", "(?i)web", ".[a-z]b", "[ua]{1,2}sus",
		"(usw|[ e][.e]|0.*)$", "x?(ab|c+)+[0-9]"} {
		if got := knownRegexDefect(pat); got != "" {
			t.Errorf("%q is excluded as %q although the index evaluates it as the pattern asks", pat, got)
		}
	}
}
