package c10

// knownRegexDefect: which known-finding class a regular-expression tag filter belongs to ("" = none).
//
// The decision is derived from what the index's optimiser DOES with the pattern (frozen model of the pinned
// code, optmodel_test.go):
//
//	plan := optimise(pat)   literal prefix it seeks with, exact "or values", suffix matcher, all-match flag
//
// A pattern is left out of the generators whenever the planned evaluation is not shown to be equivalent to
// unanchored Go regexp matching:
//
//	1. structural rules on the plan that make a difference certain (a seek prefix without a leading ^, exact
//	   values without both anchors, a start-/end-anchoring suffix matcher the pattern does not ask for, anchors
//	   that the simplifier removed, the pinned code failing on the pattern),
//	2. the first classifier (legacyRegexDefect, syntactic, conservative), and
//	3. a differential run of the plan against Go's regexp over probe strings built from the pattern itself
//	   (probe_test.go): any disagreement excludes the pattern.
//
// The class NAME is the closest listed root cause (known_findings.json); no rule looks at the outcome of a search.

import (
	"regexp/syntax"
	"strings"
)

type regexVerdict struct {
	class string
	stage string // bytes | broken | plan | legacy | probe
	probe string
	kind  string
}

var verdictCache = map[string]regexVerdict{}

func knownRegexDefect(pat string) string {
	if noExclusions {
		return ""
	}
	return classifyRegex(pat).class
}

func classifyRegex(pat string) regexVerdict {
	if v, ok := verdictCache[pat]; ok {
		return v
	}
	v := classifyRegexUncached(pat)
	if len(verdictCache) > 50000 {
		verdictCache = map[string]regexVerdict{}
	}
	verdictCache[pat] = v
	return v
}

// patternShape: the anchors of the pattern as written
type patternShape struct {
	startA, endA bool
	innerAnchors bool
	body         []*syntax.Regexp
	fold         bool
	matchesEmpty bool
}

func shapeOf(pat string, plan *optPlan) (patternShape, bool) {
	var sh patternShape
	raw, err := syntax.Parse(pat, syntax.Perl)
	if err != nil {
		return sh, false
	}
	subs := []*syntax.Regexp{raw}
	if raw.Op == syntax.OpConcat {
		subs = raw.Sub
	}
	sh.startA = subs[0].Op == syntax.OpBeginText
	sh.endA = subs[len(subs)-1].Op == syntax.OpEndText
	edge := 0
	body := subs
	if sh.startA {
		body = body[1:]
		edge++
	}
	if sh.endA && len(body) > 0 {
		body = body[:len(body)-1]
		edge++
	}
	sh.body = body
	sh.innerAnchors = countAnchors(raw) > edge
	sh.fold = hasFoldCase(raw)
	sh.matchesEmpty = plan.allMatch
	return sh, true
}

// planDefect: differences that follow from the plan alone. Returns the class or "".
func planDefect(plan *optPlan, sh patternShape) string {
	if plan.allMatch {
		// every series is selected; right only if the pattern matches every string, which an anchored or
		// boundary-carrying pattern does not
		if sh.startA || sh.endA || sh.innerAnchors {
			if sh.innerAnchors {
				return "regex_anchor_not_at_pattern_ends"
			}
			return "regex_anchored_matching_empty"
		}
		return ""
	}
	if plan.literal {
		// evaluated as "contains the text": right only without anchors
		if sh.innerAnchors {
			return "regex_anchor_not_at_pattern_ends"
		}
		if sh.startA && sh.endA {
			return "regex_fully_anchored_literal"
		}
		if sh.startA || sh.endA {
			return "regex_anchor_not_at_pattern_ends"
		}
		if sh.fold {
			return "regex_case_insensitive_caseless_text"
		}
		return ""
	}
	if plan.notes.innerAnchor {
		// ^ / $ removed from a concatenation inside a group
		return "regex_anchor_not_at_pattern_ends"
	}
	if plan.notes.innerDotStar {
		// ".*" added to a concatenation inside a group that ends (or, before $, starts) with plain text: (a.b|c)d
		return "regex_group_branch_ending_in_literal"
	}
	if len(plan.prefix) > 0 && !sh.startA {
		// the literal prefix is used as a seek prefix: stored values must START with it
		return "regex_literal_prefix_unanchored"
	}
	if len(plan.orValues) > 0 && !(sh.startA && sh.endA) {
		// the rest must EQUAL one of the values
		if sh.fold {
			return "regex_case_insensitive_caseless_text"
		}
		if sh.startA && len(plan.prefix) > 0 {
			return "regex_anchored_prefix_then_general"
		}
		return "regex_alternatives_not_fully_anchored"
	}
	if len(plan.orValues) > 0 {
		return "" // ^(web|db)$, ^[ab]$: exact values are what the pattern asks for
	}
	if sh.startA && sh.endA {
		// both anchors are removed and not put back: evaluated as "contains a match"
		return "regex_fully_anchored_general"
	}
	if sh.startA && !exprBeginsWithDotRepeat(plan.expr) {
		if len(plan.prefix) > 0 {
			// ^web-[0-9]x: the rest is searched ANYWHERE behind the prefix, not directly behind it
			return "regex_anchored_prefix_then_general"
		}
		// ^[wd]x: the anchor is removed and nothing replaces it
		return "regex_begin_anchor_before_non_literal"
	}
	switch plan.matcher.kind {
	case "literal_eq", "prefix_dot":
		// the rest of the pattern is compared from its first byte on; right only directly behind an anchored prefix
		if !(sh.startA && len(plan.prefix) > 0) && !(plan.matcher.kind == "prefix_dot" && sh.startA) {
			return "regex_literal_prefix_unanchored"
		}
	case "dot_suffix":
		// .*text as the whole rest: the value must END with the text; right only before $
		if !sh.endA {
			return "regex_literal_prefix_unanchored"
		}
	}
	return ""
}

// exprBeginsWithDotRepeat: the expression handed to the suffix matcher starts with .* or .+ (then "search anywhere"
// and "match from the first byte" coincide)
func exprBeginsWithDotRepeat(expr string) bool {
	re, err := syntax.Parse(expr, syntax.Perl)
	if err != nil {
		return false
	}
	for re.Op == syntax.OpCapture {
		re = re.Sub[0]
	}
	if re.Op == syntax.OpConcat && len(re.Sub) > 0 {
		re = re.Sub[0]
		for re.Op == syntax.OpCapture {
			re = re.Sub[0]
		}
	}
	if re.Op != syntax.OpStar && re.Op != syntax.OpPlus {
		return false
	}
	op := re.Sub[0].Op
	return op == syntax.OpAnyChar || op == syntax.OpAnyCharNotNL
}

func nameFor(plan *optPlan, sh patternShape, kind string, pat string) string {
	switch {
	case sh.innerAnchors:
		return "regex_anchor_not_at_pattern_ends"
	case (sh.startA || sh.endA) && sh.matchesEmpty:
		return "regex_anchored_matching_empty"
	case sh.fold && (len(plan.orValues) > 0 || plan.literal || len(plan.prefix) > 0):
		return "regex_case_insensitive_caseless_text"
	case sh.startA && sh.endA:
		if len(sh.body) == 1 && isPlainLiteral(sh.body[0]) {
			return "regex_fully_anchored_literal"
		}
		return "regex_fully_anchored_general"
	case sh.startA:
		if len(plan.prefix) > 0 {
			if kind == "extra" {
				return "regex_anchored_prefix_then_general_2"
			}
			return "regex_anchored_prefix_then_general"
		}
		return "regex_begin_anchor_before_non_literal"
	}
	if len(plan.prefix) > 0 {
		return "regex_literal_prefix_unanchored"
	}
	if len(plan.orValues) > 0 {
		return "regex_alternatives_not_fully_anchored"
	}
	switch plan.matcher.kind {
	case "literal_eq", "prefix_dot", "dot_suffix", "middle", "dotplus":
		return "regex_literal_prefix_unanchored"
	}
	if kind == "extra" {
		return "regex_group_branch_ending_in_literal"
	}
	return "regex_literal_prefix_unanchored"
}

func classifyRegexUncached(pat string) regexVerdict {
	if strings.ContainsAny(pat, "\x00\x01\x02") {
		// literal text is compared with the escaped form of stored values
		return regexVerdict{class: "regex_containing_bytes_0_1_2", stage: "bytes"}
	}
	plan := optimise(pat)
	if plan.goRe == nil {
		return regexVerdict{} // not a regular expression: never generated
	}
	sh, ok := shapeOf(pat, plan)
	if !ok {
		return regexVerdict{}
	}
	if plan.broken != "" {
		return regexVerdict{class: nameFor(plan, sh, "", pat), stage: "broken"}
	}
	if cls := planDefect(plan, sh); cls != "" {
		return regexVerdict{class: cls, stage: "plan"}
	}
	if cls := legacyRegexDefect(pat); cls != "" {
		return regexVerdict{class: cls, stage: "legacy"}
	}
	if probe, kind := optimiserDiffers(plan, probesFor(pat, plan)); kind != "" {
		return regexVerdict{class: nameFor(plan, sh, kind, pat), stage: "probe", probe: probe, kind: kind}
	}
	return regexVerdict{}
}

// knownRegexDefectFor: knownRegexDefect, with the tag values in play for the filter's key as additional probe
// strings (the generators know the universe of values a case can hold for a key).
func knownRegexDefectFor(pat string, values []string) string {
	if noExclusions {
		return ""
	}
	v := classifyRegex(pat)
	if v.class != "" || len(values) == 0 {
		return v.class
	}
	plan := optimise(pat)
	if plan.goRe == nil || plan.broken != "" {
		return ""
	}
	// values holding the index's separator bytes are a class of their own (regex_over_values_with_bytes_0_1_2,
	// decided per search on the series actually written)
	clean := make([]string, 0, len(values))
	for _, x := range values {
		if !strings.ContainsAny(x, "\x00\x01\x02") {
			clean = append(clean, x)
		}
	}
	if _, kind := optimiserDiffers(plan, clean); kind != "" {
		valuesInPlayHits++
		sh, _ := shapeOf(pat, plan)
		return nameFor(plan, sh, kind, pat)
	}
	return ""
}

// valuesInPlayHits counts exclusions that only the values in play produced (ideally 0: the pattern-derived probes
// are meant to be sufficient); reported by TestClassifierStudy.
var valuesInPlayHits int
