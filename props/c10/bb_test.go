package c10

// Black-box companion of C10: the same predicate generator (predGen / pnode, with the syntactic exclusions of the
// known regex findings) driven through the real ts-server over HTTP. One server per test process, kept across
// rapid cases; every case writes fresh measurements (per-case name prefix), then compares every read path of a
// tag predicate - executed twice - with brute force over the written series (evalExpr: absent tag = "", Go regexp).

import (
	"encoding/json"
	"fmt"
	"os"
	"regexp"
	"sort"
	"strconv"
	"strings"
	"testing"
	"time"
	"unicode/utf8"

	"github.com/openGemini/openGemini/lib/util/lifted/influx/influxql"
	"pgregory.net/rapid"
	"verif/internal/bb"
	"verif/internal/ev"
)

const bbCampaign = "bb_predicates"
const bbDB = "db0"
const bbT0 = int64(1700000000) * 1e9 // inside one 7-day shard group of the default policy

// C10_BB_NO_EXCLUSION=exact_hint,tag_keys switches the exclusion of a black-box known-finding class off (to validate a
// candidate fix: the campaign must then pass); C10_NO_EXCLUSIONS=1 switches every exclusion off.
var bbNoExclusion = os.Getenv("C10_BB_NO_EXCLUSION")

// how long a wrong read is re-run before it counts (tag-filter cache generation is bumped up to 10 s after an index flush)
var bbGrace = 13 * time.Second

// tag keys / values: what the line protocol and InfluxQL quoting carry without the C06 classes:
// printable ASCII (no backslash: line-protocol unescaping of backslashes is C06's business) plus a few UTF-8 texts
var bbKeyPool = []string{"host", "hos", "hostx", "region", "dc", "a b", "k=x", "k,y", "ключ", "_k", "h"}
var bbMstPool = []string{"cpu", "cpu2", "mem", "c", "cp", "测量é", "m-1.x", "a b"}
var bbMstPrefixPairs = [][]string{{"cpu", "cpu2"}, {"c", "cp"}, {"cp", "cpu"}}
var bbValAlphabet = []string{"a", "b", "w", "d", "e", "1", "0", "-", ".", ",", "=", " ", "é", "世", "[", "]", "|", "*", "(", ")", "^", "$", "/", "'", "\"", "+", "?"}

// ---------------------------------------------------------------- case description (replay format)

type bbRow struct {
	S series `json:"s"` // S.M = base measurement name (the server sees Prefix+S.M)
	V int    `json:"v"` // field v and the timestamp index
}

type bbCheck struct {
	Mst  string `json:"mst"`
	Pred *pnode `json:"pred"`
	Key  bstr   `json:"key"`  // show tag values ... with key = <Key>
	Keys []bstr `json:"keys"` // show tag values ... with key in (<Keys>)
}

type bbStep struct {
	Op    string   `json:"op"` // write | flush | check
	Rows  []bbRow  `json:"rows,omitempty"`
	Check *bbCheck `json:"check,omitempty"`
}

type bbCaseDesc struct {
	Kind   string   `json:"kind"` // "bb"
	PT     string   `json:"ptnum"`
	Prefix string   `json:"prefix"`
	Steps  []bbStep `json:"steps"`
}

// ---------------------------------------------------------------- server

var bbServers = map[string]*bb.Server{}
var bbCaseCounter int

func bbServer(pt string) *bb.Server {
	if s := bbServers[pt]; s != nil {
		if s.Alive() {
			return s
		}
		s.Destroy()
	}
	inst := 0
	if pt != "1" {
		inst = 1
	}
	s := bb.NewServer(bb.Options{Prop: 10, Instance: inst, Knobs: map[string]string{"ptnum-pernode": pt}, NoHook: true})
	s.MustStart()
	s.MustExec("", "create database "+bbDB)
	bbServers[pt] = s
	return s
}

// ---------------------------------------------------------------- world: server + model

type bbWorld struct {
	srv        *bb.Server
	prefix     string
	rows       map[string][]bbRow // base measurement -> rows, write order
	unflushed  map[string]int     // base measurement -> rows written since the last forced flush
	class      func(string)
	excluded   func(string) // nil: nothing is excluded (replay)
	lateMaxMs  int64
	queries    int
	lastSel    int
	lastAbsent bool
	lastN      int
	showOnly   bool
	skipped    bool // the last check was not evaluated (predicate not round-tripped / not evaluable)
	phase      string
}

func newBBWorld(srv *bb.Server, prefix string) *bbWorld {
	return &bbWorld{srv: srv, prefix: prefix, rows: map[string][]bbRow{}, unflushed: map[string]int{}, class: func(string) {}}
}

func (w *bbWorld) full(mst string) string { return w.prefix + mst }

func lpEscape(s string, mst bool) string {
	var b strings.Builder
	for i := 0; i < len(s); i++ {
		switch c := s[i]; {
		case c == ',' || c == ' ' || (c == '=' && !mst):
			b.WriteByte('\\')
			b.WriteByte(c)
		default:
			b.WriteByte(c)
		}
	}
	return b.String()
}

func (w *bbWorld) line(r bbRow) string {
	var b strings.Builder
	b.WriteString(lpEscape(w.full(r.S.M), true))
	for _, t := range r.S.T {
		b.WriteByte(',')
		b.WriteString(lpEscape(t.K, false))
		b.WriteByte('=')
		b.WriteString(lpEscape(t.V, false))
	}
	fmt.Fprintf(&b, " v=%di %d", r.V, bbT0+int64(r.V)*1e9)
	return b.String()
}

// renderedKey: a series as `show series` prints it (no escaping)
func (w *bbWorld) renderedKey(s series) string {
	var b strings.Builder
	b.WriteString(w.full(s.M))
	for _, t := range s.T {
		b.WriteByte(',')
		b.WriteString(t.K)
		b.WriteByte('=')
		b.WriteString(t.V)
	}
	return b.String()
}

func tagsKey(m map[string]string) string {
	ks := make([]string, 0, len(m))
	for k := range m {
		ks = append(ks, k)
	}
	sort.Strings(ks)
	var b strings.Builder
	for _, k := range ks {
		b.WriteString(k)
		b.WriteByte(0)
		b.WriteString(m[k])
		b.WriteByte(1)
	}
	return b.String()
}

func seriesTagsKey(s series) string {
	m := map[string]string{}
	for _, t := range s.T {
		m[t.K] = t.V
	}
	return tagsKey(m)
}

// write sends the rows (one point per series), retrying 5xx refusals; "" = acknowledged.
func (w *bbWorld) write(rows []bbRow) string {
	lines := make([]string, len(rows))
	for i, r := range rows {
		lines[i] = w.line(r)
	}
	body := strings.Join(lines, "\n") + "\n"
	status, resp := w.srv.Write(bbDB, "", "ns", body)
	for try := 0; status >= 500 && w.srv.Alive() && try < 100; try++ {
		w.class("write_refused_5xx_retried")
		time.Sleep(100 * time.Millisecond)
		status, resp = w.srv.Write(bbDB, "", "ns", body)
	}
	if status != 204 {
		if !w.srv.Alive() {
			return "server died during a write: " + w.srv.PanicInLogs()
		}
		bb.Fatal("write of generated points was not acknowledged: status %d %s\n%s", status, resp, body)
	}
	for _, r := range rows {
		w.rows[r.S.M] = append(w.rows[r.S.M], r)
		w.unflushed[r.S.M]++
	}
	return ""
}

func (w *bbWorld) flush() string {
	st, body := w.srv.Flush()
	if st != 200 && st != 204 {
		if !w.srv.Alive() {
			return "server died during a forced flush: " + w.srv.PanicInLogs()
		}
		bb.Fatal("forced flush failed: %d %s", st, body)
	}
	for k := range w.unflushed {
		w.unflushed[k] = 0
	}
	return ""
}

// await polls the unfiltered series listing of every measurement until all written series are listed
// (a new series reaches the searchable part of the index with the next ~1 s raw-item flush).
func (w *bbWorld) await() string {
	deadline := time.Now().Add(40 * time.Second)
	for {
		missing := ""
		for mst, rows := range w.rows {
			ser, qerr := w.exec("show series from " + bb.Quote(w.full(mst)))
			if qerr != "" {
				if !w.srv.Alive() {
					return "server died: " + w.srv.PanicInLogs()
				}
				missing = "show series failed: " + qerr
				break
			}
			have := map[string]bool{}
			for _, se := range ser {
				for _, v := range se.Values {
					if len(v) > 0 {
						if x, ok := v[0].(string); ok {
							have[x] = true
						}
					}
				}
			}
			for _, r := range rows {
				if !have[w.renderedKey(r.S)] {
					missing = fmt.Sprintf("%q", w.renderedKey(r.S))
					break
				}
			}
			if missing != "" {
				break
			}
		}
		if missing == "" {
			return ""
		}
		if time.Now().After(deadline) {
			return "acknowledged series not listed by `show series from <measurement>` 40 s after the write: " + missing
		}
		time.Sleep(60 * time.Millisecond)
	}
}

// exec runs one statement; transport problems with a living server are harness problems.
func (w *bbWorld) exec(q string) ([]bb.Series, string) {
	w.queries++
	r, err := w.srv.Query(bbDB, q, nil)
	if err != nil {
		if !w.srv.Alive() {
			return nil, "server died during the query: " + w.srv.PanicInLogs()
		}
		// one retry: a transient transport hiccup on a busy machine
		time.Sleep(200 * time.Millisecond)
		r, err = w.srv.Query(bbDB, q, nil)
		if err != nil {
			if !w.srv.Alive() {
				return nil, "server died during the query: " + w.srv.PanicInLogs()
			}
			bb.Fatal("query transport error: %v (%s)", err, q)
		}
	}
	if r.Err != "" {
		return nil, "error: " + r.Err
	}
	if len(r.Results) == 0 {
		return nil, "" // `show series` answers {} when nothing matches
	}
	return r.Results[0].Series, ""
}

// expect executes q twice (the second execution may take a cached / cost-based path) and applies cmp to both
// answers. A wrong answer is re-run for bbGrace: only one that stays wrong is reported.
func (w *bbWorld) expect(path, q string, cmp func([]bb.Series) string) string {
	w.class("path_" + path)
	for execNo := 1; execNo <= 2; execNo++ {
		ser, qerr := w.exec(q)
		d := qerr
		if d == "" {
			d = cmp(ser)
		}
		if d == "" {
			continue
		}
		start := time.Now()
		for w.srv.Alive() && time.Since(start) < bbGrace {
			time.Sleep(250 * time.Millisecond)
			ser, qerr = w.exec(q)
			d2 := qerr
			if d2 == "" {
				d2 = cmp(ser)
			}
			if d2 == "" {
				ms := time.Since(start).Milliseconds()
				if ms > w.lateMaxMs {
					w.lateMaxMs = ms
				}
				w.class("late_read_became_right_" + path)
				w.class("late_read_became_right_in_phase_" + w.phase)
				if os.Getenv("C10_BB_DEBUG") != "" {
					fmt.Fprintf(os.Stderr, "LATE %dms exec%d unflushed=%v %s\n   first answer: %s\n", ms, execNo, w.unflushed, q, d)
				}
				d = ""
				break
			}
			d = d2
		}
		if d != "" {
			return fmt.Sprintf("[%s, execution %d] %s: %s", path, execNo, q, d)
		}
	}
	w.class("second_execution_compared")
	return ""
}

// ---------------------------------------------------------------- predicate parsing (the server's own parser)

// parseCondServer parses `select v from m where <text>` the way the HTTP handler does (yacc grammar) and returns the
// condition with every variable typed as a tag.
func parseCondServer(text string) (influxql.Expr, error) {
	p := influxql.NewParser(strings.NewReader("select v from m where " + text))
	defer p.Release()
	yy := influxql.NewYyParser(p.GetScanner(), p.GetPara())
	yy.ParseTokens()
	q, err := yy.GetQuery()
	if err != nil {
		return nil, err
	}
	if q == nil || len(q.Statements) != 1 {
		return nil, fmt.Errorf("not one statement")
	}
	sel, ok := q.Statements[0].(*influxql.SelectStatement)
	if !ok || sel.Condition == nil {
		return nil, fmt.Errorf("not a select with a condition")
	}
	influxql.WalkFunc(sel.Condition, func(n influxql.Node) {
		if ref, ok := n.(*influxql.VarRef); ok {
			ref.Type = influxql.Tag
		}
	})
	return sel.Condition, nil
}

// treeText renders the boolean structure of a parsed condition (parentheses themselves ignored)
func treeText(e influxql.Expr) string {
	switch n := e.(type) {
	case *influxql.ParenExpr:
		return treeText(n.Expr)
	case *influxql.BinaryExpr:
		if n.Op == influxql.AND || n.Op == influxql.OR {
			return "[" + treeText(n.LHS) + " " + n.Op.String() + " " + treeText(n.RHS) + "]"
		}
		return n.String()
	}
	return fmt.Sprintf("%T", e)
}

// forceParens parenthesises every sub-tree joined by the other connective, so that the text never depends on the
// relative precedence of AND and OR (the front-end grammar puts both on one level: known finding C12-or-before-and,
// replays/C12/or_before_and.json). Reports whether a parenthesis had to be added.
func forceParens(p *pnode) bool {
	added := false
	p.walk(func(n *pnode) {
		if n.leaf() {
			return
		}
		for _, ch := range []*pnode{n.L, n.R} {
			if !ch.leaf() && ch.Op != n.Op && !ch.Paren {
				ch.Paren = true
				added = true
			}
		}
	})
	return added
}

func printable(s string) bool {
	if !utf8.ValidString(s) {
		return false
	}
	for _, r := range s {
		if r < 0x20 || r == 0x7f {
			return false
		}
	}
	return true
}

func predPrintable(p *pnode) bool {
	ok := true
	p.walk(func(n *pnode) {
		if n.leaf() && (!printable(string(n.K)) || !printable(string(n.V))) {
			ok = false
		}
	})
	return ok
}

// leafTrueForAbsent: the leaf is satisfied by the empty string (= what an absent tag stands for)
func leafTrueForAbsent(n *pnode) bool {
	switch n.Op {
	case "=":
		return n.V == ""
	case "!=":
		return n.V != ""
	}
	re, err := regexp.Compile(string(n.V))
	if err != nil {
		return false
	}
	if n.Op == "=~" {
		return re.MatchString("")
	}
	return !re.MatchString("")
}

// ---------------------------------------------------------------- the check of one predicate through every read path

func diffSets(got map[string]bool, want map[string]bool) (extra, missing []string) {
	for k := range got {
		if !want[k] {
			extra = append(extra, k)
		}
	}
	for k := range want {
		if !got[k] {
			missing = append(missing, k)
		}
	}
	sort.Strings(extra)
	sort.Strings(missing)
	return
}

func setDiffText(what string, got, want map[string]bool) string {
	extra, missing := diffSets(got, want)
	if len(extra)+len(missing) == 0 {
		return ""
	}
	return fmt.Sprintf("%s: wrongly listed %q, not listed %q (%d expected)", what, extra, missing, len(want))
}

func jsonInt(x any) (int64, bool) {
	n, ok := x.(json.Number)
	if !ok {
		return 0, false
	}
	i, err := strconv.ParseInt(n.String(), 10, 64)
	return i, err == nil
}

func (w *bbWorld) check(chk *bbCheck) string {
	w.showOnly, w.skipped = false, false
	text := chk.Pred.text()
	cond, err := parseCondServer(text)
	if err != nil || !sameShape(chk.Pred, cond) {
		w.class("skipped_pred_not_roundtripped")
		w.skipped = true
		if os.Getenv("C10_BB_DEBUG") != "" {
			fmt.Fprintf(os.Stderr, "NOTROUNDTRIPPED %s err=%v parsed=%v\n", text, err, cond)
		}
		return ""
	}
	// the store re-reads the printed condition with the hand-written parser: both parsers must see the same tree
	if lib, err := parseCond(text); err != nil || treeText(lib) != treeText(cond) {
		w.class("skipped_pred_read_differently_by_the_two_parsers")
		w.skipped = true
		return ""
	}
	all := w.rows[chk.Mst]
	name := w.full(chk.Mst)
	qn := bb.Quote(name)
	mstKeys := map[string]bool{}
	for _, r := range all {
		for _, t := range r.S.T {
			mstKeys[t.K] = true
		}
	}
	var leaves []*pnode
	chk.Pred.walk(func(n *pnode) {
		if n.leaf() {
			leaves = append(leaves, n)
		}
	})
	unknownKey, absentHit, absentTrue := false, false, false
	for _, l := range leaves {
		if !mstKeys[string(l.K)] {
			unknownKey = true
		}
		for _, r := range all {
			if _, has := r.S.tag(string(l.K)); !has {
				absentHit = true
				if leafTrueForAbsent(l) {
					absentTrue = true
				}
			}
		}
	}
	var sel []bbRow
	for _, r := range all {
		ok, err := evalExpr(cond, r.S)
		if err != nil {
			w.class("skipped_pred_not_evaluable")
			w.skipped = true
			return ""
		}
		if ok {
			sel = append(sel, r)
		}
	}
	w.lastSel, w.lastAbsent, w.lastN = len(sel), absentHit, len(all)
	where := " where " + text
	allFlushed := w.unflushed[chk.Mst] == 0 && len(all) > 0
	switch {
	case len(all) == 0:
	case allFlushed:
		w.class("data_all_flushed")
	case w.unflushed[chk.Mst] == len(all):
		w.class("data_all_unflushed")
	default:
		w.class("data_flushed_part_plus_unflushed_part")
	}

	// (1)+(2) row selection. A key that no series of the measurement carries is not a tag for the query layer
	// (it is looked up as a field): the "absent tag" reading applies to the listing statements only.
	if unknownKey {
		w.showOnly = true
		w.class("pred_key_unknown_to_measurement_listings_only")
	} else {
		wantG := map[string]bool{}
		byTags := map[string]bbRow{}
		for _, r := range sel {
			wantG[w.renderedKey(r.S)] = true
			byTags[seriesTagsKey(r.S)] = r
		}
		if v := w.expect("select_group_by_all", "select v from "+qn+where+" group by *", func(ser []bb.Series) string {
			got := map[string]bool{}
			for _, se := range ser {
				if se.Name != name {
					return fmt.Sprintf("result series of measurement %q", se.Name)
				}
				r, ok := byTags[tagsKey(se.Tags)]
				if !ok {
					return fmt.Sprintf("wrongly selected series with tags %v (%d series expected of %d)", se.Tags, len(sel), len(all))
				}
				k := w.renderedKey(r.S)
				if got[k] {
					return fmt.Sprintf("series %q returned twice", k)
				}
				got[k] = true
				if len(se.Columns) != 2 || se.Columns[0] != "time" || se.Columns[1] != "v" {
					return fmt.Sprintf("columns %v", se.Columns)
				}
				if len(se.Values) != 1 {
					return fmt.Sprintf("series %q: %d rows, 1 written", k, len(se.Values))
				}
				ts, ok1 := jsonInt(se.Values[0][0])
				val, ok2 := jsonInt(se.Values[0][1])
				if !ok1 || !ok2 || ts != bbT0+int64(r.V)*1e9 || val != int64(r.V) {
					return fmt.Sprintf("series %q: row %v, written time=%d v=%d", k, se.Values[0], bbT0+int64(r.V)*1e9, r.V)
				}
			}
			return setDiffText("selected series", got, wantG)
		}); v != "" {
			return v
		}
		if v := w.expect("select_count", "select count(v) from "+qn+where, func(ser []bb.Series) string {
			if len(ser) == 0 {
				if len(sel) == 0 {
					return ""
				}
				return fmt.Sprintf("no result, count %d expected", len(sel))
			}
			if len(ser) != 1 || len(ser[0].Values) != 1 || len(ser[0].Values[0]) != 2 {
				return fmt.Sprintf("unexpected shape %+v", ser)
			}
			n, ok := jsonInt(ser[0].Values[0][1])
			if !ok || n != int64(len(sel)) {
				return fmt.Sprintf("count %v, %d expected (of %d series)", ser[0].Values[0][1], len(sel), len(all))
			}
			return ""
		}); v != "" {
			return v
		}
		if v := w.expect("select_ungrouped", "select v from "+qn+where, func(ser []bb.Series) string {
			got := map[string]bool{}
			want := map[string]bool{}
			for _, r := range sel {
				want[strconv.Itoa(r.V)] = true
			}
			if len(ser) > 1 {
				return fmt.Sprintf("%d result series for an ungrouped selection", len(ser))
			}
			rows := 0
			for _, se := range ser {
				var prev int64
				for i, row := range se.Values {
					rows++
					if len(row) != 2 {
						return fmt.Sprintf("row %v", row)
					}
					ts, ok1 := jsonInt(row[0])
					val, ok2 := jsonInt(row[1])
					if !ok1 || !ok2 || ts != bbT0+val*1e9 {
						return fmt.Sprintf("row %v was never written", row)
					}
					if i > 0 && ts < prev {
						return "rows not ordered by time"
					}
					prev = ts
					got[strconv.FormatInt(val, 10)] = true
				}
			}
			if d := setDiffText("values of v", got, want); d != "" {
				return d
			}
			if rows != len(sel) {
				return fmt.Sprintf("%d rows, %d expected", rows, len(sel))
			}
			return ""
		}); v != "" {
			return v
		}
	}

	// (3) show series
	wantKeys := map[string]bool{}
	for _, r := range sel {
		wantKeys[w.renderedKey(r.S)] = true
	}
	cmpSeries := func(ser []bb.Series) string {
		got := map[string]bool{}
		for _, se := range ser {
			if len(se.Columns) != 1 || se.Columns[0] != "key" {
				return fmt.Sprintf("columns %v", se.Columns)
			}
			for _, v := range se.Values {
				x, ok := v[0].(string)
				if !ok {
					return fmt.Sprintf("cell %v", v[0])
				}
				if got[x] {
					return fmt.Sprintf("series %q listed twice", x)
				}
				got[x] = true
			}
		}
		return setDiffText(fmt.Sprintf("series keys (of %d series)", len(all)), got, wantKeys)
	}
	if v := w.expect("show_series", "show series from "+qn+where, cmpSeries); v != "" {
		return v
	}

	// (4) show tag values
	valuesOf := func(keys []bstr) map[string]bool {
		want := map[string]bool{}
		for _, r := range sel {
			for _, k := range keys {
				if v, ok := r.S.tag(string(k)); ok {
					want[string(k)+"\x00"+v] = true
				}
			}
		}
		return want
	}
	cmpTagValues := func(keys []bstr) func([]bb.Series) string {
		want := valuesOf(keys)
		return func(ser []bb.Series) string {
			got := map[string]bool{}
			for _, se := range ser {
				if se.Name != name {
					return fmt.Sprintf("listing of measurement %q", se.Name)
				}
				if len(se.Columns) != 2 || se.Columns[0] != "key" || se.Columns[1] != "value" {
					return fmt.Sprintf("columns %v", se.Columns)
				}
				for _, v := range se.Values {
					k, ok1 := v[0].(string)
					x, ok2 := v[1].(string)
					if !ok1 || !ok2 {
						return fmt.Sprintf("row %v", v)
					}
					if got[k+"\x00"+x] {
						return fmt.Sprintf("pair %q=%q listed twice", k, x)
					}
					got[k+"\x00"+x] = true
				}
			}
			return setDiffText("(key,value) pairs", got, want)
		}
	}
	inList := func(keys []bstr) string {
		qs := make([]string, len(keys))
		for i, k := range keys {
			qs[i] = bb.Quote(string(k))
		}
		return strings.Join(qs, ", ")
	}
	if chk.Key != "" {
		one := []bstr{chk.Key}
		if v := w.expect("show_tag_values_key_eq", "show tag values from "+qn+" with key = "+bb.Quote(string(chk.Key))+where, cmpTagValues(one)); v != "" {
			return v
		}
		nvals := len(valuesOf(one))
		if v := w.expect("show_tag_values_cardinality", "show tag values cardinality from "+qn+" with key = "+bb.Quote(string(chk.Key))+where, func(ser []bb.Series) string {
			return cmpCount(ser, name, nvals)
		}); v != "" {
			return v
		}
	}
	if len(chk.Keys) > 0 {
		if v := w.expect("show_tag_values_key_in", "show tag values from "+qn+" with key in ("+inList(chk.Keys)+")"+where, cmpTagValues(chk.Keys)); v != "" {
			return v
		}
	}

	// (5) show tag keys: with a predicate, the keys carried by the selected series (InfluxDB 1.x: tag keys of the
	// series that satisfy the WHERE clause); without, every key written to the measurement
	cmpTagKeys := func(rows []bbRow) func([]bb.Series) string {
		want := map[string]bool{}
		for _, r := range rows {
			for _, t := range r.S.T {
				want[t.K] = true
			}
		}
		return func(ser []bb.Series) string {
			got := map[string]bool{}
			for _, se := range ser {
				if se.Name != name {
					return fmt.Sprintf("listing of measurement %q", se.Name)
				}
				if len(se.Columns) != 1 || se.Columns[0] != "tagKey" {
					return fmt.Sprintf("columns %v", se.Columns)
				}
				for _, v := range se.Values {
					x, ok := v[0].(string)
					if !ok {
						return fmt.Sprintf("cell %v", v[0])
					}
					if got[x] {
						return fmt.Sprintf("tag key %q listed twice", x)
					}
					got[x] = true
				}
			}
			return setDiffText("tag keys", got, want)
		}
	}
	// known finding: the store builds this listing by cutting the UNESCAPED rendering of every selected series key at ','
	// and '=' (engine/engine.go handleTagKeys), the coordinator cuts its answer at ',' again (replays/C10/proposed/bb_show_tag_keys_where_*.json)
	sepInKey := false
	for _, r := range sel {
		for _, t := range r.S.T {
			if strings.ContainsAny(t.K, ",=") || strings.Contains(t.V, ",") {
				sepInKey = true
			}
		}
	}
	if sepInKey && w.excluded != nil && !strings.Contains(bbNoExclusion, "tag_keys") {
		w.excluded("show_tag_keys_where_over_series_with_comma_or_equals_sign")
	} else if v := w.expect("show_tag_keys_where", "show tag keys from "+qn+where, cmpTagKeys(sel)); v != "" {
		return v
	}
	if v := w.expect("show_tag_keys", "show tag keys from "+qn, cmpTagKeys(all)); v != "" {
		return v
	}

	// (6) cardinalities
	if v := w.expect("show_series_cardinality", "show series cardinality from "+qn+where, func(ser []bb.Series) string {
		var sum int64
		for _, se := range ser {
			if len(se.Columns) != 3 || se.Columns[2] != "count" {
				return fmt.Sprintf("columns %v", se.Columns)
			}
			for _, v := range se.Values {
				n, ok := jsonInt(v[2])
				if !ok {
					return fmt.Sprintf("count cell %v", v[2])
				}
				sum += n
			}
		}
		if sum != int64(len(sel)) {
			return fmt.Sprintf("count %d, %d expected (of %d series)", sum, len(sel), len(all))
		}
		return ""
	}); v != "" {
		return v
	}
	if v := w.expect("show_series_exact_cardinality", "show series exact cardinality from "+qn+where, func(ser []bb.Series) string {
		return cmpCount(ser, name, len(sel))
	}); v != "" {
		return v
	}

	// (3x)+(4x) listings under the exact-statistics hint: served from the chunk metadata of the FLUSHED files plus a
	// per-series evaluation of the condition (engine/immutable/show_series.go): only once everything is flushed
	if allFlushed {
		if absentTrue && w.excluded != nil && !strings.Contains(bbNoExclusion, "exact_hint") {
			// known finding: that evaluation takes a leaf over an absent tag as false (replays/C10/proposed/bb_exact_hint_absent_tag.json)
			w.excluded("exact_hint_listing_leaf_true_for_absent_tag")
		} else {
			hint := "show /*+ Exact_Statistic_Query */ "
			if v := w.expect("show_series_exact_hint", hint+"series from "+qn+where, cmpSeries); v != "" {
				return v
			}
			if chk.Key != "" {
				if v := w.expect("show_tag_values_exact_hint", hint+"tag values from "+qn+" with key = "+bb.Quote(string(chk.Key))+where, cmpTagValues([]bstr{chk.Key})); v != "" {
					return v
				}
			}
		}
	}
	return ""
}

func cmpCount(ser []bb.Series, name string, want int) string {
	if len(ser) == 0 {
		if want == 0 {
			return ""
		}
		return fmt.Sprintf("no result, count %d expected", want)
	}
	if len(ser) != 1 || ser[0].Name != name || len(ser[0].Values) != 1 || len(ser[0].Columns) != 1 || ser[0].Columns[0] != "count" {
		return fmt.Sprintf("unexpected shape %+v", ser)
	}
	n, ok := jsonInt(ser[0].Values[0][0])
	if !ok || n != int64(want) {
		return fmt.Sprintf("count %v, %d expected", ser[0].Values[0][0], want)
	}
	return ""
}

// step executes one step of a case; "" = property held.
func (w *bbWorld) step(s bbStep) string {
	switch s.Op {
	case "write":
		if v := w.write(s.Rows); v != "" {
			return v
		}
	case "flush":
		if v := w.flush(); v != "" {
			return v
		}
	case "await":
		return w.await()
	case "check":
		if s.Check == nil || s.Check.Pred == nil {
			return ""
		}
		return w.check(s.Check)
	}
	return ""
}

// ---------------------------------------------------------------- generators

func genBBValue(t *rapid.T, label string) string {
	if rapid.IntRange(0, 9).Draw(t, label+"kind") < 6 {
		return rapid.SampledFrom(realisticVals).Draw(t, label)
	}
	n := rapid.IntRange(1, 4).Draw(t, label+"n")
	var b strings.Builder
	for i := 0; i < n; i++ {
		b.WriteString(rapid.SampledFrom(bbValAlphabet).Draw(t, label+"c"))
	}
	return b.String()
}

func genBBUniverse(t *rapid.T) *universe {
	u := &universe{vals: map[string][]string{}}
	if rapid.IntRange(0, 9).Draw(t, "twomst") < 4 {
		if rapid.IntRange(0, 2).Draw(t, "prefixpair") == 0 {
			u.msts = append([]string(nil), rapid.SampledFrom(bbMstPrefixPairs).Draw(t, "pair")...)
		} else {
			u.msts = pickDistinct(t, bbMstPool, 2, "mst")
		}
	} else {
		u.msts = pickDistinct(t, bbMstPool, 1, "mst")
	}
	u.keys = pickDistinct(t, bbKeyPool, rapid.IntRange(3, 4).Draw(t, "nkeys"), "key")
	for _, k := range u.keys {
		nv := rapid.IntRange(2, 6).Draw(t, "nvals")
		seen := map[string]bool{}
		for i := 0; i < nv; i++ {
			v := genBBValue(t, "val")
			if len(u.vals[k]) > 0 && rapid.IntRange(0, 3).Draw(t, "derive") == 0 {
				base := rapid.SampledFrom(u.vals[k]).Draw(t, "base")
				switch rapid.IntRange(0, 2).Draw(t, "how") {
				case 0:
					v = base + rapid.SampledFrom(bbValAlphabet).Draw(t, "suffix")
				case 1:
					v = rapid.SampledFrom(bbValAlphabet).Draw(t, "prefix") + base
				default:
					if r := []rune(base); len(r) > 1 {
						v = string(r[:len(r)-1])
					}
				}
			}
			if v == "" || seen[v] {
				continue
			}
			seen[v] = true
			u.vals[k] = append(u.vals[k], v)
		}
		if len(u.vals[k]) == 0 {
			u.vals[k] = []string{"v"}
		}
	}
	return u
}

var bbRungNames = []string{"eq", "neq", "regex_literal", "regex_full"}

func bbCase(t *rapid.T, c *ev.Case) {
	pt := "1"
	if n, _ := strconv.Atoi(os.Getenv("VERIF_SHARD")); n%2 == 1 {
		pt = "3"
	}
	srv := bbServer(pt)
	bbCaseCounter++
	cd := bbCaseDesc{Kind: "bb", PT: pt, Prefix: fmt.Sprintf("c%d_", bbCaseCounter)}
	w := newBBWorld(srv, cd.Prefix)
	w.class = c.Class
	if !noExclusions {
		w.excluded = c.Excluded
	}
	c.Class("server_ptnum_" + pt)
	u := genBBUniverse(t)
	if len(u.msts) > 1 {
		c.Class("two_measurements")
		if strings.HasPrefix(u.msts[1], u.msts[0]) || strings.HasPrefix(u.msts[0], u.msts[1]) {
			c.Class("measurement_name_prefix_of_the_other")
		}
	}

	do := func(s bbStep) {
		cd.Steps = append(cd.Steps, s)
		if v := w.step(s); v != "" {
			c.Sample(cd)
			c.Failf(t, prop, cd, "%s", v)
		}
	}

	seen := map[string]bool{}
	nextV := 0
	batch := func(n int, label string) []bbRow {
		var rows []bbRow
		for i := 0; i < n; i++ {
			s := genSeries(t, u)
			k := w.renderedKey(s)
			if seen[k] {
				continue // the unescaped rendering must identify the series
			}
			seen[k] = true
			rows = append(rows, bbRow{S: s, V: nextV})
			nextV++
			if len(s.T) == 0 {
				c.Class("series_without_tags")
			}
			for _, p := range s.T {
				for _, x := range []string{p.K, p.V} {
					for _, r := range x {
						switch {
						case r == ',' || r == '=' || r == ' ':
							c.Class("bytes_protocol_separators")
						case r > 127:
							c.Class("bytes_unicode")
						case r == '\'' || r == '"':
							c.Class("bytes_quotes")
						}
					}
				}
			}
		}
		return rows
	}

	var ntKeys []string
	var sampleQ []string
	pg := &predGen{u: u, c: c}
	phase := func(n int) {
		for i := 0; i < n; i++ {
			pg.rung = rapid.SampledFrom([]int{rungEq, rungNeq, rungNeq, rungReLit, rungReLit, rungReLit, rungReFull, rungReFull, rungReFull, rungReFull}).Draw(t, "rung")
			mst := rapid.SampledFrom(u.msts).Draw(t, "cmst")
			all := w.rows[mst]
			if len(all) == 0 {
				c.Class("skipped_measurement_without_series")
				continue
			}
			mstKeys := map[string]bool{}
			var keyList []string
			for _, k := range u.keys {
				for _, r := range all {
					if _, ok := r.S.tag(k); ok {
						mstKeys[k] = true
						keyList = append(keyList, k)
						break
					}
				}
			}
			var p *pnode
			for try := 0; try < 12 && p == nil; try++ {
				cand := pg.pred(t)
				if !predPrintable(cand) {
					c.Class("redrawn_pred_with_unprintable_bytes")
					continue
				}
				if cls := knownPredDefect(cand); cls != "" {
					c.Excluded(cls)
					continue
				}
				p = cand
			}
			if p == nil {
				c.Class("skipped_no_admissible_pred")
				continue
			}
			// fully anchored exact alternatives ^(a|b)$ / ^[ab]$: the query layer rewrites them to (k = 'a' OR k = 'b') resp.
			// (k != 'a' AND k != 'b') before the index is asked (SelectStatement.RewriteRegexConditions) - a path the
			// library campaigns cannot reach; the shared generator produces the shape rarely
			p.walk(func(n *pnode) {
				if !n.leaf() || (n.Op != "=~" && n.Op != "!~") || rapid.IntRange(0, 5).Draw(t, "exactalt") != 0 {
					return
				}
				pool := u.vals[string(n.K)]
				if len(pool) == 0 {
					pool = realisticVals
				}
				var pat string
				if rapid.IntRange(0, 3).Draw(t, "altclass") == 0 {
					pat = "^[" + rapid.SampledFrom([]string{"ab", "wd", "01", "a-c", "we1"}).Draw(t, "cls") + "]$"
				} else {
					k := rapid.IntRange(2, 3).Draw(t, "nalts")
					alts := make([]string, k)
					for i := range alts {
						alts[i] = regexp.QuoteMeta(rapid.SampledFrom(pool).Draw(t, "alt"))
					}
					pat = "^(" + strings.Join(alts, "|") + ")$"
				}
				if _, err := regexp.Compile(pat); err != nil {
					return
				}
				if cls := knownRegexDefectFor(pat, u.vals[string(n.K)]); cls != "" {
					c.Excluded(cls)
					return
				}
				n.V = bstr(pat)
				c.Class("regex_exact_alternatives_fully_anchored")
			})
			if forceParens(p) {
				c.Excluded("and_or_mixed_without_parentheses(C12-or-before-and)")
			}
			// keys no series of the measurement carries: mostly re-pointed to a key of the measurement (the query layer
			// takes an unknown key for a field), sometimes kept (then only the listing statements are compared)
			if len(keyList) > 0 {
				keep := rapid.IntRange(0, 3).Draw(t, "keepunknown") == 0
				p.walk(func(n *pnode) {
					if n.leaf() && !mstKeys[string(n.K)] && !keep {
						n.K = bstr(rapid.SampledFrom(keyList).Draw(t, "remap"))
						c.Class("pred_unknown_key_repointed")
					}
				})
			}
			// a re-pointed regex leaf now runs over the values of another key: those values join the probe strings
			repointedDefect := ""
			p.walk(func(n *pnode) {
				if n.leaf() && (n.Op == "=~" || n.Op == "!~") && repointedDefect == "" {
					repointedDefect = knownRegexDefectFor(string(n.V), u.vals[string(n.K)])
				}
			})
			if repointedDefect != "" {
				c.Excluded(repointedDefect)
				continue
			}
			chk := &bbCheck{Mst: mst, Pred: p}
			if rapid.IntRange(0, 11).Draw(t, "tvabsent") == 0 {
				chk.Key = bstr(rapid.SampledFrom(absentKeys).Draw(t, "tvak"))
				c.Class("tag_values_of_unknown_key")
			} else {
				chk.Key = bstr(rapid.SampledFrom(u.keys).Draw(t, "tvk"))
			}
			nk := rapid.IntRange(1, len(u.keys)).Draw(t, "tvn")
			for _, k := range pickDistinct(t, u.keys, nk, "tvin") {
				chk.Keys = append(chk.Keys, bstr(k))
			}
			do(bbStep{Op: "check", Check: chk})
			if w.skipped {
				continue
			}
			c.Class("rung_" + bbRungNames[pg.rung])
			if len(sampleQ) < 5 {
				sampleQ = append(sampleQ, fmt.Sprintf("%s where %s -> %d of %d", mst, p.text(), w.lastSel, w.lastN))
			}
			if bbClassify(c, p, w) {
				ntKeys = append(ntKeys, fmt.Sprintf("%s|%s|%d/%d", mst, p.text(), w.lastSel, w.lastN))
			}
		}
	}

	// batch 1
	n1 := rapid.IntRange(8, 60).Draw(t, "n1")
	do(bbStep{Op: "write", Rows: batch(n1, "b1")})
	if rapid.IntRange(0, 2).Draw(t, "flush1") > 0 {
		do(bbStep{Op: "flush"})
		c.Class("flush_after_first_batch")
	}
	do(bbStep{Op: "await"})
	w.phase = "1"
	phase(rapid.IntRange(4, 9).Draw(t, "q1"))
	// batch 2: more series for the same measurements (index: flushed part + fresh part)
	if rapid.IntRange(0, 2).Draw(t, "second") > 0 {
		c.Class("second_batch")
		rows := batch(rapid.IntRange(3, 30).Draw(t, "n2"), "b2")
		if len(rows) > 0 {
			do(bbStep{Op: "write", Rows: rows})
			w.phase = "2_second_batch_not_flushed(tag_filter_cache_up_to_10s_stale)"
			if rapid.IntRange(0, 2).Draw(t, "flush2") == 0 {
				do(bbStep{Op: "flush"})
				c.Class("flush_after_second_batch")
				w.phase = "2_second_batch_flushed"
			}
			do(bbStep{Op: "await"})
			phase(rapid.IntRange(4, 9).Draw(t, "q2"))
		}
	}
	bbTotals.cases++
	bbTotals.queries += w.queries
	if w.lateMaxMs > bbTotals.lateMaxMs {
		bbTotals.lateMaxMs = w.lateMaxMs
	}
	bbNotes()
	c.Sample(map[string]any{"measurements": u.msts, "tag_keys": u.keys, "series": nextV, "some_predicates": sampleQ})
	if len(ntKeys) > 0 {
		var ser []string
		for _, m := range u.msts {
			for _, r := range w.rows[m] {
				ser = append(ser, r.S.M+"|"+seriesTagsKey(r.S))
			}
		}
		c.Nontrivial(map[string]any{"series": ser, "preds": ntKeys})
	}
}

var bbTotals struct {
	cases, queries, preds int
	lateMaxMs             int64
	start                 time.Time
}

func bbNotes() {
	tag := os.Getenv("VERIF_SHARD")
	ev.Note(bbCampaign, "proc"+tag+"_cases_predicates_queries_seconds", []int{bbTotals.cases, bbTotals.preds, bbTotals.queries, int(time.Since(bbTotals.start).Seconds())})
	if bbTotals.lateMaxMs > 0 {
		ev.Note(bbCampaign, "proc"+tag+"_late_read_max_ms", bbTotals.lateMaxMs)
	}
}

// bbClassify counts the shape of an executed predicate; returns whether it is non-trivial by the rule:
// >= 2 different operators (of = != =~ !~ AND OR) or a regex that is neither a literal nor an anchored literal, over
// >= 5 series of the measurement, >= 1 of them lacking a referenced tag, and a strict non-empty subset selected.
func bbClassify(c *ev.Case, p *pnode, w *bbWorld) bool {
	bbTotals.preds++
	ops := map[string]bool{}
	rich := false
	p.walk(func(n *pnode) {
		if n.Paren {
			c.Class("pred_parentheses")
		}
		ops[n.Op] = true
		if !n.leaf() {
			c.Class("pred_" + n.Op)
			return
		}
		c.Class("pred_op_" + n.Op)
		if n.Op == "=~" || n.Op == "!~" {
			cls := regexClass(string(n.V))
			c.Class("regex_" + cls)
			if cls == "full" || cls == "dotstar" {
				rich = true
			}
		} else if n.V == "" {
			c.Class("pred_empty_literal")
		}
	})
	switch p.depth() {
	case 1:
		c.Class("pred_depth_1")
	case 2:
		c.Class("pred_depth_2")
	default:
		c.Class("pred_depth_3")
	}
	switch {
	case w.lastSel == 0:
		c.Class("result_none")
	case w.lastSel == w.lastN:
		c.Class("result_all")
	default:
		c.Class("result_partial")
	}
	if w.lastAbsent {
		c.Class("pred_over_series_lacking_the_tag")
	}
	nt := (len(ops) >= 2 || rich) && w.lastN >= 5 && w.lastAbsent && w.lastSel > 0 && w.lastSel < w.lastN
	if nt {
		c.Class("nontrivial_predicate")
		if !w.showOnly {
			c.Class("nontrivial_predicate_all_read_paths")
		}
	}
	return nt
}

func TestBBTagPredicates(t *testing.T) {
	bbTotals.start = time.Now()
	rapid.Check(t, ev.Prop(prop, bbCampaign, bbCase))
}

// bbReplay re-executes a saved case on a fresh measurement prefix; no exclusion is applied.
var bbReplayCounter int

func bbReplay(raw json.RawMessage) error {
	var cd bbCaseDesc
	if err := json.Unmarshal(raw, &cd); err != nil {
		return ev.InconclusiveError("cannot decode case: " + err.Error())
	}
	if cd.PT == "" {
		cd.PT = "1"
	}
	bbReplayCounter++
	w := newBBWorld(bbServer(cd.PT), fmt.Sprintf("r%d_", bbReplayCounter))
	for i, s := range cd.Steps {
		if v := w.step(s); v != "" {
			return fmt.Errorf("step %d (%s): %s", i, s.Op, v)
		}
	}
	return nil
}
