package c10

// TestClassifierStudy (not part of the campaign table; C10_STUDY=1): measures the regex classifier on the
// patterns the generators produce - share excluded per class and stage, and a cross-check of the probe stage
// against a much larger bounded-exhaustive comparison of the frozen optimiser model with Go's regexp.
//
//	C10_STUDY=1 go test -tags verif -vet=off -count=1 ./props/c10/ -run TestClassifierStudy -rapid.checks=3000 -v

import (
	"fmt"
	"os"
	"regexp"
	"regexp/syntax"
	"sort"
	"testing"
	"unicode/utf8"

	"pgregory.net/rapid"
)

// exhaustiveDiff: compares model and reference on every string over a pattern-derived alphabet up to length 5
// and on every sequence of up to 4 pattern-derived tokens. Returns a differing string and true.
func exhaustiveDiff(pat string, plan *optPlan) (string, bool) {
	re, err := syntax.Parse(pat, syntax.Perl)
	if err != nil {
		return "", false
	}
	ws := witnesses(re, 10)
	chars := map[string]bool{}
	var alpha []string
	addc := func(c string) {
		if c != "" && !chars[c] && len(alpha) < 9 {
			chars[c] = true
			alpha = append(alpha, c)
		}
	}
	for _, j := range []string{"x", "7"} {
		addc(j)
	}
	for _, w := range ws {
		if !utf8.ValidString(w) {
			continue
		}
		for _, r := range w {
			addc(string(r))
		}
	}
	check := func(s string) bool {
		return s != "" && plan.goRe.MatchString(s) != plan.indexMatch(s, true)
	}
	var rec func(cur string, depth int, toks []string, max int) (string, bool)
	rec = func(cur string, depth int, toks []string, max int) (string, bool) {
		if check(cur) {
			return cur, true
		}
		if depth == max {
			return "", false
		}
		for _, t := range toks {
			if s, ok := rec(cur+t, depth+1, toks, max); ok {
				return s, true
			}
		}
		return "", false
	}
	if s, ok := rec("", 0, alpha, 5); ok {
		return s, true
	}
	toks := []string{"x", "7", "-"}
	seen := map[string]bool{"x": true, "7": true, "-": true}
	var lits func(re *syntax.Regexp)
	lits = func(re *syntax.Regexp) {
		if re.Op == syntax.OpLiteral {
			s := string(re.Rune)
			if !seen[s] && len(toks) < 9 {
				seen[s] = true
				toks = append(toks, s)
			}
		}
		if re.Op == syntax.OpCharClass {
			for _, m := range classMembers(re.Rune) {
				if !seen[m] && len(toks) < 9 {
					seen[m] = true
					toks = append(toks, m)
				}
			}
		}
		for _, s := range re.Sub {
			lits(s)
		}
	}
	lits(re)
	for _, w := range ws {
		if !seen[w] && w != "" && len(toks) < 12 {
			seen[w] = true
			toks = append(toks, w)
		}
	}
	return rec("", 0, toks, 4)
}

func TestClassifierStudy(t *testing.T) {
	if os.Getenv("C10_STUDY") == "" {
		t.Skip("C10_STUDY not set")
	}
	total := 0
	distinct := map[string]bool{}
	byClass := map[string]int{}
	byStage := map[string]int{}
	legacyOnlyNoDiff := map[string]int{} // excluded by the legacy stage although model == reference exhaustively
	var legacyOnlyEx []string
	var probeGaps []string // passes all stages but the exhaustive comparison differs: probe set too weak
	var gapsClosed []string
	var legacyProbeMiss []string
	legacyProbeHit := 0
	var planProbeMiss []string
	planProbeHit := 0
	accepted := map[string]int{}
	var acceptedEx []string
	full := os.Getenv("C10_STUDY") != "lit"
	rapid.Check(t, func(t *rapid.T) {
		u := genUniverse(t)
		g := &predGen{u: u, rung: rungReFull}
		for i := 0; i < 8; i++ {
			k := g.key(t)
			var pat string
			if full {
				pat = g.fullRegex(t, k)
			} else {
				pat = g.simpleRegex(t, k)
			}
			if _, err := regexp.Compile(pat); err != nil {
				continue
			}
			total++
			if distinct[pat] {
				continue
			}
			distinct[pat] = true
			v := classifyRegex(pat)
			if v.class != "" {
				byClass[v.class]++
				byStage[v.stage]++
			}
			if v.stage == "bytes" {
				continue
			}
			plan := optimise(pat)
			if plan.broken != "" {
				fmt.Printf("BROKEN %q: %s\n", pat, plan.broken)
				continue
			}
			s, differs := exhaustiveDiff(pat, plan)
			switch {
			case v.class == "" && differs:
				probeGaps = append(probeGaps, fmt.Sprintf("%q differs on %q (prefix %q or %q expr %q matcher %s)", pat, s, plan.prefix, plan.orValues, plan.expr, plan.matcher.kind))
			case v.class == "":
				accepted[regexClass(pat)+"/"+plan.matcher.kind]++
				if len(acceptedEx) < 60 {
					acceptedEx = append(acceptedEx, pat)
				}
			case v.stage == "legacy" && differs:
				if _, kind := optimiserDiffers(plan, probesFor(pat, plan)); kind == "" {
					legacyProbeMiss = append(legacyProbeMiss, fmt.Sprintf("%s %q differs on %q (prefix %q or %q expr %q matcher %s)", v.class, pat, s, plan.prefix, plan.orValues, plan.expr, plan.matcher.kind))
				} else {
					legacyProbeHit++
				}
			case v.stage == "legacy" && !differs:
				if p, kind := optimiserDiffers(plan, probesFor(pat, plan)); kind == "" {
					legacyOnlyNoDiff[v.class]++
					if len(legacyOnlyEx) < 40 {
						legacyOnlyEx = append(legacyOnlyEx, fmt.Sprintf("%s %q (prefix %q or %q expr %q matcher %s)", v.class, pat, plan.prefix, plan.orValues, plan.expr, plan.matcher.kind))
					}
				} else {
					_ = p
				}
			case v.stage == "plan" && differs && legacyRegexDefect(pat) == "":
				// a gap of the first classifier: would the probes alone have seen it?
				if _, kind := optimiserDiffers(plan, probesFor(pat, plan)); kind == "" {
					planProbeMiss = append(planProbeMiss, fmt.Sprintf("%s %q differs on %q", v.class, pat, s))
				} else {
					planProbeHit++
				}
				if len(gapsClosed) < 40 {
					gapsClosed = append(gapsClosed, fmt.Sprintf("%s/%s %q", v.stage, v.class, pat))
				}
			case v.stage == "probe" || v.stage == "plan":
				if legacyRegexDefect(pat) == "" && len(gapsClosed) < 40 {
					gapsClosed = append(gapsClosed, fmt.Sprintf("%s/%s %q probe %q %s", v.stage, v.class, pat, v.probe, v.kind))
				}
			}
		}
	})
	nd := len(distinct)
	fmt.Printf("patterns %d, distinct %d\n", total, nd)
	ex := 0
	var cls []string
	for c, n := range byClass {
		ex += n
		cls = append(cls, fmt.Sprintf("  %-45s %6d  %5.1f%%", c, n, 100*float64(n)/float64(nd)))
	}
	sort.Strings(cls)
	fmt.Printf("excluded %d (%.1f%% of distinct)\n", ex, 100*float64(ex)/float64(nd))
	for _, l := range cls {
		fmt.Println(l)
	}
	fmt.Printf("by stage: %v\n", byStage)
	fmt.Printf("accepted by shape/matcher: %v\n", accepted)
	fmt.Printf("accepted examples: %q\n", acceptedEx)
	fmt.Printf("legacy-stage exclusions with no difference found (over-exclusion): %v\n", legacyOnlyNoDiff)
	for _, l := range legacyOnlyEx {
		fmt.Println("  over:", l)
	}
	fmt.Printf("gaps of the legacy classifier closed by plan/probe stage (examples):\n")
	for _, l := range gapsClosed {
		fmt.Println("  closed:", l)
	}
	fmt.Printf("legacy-stage exclusions that really differ: probes find %d, probes miss %d\n", legacyProbeHit, len(legacyProbeMiss))
	for _, l := range legacyProbeMiss {
		fmt.Println("  PROBE-MISS:", l)
	}
	fmt.Printf("gaps of the first classifier closed by plan rules: probes alone find %d, miss %d\n", planProbeHit, len(planProbeMiss))
	for _, l := range planProbeMiss {
		fmt.Println("  PLAN-ONLY:", l)
	}
	fmt.Printf("PROBE GAPS (accepted but exhaustive comparison differs): %d\n", len(probeGaps))
	for _, l := range probeGaps {
		fmt.Println("  GAP:", l)
	}
	if len(probeGaps) > 0 {
		t.Errorf("%d accepted patterns differ under the exhaustive comparison", len(probeGaps))
	}
}
