package c10

// Reference model: series -> id map, predicate trees, brute-force evaluation.

import (
	"encoding/hex"
	"encoding/json"
	"fmt"
	"regexp"
	"regexp/syntax"
	"sort"
	"strings"
	"unicode/utf8"

	"github.com/openGemini/openGemini/lib/util/lifted/influx/influxql"
	"github.com/openGemini/openGemini/lib/util/lifted/vm/protoparser/influx"
)

// bstr is a byte string that survives JSON also when it is not valid UTF-8.
type bstr string

func (b bstr) MarshalJSON() ([]byte, error) {
	if utf8.ValidString(string(b)) {
		return json.Marshal(string(b))
	}
	return json.Marshal(map[string]string{"hex": hex.EncodeToString([]byte(b))})
}

func (b *bstr) UnmarshalJSON(data []byte) error {
	var s string
	if err := json.Unmarshal(data, &s); err == nil {
		*b = bstr(s)
		return nil
	}
	var m map[string]string
	if err := json.Unmarshal(data, &m); err != nil {
		return err
	}
	raw, err := hex.DecodeString(m["hex"])
	if err != nil {
		return err
	}
	*b = bstr(raw)
	return nil
}

type kv struct{ K, V string }

func (p kv) MarshalJSON() ([]byte, error) { return json.Marshal([2]bstr{bstr(p.K), bstr(p.V)}) }
func (p *kv) UnmarshalJSON(data []byte) error {
	var a [2]bstr
	if err := json.Unmarshal(data, &a); err != nil {
		return err
	}
	p.K, p.V = string(a[0]), string(a[1])
	return nil
}

// series: measurement (without the version suffix the write path appends) and tags sorted by key,
// keys unique, keys and values non-empty (the line-protocol parser drops empty ones), key != "time".
type series struct {
	M string `json:"m"`
	T []kv   `json:"t"`
}

const verSuffix = "_0000"

func (s series) mstVer() string { return s.M + verSuffix }

func (s series) row() influx.Row {
	r := influx.Row{Name: s.mstVer(), Timestamp: 1700000000000000000}
	r.Tags = make(influx.PointTags, len(s.T))
	for i, t := range s.T {
		r.Tags[i].Key, r.Tags[i].Value = t.K, t.V
	}
	sort.Sort(&r.Tags)
	r.UnmarshalIndexKeys(nil)
	r.ShardKey = r.IndexKey
	return r
}

func (s series) key() string { r := s.row(); return string(r.IndexKey) }

// rendered as SearchSeriesKeys renders a series (influx.Parse2SeriesKey without escaping).
func (s series) rendered() string {
	var b strings.Builder
	b.WriteString(s.mstVer())
	for _, t := range s.T {
		b.WriteByte(',')
		b.WriteString(t.K)
		b.WriteByte('=')
		b.WriteString(t.V)
	}
	return b.String()
}

func (s series) tag(k string) (string, bool) {
	for _, t := range s.T {
		if t.K == k {
			return t.V, true
		}
	}
	return "", false
}

func (s series) valid() error {
	if s.M == "" {
		return fmt.Errorf("empty measurement")
	}
	for i, t := range s.T {
		if t.K == "" || t.V == "" || t.K == "time" {
			return fmt.Errorf("tag %d not writable", i)
		}
		if i > 0 && s.T[i-1].K >= t.K {
			return fmt.Errorf("tags not sorted/unique")
		}
	}
	return nil
}

type model struct {
	ids   map[string]uint64 // index key -> id
	keys  map[uint64]string // id -> index key
	all   []series          // insertion order, distinct
	byKey map[string]series
	dirty bool // series added since the last synchronous flush
}

func newModel() *model {
	return &model{ids: map[string]uint64{}, keys: map[uint64]string{}, byKey: map[string]series{}}
}

// record checks one (series,id) observation against the model and adds it. Returns a violation text or "".
func (m *model) record(s series, id uint64) string {
	k := s.key()
	if id == 0 {
		return fmt.Sprintf("series %s got id 0", s.rendered())
	}
	if old, ok := m.ids[k]; ok {
		if old != id {
			return fmt.Sprintf("series %q had id %d, now got id %d (identifier not stable)", s.rendered(), old, id)
		}
		return ""
	}
	if other, ok := m.keys[id]; ok {
		return fmt.Sprintf("new series %q got id %d which already belongs to %q (identifier shared)", s.rendered(), id, m.byKey[other].rendered())
	}
	m.ids[k] = id
	m.keys[id] = k
	m.all = append(m.all, s)
	m.byKey[k] = s
	m.dirty = true
	return ""
}

func (m *model) ofMst(mst string) []series {
	var out []series
	for _, s := range m.all {
		if s.M == mst {
			out = append(out, s)
		}
	}
	return out
}

// ---------------------------------------------------------------- predicates

// pnode is a predicate tree. Leaves: Op in {"=","!=","=~","!~"} with tag key K and literal/regex V.
// Inner nodes: Op in {"AND","OR"}. Paren wraps the node in parentheses when rendered.
type pnode struct {
	Op    string `json:"op"`
	K     bstr   `json:"k,omitempty"`
	V     bstr   `json:"v,omitempty"`
	L     *pnode `json:"l,omitempty"`
	R     *pnode `json:"r,omitempty"`
	Paren bool   `json:"paren,omitempty"`
}

func (p *pnode) leaf() bool { return p.Op != "AND" && p.Op != "OR" }

// text renders the predicate in the query language; string and identifier quoting are the AST's own.
func (p *pnode) text() string {
	var s string
	if p.leaf() {
		ref := (&influxql.VarRef{Val: string(p.K)}).String()
		switch p.Op {
		case "=", "!=":
			s = ref + " " + p.Op + " " + influxql.QuoteString(string(p.V))
		default:
			s = ref + " " + p.Op + " /" + strings.ReplaceAll(string(p.V), "/", `\/`) + "/"
		}
	} else {
		s = p.L.text() + " " + p.Op + " " + p.R.text()
	}
	if p.Paren {
		s = "(" + s + ")"
	}
	return s
}

func (p *pnode) walk(f func(*pnode)) {
	f(p)
	if !p.leaf() {
		p.L.walk(f)
		p.R.walk(f)
	}
}

func (p *pnode) depth() int {
	if p.leaf() {
		return 1
	}
	l, r := p.L.depth(), p.R.depth()
	if r > l {
		l = r
	}
	return l + 1
}

// parseCond runs the text through the real parser and types every variable as a tag (the query layer does
// that from the measurement schema). Returns an error when the text does not parse: the case is then skipped.
func parseCond(text string) (influxql.Expr, error) {
	p := influxql.NewParser(strings.NewReader(text))
	defer p.Release()
	e, err := p.ParseExpr()
	if err != nil {
		return nil, err
	}
	influxql.WalkFunc(e, func(n influxql.Node) {
		if ref, ok := n.(*influxql.VarRef); ok {
			ref.Type = influxql.Tag
		}
	})
	return e, nil
}

// evalExpr evaluates the PARSED condition on one series: absent tag == "", regex = Go regexp, unanchored.
func evalExpr(e influxql.Expr, s series) (bool, error) {
	switch n := e.(type) {
	case *influxql.ParenExpr:
		return evalExpr(n.Expr, s)
	case *influxql.BinaryExpr:
		switch n.Op {
		case influxql.AND, influxql.OR:
			l, err := evalExpr(n.LHS, s)
			if err != nil {
				return false, err
			}
			r, err := evalExpr(n.RHS, s)
			if err != nil {
				return false, err
			}
			if n.Op == influxql.AND {
				return l && r, nil
			}
			return l || r, nil
		}
		ref, ok := n.LHS.(*influxql.VarRef)
		if !ok {
			return false, fmt.Errorf("lhs %T", n.LHS)
		}
		val, _ := s.tag(ref.Val)
		switch rhs := n.RHS.(type) {
		case *influxql.StringLiteral:
			switch n.Op {
			case influxql.EQ:
				return val == rhs.Val, nil
			case influxql.NEQ:
				return val != rhs.Val, nil
			}
		case *influxql.RegexLiteral:
			switch n.Op {
			case influxql.EQREGEX:
				return rhs.Val.MatchString(val), nil
			case influxql.NEQREGEX:
				return !rhs.Val.MatchString(val), nil
			}
		}
		return false, fmt.Errorf("unsupported leaf %s", n.String())
	}
	return false, fmt.Errorf("unsupported node %T", e)
}

// sameShape checks that the parser gave back the tree that was rendered (same leaves in order with the same
// key, operator and literal). A difference is a printing/parsing matter (property C12), not an index matter:
// such a predicate is skipped here.
func sameShape(p *pnode, e influxql.Expr) bool {
	var want []string
	p.walk(func(n *pnode) {
		if n.leaf() {
			want = append(want, string(n.K)+"\x00"+n.Op+"\x00"+string(n.V))
		}
	})
	var got []string
	var rec func(e influxql.Expr) bool
	rec = func(e influxql.Expr) bool {
		switch n := e.(type) {
		case *influxql.ParenExpr:
			return rec(n.Expr)
		case *influxql.BinaryExpr:
			if n.Op == influxql.AND || n.Op == influxql.OR {
				return rec(n.LHS) && rec(n.RHS)
			}
			ref, ok := n.LHS.(*influxql.VarRef)
			if !ok {
				return false
			}
			switch rhs := n.RHS.(type) {
			case *influxql.StringLiteral:
				got = append(got, ref.Val+"\x00"+n.Op.String()+"\x00"+rhs.Val)
			case *influxql.RegexLiteral:
				got = append(got, ref.Val+"\x00"+n.Op.String()+"\x00"+rhs.Val.String())
			default:
				return false
			}
			return true
		}
		return false
	}
	if !rec(e) || len(got) != len(want) {
		return false
	}
	for i := range got {
		if got[i] != want[i] {
			return false
		}
	}
	return true
}

// ---------------------------------------------------------------- regex classes

// regex classes, from the syntax tree of the pattern:
//
//	literal      plain text, no operators                  /web/      (contains)
//	anchored     ^text$, ^text, text$                       /^web$/
//	dotstar      only text and .* / .+ pieces, maybe ^ $    /web.*1/
//	full         anything else (classes, alternation, ?, repetition, groups)
func regexClass(pat string) string {
	re, err := syntax.Parse(pat, syntax.Perl)
	if err != nil {
		return "invalid"
	}
	re = re.Simplify()
	if re.Op == syntax.OpLiteral && re.Flags&syntax.FoldCase == 0 {
		return "literal"
	}
	if re.Op == syntax.OpEmptyMatch {
		return "literal"
	}
	subs := []*syntax.Regexp{re}
	if re.Op == syntax.OpConcat {
		subs = re.Sub
	}
	anch, lit, dot := 0, 0, 0
	for _, s := range subs {
		switch {
		case s.Op == syntax.OpBeginText || s.Op == syntax.OpEndText:
			anch++
		case s.Op == syntax.OpLiteral && s.Flags&syntax.FoldCase == 0:
			lit++
		case (s.Op == syntax.OpStar || s.Op == syntax.OpPlus) && (s.Sub[0].Op == syntax.OpAnyCharNotNL || s.Sub[0].Op == syntax.OpAnyChar):
			dot++
		default:
			return "full"
		}
	}
	if dot > 0 {
		return "dotstar"
	}
	if anch > 0 && lit <= 1 {
		return "anchored"
	}
	return "full"
}

func regexpQuote(s string) string { return regexp.QuoteMeta(s) }

func mustRegexp(pat string) *regexp.Regexp {
	re, err := regexp.Compile(pat)
	if err != nil {
		return nil
	}
	return re
}
