package c10

// Operations of the state machine, their execution against the index and the oracle checks.
// The same apply() serves the rapid campaigns and TestReplay.

import (
	"fmt"
	"sort"
	"strings"
)

type op struct {
	Op      string   `json:"op"` // insert | flush | clear | reopen | lookup | search | list
	Series  []series `json:"series,omitempty"`
	Restart bool     `json:"restart,omitempty"`
	NoFlush bool     `json:"noflush,omitempty"` // clear: do not flush pending raw items first
	Mst     string   `json:"mst,omitempty"`     // measurement without version suffix
	Pred    *pnode   `json:"pred,omitempty"`
	Keys    []bstr   `json:"keys,omitempty"` // tag keys for tag-value listings
}

type caseDesc struct {
	Kind string `json:"kind"`
	Cfg  sutCfg `json:"cfg"`
	Ops  []op   `json:"ops"`
}

type runner struct {
	s *sut
	m *model
	// set by apply for the statistics of the caller
	lastSkipped string
	// a cache clear happened while raw items were not yet flushed: lookups may miss them until the next flush
	clearedUnflushed bool
	lastWant         int
	lastAbsent       bool
}

func newRunner(cfg sutCfg) (*runner, error) {
	s, err := newSut(cfg)
	if err != nil {
		return nil, err
	}
	return &runner{s: s, m: newModel()}, nil
}

func (r *runner) close() { r.s.destroy() }

func (r *runner) ensureVisible() {
	if r.m.dirty {
		r.s.flush()
		r.m.dirty = false
		r.clearedUnflushed = false
	}
}

// apply executes one operation and returns a violation description ("" = property held).
func (r *runner) apply(o op) string {
	r.lastSkipped = ""
	switch o.Op {
	case "insert":
		for _, sr := range o.Series {
			if err := sr.valid(); err != nil {
				r.lastSkipped = "invalid_series"
				return ""
			}
		}
		ids, err := r.s.insert(o.Series)
		if err != nil {
			return "insert failed: " + err.Error()
		}
		for i, sr := range o.Series {
			if v := r.m.record(sr, ids[i]); v != "" {
				return "insert: " + v
			}
		}
	case "flush":
		r.s.flush()
		r.m.dirty = false
		r.clearedUnflushed = false
	case "clear":
		if !o.NoFlush {
			r.ensureVisible()
		} else if r.m.dirty {
			r.clearedUnflushed = true
		}
		if err := r.s.clearCache(); err != nil {
			return "ClearCache failed: " + err.Error()
		}
	case "reopen":
		if err := r.s.reopen(o.Restart); err != nil {
			return "reopen failed: " + err.Error()
		}
		r.m.dirty = false // Close flushes
		r.clearedUnflushed = false
	case "lookup":
		for _, sr := range o.Series {
			if err := sr.valid(); err != nil {
				r.lastSkipped = "invalid_series"
				return ""
			}
			id, err := r.s.lookup(sr)
			if err != nil {
				return "GetSeriesIdBySeriesKey failed: " + err.Error()
			}
			want, known := r.m.ids[sr.key()]
			if known && id != want {
				if id == 0 && r.clearedUnflushed {
					// not yet flushed and not cached: visibility delay, not judged
					continue
				}
				return fmt.Sprintf("lookup of %q: got id %d, want %d", sr.rendered(), id, want)
			}
			if !known && id != 0 {
				return fmt.Sprintf("lookup of never written series %q: got id %d, want 0 (belongs to %q)", sr.rendered(), id, r.m.byKey[r.m.keys[id]].rendered())
			}
		}
	case "search":
		r.ensureVisible()
		return r.search(o)
	case "list":
		r.ensureVisible()
		return r.list(o)
	default:
		r.lastSkipped = "unknown_op"
	}
	return ""
}

func fmtIDs(ids []uint64) string {
	parts := make([]string, len(ids))
	for i, id := range ids {
		parts[i] = fmt.Sprintf("%x", id)
	}
	return "[" + strings.Join(parts, " ") + "]"
}

func (r *runner) describe(ids []uint64) string {
	var parts []string
	for _, id := range ids {
		if k, ok := r.m.keys[id]; ok {
			parts = append(parts, fmt.Sprintf("%q", r.m.byKey[k].rendered()))
		} else {
			parts = append(parts, fmt.Sprintf("unknown-id-%x", id))
		}
	}
	return "[" + strings.Join(parts, " ") + "]"
}

func diffIDs(got, want []uint64) (extra, missing []uint64) {
	g := map[uint64]int{}
	for _, id := range got {
		g[id]++
	}
	w := map[uint64]bool{}
	for _, id := range want {
		w[id] = true
		if g[id] == 0 {
			missing = append(missing, id)
		}
	}
	for _, id := range got {
		if !w[id] || g[id] > 1 {
			extra = append(extra, id)
			g[id] = 1
		}
	}
	return
}

func (r *runner) search(o op) string {
	if o.Pred == nil {
		r.lastSkipped = "no_pred"
		return ""
	}
	text := o.Pred.text()
	cond, err := parseCond(text)
	if err != nil || !sameShape(o.Pred, cond) {
		r.lastSkipped = "pred_not_roundtripped"
		return ""
	}
	mstVer := o.Mst + verSuffix
	var want []series
	var wantIDs []uint64
	r.lastAbsent = false
	all := r.m.ofMst(o.Mst)
	var keys []string
	o.Pred.walk(func(n *pnode) {
		if n.leaf() {
			keys = append(keys, string(n.K))
		}
	})
	for _, sr := range all {
		ok, err := evalExpr(cond, sr)
		if err != nil {
			r.lastSkipped = "pred_not_evaluable"
			return ""
		}
		if ok {
			want = append(want, sr)
			wantIDs = append(wantIDs, r.m.ids[sr.key()])
		}
		for _, k := range keys {
			if _, has := sr.tag(k); !has {
				r.lastAbsent = true
			}
		}
	}
	r.lastWant = len(want)
	sort.Slice(wantIDs, func(i, j int) bool { return wantIDs[i] < wantIDs[j] })
	where := fmt.Sprintf("measurement %q where %s", o.Mst, text)

	// 1. id search (show series / cardinality path)
	got, err := r.s.searchIDs(mstVer, cond)
	if err != nil {
		return fmt.Sprintf("SearchSeriesByTableAndCond %s failed: %v", where, err)
	}
	if extra, missing := diffIDs(got, wantIDs); len(extra)+len(missing) > 0 {
		return fmt.Sprintf("SearchSeriesByTableAndCond %s: wrongly selected %s, not selected %s (of %d series, %d expected)",
			where, r.describe(extra), r.describe(missing), len(all), len(want))
	}
	// 2. series keys listing
	cond2, _ := parseCond(text)
	gotKeys, err := r.s.searchKeys(mstVer, cond2)
	if err != nil {
		return fmt.Sprintf("SearchSeriesKeys %s failed: %v", where, err)
	}
	wantKeys := make([]string, len(want))
	for i, sr := range want {
		wantKeys[i] = sr.rendered()
	}
	sort.Strings(wantKeys)
	if !equalStrings(gotKeys, wantKeys) {
		return fmt.Sprintf("SearchSeriesKeys %s: got %q, want %q", where, gotKeys, wantKeys)
	}
	// 3. query path, executed three times: the first execution of a conjunction fills the tag-filter cost cache, later ones may
	// take the cost-based "prune" path (per-series evaluation of the remaining filters) instead of the index scan
	for rep := 0; rep < 3; rep++ {
		cond3, _ := parseCond(text)
		items, err := r.s.scan(mstVer, cond3)
		if err != nil {
			return fmt.Sprintf("IndexBuilder.Scan %s (execution %d) failed: %v", where, rep+1, err)
		}
		gotScan := make([]uint64, len(items))
		for i, it := range items {
			gotScan[i] = it.id
		}
		if extra, missing := diffIDs(gotScan, wantIDs); len(extra)+len(missing) > 0 {
			return fmt.Sprintf("IndexBuilder.Scan %s (execution %d): wrongly selected %s, not selected %s (of %d series, %d expected)",
				where, rep+1, r.describe(extra), r.describe(missing), len(all), len(want))
		}
		for _, it := range items {
			sr := r.m.byKey[r.m.keys[it.id]]
			if !equalTags(it.tags, sr.T) {
				return fmt.Sprintf("IndexBuilder.Scan %s: id %x reported with tags %q, written as %q", where, it.id, it.tags, sr.T)
			}
		}
	}
	// 4. cardinality
	cond4, _ := parseCond(text)
	n, err := r.s.cardinality(mstVer, cond4)
	if err != nil {
		return fmt.Sprintf("SeriesCardinality %s failed: %v", where, err)
	}
	if n != uint64(len(want)) {
		return fmt.Sprintf("SeriesCardinality %s: got %d, want %d", where, n, len(want))
	}
	// 5. tag values restricted by the condition
	if len(o.Keys) > 0 {
		if v := r.checkTagValues(mstVer, o.Keys, text, want, where); v != "" {
			return v
		}
	}
	return ""
}

// checkTagValues: condText == "" means no condition.
func (r *runner) checkTagValues(mstVer string, keys []bstr, condText string, among []series, where string) string {
	ks := make([]string, len(keys))
	for i, k := range keys {
		ks[i] = string(k)
	}
	var got [][]string
	var err error
	if condText == "" {
		got, err = r.s.tagValues(mstVer, ks, nil)
	} else {
		c, perr := parseCond(condText)
		if perr != nil {
			return ""
		}
		got, err = r.s.tagValues(mstVer, ks, c)
	}
	if err != nil {
		return fmt.Sprintf("SearchTagValues %v %s failed: %v", ks, where, err)
	}
	for i, k := range ks {
		set := map[string]bool{}
		for _, sr := range among {
			if v, ok := sr.tag(k); ok {
				set[v] = true
			}
		}
		want := make([]string, 0, len(set))
		for v := range set {
			want = append(want, v)
		}
		sort.Strings(want)
		var g []string
		if i < len(got) {
			g = got[i]
		}
		if !equalStrings(g, want) {
			return fmt.Sprintf("SearchTagValues key %q %s: got %q, want %q", k, where, g, want)
		}
	}
	return ""
}

func (r *runner) list(o op) string {
	mstVer := o.Mst + verSuffix
	all := r.m.ofMst(o.Mst)
	r.lastWant = len(all)
	where := fmt.Sprintf("measurement %q (no condition)", o.Mst)
	gotKeys, err := r.s.searchKeys(mstVer, nil)
	if err != nil {
		return fmt.Sprintf("SearchSeriesKeys %s failed: %v", where, err)
	}
	wantKeys := make([]string, len(all))
	wantIDs := make([]uint64, len(all))
	for i, sr := range all {
		wantKeys[i] = sr.rendered()
		wantIDs[i] = r.m.ids[sr.key()]
	}
	sort.Strings(wantKeys)
	if !equalStrings(gotKeys, wantKeys) {
		return fmt.Sprintf("SearchSeriesKeys %s: got %q, want %q", where, gotKeys, wantKeys)
	}
	got, err := r.s.searchIDs(mstVer, nil)
	if err != nil {
		return fmt.Sprintf("SearchSeriesByTableAndCond %s failed: %v", where, err)
	}
	if extra, missing := diffIDs(got, wantIDs); len(extra)+len(missing) > 0 {
		return fmt.Sprintf("SearchSeriesByTableAndCond %s: extra %s, missing %s", where, r.describe(extra), r.describe(missing))
	}
	items, err := r.s.scan(mstVer, nil)
	if err != nil {
		return fmt.Sprintf("IndexBuilder.Scan %s failed: %v", where, err)
	}
	gotScan := make([]uint64, len(items))
	for i, it := range items {
		gotScan[i] = it.id
	}
	if extra, missing := diffIDs(gotScan, wantIDs); len(extra)+len(missing) > 0 {
		return fmt.Sprintf("IndexBuilder.Scan %s: extra %s, missing %s", where, r.describe(extra), r.describe(missing))
	}
	for _, it := range items {
		sr := r.m.byKey[r.m.keys[it.id]]
		if !equalTags(it.tags, sr.T) {
			return fmt.Sprintf("IndexBuilder.Scan %s: id %x reported with tags %q, written as %q", where, it.id, it.tags, sr.T)
		}
	}
	n, err := r.s.cardinality(mstVer, nil)
	if err != nil {
		return fmt.Sprintf("SeriesCardinality %s failed: %v", where, err)
	}
	if n != uint64(len(all)) {
		return fmt.Sprintf("SeriesCardinality %s: got %d, want %d", where, n, len(all))
	}
	if len(o.Keys) > 0 {
		if v := r.checkTagValues(mstVer, o.Keys, "", all, where); v != "" {
			return v
		}
		for _, k := range o.Keys {
			set := map[string]bool{}
			for _, sr := range all {
				if v, ok := sr.tag(string(k)); ok {
					set[v] = true
				}
			}
			c, err := r.s.tagValuesCardinality(mstVer, string(k))
			if err != nil {
				return fmt.Sprintf("SearchTagValuesCardinality %q %s failed: %v", k, where, err)
			}
			if c != uint64(len(set)) {
				return fmt.Sprintf("SearchTagValuesCardinality %q %s: got %d, want %d", k, where, c, len(set))
			}
		}
	}
	return ""
}

func equalStrings(a, b []string) bool {
	if len(a) != len(b) {
		return false
	}
	for i := range a {
		if a[i] != b[i] {
			return false
		}
	}
	return true
}

func equalTags(a, b []kv) bool {
	if len(a) != len(b) {
		return false
	}
	for i := range a {
		if a[i] != b[i] {
			return false
		}
	}
	return true
}

// runCase executes a whole recorded case (replay). Returns the first violation.
func runCase(cd caseDesc) (string, error) {
	r, err := newRunner(cd.Cfg)
	if err != nil {
		return "", err
	}
	defer r.close()
	for i, o := range cd.Ops {
		if v := r.apply(o); v != "" {
			return fmt.Sprintf("op %d (%s): %s", i, o.Op, v), nil
		}
	}
	return "", nil
}
