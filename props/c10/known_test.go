package c10

// Known-finding classes of regular-expression tag filters, one class per root cause found on the pinned tree.
// The main generators leave these classes out by construction (counted in `excluded_by_construction`); every
// class has a minimal replay under replays/C10/. Everything outside these classes stays fully searched.
//
// The decision which pattern belongs to a class is taken in classify_test.go (knownRegexDefect) from a frozen
// model of the index's regex optimiser (optmodel_test.go) plus a differential run over probe strings
// (probe_test.go). This file holds the first, purely syntactic classifier (legacyRegexDefect), kept as an
// additional conservative stage, its helpers, and the predicate-level class (knownPredDefect).

import (
	"os"
	"regexp"
	"regexp/syntax"
	"strings"
	"unicode"
)

// C10_NO_EXCLUSIONS=1 switches every known-finding exclusion off (used to validate a candidate fix: the full
// generators must then pass).
var noExclusions = os.Getenv("C10_NO_EXCLUSIONS") != ""

func stripCapture(re *syntax.Regexp) *syntax.Regexp {
	for re.Op == syntax.OpCapture {
		re = re.Sub[0]
	}
	return re
}

func isPlainLiteral(re *syntax.Regexp) bool {
	re = stripCapture(re)
	if re.Op != syntax.OpLiteral {
		return false
	}
	if re.Flags&syntax.FoldCase == 0 {
		return true
	}
	// text without letters under (?i) ("(?i)[11]", "(?i)-1"): case folding changes nothing, the index takes it as plain text too
	for _, r := range re.Rune {
		if unicode.SimpleFold(r) != r {
			return false
		}
	}
	return true
}

func isAnchorOp(op syntax.Op) bool {
	switch op {
	case syntax.OpBeginText, syntax.OpEndText, syntax.OpBeginLine, syntax.OpEndLine, syntax.OpWordBoundary, syntax.OpNoWordBoundary:
		return true
	}
	return false
}

func countAnchors(re *syntax.Regexp) int {
	n := 0
	if isAnchorOp(re.Op) {
		n++
	}
	for _, s := range re.Sub {
		n += countAnchors(s)
	}
	return n
}

// alternatives: number of literal strings the expression expands to (alternations, small character classes,
// concatenations of these), 0 if it is not such an expression or expands to more than 20.
func alternatives(re *syntax.Regexp) int {
	re = stripCapture(re)
	switch re.Op {
	case syntax.OpLiteral:
		if re.Flags&syntax.FoldCase != 0 {
			return 0
		}
		return 1
	case syntax.OpEmptyMatch:
		return 1
	case syntax.OpCharClass:
		n := 0
		for i := 0; i+1 < len(re.Rune); i += 2 {
			n += int(re.Rune[i+1]-re.Rune[i]) + 1
			if n > 20 {
				return 0
			}
		}
		return n
	case syntax.OpAlternate:
		n := 0
		for _, s := range re.Sub {
			a := alternatives(s)
			if a == 0 {
				return 0
			}
			n += a
		}
		if n > 20 {
			return 0
		}
		return n
	case syntax.OpConcat:
		n := 1
		for _, s := range re.Sub {
			a := alternatives(s)
			if a == 0 {
				return 0
			}
			n *= a
			if n > 20 {
				return 0
			}
		}
		return n
	}
	return 0
}

func isDotRepeat(re *syntax.Regexp) bool {
	re = stripCapture(re)
	if re.Op != syntax.OpStar && re.Op != syntax.OpPlus {
		return false
	}
	s := stripCapture(re.Sub[0])
	return s.Op == syntax.OpAnyChar || s.Op == syntax.OpAnyCharNotNL
}

// normalise: Simplify (x{1,2} -> xx?) and re-parse until stable so that nested concatenations are flattened,
// which is the form the index inspects (engine/index/tsi/tag_filters.go simplifyRegexp).
func normalise(pat string) *syntax.Regexp {
	re, err := syntax.Parse(pat, syntax.Perl)
	if err != nil {
		return nil
	}
	s := ""
	for i := 0; i < 8; i++ {
		uncapture(re)
		re = re.Simplify()
		n := re.String()
		if n == s {
			break
		}
		s = n
		re2, err := syntax.Parse(n, syntax.Perl)
		if err != nil {
			break
		}
		re = re2
	}
	return re
}

// uncapture turns capturing groups into non-capturing ones (printing and re-parsing then flattens them)
func uncapture(re *syntax.Regexp) {
	if re.Op == syntax.OpCapture {
		re.Op = syntax.OpAlternate
	}
	for _, s := range re.Sub {
		uncapture(s)
	}
}

// innerConcatEndsInLiteral: some concatenation below the top level ends in plain text, e.g. (a.b|c)d, (ab.c)+
func innerConcatEndsInLiteral(re *syntax.Regexp, top bool) bool {
	if re.Op == syntax.OpConcat && !top && len(re.Sub) > 0 {
		last := re.Sub[len(re.Sub)-1]
		if last.Op == syntax.OpLiteral {
			return true
		}
	}
	for _, s := range re.Sub {
		if innerConcatEndsInLiteral(s, false) {
			return true
		}
	}
	return false
}

func hasFoldCase(re *syntax.Regexp) bool {
	if re.Op == syntax.OpLiteral && re.Flags&syntax.FoldCase != 0 {
		return true
	}
	for _, s := range re.Sub {
		if hasFoldCase(s) {
			return true
		}
	}
	return false
}

// legacyRegexDefect: the first, symptom-derived classifier (kept as an additional structural stage and as the
// source of the class names where it applies). The anchors are judged on the pattern as written (a group hides what follows an anchor from the index's
// first simplification pass); the literal-prefix and alternatives rules on the flattened form.
func legacyRegexDefect(pat string) string {
	if strings.ContainsAny(pat, "\x00\x01\x02") {
		// literal text is compared with the escaped form of stored values
		return "regex_containing_bytes_0_1_2"
	}
	compiled, err := regexp.Compile(pat)
	if err != nil {
		return ""
	}
	raw, err := syntax.Parse(pat, syntax.Perl)
	if err != nil {
		return ""
	}
	rsubs := []*syntax.Regexp{raw}
	if raw.Op == syntax.OpConcat {
		rsubs = raw.Sub
	}
	startA := rsubs[0].Op == syntax.OpBeginText
	endA := rsubs[len(rsubs)-1].Op == syntax.OpEndText
	rbody := rsubs
	edge := 0
	if startA {
		rbody = rbody[1:]
		edge++
	}
	if endA && len(rbody) > 0 {
		rbody = rbody[:len(rbody)-1]
		edge++
	}
	if countAnchors(raw) > edge {
		// ^ or $ inside a group/alternation, \b, repeated anchors: anchors are dropped piecewise
		return "regex_anchor_not_at_pattern_ends"
	}
	if edge > 0 && compiled.MatchString("") {
		// a filter whose expression matches "" is taken to match every series
		return "regex_anchored_matching_empty"
	}
	if len(rbody) == 0 {
		return ""
	}
	norm := normalise(pat)
	if norm == nil {
		return ""
	}
	if innerConcatEndsInLiteral(raw, true) || innerConcatEndsInLiteral(norm, true) {
		// ".*" is appended to every concatenation that ends in plain text, also inside groups: (a.b|c)d
		return "regex_group_branch_ending_in_literal"
	}
	if startA && endA {
		if len(rbody) == 1 {
			e := stripCapture(rbody[0])
			switch e.Op {
			case syntax.OpLiteral:
				if e.Flags&syntax.FoldCase == 0 {
					return "regex_fully_anchored_literal" // ^text$ is evaluated as "contains text"
				}
			case syntax.OpCharClass:
				if alternatives(e) > 0 {
					return "" // ^[ab]$
				}
			case syntax.OpAlternate:
				ok := true
				for _, s := range e.Sub {
					if !(s.Op == syntax.OpLiteral && s.Flags&syntax.FoldCase == 0) && !(s.Op == syntax.OpCharClass && alternatives(s) > 0) {
						ok = false
					}
				}
				if ok && alternatives(e) > 0 {
					return "" // ^(web|db)$ : exact alternatives, handled correctly
				}
			}
		}
		return "regex_fully_anchored_general" // both anchors are dropped
	}
	if startA {
		first := rbody[0]
		if first.Op == syntax.OpLiteral && first.Flags&syntax.FoldCase == 0 {
			if len(rbody) == 1 || isDotRepeat(rbody[1]) {
				return "" // ^text, ^text.*...
			}
			return "regex_anchored_prefix_then_general" // ^web-[0-9], ^web-.?1: the rest is not tied to the prefix
		}
		if isDotRepeat(first) && first.Op != syntax.OpCapture {
			return ""
		}
		return "regex_begin_anchor_before_non_literal" // ^.eb, ^[wd], ^(web): the anchor is dropped
	}
	// no leading anchor: flattened form decides
	top := norm
	subs := []*syntax.Regexp{top}
	if top.Op == syntax.OpConcat {
		subs = top.Sub
	}
	body := subs
	if endA && len(body) > 1 && body[len(body)-1].Op == syntax.OpEndText {
		body = body[:len(body)-1]
	}
	allLiteral := true
	bodyAlts := 1
	for _, s := range body {
		if !isPlainLiteral(s) {
			allLiteral = false
		}
		a := alternatives(s)
		if bodyAlts > 0 {
			bodyAlts *= a
			if bodyAlts > 20 {
				bodyAlts = 0
			}
		}
	}
	if allLiteral {
		if hasFoldCase(raw) {
			// (?i)-1 : text without letters under the case-insensitive flag is taken as an exact value
			return "regex_case_insensitive_caseless_text"
		}
		return "" // text, text$
	}
	if endA {
		return ""
	}
	if isPlainLiteral(body[0]) {
		return "regex_literal_prefix_unanchored" // web.*1, web-[0-9]: only values STARTING with web are found
	}
	if bodyAlts > 0 && body[len(body)-1].Op != syntax.OpLiteral {
		// [wd], web|db, (web|db)-[0-9]: expanded to exact values although the pattern is not anchored on both sides
		return "regex_alternatives_not_fully_anchored"
	}
	return ""
}

// knownPredDefect names the known-finding class of a whole predicate tree ("" = none).
func knownPredDefect(p *pnode) string {
	if noExclusions {
		return ""
	}
	hasAnd, negAll := false, false
	p.walk(func(n *pnode) {
		if n.Op == "AND" {
			hasAnd = true
		}
		if n.Op == "!~" {
			if re := mustRegexp(string(n.V)); re != nil && re.MatchString("") {
				negAll = true
			}
		}
	})
	if hasAnd && negAll {
		// `k !~ /.*/` selects nothing, but the id search treats "nothing" as "no constraint" under AND
		return "not_match_of_match_all_regex_under_and"
	}
	return ""
}
