package c10

// Probe strings for one pattern: witnesses generated from the pattern's own syntax tree (strings the pattern is
// built to match), each surrounded by junk, cut, and mutated at every position, plus a fixed pool of the values
// the generators use. On these the frozen optimiser model (optmodel_test.go) is compared with Go's regexp.

import (
	"regexp/syntax"
	"unicode"
	"unicode/utf8"
)

const maxWitnesses = 14

var probeJunk = []string{"x", "7", "-", "é", "\xff"}

func capStrings(a []string, n int) []string {
	if len(a) > n {
		return a[:n]
	}
	return a
}

func dedup(a []string) []string {
	seen := map[string]bool{}
	out := a[:0:0]
	for _, s := range a {
		if !seen[s] {
			seen[s] = true
			out = append(out, s)
		}
	}
	return out
}

// classMembers: a few members of a character class (first, last, a middle one), preferring printable ASCII
func classMembers(runes []rune) []string {
	var out []string
	in := func(r rune) bool {
		for i := 0; i+1 < len(runes); i += 2 {
			if runes[i] <= r && r <= runes[i+1] {
				return true
			}
		}
		return false
	}
	n := 0
	for i := 0; i+1 < len(runes); i += 2 {
		n += int(runes[i+1]-runes[i]) + 1
		if n > 64 {
			break
		}
	}
	if n <= 6 {
		for i := 0; i+1 < len(runes); i += 2 {
			for r := runes[i]; r <= runes[i+1]; r++ {
				if r != '\n' { // a tag value never holds a newline (the generators have none, the line protocol cannot carry one)
					out = append(out, string(r))
				}
			}
		}
		return out
	}
	for _, r := range []rune{'a', 'w', '1', 'x', '7', '-', 'b', 'e', 'd', '0', ' ', 'é', 'Z', '.', '_'} {
		if in(r) {
			out = append(out, string(r))
			if len(out) >= 3 {
				return out
			}
		}
	}
	if len(out) == 0 && len(runes) >= 2 {
		out = append(out, string(runes[0]))
	}
	return out
}

// witnesses: strings derived from the syntax tree that the node is meant to match (anchors and boundaries are ignored)
func witnesses(re *syntax.Regexp, k int) []string {
	switch re.Op {
	case syntax.OpNoMatch:
		return nil
	case syntax.OpEmptyMatch, syntax.OpBeginLine, syntax.OpEndLine, syntax.OpBeginText, syntax.OpEndText, syntax.OpWordBoundary, syntax.OpNoWordBoundary:
		return []string{""}
	case syntax.OpLiteral:
		s := string(re.Rune)
		if re.Flags&syntax.FoldCase != 0 {
			up := []rune(s)
			changed := false
			for i, r := range up {
				if f := unicode.SimpleFold(r); f != r {
					up[i] = f
					changed = true
				}
			}
			if changed {
				return []string{s, string(up)}
			}
		}
		return []string{s}
	case syntax.OpCharClass:
		return classMembers(re.Rune)
	case syntax.OpAnyCharNotNL, syntax.OpAnyChar:
		return []string{"x", "-"}
	case syntax.OpCapture:
		return witnesses(re.Sub[0], k)
	case syntax.OpStar, syntax.OpQuest, syntax.OpPlus, syntax.OpRepeat:
		sub := witnesses(re.Sub[0], k)
		var out []string
		if re.Op == syntax.OpStar || re.Op == syntax.OpQuest || (re.Op == syntax.OpRepeat && re.Min == 0) {
			out = append(out, "")
		}
		out = append(out, sub...)
		if re.Op != syntax.OpQuest && len(sub) > 0 {
			out = append(out, sub[0]+sub[len(sub)-1])
			if re.Op == syntax.OpRepeat && re.Min > 1 {
				s := ""
				for i := 0; i < re.Min && i < 4; i++ {
					s += sub[0]
				}
				out = append(out, s)
			}
		}
		return capStrings(dedup(out), k)
	case syntax.OpAlternate:
		var out []string
		per := k/len(re.Sub) + 1
		for _, s := range re.Sub {
			out = append(out, capStrings(witnesses(s, k), per)...)
		}
		return capStrings(dedup(out), k+2)
	case syntax.OpConcat:
		parts := make([][]string, len(re.Sub))
		for i, s := range re.Sub {
			parts[i] = witnesses(s, k)
			if len(parts[i]) == 0 {
				return nil
			}
		}
		// first choice everywhere, then one position varied at a time, then last choice everywhere
		var out []string
		build := func(pick func(i int) int) {
			s := ""
			for i := range parts {
				s += parts[i][pick(i)%len(parts[i])]
			}
			out = append(out, s)
		}
		build(func(int) int { return 0 })
		for v := range parts {
			for c := 1; c < len(parts[v]) && len(out) < 3*k; c++ {
				build(func(i int) int {
					if i == v {
						return c
					}
					return 0
				})
			}
		}
		build(func(i int) int { return len(parts[i]) - 1 })
		build(func(i int) int { return 1 })
		return capStrings(dedup(out), k)
	}
	return nil
}

var fixedProbePool = func() []string {
	out := append([]string(nil), realisticVals...)
	for _, s := range valAlphabet {
		if s != "\x00" && s != "\x01" && s != "\x02" {
			out = append(out, s)
		}
	}
	out = append(out, "\xff", "a\xfe", "é\xff", "v", "007", "web-1x", "xx", "Web-1", "WEB", "A")
	return out
}()

// probesFor: the probe strings of one pattern (non-empty strings only: a stored tag value is never empty)
func probesFor(pat string, plan *optPlan) []string {
	re, err := syntax.Parse(pat, syntax.Perl)
	if err != nil {
		return nil
	}
	ws := witnesses(re, maxWitnesses)
	ws = append(ws, string(plan.prefix))
	for i, v := range plan.orValues {
		if i < 4 {
			ws = append(ws, string(plan.prefix)+v)
		}
	}
	ws = capStrings(dedup(ws), maxWitnesses+6)
	seen := map[string]bool{"": true}
	var out []string
	add := func(s string) {
		if !seen[s] {
			seen[s] = true
			out = append(out, s)
		}
	}
	for _, w := range ws {
		add(w)
		for _, j := range probeJunk[:3] {
			add(j + w)
			add(w + j)
			add(j + w + j)
		}
	}
	for wi, w := range ws {
		add(w + w)
		add("\xff" + w)
		add(w + "é")
		if !utf8.ValidString(w) {
			continue
		}
		r := []rune(w)
		if len(r) > 12 {
			continue
		}
		for i := 0; i <= len(r); i++ {
			add(string(r[:i]) + "x" + string(r[i:]))
			add(string(r[:i]) + "7" + string(r[i:]))
			add(string(r[:i]) + "-" + string(r[i:]))
			if i > 0 && i < len(r) {
				add(string(r[:i]) + "7x" + string(r[i:]))
				add(string(r[:i]) + "zz" + string(r[i:]))
				add(string(r[:i])) // cut
				add(string(r[i:]))
			}
			if i < len(r) {
				add(string(r[:i]) + string(r[i+1:]))       // deletion
				add(string(r[:i]) + "x" + string(r[i+1:])) // replacement
				add(string(r[:i]) + string(r[i]) + string(r[i:]))
			}
		}
		// two witnesses side by side and separated
		if wi+1 < len(ws) {
			add(w + ws[wi+1])
			add(ws[wi+1] + w)
			add(w + "x" + ws[wi+1])
		}
	}
	for _, s := range fixedProbePool {
		add(s)
	}
	return out
}

// optimiserDiffers: some probe on which the index (frozen model) and the reference disagree; "" if none.
// kind: "missed" (reference matches, index does not) or "extra".
func optimiserDiffers(plan *optPlan, probes []string) (probe, kind string) {
	for _, v := range probes {
		want := plan.goRe.MatchString(v)
		got := plan.indexMatch(v, true)
		if want != got {
			if want {
				return v, "missed"
			}
			return v, "extra"
		}
	}
	// a series lacking the tag
	if plan.wantMatch("", false) != plan.indexMatch("", false) {
		return "", "absent"
	}
	return "", ""
}
