package c10

import (
	"fmt"
	"os"
	"sort"
	"strings"
	"testing"
)

func TestProbe(t *testing.T) {
	if os.Getenv("C10_PROBE") == "" {
		t.Skip()
	}
	s, err := newSut(sutCfg{Seq0: 100})
	if err != nil {
		t.Fatal(err)
	}
	defer s.destroy()
	m := newModel()
	var batch []series
	for _, h := range []string{"web-1", "web-10", "web-2", "db-1", "db", "web", "w", "d", "xweb-1"} {
		batch = append(batch, series{M: "cpu", T: []kv{{"host", h}, {"region", "eu"}}})
	}
	batch = append(batch, series{M: "cpu", T: []kv{{"region", "us"}}})
	batch = append(batch, series{M: "cpu", T: nil})
	batch = append(batch, series{M: "mem", T: []kv{{"host", "web-1"}}})
	ids, err := s.insert(batch)
	if err != nil {
		t.Fatal(err)
	}
	for i := range batch {
		if v := m.record(batch[i], ids[i]); v != "" {
			t.Fatal(v)
		}
	}
	s.flush()
	preds := strings.Split(os.Getenv("C10_PROBE"), ";;")
	for _, p := range preds {
		e, err := parseCond(p)
		if err != nil {
			fmt.Printf("%-40s parse error %v\n", p, err)
			continue
		}
		var want []string
		for _, sr := range m.ofMst("cpu") {
			ok, err := evalExpr(e, sr)
			if err != nil {
				t.Fatal(err)
			}
			if ok {
				want = append(want, sr.rendered())
			}
		}
		sort.Strings(want)
		got, err := s.searchKeys("cpu_0000", e)
		e2, _ := parseCond(p)
		sc, err2 := s.scan("cpu_0000", e2)
		var got2 []string
		for _, it := range sc {
			got2 = append(got2, m.byKey[m.keys[it.id]].rendered())
		}
		sort.Strings(got2)
		st := "ok  "
		if fmt.Sprint(got) != fmt.Sprint(want) || err != nil {
			st = "KEYS"
		}
		st2 := "ok  "
		if fmt.Sprint(got2) != fmt.Sprint(want) || err2 != nil {
			st2 = "SCAN"
		}
		fmt.Printf("%s %s %-34s want=%v\n", st, st2, p, short(want))
		if st != "ok  " {
			fmt.Printf("          keys got=%v err=%v\n", short(got), err)
		}
		if st2 != "ok  " {
			fmt.Printf("          scan got=%v err=%v\n", short(got2), err2)
		}
	}
}

func short(a []string) []string {
	out := make([]string, len(a))
	for i, s := range a {
		out[i] = strings.TrimPrefix(s, "cpu_0000")
	}
	return out
}
