package c10

import (
	"encoding/json"
	"errors"
	"testing"

	"verif/internal/ev"
)

func TestReplay(t *testing.T) {
	ev.RunReplays(func(raw json.RawMessage, f ev.Failure) error {
		var kind struct {
			Kind string `json:"kind"`
		}
		_ = json.Unmarshal(raw, &kind)
		if f.Campaign == bbCampaign || kind.Kind == "bb" {
			return bbReplay(raw) // black-box case: real server
		}
		var cd caseDesc
		if err := json.Unmarshal(raw, &cd); err != nil {
			return ev.InconclusiveError("cannot decode case: " + err.Error())
		}
		if cd.Kind != "history" || len(cd.Ops) == 0 {
			return ev.InconclusiveError("no replayer for kind " + cd.Kind)
		}
		v, err := runCase(cd)
		if err != nil {
			return ev.InconclusiveError("cannot create index: " + err.Error())
		}
		if v != "" {
			return errors.New(v)
		}
		return nil
	})
}
