package c10

// System under test: one tsi.IndexBuilder + MergeSetIndex on a private directory under /dev/shm,
// built exactly as engine/partition.go (NewMergeSetIndex) builds it, driven through exported API only.

import (
	"errors"
	"flag"
	"fmt"
	"math"
	"os"
	"sort"
	"sync/atomic"
	"time"
	_ "unsafe" // go:linkname

	"github.com/openGemini/openGemini/engine/index/tsi"
	"github.com/openGemini/openGemini/lib/config"
	"github.com/openGemini/openGemini/lib/index"
	"github.com/openGemini/openGemini/lib/logger"
	"github.com/openGemini/openGemini/lib/resourceallocator"
	"github.com/openGemini/openGemini/lib/syscontrol"
	"github.com/openGemini/openGemini/lib/util/lifted/influx/influxql"
	"github.com/openGemini/openGemini/lib/util/lifted/influx/meta"
	"github.com/openGemini/openGemini/lib/util/lifted/influx/query"
	"github.com/openGemini/openGemini/lib/util/lifted/vm/protoparser/influx"
	"github.com/savsgio/dictpool"
	"go.uber.org/zap"
)

// The tag-filter result cache of the index is keyed by a generation counter that the mergeset table
// bumps through its flush callback. A synchronous final flush (IndexBuilder.Flush) calls it at once, but
// when the table's own 1 s ticker happened to flush the raw items first the callback is delayed by up to
// 10 s (lib/util/lifted/vm/mergeset/table.go: flushCallback worker). That bounded staleness is a visibility
// delay, not part of the property; to keep the check deterministic the harness performs the same
// invalidation itself right after every synchronous flush.
//
//go:linkname tsiTagFilterKeyGen github.com/openGemini/openGemini/engine/index/tsi.tagFilterKeyGen
var tsiTagFilterKeyGen uint64

func init() {
	_ = resourceallocator.InitResAllocator(math.MaxInt64, 1, 1, resourceallocator.GradientDesc, resourceallocator.SeriesParallelismRes, 0, 0)
	logger.SetLogger(zap.NewNop())
	if os.Getenv("C10_VMLOG") == "" {
		_ = flag.Set("loggerLevel", "ERROR") // VictoriaMetrics logger used by the mergeset table
	}
}

type sutCfg struct {
	Bloom     bool   `json:"bloom,omitempty"`      // [index] bloom-filter-enable (default off)
	NoPersist bool   `json:"no_persist,omitempty"` // syscontrol index read cache persistence switched off (default on)
	Seq0      uint64 `json:"seq0"`                 // initial value of the partition's sequence counter
}

type sut struct {
	cfg     sutCfg
	dir     string
	clock   uint64
	seq     *uint64
	lock    string
	builder *tsi.IndexBuilder
	idx     *tsi.MergeSetIndex
	open    bool
}

func newSut(cfg sutCfg) (*sut, error) {
	dir, err := os.MkdirTemp("/dev/shm", "c10-")
	if err != nil {
		return nil, err
	}
	seq := cfg.Seq0
	s := &sut{cfg: cfg, dir: dir, clock: 1, seq: &seq}
	if err := s.build(); err != nil {
		os.RemoveAll(dir)
		return nil, err
	}
	return s, nil
}

func (s *sut) build() error {
	ic := config.NewIndex()
	ic.CacheCompressEnable = true
	ic.BloomFilterEnabled = s.cfg.Bloom
	// explicit cache sizes ([index] tsid-cache-size etc.): the defaults are fractions of the machine's memory and
	// make every open/clear/close cost tens of milliseconds
	ic.TSIDCacheSize, ic.SKeyCacheSize, ic.TagCacheSize, ic.TagFilterCostCacheSize = 32<<20, 32<<20, 32<<20, 32<<20
	config.SetIndexConfig(ic)
	if syscontrol.IsIndexReadCachePersistent() == s.cfg.NoPersist {
		syscontrol.SetIndexReadCachePersistent(!s.cfg.NoPersist)
	}

	start := time.Unix(1700000000, 0).UTC()
	end := start.Add(7 * 24 * time.Hour)
	ident := &meta.IndexIdentifier{OwnerDb: "db0", OwnerPt: 1, Policy: "rp0"}
	ident.Index = &meta.IndexDescriptor{IndexID: 2, IndexGroupID: 3, TimeRange: meta.TimeRangeInfo{StartTime: start, EndTime: end}}
	opts := new(tsi.Options).
		Ident(ident).
		Path(s.dir).
		IndexType(index.MergeSet).
		EngineType(config.TSSTORE).
		StartTime(start).
		EndTime(end).
		Duration(0).
		CacheDuration(end.Sub(start)).
		LogicalClock(s.clock).
		SequenceId(s.seq).
		Lock(&s.lock)
	b := tsi.NewIndexBuilder(opts)
	primary, err := tsi.NewIndex(opts)
	if err != nil {
		return err
	}
	primary.SetIndexBuilder(b)
	rel, err := tsi.NewIndexRelation(opts, primary, b)
	if err != nil {
		return err
	}
	b.Relations[uint32(index.MergeSet)] = rel
	if err := b.Open(); err != nil {
		return err
	}
	ms, ok := primary.(*tsi.MergeSetIndex)
	if !ok {
		return errors.New("primary index is not *tsi.MergeSetIndex")
	}
	s.builder, s.idx, s.open = b, ms, true
	return nil
}

func (s *sut) destroy() {
	if s.open {
		_ = s.builder.Close()
		s.open = false
	}
	os.RemoveAll(s.dir)
}

// reopen closes the index. restart=false: the same builder object is opened again (as the package's own
// tests do); restart=true: new objects on the same directory with the next logical clock and a fresh
// sequence counter, which is what a process restart gives the engine (app/ts-store/run/server.go keeps
// metaclient.LogicClock monotonically increasing; DBPTInfo.sequenceID restarts).
func (s *sut) reopen(restart bool) error {
	if err := s.builder.Close(); err != nil {
		return fmt.Errorf("close: %w", err)
	}
	s.open = false
	if !restart {
		if err := s.builder.Open(); err != nil {
			return fmt.Errorf("open: %w", err)
		}
		s.open = true
		return nil
	}
	s.clock++
	seq := s.cfg.Seq0
	s.seq = &seq
	return s.build()
}

func (s *sut) flush() {
	s.builder.Flush()
	atomic.AddUint64(&tsiTagFilterKeyGen, 1)
}

func (s *sut) clearCache() error { return s.builder.ClearCache() }

// insert mimics engine/ts_storage.go writeIndex: look every row up first; as soon as one row is unknown the
// whole batch goes through IndexBuilder.CreateIndexIfNotExists, which creates ids for rows with SeriesId==0.
func (s *sut) insert(batch []series) ([]uint64, error) {
	mm := &dictpool.Dict{}
	byMst := map[string]*[]influx.Row{}
	var order []string
	for _, sr := range batch {
		name := sr.mstVer()
		rows := byMst[name]
		if rows == nil {
			rows = &[]influx.Row{}
			byMst[name] = rows
			order = append(order, name)
		}
		*rows = append(*rows, sr.row())
	}
	for _, name := range order {
		mm.Set(name, byMst[name])
	}
	need := false
	for _, name := range order {
		rows := byMst[name]
		for i := range *rows {
			r := &(*rows)[i]
			if !need {
				id, err := s.idx.GetSeriesIdBySeriesKey(r.IndexKey)
				if err != nil {
					return nil, fmt.Errorf("GetSeriesIdBySeriesKey: %w", err)
				}
				r.SeriesId, r.PrimaryId = id, id
				if id == 0 {
					need = true
				}
			}
		}
	}
	if need {
		if err := s.builder.CreateIndexIfNotExists(mm, true); err != nil {
			return nil, fmt.Errorf("CreateIndexIfNotExists: %w", err)
		}
	}
	// ids back in batch order
	pos := map[string]int{}
	ids := make([]uint64, len(batch))
	for i, sr := range batch {
		name := sr.mstVer()
		rows := byMst[name]
		ids[i] = (*rows)[pos[name]].SeriesId
		pos[name]++
	}
	return ids, nil
}

func (s *sut) lookup(sr series) (uint64, error) {
	r := sr.row()
	return s.idx.GetSeriesIdBySeriesKey(r.IndexKey)
}

var wideTR = tsi.TimeRange{Min: 0, Max: math.MaxInt64}

// searchIDs: the "show series"/cardinality path (searchTSIDs).
func (s *sut) searchIDs(mst string, cond influxql.Expr) ([]uint64, error) {
	ids, err := s.idx.SearchSeriesByTableAndCond([]byte(mst), cond, wideTR)
	sort.Slice(ids, func(i, j int) bool { return ids[i] < ids[j] })
	return ids, err
}

// searchKeys: SearchSeriesKeys, rendered "name,k=v,..." exactly as the index renders them.
func (s *sut) searchKeys(mst string, cond influxql.Expr) ([]string, error) {
	out, err := s.idx.SearchSeriesKeys(nil, []byte(mst), cond)
	if err != nil {
		return nil, err
	}
	res := make([]string, 0, len(out))
	for _, b := range out {
		res = append(res, string(b))
	}
	sort.Strings(res)
	return res, nil
}

type scanItem struct {
	id   uint64
	tags []kv
}

// scan: the query path (IndexBuilder.Scan -> SearchSeriesWithOpts -> seriesByExprIterator), group by *.
func (s *sut) scan(mst string, cond influxql.Expr) ([]scanItem, error) {
	opt := &query.ProcessorOptions{
		Name:           mst,
		Condition:      cond,
		StartTime:      influxql.MinTime,
		EndTime:        influxql.MaxTime,
		Ascending:      true,
		GroupByAllDims: true,
		ChunkSize:      1024,
	}
	res, _, err := s.builder.Scan(nil, []byte(mst), opt, func(num int64) error { return nil })
	if err != nil {
		return nil, err
	}
	if res == nil {
		return nil, nil
	}
	gs, ok := res.(tsi.GroupSeries)
	if !ok {
		return nil, fmt.Errorf("scan result has type %T", res)
	}
	var out []scanItem
	for _, g := range gs {
		ts, ok := g.(*tsi.TagSetInfo)
		if !ok {
			return nil, fmt.Errorf("tag set has type %T", g)
		}
		for i := range ts.TagSetInfoItems {
			it := &ts.TagSetInfoItems[i]
			si := scanItem{id: it.ID}
			for _, tg := range it.TagsVec {
				si.tags = append(si.tags, kv{tg.Key, tg.Value})
			}
			out = append(out, si)
		}
	}
	sort.Slice(out, func(i, j int) bool { return out[i].id < out[j].id })
	return out, nil
}

func (s *sut) tagValues(mst string, keys []string, cond influxql.Expr) ([][]string, error) {
	bk := make([][]byte, len(keys))
	for i, k := range keys {
		bk[i] = []byte(k)
	}
	res, err := s.idx.SearchTagValues([]byte(mst), bk, cond)
	if err != nil {
		return nil, err
	}
	out := make([][]string, len(keys))
	for i := range res {
		if i < len(out) {
			out[i] = append([]string(nil), res[i]...)
			sort.Strings(out[i])
		}
	}
	return out, nil
}

func (s *sut) cardinality(mst string, cond influxql.Expr) (uint64, error) {
	return s.idx.SeriesCardinality([]byte(mst), cond, wideTR)
}

func (s *sut) tagValuesCardinality(mst, key string) (uint64, error) {
	return s.idx.SearchTagValuesCardinality([]byte(mst), []byte(key))
}
