package c10

// FROZEN MODEL of what the series index does with a regular-expression tag filter on the pinned tree
// (engine/index/tsi/tag_filters.go, default configuration enable-perl-regrep = false):
//
//	tagFilter.Init -> InfluxRegrep -> getRegexpPrefix/extractRegexpPrefix (simplifyRegexp, simplifyRegexpExt)
//	               -> getRegexpFromCache (tagCharsRegexpEscaper, getOrValues, newMatchFuncForOrSuffixes,
//	                  getOptimizedReMatchFunc)
//	search.go: getTSIDsByTagFilterWithRegex (isAllMatch, negative = measurement minus positive),
//	           searchTSIDsByTagFilter (orSuffixes -> exact seek, otherwise prefix scan + matchSuffix)
//
// The functions below are COPIES of the unexported functions of the pinned tree (they cannot be called from a
// test package, and they must not be called: the known-finding classifier has to describe the defects of the
// pinned tree, not follow whatever a changed tree does - a change of the optimiser must show up as a violation,
// not move the exclusions). The model is used ONLY to decide which generated patterns belong to a known-finding
// class (known_test.go); the oracle of the property stays Go's regexp, unanchored.

import (
	"bytes"
	"regexp"
	"regexp/syntax"
	"sort"
	"strings"
)

// ---------------------------------------------------------------- verbatim copies (tag_filters.go)

var omTagCharsRegexpEscaper = strings.NewReplacer(
	"\\x00", "\\x000", // escapeChar
	"\x00", "\\x000", // escapeChar
	"\\x01", "\\x001", // tagSeparatorChar
	"\x01", "\\x001", // tagSeparatorChar
	"\\x02", "\\x002", // kvSeparatorChar
	"\x02", "\\x002", // kvSeparatorChar
)

const omMaxOrValues = 20

var omEmptyRegexp = &syntax.Regexp{Op: syntax.OpEmptyMatch}

func omIsDotStar(sre *syntax.Regexp) bool {
	switch sre.Op {
	case syntax.OpCapture:
		return omIsDotStar(sre.Sub[0])
	case syntax.OpAlternate:
		for _, reSub := range sre.Sub {
			if omIsDotStar(reSub) {
				return true
			}
		}
		return false
	case syntax.OpStar:
		switch sre.Sub[0].Op {
		case syntax.OpAnyCharNotNL, syntax.OpAnyChar:
			return true
		default:
			return false
		}
	default:
		return false
	}
}

func omIsDotPlus(sre *syntax.Regexp) bool {
	switch sre.Op {
	case syntax.OpCapture:
		return omIsDotPlus(sre.Sub[0])
	case syntax.OpAlternate:
		for _, reSub := range sre.Sub {
			if omIsDotPlus(reSub) {
				return true
			}
		}
		return false
	case syntax.OpPlus:
		switch sre.Sub[0].Op {
		case syntax.OpAnyCharNotNL, syntax.OpAnyChar:
			return true
		default:
			return false
		}
	default:
		return false
	}
}

func omIsLiteral(sre *syntax.Regexp) bool {
	if sre.Op == syntax.OpCapture {
		return omIsLiteral(sre.Sub[0])
	}
	return sre.Op == syntax.OpLiteral && sre.Flags&syntax.FoldCase == 0
}

// omMatcher: what getOptimizedReMatchFunc / newMatchFuncForOrSuffixes hand back, with the name of the branch taken
type omMatcher struct {
	f    func(b []byte) bool
	kind string // or_values | dotstar | dotplus | literal_eq | prefix_dot | dot_suffix | middle | literals_then_re | plain_re
}

func omNewMatchFuncForOrSuffixes(orValues []string) func(b []byte) bool {
	return func(b []byte) bool {
		for _, v := range orValues {
			if string(b) == v {
				return true
			}
		}
		return false
	}
}

func omGetOptimizedReMatchFunc(reMatch func(b []byte) bool, expr string) omMatcher {
	sre, err := syntax.Parse(expr, syntax.Perl)
	if err != nil {
		return omMatcher{reMatch, "plain_re"}
	}
	if m := omGetOptimizedReMatchFuncExt(reMatch, sre); m.f != nil {
		return m
	}
	return omMatcher{reMatch, "plain_re"}
}

func omGetOptimizedReMatchFuncExt(reMatch func(b []byte) bool, sre *syntax.Regexp) omMatcher {
	if omIsDotStar(sre) {
		return omMatcher{func(b []byte) bool { return true }, "dotstar"}
	}
	if omIsDotPlus(sre) {
		return omMatcher{func(b []byte) bool { return len(b) > 0 }, "dotplus"}
	}
	switch sre.Op {
	case syntax.OpCapture:
		return omGetOptimizedReMatchFuncExt(reMatch, sre.Sub[0])
	case syntax.OpLiteral:
		if !omIsLiteral(sre) {
			return omMatcher{}
		}
		s := string(sre.Rune)
		return omMatcher{func(b []byte) bool { return string(b) == s }, "literal_eq"}
	case syntax.OpConcat:
		if len(sre.Sub) == 2 {
			if omIsLiteral(sre.Sub[0]) {
				prefix := []byte(string(sre.Sub[0].Rune))
				if omIsDotStar(sre.Sub[1]) {
					return omMatcher{func(b []byte) bool { return bytes.HasPrefix(b, prefix) }, "prefix_dot"}
				}
				if omIsDotPlus(sre.Sub[1]) {
					return omMatcher{func(b []byte) bool { return len(b) > len(prefix) && bytes.HasPrefix(b, prefix) }, "prefix_dot"}
				}
			}
			if omIsLiteral(sre.Sub[1]) {
				suffix := []byte(string(sre.Sub[1].Rune))
				if omIsDotStar(sre.Sub[0]) {
					return omMatcher{func(b []byte) bool { return bytes.HasSuffix(b, suffix) }, "dot_suffix"}
				}
				if omIsDotPlus(sre.Sub[0]) {
					return omMatcher{func(b []byte) bool { return len(b) > len(suffix) && bytes.HasSuffix(b[1:], suffix) }, "dot_suffix"}
				}
			}
		}
		if len(sre.Sub) == 3 && omIsLiteral(sre.Sub[1]) {
			middle := []byte(string(sre.Sub[1].Rune))
			if omIsDotStar(sre.Sub[0]) {
				if omIsDotStar(sre.Sub[2]) {
					return omMatcher{func(b []byte) bool { return bytes.Contains(b, middle) }, "middle"}
				}
				if omIsDotPlus(sre.Sub[2]) {
					return omMatcher{func(b []byte) bool { return len(b) > len(middle) && bytes.Contains(b[:len(b)-1], middle) }, "middle"}
				}
			}
			if omIsDotPlus(sre.Sub[0]) {
				if omIsDotStar(sre.Sub[2]) {
					return omMatcher{func(b []byte) bool { return len(b) > len(middle) && bytes.Contains(b[1:], middle) }, "middle"}
				}
				if omIsDotPlus(sre.Sub[2]) {
					return omMatcher{func(b []byte) bool { return len(b) > len(middle)+1 && bytes.Contains(b[1:len(b)-1], middle) }, "middle"}
				}
			}
		}
		var literals [][]byte
		for _, sub := range sre.Sub {
			if omIsLiteral(sub) {
				literals = append(literals, []byte(string(sub.Rune)))
			}
		}
		var suffix []byte
		if omIsLiteral(sre.Sub[len(sre.Sub)-1]) {
			suffix = literals[len(literals)-1]
			literals = literals[:len(literals)-1]
		}
		return omMatcher{func(b []byte) bool {
			if len(suffix) > 0 && !bytes.HasSuffix(b, suffix) {
				return false
			}
			bOrig := b
			for _, literal := range literals {
				n := bytes.Index(b, literal)
				if n < 0 {
					return false
				}
				b = b[n+len(literal):]
			}
			return reMatch(bOrig)
		}, "literals_then_re"}
	default:
		return omMatcher{}
	}
}

func omGetOrValues(expr string) []string {
	sre, err := syntax.Parse(expr, syntax.Perl)
	if err != nil {
		return nil
	}
	orValues := omGetOrValuesExt(sre)
	sort.Strings(orValues)
	return orValues
}

func omGetOrValuesExt(sre *syntax.Regexp) []string {
	switch sre.Op {
	case syntax.OpCapture:
		return omGetOrValuesExt(sre.Sub[0])
	case syntax.OpLiteral:
		if !omIsLiteral(sre) {
			return nil
		}
		return []string{string(sre.Rune)}
	case syntax.OpEmptyMatch:
		return []string{""}
	case syntax.OpAlternate:
		a := make([]string, 0, len(sre.Sub))
		for _, reSub := range sre.Sub {
			ca := omGetOrValuesExt(reSub)
			if len(ca) == 0 {
				return nil
			}
			a = append(a, ca...)
			if len(a) > omMaxOrValues {
				return nil
			}
		}
		return a
	case syntax.OpCharClass:
		a := make([]string, 0, len(sre.Rune)/2)
		for i := 0; i < len(sre.Rune); i += 2 {
			start := sre.Rune[i]
			end := sre.Rune[i+1]
			for start <= end {
				a = append(a, string(start))
				start++
				if len(a) > omMaxOrValues {
					return nil
				}
			}
		}
		return a
	case syntax.OpConcat:
		if len(sre.Sub) < 1 {
			return []string{""}
		}
		prefixes := omGetOrValuesExt(sre.Sub[0])
		if len(prefixes) == 0 {
			return nil
		}
		sre.Sub = sre.Sub[1:]
		suffixes := omGetOrValuesExt(sre)
		if len(suffixes) == 0 {
			return nil
		}
		if len(prefixes)*len(suffixes) > omMaxOrValues {
			return nil
		}
		a := make([]string, 0, len(prefixes)*len(suffixes))
		for _, prefix := range prefixes {
			for _, suffix := range suffixes {
				a = append(a, prefix+suffix)
			}
		}
		return a
	default:
		return nil
	}
}

// omExtractRegexpPrefix: ok=false where the pinned code would panic (logger.Panicf on an unparsable simplified form)
func omExtractRegexpPrefix(b []byte, notes *omNotes) (prefix, suffix []byte, ok bool) {
	sre, err := syntax.Parse(string(b), syntax.Perl)
	if err != nil {
		return b, nil, true
	}
	sre, ok = omSimplifyRegexp(sre, notes)
	if !ok {
		return nil, nil, false
	}
	if sre == omEmptyRegexp {
		return nil, nil, true
	}
	if omIsLiteral(sre) {
		return []byte(string(sre.Rune)), nil, true
	}
	if sre.Op == syntax.OpConcat {
		sub0 := sre.Sub[0]
		if omIsLiteral(sub0) {
			prefix = []byte(string(sub0.Rune))
			sre.Sub = sre.Sub[1:]
			if len(sre.Sub) == 0 {
				return nil, nil, true
			}
		}
	}
	if _, err := syntax.Compile(sre); err != nil {
		return b, nil, true
	}
	return prefix, []byte(sre.String()), true
}

func omSimplifyRegexp(sre *syntax.Regexp, notes *omNotes) (*syntax.Regexp, bool) {
	s := sre.String()
	for iter := 0; ; iter++ {
		if iter > 64 {
			return nil, false // the pinned loop would not terminate
		}
		sre = omSimplifyRegexpExt(sre, false, false, 0, notes)
		sre = sre.Simplify()
		if sre.Op == syntax.OpBeginText || sre.Op == syntax.OpEndText {
			sre = omEmptyRegexp
		}
		sNew := sre.String()
		if sNew == s {
			return sre, true
		}
		var err error
		sre, err = syntax.Parse(sNew, syntax.Perl)
		if err != nil {
			return nil, false
		}
		s = sNew
	}
}

// omNotes: what the simplifier did below the top level of the pattern (bookkeeping of the model only; the
// transformation itself is the pinned one). depth counts the enclosing groups / repetitions / alternations.
type omNotes struct {
	innerDotStar  bool // ".*" appended or prepended to a concatenation inside a group
	innerAnchor   bool // ^ or $ removed from a concatenation inside a group
	innerDropped  bool // an empty-matching piece removed inside a group
	topAppended   bool // ".*" appended at the top level (harmless for unanchored matching)
	topPrepended  bool // ".*" prepended at the top level (text$)
	anchorRemoved bool // ^ or $ removed at the top level
}

func omSimplifyRegexpExt(sre *syntax.Regexp, hasPrefix, hasSuffix bool, depth int, notes *omNotes) *syntax.Regexp {
	switch sre.Op {
	case syntax.OpCapture:
		sre.Op = syntax.OpAlternate
		sre.Sub[0] = omSimplifyRegexpExt(sre.Sub[0], hasPrefix, hasSuffix, depth+1, notes)
		if sre.Sub[0] == omEmptyRegexp {
			return omEmptyRegexp
		}
		return sre
	case syntax.OpStar, syntax.OpPlus, syntax.OpQuest, syntax.OpRepeat:
		sre.Sub[0] = omSimplifyRegexpExt(sre.Sub[0], hasPrefix, hasSuffix, depth+1, notes)
		if sre.Sub[0] == omEmptyRegexp {
			return omEmptyRegexp
		}
		return sre
	case syntax.OpAlternate:
		for i, sub := range sre.Sub {
			sre.Sub[i] = omSimplifyRegexpExt(sub, hasPrefix, hasSuffix, depth+1, notes)
		}
		return sre
	case syntax.OpConcat:
		subs := sre.Sub[:0]
		begin := sre.Sub[0]
		tail := sre.Sub[len(sre.Sub)-1]
		for i, sub := range sre.Sub {
			if sub = omSimplifyRegexpExt(sub, i > 0, i+1 < len(sre.Sub), depth+1, notes); sub != omEmptyRegexp {
				subs = append(subs, sub)
			} else if depth > 0 {
				notes.innerDropped = true
			}
		}
		sre.Sub = subs
		if !hasPrefix {
			for len(sre.Sub) > 0 && sre.Sub[0].Op == syntax.OpBeginText {
				sre.Sub = sre.Sub[1:]
				if depth > 0 {
					notes.innerAnchor = true
				} else {
					notes.anchorRemoved = true
				}
			}
		}
		if !hasSuffix {
			for len(sre.Sub) > 0 && sre.Sub[len(sre.Sub)-1].Op == syntax.OpEndText {
				sre.Sub = sre.Sub[:len(sre.Sub)-1]
				if depth > 0 {
					notes.innerAnchor = true
				} else {
					notes.anchorRemoved = true
				}
			}
		}
		if len(sre.Sub) == 0 {
			return omEmptyRegexp
		}
		if begin.Op == syntax.OpBeginText && tail.Op == syntax.OpEndText {
			return sre
		}
		if tail.Op != syntax.OpEndText && sre.Sub[len(sre.Sub)-1].Op == syntax.OpLiteral {
			sreNew, _ := syntax.Parse(".*", syntax.Perl)
			sre.Sub = append(sre.Sub, sreNew)
			if depth > 0 {
				notes.innerDotStar = true
			} else {
				notes.topAppended = true
			}
		}
		if tail.Op == syntax.OpEndText && sre.Sub[0].Op == syntax.OpLiteral {
			sreNew, _ := syntax.Parse(".*", syntax.Perl)
			sre.Sub = append([]*syntax.Regexp{sreNew}, sre.Sub...)
			if depth > 0 {
				notes.innerDotStar = true
			} else {
				notes.topPrepended = true
			}
		}
		if tail.Op == syntax.OpEndText && len(sre.Sub) > 0 && sre.Sub[len(sre.Sub)-1].Op != syntax.OpEndText {
			endText, _ := syntax.Parse("$", syntax.Perl)
			sre.Sub = append(sre.Sub, endText)
		}
		return sre
	case syntax.OpEmptyMatch:
		return omEmptyRegexp
	default:
		return sre
	}
}

// ---------------------------------------------------------------- the plan of one filter

// optPlan: the decisions the index takes for one pattern.
type optPlan struct {
	pat      string
	broken   string         // non-empty: the pinned code fails on the pattern (panic / error), with the reason
	allMatch bool           // Go regexp matches "": every series of the measurement (SetRegexMatchAll)
	literal  bool           // no expression left: bytes.Contains(stored value, prefix)
	prefix   []byte         // literal prefix the index seeks with (stored values must START with it)
	expr     string         // what is left of the pattern after the prefix, as handed to regexp.Compile
	orValues []string       // exact values of the rest ("or suffixes"), nil if none
	matcher  omMatcher      // suffix matcher (nil func when literal)
	goRe     *regexp.Regexp // the reference: the pattern as written, Go regexp, unanchored
	notes    omNotes        // what the simplifier did to the pattern
}

var optPlanCache = map[string]*optPlan{}

func optimise(pat string) *optPlan {
	if p, ok := optPlanCache[pat]; ok {
		return p
	}
	p := buildPlan(pat)
	if len(optPlanCache) > 20000 {
		optPlanCache = map[string]*optPlan{}
	}
	optPlanCache[pat] = p
	return p
}

func buildPlan(pat string) (p *optPlan) {
	p = &optPlan{pat: pat}
	defer func() {
		if r := recover(); r != nil {
			p.broken = "panic in the optimiser"
		}
	}()
	var err error
	p.goRe, err = regexp.Compile(pat)
	if err != nil {
		p.broken = "does not compile"
		return p
	}
	p.allMatch = p.goRe.MatchString("")
	prefix, expr, ok := omExtractRegexpPrefix([]byte(pat), &p.notes)
	if !ok {
		p.broken = "simplified form does not parse"
		return p
	}
	p.prefix = prefix
	if len(expr) == 0 {
		p.literal = true
		return p
	}
	p.expr = omTagCharsRegexpEscaper.Replace(string(expr))
	re, err := regexp.Compile(p.expr)
	if err != nil {
		p.broken = "rest of the pattern does not compile: " + p.expr
		return p
	}
	p.orValues = omGetOrValues(p.expr)
	if len(p.orValues) > 0 {
		p.matcher = omMatcher{omNewMatchFuncForOrSuffixes(p.orValues), "or_values"}
	} else {
		p.matcher = omGetOptimizedReMatchFunc(re.Match, p.expr)
	}
	return p
}

// omEscape: the stored form of a tag value / seek prefix (marshalTagValue without the trailing separator)
func omEscape(s string) []byte {
	if !strings.ContainsAny(s, "\x00\x01\x02") {
		return []byte(s)
	}
	var out []byte
	for i := 0; i < len(s); i++ {
		switch s[i] {
		case 0:
			out = append(out, 0, '0')
		case 1:
			out = append(out, 0, '1')
		case 2:
			out = append(out, 0, '2')
		default:
			out = append(out, s[i])
		}
	}
	return out
}

// indexMatch: does the index select a series whose tag holds `value` (present) / that lacks the tag (!present)
// for `key =~ /pat/`?
func (p *optPlan) indexMatch(value string, present bool) bool {
	if p.allMatch {
		return true
	}
	if !present {
		return false
	}
	e := omEscape(value)
	if p.literal {
		return bytes.Contains(e, p.prefix)
	}
	pe := omEscape(string(p.prefix))
	if !bytes.HasPrefix(e, pe) {
		return false
	}
	return p.matcher.f(e[len(pe):])
}

// wantMatch: the property's answer (absent tag = "")
func (p *optPlan) wantMatch(value string, present bool) bool {
	if !present {
		value = ""
	}
	return p.goRe.MatchString(value)
}

// describe: the evaluation the index chose, for the class counters of the evidence
func (p *optPlan) describe() string {
	switch {
	case p.allMatch:
		return "all_match"
	case p.literal:
		return "contains_text"
	}
	k := p.matcher.kind
	if len(p.prefix) > 0 {
		return "seek_prefix+" + k
	}
	return k
}
