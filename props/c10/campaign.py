from campaigns_util import B

SPEC = {
    "pkg": "props/c10", "level": "exploration",
    "rule": ("rapid state machines (t.Repeat) on one tsi.IndexBuilder/MergeSetIndex per case, built as engine/partition.go builds it, on /dev/shm: "
             "insert batches (known + new series, shared prefixes, protocol separators, bytes 0-2, unicode, invalid UTF-8, several measurements, "
             "rare 66-140 series batches sharing a tag value), flush, clear caches, close/reopen (same objects or restart with next logical clock), "
             "lookup by key, search with predicate trees (depth <= 3) through SearchSeriesByTableAndCond, SearchSeriesKeys, IndexBuilder.Scan, "
             "SeriesCardinality, SearchTagValues, and condition-free listings. Oracle: model map series->id (unique, stable, never shared) and brute "
             "force over the model with Go regexp unanchored matching, absent tag = ''. history campaigns: a case is non-trivial when a known series "
             "is written again after a cache clear or a reopen; predicate campaigns (ladder eq -> +!= -> +literal/anchored regex -> full regex): when a "
             "search mixes >= 2 operators (of = != =~ !~ AND OR) or uses a regex that is neither literal nor anchored literal, over >= 5 series of the measurement, at least "
             "one lacking a referenced tag; distinct = hash of the whole operation list"),
    "assumptions": [
        "series reach the index as the write path builds them: non-empty tag keys/values, tags sorted and unique, measurement name with version suffix",
        "a search is judged only after a synchronous IndexBuilder.Flush of pending items (visibility delay of unflushed items and the <=10 s staleness "
        "of the tag-filter cache after a background flush are not part of the property; the harness bumps the cache generation itself after each flush)",
        "ids are compared only for equality/uniqueness; concurrent creation of one key from two writers is not exercised",
    ],
    "campaigns": [
        {"name": "history", "run": "^TestHistory$", "quick": B(250, 3), "thorough": B(4000, 3, 5400)},
        {"name": "history_bloom", "run": "^TestHistoryBloom$", "quick": B(12, 1), "thorough": B(250, 1, 5400)},
        {"name": "pred_eq", "run": "^TestPredEq$", "quick": B(250, 2), "thorough": B(4000, 2, 5400)},
        {"name": "pred_neq", "run": "^TestPredNeq$", "quick": B(250, 2), "thorough": B(4000, 2, 5400)},
        {"name": "pred_regex_literal", "run": "^TestPredRegexLit$", "quick": B(250, 3), "thorough": B(4000, 3, 5400)},
        {"name": "pred_regex_full", "run": "^TestPredRegexFull$", "quick": B(150, 4), "thorough": B(2200, 4, 5400)},
    ],
}

META = {
    "engine": "lib-rapid",
    "technique": "model-based stateful property testing (rapid state machine against a reference map + brute-force predicate evaluation)",
    "text": ("Generated histories of insert / flush / cache clear / close-reopen / lookup / search on one series index are executed through the exported "
             "index API; identifiers must be unique, stable and never shared, and every search and listing must equal brute-force evaluation over the "
             "written series. Predicates are explored as a ladder of sub-campaigns; known-finding classes are left out by construction and counted. "
             "Exploration: finds counterexamples, never proves absence."),
    "note": ("Trusts Go's regexp package as the reference for regular expressions and the harness' own model. Concurrent writers, deletion (drop series) and "
             "tag arrays are not covered; the column-store index variant is not covered."),
}
