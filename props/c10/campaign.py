from campaigns_util import B

SPEC = {
    "pkg": "props/c10", "level": "exploration", "bins": ["ts-server"],
    "rule": ("rapid state machines (t.Repeat) on one tsi.IndexBuilder/MergeSetIndex per case, built as engine/partition.go builds it, on /dev/shm: "
             "insert batches (known + new series, shared prefixes, protocol separators, bytes 0-2, unicode, invalid UTF-8, several measurements, "
             "rare 66-140 series batches sharing a tag value), flush, clear caches, close/reopen (same objects or restart with next logical clock), "
             "lookup by key, search with predicate trees (depth <= 3) through SearchSeriesByTableAndCond, SearchSeriesKeys, IndexBuilder.Scan, "
             "SeriesCardinality, SearchTagValues, and condition-free listings. Oracle: model map series->id (unique, stable, never shared) and brute "
             "force over the model with Go regexp unanchored matching, absent tag = ''. history campaigns: a case is non-trivial when a known series "
             "is written again after a cache clear or a reopen; predicate campaigns (ladder eq -> +!= -> +literal/anchored regex -> full regex): when a "
             "search mixes >= 2 operators (of = != =~ !~ AND OR) or uses a regex that is neither literal nor anchored literal, over >= 5 series of the measurement, at least "
             "one lacking a referenced tag; distinct = hash of the whole operation list. "
             "bb_predicates (black box): one real ts-server per process (ptnum-pernode 1 or 3), kept across cases; every case writes 8-60 series of one or two fresh measurements "
             "(3-4 tag keys of a pool with shared prefixes, protocol separators, quotes, UTF-8; some series lack some keys; one point per series) through /write, optionally forces a flush, "
             "optionally adds 3-30 more series to the same measurements (flushed or not), awaits the unfiltered series listing, and evaluates 4-9 generated predicates per phase (same generator and "
             "same syntactic known-finding exclusions as the library campaigns, rung drawn per predicate; AND/OR mixes always parenthesised) through every read path, each statement executed twice: "
             "select .. group by *, select count(), ungrouped select, show series where, show tag values with key = / in (..) where, show tag values cardinality, show tag keys [where], "
             "show series [exact] cardinality where, and - once everything is flushed - show series / show tag values under the Exact_Statistic_Query hint; each answer must equal brute force over "
             "the written series (absent tag = '', Go regexp, unanchored). A wrong answer is re-run for 13 s and counts only if it stays wrong. Non-trivial: predicate mixes >= 2 operators or uses a "
             "regex that is neither literal nor anchored literal, over >= 5 series of the measurement with >= 1 lacking a referenced tag, selecting a strict non-empty subset; distinct = hash of (series, predicates)"),
    "assumptions": [
        "series reach the index as the write path builds them: non-empty tag keys/values, tags sorted and unique, measurement name with version suffix",
        "a search is judged only after a synchronous IndexBuilder.Flush of pending items (visibility delay of unflushed items and the <=10 s staleness "
        "of the tag-filter cache after a background flush are not part of the property; the harness bumps the cache generation itself after each flush)",
        "ids are compared only for equality/uniqueness; concurrent creation of one key from two writers is not exercised",
        "bb_predicates: HTTP 204 is the acknowledgement; new series are awaited through the unfiltered `show series from <m>` before any predicate is evaluated; a read that becomes right "
        "within 13 s is tolerated and counted (late_read_*: the tag-filter result cache of the index is invalidated up to 10 s after a background index flush); a key that no series of the "
        "measurement carries is compared through the listing statements only (the query layer looks an unknown key up as a field); the predicate is judged on the tree the server's own "
        "(yacc) parser builds, and only when the store-side parser reads the printed text as the same tree; tag keys/values are printable ASCII without backslash plus a few UTF-8 texts; "
        "exact-hint listings are compared only when every row of the measurement is in flushed files (they are served from file metadata)",
    ],
    "campaigns": [
        {"name": "history", "run": "^TestHistory$", "quick": B(250, 3), "thorough": B(4000, 3, 5400)},
        {"name": "history_bloom", "run": "^TestHistoryBloom$", "quick": B(12, 1), "thorough": B(250, 1, 5400)},
        {"name": "pred_eq", "run": "^TestPredEq$", "quick": B(250, 2), "thorough": B(4000, 2, 5400)},
        {"name": "pred_neq", "run": "^TestPredNeq$", "quick": B(250, 2), "thorough": B(4000, 2, 5400)},
        {"name": "pred_regex_literal", "run": "^TestPredRegexLit$", "quick": B(250, 3), "thorough": B(4000, 3, 5400)},
        {"name": "pred_regex_full", "run": "^TestPredRegexFull$", "quick": B(150, 4), "thorough": B(2200, 4, 5400)},
        # black box (real server); kept last so that the seeds of the library campaigns do not move
        {"name": "bb_predicates", "run": "^TestBBTagPredicates$", "quick": B(14, 4, 600, shrinktime="20s"), "thorough": B(300, 6, 3000, shrinktime="120s")},
    ],
    "max_parallel": 20,
}

META = {
    "engine": "lib-rapid", "also": ["bb-server"],
    "technique": "model-based stateful property testing (rapid state machine against a reference map + brute-force predicate evaluation)",
    "text": ("Generated histories of insert / flush / cache clear / close-reopen / lookup / search on one series index are executed through the exported "
             "index API; identifiers must be unique, stable and never shared, and every search and listing must equal brute-force evaluation over the "
             "written series. Predicates are explored as a ladder of sub-campaigns; known-finding classes are left out by construction and counted. "
             "The bb_predicates sub-campaign drives the same predicates through the real server's statements (select, show series / tag values / tag keys / cardinalities, each executed "
             "twice) over freshly written measurements and compares with the same brute force. Exploration: finds counterexamples, never proves absence."),
    "note": ("Trusts Go's regexp package as the reference for regular expressions and the harness' own model. Concurrent writers, deletion (drop series) and "
             "tag arrays are not covered; the column-store index variant is not covered. Black box: one shard group, no deletes, no restart; reads that are wrong for less than 13 s are tolerated."),
}
