package c20

import (
	"encoding/json"
	"testing"

	"verif/internal/ev"
)

// checkAny re-executes a saved case of any kind; nil = property holds.
func checkAny(raw json.RawMessage) error {
	var k struct {
		Kind string `json:"kind"`
	}
	if err := json.Unmarshal(raw, &k); err != nil {
		return inconclusive(err.Error())
	}
	switch k.Kind {
	case "pk":
		var pc PKCase
		if err := json.Unmarshal(raw, &pc); err != nil {
			return inconclusive(err.Error())
		}
		_, err := checkPK(&pc)
		return err
	case bbCampaign:
		err := replayBB(raw)
		if inc, ok := err.(ev.InconclusiveError); ok {
			return inconclusive(string(inc))
		}
		return err
	case "bloom", "minmax", "set":
		var sc SKCase
		if err := json.Unmarshal(raw, &sc); err != nil {
			return inconclusive(err.Error())
		}
		_, err := checkSK(&sc)
		return err
	}
	return inconclusive("no replayer for kind " + k.Kind)
}

func TestReplay(t *testing.T) {
	ev.RunReplays(func(raw json.RawMessage, f ev.Failure) error {
		err := checkAny(raw)
		if inc, ok := err.(inconclusive); ok {
			return ev.InconclusiveError(string(inc))
		}
		return err
	})
}
