package c20

// C20, library part, skip-index readers driven through the production entry points
// SKIndexReaderImpl.CreateSKFileReaders -> SKFileReader.ReInit -> SKIndexReaderImpl.Scan:
//   * bloom filter: real BloomFilterWriter.CreateAttachIndex + RenameIndexFiles on disk, real reader;
//   * min-max: reader only (the tree has no writer and no production ReadFunc) over a harness-built bound record;
//   * set: reader only (MayBeInFragment is a constant) - kept as a replay, not as a campaign.
// Oracle as for the primary key: a block holding a definitely matching row must be inside the returned ranges.

import (
	"fmt"
	"os"
	"path/filepath"
	"runtime"
	"sort"
	"strings"
	"testing"

	"github.com/openGemini/openGemini/engine/immutable"
	"github.com/openGemini/openGemini/engine/index/sparseindex"
	"github.com/openGemini/openGemini/lib/fragment"
	"github.com/openGemini/openGemini/lib/index"
	"github.com/openGemini/openGemini/lib/record"
	"github.com/openGemini/openGemini/lib/util/lifted/influx/influxql"
	"github.com/openGemini/openGemini/lib/util/lifted/influx/query"
	"pgregory.net/rapid"
	"verif/internal/ev"
)

// SKCase is the re-executable description of one skip-index case.
type SKCase struct {
	Kind    string      `json:"kind"`    // bloom | minmax | set
	Cols    []Col       `json:"cols"`    // sorted by name; time implicit and last
	Indexed []string    `json:"indexed"` // columns carrying the skip index
	Rows    [][]*string `json:"rows"`    // in storage order (min-max "sorted" mode: sorted by Indexed[0] by the check)
	Cuts    []int       `json:"cuts,omitempty"`
	Sorted  bool        `json:"sorted,omitempty"` // min-max: one indexed column, rows sorted by it, boundary layout
	Tokens  string      `json:"tokens,omitempty"` // bloom: split characters handed to the writer ("" = what a DDL-created index gets)
	From    int         `json:"from,omitempty"`   // first fragment of the range handed to Scan
	Cond    string      `json:"cond"`
}

type skResult struct {
	nblocks, covered, must int
	feat                   *feat
	readers                int
	err                    string
}

type mockTssp struct{ path string }

func (f *mockTssp) Path() string { return f.path }
func (f *mockTssp) Name() string { return filepath.Base(f.path) }

var skScratch string // set by the tests (a directory removed at the end)
var skSeq int

func oidOf(kind string) (uint32, string) {
	switch kind {
	case "bloom":
		return uint32(index.BloomFilter), index.BloomFilterIndex
	case "minmax":
		return uint32(index.MinMax), index.MinMaxIndex
	default:
		return uint32(index.Set), index.SetIndex
	}
}

func checkSK(sc *SKCase) (*skResult, error) {
	keys := []string{}
	if sc.Kind == "minmax" && sc.Sorted {
		if len(sc.Indexed) != 1 {
			return nil, inconclusive("sorted mode needs one indexed column")
		}
		keys = []string{sc.Indexed[0]}
	}
	tb, err := buildTableKeepOrder(sc.Cols, keys, sc.Rows)
	if err != nil {
		return nil, err
	}
	n := len(tb.rows)
	pc := &PKCase{Cuts: sc.Cuts}
	if len(sc.Cuts) == 0 {
		pc.Frag = n
	}
	acc, starts, _, err := pc.bounds(tb)
	if err != nil {
		return nil, err
	}
	res := &skResult{nblocks: len(acc)}
	for _, c := range sc.Indexed {
		i, ok := tb.colIdx[c]
		if !ok {
			return nil, inconclusive("unknown indexed column")
		}
		for _, r := range tb.rows {
			if r[i].Null && sc.Kind == "minmax" {
				return nil, inconclusive("min-max bound records with nulls are not defined by any writer")
			}
		}
	}
	oracleExpr, err := tb.parseCond(sc.Cond)
	if err != nil || oracleExpr == nil {
		return nil, inconclusive("cond does not parse")
	}
	res.feat = tb.features(oracleExpr)
	expr, _ := tb.parseCond(sc.Cond)

	oid, name := oidOf(sc.Kind)
	rel := influxql.NewIndexRelation()
	rel.Oids = append(rel.Oids, oid)
	rel.IndexNames = append(rel.IndexNames, name)
	rel.IndexList = append(rel.IndexList, &influxql.IndexList{IList: sc.Indexed})
	rel.IndexOptions = append(rel.IndexOptions, &influxql.IndexOptions{})
	mst := &influxql.Measurement{Name: "mst", IndexRelation: rel}
	opt := &query.ProcessorOptions{Condition: expr, Sources: influxql.Sources{mst}}
	skr := sparseindex.NewSKIndexReader(8192, 8, 0)
	readers, err := skr.CreateSKFileReaders(opt, mst, true)
	if err != nil {
		res.err = "CreateSKFileReaders: " + err.Error()
		return res, nil
	}
	res.readers = len(readers)

	var file interface{}
	switch sc.Kind {
	case "bloom":
		if len(sc.Indexed) != 1 || tb.cols[tb.colIdx[sc.Indexed[0]]].Type != "string" {
			return nil, inconclusive("bloom needs one string column")
		}
		if skScratch == "" {
			d, err := os.MkdirTemp("", "c20bf")
			if err != nil {
				return nil, inconclusive(err.Error())
			}
			skScratch = d
		}
		skSeq++
		dir := filepath.Join(skScratch, fmt.Sprintf("case%d", skSeq))
		if err := os.MkdirAll(filepath.Join(dir, "mst"), 0o755); err != nil {
			return nil, inconclusive(err.Error())
		}
		defer os.RemoveAll(dir)
		base := "00000001-0001-00000000"
		w := sparseindex.NewBloomFilterWriter(dir, "mst", base, "", sc.Tokens)
		if err := w.CreateAttachIndex(tb.rec, []int{tb.colIdx[sc.Indexed[0]]}, acc); err != nil {
			return nil, inconclusive("CreateAttachIndex: " + err.Error())
		}
		tssp := filepath.Join(dir, "mst", base+".tssp")
		if err := immutable.RenameIndexFiles(tssp, sc.Indexed); err != nil {
			return nil, inconclusive("RenameIndexFiles: " + err.Error())
		}
		file = &mockTssp{path: tssp}
	case "minmax":
		file = "00000001-0001-00000000.tssp"
		for _, rd := range readers {
			mm, ok := rd.(*sparseindex.MinMaxIndexReader)
			if !ok {
				return nil, inconclusive("unexpected reader type")
			}
			mm.ReadFunc = func(_ interface{}, rec *record.Record, _ bool) (*record.Record, error) {
				out := record.NewRecord(rec.Schema, false)
				for ci, f := range rec.Schema {
					i := tb.colIdx[f.Name]
					t := tb.cols[i].Type
					if sc.Sorted {
						for _, s := range starts {
							appendCell(&out.ColVals[ci], t, tb.rows[s][i])
						}
						appendCell(&out.ColVals[ci], t, tb.rows[n-1][i])
						continue
					}
					lo, hi := tb.rows[0][i], tb.rows[0][i]
					for _, r := range tb.rows {
						if cmpCell(t, r[i], lo) < 0 {
							lo = r[i]
						}
						if cmpCell(t, r[i], hi) > 0 {
							hi = r[i]
						}
					}
					appendCell(&out.ColVals[ci], t, lo)
					appendCell(&out.ColVals[ci], t, hi)
				}
				return out, nil
			}
		}
	default:
		file = "00000001-0001-00000000.tssp"
	}

	if sc.From < 0 || sc.From >= res.nblocks {
		return nil, inconclusive("bad from")
	}
	frs := fragment.FragmentRanges{fragment.NewFragmentRange(uint32(sc.From), uint32(res.nblocks))}
	for _, rd := range readers {
		if err := rd.ReInit(file); err != nil {
			res.err = "ReInit: " + err.Error()
			return res, nil
		}
		frs, err = skr.Scan(rd, frs)
		if err != nil {
			res.err = "Scan: " + err.Error()
			return res, nil
		}
		if frs.Empty() {
			break
		}
	}
	in := make([]bool, res.nblocks)
	for _, r := range frs {
		for f := r.Start; f < r.End && int(f) < res.nblocks; f++ {
			if !in[f] {
				in[f] = true
				res.covered++
			}
		}
	}
	fragOf := func(row int) int {
		return sort.Search(len(starts), func(i int) bool { return starts[i] > row }) - 1
	}
	must := make([]int, res.nblocks)
	for i, r := range tb.rows {
		if f := fragOf(i); f >= sc.From && must[f] == 0 && tb.defTrue(oracleExpr, r) {
			must[f] = i + 1
			res.must++
		}
	}
	for f := range must {
		if must[f] != 0 && !in[f] {
			w := must[f] - 1
			return res, &violation{fmt.Sprintf("%s skip index on %v skipped block %d although row %d {%s} satisfies %s; returned %s of %d blocks (scan started at block %d, %d reader(s), tokens=%q)",
				sc.Kind, sc.Indexed, f, w, rowString(tb.cols, tb.rows[w]), sc.Cond, fragRangesString(frs), res.nblocks, sc.From, res.readers, sc.Tokens)}
		}
	}
	return res, nil
}

// buildTableKeepOrder: like buildTable, but with no key the rows stay in the given (storage) order.
func buildTableKeepOrder(cols []Col, keys []string, raw [][]*string) (*table, error) {
	if len(keys) > 0 {
		return buildTable(cols, keys, raw)
	}
	// sort by the (strictly increasing) time column only: identity
	for i := range raw {
		if len(raw[i]) == 0 || raw[i][len(raw[i])-1] == nil {
			return nil, inconclusive("bad row")
		}
	}
	return buildTable(cols, []string{record.TimeField}, raw)
}

// ---------------------------------------------------------------- generators

func genBloomCase(t *rapid.T) *SKCase {
	sc := &SKCase{Kind: "bloom", Cols: []Col{{Name: "content", Type: "string"}, {Name: "x", Type: "int"}}, Indexed: []string{"content"}}
	if rapid.Bool().Draw(t, "other_name") { // the indexed column is not always first in the schema
		sc.Cols = []Col{{Name: "a", Type: "int"}, {Name: "msg", Type: "string"}}
		sc.Indexed = []string{"msg"}
	}
	icol := sc.Indexed[0]
	xcol := "x"
	if icol == "msg" {
		xcol = "a"
	}
	nw := rapid.IntRange(2, 12).Draw(t, "vocab")
	vocab := make([]string, nw)
	for i := range vocab {
		if rapid.IntRange(0, 11).Draw(t, "nonascii") == 0 {
			vocab[i] = rapid.SampledFrom([]string{"naïve", "华为", "é", "Ünï", "日本語"}).Draw(t, "uword")
		} else {
			vocab[i] = rapid.StringMatching(`[a-zA-Z0-9]{1,8}`).Draw(t, "word")
		}
	}
	n := rapid.IntRange(1, 60).Draw(t, "n")
	phrases := []string{}
	for r := 0; r < n; r++ {
		k := rapid.IntRange(1, 5).Draw(t, "nwords")
		ws := make([]string, k)
		for j := range ws {
			ws[j] = rapid.SampledFrom(vocab).Draw(t, "w")
		}
		content := strings.Join(ws, " ")
		phrases = append(phrases, content)
		var cv *string = sp(content)
		if rapid.IntRange(0, 19).Draw(t, "null") == 0 {
			cv = nil
		}
		xv := sp(fmtInt(int64(rapid.IntRange(0, 3).Draw(t, "x"))))
		tv := sp(fmtInt(int64(r)))
		if icol == "content" {
			sc.Rows = append(sc.Rows, []*string{cv, xv, tv})
		} else {
			sc.Rows = append(sc.Rows, []*string{xv, cv, tv})
		}
	}
	if n >= 2 {
		k := rapid.IntRange(0, minInt(6, n-1)).Draw(t, "ncuts")
		set := map[int]bool{}
		for i := 0; i < k; i++ {
			set[rapid.IntRange(1, n-1).Draw(t, "cut")] = true
		}
		for c := range set {
			sc.Cuts = append(sc.Cuts, c)
		}
		sort.Ints(sc.Cuts)
	}
	sc.Tokens = rapid.SampledFrom([]string{"", "", " \n\t`-=~!@#$%^&*()_+[]{}\\|;':\",.<>/?"}).Draw(t, "tokens")
	sc.From = 0
	if len(sc.Cuts) > 0 && rapid.IntRange(0, 3).Draw(t, "from") == 0 {
		sc.From = rapid.IntRange(0, len(sc.Cuts)).Draw(t, "fromv")
	}
	atom := func() string {
		switch rapid.IntRange(0, 9).Draw(t, "atomkind") {
		case 0:
			return fmt.Sprintf("%s = %d", xcol, rapid.IntRange(0, 3).Draw(t, "xv"))
		case 1:
			return fmt.Sprintf("%s = '%s'", icol, rapid.SampledFrom(phrases).Draw(t, "eqv"))
		case 2:
			return fmt.Sprintf("%s != '%s'", icol, rapid.SampledFrom(phrases).Draw(t, "neqv"))
		case 3: // a phrase that may be absent
			return fmt.Sprintf("%s MATCHPHRASE '%s'", icol, rapid.StringMatching(`[a-z]{1,8}`).Draw(t, "absent"))
		default:
			ws := strings.Split(rapid.SampledFrom(phrases).Draw(t, "src"), " ")
			i := rapid.IntRange(0, len(ws)-1).Draw(t, "i")
			j := rapid.IntRange(i, len(ws)-1).Draw(t, "j")
			return fmt.Sprintf("%s MATCHPHRASE '%s'", icol, strings.Join(ws[i:j+1], " "))
		}
	}
	var gen func(d int) string
	gen = func(d int) string {
		if d == 0 || rapid.IntRange(0, 2).Draw(t, "leaf") == 0 {
			return atom()
		}
		return "(" + gen(d-1) + " " + rapid.SampledFrom([]string{"AND", "OR"}).Draw(t, "bop") + " " + gen(d-1) + ")"
	}
	sc.Cond = gen(2)
	return sc
}

func genMinMaxCase(t *rapid.T) *SKCase {
	g := &genData{types: map[string]string{record.TimeField: "time"}, pools: map[string][]cell{}}
	sc := &SKCase{Kind: "minmax"}
	names := rapid.Permutation([]string{"a", "b", "c", "d"}).Draw(t, "names")
	ncols := rapid.IntRange(1, 3).Draw(t, "ncols")
	typeGen := rapid.SampledFrom([]string{"int", "int", "float", "string", "string", "bool"})
	for i := 0; i < ncols; i++ {
		g.types[names[i]] = typeGen.Draw(t, "type")
		sc.Cols = append(sc.Cols, Col{Name: names[i], Type: g.types[names[i]]})
	}
	sort.Slice(sc.Cols, func(i, j int) bool { return sc.Cols[i].Name < sc.Cols[j].Name })
	sc.Sorted = rapid.Bool().Draw(t, "sorted")
	nidx := 1
	if !sc.Sorted && ncols > 1 {
		nidx = rapid.IntRange(1, 2).Draw(t, "nidx")
	}
	sc.Indexed = append(sc.Indexed, names[:nidx]...)
	pk := &PKCase{Cols: sc.Cols, Keys: sc.Indexed} // the condition generator prefers "key" = indexed columns
	g.pc = pk
	g.all = pk.allCols()
	for _, c := range g.all {
		g.pools[c.Name] = genPool(t, c.Type, rapid.IntRange(1, 7).Draw(t, "poolsize"), genOpts{}, "pool_"+c.Name)
	}
	n := rapid.IntRange(1, 80).Draw(t, "n")
	g.cells = make([][]cell, n)
	for r := 0; r < n; r++ {
		row := make([]*string, len(g.all))
		cs := make([]cell, len(g.all))
		for i, c := range g.all {
			p := g.pools[c.Name]
			v := p[rapid.IntRange(0, len(p)-1).Draw(t, "v")]
			if c.Type == "time" {
				v = cell{I: int64(r)}
			}
			isIdx := false
			for _, x := range sc.Indexed {
				if x == c.Name {
					isIdx = true
				}
			}
			if !isIdx && c.Type != "time" && rapid.IntRange(0, 9).Draw(t, "null") == 0 {
				v = cell{Null: true}
			}
			cs[i] = v
			if !v.Null {
				s := v.render(c.Type)
				if c.Type == "string" {
					s = v.S
				}
				row[i] = sp(s)
			}
		}
		sc.Rows = append(sc.Rows, row)
		g.cells[r] = cs
	}
	if sc.Sorted && n >= 2 {
		k := rapid.IntRange(0, minInt(10, n-1)).Draw(t, "ncuts")
		set := map[int]bool{}
		for i := 0; i < k; i++ {
			set[rapid.IntRange(1, n-1).Draw(t, "cut")] = true
		}
		for c := range set {
			sc.Cuts = append(sc.Cuts, c)
		}
		sort.Ints(sc.Cuts)
	}
	o := genOpts{lang: "full"}
	root := g.genTree(t, 3, cmpOps, o, 80)
	if root == nil {
		root = g.genAtom(t, sc.Indexed[0], cmpOps, o)
	}
	sc.Cond = root.render(t, true)
	return sc
}

func runSK(t *testing.T, campaign string, gen func(*rapid.T) *SKCase) {
	skScratch = t.TempDir()
	if d, err := os.MkdirTemp("/dev/shm", "c20sk"); err == nil { // memory-backed scratch when available
		skScratch = d
		defer os.RemoveAll(d)
	}
	cases := 0
	rapid.Check(t, ev.Prop(prop, campaign, func(t *rapid.T, c *ev.Case) {
		var sc *SKCase
		ok := false
		for try := 0; try < 8 && !ok; try++ {
			sc = gen(t)
			lt := (&genData{all: (&PKCase{Cols: sc.Cols}).allCols()}).lightTable()
			e, err := lt.parseCond(sc.Cond)
			if err != nil {
				t.Fatalf("generator produced an unparsable condition %q: %v", sc.Cond, err)
			}
			if cls := skClassOf(sc, lt.features(e)); cls != "" {
				c.Excluded(cls)
				continue
			}
			ok = true
		}
		if !ok {
			c.Class("all_draws_excluded")
			return
		}
		cases++
		if cases%200 == 0 {
			runtime.GC() // the bloom-filter reader has no Close: its file descriptor is released by the finalizer
		}
		res, err := checkSK(sc)
		if err != nil {
			if v, ok := err.(*violation); ok {
				c.Failf(t, prop, sc, "%s", v.msg)
			}
			c.Class("harness_inconclusive")
			t.Logf("inconclusive: %v", err)
			return
		}
		if res.err != "" {
			c.Class("reader_error")
			t.Logf("reader error for %q: %s", sc.Cond, res.err)
			return
		}
		f := res.feat
		c.Class("blocks=" + sizeClass(res.nblocks))
		c.Class(fmt.Sprintf("readers=%d", res.readers))
		if sc.From > 0 {
			c.Class("scan_starts_after_block_0")
		}
		if sc.Kind == "bloom" {
			if sc.Tokens == "" {
				c.Class("writer_tokens=empty(ddl)")
			} else {
				c.Class("writer_tokens=content_splitter")
			}
			if f.ops["MATCHPHRASE"] > 0 {
				c.Class("has_matchphrase")
			}
		} else {
			if sc.Sorted {
				c.Class("layout=sorted_boundaries")
			} else {
				c.Class("layout=single_block_min_max")
			}
			c.Class(fmt.Sprintf("indexed_cols=%d", len(sc.Indexed)))
		}
		if f.or > 0 {
			c.Class("has_or")
		}
		if f.and > 0 {
			c.Class("has_and")
		}
		if f.ops["!="] > 0 {
			c.Class("has_neq")
		}
		total := res.nblocks - sc.From
		switch {
		case res.covered == total:
			c.Class("skipped=none")
		case res.covered == 0:
			c.Class("skipped=all")
		default:
			c.Class("skipped=some")
		}
		switch {
		case res.must == 0:
			c.Class("must_read=0")
		case res.must == total:
			c.Class("must_read=all")
		default:
			c.Class("must_read=some")
		}
		if res.covered < total && res.readers > 0 {
			c.Nontrivial(sc)
			c.Sample(map[string]any{"kind": sc.Kind, "cond": sc.Cond, "indexed": sc.Indexed, "rows": len(sc.Rows), "blocks": res.nblocks,
				"blocks_returned": res.covered, "blocks_with_match": res.must})
		}
	}))
}

func TestSKBloom(t *testing.T)  { runSK(t, "sk_bloom", genBloomCase) }
func TestSKMinMax(t *testing.T) { runSK(t, "sk_minmax", genMinMaxCase) }
