package c20

// Shared model of the C20 checks: case description (JSON, re-executable), record construction through the
// writer's own sort helper, brute-force "definitely matching" evaluator, and the PK-index check itself.

import (
	"bytes"
	"encoding/json"
	"fmt"
	"math"
	"sort"
	"strconv"
	"strings"
	"unicode/utf8"

	"github.com/openGemini/openGemini/engine/immutable"
	"github.com/openGemini/openGemini/engine/immutable/colstore"
	"github.com/openGemini/openGemini/engine/index/sparseindex"
	"github.com/openGemini/openGemini/lib/binaryfilterfunc"
	"github.com/openGemini/openGemini/lib/fragment"
	"github.com/openGemini/openGemini/lib/record"
	"github.com/openGemini/openGemini/lib/tokenizer"
	"github.com/openGemini/openGemini/lib/util"
	"github.com/openGemini/openGemini/lib/util/lifted/influx/influxql"
	"github.com/openGemini/openGemini/lib/util/lifted/vm/protoparser/influx"
)

const prop = "C20"

// ---------------------------------------------------------------- case description

// Col is one non-time column of the generated record.
type Col struct {
	Name string `json:"name"`
	Type string `json:"type"` // int | float | string | bool
}

// PKCase is the re-executable description of one primary-key-index case. Rows are given unsorted; the check
// sorts them with the column-store writer's own sort helper, exactly like the flush path does.
type PKCase struct {
	Kind string   `json:"kind"` // "pk"
	Cols []Col    `json:"cols"` // sorted by name (record schema order); the time column is implicit and last
	Keys []string `json:"keys"` // primary key (== sort key prefix) in key order; may contain "time"
	// Rows[i] = one value per Cols entry plus the time as last element; null = JSON null.
	// ints/time: decimal; floats: strconv 'g' -1; bool: true/false; strings: as is.
	Rows    [][]*string `json:"rows"`
	Frag    int         `json:"frag"`           // rows per fragment (fixed-size layout) / reader property
	Cuts    []int       `json:"cuts,omitempty"` // variable layout: first row of fragment 1,2,...; empty = fixed
	Coarse  int         `json:"coarse"`
	MinSeek int         `json:"min_rows_for_seek"`
	Cond    string      `json:"cond"`           // InfluxQL condition text, "" = none
	TMin    string      `json:"tmin,omitempty"` // time range handed to GetTimeCondition when time is a key ("" = unbounded)
	TMax    string      `json:"tmax,omitempty"`
}

func sp(s string) *string { return &s }

func fmtInt(v int64) string { return strconv.FormatInt(v, 10) }
func fmtFloatCell(v float64) string {
	return strconv.FormatFloat(v, 'g', -1, 64)
}

// litFloat renders a float literal the InfluxQL parser accepts (no exponent form).
func litFloat(v float64) string {
	s := strconv.FormatFloat(v, 'f', -1, 64)
	if !strings.Contains(s, ".") {
		s += ".0"
	}
	return s
}

// ---------------------------------------------------------------- typed cells

type cell struct {
	Null bool
	I    int64
	F    float64
	S    string
	B    bool
}

func typeCode(t string) int {
	switch t {
	case "int", "time":
		return influx.Field_Type_Int
	case "float":
		return influx.Field_Type_Float
	case "string":
		return influx.Field_Type_String
	case "bool":
		return influx.Field_Type_Boolean
	}
	return influx.Field_Type_Unknown
}

func parseCell(t string, s *string) (cell, error) {
	if s == nil {
		return cell{Null: true}, nil
	}
	switch t {
	case "int", "time":
		v, err := strconv.ParseInt(*s, 10, 64)
		return cell{I: v}, err
	case "float":
		v, err := strconv.ParseFloat(*s, 64)
		return cell{F: v}, err
	case "string":
		return cell{S: *s}, nil
	case "bool":
		v, err := strconv.ParseBool(*s)
		return cell{B: v}, err
	}
	return cell{}, fmt.Errorf("unknown column type %q", t)
}

func (c cell) render(t string) string {
	if c.Null {
		return "null"
	}
	switch t {
	case "int", "time":
		return fmtInt(c.I)
	case "float":
		return fmtFloatCell(c.F)
	case "string":
		return strconv.Quote(c.S)
	default:
		return strconv.FormatBool(c.B)
	}
}

// cmpCell orders two non-null cells the way the index orders the type: ints/floats numerically, strings
// bytewise, bool false<true.
func cmpCell(t string, x, y cell) int {
	switch t {
	case "int", "time":
		if x.I < y.I {
			return -1
		} else if x.I > y.I {
			return 1
		}
		return 0
	case "float":
		if x.F < y.F {
			return -1
		} else if x.F > y.F {
			return 1
		}
		return 0
	case "string":
		return bytes.Compare([]byte(x.S), []byte(y.S))
	default:
		if x.B == y.B {
			return 0
		} else if !x.B {
			return -1
		}
		return 1
	}
}

// padded maps a null to the value the writer's sort helper pads it with (lib/record/sort_item.go Pad*Slice).
func padded(t string, c cell) cell {
	if !c.Null {
		return c
	}
	switch t {
	case "int", "time":
		return cell{I: math.MinInt64}
	case "float":
		return cell{F: -math.MaxFloat64}
	case "string":
		return cell{S: ""}
	default:
		return cell{B: false}
	}
}

// ---------------------------------------------------------------- record construction

type table struct {
	cols   []Col // incl. time as last
	rec    *record.Record
	rows   [][]cell // rows of the SORTED record, one cell per cols entry
	colIdx map[string]int
}

type inconclusive string

func (e inconclusive) Error() string { return string(e) }

func (pc *PKCase) allCols() []Col {
	cols := append([]Col{}, pc.Cols...)
	return append(cols, Col{Name: record.TimeField, Type: "time"})
}

func appendCell(cv *record.ColVal, t string, c cell) {
	switch t {
	case "int", "time":
		if c.Null {
			cv.AppendIntegerNull()
		} else {
			cv.AppendInteger(c.I)
		}
	case "float":
		if c.Null {
			cv.AppendFloatNull()
		} else {
			cv.AppendFloat(c.F)
		}
	case "string":
		if c.Null {
			cv.AppendStringNull()
		} else {
			cv.AppendString(c.S)
		}
	default:
		if c.Null {
			cv.AppendBooleanNull()
		} else {
			cv.AppendBoolean(c.B)
		}
	}
}

func readCell(cv *record.ColVal, t string, i int) cell {
	if cv.IsNil(i) {
		return cell{Null: true}
	}
	switch t {
	case "int", "time":
		v, _ := cv.IntegerValue(i)
		return cell{I: v}
	case "float":
		v, _ := cv.FloatValue(i)
		return cell{F: v}
	case "string":
		v, _ := cv.StringValueSafe(i)
		return cell{S: v}
	default:
		v, _ := cv.BooleanValue(i)
		return cell{B: v}
	}
}

// buildTable builds the record, sorts it by the key with the writer's sort helper and reads the rows back.
func buildTable(colsNoTime []Col, keys []string, rawRows [][]*string) (*table, error) {
	cols := append(append([]Col{}, colsNoTime...), Col{Name: record.TimeField, Type: "time"})
	for i := 1; i < len(colsNoTime); i++ {
		if colsNoTime[i-1].Name >= colsNoTime[i].Name {
			return nil, inconclusive("columns not sorted by name")
		}
	}
	schema := make(record.Schemas, len(cols))
	idx := map[string]int{}
	for i, c := range cols {
		schema[i] = record.Field{Name: c.Name, Type: typeCode(c.Type)}
		idx[c.Name] = i
	}
	if len(rawRows) == 0 {
		return nil, inconclusive("no rows")
	}
	rec := record.NewRecord(schema, false)
	in := make([][]cell, len(rawRows))
	for r, raw := range rawRows {
		if len(raw) != len(cols) {
			return nil, inconclusive(fmt.Sprintf("row %d has %d values, want %d", r, len(raw), len(cols)))
		}
		in[r] = make([]cell, len(cols))
		for i, c := range cols {
			v, err := parseCell(c.Type, raw[i])
			if err != nil {
				return nil, inconclusive(err.Error())
			}
			if c.Type == "time" && v.Null {
				return nil, inconclusive("null time")
			}
			in[r][i] = v
			appendCell(&rec.ColVals[i], c.Type, v)
		}
	}
	sortKeys := make([]record.PrimaryKey, 0, len(keys))
	for _, k := range keys {
		i, ok := idx[k]
		if !ok {
			return nil, inconclusive("unknown key column " + k)
		}
		sortKeys = append(sortKeys, record.PrimaryKey{Key: k, Type: int32(typeCode(cols[i].Type))})
	}
	hlp := record.NewSortHelper()
	sorted := hlp.SortForColumnStore(rec, sortKeys, false, 0)
	tb := &table{cols: cols, rec: sorted, colIdx: idx}
	n := sorted.RowNums()
	if n != len(rawRows) {
		return nil, inconclusive(fmt.Sprintf("sort helper returned %d rows for %d", n, len(rawRows)))
	}
	tb.rows = make([][]cell, n)
	for r := 0; r < n; r++ {
		tb.rows[r] = make([]cell, len(cols))
		for i, c := range cols {
			tb.rows[r][i] = readCell(&sorted.ColVals[i], c.Type, r)
		}
	}
	// the harness assumes the writer's order: non-decreasing by key with nulls padded as the sort helper pads them,
	// and the same multiset of rows. Anything else is a defect of another component, not decided here.
	for r := 1; r < n; r++ {
		if tb.cmpKey(keys, tb.rows[r-1], tb.rows[r]) > 0 {
			return nil, inconclusive(fmt.Sprintf("sort helper output not ordered at row %d", r))
		}
	}
	if !sameMultiset(cols, in, tb.rows) {
		return nil, inconclusive("sort helper changed the set of rows")
	}
	return tb, nil
}

func (tb *table) cmpKey(keys []string, x, y []cell) int {
	for _, k := range keys {
		i := tb.colIdx[k]
		t := tb.cols[i].Type
		if c := cmpCell(t, padded(t, x[i]), padded(t, y[i])); c != 0 {
			return c
		}
	}
	return 0
}

func rowString(cols []Col, r []cell) string {
	var sb strings.Builder
	for i, c := range cols {
		if i > 0 {
			sb.WriteByte(' ')
		}
		sb.WriteString(c.Name + "=" + r[i].render(c.Type))
	}
	return sb.String()
}

func sameMultiset(cols []Col, a, b [][]cell) bool {
	if len(a) != len(b) {
		return false
	}
	x := make([]string, len(a))
	y := make([]string, len(b))
	for i := range a {
		x[i] = rowString(cols, a[i])
		y[i] = rowString(cols, b[i])
	}
	sort.Strings(x)
	sort.Strings(y)
	for i := range x {
		if x[i] != y[i] {
			return false
		}
	}
	return true
}

// ---------------------------------------------------------------- condition: parsing, features, evaluator

func varRefType(t string) influxql.DataType {
	switch t {
	case "int", "time":
		return influxql.Integer
	case "float":
		return influxql.Float
	case "string":
		return influxql.String
	case "bool":
		return influxql.Boolean
	}
	return influxql.Unknown
}

// parseCond parses the text the way a client-shaped condition arrives and sets the VarRef types like the planner.
func (tb *table) parseCond(text string) (influxql.Expr, error) {
	if text == "" {
		return nil, nil
	}
	expr, err := influxql.ParseExpr(text)
	if err != nil {
		return nil, err
	}
	influxql.WalkFunc(expr, func(nd influxql.Node) {
		if ref, ok := nd.(*influxql.VarRef); ok {
			if i, ok := tb.colIdx[ref.Val]; ok {
				ref.Type = varRefType(tb.cols[i].Type)
			}
		}
	})
	return expr, nil
}

// features of a parsed condition used for classes and for the code-defined known-finding predicates.
type feat struct {
	refs       map[string]int // column -> number of atoms
	ops        map[string]int
	and, or    int
	atoms      int
	depth      int
	mixedNum   bool            // numeric literal of the other numeric kind than the column
	strMatch   bool            // MATCHPHRASE / LIKE / MATCH atom
	mixedCols  map[string]bool // columns compared with a numeric literal of the other kind
	phraseCols map[string]bool // columns under MATCHPHRASE
	likeCols   map[string]bool // columns under LIKE / MATCH
	phrases    []string        // MATCHPHRASE literals
	inAtom     bool
	other      bool // a construct the evaluator does not decide
}

func (tb *table) features(e influxql.Expr) *feat {
	f := &feat{refs: map[string]int{}, ops: map[string]int{}, mixedCols: map[string]bool{}, phraseCols: map[string]bool{}, likeCols: map[string]bool{}}
	var walk func(e influxql.Expr, d int)
	walk = func(e influxql.Expr, d int) {
		if d > f.depth {
			f.depth = d
		}
		switch n := e.(type) {
		case nil:
		case *influxql.ParenExpr:
			walk(n.Expr, d)
		case *influxql.BinaryExpr:
			switch n.Op {
			case influxql.AND:
				f.and++
				walk(n.LHS, d+1)
				walk(n.RHS, d+1)
				return
			case influxql.OR:
				f.or++
				walk(n.LHS, d+1)
				walk(n.RHS, d+1)
				return
			}
			f.atoms++
			f.ops[n.Op.String()]++
			ref, lit, _ := splitAtom(n)
			if ref == nil {
				f.other = true
				return
			}
			f.refs[ref.Val]++
			switch n.Op {
			case influxql.MATCHPHRASE:
				f.strMatch = true
				f.phraseCols[ref.Val] = true
				if sl, ok := lit.(*influxql.StringLiteral); ok {
					f.phrases = append(f.phrases, sl.Val)
				}
			case influxql.LIKE, influxql.MATCH:
				f.strMatch = true
				f.likeCols[ref.Val] = true
			case influxql.IN:
				f.inAtom = true
			}
			if i, ok := tb.colIdx[ref.Val]; ok {
				switch lit.(type) {
				case *influxql.NumberLiteral:
					if tb.cols[i].Type == "int" || tb.cols[i].Type == "time" {
						f.mixedNum = true
						f.mixedCols[ref.Val] = true
					}
				case *influxql.IntegerLiteral:
					if tb.cols[i].Type == "float" {
						f.mixedNum = true
						f.mixedCols[ref.Val] = true
					}
				}
			}
		default:
			f.other = true
		}
	}
	walk(e, 0)
	return f
}

var mirror = map[influxql.Token]influxql.Token{
	influxql.EQ: influxql.EQ, influxql.NEQ: influxql.NEQ, influxql.LT: influxql.GT, influxql.GT: influxql.LT,
	influxql.LTE: influxql.GTE, influxql.GTE: influxql.LTE,
}

// splitAtom returns (column, literal, operator with the column on the left).
func splitAtom(n *influxql.BinaryExpr) (*influxql.VarRef, influxql.Expr, influxql.Token) {
	if ref, ok := n.LHS.(*influxql.VarRef); ok {
		if _, ok2 := n.RHS.(*influxql.VarRef); ok2 {
			return nil, nil, n.Op
		}
		return ref, n.RHS, n.Op
	}
	if ref, ok := n.RHS.(*influxql.VarRef); ok {
		op, ok := mirror[n.Op]
		if !ok {
			return nil, nil, n.Op
		}
		return ref, n.LHS, op
	}
	return nil, nil, n.Op
}

func opHolds(op influxql.Token, c int) (bool, bool) {
	switch op {
	case influxql.EQ:
		return c == 0, true
	case influxql.NEQ:
		return c != 0, true
	case influxql.LT:
		return c < 0, true
	case influxql.LTE:
		return c <= 0, true
	case influxql.GT:
		return c > 0, true
	case influxql.GTE:
		return c >= 0, true
	}
	return false, false
}

// defTrue reports whether the row DEFINITELY satisfies the condition: every atom that is needed for the truth
// compares a non-null column with a literal of a comparable kind. Anything the evaluator does not understand is
// "not definitely true", which can only make the oracle weaker, never wrong.
func (tb *table) defTrue(e influxql.Expr, r []cell) bool {
	switch n := e.(type) {
	case nil:
		return true
	case *influxql.ParenExpr:
		return tb.defTrue(n.Expr, r)
	case *influxql.BinaryExpr:
		switch n.Op {
		case influxql.AND:
			return tb.defTrue(n.LHS, r) && tb.defTrue(n.RHS, r)
		case influxql.OR:
			return tb.defTrue(n.LHS, r) || tb.defTrue(n.RHS, r)
		}
		ref, lit, op := splitAtom(n)
		if ref == nil {
			return false
		}
		i, ok := tb.colIdx[ref.Val]
		if !ok {
			return false
		}
		v := r[i]
		if v.Null {
			return false
		}
		t := tb.cols[i].Type
		if op == influxql.MATCHPHRASE {
			sl, ok := lit.(*influxql.StringLiteral)
			if !ok || t != "string" {
				return false
			}
			return phraseDefinitelyMatches(v.S, sl.Val)
		}
		var c int
		switch l := lit.(type) {
		case *influxql.IntegerLiteral:
			switch t {
			case "int", "time":
				c = cmpCell("int", v, cell{I: l.Val})
			case "float": // the row filter converts the literal: lib/binaryfilterfunc genRPNElementByVal / formatRHS
				c = cmpCell("float", v, cell{F: float64(l.Val)})
			default:
				return false
			}
		case *influxql.NumberLiteral:
			switch t {
			case "float":
				c = cmpCell("float", v, cell{F: l.Val})
			case "int": // Int2Float in the row filter: the column value is compared as float64
				c = cmpCell("float", cell{F: float64(v.I)}, cell{F: l.Val})
			default:
				return false
			}
		case *influxql.StringLiteral:
			if t != "string" {
				return false
			}
			c = cmpCell("string", v, cell{S: l.Val})
		case *influxql.BooleanLiteral:
			if t != "bool" || (op != influxql.EQ && op != influxql.NEQ) {
				return false
			}
			c = cmpCell("bool", v, cell{B: l.Val})
		default:
			return false
		}
		res, ok := opHolds(op, c)
		return ok && res
	}
	return false
}

// phraseDefinitelyMatches: content and phrase are words (no split characters, no control bytes) separated by single
// spaces and the phrase is a run of whole consecutive words of the content; cross-checked with the executor's own token finder.
func phraseDefinitelyMatches(content, phrase string) bool {
	if phrase == "" || content == "" {
		return false
	}
	split := tokenizer.GetFullTextOption(nil).TokensTable
	for _, s := range []string{content, phrase} {
		if !utf8.ValidString(s) || strings.HasPrefix(s, " ") || strings.HasSuffix(s, " ") || strings.Contains(s, "  ") {
			return false
		}
		for i := 0; i < len(s); i++ {
			ch := s[i]
			if ch != ' ' && (ch < 0x20 || ch == 0x7f || split[ch] != 0) {
				return false
			}
		}
	}
	if !strings.Contains(" "+content+" ", " "+phrase+" ") {
		return false
	}
	finder := tokenizer.NewSimpleTokenFinder(tokenizer.GetFullTextOption(nil).TokensTable)
	finder.InitInput([]byte(content), []byte(phrase))
	return finder.Next()
}

// ---------------------------------------------------------------- the primary-key check

type pkResult struct {
	strategy   string // binary | exclusion | noindex
	usedKeys   int
	nfrag      int
	covered    int // fragments inside the returned ranges
	must       int // fragments holding a definitely matching row
	rejected   string
	scanErr    string
	feat       *feat
	tb         *table
	lastRows   int
	keyTypes   []string
	hasNullKey bool
}

type violation struct {
	msg string
}

func (v *violation) Error() string { return v.msg }

func (pc *PKCase) keyIndex(name string) int {
	for i, k := range pc.Keys {
		if k == name {
			return i
		}
	}
	return -1
}

func fragRangesString(rs fragment.FragmentRanges) string {
	var s []string
	for _, r := range rs {
		s = append(s, fmt.Sprintf("[%d,%d)", r.Start, r.End))
	}
	return "{" + strings.Join(s, ",") + "}"
}

// bounds returns the accumulate-rows index the writer hands to Build and the first row of every fragment.
func (pc *PKCase) bounds(tb *table) ([]int, []int, int, error) {
	n := len(tb.rows)
	if len(pc.Cuts) == 0 {
		if pc.Frag < 1 {
			return nil, nil, 0, inconclusive("frag < 1")
		}
		acc := immutable.GenFixRowsPerSegment(tb.rec, pc.Frag)
		starts := make([]int, len(acc))
		for i := range acc {
			starts[i] = i * pc.Frag
		}
		return acc, starts, pc.Frag, nil
	}
	// variable-size fragments (the layout the writer uses next to a bloom-filter index): cut = first row of the next fragment
	prev := 0
	starts := []int{0}
	acc := []int{}
	for _, c := range pc.Cuts {
		if c <= prev || c > n-1 {
			return nil, nil, 0, inconclusive("bad cuts")
		}
		acc = append(acc, c)
		starts = append(starts, c)
		prev = c
	}
	acc = append(acc, n-1)
	return acc, starts, 0, nil
}

func parseOptInt(s string, def int64) (int64, error) {
	if s == "" {
		return def, nil
	}
	return strconv.ParseInt(s, 10, 64)
}

// checkPK executes one case. error == *violation: the property is broken; inconclusive: case not interpretable.
func checkPK(pc *PKCase) (*pkResult, error) {
	tb, err := buildTable(pc.Cols, pc.Keys, pc.Rows)
	if err != nil {
		return nil, err
	}
	res := &pkResult{tb: tb}
	if len(pc.Keys) == 0 || pc.Coarse < 2 {
		return nil, inconclusive("no keys or coarse < 2")
	}
	pkSchema := make(record.Schemas, len(pc.Keys))
	for i, k := range pc.Keys {
		ci := tb.colIdx[k]
		pkSchema[i] = record.Field{Name: k, Type: typeCode(tb.cols[ci].Type)}
		res.keyTypes = append(res.keyTypes, tb.cols[ci].Type)
		for _, r := range tb.rows {
			if r[ci].Null {
				res.hasNullKey = true
			}
		}
	}
	acc, starts, fix, err := pc.bounds(tb)
	if err != nil {
		return nil, err
	}
	res.nfrag = len(acc)
	res.lastRows = len(tb.rows) - starts[len(starts)-1]
	pkRec, pkMark, err := sparseindex.NewPKIndexWriter().Build(tb.rec, pkSchema, acc, colstore.DefaultTCLocation, fix)
	if err != nil {
		return nil, inconclusive("Build: " + err.Error())
	}
	if int(pkMark.GetFragmentCount()) != res.nfrag {
		return nil, inconclusive("fragment count mismatch")
	}

	oracleExpr, err := tb.parseCond(pc.Cond)
	if err != nil {
		return nil, inconclusive("cond does not parse: " + err.Error())
	}
	res.feat = tb.features(oracleExpr)
	tmin, err1 := parseOptInt(pc.TMin, influxql.MinTime)
	tmax, err2 := parseOptInt(pc.TMax, influxql.MaxTime)
	if err1 != nil || err2 != nil {
		return nil, inconclusive("bad time range")
	}
	tIdx := pkSchema.FieldIndex(record.TimeField)
	timeBound := tIdx >= 0 && (pc.TMin != "" || pc.TMax != "")
	if !timeBound && (pc.TMin != "" || pc.TMax != "") {
		return nil, inconclusive("time range given but time is not a key column")
	}
	tcol := tb.colIdx[record.TimeField]

	newCond := func() (*sparseindex.KeyConditionImpl, error) {
		expr, _ := tb.parseCond(pc.Cond) // fresh tree: NewKeyCondition rewrites it in place
		var timeCond influxql.Expr
		if timeBound {
			// the engine builds it this way: engine/hybrid_index_reader.go initKeyCondition
			timeCond = binaryfilterfunc.GetTimeCondition(util.TimeRange{Min: tmin, Max: tmax}, pkSchema, tIdx)
		}
		return sparseindex.NewKeyCondition(timeCond, expr, pkRec.Schema)
	}
	if timeBound {
		res.feat.refs[record.TimeField]++
	}

	// fragments that must be read
	must := make([]int, res.nfrag) // witness row + 1
	fragOf := func(row int) int {
		return sort.Search(len(starts), func(i int) bool { return starts[i] > row }) - 1
	}
	for i, r := range tb.rows {
		if timeBound && (r[tcol].I < tmin || r[tcol].I > tmax) {
			continue
		}
		if tb.defTrue(oracleExpr, r) {
			f := fragOf(i)
			if must[f] == 0 {
				must[f] = i + 1
				res.must++
			}
		}
	}

	indexDump := func() string {
		var sb strings.Builder
		for r := 0; r < pkRec.RowNums(); r++ {
			if r > 0 {
				sb.WriteString(" | ")
			}
			for i, k := range pc.Keys {
				if i > 0 {
					sb.WriteByte(',')
				}
				t := tb.cols[tb.colIdx[k]].Type
				sb.WriteString(readCell(pkRec.Column(i), t, r).render(t))
			}
		}
		return sb.String()
	}
	before := indexDump()

	for pass := 0; pass < 2; pass++ {
		kc, err := newCond()
		if err != nil {
			res.rejected = err.Error()
			return res, nil
		}
		if pass == 0 {
			res.usedKeys = kc.GetMaxKeyIndex() + 1
			switch {
			case !kc.HavePrimaryKey():
				res.strategy = "noindex"
			case kc.CanDoBinarySearch():
				res.strategy = "binary"
			default:
				res.strategy = "exclusion"
			}
		}
		rd := sparseindex.NewPKIndexReader(pc.Frag, pc.Coarse, pc.MinSeek)
		rngs, err := rd.Scan("c20.idx", pkRec, pkMark, kc)
		if err != nil {
			res.scanErr = err.Error()
			return res, nil
		}
		in := make([]bool, res.nfrag)
		cov := 0
		for _, r := range rngs {
			for f := r.Start; f < r.End && int(f) < res.nfrag; f++ {
				if !in[f] {
					in[f] = true
					cov++
				}
			}
		}
		if pass == 0 {
			res.covered = cov
		}
		for f := 0; f < res.nfrag; f++ {
			if must[f] != 0 && !in[f] {
				w := must[f] - 1
				end := len(tb.rows)
				if f+1 < len(starts) {
					end = starts[f+1]
				}
				what := "Scan"
				extra := ""
				if pass == 1 {
					what = "second Scan of the same (cached) index record"
					extra = fmt.Sprintf("; index record before first scan: %s; after: %s", before, indexDump())
				}
				tr := ""
				if timeBound {
					tr = fmt.Sprintf(" time in [%d,%d] AND", tmin, tmax)
				}
				return res, &violation{fmt.Sprintf("%s pruned fragment %d (rows %d..%d) although row %d {%s} satisfies%s %s; returned %s of %d fragments; strategy=%s keys=%v; index rows: %s%s",
					what, f, starts[f], end-1, w, rowString(tb.cols, tb.rows[w]), tr, pc.Cond, fragRangesString(rngs), res.nfrag, res.strategy, pc.Keys, before, extra)}
			}
		}
	}
	return res, nil
}

func caseJSON(v any) json.RawMessage {
	b, _ := json.Marshal(v)
	return b
}
