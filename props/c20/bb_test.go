package c20

// Black-box companion of C20 (campaign bb_colstore): column-store measurements created through the real DDL on a real
// ts-server, generated rows written through /write in several requests and forced flushes (one file per flush),
// generated conditions; the answer of every query (select *, select count(z), select <field>) must equal the
// brute-force evaluation of the condition over the written rows: flushed rows sit behind the primary-key sparse index
// and the declared skip indexes, and whatever the indexes let through still has to pass the row filter, so a missing
// row and a surplus row are both violations. The same queries are asked again after further files were added.
//
// Layout facts of the pinned tree the check relies on (engine/immutable/colstore_tssp_writer.go): one flush of one
// measurement gives one file; inside the file the rows are grouped by primary-key tuple, ONE FRAGMENT PER DISTINCT
// PRIMARY-KEY TUPLE (variable size; rows inside it ordered by the sort key). So "few distinct key values" gives files
// of many small fragments without any fragment-size knob (there is none: 8192 rows per segment is a constant).

import (
	"encoding/json"
	"fmt"
	"os"
	"sort"
	"strconv"
	"strings"
	"sync"
	"testing"
	"time"

	"pgregory.net/rapid"
	"verif/internal/bb"
	"verif/internal/ev"
)

const bbCampaign = "bb_colstore"
const bbDB = "db0"
const bbR11 = "finding:C20-R11(row filter combines two pending atoms instead of sub-result and atom)"
const bbR12 = "finding:C20-R12(count() with time bounds only is answered from the stored row count)"
const bbR13 = "finding:C20-R13(INDEXLIST with two columns: the second column's index file is never published)"
const bbR14 = "finding:C20-R14(text skip index evaluates every comparison on its column as a token match)"
const bbR15 = "finding:C20-R15(float literal on an integer column inside a condition with OR: int-to-float flag dropped)"
const bbT0 = int64(1700000000000000000) // inside one 7-day shard group of the default policy

// ---------------------------------------------------------------- case description (re-executable JSON)

type bbCol struct {
	Name string `json:"name"`
	Type string `json:"type"` // tag | string | int | float | bool
}

type bbIndex struct {
	Kind string   `json:"kind"` // bloomfilter | minmax | set | text | bloomfilter_ip
	Cols []string `json:"cols"`
}

// bbNode is a condition tree. Atoms: Col Cmp Lit (Flip: literal on the left with the mirrored operator).
type bbNode struct {
	Op      string  `json:"op,omitempty"` // AND | OR ; "" = atom
	L       *bbNode `json:"l,omitempty"`
	R       *bbNode `json:"r,omitempty"`
	Col     string  `json:"col,omitempty"`
	Cmp     string  `json:"cmp,omitempty"`     // = != <> < <= > >=
	Lit     string  `json:"lit,omitempty"`     // canonical text of the value (no quotes)
	LitKind string  `json:"litkind,omitempty"` // int | float | string | bool
	Flip    bool    `json:"flip,omitempty"`
	Paren   bool    `json:"paren,omitempty"` // extra parentheses around this node
}

type bbQuery struct {
	Cond     *bbNode `json:"cond,omitempty"`
	HasTMin  bool    `json:"has_tmin,omitempty"`
	TMin     int64   `json:"tmin,omitempty"`
	TMinExcl bool    `json:"tmin_excl,omitempty"`
	HasTMax  bool    `json:"has_tmax,omitempty"`
	TMax     int64   `json:"tmax,omitempty"`
	TMaxExcl bool    `json:"tmax_excl,omitempty"`
	Form     string  `json:"form"` // star | count | proj
	Proj     string  `json:"proj,omitempty"`
}

type bbBatch struct {
	N     int  `json:"n"`     // number of rows (taken from Rows in order), one write request
	Flush bool `json:"flush"` // forced flush after the batch: the rows written since the last flush become one file
	Query bool `json:"query"` // run every query after this batch (the last batch is always flushed and queried)
}

type bbCase struct {
	Kind    string     `json:"kind"` // "bb_colstore"
	Cols    []bbCol    `json:"cols"` // every non-time column; the column z (int, always 1) is implicit and not listed
	Keys    []string   `json:"keys"`
	SortKey []string   `json:"sortkey,omitempty"` // empty: SORTKEY clause omitted (= primary key)
	Index   []bbIndex  `json:"index,omitempty"`
	Rows    [][]string `json:"rows"` // one value per Cols entry, then the timestamp (ns, decimal)
	Batches []bbBatch  `json:"batches"`
	Queries []bbQuery  `json:"queries"`
}

func (cs *bbCase) colType(name string) string {
	if name == "z" {
		return "int"
	}
	for _, c := range cs.Cols {
		if c.Name == name {
			return c.Type
		}
	}
	return ""
}

func (cs *bbCase) colIdx(name string) int {
	for i, c := range cs.Cols {
		if c.Name == name {
			return i
		}
	}
	return -1
}

func (cs *bbCase) keyIdx(name string) int {
	for i, k := range cs.Keys {
		if k == name {
			return i
		}
	}
	return -1
}

// ---------------------------------------------------------------- rendering

func bbDDLType(t string) string {
	switch t {
	case "tag":
		return "tag"
	case "string":
		return "string"
	case "int":
		return "int64"
	case "float":
		return "float64"
	}
	return "bool"
}

func (cs *bbCase) ddl(mst string, withIndex bool) string {
	var sb strings.Builder
	fmt.Fprintf(&sb, "CREATE MEASUREMENT %s.autogen.%s (", bbDB, mst)
	for _, c := range cs.Cols {
		fmt.Fprintf(&sb, "%s %s, ", c.Name, bbDDLType(c.Type))
	}
	sb.WriteString("z int64) WITH ENGINETYPE = columnstore")
	if withIndex && len(cs.Index) > 0 {
		sb.WriteString(" INDEXTYPE")
		for _, ix := range cs.Index {
			fmt.Fprintf(&sb, " %s INDEXLIST %s", ix.Kind, strings.Join(ix.Cols, ","))
		}
	}
	fmt.Fprintf(&sb, " PRIMARYKEY %s", strings.Join(cs.Keys, ","))
	if len(cs.SortKey) > 0 {
		fmt.Fprintf(&sb, " SORTKEY %s", strings.Join(cs.SortKey, ","))
	}
	return sb.String()
}

func (cs *bbCase) line(mst string, row []string) string {
	var tags, fields []string
	for i, c := range cs.Cols {
		v := row[i]
		switch c.Type {
		case "tag":
			tags = append(tags, c.Name+"="+v)
		case "string":
			fields = append(fields, c.Name+`="`+v+`"`)
		case "int":
			fields = append(fields, c.Name+"="+v+"i")
		default:
			fields = append(fields, c.Name+"="+v)
		}
	}
	fields = append(fields, "z=1i")
	s := mst
	if len(tags) > 0 {
		s += "," + strings.Join(tags, ",")
	}
	return s + " " + strings.Join(fields, ",") + " " + row[len(cs.Cols)]
}

func bbLitText(kind, lit string) string {
	switch kind {
	case "string":
		return "'" + lit + "'"
	case "float":
		// the InfluxQL scanner knows no exponent notation
		if f, err := strconv.ParseFloat(lit, 64); err == nil {
			lit = strconv.FormatFloat(f, 'f', -1, 64)
		}
		if !strings.ContainsAny(lit, ".") {
			return lit + ".0"
		}
	}
	return lit
}

var bbMirror = map[string]string{"=": "=", "!=": "!=", "<>": "<>", "<": ">", ">": "<", "<=": ">=", ">=": "<="}

func (n *bbNode) text() string {
	var s string
	if n.Op == "" {
		if n.Flip {
			s = bbLitText(n.LitKind, n.Lit) + " " + bbMirror[n.Cmp] + " " + n.Col
		} else {
			s = n.Col + " " + n.Cmp + " " + bbLitText(n.LitKind, n.Lit)
		}
	} else {
		// The text fixes the tree shape for any parser: a compound right child and a child joined by the other connective
		// are always parenthesised (the front end puts AND and OR on one precedence level: known finding C12-or-before-and);
		// only a left child with the same connective is left bare (a AND b AND c = (a AND b) AND c in both parsers).
		side := func(ch *bbNode, left bool) string {
			t := ch.text()
			if ch.Op != "" && !ch.Paren && !(left && ch.Op == n.Op) {
				t = "(" + t + ")"
			}
			return t
		}
		s = side(n.L, true) + " " + n.Op + " " + side(n.R, false)
	}
	if n.Paren {
		s = "(" + s + ")"
	}
	return s
}

func (q *bbQuery) where() string {
	var parts []string
	if q.Cond != nil {
		t := q.Cond.text()
		if (q.HasTMin || q.HasTMax) && q.Cond.Op != "" && !q.Cond.Paren {
			t = "(" + t + ")"
		}
		parts = append(parts, t)
	}
	if q.HasTMin {
		op := ">="
		if q.TMinExcl {
			op = ">"
		}
		parts = append(parts, fmt.Sprintf("time %s %d", op, q.TMin))
	}
	if q.HasTMax {
		op := "<="
		if q.TMaxExcl {
			op = "<"
		}
		parts = append(parts, fmt.Sprintf("time %s %d", op, q.TMax))
	}
	if len(parts) == 0 {
		return ""
	}
	return " where " + strings.Join(parts, " AND ")
}

func (q *bbQuery) sql(mst string) string {
	sel := "*"
	switch q.Form {
	case "count":
		sel = "count(z)"
	case "proj":
		sel = q.Proj
	}
	return "select " + sel + " from " + mst + q.where()
}

// ---------------------------------------------------------------- brute-force evaluator (no nulls anywhere)

func bbCmpHolds(cmp string, c int) bool {
	switch cmp {
	case "=":
		return c == 0
	case "!=", "<>":
		return c != 0
	case "<":
		return c < 0
	case "<=":
		return c <= 0
	case ">":
		return c > 0
	}
	return c >= 0
}

func bbCmpFloat(a, b float64) int {
	if a < b {
		return -1
	}
	if a > b {
		return 1
	}
	return 0
}

// atomHolds evaluates one comparison. Numeric comparisons of mixed kinds are done in float64 (the row filter converts
// the integer side, lib/binaryfilterfunc); all generated magnitudes are far below 2^53.
func (cs *bbCase) atomHolds(n *bbNode, row []string) (bool, error) {
	var v string
	if n.Col == "z" {
		v = "1"
	} else {
		i := cs.colIdx(n.Col)
		if i < 0 {
			return false, fmt.Errorf("unknown column %q", n.Col)
		}
		v = row[i]
	}
	switch t := cs.colType(n.Col); t {
	case "tag", "string":
		if n.LitKind != "string" {
			return false, fmt.Errorf("literal kind %s on string column", n.LitKind)
		}
		return bbCmpHolds(n.Cmp, strings.Compare(v, n.Lit)), nil
	case "bool":
		if n.LitKind != "bool" || (n.Cmp != "=" && n.Cmp != "!=" && n.Cmp != "<>") {
			return false, fmt.Errorf("bad bool atom")
		}
		c := 0
		if v != n.Lit {
			c = 1
		}
		return bbCmpHolds(n.Cmp, c), nil
	case "int":
		if n.LitKind == "int" {
			a, e1 := strconv.ParseInt(v, 10, 64)
			b, e2 := strconv.ParseInt(n.Lit, 10, 64)
			if e1 != nil || e2 != nil {
				return false, fmt.Errorf("bad int")
			}
			c := 0
			if a < b {
				c = -1
			} else if a > b {
				c = 1
			}
			return bbCmpHolds(n.Cmp, c), nil
		}
		fallthrough
	case "float":
		if n.LitKind != "int" && n.LitKind != "float" {
			return false, fmt.Errorf("literal kind %s on numeric column", n.LitKind)
		}
		a, e1 := strconv.ParseFloat(v, 64)
		b, e2 := strconv.ParseFloat(n.Lit, 64)
		if e1 != nil || e2 != nil {
			return false, fmt.Errorf("bad number")
		}
		return bbCmpHolds(n.Cmp, bbCmpFloat(a, b)), nil
	}
	return false, fmt.Errorf("unknown type of %q", n.Col)
}

func (cs *bbCase) holds(n *bbNode, row []string) (bool, error) {
	if n == nil {
		return true, nil
	}
	if n.Op == "" {
		return cs.atomHolds(n, row)
	}
	l, err := cs.holds(n.L, row)
	if err != nil {
		return false, err
	}
	r, err := cs.holds(n.R, row)
	if err != nil {
		return false, err
	}
	if n.Op == "AND" {
		return l && r, nil
	}
	return l || r, nil
}

func (cs *bbCase) rowTime(row []string) int64 {
	t, _ := strconv.ParseInt(row[len(cs.Cols)], 10, 64)
	return t
}

func (cs *bbCase) matches(q *bbQuery, row []string) (bool, error) {
	t := cs.rowTime(row)
	if q.HasTMin && (t < q.TMin || (q.TMinExcl && t == q.TMin)) {
		return false, nil
	}
	if q.HasTMax && (t > q.TMax || (q.TMaxExcl && t == q.TMax)) {
		return false, nil
	}
	return cs.holds(q.Cond, row)
}

// features of a condition
type bbFeat struct {
	cols   map[string]bool
	ops    map[string]bool
	and    bool
	or     bool
	flip   bool
	mixed  bool // numeric literal of the other kind than the column
	atoms  int
	maxKey int
}

func (cs *bbCase) feat(n *bbNode) *bbFeat {
	f := &bbFeat{cols: map[string]bool{}, ops: map[string]bool{}, maxKey: -1}
	var walk func(n *bbNode)
	walk = func(n *bbNode) {
		if n == nil {
			return
		}
		if n.Op == "" {
			f.atoms++
			f.cols[n.Col] = true
			f.ops[n.Cmp] = true
			if n.Flip {
				f.flip = true
			}
			t := cs.colType(n.Col)
			if (t == "int" && n.LitKind == "float") || (t == "float" && n.LitKind == "int") {
				f.mixed = true
			}
			if k := cs.keyIdx(n.Col); k > f.maxKey {
				f.maxKey = k
			}
			return
		}
		if n.Op == "AND" {
			f.and = true
		} else {
			f.or = true
		}
		walk(n.L)
		walk(n.R)
	}
	walk(n)
	return f
}

// knownClass names the known-finding class a (schema, condition) pair falls into ("" = none). The generator never
// emits such a pair (it counts the exclusion and draws again); replays are not filtered.
func (cs *bbCase) knownClass(n *bbNode) string {
	if n == nil {
		return ""
	}
	cls := ""
	var walk func(n *bbNode)
	walk = func(n *bbNode) {
		if n == nil || cls != "" {
			return
		}
		if n.Op != "" {
			walk(n.L)
			walk(n.R)
			return
		}
		t := cs.colType(n.Col)
		if cs.keyIdx(n.Col) >= 0 {
			if (t == "int" && n.LitKind == "float") || (t == "float" && n.LitKind == "int") {
				cls = "known:C20-R4(mixed numeric literal on key column)"
			} else if t == "float" && n.LitKind == "float" {
				if v, err := strconv.ParseFloat(n.Lit, 64); err == nil && v == float64(int64(v)) {
					// the planner prints 2.0 as 2 (C12-float-integral), the store then reads an integer literal on a float key (R4b)
					cls = "known:C12-float-integral+C20-R4b(integral float literal on float key column)"
				}
			}
		}
	}
	walk(n)
	if cls != "" {
		return cls
	}
	// R2: with three key columns in use (the condition references the third one) and an integer middle key the scan
	// rewrites the middle key values inside the file's cached index record (Range.turnOpenRangeIntoClosed, value +-1 per
	// scan). The library check needs the first key referenced to see a wrong pruning inside that one scan; on a server
	// the rewritten record stays cached, so ANY such condition poisons every later query on the file (observed: rows
	// written with i0 = 3 come back as i0 = 9 and "i0 < 5" loses fragments): the whole shape is left out.
	f := cs.feat(n)
	if len(cs.Keys) == 3 && f.maxKey == 2 && cs.colType(cs.Keys[1]) == "int" {
		return "known:C20-R2(third key column referenced, integer middle key: cached index record rewritten)"
	}
	return ""
}

// findingClass: classes found by this campaign on the pinned tree (replays r14/r15), excluded like the known ones.
func (cs *bbCase) findingClass(n *bbNode) string {
	f := cs.feat(n)
	cls := ""
	var walk func(n *bbNode)
	walk = func(n *bbNode) {
		if n == nil || cls != "" {
			return
		}
		if n.Op != "" {
			walk(n.L)
			walk(n.R)
			return
		}
		// (the token match also breaks "=" when the value is not a single token: s0 = 'b a' loses blocks - thorough tier, 1 in ~3000 cases)
		singleToken := n.Lit != ""
		for _, r := range n.Lit {
			if !(r >= 'a' && r <= 'z' || r >= 'A' && r <= 'Z' || r >= '0' && r <= '9') {
				singleToken = false
			}
		}
		if n.Cmp != "=" || !singleToken {
			for _, ix := range cs.Index {
				if ix.Kind == "text" && len(ix.Cols) > 0 && ix.Cols[0] == n.Col {
					cls = bbR14
				}
			}
		}
		if f.or && cs.colType(n.Col) == "int" && n.LitKind == "float" {
			cls = bbR15
		}
	}
	walk(n)
	return cls
}

// ---------------------------------------------------------------- finding R11: the column store's row filter

// rowFilterDiffers mirrors lib/binaryfilterfunc ConditionImpl.filterCompoundExpr on the reverse Polish form of
// "time condition AND condition" (engine/column_store_reader.go initSchemaAndPool, lib/rpn ConvertToRPNExpr: plain
// post-order). That evaluator keeps pending atoms and folded sub-results on two separate stacks and so loses their
// order: an operator that finds two pending atoms combines THEM even when its operands are a folded sub-result and the
// newest atom (f0 > 0.0 AND (z = 5 OR z = 6 OR z = 1) selects nothing). The function reports whether the mirrored
// evaluator differs from the condition for some truth assignment of the atoms (or runs out of its bitmaps): that is
// the excluded class. Conditions without OR take the other evaluator (all atoms ANDed in sequence) and are never in it.
func (q *bbQuery) rowFilterDiffers() bool {
	type item struct {
		op   string // "" atom
		atom int
	}
	var rpnl []item
	natoms := 0
	hasOr := false
	var emit func(n *bbNode)
	emit = func(n *bbNode) {
		if n.Op == "" {
			rpnl = append(rpnl, item{atom: natoms})
			natoms++
			return
		}
		emit(n.L)
		emit(n.R)
		rpnl = append(rpnl, item{op: n.Op})
		if n.Op == "OR" {
			hasOr = true
		}
	}
	// the time condition the reader prepends: one atom (one bound, or equal bounds) or "time >= a AND time <= b"
	ntime := 0
	if q.HasTMin || q.HasTMax {
		rpnl = append(rpnl, item{atom: natoms})
		natoms++
		ntime = 1
		lo, hi := q.TMin, q.TMax
		if q.TMinExcl {
			lo++
		}
		if q.TMaxExcl {
			hi--
		}
		if q.HasTMin && q.HasTMax && lo != hi {
			rpnl = append(rpnl, item{atom: natoms}, item{op: "AND"})
			natoms++
			ntime = 2
		}
	}
	if q.Cond == nil {
		return false
	}
	emit(q.Cond)
	if ntime > 0 {
		rpnl = append(rpnl, item{op: "AND"})
	}
	if !hasOr || natoms > 14 {
		return natoms > 14
	}
	// number of bitmaps the evaluator allocates (getNumFilter)
	nbm, pend := 0, 0
	for _, it := range rpnl {
		switch {
		case it.op == "":
			pend++
		case it.op == "AND":
			if pend == 1 {
				pend = 0
			} else if pend >= 2 {
				nbm++
				pend -= 2
			}
		default:
			if pend == 1 {
				nbm++
				pend = 0
			} else if pend >= 2 {
				nbm += 2
				pend -= 2
			}
		}
	}
	type bm struct{ set, v bool }
	for mask := 0; mask < 1<<natoms; mask++ {
		val := func(a int) bool { return mask&(1<<a) != 0 }
		// the true value
		var st []bool
		for _, it := range rpnl {
			if it.op == "" {
				st = append(st, val(it.atom))
				continue
			}
			a, b := st[len(st)-2], st[len(st)-1]
			st = st[:len(st)-2]
			if it.op == "AND" {
				st = append(st, a && b)
			} else {
				st = append(st, a || b)
			}
		}
		want := st[0]
		// the mirrored evaluator
		bms := make([]bm, nbm+1)
		idx := 0
		var stack []int
		bad := false
		at := func(i int) *bm {
			if i < 0 || i >= nbm {
				bad = true
				return &bms[nbm]
			}
			return &bms[i]
		}
		for _, it := range rpnl {
			if bad {
				break
			}
			switch {
			case it.op == "":
				stack = append(stack, it.atom)
			case it.op == "AND":
				switch len(stack) {
				case 0:
					if idx < 1 {
						bad = true
						break
					}
					a, b := at(idx-1), at(idx)
					a.v = a.v && b.v
					*b = bm{}
					idx--
				case 1:
					b := at(idx)
					if !b.set {
						bad = true
						break
					}
					b.v = b.v && val(stack[0])
					stack = stack[:0]
				default:
					e1, e2 := stack[len(stack)-1], stack[len(stack)-2]
					if at(idx).set {
						idx++
					}
					*at(idx) = bm{set: true, v: val(e1) && val(e2)}
					stack = stack[:len(stack)-2]
				}
			default:
				switch len(stack) {
				case 0:
					if idx < 1 {
						bad = true
						break
					}
					a, b := at(idx-1), at(idx)
					a.v = a.v || b.v
					*b = bm{}
					idx--
				case 1:
					idx++
					b := at(idx)
					a := at(idx - 1)
					if !a.set {
						bad = true
						break
					}
					*b = bm{set: true, v: val(stack[0])}
					a.v = a.v || b.v
					*b = bm{}
					stack = stack[:0]
					idx--
				default:
					e1, e2 := stack[len(stack)-1], stack[len(stack)-2]
					if at(idx).set {
						idx++
					}
					b1 := at(idx)
					*b1 = bm{set: true, v: val(e1)}
					idx++
					b2 := at(idx)
					b1.v = b1.v || val(e2)
					*b2 = bm{}
					stack = stack[:len(stack)-2]
					idx--
				}
			}
		}
		if bad || idx != 0 || len(stack) != 0 || !bms[0].set || bms[0].v != want {
			return true
		}
	}
	return false
}

// ---------------------------------------------------------------- server handling (one server per test process)

var bbState struct {
	mu         sync.Mutex
	srv        *bb.Server
	seq        int
	kindOnce   sync.Once
	kindDone   chan struct{}
	kinds      map[string]string // skip-index kind -> "" (usable) | reason it cannot be exercised
	memVisible map[*bb.Server]bool
	flushNotes []string
}

func bbKnobs() map[string]string {
	// the harness owns every flush: no cold-memtable flush, no periodic forced snapshot
	return map[string]string{"write-cold-duration": "1h", "raw:data.memtable": `force-snapShot-duration = "1h"`}
}

func bbNewServer(inst int) *bb.Server {
	srv := bb.NewServer(bb.Options{Prop: 20, Instance: inst, Knobs: bbKnobs()})
	srv.MustStart()
	srv.MustExec("", "create database "+bbDB)
	return srv
}

// bbServer returns the running server of this process (started on first use, replaced when it died).
func bbServer() *bb.Server {
	bbState.mu.Lock()
	defer bbState.mu.Unlock()
	if bbState.srv != nil && !bbState.srv.Alive() {
		bbState.srv.Destroy()
		bbState.srv = nil
	}
	if bbState.srv == nil {
		bbState.srv = bbNewServer(0)
	}
	return bbState.srv
}

func bbNextMst() string {
	bbState.mu.Lock()
	defer bbState.mu.Unlock()
	bbState.seq++
	return fmt.Sprintf("m%d", bbState.seq)
}

var bbAllKinds = []string{"bloomfilter", "minmax", "set", "text", "bloomfilter_ip"}

// bbProbeKinds decides once per process which skip-index kinds can be exercised through the real DDL on the tree under
// test: the DDL must be accepted and a forced flush of a measurement carrying the index must leave the server alive and
// the rows readable. Runs on sacrificial servers (instance 1) next to the main one.
func bbProbeKinds() {
	bbState.kindOnce.Do(func() {
		bbState.kindDone = make(chan struct{})
		bbState.kinds = map[string]string{}
		go func() {
			defer close(bbState.kindDone)
			res := map[string]string{}
			var srv *bb.Server
			defer func() {
				if srv != nil {
					srv.Destroy()
				}
			}()
			for _, kind := range bbAllKinds {
				if kind == "bloomfilter_ip" {
					res[kind] = "not generated (needs IP-address strings)"
					continue
				}
				if srv == nil || !srv.Alive() {
					if srv != nil {
						srv.Destroy()
					}
					srv = bbNewServer(1)
				}
				mst := "probe_" + kind
				col, val := "s0", `"ab"`
				if kind == "minmax" {
					col = "i0"
				}
				ddl := fmt.Sprintf("CREATE MEASUREMENT %s.autogen.%s (s0 string, i0 int64, z int64) WITH ENGINETYPE = columnstore INDEXTYPE %s INDEXLIST %s PRIMARYKEY i0", bbDB, mst, kind, col)
				r, err := srv.Query("", ddl, nil)
				if err != nil {
					res[kind] = "probe transport error: " + err.Error()
					continue
				}
				if r.Err != "" {
					res[kind] = "DDL rejected: " + r.Err
					continue
				}
				var lines []string
				for i := 0; i < 4; i++ {
					lines = append(lines, fmt.Sprintf("%s s0=%s,i0=%di,z=1i %d", mst, val, i%2, bbT0+int64(i)*1e9))
				}
				if msg := bbWrite(srv, strings.Join(lines, "\n")); msg != "" {
					res[kind] = "probe write failed: " + msg
					continue
				}
				bbFlush(srv)
				ok := false
				deadline := time.Now().Add(10 * time.Second)
				for srv.Alive() && time.Now().Before(deadline) {
					if n, e := bbCount(srv, "select count(z) from "+mst+" where z = 1"); e == nil && n == 4 {
						ok = true
						break
					}
					time.Sleep(100 * time.Millisecond)
				}
				switch {
				case !srv.Alive():
					res[kind] = "forced flush of a measurement with this index kills the server"
				case !ok:
					res[kind] = "rows unreadable after the forced flush"
				default:
					res[kind] = ""
				}
			}
			bbState.mu.Lock()
			bbState.kinds = res
			bbState.mu.Unlock()
		}()
	})
}

func bbKindStatus(kind string) string {
	bbProbeKinds()
	<-bbState.kindDone
	bbState.mu.Lock()
	defer bbState.mu.Unlock()
	r, ok := bbState.kinds[kind]
	if !ok {
		return "unknown kind"
	}
	return r
}

// bbWrite posts line protocol; 5xx refusals are retried. "" = acknowledged.
func bbWrite(srv *bb.Server, body string) string {
	st, resp := srv.Write(bbDB, "", "ns", body)
	for try := 0; (st >= 500 || st == 0) && try < 50 && srv.Alive(); try++ {
		time.Sleep(100 * time.Millisecond)
		st, resp = srv.Write(bbDB, "", "ns", body)
	}
	if st != 204 {
		return fmt.Sprintf("status %d: %.300s", st, resp)
	}
	return ""
}

// bbFlush: the column store's forced flush starts the file build in the background and only waits for the PREVIOUS one
// (engine/cs_storage.go ForceFlush -> waitSnapshot, writeSnapshot -> go flush): the second call returns when the first
// flush is complete, the third when the (empty) second one is.
func bbFlush(srv *bb.Server) {
	for i := 0; i < 3; i++ {
		if st, body := srv.Flush(); st != 200 && srv.Alive() {
			bbState.mu.Lock()
			bbState.flushNotes = append(bbState.flushNotes, fmt.Sprintf("flush call %d: status %d %.200s", i, st, body))
			bbState.mu.Unlock()
		}
	}
}

// bbDiag describes the server-side state of a measurement for a violation message (files, refused flush calls, errors logged).
func bbDiag(srv *bb.Server, mst string) string {
	var files []string
	for _, f := range srv.Files("") {
		if strings.Contains(f, "/"+mst+"_") {
			files = append(files, f[strings.LastIndex(f, "/")+1:])
		}
	}
	bbState.mu.Lock()
	notes := append([]string{}, bbState.flushNotes...)
	bbState.mu.Unlock()
	var errs []string
	if b, err := os.ReadFile(srv.LogDir() + "/single.log"); err == nil {
		for _, l := range strings.Split(string(b), "\n") {
			if strings.Contains(l, `"level":"error"`) || strings.Contains(l, mst+"_0000") && strings.Contains(l, `"level":"warn"`) {
				if len(l) > 400 {
					l = l[:400]
				}
				errs = append(errs, l)
			}
		}
		if len(errs) > 6 {
			errs = errs[len(errs)-6:]
		}
	}
	return fmt.Sprintf("files of the measurement: %v; refused flush calls: %v; last errors/warnings logged: %v", files, notes, errs)
}

func bbCount(srv *bb.Server, q string) (int64, error) {
	r, err := srv.Query(bbDB, q, nil)
	if err != nil {
		return 0, err
	}
	if r.Err != "" {
		return 0, fmt.Errorf("%s", r.Err)
	}
	if len(r.Results) == 0 || len(r.Results[0].Series) == 0 {
		return 0, nil
	}
	se := r.Results[0].Series[0]
	if len(se.Values) != 1 || len(se.Values[0]) != 2 {
		return 0, fmt.Errorf("unexpected count shape: %.200s", r.Raw)
	}
	n, ok := se.Values[0][1].(json.Number)
	if !ok {
		return 0, fmt.Errorf("count is %T", se.Values[0][1])
	}
	return strconv.ParseInt(n.String(), 10, 64)
}

// ---------------------------------------------------------------- execution of one case

type bbViolation struct{ msg string }

func (v *bbViolation) Error() string { return v.msg }

type bbQueryStat struct {
	phase      string // flushed-intermediate | flushed-final ; memtable | files+memtable only on a tree that serves unflushed rows
	nontrivial bool
	matched    int
	total      int
}

type bbRunInfo struct {
	memVisible bool
	stats      []bbQueryStat
	maxFrags   int // largest number of fragments (distinct key tuples) in one flushed file
	files      int
	indexUsed  bool
	ddlNote    string
}

func bbCanon(typ string, x any) (string, error) {
	switch typ {
	case "tag", "string":
		s, ok := x.(string)
		if !ok {
			return "", fmt.Errorf("string column holds %T %v", x, x)
		}
		return s, nil
	case "bool":
		b, ok := x.(bool)
		if !ok {
			return "", fmt.Errorf("bool column holds %T %v", x, x)
		}
		return strconv.FormatBool(b), nil
	case "int":
		n, ok := x.(json.Number)
		if !ok {
			return "", fmt.Errorf("int column holds %T %v", x, x)
		}
		i, err := strconv.ParseInt(n.String(), 10, 64)
		if err != nil {
			return "", fmt.Errorf("int column holds %q", n.String())
		}
		return strconv.FormatInt(i, 10), nil
	}
	n, ok := x.(json.Number)
	if !ok {
		return "", fmt.Errorf("float column holds %T %v", x, x)
	}
	f, err := strconv.ParseFloat(n.String(), 64)
	if err != nil {
		return "", fmt.Errorf("float column holds %q", n.String())
	}
	return strconv.FormatFloat(f, 'g', -1, 64), nil
}

// bbCheckQuery runs one query and compares with the brute force over the rows written so far.
func (cs *bbCase) bbCheckQuery(srv *bb.Server, mst string, q *bbQuery, written [][]string, phase string) (matched int, err error) {
	want := map[int64][]string{}
	for _, row := range written {
		ok, e := cs.matches(q, row)
		if e != nil {
			return 0, ev.InconclusiveError("evaluator: " + e.Error())
		}
		if ok {
			want[cs.rowTime(row)] = row
		}
	}
	sql := q.sql(mst)
	r, qerr := srv.Query(bbDB, sql, nil)
	if qerr != nil {
		if !srv.Alive() {
			return 0, &bbViolation{fmt.Sprintf("[%s] the server died while answering %q: %s", phase, sql, srv.PanicInLogs())}
		}
		bb.Fatal("query transport error: %v", qerr)
	}
	if r.Err != "" {
		return 0, &bbViolation{fmt.Sprintf("[%s] %q failed: %s (brute force selects %d of %d rows)", phase, sql, r.Err, len(want), len(written))}
	}
	var series []bb.Series
	if len(r.Results) > 0 {
		series = r.Results[0].Series
	}
	fail := func(format string, a ...any) error {
		return &bbViolation{fmt.Sprintf("[%s] %q: ", phase, sql) + fmt.Sprintf(format, a...) + fmt.Sprintf(" (brute force selects %d of %d rows; keys %v)", len(want), len(written), cs.Keys)}
	}
	if q.Form == "count" {
		var got int64
		if len(series) > 0 {
			if len(series) != 1 || len(series[0].Values) != 1 || len(series[0].Values[0]) != 2 {
				return 0, fail("unexpected shape of a count answer: %.300s", r.Raw)
			}
			n, ok := series[0].Values[0][1].(json.Number)
			if !ok {
				return 0, fail("count is %T", series[0].Values[0][1])
			}
			got, _ = strconv.ParseInt(n.String(), 10, 64)
		}
		if got != int64(len(want)) {
			return 0, fail("count(z) = %d, the full scan counts %d", got, len(want))
		}
		return len(want), nil
	}
	got := map[int64]bool{}
	for _, se := range series {
		if len(se.Columns) == 0 || se.Columns[0] != "time" {
			return 0, fail("first column is not time: %v", se.Columns)
		}
		for _, vals := range se.Values {
			tn, ok := vals[0].(json.Number)
			if !ok {
				return 0, fail("time is %T", vals[0])
			}
			ts, _ := strconv.ParseInt(tn.String(), 10, 64)
			if got[ts] {
				return 0, fail("row with time %d returned twice", ts)
			}
			got[ts] = true
			wrow, ok := want[ts]
			if !ok {
				return 0, fail("returned a row the condition does not select: time %d %v (columns %v)", ts, vals, se.Columns)
			}
			seen := 0
			for ci := 1; ci < len(se.Columns); ci++ {
				name := se.Columns[ci]
				typ := cs.colType(name)
				if typ == "" {
					return 0, fail("invented column %q", name)
				}
				exp := "1"
				if name != "z" {
					exp = wrow[cs.colIdx(name)]
				}
				if vals[ci] == nil {
					return 0, fail("row time %d: column %s is null, written %s", ts, name, exp)
				}
				g, cerr := bbCanon(typ, vals[ci])
				if cerr != nil {
					return 0, fail("row time %d column %s: %v", ts, name, cerr)
				}
				if typ == "float" {
					f, _ := strconv.ParseFloat(exp, 64)
					exp = strconv.FormatFloat(f, 'g', -1, 64)
				}
				if g != exp {
					return 0, fail("row time %d: column %s = %s, written %s", ts, name, g, exp)
				}
				seen++
			}
			if q.Form == "star" && seen != len(cs.Cols)+1 {
				return 0, fail("select * returned %d of %d columns: %v", seen, len(cs.Cols)+1, se.Columns)
			}
			if q.Form == "proj" && (seen != 1 || se.Columns[1] != q.Proj) {
				return 0, fail("projection returned columns %v", se.Columns)
			}
		}
	}
	if len(got) != len(want) {
		var miss []string
		for ts, row := range want {
			if !got[ts] {
				miss = append(miss, fmt.Sprintf("%v", row))
			}
		}
		sort.Strings(miss)
		if len(miss) > 4 {
			miss = miss[:4]
		}
		return 0, fail("%d rows returned, the full scan selects %d; missing e.g. %v", len(got), len(want), miss)
	}
	return len(want), nil
}

// run executes the case on srv with measurement name mst. nil = property holds.
func (cs *bbCase) run(srv *bb.Server, mst string, info *bbRunInfo) error {
	if len(cs.Keys) == 0 || len(cs.Rows) == 0 {
		return ev.InconclusiveError("empty case")
	}
	for _, row := range cs.Rows {
		if len(row) != len(cs.Cols)+1 {
			return ev.InconclusiveError("row width")
		}
	}
	r, err := srv.Query("", cs.ddl(mst, true), nil)
	if err != nil {
		bb.Fatal("DDL transport error: %v", err)
	}
	if r.Err != "" {
		if len(cs.Index) == 0 {
			return ev.InconclusiveError(fmt.Sprintf("DDL %q rejected: %s", cs.ddl(mst, true), r.Err))
		}
		info.ddlNote = r.Err
		srv.MustExec("", cs.ddl(mst, false))
	} else {
		info.indexUsed = len(cs.Index) > 0
	}
	died := func(when string) error {
		return &bbViolation{fmt.Sprintf("the server died %s (measurement %s: %s): %s", when, mst, cs.ddl(mst, info.indexUsed), srv.PanicInLogs())}
	}
	var written [][]string
	pos := 0
	unflushed := 0
	memVisible := bbMemVisible(srv)
	info.memVisible = memVisible
	endFile := func() {
		frags := map[string]bool{}
		for _, row := range written[len(written)-unflushed:] {
			k := ""
			for _, key := range cs.Keys {
				k += row[cs.colIdx(key)] + "\x00"
			}
			frags[k] = true
		}
		if len(frags) > info.maxFrags {
			info.maxFrags = len(frags)
		}
		info.files++
		unflushed = 0
	}
	runQueries := func(phase string) error {
		for qi := range cs.Queries {
			q := &cs.Queries[qi]
			m, err := cs.bbCheckQuery(srv, mst, q, written, phase)
			if err != nil {
				return err
			}
			st := bbQueryStat{phase: phase, matched: m, total: len(written)}
			if q.Cond != nil && info.files > 0 && info.maxFrags >= 3 && m > 0 && m < len(written) {
				f := cs.feat(q.Cond)
				for _, k := range cs.Keys {
					if f.cols[k] {
						st.nontrivial = true
					}
				}
			}
			info.stats = append(info.stats, st)
		}
		return nil
	}
	for bi, b := range cs.Batches {
		last := bi == len(cs.Batches)-1
		if b.N <= 0 || pos+b.N > len(cs.Rows) {
			return ev.InconclusiveError("batch sizes")
		}
		rows := cs.Rows[pos : pos+b.N]
		pos += b.N
		lines := make([]string, len(rows))
		for i, row := range rows {
			lines[i] = cs.line(mst, row)
		}
		if msg := bbWrite(srv, strings.Join(lines, "\n")); msg != "" {
			if !srv.Alive() {
				return died("during a write")
			}
			return &bbViolation{fmt.Sprintf("write of batch %d refused: %s", bi, msg)}
		}
		written = append(written, rows...)
		unflushed += len(rows)
		if b.Flush || last {
			bbFlush(srv)
			if !srv.Alive() {
				return died("during a forced flush")
			}
			endFile()
		}
		if !(b.Query || last) || (unflushed > 0 && !memVisible) {
			continue
		}
		// rows become visible to conditions with a delay (series index raw-item flush ~1 s; on the pinned tree unflushed
		// column-store rows are not visible to conditioned queries at all: see bbMemVisible): wait until a condition
		// that holds for every row counts all rows written so far, then judge
		// (the forced flush of the column store is asynchronous; on a busy machine it can lag: it is asked for again every 10 s
		// and the wait is long - a wall-clock limit must not decide)
		deadline := time.Now().Add(120 * time.Second)
		nextFlush := time.Now().Add(10 * time.Second)
		for {
			if unflushed == 0 && time.Now().After(nextFlush) {
				bbFlush(srv)
				nextFlush = time.Now().Add(10 * time.Second)
			}
			n, e := bbCount(srv, "select count(z) from "+mst+" where z = 1")
			if e == nil && n == int64(len(written)) {
				break
			}
			if !srv.Alive() {
				return died("after a write")
			}
			if time.Now().After(deadline) {
				if e != nil {
					return &bbViolation{fmt.Sprintf("select count(z) from %s where z = 1 keeps failing for 120 s: %v", mst, e)}
				}
				return &bbViolation{fmt.Sprintf("120 s after the acknowledged write and forced flush of batch %d, select count(z) from %s where z = 1 counts %d, written %d rows (z = 1 in every row; %d files, %d rows unflushed); %s", bi, mst, n, len(written), info.files, unflushed, bbDiag(srv, mst))}
			}
			time.Sleep(50 * time.Millisecond)
		}
		phase := "flushed-final"
		switch {
		case unflushed > 0 && info.files > 0:
			phase = "files+memtable"
		case unflushed > 0:
			phase = "memtable"
		case !last:
			phase = "flushed-intermediate"
		}
		if err := runQueries(phase); err != nil {
			return err
		}
	}
	if !srv.Alive() {
		return died("at the end of the case")
	}
	return nil
}

// bbMemVisible decides once per server whether unflushed column-store rows are visible to a query with a condition.
// On the pinned tree they are not (column-store queries read files only: engine/shard.go ScanWithSparseIndex takes
// immTables.CopyCSFiles; only an unconditioned count() sees them through the stored row count), so the "same query
// before the flush" step cannot be judged and every batch is flushed before it is queried. A tree that serves them
// gets the memtable phases as well.
func bbMemVisible(srv *bb.Server) bool {
	bbState.mu.Lock()
	v, ok := bbState.memVisible[srv]
	bbState.mu.Unlock()
	if ok {
		return v
	}
	mst := "probe_mem"
	srv.MustExec("", fmt.Sprintf("CREATE MEASUREMENT %s.autogen.%s (i0 int64, z int64) WITH ENGINETYPE = columnstore PRIMARYKEY i0", bbDB, mst))
	var lines []string
	for i := 0; i < 4; i++ {
		lines = append(lines, fmt.Sprintf("%s i0=%di,z=1i %d", mst, i%2, bbT0+int64(i)*1e9))
	}
	if msg := bbWrite(srv, strings.Join(lines, "\n")); msg != "" {
		bb.Fatal("probe write failed: %s", msg)
	}
	deadline := time.Now().Add(3 * time.Second)
	for time.Now().Before(deadline) && !v {
		if n, e := bbCount(srv, "select count(z) from "+mst+" where z = 1"); e == nil && n == 4 {
			v = true
		}
		time.Sleep(100 * time.Millisecond)
	}
	bbFlush(srv)
	bbState.mu.Lock()
	if bbState.memVisible == nil {
		bbState.memVisible = map[*bb.Server]bool{}
	}
	bbState.memVisible[srv] = v
	bbState.mu.Unlock()
	return v
}

// ---------------------------------------------------------------- generator

var bbStrPool = []string{"a", "ab", "abc", "b", "ba", "B", "Ab", "w1", "w10", "w2", "z"}
var bbStrFieldExtra = []string{"a b", "b a", "ab c", "a,b"}
var bbIntPool = []int64{-3, -1, 0, 1, 2, 3, 5, 10, 1000000}
var bbFloatPool = []float64{-1.5, -0.5, 0.25, 0.5, 1.5, 2.5, 0, 1, 2, 10}

type bbGen struct {
	t     *rapid.T
	c     *ev.Case
	cs    *bbCase
	pools map[string][]string
}

func (g *bbGen) pool(typ string, key bool) []string {
	t := g.t
	n := rapid.IntRange(2, 5).Draw(t, "poolsize")
	var out []string
	add := func(s string) {
		for _, x := range out {
			if x == s {
				return
			}
		}
		out = append(out, s)
	}
	switch typ {
	case "tag":
		for len(out) < n {
			add(rapid.SampledFrom(bbStrPool).Draw(t, "sv"))
		}
	case "string":
		for len(out) < n {
			if rapid.IntRange(0, 5).Draw(t, "spaced") == 0 {
				add(rapid.SampledFrom(bbStrFieldExtra).Draw(t, "sv2"))
			} else {
				add(rapid.SampledFrom(bbStrPool).Draw(t, "sv"))
			}
		}
	case "int":
		for len(out) < n {
			add(strconv.FormatInt(rapid.SampledFrom(bbIntPool).Draw(t, "iv"), 10))
		}
	case "float":
		for len(out) < n {
			add(strconv.FormatFloat(rapid.SampledFrom(bbFloatPool).Draw(t, "fv"), 'g', -1, 64))
		}
	default:
		out = []string{"true", "false"}
	}
	return out
}

func (g *bbGen) schema() {
	t, cs := g.t, g.cs
	nk := rapid.SampledFrom([]int{1, 2, 2, 2, 3, 3}).Draw(t, "nkeys")
	nn := rapid.IntRange(1, 2).Draw(t, "nnonkey")
	cnt := map[string]int{}
	prefix := map[string]string{"tag": "t", "string": "s", "int": "i", "float": "f", "bool": "b"}
	mk := func(label string, key bool) bbCol {
		types := []string{"tag", "tag", "string", "int", "int", "float", "bool"}
		typ := rapid.SampledFrom(types).Draw(t, label)
		if typ == "bool" && cnt["bool"] > 0 {
			typ = "int"
		}
		c := bbCol{Name: fmt.Sprintf("%s%d", prefix[typ], cnt[typ]), Type: typ}
		cnt[typ]++
		return c
	}
	for i := 0; i < nk; i++ {
		c := mk("keytype", true)
		cs.Cols = append(cs.Cols, c)
		cs.Keys = append(cs.Keys, c.Name)
	}
	for i := 0; i < nn; i++ {
		cs.Cols = append(cs.Cols, mk("coltype", false))
	}
	g.pools = map[string][]string{}
	for _, c := range cs.Cols {
		g.pools[c.Name] = g.pool(c.Type, cs.keyIdx(c.Name) >= 0)
	}
	// sort key: omitted (= primary key) | primary key + a further column | primary key + time
	switch rapid.IntRange(0, 5).Draw(t, "sortkey") {
	case 0:
		cs.SortKey = append(append([]string{}, cs.Keys...), cs.Cols[len(cs.Cols)-1].Name)
	case 1:
		cs.SortKey = append(append([]string{}, cs.Keys...), "time")
	case 2:
		cs.SortKey = append([]string{}, cs.Keys...)
	}
}

func (g *bbGen) index() {
	t, cs, c := g.t, g.cs, g.c
	kind := rapid.SampledFrom([]string{"", "", "", "bloomfilter", "bloomfilter", "bloomfilter", "minmax", "set", "text", "text", "bloomfilter_ip"}).Draw(t, "skipindex")
	if kind == "" {
		c.Class("skipindex=none")
		return
	}
	if why := bbKindStatus(kind); why != "" {
		c.Class("skipindex-NOT-EXERCISED:" + kind + " (" + why + ")")
		c.Class("skipindex=none")
		return
	}
	var cand []string
	for _, col := range cs.Cols {
		str := col.Type == "tag" || col.Type == "string"
		num := col.Type == "int" || col.Type == "float"
		if (kind == "minmax" && num) || (kind != "minmax" && kind != "text" && str) || (kind == "text" && col.Type == "string") {
			cand = append(cand, col.Name)
		}
	}
	if len(cand) == 0 {
		c.Class("skipindex=none")
		return
	}
	cand = rapid.Permutation(cand).Draw(t, "indexcols")
	n := 1
	if kind != "text" && len(cand) > 1 && rapid.Bool().Draw(t, "twoindexcols") {
		n = 2
	}
	if n == 2 && rapid.Bool().Draw(t, "onelist") {
		// INDEXLIST a,b: only the first column's index file is published by the flush (engine/immutable/mms_tables.go
		// RenameTmpFilesWithPKIndex renames IList[0] only); a condition on the second column then fails to open it
		c.Excluded(bbR13)
	}
	for _, col := range cand[:n] {
		cs.Index = append(cs.Index, bbIndex{Kind: kind, Cols: []string{col}})
	}
	c.Class("skipindex=" + kind)
	c.Class(fmt.Sprintf("skipindex-columns=%d", n))
	for _, col := range cand[:n] {
		if cs.keyIdx(col) >= 0 {
			c.Class("skipindex-on-key-column")
		} else {
			c.Class("skipindex-on-nonkey-column")
		}
	}
}

func (g *bbGen) rows() {
	t, cs := g.t, g.cs
	n := rapid.SampledFrom([]int{30, 40, 60, 80, 120, 160, 250, 400}).Draw(t, "nrows")
	n += rapid.IntRange(-5, 5).Draw(t, "nrowsd")
	slots := make([]int, n)
	for i := range slots {
		slots[i] = i
	}
	slots = rapid.Permutation(slots).Draw(t, "timeslots")
	jit := rapid.Bool().Draw(t, "jitter")
	for i := 0; i < n; i++ {
		row := make([]string, 0, len(cs.Cols)+1)
		for _, c := range cs.Cols {
			p := g.pools[c.Name]
			row = append(row, p[rapid.IntRange(0, len(p)-1).Draw(t, "cell")])
		}
		ts := bbT0 + int64(slots[i])*1e9
		if jit {
			ts += int64(slots[i]%7) * 1000003
		}
		row = append(row, strconv.FormatInt(ts, 10))
		cs.Rows = append(cs.Rows, row)
	}
	nb := rapid.IntRange(1, 4).Draw(t, "nbatches")
	left := n
	for i := 0; i < nb; i++ {
		sz := left
		if i < nb-1 {
			sz = rapid.IntRange(1, left-(nb-1-i)).Draw(t, "batchsize")
			if sz > left*3/4 && left > 8 {
				sz = left / 2
			}
		}
		b := bbBatch{N: sz, Flush: true, Query: true}
		if i < nb-1 {
			b.Flush = rapid.IntRange(0, 2).Draw(t, "flush") > 0
			b.Query = rapid.IntRange(0, 2).Draw(t, "queryhere") == 0
		}
		cs.Batches = append(cs.Batches, b)
		left -= sz
	}
}

func bbNeighbour(t *rapid.T, typ, v string) string {
	switch typ {
	case "int":
		i, _ := strconv.ParseInt(v, 10, 64)
		return strconv.FormatInt(i+int64(rapid.SampledFrom([]int{-1, 1}).Draw(t, "nb")), 10)
	case "float":
		f, _ := strconv.ParseFloat(v, 64)
		return strconv.FormatFloat(f+rapid.SampledFrom([]float64{-0.125, 0.125, 0.5, -0.5}).Draw(t, "nb"), 'g', -1, 64)
	case "tag", "string":
		switch rapid.IntRange(0, 2).Draw(t, "nb") {
		case 0:
			return v + "A"
		case 1:
			if len(v) > 1 {
				return v[:len(v)-1]
			}
			return v + "0"
		default:
			return "0" + v
		}
	}
	return v
}

func (g *bbGen) atom(cols []string) *bbNode {
	t, cs := g.t, g.cs
	col := rapid.SampledFrom(cols).Draw(t, "col")
	typ := cs.colType(col)
	n := &bbNode{Col: col}
	ops := []string{"=", "=", "!=", "<", "<=", ">", ">="}
	if typ == "bool" {
		ops = []string{"=", "!="}
	}
	n.Cmp = rapid.SampledFrom(ops).Draw(t, "op")
	if n.Cmp == "!=" && rapid.IntRange(0, 4).Draw(t, "ltgt") == 0 {
		n.Cmp = "<>"
	}
	p := g.pools[col]
	v := p[rapid.IntRange(0, len(p)-1).Draw(t, "lit")]
	if typ != "bool" && rapid.IntRange(0, 4).Draw(t, "neighbour") == 0 {
		v = bbNeighbour(t, typ, v)
	}
	n.Lit = v
	switch typ {
	case "tag", "string":
		n.LitKind = "string"
	case "bool":
		n.LitKind = "bool"
	default:
		n.LitKind = typ
		if rapid.IntRange(0, 7).Draw(t, "mixed") == 0 {
			if typ == "int" {
				n.LitKind = "float"
				if rapid.Bool().Draw(t, "half") {
					i, _ := strconv.ParseInt(v, 10, 64)
					n.Lit = strconv.FormatFloat(float64(i)+0.5, 'g', -1, 64)
				}
			} else if f, _ := strconv.ParseFloat(v, 64); f == float64(int64(f)) {
				n.LitKind = "int"
				n.Lit = strconv.FormatInt(int64(f), 10)
			}
		}
	}
	n.Flip = rapid.IntRange(0, 7).Draw(t, "flip") == 0
	n.Paren = rapid.IntRange(0, 11).Draw(t, "atomparen") == 0
	return n
}

func (g *bbGen) tree(depth int, keyCols, otherCols []string) *bbNode {
	t := g.t
	if depth == 0 || rapid.IntRange(0, 2).Draw(t, "leaf") == 0 {
		if len(otherCols) == 0 || rapid.IntRange(0, 99).Draw(t, "keybias") < 75 {
			return g.atom(keyCols)
		}
		return g.atom(otherCols)
	}
	n := &bbNode{Op: rapid.SampledFrom([]string{"AND", "OR"}).Draw(t, "bop")}
	n.L = g.tree(depth-1, keyCols, otherCols)
	n.R = g.tree(depth-1, keyCols, otherCols)
	n.Paren = rapid.IntRange(0, 5).Draw(t, "paren") == 0
	return n
}

func (g *bbGen) query() bbQuery {
	t, cs, c := g.t, g.cs, g.c
	var q bbQuery
	var others []string
	for _, col := range cs.Cols {
		if cs.keyIdx(col.Name) < 0 {
			others = append(others, col.Name)
		}
	}
	timeb := rapid.IntRange(0, 2).Draw(t, "timebounds") == 0
	if timeb {
		pick := func(label string) int64 {
			row := cs.Rows[rapid.IntRange(0, len(cs.Rows)-1).Draw(t, label)]
			return cs.rowTime(row) + int64(rapid.IntRange(-1, 1).Draw(t, label+"d"))
		}
		a, b := pick("tmin"), pick("tmax")
		if a > b {
			a, b = b, a
		}
		switch rapid.IntRange(0, 3).Draw(t, "timeshape") {
		case 0:
			q.HasTMin, q.TMin = true, a
		case 1:
			q.HasTMax, q.TMax = true, b
		default:
			q.HasTMin, q.TMin, q.HasTMax, q.TMax = true, a, true, b
		}
		q.TMinExcl = q.HasTMin && rapid.IntRange(0, 3).Draw(t, "tminexcl") == 0
		q.TMaxExcl = q.HasTMax && rapid.IntRange(0, 3).Draw(t, "tmaxexcl") == 0
	}
	if !(timeb && rapid.IntRange(0, 5).Draw(t, "timeonly") == 0) {
		keys := cs.Keys
		for try := 0; ; try++ {
			n := g.tree(rapid.IntRange(0, 3).Draw(t, "depth"), keys, others)
			cls := cs.knownClass(n)
			if cls == "" {
				cls = cs.findingClass(n)
			}
			if cls == "" {
				q.Cond = n
				if !q.rowFilterDiffers() {
					break
				}
				q.Cond = nil
				cls = bbR11
			}
			c.Excluded(cls)
			if try >= 6 {
				// a single atom on the first key column with a literal taken from the data is in no known class
				p := g.pools[cs.Keys[0]]
				kind := cs.colType(cs.Keys[0])
				if kind == "tag" {
					kind = "string"
				}
				n = &bbNode{Col: cs.Keys[0], Cmp: "=", Lit: p[0], LitKind: kind}
				if cs.knownClass(n) == "" && cs.findingClass(n) == "" {
					q.Cond = n
				}
				break
			}
		}
	}
	q.Form = rapid.SampledFrom([]string{"star", "star", "count", "proj"}).Draw(t, "form")
	if q.Form == "count" && q.Cond == nil {
		// a lone count() without a field/tag condition is answered from the measurement's stored row count, whatever the
		// time bounds say (engine/executor/schema.go HasRowCount does not look at the time range)
		c.Excluded(bbR12)
		q.Form = "star"
	}
	if q.Form == "proj" {
		var fields []string
		for _, col := range cs.Cols {
			if col.Type != "tag" {
				fields = append(fields, col.Name)
			}
		}
		fields = append(fields, "z")
		q.Proj = rapid.SampledFrom(fields).Draw(t, "proj")
	}
	return q
}

func bbGenCase(t *rapid.T, c *ev.Case) *bbCase {
	g := &bbGen{t: t, c: c, cs: &bbCase{Kind: bbCampaign}}
	g.schema()
	g.index()
	g.rows()
	nq := rapid.IntRange(5, 10).Draw(t, "nqueries")
	for i := 0; i < nq; i++ {
		g.cs.Queries = append(g.cs.Queries, g.query())
	}
	return g.cs
}

func (cs *bbCase) classes(c *ev.Case, info *bbRunInfo) {
	c.Class(fmt.Sprintf("nkeys=%d", len(cs.Keys)))
	for i, k := range cs.Keys {
		c.Class("keytype=" + cs.colType(k))
		c.Class(fmt.Sprintf("key%d=%s", i, cs.colType(k)))
	}
	switch {
	case len(cs.SortKey) == 0:
		c.Class("sortkey=omitted")
	case cs.SortKey[len(cs.SortKey)-1] == "time":
		c.Class("sortkey=pk+time")
	case len(cs.SortKey) > len(cs.Keys):
		c.Class("sortkey=pk+column")
	default:
		c.Class("sortkey=pk")
	}
	switch n := len(cs.Rows); {
	case n < 60:
		c.Class("rows<60")
	case n < 150:
		c.Class("rows=60..149")
	default:
		c.Class("rows>=150")
	}
	if !info.memVisible {
		c.Class("memtable-phase-NOT-EXERCISED (unflushed column-store rows are invisible to conditioned queries on this tree)")
	}
	c.Class(fmt.Sprintf("files=%d", info.files))
	switch {
	case info.maxFrags >= 10:
		c.Class("fragments-in-largest-file>=10")
	case info.maxFrags >= 3:
		c.Class("fragments-in-largest-file=3..9")
	default:
		c.Class("fragments-in-largest-file<3")
	}
	if info.ddlNote != "" {
		c.Class("index-DDL-rejected:" + info.ddlNote)
	}
	for _, q := range cs.Queries {
		c.Class("form=" + q.Form)
		if q.HasTMin || q.HasTMax {
			c.Class("time-bounds")
		}
		if q.Cond == nil {
			c.Class("cond=time-only-or-none")
			continue
		}
		f := cs.feat(q.Cond)
		for op := range f.ops {
			c.Class("op" + op)
		}
		switch {
		case f.and && f.or:
			c.Class("cond=AND+OR")
		case f.and:
			c.Class("cond=AND")
		case f.or:
			c.Class("cond=OR")
		default:
			c.Class("cond=atom")
		}
		if f.flip {
			c.Class("literal-left")
		}
		if f.mixed {
			c.Class("mixed-numeric-literal-on-nonkey-column")
		}
		nk, nonkey := 0, false
		for col := range f.cols {
			if cs.keyIdx(col) >= 0 {
				nk++
			} else {
				nonkey = true
			}
		}
		c.Class(fmt.Sprintf("cond-key-columns=%d", nk))
		if nonkey {
			c.Class("cond-references-nonkey-column")
		}
		for _, ix := range cs.Index {
			for _, col := range ix.Cols {
				if f.cols[col] && info.indexUsed {
					c.Class("cond-references-skipindex-column:" + ix.Kind)
				}
			}
		}
	}
	for _, st := range info.stats {
		c.Class("phase=" + st.phase)
		switch {
		case st.matched == 0:
			c.Class("answer=empty")
		case st.matched == st.total:
			c.Class("answer=all-rows")
		default:
			c.Class("answer=strict-subset")
		}
		if st.nontrivial {
			c.Class("nontrivial-query")
		}
	}
}

func TestBBColumnStore(t *testing.T) {
	rapid.Check(t, ev.Prop(prop, bbCampaign, func(t *rapid.T, c *ev.Case) {
		cs := bbGenCase(t, c)
		srv := bbServer()
		info := &bbRunInfo{}
		logOff := bbLogOffset(srv)
		err := cs.run(srv, bbNextMst(), info)
		if err != nil {
			if inc, ok := err.(ev.InconclusiveError); ok {
				bb.Fatal("%s", string(inc))
			}
			if all, closed := bbNewPanics(srv, logOff); srv.Alive() && all > 0 && all == closed {
				// Seen twice in ~40 driver runs on a loaded machine, never reproduced in isolation: from some moment on every query of
				// one server answers with an EMPTY result and no error while its log shows "runtime panic: send on closed channel" in an
				// executor transform (HashAggTransform) - a schedule-dependent fault of the query pipeline, nothing the column-store
				// indexes or the row filter decide. Such a case is abandoned and counted (C04 counts recovered per-query panics the same
				// way); any other panic, and any wrong answer without a panic, stays a violation.
				c.Class("case-ABANDONED(answers lost to recovered 'send on closed channel' panics of the query pipeline)")
				t.Logf("case abandoned: %s; %d recovered panics, all 'send on closed channel'", err.Error(), all)
				bbState.mu.Lock()
				if bbState.srv == srv {
					bbState.srv = nil
				}
				bbState.mu.Unlock()
				srv.Destroy()
				return
			}
			c.Failf(t, prop, cs, "%s", err.Error())
		}
		cs.classes(c, info)
		nt := false
		for _, st := range info.stats {
			nt = nt || st.nontrivial
		}
		if nt {
			c.Nontrivial(cs)
			var qs []string
			for i := range cs.Queries {
				if len(qs) < 4 {
					qs = append(qs, cs.Queries[i].sql("m"))
				}
			}
			c.Sample(map[string]any{"ddl": cs.ddl("m", true), "rows": len(cs.Rows), "batches": cs.Batches, "some_queries": qs, "files": info.files, "fragments_in_largest_file": info.maxFrags})
		}
	}))
}

func bbLogOffset(srv *bb.Server) int64 {
	if st, err := os.Stat(srv.LogDir() + "/single.log"); err == nil {
		return st.Size()
	}
	return 0
}

// bbNewPanics counts the recovered panics the server logged after offset off: all of them, and those that are
// "send on closed channel".
func bbNewPanics(srv *bb.Server, off int64) (all, closedChan int) {
	b, err := os.ReadFile(srv.LogDir() + "/single.log")
	if err != nil || int64(len(b)) < off {
		return 0, 0
	}
	for _, l := range strings.Split(string(b[off:]), "\n") {
		if strings.Contains(l, "runtime panic: ") {
			all++
			if strings.Contains(l, "runtime panic: send on closed channel") {
				closedChan++
			}
		}
	}
	return all, closedChan
}

// replayBB re-executes a saved bb_colstore case on a fresh server.
func replayBB(raw json.RawMessage) error {
	var cs bbCase
	if err := json.Unmarshal(raw, &cs); err != nil {
		return ev.InconclusiveError(err.Error())
	}
	srv := bbNewServer(2)
	defer srv.Destroy()
	err := cs.run(srv, "m0", &bbRunInfo{})
	if _, ok := err.(*bbViolation); ok {
		if all, closed := bbNewPanics(srv, 0); srv.Alive() && all > 0 && all == closed {
			return ev.InconclusiveError("answers lost to recovered 'send on closed channel' panics of the query pipeline: " + err.Error())
		}
	}
	return err
}

func bbMain(m *testing.M) {
	code := m.Run()
	ev.Flush()
	bb.CleanupAll()
	os.Exit(code)
}
