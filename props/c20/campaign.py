from campaigns_util import B

SPEC = {
    "pkg": "props/c20", "level": "exploration",
    "rule": ("rapid generators: 1-3 key columns (int/float/string/bool/time, few distinct values so that fragments share key prefixes, int64 extremes, empty/prefix/UTF-8 strings) "
             "+ 0-2 non-key columns, 2-400 rows sorted by the writer's own SortForColumnStore, fixed and variable fragment layouts incl. short/one-row last fragment, coarse-index "
             "and min-rows-for-seek settings; condition as InfluxQL text (ladder of sub-campaigns: pk_atom single atom or time range -> pk_and AND of atoms on distinct columns -> "
             "pk_andor AND/OR trees without != -> pk_full !=, <>, literal-left, parentheses, non-key columns, time ranges through GetTimeCondition, IN (must be rejected); side rungs "
             "pk_nulls (null keys), pk_coerce (int literal on float key and vice versa), pk_strmatch (MATCHPHRASE/LIKE on key columns)) -> ParseExpr -> NewKeyCondition -> "
             "PKIndexWriter.Build -> PKIndexReader.Scan, twice on the same index record; oracle: every fragment holding a DEFINITELY matching row (own evaluator over the parsed "
             "tree, all deciding columns non-null) is inside the returned ranges (superset accepted). sk_bloom: real BloomFilterWriter.CreateAttachIndex + RenameIndexFiles + "
             "CreateSKFileReaders/ReInit/SKIndexReader.Scan over generated word phrases and MATCHPHRASE/=/!= trees; sk_minmax: MinMaxIndexReader over a harness-built bound record. "
             "Non-trivial: >= 3 fragments, >= 1 fragment pruned and (above the atom rung) the condition references >= 2 key columns or uses OR/!=; skip-index cases: >= 1 block skipped. "
             "distinct = hash of the whole case. Known-finding classes (code-defined predicates in known_test.go) are excluded only while their minimal replay still fails."),
    "assumptions": [
        "rows reach the index builder sorted by lib/record SortHelper.SortForColumnStore with sort key = primary key (nulls padded as that helper pads them)",
        "conditions reach NewKeyCondition as column-vs-literal comparisons joined by AND/OR with the time bounds split off into GetTimeCondition, as engine/hybrid_index_reader.go initKeyCondition does",
        "a row 'definitely matches' only when every column a deciding atom references is non-null; int-vs-float literal comparisons follow the row filter (lib/binaryfilterfunc: the integer side is converted to float64); "
        "MATCHPHRASE is decided only for whole-word runs separated by single spaces and cross-checked with the executor's token finder",
        "the min-max reader has no production writer/ReadFunc on this tree: its index record (row k = lower bound, row k+1 = upper bound of fragment k, no nulls) is built by the harness",
        "the bloom-filter writer receives the split characters engine/index/index.go NewIndexWriters would pass: \"\" for an index created by DDL, the content splitter otherwise (both generated)",
    ],
    "campaigns": [
        {"name": "pk_atom", "run": "^TestPKAtom$", "quick": B(12000, 2), "thorough": B(250000, 2, 3000)},
        {"name": "pk_and", "run": "^TestPKAnd$", "quick": B(12000, 2), "thorough": B(250000, 2, 3000)},
        {"name": "pk_andor", "run": "^TestPKAndOr$", "quick": B(12000, 2), "thorough": B(250000, 2, 3000)},
        {"name": "pk_full", "run": "^TestPKFull$", "quick": B(10000, 3), "thorough": B(200000, 3, 3000)},
        {"name": "pk_nulls", "run": "^TestPKNulls$", "quick": B(8000, 1), "thorough": B(200000, 1, 3000)},
        {"name": "pk_coerce", "run": "^TestPKCoerce$", "quick": B(8000, 1), "thorough": B(200000, 1, 3000)},
        {"name": "pk_strmatch", "run": "^TestPKStrMatch$", "quick": B(8000, 1), "thorough": B(200000, 1, 3000)},
        {"name": "sk_minmax", "run": "^TestSKMinMax$", "quick": B(12000, 1), "thorough": B(300000, 1, 3000)},
        {"name": "sk_bloom", "run": "^TestSKBloom$", "quick": B(2400, 2), "thorough": B(60000, 2, 3000)},
    ],
}

META = {
    "engine": "lib-rapid",
    "technique": "property-based testing against a brute-force oracle (rapid generators, ladder of sub-campaigns of growing condition expressiveness)",
    "text": ("Generated sorted key records and InfluxQL conditions are pushed through the primary-key sparse index (Build, NewKeyCondition, Scan) and the skip-index readers; "
             "every fragment that holds a row definitely satisfying the condition must be inside the returned fragment ranges (a superset is accepted). "
             "Both search strategies (binary / generic exclusion) are counted. Exploration: finds counterexamples, never proves absence."),
    "note": ("Library level only: the black-box twin-measurement differential (rows with nulls, real skip-index files) is a separate part. Known-finding classes are excluded "
             "from the generators only while their minimal replay still fails on the tree under test."),
}
