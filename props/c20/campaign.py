from campaigns_util import B

SPEC = {
    "pkg": "props/c20", "level": "exploration", "bins": ["ts-server"],
    "rule": ("rapid generators: 1-3 key columns (int/float/string/bool/time, few distinct values so that fragments share key prefixes, int64 extremes, empty/prefix/UTF-8 strings) "
             "+ 0-2 non-key columns, 2-400 rows sorted by the writer's own SortForColumnStore, fixed and variable fragment layouts incl. short/one-row last fragment, coarse-index "
             "and min-rows-for-seek settings; condition as InfluxQL text (ladder of sub-campaigns: pk_atom single atom or time range -> pk_and AND of atoms on distinct columns -> "
             "pk_andor AND/OR trees without != -> pk_full !=, <>, literal-left, parentheses, non-key columns, time ranges through GetTimeCondition, IN (must be rejected); side rungs "
             "pk_nulls (null keys), pk_coerce (int literal on float key and vice versa), pk_strmatch (MATCHPHRASE/LIKE on key columns)) -> ParseExpr -> NewKeyCondition -> "
             "PKIndexWriter.Build -> PKIndexReader.Scan, twice on the same index record; oracle: every fragment holding a DEFINITELY matching row (own evaluator over the parsed "
             "tree, all deciding columns non-null) is inside the returned ranges (superset accepted). sk_bloom: real BloomFilterWriter.CreateAttachIndex + RenameIndexFiles + "
             "CreateSKFileReaders/ReInit/SKIndexReader.Scan over generated word phrases and MATCHPHRASE/=/!= trees; sk_minmax: MinMaxIndexReader over a harness-built bound record. "
             "Non-trivial: >= 3 fragments, >= 1 fragment pruned and (above the atom rung) the condition references >= 2 key columns or uses OR/!=; skip-index cases: >= 1 block skipped. "
             "distinct = hash of the whole case. Known-finding classes (code-defined predicates in known_test.go) are excluded only while their minimal replay still fails. "
             "bb_colstore (black box): one real ts-server per process (flushes owned by the harness: write-cold-duration and force-snapShot-duration 1h), per case a fresh "
             "column-store measurement created through the real DDL (CREATE MEASUREMENT db0.autogen.m (<cols>, z int64) WITH ENGINETYPE = columnstore [INDEXTYPE bloomfilter|text "
             "INDEXLIST c ...] PRIMARYKEY k1[,k2[,k3]] [SORTKEY pk | pk,col | pk,time]): 1-3 key columns of type tag / string field / int / float / bool with 2-5 distinct values "
             "each, 1-2 further columns, 25-405 rows with distinct timestamps, no nulls, written in 1-4 requests with forced flushes in between (one file per flush; the writer "
             "puts every distinct key tuple into a fragment of its own, so a file has as many fragments as distinct key tuples); 5-10 queries per case (select * / count(z) / "
             "one field; condition trees of depth <= 3 over key (75%) and other columns with = != <> < <= > >=, literal on either side, parentheses, optional time bounds) asked "
             "after chosen flushes and after the last one; every answer must be exactly the rows the brute-force evaluation of the condition selects (set of (time, all columns)); "
             "a server death or a query error is a violation too. Skip-index kinds are probed once per process on a sacrificial server (DDL accepted, forced flush survives, rows "
             "readable); a kind that fails the probe is counted as skipindex-NOT-EXERCISED:<kind> (<reason>). Non-trivial: >= 3 fragments in a flushed file, the condition "
             "references a key column, the answer is a non-empty strict subset. Left out by construction and counted: the known classes R2 (widened: any condition on the third "
             "key column over an integer middle key, because the rewritten index record stays cached on a server), R4 (+ integral float literal on a float key, printed as an "
             "integer by the planner: C12-float-integral), and the classes found by this campaign R11-R15 (see replays/C20/proposed); MATCHPHRASE/LIKE/IN are not generated."),
    "assumptions": [
        "rows reach the index builder sorted by lib/record SortHelper.SortForColumnStore with sort key = primary key (nulls padded as that helper pads them)",
        "conditions reach NewKeyCondition as column-vs-literal comparisons joined by AND/OR with the time bounds split off into GetTimeCondition, as engine/hybrid_index_reader.go initKeyCondition does",
        "a row 'definitely matches' only when every column a deciding atom references is non-null; int-vs-float literal comparisons follow the row filter (lib/binaryfilterfunc: the integer side is converted to float64); "
        "MATCHPHRASE is decided only for whole-word runs separated by single spaces and cross-checked with the executor's token finder",
        "the min-max reader has no production writer/ReadFunc on this tree: its index record (row k = lower bound, row k+1 = upper bound of fragment k, no nulls) is built by the harness",
        "the bloom-filter writer receives the split characters engine/index/index.go NewIndexWriters would pass: \"\" for an index created by DDL, the content splitter otherwise (both generated)",
        "bb_colstore: HTTP 204 is the acknowledgement; the column store's forced flush is asynchronous (it only waits for the previous one), so the harness calls it three times; "
        "unflushed column-store rows are not visible to conditioned queries on the pinned tree (probed once per server; counted as memtable-phase-NOT-EXERCISED), so rows are "
        "judged only after their flush; a query is judged after a condition that holds for every row (z = 1) counts all rows; string comparisons are byte-wise, mixed int/float "
        "comparisons are done in float64 (all generated magnitudes are far below 2^53)",
    ],
    "campaigns": [
        {"name": "pk_atom", "run": "^TestPKAtom$", "quick": B(12000, 2), "thorough": B(250000, 2, 3000)},
        {"name": "pk_and", "run": "^TestPKAnd$", "quick": B(12000, 2), "thorough": B(250000, 2, 3000)},
        {"name": "pk_andor", "run": "^TestPKAndOr$", "quick": B(12000, 2), "thorough": B(250000, 2, 3000)},
        {"name": "pk_full", "run": "^TestPKFull$", "quick": B(10000, 3), "thorough": B(200000, 3, 3000)},
        {"name": "pk_nulls", "run": "^TestPKNulls$", "quick": B(8000, 1), "thorough": B(200000, 1, 3000)},
        {"name": "pk_coerce", "run": "^TestPKCoerce$", "quick": B(8000, 1), "thorough": B(200000, 1, 3000)},
        {"name": "pk_strmatch", "run": "^TestPKStrMatch$", "quick": B(8000, 1), "thorough": B(200000, 1, 3000)},
        {"name": "sk_minmax", "run": "^TestSKMinMax$", "quick": B(12000, 1), "thorough": B(300000, 1, 3000)},
        {"name": "sk_bloom", "run": "^TestSKBloom$", "quick": B(2400, 2), "thorough": B(60000, 2, 3000)},
        {"name": "bb_colstore", "run": "^TestBBColumnStore$", "quick": B(25, 4, 600, shrinktime="20s"), "thorough": B(600, 8, 3000, shrinktime="60s")},
    ],
}

META = {
    "engine": "lib-rapid", "also": ["bb-server"],
    "technique": "property-based testing against a brute-force oracle (rapid generators, ladder of sub-campaigns of growing condition expressiveness)",
    "text": ("Generated sorted key records and InfluxQL conditions are pushed through the primary-key sparse index (Build, NewKeyCondition, Scan) and the skip-index readers; "
             "every fragment that holds a row definitely satisfying the condition must be inside the returned fragment ranges (a superset is accepted). "
             "Both search strategies (binary / generic exclusion) are counted. Exploration: finds counterexamples, never proves absence."),
    "note": ("Library level plus the black-box campaign bb_colstore (real server, real DDL, real files; rows without nulls, so null keys stay with the library check). "
             "Known-finding classes are excluded from the library generators only while their minimal replay still fails on the tree under test; the black-box campaign "
             "excludes its classes by construction."),
}
