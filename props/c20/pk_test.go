package c20

// C20, library part: PKIndexWriter.Build -> NewKeyCondition(InfluxQL text) -> PKIndexReader.Scan against a brute-force
// oracle, run as a ladder of sub-campaigns of growing expressiveness.

import (
	"fmt"
	"math"
	"sort"
	"strings"
	"testing"

	"github.com/openGemini/openGemini/lib/record"
	"github.com/openGemini/openGemini/lib/util/lifted/influx/influxql"
	"pgregory.net/rapid"
	"verif/internal/ev"
)

// TestMain: statistics are flushed, then every real server of the black-box campaign (bb_test.go) is stopped and removed.
func TestMain(m *testing.M) { bbMain(m) }

// ---------------------------------------------------------------- data generator

type genOpts struct {
	lang     string // atom | and | andor | full | coerce | strmatch
	nulls    bool
	maxRows  int
	wordy    bool // string columns hold multi-word phrases (string match rung)
	mixedNum bool // numeric literals of the other numeric kind
}

var (
	intSmall  = []int64{-3, -2, -1, 0, 1, 2, 3, 4, 5, 6}
	intWide   = []int64{math.MinInt64, math.MinInt64 + 1, -1000, -1, 0, 1, 2, 1000, math.MaxInt64 - 1, math.MaxInt64}
	floatUni  = []float64{-1000000, -2.5, -1, -0.5, 0, 0.25, 0.5, 1, 1.5, 2, 3.75, 100, 1000000000000000}
	stringUni = []string{"", "A", "AA", "AB", "B", "Ba", "C", "D", "E", "a", "b", "zz", "é", "A B", "0", "10", "9"}
	words     = []string{"alpha", "beta", "gamma", "delta", "eps", "zeta"}
	timeSmall = []int64{0, 1, 2, 3, 5, 8, 1000, 2000, 3000}
	timeBig   = []int64{1700000000000000000, 1700000000000000001, 1700000001000000000, 1700000002000000000, 1700000003000000000, 1700003600000000000}
)

func genPool(t *rapid.T, typ string, size int, o genOpts, label string) []cell {
	var out []cell
	seen := map[string]bool{}
	add := func(c cell) {
		k := c.render(typ)
		if !seen[k] {
			seen[k] = true
			out = append(out, c)
		}
	}
	switch typ {
	case "bool":
		add(cell{B: false})
		if size > 1 {
			add(cell{B: true})
		}
		return out
	}
	wide := rapid.IntRange(0, 4).Draw(t, label+"wide") == 0
	for i := 0; i < size; i++ {
		switch typ {
		case "int":
			if wide {
				add(cell{I: rapid.SampledFrom(intWide).Draw(t, label)})
			} else {
				add(cell{I: rapid.SampledFrom(intSmall).Draw(t, label)})
			}
		case "time":
			if wide {
				add(cell{I: rapid.SampledFrom(timeBig).Draw(t, label)})
			} else {
				add(cell{I: rapid.SampledFrom(timeSmall).Draw(t, label)})
			}
		case "float":
			add(cell{F: rapid.SampledFrom(floatUni).Draw(t, label)})
		case "string":
			if o.wordy {
				k := rapid.IntRange(1, 3).Draw(t, label+"nw")
				ws := make([]string, k)
				for j := range ws {
					ws[j] = rapid.SampledFrom(words).Draw(t, label+"w")
				}
				add(cell{S: strings.Join(ws, " ")})
			} else {
				add(cell{S: rapid.SampledFrom(stringUni).Draw(t, label)})
			}
		}
	}
	return out
}

type genData struct {
	pc     *PKCase
	types  map[string]string // column -> type (incl. time)
	pools  map[string][]cell
	cells  [][]cell // generated rows (unsorted), per allCols
	all    []Col
	wantIn bool // the next atom is rendered as IN (...): the key condition is expected to reject it
}

func genPKData(t *rapid.T, o genOpts) *genData {
	names := rapid.Permutation([]string{"a", "b", "c", "d", "e", "f"}).Draw(t, "names")
	nkeys := rapid.SampledFrom([]int{1, 2, 2, 2, 3, 3}).Draw(t, "nkeys")
	nextra := rapid.IntRange(0, 2).Draw(t, "nextra")
	timeKeyPos := -1
	if rapid.IntRange(0, 4).Draw(t, "timekey") == 0 {
		timeKeyPos = rapid.IntRange(0, nkeys-1).Draw(t, "timekeypos")
	}
	typeGen := rapid.SampledFrom([]string{"int", "int", "float", "string", "string", "bool"})
	if o.wordy {
		typeGen = rapid.SampledFrom([]string{"string", "string", "int"})
	}
	if o.mixedNum {
		typeGen = rapid.SampledFrom([]string{"int", "float", "int", "float", "string"})
	}
	g := &genData{types: map[string]string{record.TimeField: "time"}, pools: map[string][]cell{}}
	pc := &PKCase{Kind: "pk"}
	used := 0
	for i := 0; i < nkeys; i++ {
		if i == timeKeyPos {
			pc.Keys = append(pc.Keys, record.TimeField)
			continue
		}
		nm := names[used]
		used++
		pc.Keys = append(pc.Keys, nm)
		g.types[nm] = typeGen.Draw(t, "ktype")
		pc.Cols = append(pc.Cols, Col{Name: nm, Type: g.types[nm]})
	}
	for i := 0; i < nextra; i++ {
		nm := names[used]
		used++
		g.types[nm] = typeGen.Draw(t, "xtype")
		pc.Cols = append(pc.Cols, Col{Name: nm, Type: g.types[nm]})
	}
	sort.Slice(pc.Cols, func(i, j int) bool { return pc.Cols[i].Name < pc.Cols[j].Name })
	g.all = pc.allCols()

	// value pools: the first key has few distinct values so that many fragments share it
	for _, c := range g.all {
		size := rapid.IntRange(1, 7).Draw(t, "poolsize")
		if ki := pc.keyIndex(c.Name); ki == 0 && len(pc.Keys) > 1 {
			size = rapid.IntRange(1, 4).Draw(t, "poolsize0")
		}
		g.pools[c.Name] = genPool(t, c.Type, size, o, "pool_"+c.Name)
	}
	n := rapid.IntRange(2, o.maxRows).Draw(t, "n")
	nullRate := map[string]int{} // per cent
	if o.nulls {
		for _, c := range pc.Cols {
			if pc.keyIndex(c.Name) >= 0 {
				nullRate[c.Name] = rapid.SampledFrom([]int{0, 0, 0, 3, 20, 50}).Draw(t, "nullrate")
			} else {
				nullRate[c.Name] = rapid.SampledFrom([]int{0, 5, 20, 50}).Draw(t, "nullrate")
			}
		}
	}
	pc.Rows = make([][]*string, n)
	g.cells = make([][]cell, n)
	for r := 0; r < n; r++ {
		row := make([]*string, len(g.all))
		cs := make([]cell, len(g.all))
		for i, c := range g.all {
			p := g.pools[c.Name]
			v := p[rapid.IntRange(0, len(p)-1).Draw(t, "v")]
			if nr := nullRate[c.Name]; nr > 0 && rapid.IntRange(0, 99).Draw(t, "isnull") < nr {
				v = cell{Null: true}
			}
			cs[i] = v
			if !v.Null {
				s := v.render(c.Type)
				if c.Type == "string" {
					s = v.S
				}
				row[i] = sp(s)
			}
		}
		pc.Rows[r] = row
		g.cells[r] = cs
	}
	// fragment layout
	target := rapid.IntRange(1, 40).Draw(t, "nfrag_target")
	pc.Frag = (n + target - 1) / target
	if rapid.IntRange(0, 9).Draw(t, "frag1") == 0 {
		pc.Frag = 1
	}
	if n >= 4 && rapid.IntRange(0, 4).Draw(t, "variable") == 0 {
		k := rapid.IntRange(1, minInt(12, n-2)).Draw(t, "ncuts")
		set := map[int]bool{}
		for i := 0; i < k; i++ {
			set[rapid.IntRange(1, n-1).Draw(t, "cut")] = true
		}
		for c := range set {
			pc.Cuts = append(pc.Cuts, c)
		}
		sort.Ints(pc.Cuts)
	}
	pc.Coarse = rapid.SampledFrom([]int{8, 8, 2, 3, 4, 16}).Draw(t, "coarse")
	pc.MinSeek = rapid.SampledFrom([]int{0, 0, 0, 1, 2, 5}).Draw(t, "minseek") * pc.Frag
	g.pc = pc
	return g
}

func minInt(a, b int) int {
	if a < b {
		return a
	}
	return b
}

// ---------------------------------------------------------------- condition generator

type cnode struct {
	op   string // AND | OR | "" (atom)
	l, r *cnode
	text string
}

var cmpOps = []string{"=", "!=", "<", "<=", ">", ">="}
var cmpOpsNoNeq = []string{"=", "<", "<=", ">", ">="}

func (g *genData) genLit(t *rapid.T, col string, o genOpts) string {
	typ := g.types[col]
	ci := -1
	for i, c := range g.all {
		if c.Name == col {
			ci = i
		}
	}
	var v cell
	k := rapid.IntRange(0, 9).Draw(t, "litsrc")
	if k < 7 {
		v = g.cells[rapid.IntRange(0, len(g.cells)-1).Draw(t, "litrow")][ci]
	}
	if k >= 7 || v.Null {
		p := g.pools[col]
		v = p[rapid.IntRange(0, len(p)-1).Draw(t, "litpool")]
	}
	nb := k == 9
	switch typ {
	case "int", "time":
		if nb {
			d := int64(rapid.SampledFrom([]int{-1, 1}).Draw(t, "nb"))
			if (d > 0 && v.I < math.MaxInt64) || (d < 0 && v.I > math.MinInt64) {
				v.I += d
			}
		}
		if o.mixedNum && rapid.Bool().Draw(t, "mixed") {
			f := float64(v.I)
			if rapid.Bool().Draw(t, "half") {
				f += 0.5
			}
			if math.Abs(f) < 1e15 {
				return litFloat(f)
			}
		}
		return fmtInt(v.I)
	case "float":
		if nb {
			v.F += rapid.SampledFrom([]float64{-0.125, 0.125}).Draw(t, "nb")
		}
		if o.mixedNum && rapid.Bool().Draw(t, "mixed") && v.F == math.Trunc(v.F) && math.Abs(v.F) < 1e15 {
			return fmtInt(int64(v.F))
		}
		return litFloat(v.F)
	case "string":
		if nb {
			switch rapid.IntRange(0, 2).Draw(t, "nb") {
			case 0:
				v.S += "A"
			case 1:
				if len(v.S) > 0 && v.S[len(v.S)-1] < 0x80 {
					v.S = v.S[:len(v.S)-1]
				}
			default:
				v.S += " "
			}
		}
		return "'" + v.S + "'"
	default:
		return fmt.Sprintf("%v", v.B)
	}
}

func (g *genData) genAtom(t *rapid.T, col string, ops []string, o genOpts) *cnode {
	typ := g.types[col]
	if o.lang == "strmatch" && typ == "string" && rapid.IntRange(0, 9).Draw(t, "like") == 0 {
		p := g.pools[col]
		v := p[rapid.IntRange(0, len(p)-1).Draw(t, "likev")].S
		return &cnode{text: fmt.Sprintf("%s LIKE '%s%%'", col, v[:rapid.IntRange(0, len(v)).Draw(t, "liken")])}
	}
	if o.lang == "strmatch" && typ == "string" && rapid.IntRange(0, 3).Draw(t, "sm") > 0 {
		// phrase = run of whole words of a stored value
		p := g.pools[col]
		ws := strings.Split(p[rapid.IntRange(0, len(p)-1).Draw(t, "smv")].S, " ")
		i := rapid.IntRange(0, len(ws)-1).Draw(t, "smi")
		j := rapid.IntRange(i, len(ws)-1).Draw(t, "smj")
		return &cnode{text: fmt.Sprintf("%s MATCHPHRASE '%s'", col, strings.Join(ws[i:j+1], " "))}
	}
	op := rapid.SampledFrom(ops).Draw(t, "op")
	if typ == "bool" && op != "=" && op != "!=" {
		op = "="
	}
	lit := g.genLit(t, col, o)
	if o.lang == "full" && rapid.IntRange(0, 7).Draw(t, "flip") == 0 {
		m := map[string]string{"=": "=", "!=": "!=", "<": ">", ">": "<", "<=": ">=", ">=": "<="}
		return &cnode{text: lit + " " + m[op] + " " + col}
	}
	if g.wantIn {
		g.wantIn = false
		return &cnode{text: fmt.Sprintf("%s IN (%s)", col, lit)}
	}
	if op == "!=" && rapid.IntRange(0, 5).Draw(t, "ltgt") == 0 {
		op = "<>"
	}
	return &cnode{text: col + " " + op + " " + lit}
}

func (n *cnode) render(t *rapid.T, full bool) string {
	if n.op == "" {
		if full && rapid.IntRange(0, 9).Draw(t, "atomparen") == 0 {
			return "(" + n.text + ")"
		}
		return n.text
	}
	side := func(ch *cnode) string {
		s := ch.render(t, full)
		if ch.op != "" && (ch.op != n.op || rapid.IntRange(0, 2).Draw(t, "paren") == 0) {
			s = "(" + s + ")"
		}
		return s
	}
	return side(n.l) + " " + n.op + " " + side(n.r)
}

// pickCol prefers key columns.
func (g *genData) pickCol(t *rapid.T, keyBias int) string {
	pc := g.pc
	var keys, others []string
	for _, k := range pc.Keys {
		if k != record.TimeField {
			keys = append(keys, k)
		}
	}
	for _, c := range pc.Cols {
		if pc.keyIndex(c.Name) < 0 {
			others = append(others, c.Name)
		}
	}
	if len(keys) == 0 || (len(others) > 0 && rapid.IntRange(0, 99).Draw(t, "nonkey") >= keyBias) {
		if len(others) == 0 {
			return ""
		}
		return rapid.SampledFrom(others).Draw(t, "col")
	}
	return rapid.SampledFrom(keys).Draw(t, "col")
}

func (g *genData) genTree(t *rapid.T, depth int, ops []string, o genOpts, keyBias int) *cnode {
	if depth == 0 || rapid.IntRange(0, 2).Draw(t, "leaf") == 0 {
		col := g.pickCol(t, keyBias)
		if col == "" {
			return nil
		}
		return g.genAtom(t, col, ops, o)
	}
	l := g.genTree(t, depth-1, ops, o, keyBias)
	r := g.genTree(t, depth-1, ops, o, keyBias)
	if l == nil {
		return r
	}
	if r == nil {
		return l
	}
	return &cnode{op: rapid.SampledFrom([]string{"AND", "OR"}).Draw(t, "bop"), l: l, r: r}
}

// genCond sets Cond/TMin/TMax of the case.
func (g *genData) genCond(t *rapid.T, o genOpts) {
	pc := g.pc
	pc.Cond, pc.TMin, pc.TMax = "", "", ""
	timeKey := pc.keyIndex(record.TimeField) >= 0
	wantTime := timeKey && rapid.IntRange(0, 1).Draw(t, "timerange") == 0
	if wantTime {
		lit := func() int64 {
			var v int64
			fmt.Sscan(g.genLit(t, record.TimeField, genOpts{}), &v)
			return v
		}
		switch rapid.IntRange(0, 3).Draw(t, "trshape") {
		case 0:
			pc.TMin = fmtInt(lit())
		case 1:
			pc.TMax = fmtInt(lit())
		case 2:
			x, y := lit(), lit()
			if x > y {
				x, y = y, x
			}
			pc.TMin, pc.TMax = fmtInt(x), fmtInt(y)
		default:
			x := lit()
			pc.TMin, pc.TMax = fmtInt(x), fmtInt(x)
		}
	}
	var root *cnode
	switch o.lang {
	case "atom", "coerce", "strmatch":
		if wantTime && rapid.Bool().Draw(t, "timeonly") {
			return
		}
		if col := g.pickCol(t, 85); col != "" {
			root = g.genAtom(t, col, cmpOps, o)
		}
		if (o.lang == "coerce" || o.lang == "strmatch") && root != nil && rapid.Bool().Draw(t, "and2") {
			if col := g.pickCol(t, 85); col != "" {
				root = &cnode{op: "AND", l: root, r: g.genAtom(t, col, cmpOps, o)}
			}
		}
	case "and":
		var cols []string
		for _, c := range pc.Cols {
			cols = append(cols, c.Name)
		}
		if len(cols) == 0 {
			return
		}
		cols = rapid.Permutation(cols).Draw(t, "andcols")
		k := rapid.IntRange(2, 3).Draw(t, "nand")
		// keys first with high probability
		sort.SliceStable(cols, func(i, j int) bool { return pc.keyIndex(cols[i]) >= 0 && pc.keyIndex(cols[j]) < 0 })
		if len(cols) > 1 && rapid.IntRange(0, 3).Draw(t, "shuffle") == 0 {
			cols[0], cols[len(cols)-1] = cols[len(cols)-1], cols[0]
		}
		for i := 0; i < k && i < len(cols); i++ {
			a := g.genAtom(t, cols[i], cmpOps, o)
			if root == nil {
				root = a
			} else {
				root = &cnode{op: "AND", l: root, r: a}
			}
		}
	case "andor":
		root = g.genTree(t, 3, cmpOpsNoNeq, o, 85)
	default: // full
		g.wantIn = rapid.IntRange(0, 199).Draw(t, "in") == 0
		root = g.genTree(t, 3, cmpOps, o, 80)
		g.wantIn = false
	}
	if root != nil {
		pc.Cond = root.render(t, o.lang == "full")
	}
}

// ---------------------------------------------------------------- known-finding classes (code-defined predicates)

// lightTable gives the parser/feature code the column catalogue without building the record.
func (g *genData) lightTable() *table {
	tb := &table{cols: g.all, colIdx: map[string]int{}}
	for i, c := range g.all {
		tb.colIdx[c.Name] = i
	}
	return tb
}

// classOf returns the known-finding class a case falls into ("" = none). Each predicate is purely syntactic on
// (key schema, condition); a class only counts when its defect is still present on the tree under test.
func classOf(pc *PKCase, types map[string]string, f *feat, nullKeys map[string]bool) string {
	maxKey := -1
	for i, k := range pc.Keys {
		if f.refs[k] > 0 {
			maxKey = i
		}
	}
	for _, d := range knownDefects {
		if d.pred == nil || !d.pred(pc, types, f, maxKey, nullKeys) {
			continue
		}
		if defectPresent(d.class) {
			return d.class
		}
	}
	return ""
}

// ---------------------------------------------------------------- the properties

func sizeClass(n int) string {
	switch {
	case n <= 1:
		return "1"
	case n == 2:
		return "2"
	case n <= 5:
		return "3-5"
	case n <= 20:
		return "6-20"
	}
	return ">20"
}

func runPK(t *testing.T, campaign string, o genOpts) {
	rapid.Check(t, ev.Prop(prop, campaign, func(t *rapid.T, c *ev.Case) {
		g := genPKData(t, o)
		pc := g.pc
		lt := g.lightTable()
		nullKeys := map[string]bool{}
		for _, r := range g.cells {
			for _, k := range pc.Keys {
				if r[lt.colIdx[k]].Null {
					nullKeys[k] = true
				}
			}
		}
		ok := false
		for try := 0; try < 8 && !ok; try++ {
			g.genCond(t, o)
			e, err := lt.parseCond(pc.Cond)
			if err != nil {
				t.Fatalf("generator produced an unparsable condition %q: %v", pc.Cond, err)
			}
			f := lt.features(e)
			if pc.TMin != "" || pc.TMax != "" {
				f.refs[record.TimeField]++
			}
			if cls := classOf(pc, g.types, f, nullKeys); cls != "" {
				c.Excluded(cls)
				continue
			}
			ok = true
		}
		if !ok {
			c.Class("all_condition_draws_excluded")
			return
		}
		res, err := checkPK(pc)
		if err != nil {
			if v, isV := err.(*violation); isV {
				c.Failf(t, prop, pc, "%s", v.msg)
			}
			c.Class("harness_inconclusive")
			t.Logf("inconclusive: %v", err)
			return
		}
		f := res.feat
		c.Class("keys=" + fmt.Sprint(len(pc.Keys)))
		for i, kt := range res.keyTypes {
			c.Class(fmt.Sprintf("key%d=%s", i+1, kt))
		}
		c.Class("nfrag=" + sizeClass(res.nfrag))
		if len(pc.Cuts) > 0 {
			c.Class("layout=variable")
		} else {
			c.Class("layout=fixed")
			switch {
			case res.lastRows == pc.Frag:
				c.Class("last_fragment=full")
			case res.lastRows == 1:
				c.Class("last_fragment=single_row")
			default:
				c.Class("last_fragment=short")
			}
		}
		if res.hasNullKey {
			c.Class("null_in_key")
		}
		if res.rejected != "" {
			if f.inAtom {
				c.Class("rejected_in_atom")
			} else {
				c.Class("cond_rejected")
				t.Logf("rejected %q: %s", pc.Cond, res.rejected)
			}
			return
		}
		if res.scanErr != "" {
			c.Class("scan_error")
			t.Logf("scan error %q: %s", pc.Cond, res.scanErr)
			return
		}
		c.Class("strategy=" + res.strategy)
		c.Class(fmt.Sprintf("used_keys=%d", res.usedKeys))
		if f.or > 0 {
			c.Class("has_or")
		}
		if f.and > 0 {
			c.Class("has_and")
		}
		if f.ops["!="] > 0 {
			c.Class("has_neq")
		}
		if f.strMatch {
			c.Class("has_matchphrase")
		}
		if f.mixedNum {
			c.Class("mixed_numeric_literal")
		}
		if pc.TMin != "" || pc.TMax != "" {
			c.Class("time_range")
		}
		nKeyRefs := 0
		for col := range f.refs {
			if pc.keyIndex(col) >= 0 {
				nKeyRefs++
			} else {
				c.Class("nonkey_ref")
			}
		}
		c.Class(fmt.Sprintf("key_cols_referenced=%d", nKeyRefs))
		switch {
		case res.covered == res.nfrag:
			c.Class("pruned=none")
		case res.covered == 0:
			c.Class("pruned=all")
		default:
			c.Class("pruned=some")
		}
		switch {
		case res.must == 0:
			c.Class("must_read=0")
		case res.must == res.nfrag:
			c.Class("must_read=all")
		default:
			c.Class("must_read=some")
		}
		if res.covered == res.must && res.covered < res.nfrag {
			c.Class("exact_pruning")
		}
		nt := res.nfrag >= 3 && res.covered < res.nfrag
		if o.lang != "atom" && o.lang != "coerce" && o.lang != "strmatch" {
			nt = nt && (nKeyRefs >= 2 || f.or > 0 || f.ops["!="] > 0)
		}
		if nt {
			c.Nontrivial(pc)
			c.Sample(map[string]any{"cond": pc.Cond, "tmin": pc.TMin, "tmax": pc.TMax, "keys": pc.Keys, "key_types": res.keyTypes, "rows": len(pc.Rows),
				"fragments": res.nfrag, "strategy": res.strategy, "fragments_returned": res.covered, "fragments_with_match": res.must})
		}
	}))
}

func TestPKAtom(t *testing.T)  { runPK(t, "pk_atom", genOpts{lang: "atom", maxRows: 160}) }
func TestPKAnd(t *testing.T)   { runPK(t, "pk_and", genOpts{lang: "and", maxRows: 160}) }
func TestPKAndOr(t *testing.T) { runPK(t, "pk_andor", genOpts{lang: "andor", maxRows: 160}) }
func TestPKFull(t *testing.T)  { runPK(t, "pk_full", genOpts{lang: "full", maxRows: 400}) }
func TestPKNulls(t *testing.T) {
	runPK(t, "pk_nulls", genOpts{lang: "full", nulls: true, maxRows: 160})
}
func TestPKCoerce(t *testing.T) {
	runPK(t, "pk_coerce", genOpts{lang: "coerce", mixedNum: true, maxRows: 120})
}
func TestPKStrMatch(t *testing.T) {
	runPK(t, "pk_strmatch", genOpts{lang: "strmatch", wordy: true, maxRows: 120})
}

var _ = influxql.AND
