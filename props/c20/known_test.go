package c20

// Known-finding classes: code-defined predicates over (key schema, condition). A class is excluded from the generated
// campaigns only while its minimal replay still fails on the tree under test (so a repaired tree is searched in full).

import (
	"encoding/json"
	"os"
	"path/filepath"
	"strings"
	"sync"
)

type knownDefect struct {
	class  string
	replay string // file under replays/C20
	pred   func(pc *PKCase, types map[string]string, f *feat, maxKey int, nullKeys map[string]bool) bool
	skPred func(sc *SKCase, f *feat) bool
}

// skClassOf: known-finding class of a skip-index case ("" = none).
func skClassOf(sc *SKCase, f *feat) string {
	for _, d := range knownDefects {
		if d.skPred != nil && d.skPred(sc, f) && defectPresent(d.class) {
			return d.class
		}
	}
	return ""
}

func anyKey(pc *PKCase, m map[string]bool) bool {
	for _, k := range pc.Keys {
		if m[k] {
			return true
		}
	}
	return false
}

// Order matters: the first matching class whose defect is still present names the exclusion.
var knownDefects = []knownDefect{
	{ // R7: bloom-filter index written with the empty split set a DDL-created index gets, asked for a phrase
		class: "bloomfilter_unsplit_writer_matchphrase", replay: "r7_bloomfilter_written_unsplit_read_split.json",
		skPred: func(sc *SKCase, f *feat) bool {
			return sc.Kind == "bloom" && sc.Tokens == "" && f.ops["MATCHPHRASE"] > 0
		},
	},
	{ // R9: bloom-filter index asked for a phrase of three or more words, or for a phrase with a non-ASCII byte
		class: "bloomfilter_phrase_3plus_words_or_non_ascii", replay: "r9_bloomfilter_three_word_phrase.json",
		skPred: func(sc *SKCase, f *feat) bool {
			if sc.Kind != "bloom" {
				return false
			}
			for _, p := range f.phrases {
				if len(strings.Fields(p)) >= 3 {
					return true
				}
				for i := 0; i < len(p); i++ {
					if p[i] >= 0x80 {
						return true
					}
				}
			}
			return false
		},
	},
	{ // R8: the set skip-index reader is a constant "skip"
		class: "set_skip_index", replay: "r8_set_skip_index_reader_skips_everything.json",
		skPred: func(sc *SKCase, f *feat) bool { return sc.Kind == "set" },
	},
	{ // R6: LIKE/MATCH atom on a key column combined with anything: unbalanced RPN, Scan panics
		class: "like_on_key_column", replay: "r6_like_on_key_unbalanced_rpn_panic.json",
		pred: func(pc *PKCase, types map[string]string, f *feat, maxKey int, nullKeys map[string]bool) bool {
			return anyKey(pc, f.likeCols)
		},
	},
	{ // R5: MATCHPHRASE on a key column is evaluated as equality
		class: "matchphrase_on_key_column", replay: "r5_matchphrase_on_key_is_equality.json",
		pred: func(pc *PKCase, types map[string]string, f *feat, maxKey int, nullKeys map[string]bool) bool {
			return anyKey(pc, f.phraseCols)
		},
	},
	{ // R4: numeric literal of the other numeric kind than the key column (b = 3.0 on an integer key, f = 3 on a float key)
		class: "mixed_numeric_literal_on_key_column", replay: "r4_float_literal_on_int_key.json",
		pred: func(pc *PKCase, types map[string]string, f *feat, maxKey int, nullKeys map[string]bool) bool {
			return anyKey(pc, f.mixedCols)
		},
	},
	{ // R3: a null in a key column the scan uses (position <= highest referenced key column)
		class: "null_in_used_key_column", replay: "r3_null_first_key_treated_as_plus_infinity.json",
		pred: func(pc *PKCase, types map[string]string, f *feat, maxKey int, nullKeys map[string]bool) bool {
			for i := 0; i <= maxKey && i < len(pc.Keys); i++ {
				if nullKeys[pc.Keys[i]] {
					return true
				}
			}
			return false
		},
	},
	{ // R2: three key columns used, the middle one integer-typed (int or time), first key referenced
		class: "three_keys_used_integer_middle_key", replay: "r2_three_keys_int_middle_key_mutated.json",
		pred: func(pc *PKCase, types map[string]string, f *feat, maxKey int, nullKeys map[string]bool) bool {
			if maxKey != 2 || f.refs[pc.Keys[0]] == 0 {
				return false
			}
			t := types[pc.Keys[1]]
			return t == "int" || t == "time"
		},
	},
	{ // R1: the condition (incl. the time range) references two or more distinct key columns
		class: "two_or_more_key_columns_referenced", replay: "r1_first_key_eq_and_second_key_neq.json",
		pred: func(pc *PKCase, types map[string]string, f *feat, maxKey int, nullKeys map[string]bool) bool {
			n := 0
			for _, k := range pc.Keys {
				if f.refs[k] > 0 {
					n++
				}
			}
			return n >= 2
		},
	},
}

var (
	presentMu    sync.Mutex
	presentCache = map[string]bool{}
)

func replayDir() string {
	if r := os.Getenv("VERIF_ROOT"); r != "" {
		return filepath.Join(r, "replays", "C20")
	}
	return filepath.Join("..", "..", "replays", "C20")
}

// defectPresent re-executes the minimal replay of the class; true = it still violates the property.
func defectPresent(class string) bool {
	presentMu.Lock()
	defer presentMu.Unlock()
	if v, ok := presentCache[class]; ok {
		return v
	}
	present := false
	for _, d := range knownDefects {
		if d.class != class {
			continue
		}
		b, err := os.ReadFile(filepath.Join(replayDir(), d.replay))
		if err != nil {
			break
		}
		var f struct {
			Case json.RawMessage `json:"case"`
		}
		if json.Unmarshal(b, &f) != nil {
			break
		}
		func() {
			defer func() {
				if r := recover(); r != nil {
					present = true
				}
			}()
			if err := checkAny(f.Case); err != nil {
				if _, inc := err.(inconclusive); !inc {
					present = true
				}
			}
		}()
	}
	presentCache[class] = present
	return present
}
