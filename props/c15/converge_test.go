package c15

import (
	"fmt"
	"sort"
	"testing"

	metasvc "github.com/openGemini/openGemini/app/ts-meta/meta"
	"pgregory.net/rapid"
	"verif/internal/ev"
	mg "verif/props/metagen"
)

const prop = "C15"

func TestMain(m *testing.M) { ev.Main(m) }

// Case is the replayable form of one generated history.
type Case struct {
	Kind string      `json:"kind"`
	Cfg  mg.Config   `json:"cfg"`
	Ops  []mg.Op     `json:"ops"`
	Cut  int         `json:"cut"`            // the snapshot is taken after op number Cut (0-based)
	Mask mg.DumpOpts `json:"mask,omitempty"` // normalisations of known-finding classes applied to the A/C comparison
	Desc []string    `json:"desc,omitempty"` // human-readable rendering of the ops
}

func (c *Case) describe() {
	c.Desc = nil
	for i, o := range c.Ops {
		mark := ""
		if i == c.Cut {
			mark = "   <-- snapshot+restore after this op"
		}
		c.Desc = append(c.Desc, fmt.Sprintf("%d: %s%s", i, o.String(), mark))
	}
}

// outcome of running one history through the three replicas
type outcome struct {
	violation   string         // "" when the property held
	okBefore    int            // commands that succeeded up to and including the cut
	okAfter     int            // commands that succeeded after the cut
	maskedDiffs map[string]int // known-finding classes that were needed to make A/C equal
	results     []string
	fieldsAtCut map[string]bool // "Type.Field" names that were non-zero in the catalogue the snapshot was taken from
}

// checkConverge is the oracle: A and B apply everything (answers equal, whitelisted catalogue equal after every step); C restores a
// snapshot of B taken after op cut and applies the suffix (answers equal to A's, catalogue equal to A's after the restore and after
// every suffix step).
func checkConverge(cs *Case) (out outcome) {
	out.maskedDiffs = map[string]int{}
	a, b, c := mg.NewFSM(cs.Cfg), mg.NewFSM(cs.Cfg), mg.NewFSM(cs.Cfg)
	strict := mg.DumpOpts{}
	var lateSnap *metasvc.VerifSnapshot
	var dumpAtCut any
	defer func() {
		if out.violation != "" || lateSnap == nil || cs.Cut >= len(cs.Ops)-1 {
			return
		}
		late, err := lateSnap.Bytes()
		if err != nil {
			out.violation = fmt.Sprintf("persisting the snapshot taken after op %d at the end of the log failed: %v", cs.Cut, err)
			return
		}
		d := mg.NewFSM(cs.Cfg)
		if err := d.Restore(late); err != nil {
			out.violation = fmt.Sprintf("restore of the snapshot taken after op %d and persisted at the end of the log failed: %v", cs.Cut, err)
			return
		}
		if df := mg.Diff(dumpAtCut, mg.Dump(d.Data(), strict), 4); df != "" {
			out.violation = fmt.Sprintf("the snapshot taken after op %d changed while the %d later commands were applied (persisted at the end of the log it restores to a different catalogue than persisted at once): %s", cs.Cut, len(cs.Ops)-1-cs.Cut, df)
		}
	}()
	for i, o := range cs.Ops {
		ra, pa := mg.SafeApply(a, i, o)
		if pa != "" {
			out.violation = fmt.Sprintf("replica A panicked applying op %d (%s): %s", i, o, pa)
			return
		}
		rb, pb := mg.SafeApply(b, i, o)
		if pb != "" {
			out.violation = fmt.Sprintf("replica B panicked applying op %d (%s): %s", i, o, pb)
			return
		}
		out.results = append(out.results, ra)
		if ra != rb && cs.Mask.MaskConflictErrorChoice && o.K == "createevent" && isDDLConflict(ra) && isDDLConflict(rb) {
			out.maskedDiffs["ddl-conflict-error-choice-by-map-order"]++
			rb = ra
		}
		if ra != rb {
			out.violation = fmt.Sprintf("op %d (%s): replicas that applied the same log answered differently: A=%q B=%q", i, o, ra, rb)
			return
		}
		if ra == "<nil>" {
			if i <= cs.Cut {
				out.okBefore++
			} else {
				out.okAfter++
			}
		}
		da := mg.Dump(a.Data(), strict)
		if d := mg.Diff(da, mg.Dump(b.Data(), strict), 4); d != "" {
			out.violation = fmt.Sprintf("after op %d (%s): catalogues of two replicas that applied the same log differ: %s", i, o, d)
			return
		}
		if i == cs.Cut {
			out.fieldsAtCut = mg.FieldsSet(b.Data())
			snap, err := b.SnapshotBytes()
			if err != nil {
				out.violation = fmt.Sprintf("snapshot after op %d failed: %v", i, err)
				return
			}
			if err := c.Restore(snap); err != nil {
				out.violation = fmt.Sprintf("restore of the snapshot taken after op %d failed: %v", i, err)
				return
			}
			// raft takes the snapshot object with Apply blocked but persists it while later commands are applied: the same
			// snapshot is marshalled again at the end of the log and must restore to the same catalogue
			lateSnap, err = b.SnapshotHandle()
			if err != nil {
				out.violation = fmt.Sprintf("snapshot after op %d failed: %v", i, err)
				return
			}
			dumpAtCut = mg.Dump(c.Data(), strict)
		}
		if i > cs.Cut {
			rc, pc := mg.SafeApply(c, i, o)
			if pc != "" {
				out.violation = fmt.Sprintf("restored replica C panicked applying op %d (%s), A did not: %s", i, o, pc)
				return
			}
			if rc != ra && o.K == "nodetmpindex" {
				// not a finding: the answer of UpdateNodeTmpIndexCommand depends on DataNode.Index, replication book-keeping that a
				// snapshot deliberately does not carry (outside the property's enumeration)
				out.maskedDiffs["answer-depends-on-node-tmp-index-bookkeeping"]++
			} else if rc != ra && cs.Mask.MaskConflictErrorChoice && o.K == "createevent" && isDDLConflict(ra) && isDDLConflict(rc) {
				out.maskedDiffs["ddl-conflict-error-choice-by-map-order"]++
			} else if rc != ra && cs.Mask.MaskEventPre && o.K == "createevent" {
				// known class: the restored event carries currState as preState, so "same event again?" is answered differently
				out.maskedDiffs["event-prestate-restored-from-currstate"]++
			} else if rc != ra {
				out.violation = fmt.Sprintf("op %d (%s): the replica restored from the snapshot taken after op %d answered %q, the full-log replica %q", i, o, cs.Cut, rc, ra)
				return
			}
		}
		if i >= cs.Cut {
			dc := mg.Dump(c.Data(), strict)
			if d := mg.Diff(da, dc, 4); d != "" {
				// differs: is it only a known-finding class that this case was asked to leave out?
				dam, dcm := mg.Dump(a.Data(), cs.Mask), mg.Dump(c.Data(), cs.Mask)
				if dm := mg.Diff(dam, dcm, 4); dm != "" {
					when := "right after the restore"
					if i > cs.Cut {
						when = fmt.Sprintf("after suffix op %d (%s)", i, o)
					}
					out.violation = fmt.Sprintf("snapshot taken after op %d, restored: catalogue differs from the full-log replica %s (A vs C): %s", cs.Cut, when, dm)
					return
				}
				for _, cl := range classifyMasked(a, c, cs.Mask) {
					out.maskedDiffs[cl]++
				}
			}
		}
	}
	return
}

func isDDLConflict(res string) bool {
	return res == "error: retention policy is being delete" || res == "error: measurement is being delete"
}

func classifyMasked(a, c *metasvc.VerifFSM, m mg.DumpOpts) []string {
	var out []string
	try := func(name string, o mg.DumpOpts) {
		if mg.Diff(mg.Dump(a.Data(), o), mg.Dump(c.Data(), o), 1) == "" {
			out = append(out, name)
		}
	}
	if m.MaskMstID {
		try("measurement-id-lost-by-snapshot", mg.DumpOpts{MaskMstID: true})
	}
	if m.MaskCQLastRun {
		try("cq-lastrun-zero-time-wraps", mg.DumpOpts{MaskCQLastRun: true})
	}
	if m.MaskEventPre {
		try("event-prestate-restored-from-currstate", mg.DumpOpts{MaskEventPre: true})
	}
	if len(out) == 0 {
		out = append(out, "several-known-classes-together")
	}
	return out
}

// mainMask: normalisations of known-finding classes applied to the A/C comparison of the main campaigns. Every class found so
// far has been repaired in /repo (see known_findings_proposed.json), so nothing is masked; the replays stay as regression cases.
var mainMask = mg.DumpOpts{}

func envMask() mg.DumpOpts { return mainMask }

func bucket(n int) string {
	switch {
	case n < 5:
		return "<5"
	case n < 15:
		return "5-14"
	case n < 30:
		return "15-29"
	default:
		return ">=30"
	}
}

func runConverge(t *rapid.T, c *ev.Case, campaign string, prof mg.Profile, maxLen int) {
	cfg := mg.Config{PtNumPerNode: uint32(rapid.IntRange(1, 3).Draw(t, "ptPerNode")), SchemaCleanEn: rapid.Bool().Draw(t, "schemaClean"), ExpandShards: rapid.IntRange(0, 3).Draw(t, "expand") == 0}
	n := mg.Uniform(t, 2, maxLen, "len")
	g := mg.NewGen(cfg, prof)
	for steps := 0; len(g.Ops) < n && steps < 3*n && g.Panic == ""; steps++ {
		g.Step(t)
	}
	if len(g.Ops) == 0 {
		return
	}
	cs := &Case{Kind: "converge", Cfg: cfg, Ops: g.Ops, Mask: envMask()}
	if g.Panic != "" {
		cs.Cut = len(g.Ops) - 1
		cs.describe()
		c.Failf(t, prop, cs, "applying op %d (%s) panicked: %s", len(g.Ops)-1, g.Ops[len(g.Ops)-1], g.Panic)
	}
	// every position is drawn; half of the cases take it from the second half of the log, where the snapshotted catalogue is richer
	// (more catalogue fields hold a non-zero value when the snapshot is taken, see the "field non-zero at snapshot" classes)
	cs.Cut = mg.Uniform(t, 0, len(g.Ops)-1, "cut")
	if rapid.Bool().Draw(t, "lateCut") {
		cs.Cut = mg.Uniform(t, len(g.Ops)/2, len(g.Ops)-1, "cutLate")
	}
	out := checkConverge(cs)
	// a fourth replica for free: the generator's own instance applied the same log
	if out.violation == "" {
		for i := range out.results {
			if out.results[i] != g.Res[i] && !(cs.Mask.MaskConflictErrorChoice && g.Ops[i].K == "createevent" && isDDLConflict(out.results[i]) && isDDLConflict(g.Res[i])) {
				out.violation = fmt.Sprintf("op %d (%s): replicas that applied the same log answered differently: %q vs %q (generator-side replica)", i, g.Ops[i], out.results[i], g.Res[i])
				break
			}
		}
	}
	if out.violation != "" {
		cs.describe()
		c.Failf(t, prop, cs, "%s", out.violation)
	}
	// ---- evidence
	c.Class("len " + bucket(len(g.Ops)))
	switch {
	case cs.Cut == 0:
		c.Class("cut at first op")
	case cs.Cut == len(g.Ops)-1:
		c.Class("cut at last op")
	default:
		c.Class("cut inside")
	}
	types := map[string]bool{}
	for k := range g.Generated {
		ct := mg.Op{K: k}.TypeName()
		types["gen "+ct] = true
		if g.Succeeded[k] > 0 {
			types["ok "+ct] = true
		}
	}
	for k := range types {
		c.Class(k)
	}
	for k, v := range g.Excluded {
		for i := 0; i < v; i++ {
			c.Excluded(k)
		}
	}
	for k := range out.maskedDiffs {
		c.Excluded(k)
	}
	addTotals(campaign, g)
	// fields populated: a field that is zero in the snapshotted catalogue cannot reveal that clone / marshal / unmarshal forgets it
	for k := range out.fieldsAtCut {
		c.Class("field non-zero at snapshot: " + k)
	}
	addFieldTotals(campaign, out.fieldsAtCut)
	if out.okBefore >= 10 && out.okAfter >= 3 {
		c.Nontrivial(cs)
		c.Sample(map[string]any{"cfg": cfg, "ops": len(g.Ops), "cut": cs.Cut, "ok_before_cut": out.okBefore, "ok_after_cut": out.okAfter, "first_ops": head(cs, 8)})
	}
}

func head(cs *Case, n int) []string {
	var out []string
	for i, o := range cs.Ops {
		if i >= n {
			break
		}
		out = append(out, o.String())
	}
	return out
}

var totals = map[string]map[string][2]int{}

// addTotals keeps per-process totals "command type -> [generated, succeeded]" as a note in the evidence.
func addTotals(campaign string, g *mg.Gen) {
	m := totals[campaign]
	if m == nil {
		m = map[string][2]int{}
		totals[campaign] = m
	}
	for k, v := range g.Generated {
		ct := mg.Op{K: k}.TypeName()
		x := m[ct]
		x[0] += v
		x[1] += g.Succeeded[k]
		m[ct] = x
	}
	keys := make([]string, 0, len(m))
	for k := range m {
		keys = append(keys, k)
	}
	sort.Strings(keys)
	note := map[string]string{}
	for _, k := range keys {
		note[k] = fmt.Sprintf("generated %d, succeeded %d", m[k][0], m[k][1])
	}
	ev.Note(campaign, "ops_per_command_type_in_one_process", note)
}

var fieldTotals = map[string]*mg.FieldTotals{}

// addFieldTotals keeps, per process, the "fields populated" summary: in how many snapshotted catalogues each catalogue field was
// non-zero, and which fields of the catalogue types no generated history ever populated.
func addFieldTotals(campaign string, set map[string]bool) {
	ft := fieldTotals[campaign]
	if ft == nil {
		ft = &mg.FieldTotals{}
		fieldTotals[campaign] = ft
	}
	ft.Add(set)
	pop, never := ft.Summary()
	ev.Note(campaign, "fields_populated_at_snapshot_in_one_process", map[string]any{"snapshots": ft.Cases, "non_zero_in_n_snapshots": pop, "never_populated": never})
}

// known applies the generator-side exclusions of still-open known-finding classes. All C15 classes are repaired: none is left.
func known(p mg.Profile) mg.Profile { return p }

func broadProfile() mg.Profile {
	return known(mg.Profile{Weights: mg.BroadWeights()})
}

// TestConverge: the broad mix over every command type the harness can shape like a real sender.
func TestConverge(t *testing.T) {
	rapid.Check(t, ev.Prop(prop, "converge", func(t *rapid.T, c *ev.Case) {
		runConverge(t, c, "converge", broadProfile(), 60)
	}))
}

// TestConvergeCatalogue: the create/alter/drop-heavy mix (longer lives of shard groups, more prune / duration changes).
func TestConvergeCatalogue(t *testing.T) {
	rapid.Check(t, ev.Prop(prop, "converge_catalogue", func(t *rapid.T, c *ev.Case) {
		runConverge(t, c, "converge_catalogue", known(mg.Profile{Weights: mg.CatalogueWeights()}), 60)
	}))
}
