from campaigns_util import B

SPEC = {
    "pkg": "props/c15", "level": "exploration",
    "rule": ("state-aware rapid generator (props/metagen) emits sequences of up to 60 raft log entries over 62 registered command types, built field-for-field like "
             "lib/metaclient / the statement executor / ts-meta's own senders, names from pools of 3, ids drawn from what exists or existed; three FSM instances (H3): "
             "A and B apply all (answers and whitelisted canonical catalogue equal after every step), C restores a snapshot of B taken after a generated cut and applies "
             "the suffix (answers equal to A's, catalogue equal after the restore and after every suffix step). A case is non-trivial when >= 10 commands succeeded up to "
             "the cut and >= 3 after it; distinct = hash of (config, ops, cut). Classes 'gen <type>' / 'ok <type>' count the cases in which a command type was generated / "
             "succeeded at least once; classes 'field non-zero at snapshot: Type.Field' count, per catalogue field (reflection over meta.Data), the cases in which the field "
             "held a non-zero value in the catalogue the snapshot was taken from (a field that is always zero cannot reveal that clone/marshal/unmarshal forgets it); notes carry "
             "per-process op totals and the list of catalogue fields no generated history populated"),
    "assumptions": [
        "commands are only compared for shapes a real sender produces (argument checks of the client are re-done; checks against the client's cached catalogue are modelled as a fresh cache)",
        "HA policy write-available-first (default): replica groups stay empty, UpdateReplicationCommand is generated but always refused",
        "wall-clock stamps (DeletedAt) are compared as set/unset; OpsMap*, UpdateNodeTmpIndexCommandStart, DataNode.Index, ExpandShardsEnable and the lazily filled MeasurementInfo.ObsOptions are outside the whitelist",
        "all defect classes found so far are repaired in /repo: nothing is masked or excluded any more, replays/C15/*.json are regression cases; the answer of UpdateNodeTmpIndexCommand (it depends on the non-persisted DataNode.Index) is exempt from the A/C answer comparison",
    ],
    "campaigns": [
        {"name": "converge", "run": "^TestConverge$", "quick": B(2000, 5), "thorough": B(12000, 9, 3000)},
        {"name": "converge_catalogue", "run": "^TestConvergeCatalogue$", "quick": B(1200, 3), "thorough": B(12000, 6, 3000)},
    ],
}

META = {
    "engine": "lib-rapid",
    "technique": "stateful property-based testing: three-replica differential (two full-log replicas, one snapshot/restore replica) over generated command logs",
    "text": ("Generated command logs are applied to two independent meta FSM instances and, from a generated cut on, to a third instance restored from a snapshot; "
             "answers and a whitelisted canonical dump of the catalogue must agree after every step. Exploration: finds counterexamples, never proves absence."),
    "note": "Trusts the harness' canonical dump (whitelist of the fields the property enumerates) and its model of which command shapes real senders produce; raft itself is not exercised (H3 drives the FSM directly).",
}
