package c15

import (
	"encoding/json"
	"errors"
	"testing"

	"verif/internal/ev"
)

// replayRounds: hash-map iteration order is one of the quantified dimensions, so a saved history is re-run several times.
const replayRounds = 40

func TestReplay(t *testing.T) {
	ev.RunReplays(func(raw json.RawMessage, f ev.Failure) error {
		var cs Case
		if err := json.Unmarshal(raw, &cs); err != nil {
			return ev.InconclusiveError(err.Error())
		}
		if cs.Kind != "converge" || len(cs.Ops) == 0 || cs.Cut < 0 || cs.Cut >= len(cs.Ops) {
			return ev.InconclusiveError("not a converge case")
		}
		for i := 0; i < replayRounds; i++ {
			if out := checkConverge(&cs); out.violation != "" {
				return errors.New(out.violation)
			}
		}
		return nil
	})
}
