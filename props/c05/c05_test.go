package c05

import (
	"encoding/json"
	"fmt"
	"os"
	"sort"
	"strings"
	"testing"
	"time"

	"pgregory.net/rapid"
	"verif/internal/bb"
	"verif/internal/ev"
	"verif/internal/hist"
	"verif/internal/model"
)

const prop = "C05"

func TestMain(m *testing.M) {
	code := m.Run()
	ev.Flush()
	bb.CleanupAll()
	os.Exit(code)
}

const db = "db0"

var msts = []string{"m0", "m1"}
var hosts = []string{"a", "b", "c", "d"}

type Op struct {
	Kind   string        `json:"op"` // write kill restart pause resume flush read wait
	Points []hist.PointJ `json:"points,omitempty"`
	Store  int           `json:"store,omitempty"`
	During bool          `json:"during,omitempty"` // kill while a write request is in flight
	Ms     int           `json:"ms,omitempty"`
}

type cl struct {
	c      *bb.Cluster
	st     *model.Store
	cs     *ev.Case
	fail   func(format string, a ...any)
	down   map[int]bool
	paused map[int]bool
	nt     []string
	visible map[string]bool
	acceptDelays []time.Duration
}

func (x *cl) dump() (model.Observed, error) {
	all := model.Observed{}
	for _, m := range msts {
		r, err := x.c.SQL.Query(db, "select * from "+bb.Quote(m)+" group by *", nil)
		if err != nil {
			return nil, err
		}
		if r.Err != "" {
			if strings.Contains(r.Err, "measurement not found") {
				continue
			}
			return nil, fmt.Errorf("query error: %s", r.Err)
		}
		if len(r.Results) == 0 {
			continue
		}
		obs, err := bb.RowsOf(r.Results[0].Series, hist.Kinds)
		if err != nil {
			return nil, err
		}
		for k, v := range obs {
			all[k] = v
		}
	}
	return all, nil
}

// verify polls (<= 90 s: failover, index visibility) until the full contents are admissible for the model.
// With stable > 0 it keeps reading for that long afterwards (once a second): while a store is down the answering replica
// changes when the failure is detected (first the master partition, then the first online one), and "which replica answers
// never changes the answer" - a later inadmissible answer must become admissible again within the same 60 s (replica lag is
// tolerated, a replica that lost acknowledged data is not).
func (x *cl) verify(when string, stable time.Duration) {
	deadline := time.Now().Add(90 * time.Second)
	var stableUntil time.Time
	var diffs []string
	for {
		obs, err := x.dump()
		if err != nil {
			diffs = []string{err.Error()}
		} else {
			diffs = x.st.Compare(obs, "")
		}
		now := time.Now()
		if len(diffs) == 0 {
			if stable == 0 {
				return
			}
			if stableUntil.IsZero() {
				stableUntil = now.Add(stable)
			}
			if now.After(stableUntil) {
				return
			}
			deadline = now.Add(90 * time.Second)
			time.Sleep(time.Second)
			continue
		}
		if !stableUntil.IsZero() {
			x.cs.Class("answer-regressed-after-being-admissible")
		}
		if now.After(deadline) {
			break
		}
		time.Sleep(500 * time.Millisecond)
	}
	if !stableUntil.IsZero() {
		when += " (the answer had been admissible earlier in this read and regressed: another replica answers)"
	}
	if p := x.c.UnrecoveredPanic(); p != "" {
		x.fail("%s: process panicked: %s", when, p)
	}
	x.fail("%s: contents differ from the acknowledged history for 90 s: %s", when, strings.Join(diffs, "; "))
}

// write sends the batch, retrying refusals for up to 60 s (bounded form of "accepted again as soon as a leader exists").
func (x *cl) write(ps []hist.PointJ, killDuring int) {
	mps := make([]model.Point, len(ps))
	for i := range ps {
		mps[i] = ps[i].Model()
	}
	body := model.Lines(mps)
	start := time.Now()
	if killDuring >= 0 {
		go func() {
			time.Sleep(time.Duration(1+len(ps)%3) * time.Millisecond)
			x.c.KillStore(killDuring)
		}()
	}
	for {
		status, resp := x.c.SQL.Write(db, "", "ns", body)
		if status == 204 {
			x.st.Apply(mps, true)
			if d := time.Since(start); d > time.Second {
				x.acceptDelays = append(x.acceptDelays, d)
			}
			return
		}
		// a refused / failed request may have been applied partly or fully
		x.st.Apply(mps, false)
		if status >= 400 && status < 500 {
			x.fail("valid write rejected with status %d: %s", status, resp)
		}
		if time.Since(start) > 60*time.Second {
			if p := x.c.UnrecoveredPanic(); p != "" {
				x.fail("process panicked: %s", p)
			}
			x.fail("writes are still refused 60 s after the fault (last status %d: %s); stores down: %v", status, resp, x.down)
		}
		time.Sleep(500 * time.Millisecond)
	}
}

func (x *cl) downCount() int {
	n := 0
	for i := 0; i < 3; i++ {
		if x.down[i] || x.paused[i] {
			n++
		}
	}
	return n
}

func (x *cl) exec(op Op) {
	x.cs.Op(op)
	switch op.Kind {
	case "write":
		kd := -1
		if op.During {
			kd = op.Store
			x.down[op.Store] = true
			x.nt = append(x.nt, fmt.Sprintf("kill-during-write(store%d)", op.Store+1))
		}
		x.write(op.Points, kd)
	case "kill":
		x.c.KillStore(op.Store)
		x.down[op.Store] = true
		x.nt = append(x.nt, fmt.Sprintf("kill(store%d)", op.Store+1))
	case "restart":
		x.c.StartStore(op.Store)
		delete(x.down, op.Store)
		x.nt = append(x.nt, fmt.Sprintf("rejoin(store%d)", op.Store+1))
	case "pause":
		x.c.PauseStore(op.Store)
		x.paused[op.Store] = true
		x.nt = append(x.nt, fmt.Sprintf("pause(store%d)", op.Store+1))
	case "resume":
		x.c.ResumeStore(op.Store)
		delete(x.paused, op.Store)
	case "flush":
		x.c.SQL.Ctrl("flush", nil)
	case "wait":
		time.Sleep(time.Duration(op.Ms) * time.Millisecond)
	case "read":
		when := "read"
		if x.downCount() > 0 {
			when = fmt.Sprintf("read with stores down/paused %v %v", x.down, x.paused)
			x.cs.Class("read-with-minority-down")
		}
		x.verify(when, time.Duration(op.Ms)*time.Millisecond)
	default:
		bb.Fatal("unknown op %q", op.Kind)
	}
}

func newCl(cs *ev.Case, pt string, fail func(format string, a ...any)) *cl {
	x := &cl{st: model.NewStore(), cs: cs, fail: fail, down: map[int]bool{}, paused: map[int]bool{}, visible: map[string]bool{}}
	// Bringing the cluster up is not part of the property: a start in which the replicated database does not accept its first
	// write (raft groups not elected / partitions not assigned; seen in about 1 of 40 starts on a busy machine) is thrown away
	// and repeated; only three such starts in a row are reported (as a harness problem, never as a violation).
	var lastTail string
	for attempt := 1; attempt <= 3; attempt++ {
		x.c = bb.NewCluster(5, map[string]string{"ptnum-pernode": pt})
		x.c.Start()
		// a request routed to a stopped (SIGSTOP) or just killed store can hang until the failure is detected: give up on it
		// after 20 s and ask again, instead of spending the whole bounded-liveness window inside one request
		x.c.SQL.HTTP.Timeout = 20 * time.Second
		ok := false
		deadline := time.Now().Add(60 * time.Second)
		for time.Now().Before(deadline) {
			r, err := x.c.SQL.Query("", "create database "+db+" replicas 3", nil)
			if err == nil && r.Err == "" {
				ok = true
				break
			}
			time.Sleep(500 * time.Millisecond)
		}
		if ok {
			// ready when a write to the replicated database is accepted (raft groups elected)
			ok = false
			deadline = time.Now().Add(90 * time.Second)
			for time.Now().Before(deadline) {
				st, _ := x.c.SQL.Write(db, "", "ns", "warmup,host=w v=1i 1700000000000000000")
				if st == 204 {
					ok = true
					break
				}
				time.Sleep(500 * time.Millisecond)
			}
		}
		if ok {
			return x
		}
		lastTail = x.c.Tail(800)
		cs.Class("cluster-start-repeated")
		x.c.Destroy()
	}
	bb.Fatal("the replicated database did not accept its first write in three cluster starts: %s", lastTail)
	return x
}

type gen struct{ counter int }

func (g *gen) batch(t *rapid.T) []hist.PointJ {
	n := rapid.IntRange(1, 10).Draw(t, "n")
	ps := make([]hist.PointJ, n)
	for i := range ps {
		p := hist.PointJ{Mst: rapid.SampledFrom(msts).Draw(t, "mst"), Tags: map[string]string{"host": rapid.SampledFrom(hosts).Draw(t, "host")}, T: rapid.IntRange(0, 15).Draw(t, "t"), Fields: map[string]string{}}
		mask := rapid.IntRange(1, 15).Draw(t, "fieldmask")
		for j, n := range hist.FieldNames {
			if mask&(1<<j) == 0 {
				continue
			}
			g.counter++
			switch n {
			case "i":
				p.Fields[n] = fmt.Sprint(g.counter)
			case "f":
				p.Fields[n] = fmt.Sprintf("%g", float64(g.counter)+0.25)
			case "s":
				p.Fields[n] = fmt.Sprintf("v%d", g.counter)
			default:
				p.Fields[n] = fmt.Sprint(g.counter%2 == 0)
			}
		}
		ps[i] = p
	}
	return ps
}

// exposer picks the store whose failure makes store `rejoined` the first online replica (stores 0,1; store 2 only answers as
// master, so any other store is drawn).
func exposer(t *rapid.T, rejoined int) int {
	switch rejoined {
	case 0:
		return rapid.IntRange(1, 2).Draw(t, "exposer")
	case 1:
		return 0
	default:
		return rapid.IntRange(0, 1).Draw(t, "exposer")
	}
}

func runCase(t *rapid.T, c *ev.Case) {
	pt := rapid.SampledFrom([]string{"1", "2"}).Draw(t, "ptnum")
	x := newCl(c, pt, func(format string, a ...any) {
		c.Failf(t, prop, map[string]any{"kind": "faults", "ptnum": pt}, format, a...)
	})
	defer x.c.Destroy()
	g := &gen{}
	// some data before the first fault
	for i := 0; i < rapid.IntRange(1, 3).Draw(t, "w0"); i++ {
		x.exec(Op{Kind: "write", Points: g.batch(t)})
	}
	x.exec(Op{Kind: "read"})
	if rapid.Bool().Draw(t, "rolling") {
		// rolling restart: every store is taken down and brought back once, in a generated order (each time only a minority is
		// down); afterwards one more single failure must still leave everything readable and writable - a store that was silently
		// dropped from its replica group, or never caught up, shows up here
		c.Class("rolling-restart-of-all-stores")
		order := rapid.Permutation([]int{0, 1, 2}).Draw(t, "rollingOrder")
		if rapid.Bool().Draw(t, "secondPass") {
			// twice: what a fail-over in the first pass did to the replica groups meets the restarts of the second pass
			order = append(order, rapid.Permutation([]int{0, 1, 2}).Draw(t, "rollingOrder2")...)
			c.Class("rolling-restart-two-passes")
		}
		for _, v := range order {
			x.exec(Op{Kind: "kill", Store: v})
			x.exec(Op{Kind: "write", Points: g.batch(t)})
			x.exec(Op{Kind: "read", Ms: 3000})
			x.exec(Op{Kind: "restart", Store: v})
			x.exec(Op{Kind: "wait", Ms: 4000})
			x.exec(Op{Kind: "write", Points: g.batch(t)})
			x.exec(Op{Kind: "read"})
		}
		last := rapid.IntRange(0, 2).Draw(t, "lastVictim")
		x.exec(Op{Kind: "kill", Store: last})
		for i := 0; i < 2; i++ {
			x.exec(Op{Kind: "write", Points: g.batch(t)})
		}
		x.exec(Op{Kind: "read", Ms: 12000})
		if p := x.c.UnrecoveredPanic(); p != "" {
			x.fail("process panicked: %s", p)
		}
		sort.Strings(x.nt)
		c.Nontrivial(map[string]any{"faults": x.nt, "ops": c.Ops()})
		c.Sample(map[string]any{"ptnum": pt, "faults": x.nt, "rolling": order})
		return
	}
	rounds := rapid.IntRange(1, 2).Draw(t, "rounds")
	prevVictim := -1
	for r := 0; r < rounds; r++ {
		// a minority failure: kill (optionally while a write is in flight) or pause one store
		victim := rapid.IntRange(0, 2).Draw(t, "victim")
		if r > 0 && victim == prevVictim && rapid.Bool().Draw(t, "other") {
			victim = (victim + 1) % 3 // a different minority after the rejoin
		}
		if r > 0 && rapid.IntRange(0, 3).Draw(t, "expose") > 0 {
			// the minority failure that makes the store that rejoined last the answering replica: with a store down reads go to
			// the first online partition of each replica group (lib/metaclient getAliveShardsForRepDB)
			victim = exposer(t, prevVictim)
			c.Class("second-failure-exposes-rejoined-store")
		}
		kind := rapid.SampledFrom([]string{"kill", "kill", "killDuring", "pause"}).Draw(t, "fault")
		switch kind {
		case "kill":
			x.exec(Op{Kind: "kill", Store: victim})
		case "killDuring":
			x.exec(Op{Kind: "write", Points: g.batch(t), During: true, Store: victim})
		case "pause":
			x.exec(Op{Kind: "pause", Store: victim})
		}
		if rapid.Bool().Draw(t, "readAtOnce") {
			x.exec(Op{Kind: "read"}) // immediately after the fault (failover in progress)
		}
		nDown := rapid.IntRange(1, 3).Draw(t, "wDown")
		if rapid.Bool().Draw(t, "burstDown") {
			// a longer run of requests of varying size while the store is away: it has to catch up on many entries from the
			// leader's log (and the leader has recycled its request buffers several times meanwhile)
			nDown = rapid.IntRange(12, 24).Draw(t, "wBurst")
			c.Class("burst-of-writes-while-a-store-is-down")
		}
		for i := 0; i < nDown; i++ {
			x.exec(Op{Kind: "write", Points: g.batch(t)})
		}
		if rapid.Bool().Draw(t, "flushDown") {
			x.exec(Op{Kind: "flush"})
		}
		x.exec(Op{Kind: "read", Ms: 10000})
		// rejoin and catch up
		if kind == "pause" {
			x.exec(Op{Kind: "resume", Store: victim})
		} else {
			x.exec(Op{Kind: "restart", Store: victim})
		}
		x.exec(Op{Kind: "wait", Ms: rapid.SampledFrom([]int{2000, 6000, 12000}).Draw(t, "catchup")})
		x.exec(Op{Kind: "write", Points: g.batch(t)})
		x.exec(Op{Kind: "read"})
		if prevVictim >= 0 && prevVictim != victim {
			c.Class("second-minority-failure-after-rejoin")
		}
		prevVictim = victim
	}
	if rounds == 1 || rapid.Bool().Draw(t, "finalExpose") {
		// a last minority failure chosen so that the store that rejoined last answers, read for a while, no rejoin
		v := exposer(t, prevVictim)
		x.exec(Op{Kind: "kill", Store: v})
		x.exec(Op{Kind: "read", Ms: 12000})
		c.Class("final-failure-exposes-rejoined-store")
	}
	if p := x.c.UnrecoveredPanic(); p != "" {
		x.fail("process panicked: %s", p)
	}
	sort.Strings(x.nt)
	c.Nontrivial(map[string]any{"faults": x.nt, "ops": c.Ops()})
	var delays []string
	for _, d := range x.acceptDelays {
		delays = append(delays, d.Round(100*time.Millisecond).String())
	}
	c.Sample(map[string]any{"ptnum": pt, "faults": x.nt, "write_accept_delays_over_1s": delays})
}

func TestFaultSequences(t *testing.T) { rapid.Check(t, ev.Prop(prop, "fault_sequences", runCase)) }

type violation struct{ msg string }

func TestReplay(t *testing.T) {
	ev.RunReplays(func(raw json.RawMessage, f ev.Failure) (err error) {
		var hc struct {
			PT string `json:"ptnum"`
		}
		_ = json.Unmarshal(raw, &hc)
		if hc.PT == "" {
			hc.PT = "1"
		}
		b, _ := json.Marshal(f.Ops)
		var ops []Op
		if e := json.Unmarshal(b, &ops); e != nil {
			return ev.InconclusiveError(e.Error())
		}
		c := ev.Begin("replay")
		var x *cl
		defer func() {
			if x != nil {
				x.c.Destroy()
			}
			if r := recover(); r != nil {
				if v, ok := r.(violation); ok {
					err = fmt.Errorf("%s", v.msg)
					return
				}
				panic(r)
			}
		}()
		x = newCl(c, hc.PT, func(format string, a ...any) { panic(violation{fmt.Sprintf(format, a...)}) })
		for _, op := range ops {
			x.exec(op)
		}
		return nil
	})
}
