package c05

import (
	"fmt"
	"os"
	"testing"
	"time"

	"verif/internal/bb"
)

// TestProbe (manual aid, VERIF_C05_PROBE=1): brings a cluster up, writes, kills a store, measures the times.
func TestProbe(t *testing.T) {
	if os.Getenv("VERIF_C05_PROBE") == "" {
		t.Skip()
	}
	c := bb.NewCluster(5, map[string]string{})
	defer c.Destroy()
	t0 := time.Now()
	c.Start()
	fmt.Println("cluster up after", time.Since(t0))
	r, err := c.SQL.Query("", "create database db0 replicas 3", nil)
	fmt.Println("create db:", err, r.Raw)
	for i := 0; i < 5; i++ {
		st, body := c.SQL.Write("db0", "", "ns", fmt.Sprintf("m0,host=a i=%di %d", i, 1700000000000000000+int64(i)*1e9))
		fmt.Println("write", i, st, body, time.Since(t0))
		if st != 204 {
			time.Sleep(time.Second)
			i--
		}
	}
	time.Sleep(2 * time.Second)
	r, _ = c.SQL.Query("db0", "select * from m0 group by *", nil)
	fmt.Println("read:", r.Raw)
	r, _ = c.SQL.Query("db0", "show cluster", nil)
	fmt.Println("show cluster:", r.Raw)
	for victim := 0; victim < 3; victim++ {
		fmt.Println("=== kill store", victim+1)
		tk := time.Now()
		c.KillStore(victim)
		for i := 0; i < 60; i++ {
			st, body := c.SQL.Write("db0", "", "ns", fmt.Sprintf("m0,host=a i=%di %d", 100+victim, 1700000000000000000+int64(10+victim)*1e9))
			if st == 204 {
				fmt.Println("write accepted after", time.Since(tk))
				break
			}
			if i%5 == 0 {
				fmt.Println("  write refused:", st, body)
			}
			time.Sleep(time.Second)
		}
		r, err = c.SQL.Query("db0", "select * from m0 group by *", nil)
		if err != nil {
			fmt.Println("read err", err)
		} else {
			fmt.Println("read with store down:", r.Raw)
		}
		c.StartStore(victim)
		tr := time.Now()
		time.Sleep(10 * time.Second)
		r, _ = c.SQL.Query("db0", "show cluster", nil)
		fmt.Println("after restart", time.Since(tr), r.Raw)
	}
}
