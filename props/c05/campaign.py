from campaigns_util import B

SPEC = {
    "pkg": "props/c05", "level": "fault_enumeration", "bins": ["ts-meta", "ts-store", "ts-sql"],
    "rule": ("a real cluster (3 ts-meta, 3 ts-store, 1 ts-sql on three loopback addresses, ha-policy=replication, database with 3 replicas, ptnum-pernode 1 or 2) "
             "runs generated fault sequences: 1-3 rounds of {kill -9 one store (also while a write request is in flight) or SIGSTOP it, reads immediately and after "
             "failover, writes with overwrites while it is down (refusals retried, must be accepted within 60 s), optional flush, rejoin / SIGCONT, generated catch-up "
             "wait, write, read}, the next round preferring a different victim. Oracle: last-write-wins model of acknowledged writes (a refused or failed request may have "
             "been applied: old or new); every read must become admissible within 90 s (requests time out after 20 s and are repeated) and, while a store is down, stay admissible over 10 s of further reads (the answering replica changes when the failure is detected). Non-trivial: every case (each contains a minority failure with a read while it is "
             "down); distinct by (fault list, op list)"),
    "assumptions": ["only store nodes fail (meta and sql nodes stay up); a minority = one of three stores",
                    "bounded liveness: writes accepted again within 60 s, reads admissible within 90 s; timing-dependent, failing schedules replay only approximately"],
    "campaigns": [
        {"name": "fault_sequences", "run": "^TestFaultSequences$", "quick": B(1, 4, 900, shrinktime="1s"), "thorough": B(5, 4, 3400, shrinktime="1s")},
    ],
    "max_parallel": 3,
}

META = {
    "engine": "bb-server",
    "technique": "generated fault sequences (rapid) against a real 3-replica cluster with a last-write-wins model oracle",
    "text": ("Generated sequences of store kills / pauses / rejoins interleaved with writes and reads on a real replicated cluster; the weakest check of the set: a few fault "
             "sequences per run, timing-dependent, bounded-liveness only."),
    "note": "Trusts the harness model and HTTP 204 as the acknowledgement; only store-node faults are injected.",
}
