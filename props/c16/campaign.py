from campaigns_util import B

SPEC = {
    "pkg": "props/c16", "level": "exploration",
    "rule": ("C15's state-aware command generator (props/metagen) biased to create/alter/drop of databases, policies, measurements, shard groups (timestamps on and around "
             "duration boundaries, far past/future, the extremes), prune, node join/leave, partition changes, shard-key and duration changes; after EVERY step the invariant suite "
             "runs on meta.Data: per policy and engine type the live shard groups are sorted, pairwise disjoint and aligned to the duration in force when created; measurement, "
             "shard-group, shard, index-group and index ids unique, below their counters and above every id ever seen (high-water marks kept across deletions); every shard of a "
             "live group refers to an index of the policy and to partitions of the database's view; the default policy exists; a refused command leaves the canonical dump unchanged. "
             "Non-trivial: a successful duration change or delete precedes a later successful shard-group creation in the same policy; distinct = hash of (config, ops). "
             "The 'exhaustive' sub-run enumerates ALL sequences up to the stated length over a fixed 12-command alphabet (non-trivial: length >= 2)"),
    "assumptions": [
        "only command shapes real senders produce; index groups are deleted/pruned only when no live shard group refers to them and CancelDelete revives a group only when no live group covers its span (models of the retention service and of 'recall data')",
        "ReShardingCommand and ReplaceMergeShardsCommand are outside the mix: they create overlapping / merged spans by design",
        "one known-finding class is open (overlapping groups after a shard-duration change, replays/C16/overlap_after_shard_duration_change.json): the main campaigns do not alter the shard duration of a policy that holds shard groups (counted), and in the enumeration the invariant 'disjoint' is tolerated (and counted) for sequences that change the shard duration; the other replays are regression cases of repaired defects",
    ],
    "exhaustive_note": "campaign 'exhaustive': every sequence of length <= 4 (quick) / <= 5 (thorough) over the 12-command alphabet of props/c16/exhaustive_test.go from one fixed start state",
    "campaigns": [
        {"name": "catalogue", "run": "^TestCatalogue$", "quick": B(4000, 5), "thorough": B(30000, 7, 3000)},
        {"name": "catalogue_broad", "run": "^TestCatalogueBroad$", "quick": B(2400, 3), "thorough": B(30000, 4, 3000)},
        {"name": "exhaustive", "run": "^TestExhaustive$", "quick": B(1, 4, env={"C16_EXHAUSTIVE_LEN": 4}), "thorough": B(1, 5, 3000, env={"C16_EXHAUSTIVE_LEN": 5})},
    ],
}

META = {
    "engine": "lib-rapid",
    "technique": "stateful property-based testing with an invariant suite after every step, plus bounded-exhaustive (small-scope) enumeration of command sequences",
    "text": ("Generated administrative command histories are applied to the meta FSM; after every step the catalogue must be well-formed (disjoint aligned sorted live shard groups, "
             "unique never-reused ids, valid shard->index/partition references, existing default policy, refused commands change nothing). All sequences up to length 4/5 over a "
             "12-command alphabet are enumerated exhaustively. Exploration: finds counterexamples, never proves absence beyond the enumerated scope."),
    "note": "Trusts the harness' invariant checker and its model of which command shapes real senders produce; the exhaustive part is exhaustive only for its alphabet, bound and start state.",
}
