package c16

import (
	"fmt"
	"sort"
	"testing"

	"pgregory.net/rapid"
	"verif/internal/ev"
	mg "verif/props/metagen"
)

const prop = "C16"

func TestMain(m *testing.M) { ev.Main(m) }

// Case is the replayable form of one history.
type Case struct {
	Kind string    `json:"kind"`
	Cfg  mg.Config `json:"cfg"`
	Ops  []mg.Op   `json:"ops"`
	// Tolerate lists invariants whose violation is a known-finding class for this history (used by the exhaustive enumeration,
	// whose alphabet contains the triggers on purpose); empty for replays of findings.
	Tolerate []string `json:"tolerate,omitempty"`
	Desc     []string `json:"desc,omitempty"`
}

func (c *Case) describe() {
	c.Desc = nil
	for i, o := range c.Ops {
		c.Desc = append(c.Desc, fmt.Sprintf("%d: %s", i, o.String()))
	}
}

type outcome struct {
	violation string
	inv       string
	results   []string
	tolerated map[string]int
	errors    int             // commands that were refused (and left the catalogue unchanged)
	fields    map[string]bool // "Type.Field" names that were non-zero in the final catalogue
}

// checkHistory applies the ops to one FSM instance and runs the invariant suite after every step.
func checkHistory(cs *Case) (out outcome) {
	out.tolerated = map[string]int{}
	tol := map[string]bool{}
	for _, t := range cs.Tolerate {
		tol[t] = true
	}
	f := mg.NewFSM(cs.Cfg)
	tr := NewTracker()
	prev := dumpNoPos(f.Data())
	defer func() { out.fields = mg.FieldsSet(f.Data()) }()
	for i, o := range cs.Ops {
		res, p := mg.SafeApply(f, i, o)
		if p != "" {
			out.violation, out.inv = fmt.Sprintf("op %d (%s) panicked: %s", i, o, p), "panic"
			return
		}
		out.results = append(out.results, res)
		cur := dumpNoPos(f.Data())
		if res != "<nil>" {
			out.errors++
			if d := mg.Diff(prev, cur, 4); d != "" {
				if tol["failed-command-no-change"] {
					out.tolerated["failed-command-no-change"]++
				} else {
					out.violation, out.inv = fmt.Sprintf("op %d (%s) was refused (%s) but changed the catalogue: %s", i, o, res, d), "failed-command-no-change"
					return
				}
			}
		}
		prev = cur
		for _, v := range tr.Check(f.Data()) {
			if tol[v.Inv] {
				out.tolerated[v.Inv]++
				continue
			}
			out.violation, out.inv = fmt.Sprintf("after op %d (%s) [%s]: %s", i, o, v.Inv, v.Msg), v.Inv
			return
		}
	}
	return
}

// known applies the models of the real senders and the generator-side exclusion of the one still-open known-finding class
// (overlapping groups after a shard-duration change, shown by replays/C16/overlap_after_shard_duration_change.json). All other
// classes found so far are repaired in /repo and are generated freely.
func known(p mg.Profile) mg.Profile {
	p.IndexDeleteOnlyWhenUnreferenced = true // model of the retention service, not a finding
	p.NoCancelDeleteNextToReplacement = true // model of "recall data": expired spans are not written to, not a finding
	p.NoSGDurChangeWithLiveGroups = true     // open: C16-overlap-after-shard-duration-change
	return p
}

func bucket(n int) string {
	switch {
	case n < 5:
		return "<5"
	case n < 15:
		return "5-14"
	case n < 30:
		return "15-29"
	default:
		return ">=30"
	}
}

var totals = map[string]map[string][2]int{}

func addTotals(campaign string, g *mg.Gen) {
	m := totals[campaign]
	if m == nil {
		m = map[string][2]int{}
		totals[campaign] = m
	}
	for k, v := range g.Generated {
		ct := mg.Op{K: k}.TypeName()
		x := m[ct]
		x[0] += v
		x[1] += g.Succeeded[k]
		m[ct] = x
	}
	keys := make([]string, 0, len(m))
	for k := range m {
		keys = append(keys, k)
	}
	sort.Strings(keys)
	note := map[string]string{}
	for _, k := range keys {
		note[k] = fmt.Sprintf("generated %d, succeeded %d", m[k][0], m[k][1])
	}
	ev.Note(campaign, "ops_per_command_type_in_one_process", note)
}

var fieldTotals = map[string]*mg.FieldTotals{}

func addFieldTotals(campaign string, set map[string]bool) {
	ft := fieldTotals[campaign]
	if ft == nil {
		ft = &mg.FieldTotals{}
		fieldTotals[campaign] = ft
	}
	ft.Add(set)
	pop, never := ft.Summary()
	ev.Note(campaign, "fields_populated_in_final_catalogue_in_one_process", map[string]any{"histories": ft.Cases, "non_zero_in_n_histories": pop, "never_populated": never})
}

func runCatalogue(t *rapid.T, c *ev.Case, campaign string, prof mg.Profile, maxLen int) {
	cfg := mg.Config{PtNumPerNode: uint32(mg.Uniform(t, 1, 3, "ptPerNode")), SchemaCleanEn: rapid.Bool().Draw(t, "schemaClean"), ExpandShards: mg.Uniform(t, 0, 3, "expand") == 0}
	n := mg.Uniform(t, 2, maxLen, "len")
	g := mg.NewGen(cfg, prof)
	for steps := 0; len(g.Ops) < n && steps < 3*n && g.Panic == ""; steps++ {
		g.Step(t)
	}
	if len(g.Ops) == 0 {
		return
	}
	cs := &Case{Kind: "history", Cfg: cfg, Ops: g.Ops}
	if g.Panic != "" {
		cs.describe()
		c.Failf(t, prop, cs, "op %d (%s) panicked: %s", len(g.Ops)-1, g.Ops[len(g.Ops)-1], g.Panic)
	}
	out := checkHistory(cs)
	if out.violation != "" {
		cs.describe()
		c.Failf(t, prop, cs, "%s", out.violation)
	}
	// ---- evidence
	c.Class("len " + bucket(len(g.Ops)))
	// non-trivial: an alter-duration or a delete precedes a later shard-group creation that succeeded in the same policy
	nt := false
	touched := map[string]bool{}
	groups, prunes, alters := 0, 0, 0
	for i, o := range g.Ops {
		ok := out.results[i] == "<nil>"
		key := o.DB + "/" + o.RP
		switch o.K {
		case "updaterp":
			if ok && (o.SGDur != nil || o.Dur != nil || o.IGDur != nil) {
				touched[key] = true
				alters++
			}
		case "deletesg", "deleteig", "markmstdel", "dropmst":
			if ok {
				touched[key] = true
			}
		case "prune":
			if ok {
				prunes++
				for k := range touched {
					touched[k] = true
				}
			}
		case "createsg":
			if ok {
				groups++
				if touched[key] {
					nt = true
				}
			}
		}
	}
	if groups >= 3 {
		c.Class("history creates >= 3 shard groups")
	}
	if prunes > 0 {
		c.Class("history prunes")
	}
	if alters > 0 {
		c.Class("history alters a duration")
	}
	if out.errors > 0 {
		c.Class("history has a refused command")
	}
	types := map[string]bool{}
	for k := range g.Generated {
		ct := mg.Op{K: k}.TypeName()
		types["gen "+ct] = true
		if g.Succeeded[k] > 0 {
			types["ok "+ct] = true
		}
	}
	for k := range types {
		c.Class(k)
	}
	for k, v := range g.Excluded {
		for i := 0; i < v; i++ {
			c.Excluded(k)
		}
	}
	addTotals(campaign, g)
	// fields populated (generator strength: a field no history sets is not exercised by any invariant)
	for k := range out.fields {
		c.Class("field non-zero in final catalogue: " + k)
	}
	addFieldTotals(campaign, out.fields)
	if nt {
		c.Nontrivial(cs)
		var head []string
		for i, o := range cs.Ops {
			if i >= 8 {
				break
			}
			head = append(head, o.String())
		}
		c.Sample(map[string]any{"cfg": cfg, "ops": len(g.Ops), "shard_groups_created": groups, "refused": out.errors, "first_ops": head})
	}
}

// TestCatalogue: invariants after every step of a create/alter/drop-heavy history.
func TestCatalogue(t *testing.T) {
	rapid.Check(t, ev.Prop(prop, "catalogue", func(t *rapid.T, c *ev.Case) {
		runCatalogue(t, c, "catalogue", known(mg.Profile{Weights: mg.CatalogueWeights()}), 60)
	}))
}

// TestCatalogueBroad: the same invariants under the broad C15 mix (users, streams, events ... in between).
func TestCatalogueBroad(t *testing.T) {
	rapid.Check(t, ev.Prop(prop, "catalogue_broad", func(t *rapid.T, c *ev.Case) {
		w := mg.BroadWeights()
		delete(w, "resharding")  // splits the newest group of a range-sharded policy: overlapping spans by design
		delete(w, "mergeshards") // merges groups: spans no longer aligned by design
		p := known(mg.Profile{Weights: w})
		runCatalogue(t, c, "catalogue_broad", p, 60)
	}))
}
