package c16

import (
	"fmt"
	"os"
	"strconv"
	"testing"
	"time"

	"verif/internal/ev"
	mg "verif/props/metagen"
)

func i64(v int64) *int64 { return &v }

const hour = int64(time.Hour)

// the fixed start of every enumerated history: one store node, database d0 with default policy rp0 (shard duration 1h,
// infinite retention) and measurement m0
var exhaustivePrefix = []mg.Op{
	{K: "createdatanode", Name: "127.0.0.1:8400", S: "127.0.0.1:8401"},
	{K: "createdbpt", DB: "d0"},
	{K: "createdb_rp", DB: "d0", RP: "rp0", SGDur: i64(hour)},
	{K: "createmst_simple", DB: "d0", RP: "rp0", Mst: "m0"},
}

// the alphabet: 12 concrete commands around shard-group creation, duration changes, deletion, prune, measurement drop /
// re-creation and a node join
var exhaustiveAlphabet = []mg.Op{
	{K: "createsg", DB: "d0", RP: "rp0", N: 0, ID: 1},
	{K: "createsg", DB: "d0", RP: "rp0", N: hour, ID: 1},
	{K: "createsg", DB: "d0", RP: "rp0", N: 3*hour - 1, ID: 1},
	{K: "updaterp", DB: "d0", RP: "rp0", SGDur: i64(2 * hour)},
	{K: "updaterp", DB: "d0", RP: "rp0", SGDur: i64(hour)},
	{K: "deletesg", DB: "d0", RP: "rp0", ID: 1},
	{K: "deletesg", DB: "d0", RP: "rp0", ID: 2},
	{K: "prune", B: true, ID: 1},
	{K: "prune", B: true, ID: 2},
	{K: "markmstdel", DB: "d0", RP: "rp0", Mst: "m0"},
	{K: "createmst_simple", DB: "d0", RP: "rp0", Mst: "m0"},
	{K: "createdatanode", Name: "127.0.0.2:8400", S: "127.0.0.2:8401"},
}

// TestExhaustive enumerates EVERY sequence over the alphabet up to a length bound (quick: 3, thorough: 5) and runs the invariant
// suite after every step. Sequences that change the shard duration are judged with the known-finding invariant "disjoint"
// tolerated (counted), everything else strictly.
func TestExhaustive(t *testing.T) {
	maxLen := 3
	if ev.Tier() == "thorough" {
		maxLen = 5
	}
	if v, err := strconv.Atoi(os.Getenv("C16_EXHAUSTIVE_LEN")); err == nil && v > 0 {
		maxLen = v
	}
	shard, shards := 0, 1
	if v, err := strconv.Atoi(os.Getenv("VERIF_SHARDS")); err == nil && v > 0 {
		shards = v
		shard, _ = strconv.Atoi(os.Getenv("VERIF_SHARD"))
	}
	cfg := mg.Config{PtNumPerNode: 1, SchemaCleanEn: true}
	n := len(exhaustiveAlphabet)
	idx := make([]int, 0, maxLen)
	count := 0
	var rec func()
	rec = func() {
		if len(idx) > 0 {
			count++
			if count%shards == shard {
				runEnumerated(t, cfg, idx)
			}
		}
		if len(idx) == maxLen {
			return
		}
		for i := 0; i < n; i++ {
			idx = append(idx, i)
			rec()
			idx = idx[:len(idx)-1]
		}
	}
	rec()
	ev.Note("exhaustive", "bound", fmt.Sprintf("all %d sequences of length 1..%d over the %d-command alphabet (this process: shard %d of %d)", count, maxLen, n, shard, shards))
}

func runEnumerated(t *testing.T, cfg mg.Config, idx []int) {
	c := ev.Begin("exhaustive")
	cs := &Case{Kind: "history", Cfg: cfg}
	cs.Ops = append(cs.Ops, exhaustivePrefix...)
	alters := false
	for _, i := range idx {
		cs.Ops = append(cs.Ops, exhaustiveAlphabet[i])
		if exhaustiveAlphabet[i].K == "updaterp" {
			alters = true
		}
	}
	if alters {
		cs.Tolerate = []string{"disjoint"}
	}
	out := checkHistory(cs)
	if out.violation != "" {
		cs.describe()
		c.FailTB(t, prop, cs, "%s", out.violation)
	}
	c.Class(fmt.Sprintf("length %d", len(idx)))
	if alters {
		c.Class("changes the shard duration")
	}
	for k, v := range out.tolerated {
		for i := 0; i < v; i++ {
			c.Excluded("known: " + k + " after a shard-duration change")
		}
	}
	if len(idx) >= 2 {
		c.Nontrivial(idx)
		if len(idx) == 3 {
			c.Sample(map[string]any{"sequence": idx, "refused": out.errors})
		}
	}
	c.Done()
}
