package c16

import (
	"fmt"
	"sort"
	"time"

	"github.com/influxdata/influxdb/models"
	meta "github.com/openGemini/openGemini/lib/util/lifted/influx/meta"
	mg "verif/props/metagen"
)

// Violation is one broken invariant; Inv names the invariant (used to tell known-finding classes apart).
type Violation struct {
	Inv string
	Msg string
}

// Tracker carries what the harness has to remember across steps: every identifier ever handed out (ids must be new and above
// the high-water mark when they first appear, even after deletions) and the shard duration in force when a group appeared.
type Tracker struct {
	seen   map[string]map[uint64]string // id kind -> id -> where it was first seen (db/rp/..)
	prev   map[string]map[uint64]bool   // id kind -> ids present after the previous step
	high   map[string]int64             // id kind -> highest id ever seen (-1: none)
	sgDur  map[uint64]time.Duration     // shard group id -> policy shard duration when the group first appeared
	prevSG map[string]time.Duration     // "db/rp" -> shard duration after the previous step
}

func NewTracker() *Tracker {
	return &Tracker{seen: map[string]map[uint64]string{}, prev: map[string]map[uint64]bool{}, high: map[string]int64{"mst": -1, "sg": 0, "shard": 0, "ig": 0, "index": 0}, sgDur: map[uint64]time.Duration{}, prevSG: map[string]time.Duration{}}
}

func sortedKeys[V any](m map[string]V) []string {
	out := make([]string, 0, len(m))
	for k := range m {
		out = append(out, k)
	}
	sort.Strings(out)
	return out
}

var maxEnd = time.Unix(0, models.MaxNanoTime+1).UTC()
var minStart = time.Unix(0, models.MinNanoTime).UTC()

// Check runs the invariant suite of property C16 on the catalogue after one step.
func (tr *Tracker) Check(d *meta.Data) []Violation {
	var out []Violation
	add := func(inv, f string, a ...any) { out = append(out, Violation{inv, fmt.Sprintf(f, a...)}) }

	// ids met in this state: kind -> id -> location (uniqueness within the state)
	now := map[string]map[uint64]string{"mst": {}, "sg": {}, "shard": {}, "ig": {}, "index": {}}
	order := map[string][]uint64{}
	note := func(kind string, id uint64, where string) {
		if prev, dup := now[kind][id]; dup {
			add("unique-ids", "%s id %d appears twice: %s and %s", kind, id, prev, where)
			return
		}
		now[kind][id] = where
		order[kind] = append(order[kind], id)
	}

	for _, dbn := range sortedKeys(d.Databases) {
		db := d.Databases[dbn]
		if db.Name != dbn {
			add("names", "database stored under %q is named %q", dbn, db.Name)
		}
		if db.DefaultRetentionPolicy != "" {
			if _, ok := db.RetentionPolicies[db.DefaultRetentionPolicy]; !ok {
				add("default-rp-exists", "database %s: default retention policy %q does not exist (policies: %v)", dbn, db.DefaultRetentionPolicy, sortedKeys(db.RetentionPolicies))
			}
		}
		pts := d.PtView[dbn]
		for _, rpn := range sortedKeys(db.RetentionPolicies) {
			rp := db.RetentionPolicies[rpn]
			loc := dbn + "/" + rpn
			if rp.Name != rpn {
				add("names", "policy stored under %s is named %q", loc, rp.Name)
			}
			for _, mn := range sortedKeys(rp.Measurements) {
				m := rp.Measurements[mn]
				if m.Name != mn {
					add("names", "measurement stored under %s/%s is named %q", loc, mn, m.Name)
				}
				note("mst", m.ID, loc+"/"+mn)
			}
			indexes := map[uint64]bool{}
			for i := range rp.IndexGroups {
				ig := &rp.IndexGroups[i]
				note("ig", ig.ID, loc)
				for _, ix := range ig.Indexes {
					note("index", ix.ID, fmt.Sprintf("%s/ig%d", loc, ig.ID))
					indexes[ix.ID] = true
				}
			}
			// the slice order the rest of the system relies on
			if !sort.IsSorted(meta.ShardGroupInfos(rp.ShardGroups)) {
				add("sorted", "%s: shard groups are not in sorted order: %s", loc, groupsStr(rp.ShardGroups))
			}
			if !sort.IsSorted(meta.IndexGroupInfos(rp.IndexGroups)) {
				add("sorted", "%s: index groups are not in sorted order", loc)
			}
			curDur := rp.ShardGroupDuration
			for i := range rp.ShardGroups {
				sg := &rp.ShardGroups[i]
				sloc := fmt.Sprintf("%s/sg%d", loc, sg.ID)
				note("sg", sg.ID, loc)
				if !tr.prev["sg"][sg.ID] {
					// a group that appears in this step was cut with the duration the policy had before the step (a step
					// either changes the duration or creates a group, never both)
					dur, ok := tr.prevSG[loc]
					if !ok {
						dur = curDur
					}
					tr.sgDur[sg.ID] = dur
				}
				for _, sh := range sg.Shards {
					note("shard", sh.ID, sloc)
					if sg.Deleted() {
						continue // a group marked deleted is on its way out; references are only required of live groups
					}
					if !indexes[sh.IndexID] {
						add("shard-index-exists", "%s shard %d refers to index %d which is in no index group of the policy", sloc, sh.ID, sh.IndexID)
					}
					if len(sh.Owners) == 0 {
						add("shard-owner-exists", "%s shard %d has no owner partition", sloc, sh.ID)
					}
					for _, pt := range sh.Owners {
						if int(pt) >= len(pts) || pts[pt].PtId != pt {
							add("shard-owner-exists", "%s shard %d is owned by partition %d which is not in the partition view of %s (%d partitions)", sloc, sh.ID, pt, dbn, len(pts))
						}
					}
				}
				if sg.Deleted() {
					continue
				}
				// duration-aligned span
				dur := tr.sgDur[sg.ID]
				if dur > 0 && sg.StartTime.Equal(minStart) {
					// the group for the lowest writable instants: its start is clamped to the smallest representable instant
					// (like the end of the last group is clamped to the largest), the end is still on the duration grid
					if !sg.EndTime.Equal(sg.EndTime.Truncate(dur)) || sg.EndTime.Sub(sg.StartTime) > dur {
						add("aligned", "%s: clamped first group spans [%s, %s), its end is not on the grid of the shard duration %s", sloc, sg.StartTime.UTC().Format(time.RFC3339Nano), sg.EndTime.UTC().Format(time.RFC3339Nano), dur)
					}
				} else if dur > 0 {
					if !sg.StartTime.Equal(sg.StartTime.Truncate(dur)) {
						add("aligned", "%s: start %s is not aligned to the shard duration %s in force when it was created", sloc, sg.StartTime.UTC().Format(time.RFC3339Nano), dur)
					}
					wantEnd := sg.StartTime.Add(dur)
					if wantEnd.After(maxEnd) {
						wantEnd = maxEnd
					}
					if !sg.EndTime.Equal(wantEnd) {
						add("aligned", "%s: spans [%s, %s), expected a span of %s", sloc, sg.StartTime.UTC().Format(time.RFC3339Nano), sg.EndTime.UTC().Format(time.RFC3339Nano), dur)
					}
				}
				if !sg.StartTime.Before(sg.EndTime) {
					add("aligned", "%s: empty or inverted span [%s, %s)", sloc, sg.StartTime.UTC().Format(time.RFC3339Nano), sg.EndTime.UTC().Format(time.RFC3339Nano))
				}
				// pairwise disjoint within the policy and engine type
				for j := 0; j < i; j++ {
					o := &rp.ShardGroups[j]
					if o.Deleted() || o.EngineType != sg.EngineType {
						continue
					}
					if o.StartTime.Before(sg.EndTime) && sg.StartTime.Before(o.EndTime) {
						add("disjoint", "%s: live shard groups %d [%s, %s) and %d [%s, %s) of engine type %d overlap", loc, o.ID, o.StartTime.UTC().Format(time.RFC3339Nano), o.EndTime.UTC().Format(time.RFC3339Nano),
							sg.ID, sg.StartTime.UTC().Format(time.RFC3339Nano), sg.EndTime.UTC().Format(time.RFC3339Nano), sg.EngineType)
					}
				}
			}
			tr.prevSG[loc] = curDur
		}
	}
	// forget the remembered durations of policies that are gone (a re-created policy starts afresh)
	for loc := range tr.prevSG {
		found := false
		for _, dbn := range sortedKeys(d.Databases) {
			for rpn := range d.Databases[dbn].RetentionPolicies {
				if dbn+"/"+rpn == loc {
					found = true
				}
			}
		}
		if !found {
			delete(tr.prevSG, loc)
		}
	}

	// never handed out twice: an id that was not there before must be above everything ever seen; an id that was there must
	// still denote the same object kind in the same place
	counters := map[string]uint64{"mst": d.MaxMstID, "sg": d.MaxShardGroupID, "shard": d.MaxShardID, "ig": d.MaxIndexGroupID, "index": d.MaxIndexID}
	for _, kind := range []string{"mst", "sg", "shard", "ig", "index"} {
		if tr.seen[kind] == nil {
			tr.seen[kind] = map[uint64]string{}
		}
		ids := order[kind]
		sort.Slice(ids, func(i, j int) bool { return ids[i] < ids[j] })
		newHigh := tr.high[kind]
		present := map[uint64]bool{}
		for _, id := range ids {
			present[id] = true
			if !tr.prev[kind][id] {
				// handed out in this step
				if int64(id) <= tr.high[kind] {
					was := ""
					if w, ok := tr.seen[kind][id]; ok {
						was = " (it denoted " + w + " before)"
					}
					add("ids-never-reused", "%s id %d (%s) was handed out although ids up to %d had been handed out before%s", kind, id, now[kind][id], tr.high[kind], was)
				}
				tr.seen[kind][id] = now[kind][id]
			}
			if int64(id) > newHigh {
				newHigh = int64(id)
			}
			limit := counters[kind]
			if kind == "mst" {
				// MaxMstID is the NEXT id
				if id >= limit {
					add("ids-never-reused", "measurement id %d (%s) is not below the counter MaxMstID=%d", id, now[kind][id], limit)
				}
			} else if id > limit {
				add("ids-never-reused", "%s id %d (%s) is above its counter %d", kind, id, now[kind][id], limit)
			}
		}
		tr.high[kind] = newHigh
		tr.prev[kind] = present
	}
	return out
}

func groupsStr(gs []meta.ShardGroupInfo) string {
	s := ""
	for i := range gs {
		g := &gs[i]
		del := ""
		if g.Deleted() {
			del = " deleted"
		}
		s += fmt.Sprintf("{%d [%s, %s)%s} ", g.ID, g.StartTime.UTC().Format(time.RFC3339Nano), g.EndTime.UTC().Format(time.RFC3339Nano), del)
	}
	return s
}

// dumpNoPos renders the catalogue without the applied-log position (which advances for a refused command too).
func dumpNoPos(d *meta.Data) any {
	v := mg.Dump(d, mg.DumpOpts{})
	if m, ok := v.(map[string]any); ok {
		delete(m, "Term")
		delete(m, "Index")
	}
	return v
}
