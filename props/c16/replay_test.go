package c16

import (
	"encoding/json"
	"errors"
	"testing"

	"verif/internal/ev"
)

func TestReplay(t *testing.T) {
	ev.RunReplays(func(raw json.RawMessage, f ev.Failure) error {
		var cs Case
		if err := json.Unmarshal(raw, &cs); err != nil {
			return ev.InconclusiveError(err.Error())
		}
		if cs.Kind != "history" || len(cs.Ops) == 0 {
			return ev.InconclusiveError("not a history case")
		}
		// map iteration order may matter: a few rounds
		for i := 0; i < 10; i++ {
			if out := checkHistory(&cs); out.violation != "" {
				return errors.New(out.violation)
			}
		}
		return nil
	})
}
