from campaigns_util import B

SPEC = {
    "pkg": "props/c13", "level": "exploration", "bins": ["ts-server"],
    "rule": ("rapid state machine over one real ts-server (max-rows-per-segment 8 or default, write-cold-duration 5s or 1h; namespaces db0 / db0+second retention policy / "
             "db0+second database): writes of partial rows to 6 series x 2 measurements sharing tag values over two shard groups (late data, appends), forced flush, "
             "harness-triggered merge/compaction passes (hook H4), clean restart, kill -9, then generated drops - DROP SERIES FROM m [WHERE tag predicate: =, !=, =~, !~, AND/OR over "
             "host and dc, absent tag] selecting none/some/all, DROP MEASUREMENT, DROP RETENTION POLICY, DROP DATABASE (re-created under the same name) - followed by more writes "
             "(also to the dropped series / re-created measurements), flushes, compactions, restarts, further drops. Oracle: last-write-wins model with the drops applied; after "
             "every action generated reads, after every drop a battery of every read shape on the affected measurement, after every restart and at the end the battery on every "
             "measurement: SELECT * plain / tag filter per operator / field filter / GROUP BY tag / GROUP BY *, count,sum,min,max,first,last with and without /*+ Exact_Statistic_Query */ "
             "x tag filter x GROUP BY tag x GROUP BY time(), SHOW SERIES [FROM] [WHERE], SHOW TAG KEYS, SHOW TAG VALUES [WHERE], SHOW MEASUREMENTS - each compared with the model "
             "(so the shapes agree with each other). Except right after an effective DROP SERIES (no grace), a wrong read is re-run for up to 30 s; only a read that stays wrong is a violation, one that becomes "
             "right is counted as late-<last op> with its delay (notes.late_max_ms). Non-trivial: a DROP SERIES selected a strict non-empty subset of the measurement's series, rows of a dropped series "
             "were in a flushed file, and a read shape other than the direct tag filter was evaluated afterwards; distinct by (drop statements + where the rows lived, op list)"),
    "assumptions": ["HTTP 204 / an error-free statement result is the acknowledgement; a new (series, shard group) is awaited with an unfiltered query before it is read or dropped "
                    "(index visibility lag), again after every restart",
                    "SHOW TAG KEYS / SHOW MEASUREMENTS are served from the catalogue schema: after DROP SERIES they may still list keys / measurements whose series are all gone "
                    "(accepted: must list the live ones, may list those ever written into the current incarnation)",
                    "DROP MEASUREMENT acts on every retention policy of the database, DROP SERIES FROM <unqualified> on the default policy only (measurement names are disjoint "
                    "between policies in the generator)",
                    "after an effective DROP SERIES a wrong read fails at once (no grace period; the stale tag-filter cache defect is repaired); after DROP MEASUREMENT / RETENTION POLICY / "
                    "DATABASE (two-phase: marked in the catalogue, removed by a 500 ms loop) and after restarts / writes a read that is right within 30 s is tolerated and counted (late-*)",
                    "no (series,time) is written twice (overwrites are the subject of C02/C09; the aggregate push-down counts a row overwritten across memtable and files twice)",
                    "reads never filter or group on a key that is not a tag of the measurement's current incarnation (the server then compares with a missing field)",
                    "known-finding classes are left out of the generated histories by construction (excluded_by_construction; one replay each under replays/C13)"],
    "campaigns": [
        {"name": "drop_histories", "run": "^TestDropHistories$", "quick": B(1, 8, 900, steps=10, shrinktime="20s"),
         "thorough": B(10, 8, 3400, steps=20, shrinktime="240s")},
    ],
    "max_parallel": 9,
    "replay_timeout": 1200,
}

META = {
    "engine": "bb-server",
    "technique": "model-based stateful PBT (rapid) against the real server: drop histories x read shapes, last-write-wins model with drops as reference",
    "text": ("Generated histories place the rows of the series to be dropped in memtable / flushed / out-of-order / compacted files and across restarts, apply a generated "
             "DROP SERIES / MEASUREMENT / RETENTION POLICY / DATABASE, keep writing (also to what was dropped), flushing, compacting and restarting, and compare every read shape "
             "(plain, filtered, grouped, aggregated with and without the exact-statistics hint, series / tag-key / tag-value / measurement listings) with the model. "
             "Exploration: samples histories, no exhaustiveness."),
    "note": ("Trusts the harness model, its result comparison and its bookkeeping of the excluded known-finding classes (listed under excluded_by_construction, each with a replay "
             "under replays/C13). Crash points are quiescent moments only (kill -9 between operations), not inside a flush or a drop."),
}
