package c13

import (
	"fmt"
	"sort"
	"strings"

	"verif/internal/hist"
	"verif/internal/model"
)

// ---------------------------------------------------------------- tag predicates

// Pred is a tag predicate (drop statements and read filters). An absent tag is the empty string.
type Pred struct {
	Op  string `json:"op"` // eq ne re nre and or
	Key string `json:"key,omitempty"`
	Val string `json:"val,omitempty"`
	L   *Pred  `json:"l,omitempty"`
	R   *Pred  `json:"r,omitempty"`
}

func (p *Pred) Match(tags map[string]string) bool {
	if p == nil {
		return true
	}
	switch p.Op {
	case "eq":
		return tags[p.Key] == p.Val
	case "ne":
		return tags[p.Key] != p.Val
	case "re": // single-letter pattern over single-letter values: contains
		return strings.Contains(tags[p.Key], p.Val)
	case "nre":
		return !strings.Contains(tags[p.Key], p.Val)
	case "and":
		return p.L.Match(tags) && p.R.Match(tags)
	case "or":
		return p.L.Match(tags) || p.R.Match(tags)
	}
	panic("bad pred op " + p.Op)
}

func (p *Pred) SQL() string {
	switch p.Op {
	case "eq":
		return fmt.Sprintf(`"%s" = '%s'`, p.Key, p.Val)
	case "ne":
		return fmt.Sprintf(`"%s" != '%s'`, p.Key, p.Val)
	case "re":
		return fmt.Sprintf(`"%s" =~ /%s/`, p.Key, p.Val)
	case "nre":
		return fmt.Sprintf(`"%s" !~ /%s/`, p.Key, p.Val)
	case "and":
		return "(" + p.L.SQL() + " AND " + p.R.SQL() + ")"
	case "or":
		return "(" + p.L.SQL() + " OR " + p.R.SQL() + ")"
	}
	panic("bad pred op " + p.Op)
}

// FieldCond is a comparison of a numeric field with a literal.
type FieldCond struct {
	Field string  `json:"field"` // i | f
	Op    string  `json:"op"`    // >= > < <=
	Val   float64 `json:"val"`   // integral for i, x.5 for f
}

func (fc *FieldCond) SQL() string {
	if fc.Field == "i" {
		return fmt.Sprintf(`"i" %s %d`, fc.Op, int64(fc.Val))
	}
	return fmt.Sprintf(`"f" %s %.1f`, fc.Op, fc.Val)
}

func (fc *FieldCond) Match(row map[string]model.Value) bool {
	if fc == nil {
		return true
	}
	v, ok := row[fc.Field]
	if !ok {
		return false
	}
	x := v.Num()
	switch fc.Op {
	case ">=":
		return x >= fc.Val
	case ">":
		return x > fc.Val
	case "<":
		return x < fc.Val
	case "<=":
		return x <= fc.Val
	}
	panic("bad field op")
}

// ---------------------------------------------------------------- the reference world

// nsState is one (database, retention policy) pair; RP "" = the default policy (autogen).
type nsState struct {
	Name string
	DB   string
	RP   string
	St   *model.Store
	Ever map[string]map[string]bool // measurement -> tag keys written into its current incarnation
}

type world struct {
	ns    map[string]*nsState
	order []string
}

func newWorld() *world { return &world{ns: map[string]*nsState{}} }

func (w *world) add(name, db, rp string) {
	w.ns[name] = &nsState{Name: name, DB: db, RP: rp, St: model.NewStore(), Ever: map[string]map[string]bool{}}
	w.order = append(w.order, name)
}

func (n *nsState) src(mst string) string {
	if n.RP == "" {
		return `"` + mst + `"`
	}
	return fmt.Sprintf(`"%s"."%s"."%s"`, n.DB, n.RP, mst)
}

func (n *nsState) reset() {
	n.St = model.NewStore()
	n.Ever = map[string]map[string]bool{}
}

func (n *nsState) apply(ps []model.Point) {
	n.St.Apply(ps, true)
	for _, p := range ps {
		if n.Ever[p.Mst] == nil {
			n.Ever[p.Mst] = map[string]bool{}
		}
		for k, v := range p.Tags {
			if v != "" {
				n.Ever[p.Mst][k] = true
			}
		}
	}
}

// matching returns the series of a measurement selected by the predicate, sorted by key.
func (n *nsState) matching(mst string, p *Pred) []*model.SeriesData {
	var keys []string
	for k, sd := range n.St.Series {
		if sd.Mst == mst && p.Match(sd.Tags) {
			keys = append(keys, k)
		}
	}
	sort.Strings(keys)
	out := make([]*model.SeriesData, len(keys))
	for i, k := range keys {
		out[i] = n.St.Series[k]
	}
	return out
}

func (n *nsState) measurements() []string {
	set := map[string]bool{}
	for _, sd := range n.St.Series {
		set[sd.Mst] = true
	}
	var out []string
	for m := range set {
		out = append(out, m)
	}
	sort.Strings(out)
	return out
}

// dropSeries removes the selected series; returns their keys and the number of series the measurement had.
func (n *nsState) dropSeries(mst string, p *Pred) (dropped []string, total int) {
	total = len(n.matching(mst, nil))
	for _, sd := range n.matching(mst, p) {
		k := model.SeriesKeyOf(sd.Mst, sd.Tags)
		dropped = append(dropped, k)
		delete(n.St.Series, k)
	}
	return
}

func (n *nsState) dropMeasurement(mst string) (dropped []string) {
	for _, sd := range n.matching(mst, nil) {
		dropped = append(dropped, model.SeriesKeyOf(sd.Mst, sd.Tags))
	}
	n.St.DropMeasurement(mst, true)
	delete(n.Ever, mst)
	return
}

func (w *world) ofDB(db string) []*nsState {
	var out []*nsState
	for _, name := range w.order {
		if w.ns[name].DB == db {
			out = append(out, w.ns[name])
		}
	}
	return out
}

// ---------------------------------------------------------------- expected results

type xrow struct {
	t    int64
	f    map[string]model.Value
	tags map[string]string
}

// rows of one series that pass the time range and the field condition, sorted by time.
func seriesRows(sd *model.SeriesData, r *ReadSpec) []xrow {
	var out []xrow
	for t, row := range sd.Rows {
		if r.Range && (t < r.TMin || t >= r.TMax) {
			continue
		}
		fs := map[string]model.Value{}
		for f, c := range row {
			if c.MayAbsent || len(c.Alts) != 1 {
				panic("c13: uncertain cell")
			}
			fs[f] = c.Alts[0]
		}
		if len(fs) == 0 || !r.FC.Match(fs) {
			continue
		}
		out = append(out, xrow{t: t, f: fs, tags: sd.Tags})
	}
	sort.Slice(out, func(i, j int) bool { return out[i].t < out[j].t })
	return out
}

func allTagKeys(sds []*model.SeriesData) []string {
	set := map[string]bool{}
	for _, sd := range sds {
		for k := range sd.Tags {
			set[k] = true
		}
	}
	var out []string
	for k := range set {
		out = append(out, k)
	}
	sort.Strings(out)
	return out
}

// groupKeyOf: the result series key of a row's series under the grouping (measurement + grouped non-empty tags).
func groupKeyOf(mst string, tags map[string]string, group []string) string {
	g := map[string]string{}
	if len(group) == 1 && group[0] == "*" {
		g = tags
	} else {
		for _, k := range group {
			g[k] = tags[k]
		}
	}
	return model.SeriesKeyOf(mst, g)
}

func grouped(group []string, key string) bool {
	if len(group) == 1 && group[0] == "*" {
		return true
	}
	for _, k := range group {
		if k == key {
			return true
		}
	}
	return false
}

func rowString(t int64, cols map[string]string) string {
	ks := make([]string, 0, len(cols))
	for k := range cols {
		ks = append(ks, k)
	}
	sort.Strings(ks)
	s := fmt.Sprintf("t=%d", t-hist.T0)
	for _, k := range ks {
		s += " " + k + "=" + cols[k]
	}
	return s
}

// expectRows: group key -> rendered rows in time order (ties sorted by rendering).
func (n *nsState) expectRows(r *ReadSpec) map[string][]string {
	out := map[string][]string{}
	type tr struct {
		t int64
		s string
	}
	tmp := map[string][]tr{}
	for _, sd := range n.matching(r.Mst, r.Pred) {
		gk := groupKeyOf(r.Mst, sd.Tags, r.Group)
		for _, x := range seriesRows(sd, r) {
			cols := map[string]string{}
			for f, v := range x.f {
				cols[f] = v.String()
			}
			for k, v := range sd.Tags {
				if !grouped(r.Group, k) {
					cols["tag:"+k] = v
				}
			}
			tmp[gk] = append(tmp[gk], tr{x.t, rowString(x.t, cols)})
		}
	}
	for gk, l := range tmp {
		sort.Slice(l, func(i, j int) bool {
			if l[i].t != l[j].t {
				return l[i].t < l[j].t
			}
			return l[i].s < l[j].s
		})
		for _, x := range l {
			out[gk] = append(out[gk], x.s)
		}
	}
	return out
}

type aggExp struct {
	n        int
	sum      float64
	min, max float64
	first    map[float64]bool // admissible values of first(): values at the smallest time
	last     map[float64]bool
	tFirst   int64
	tLast    int64
}

// expectAgg: group key -> bucket start (0 without group by time) -> aggregates of r.Field.
func (n *nsState) expectAgg(r *ReadSpec) map[string]map[int64]*aggExp {
	out := map[string]map[int64]*aggExp{}
	for _, sd := range n.matching(r.Mst, r.Pred) {
		gk := groupKeyOf(r.Mst, sd.Tags, r.Group)
		for _, x := range seriesRows(sd, r) {
			v, ok := x.f[r.Field]
			if !ok {
				continue
			}
			var b int64
			if r.Every > 0 {
				w := int64(r.Every) * 1e9
				b = x.t - ((x.t%w)+w)%w
			}
			if out[gk] == nil {
				out[gk] = map[int64]*aggExp{}
			}
			a := out[gk][b]
			val := v.Num()
			if a == nil {
				a = &aggExp{min: val, max: val, first: map[float64]bool{}, last: map[float64]bool{}, tFirst: x.t, tLast: x.t}
				out[gk][b] = a
			}
			a.n++
			a.sum += val
			if val < a.min {
				a.min = val
			}
			if val > a.max {
				a.max = val
			}
			if x.t < a.tFirst {
				a.tFirst, a.first = x.t, map[float64]bool{}
			}
			if x.t == a.tFirst {
				a.first[val] = true
			}
			if x.t > a.tLast {
				a.tLast, a.last = x.t, map[float64]bool{}
			}
			if x.t == a.tLast {
				a.last[val] = true
			}
		}
	}
	return out
}

// listing expectations over a set of namespaces (one for a qualified source, all of a database otherwise)
func expectSeries(nss []*nsState, mst string, p *Pred) map[string]bool {
	out := map[string]bool{}
	for _, n := range nss {
		for k, sd := range n.St.Series {
			if (mst == "" || sd.Mst == mst) && p.Match(sd.Tags) {
				out[k] = true
			}
		}
	}
	return out
}

func expectTagValues(nss []*nsState, mst, key string, p *Pred) map[string]bool {
	out := map[string]bool{}
	for _, n := range nss {
		for _, sd := range n.St.Series {
			if sd.Mst == mst && p.Match(sd.Tags) && sd.Tags[key] != "" {
				out[key+"="+sd.Tags[key]] = true
			}
		}
	}
	return out
}

// tag keys: must = keys of the live series, may = keys ever written into the current incarnation (the listing
// is served from the catalogue's schema, which DROP SERIES does not shrink).
func expectTagKeys(nss []*nsState, mst string) (must, may map[string]bool) {
	must, may = map[string]bool{}, map[string]bool{}
	for _, n := range nss {
		for _, sd := range n.St.Series {
			if sd.Mst == mst {
				for k := range sd.Tags {
					must[k] = true
				}
			}
		}
		for k := range n.Ever[mst] {
			may[k] = true
		}
	}
	return
}

func expectMeasurements(nss []*nsState) (must, may map[string]bool) {
	must, may = map[string]bool{}, map[string]bool{}
	for _, n := range nss {
		for _, m := range n.measurements() {
			must[m] = true
		}
		for m := range n.Ever {
			may[m] = true
		}
	}
	return
}

func setStr(m map[string]bool) string {
	var l []string
	for k := range m {
		l = append(l, k)
	}
	sort.Strings(l)
	return "{" + strings.Join(l, " ") + "}"
}
