package c13

import (
	"encoding/json"
	"fmt"
	"os"
	"path/filepath"
	"sort"
	"strings"
	"sync"
	"testing"
	"time"

	"pgregory.net/rapid"
	"verif/internal/bb"
	"verif/internal/ev"
	"verif/internal/hist"
	"verif/internal/model"
)

// Defects repaired in /repo (their exclusions / tolerances are switched off; the replays are regression cases):
// 1 updateTSIDsForPrefix skipped the deleted filter, 5 pooled index searches kept a foreign deleted set,
// 7 tag-filter cache not invalidated by DROP SERIES (a wrong read right after an acknowledged DROP SERIES fails at once;
// the other drops are two-phase - marked, then removed by a 500 ms loop - and keep the 30 s grace, class late-drop).
const (
	fixedDefect1 = true
	fixedDefect5 = true
	fixedDefect7 = true
)

const prop = "C13"
const campaign = "drop_histories"

// Drop is a generated drop statement.
type Drop struct {
	Kind string `json:"kind"` // series | measurement | rp | database
	NS   string `json:"ns"`
	Mst  string `json:"m,omitempty"`
	Pred *Pred  `json:"pred,omitempty"` // series: nil = no WHERE clause
}

func (d *Drop) SQL(n *nsState) string {
	switch d.Kind {
	case "series":
		q := "DROP SERIES FROM " + n.src(d.Mst)
		if d.Pred != nil {
			q += " WHERE " + d.Pred.SQL()
		}
		return q
	case "measurement":
		return `DROP MEASUREMENT "` + d.Mst + `"`
	case "rp":
		return fmt.Sprintf(`DROP RETENTION POLICY "%s" ON "%s"`, n.RP, n.DB)
	case "database":
		return `DROP DATABASE "` + n.DB + `"`
	}
	panic("bad drop kind")
}

// Op is one operation of a history (the replay format). The first op of a case is hist's {"op":"start"}.
type Op struct {
	Kind     string       `json:"op"` // setup write flush reorg restart kill drop recreate check fullcheck
	Mode     string       `json:"mode,omitempty"`
	NS       string       `json:"ns,omitempty"`
	Points   []hist.PointJ `json:"points,omitempty"`
	Cmd      string       `json:"cmd,omitempty"`
	Drop     *Drop        `json:"drop,omitempty"`
	Reads    []ReadSpec   `json:"reads,omitempty"`
	SettleMs int          `json:"settle_ms,omitempty"` // kill: at least this long after the last DROP SERIES that matched
	Strict   bool         `json:"strict,omitempty"`    // check: no grace period (a wrong read fails at once)
	Note     string       `json:"note,omitempty"`
}

// S is the state of one running history.
type S struct {
	h    *hist.H
	c    *ev.Case
	w    *world
	fail func(format string, a ...any)

	visible   map[string]bool // ns|series|shard group -> awaited
	pending   []pendingPoint
	unflushed map[string]bool // ns|series written since the last completed flush
	inFiles   map[string]bool // ns|series that had rows in some completed flush
	// exclusion bookkeeping (known findings)
	walHoldsDropped bool      // rows written before a DROP SERIES to series it dropped are not flushed yet
	dropUnsettled   bool      // a DROP SERIES matched since the last (re)start
	lastDropAt      time.Time // wall clock of that drop (only used to sleep the rest of SettleMs)
	delReady        map[string]bool // ns -> its deleted-series index exists (first effective DROP SERIES, or a restart)
	groupSeen       map[string]bool // ns|shard group -> the group's series index exists
	detached        map[string]bool // ns|shard group -> index created while delReady: DROP SERIES does not reach it
	everMst         map[string]bool // ns|measurement ever written since the namespace was created
	tainted         map[string]bool // ns|measurement: some DROP SERIES was effective on its current incarnation
	redropped       map[string]bool // ns|series dropped by DROP SERIES at least once in the measurement's current incarnation
	frozen          map[string]bool // ns|series live again and a restart happened since: the next write gets a second live id
	noExcl          bool            // replays of known findings: evaluate every read
	grace           time.Duration   // how long a wrong read may take to become right (30 s)

	lastEvent   string // kind of the last state-changing op: attribution of a late but finally right read
	restarts    int
	kills       int
	drops       int
	droppedKeys []string // ns|series keys dropped so far (rewrite targets)
	droppedMsts []string // ns|mst
	ntKeys      []string
	shapesAfterNT map[string]bool
	ntOpen      bool
}

type pendingPoint struct {
	ns string
	p  model.Point
}

// process-wide notes
var (
	noteMu       sync.Mutex
	lateMaxMs    = map[string]int64{}
	lateExamples = map[string]string{}
)

func noteLate(class string, ms int64, example string) {
	noteMu.Lock()
	defer noteMu.Unlock()
	if ms > lateMaxMs[class] {
		lateMaxMs[class] = ms
		lateExamples[class] = example
	}
	ev.Note(campaign, "late_max_ms", lateMaxMs)
	ev.Note(campaign, "late_examples", lateExamples)
}

// keepLogs copies the tail of the server's logs next to the failure file (diagnosis of a failing history).
func keepLogs(srv *bb.Server) {
	dir := os.Getenv("VERIF_FAILDIR")
	if dir == "" || os.Getenv("C13_KEEP_LOGS") == "" {
		return
	}
	dst := filepath.Join(dir, fmt.Sprintf("logs-%d", os.Getpid()))
	_ = os.RemoveAll(dst)
	_ = os.MkdirAll(dst, 0o755)
	files, _ := filepath.Glob(filepath.Join(srv.LogDir(), "*"))
	more, _ := filepath.Glob(filepath.Join(srv.Dir, "stdout-*.log"))
	for _, f := range append(files, more...) {
		b, err := os.ReadFile(f)
		if err != nil {
			continue
		}
		if len(b) > 400000 {
			b = b[len(b)-400000:]
		}
		_ = os.WriteFile(filepath.Join(dst, filepath.Base(f)), b, 0o644)
	}
}

func newS(h *hist.H, c *ev.Case, fail0 func(string, ...any)) *S {
	fail := func(format string, a ...any) {
		keepLogs(h.Srv)
		fail0(format, a...)
	}
	s := &S{h: h, c: c, w: newWorld(), fail: fail, visible: map[string]bool{}, unflushed: map[string]bool{}, inFiles: map[string]bool{}, shapesAfterNT: map[string]bool{},
		grace: 30 * time.Second, delReady: map[string]bool{}, groupSeen: map[string]bool{}, detached: map[string]bool{}, everMst: map[string]bool{}, tainted: map[string]bool{}, redropped: map[string]bool{}, frozen: map[string]bool{}}
	s.w.add("db0", "db0", "")
	return s
}

func groupOf(t int64) int64 { return (t - hist.T0 + hist.Week*1000) / hist.Week }

func (s *S) alive(when string) {
	if !s.h.Srv.Alive() {
		if p := s.h.Srv.PanicInLogs(); p != "" {
			s.fail("server died %s: %s", when, p)
		}
		s.fail("server died %s: %s", when, s.h.Srv.TailLog(1200))
	}
}

// ---------------------------------------------------------------- operations

func (s *S) write(nsName string, ps []hist.PointJ) {
	n := s.w.ns[nsName]
	if n == nil {
		bb.Fatal("write to unknown namespace %q", nsName)
	}
	mps := make([]model.Point, len(ps))
	for i := range ps {
		mps[i] = ps[i].Model()
	}
	body := model.Lines(mps)
	status, resp := s.h.Srv.Write(n.DB, n.RP, "ns", body)
	for try := 0; (status >= 500 || (status >= 400 && emptyErr(resp))) && s.h.Srv.Alive() && try < 100; try++ {
		// a refusal (not an acknowledgement): shard group being created, object still being deleted
		s.c.Class("write-refused-retried")
		time.Sleep(100 * time.Millisecond)
		status, resp = s.h.Srv.Write(n.DB, n.RP, "ns", body)
	}
	if status != 204 {
		s.alive("during a write")
		s.fail("valid write to %s rejected with status %d: %s", nsName, status, resp)
	}
	n.apply(mps)
	for _, p := range mps {
		sk := nsName + "|" + model.SeriesKeyOf(p.Mst, p.Tags)
		s.unflushed[sk] = true
		s.everMst[nsName+"|"+p.Mst] = true
		gk := fmt.Sprintf("%s|%d", nsName, groupOf(p.Time))
		if !s.groupSeen[gk] {
			s.groupSeen[gk] = true
			s.detached[gk] = s.delReady[nsName]
		}
		vk := fmt.Sprintf("%s|%d", sk, groupOf(p.Time))
		if !s.visible[vk] {
			s.visible[vk] = true
			s.pending = append(s.pending, pendingPoint{nsName, p})
		}
	}
}

// awaitVisible waits until every first point of a new (series, shard group) is returned by a query (the series
// index publishes new series about once per second). No tag filter is used, so no filter cache is warmed here.
func (s *S) awaitVisible() {
	pend := s.pending
	s.pending = nil
	for _, pp := range pend {
		n := s.w.ns[pp.ns]
		if n == nil {
			continue
		}
		key := model.SeriesKeyOf(pp.p.Mst, pp.p.Tags)
		if n.St.Series[key] == nil || n.St.Series[key].Rows[pp.p.Time] == nil {
			continue // dropped meanwhile
		}
		q := fmt.Sprintf("SELECT * FROM %s WHERE time = %d GROUP BY *", n.src(pp.p.Mst), pp.p.Time)
		deadline := time.Now().Add(30 * time.Second)
		for {
			res, err := s.h.Srv.Query(n.DB, q, nil)
			found := false
			if err == nil && res.Err == "" && len(res.Results) > 0 {
				for _, se := range res.Results[0].Series {
					if model.SeriesKeyOf(se.Name, se.Tags) == key && len(se.Values) > 0 {
						found = true
					}
				}
			}
			if found {
				break
			}
			s.alive("while waiting for a new series")
			if time.Now().After(deadline) {
				s.fail("acknowledged point never became visible (30 s): %s in %s", pp.p.Line(), pp.ns)
			}
			time.Sleep(100 * time.Millisecond)
		}
	}
}

func (s *S) flush() {
	s.h.Flush()
	for k := range s.unflushed {
		s.inFiles[k] = true
	}
	s.unflushed = map[string]bool{}
	s.walHoldsDropped = false
}

func (s *S) comeBack(when string) {
	s.h.Srv.Start("")
	if !s.h.Srv.WaitReady(90 * time.Second) {
		if p := s.h.Srv.PanicInLogs(); p != "" {
			s.fail("server does not come back after %s: %s", when, p)
		}
		bb.Fatal("server not ready after %s: %s", when, s.h.Srv.TailLog(1500))
	}
	s.h.Restarts++
	s.h.Gen++
	s.dropUnsettled = false
	if !s.noExcl {
		// known finding: after a restart the first write to a series key that has an older, dropped incarnation
		// gets yet another series id and stays invisible until the index publishes it (a DROP SERIES in that
		// second misses the rows): every series is awaited again after a restart
		s.visible = map[string]bool{}
	}
	for sk := range s.redropped {
		i := strings.Index(sk, "|")
		if n := s.w.ns[sk[:i]]; n != nil && n.St.Series[sk[i+1:]] != nil {
			s.frozen[sk] = true
		}
	}
	for gk := range s.groupSeen {
		s.delReady[gk[:strings.Index(gk, "|")]] = true
		s.detached[gk] = false
	}
	s.lastEvent = "restart"
	s.fullCheck("after "+when, false)
}

func (s *S) restart() {
	if s.dropUnsettled && !s.noExcl {
		// known finding C13-drop-series-not-durable-at-ack: the deleted ids reach the disk with the index's periodic flush, and a
		// SIGTERM within that interval loses them exactly as kill -9 does (seen in the thorough tier: DROP SERIES, write, clean
		// restart within ~2 s -> the series is back): the same 6 s margin as before a kill
		if rest := 6*time.Second - time.Since(s.lastDropAt); rest > 0 {
			s.c.Excluded("clean-restart-within-6s-of-drop-series")
			time.Sleep(rest)
		}
	}
	if !s.h.Srv.Term(120 * time.Second) {
		s.fail("server did not exit within 120 s of SIGTERM")
	}
	// a clean shutdown does not flush the memtables: the log is replayed at the next start, as after a crash
	s.restarts++
	s.comeBack("a clean restart")
}

func (s *S) kill(settleMs int) {
	if settleMs > 0 && s.dropUnsettled {
		if rest := time.Duration(settleMs)*time.Millisecond - time.Since(s.lastDropAt); rest > 0 {
			time.Sleep(rest)
		}
	}
	s.h.Srv.Kill()
	s.kills++
	s.comeBack("kill -9")
}

func (s *S) exec1(db, q string) string {
	res, err := s.h.Srv.Query(db, q, nil)
	if err != nil {
		s.alive("during " + q)
		return "transport: " + err.Error()
	}
	return res.Err
}

func (s *S) drop(d *Drop) {
	n := s.w.ns[d.NS]
	if n == nil {
		bb.Fatal("drop in unknown namespace %q", d.NS)
	}
	q := d.SQL(n)
	if e := s.exec1(n.DB, q); e != "" {
		s.fail("%s failed: %s", q, e)
	}
	s.drops++
	s.lastEvent = "drop" // DROP MEASUREMENT / RETENTION POLICY / DATABASE: marked in the catalogue, removed by a 500 ms loop
	if d.Kind == "series" {
		s.lastEvent = "drop-series"
	}
	forget := func(nsName string, keys []string) {
		for _, k := range keys {
			sk := nsName + "|" + k
			for vk := range s.visible {
				if strings.HasPrefix(vk, sk+"|") {
					delete(s.visible, vk)
				}
			}
			s.droppedKeys = append(s.droppedKeys, sk)
			delete(s.frozen, sk)
			if d.Kind == "series" {
				s.redropped[sk] = true
			} else {
				delete(s.redropped, sk)
			}
		}
	}
	switch d.Kind {
	case "series":
		dropped, _ := n.dropSeries(d.Mst, d.Pred)
		for _, k := range dropped {
			if s.unflushed[d.NS+"|"+k] {
				s.walHoldsDropped = true
			}
		}
		if len(dropped) == 0 {
			// nothing selected: the server does nothing (no cache invalidation either), so a tag filter cached before a
			// recent write may still lack the new series for some seconds - that is class late-write, not a drop matter
			s.lastEvent = "drop-series-none"
		}
		if len(dropped) > 0 {
			s.dropUnsettled = true
			s.lastDropAt = time.Now()
			s.delReady[d.NS] = true
			s.tainted[d.NS+"|"+d.Mst] = true // has deleted series ids
		}
		forget(d.NS, dropped)
	case "measurement":
		// database-wide (every retention policy), as in InfluxDB
		for _, x := range s.w.ofDB(n.DB) {
			for _, m := range []map[string]bool{s.redropped, s.frozen} {
				for k := range m {
					if strings.HasPrefix(k, x.Name+"|"+d.Mst+",") || k == x.Name+"|"+d.Mst {
						delete(m, k)
					}
				}
			}
			delete(s.tainted, x.Name+"|"+d.Mst)
			forget(x.Name, x.dropMeasurement(d.Mst))
			s.droppedMsts = append(s.droppedMsts, x.Name+"|"+d.Mst)
		}
	case "rp":
		for _, m := range n.measurements() {
			forget(n.Name, n.dropMeasurement(m))
			s.droppedMsts = append(s.droppedMsts, n.Name+"|"+m)
		}
		s.forgetIndexes(n.Name)
		n.reset()
	case "database":
		for _, x := range s.w.ofDB(n.DB) {
			for _, m := range x.measurements() {
				forget(x.Name, x.dropMeasurement(m))
				s.droppedMsts = append(s.droppedMsts, x.Name+"|"+m)
			}
			s.forgetIndexes(x.Name)
			x.reset()
		}
	}
}

func (s *S) forgetIndexes(ns string) {
	delete(s.delReady, ns)
	for _, m := range []map[string]bool{s.everMst, s.tainted, s.redropped, s.frozen} {
		for k := range m {
			if strings.HasPrefix(k, ns+"|") {
				delete(m, k)
			}
		}
	}
	for gk := range s.groupSeen {
		if strings.HasPrefix(gk, ns+"|") {
			delete(s.groupSeen, gk)
			delete(s.detached, gk)
		}
	}
}

// positiveOnly: the predicate consists of = / =~ leaves with non-empty values only.
func positiveOnly(p *Pred) bool {
	switch p.Op {
	case "and", "or":
		return positiveOnly(p.L) && positiveOnly(p.R)
	case "eq", "re":
		return p.Val != ""
	}
	return false
}

// unreliable: known finding - after a DROP SERIES on a measurement that is not the last one of its index, a
// selection that needs "all series of the measurement" (no tag filter, or a negative / empty-value filter) does
// not subtract the deleted series.
func (s *S) unreliable(r *ReadSpec) bool {
	if fixedDefect1 || s.noExcl || !s.tainted[r.NS+"|"+r.Mst] || (r.Kind != "rows" && r.Kind != "agg") {
		return false
	}
	last := true // no greater measurement name was ever written into the namespace
	for k := range s.everMst {
		if strings.HasPrefix(k, r.NS+"|") && k > r.NS+"|"+r.Mst {
			last = false
		}
	}
	if last {
		return false
	}
	return r.Pred == nil || !positiveOnly(r.Pred)
}

func predKeys(p *Pred, into map[string]bool) {
	if p == nil {
		return
	}
	if p.Op == "and" || p.Op == "or" {
		predKeys(p.L, into)
		predKeys(p.R, into)
		return
	}
	into[p.Key] = true
}

// keysKnown: every tag key the read filters or groups on is a tag of the measurement's current incarnation. (A key
// that is not in the measurement's schema is not a tag at all for the server: the comparison is then evaluated as
// one with a missing field, which is not what the tag model describes - such reads are not generated.)
func (s *S) keysKnown(n *nsState, mst string, p *Pred, group []string) bool {
	if mst == "" {
		return true
	}
	ks := map[string]bool{}
	predKeys(p, ks)
	for _, g := range group {
		if g != "*" {
			ks[g] = true
		}
	}
	for k := range ks {
		if !n.Ever[mst][k] {
			return false
		}
	}
	return true
}

// logHoldsTrouble: a restart now would replay rows that (a) belong to a dropped series or (b) belong to a live
// series that has an older dropped incarnation - both known findings (the replay allocates a fresh series id).
func (s *S) logHoldsTrouble() bool {
	if s.walHoldsDropped {
		return true
	}
	for k := range s.unflushed {
		if s.redropped[k] {
			return true
		}
	}
	return false
}

// reachesDetached: the drop selects a series with rows in a shard group whose index the deleted-series set is
// not attached to (known finding).
func (s *S) reachesDetached(d *Drop) bool {
	n := s.w.ns[d.NS]
	for _, sd := range n.matching(d.Mst, d.Pred) {
		for t := range sd.Rows {
			if s.detached[fmt.Sprintf("%s|%d", d.NS, groupOf(t))] {
				return true
			}
		}
	}
	return false
}

// recreate brings a dropped retention policy / database back under the same name (it must behave as a fresh
// one). While the catalogue still marks the old object as being deleted the server refuses: retry (<= 30 s).
func (s *S) recreate(d *Drop) {
	n := s.w.ns[d.NS]
	deadline := time.Now().Add(30 * time.Second)
	try := func(db, q string) {
		for {
			e := s.exec1(db, q)
			if e == "" {
				return
			}
			if time.Now().After(deadline) {
				s.fail("30 s after %s the name still cannot be re-created: %s: %s", d.SQL(n), q, e)
			}
			time.Sleep(200 * time.Millisecond)
		}
	}
	createRP := func(x *nsState) {
		// the policy must be really gone before it is created again (a create while it is only marked is a no-op)
		for {
			e := s.exec1(x.DB, "SELECT * FROM "+x.src("r0")+" LIMIT 1")
			if !strings.Contains(e, "being delete") {
				break
			}
			if time.Now().After(deadline) {
				s.fail("30 s after %s the retention policy is still being deleted", d.SQL(n))
			}
			time.Sleep(200 * time.Millisecond)
		}
		try("", fmt.Sprintf(`CREATE RETENTION POLICY "%s" ON "%s" DURATION 0s REPLICATION 1`, x.RP, x.DB))
	}
	switch d.Kind {
	case "rp":
		createRP(n)
	case "database":
		try("", `CREATE DATABASE "`+n.DB+`"`)
		for _, x := range s.w.ofDB(n.DB) {
			if x.RP != "" {
				createRP(x)
			}
		}
	}
}

// check runs the reads; a wrong read is re-run for up to 30 s: only a read that stays wrong is a violation, one
// that becomes right is counted (late-drop / late-restart / late-other) with the delay.
func (s *S) check(reads []ReadSpec, when string, strict bool) {
	s.awaitVisible()
	for i := range reads {
		r := &reads[i]
		n := s.w.ns[r.NS]
		if n == nil {
			continue
		}
		if (r.Kind == "rows" || r.Kind == "agg" || r.Pred != nil) && !s.keysKnown(n, r.Mst, r.Pred, r.Group) {
			s.c.Class("read-left-out:filter-or-grouping-on-a-key-that-is-not-a-tag-of-the-measurement")
			continue
		}
		if s.unreliable(r) {
			s.c.Excluded("all-series-read-after-drop-series-on-a-measurement-that-is-not-the-last-of-its-index")
			continue
		}
		d := s.runRead(r)
		if d == "" {
			s.c.Class("shape:" + r.Shape())
			if s.ntOpen {
				s.shapesAfterNT[r.Shape()] = true
			}
			continue
		}
		s.alive("during a read")
		first := d
		t0 := time.Now()
		if strict || (fixedDefect7 && s.lastEvent == "drop-series") {
			s.fail("%s: read %q differs from the model with the drops applied (no grace period: strict check or right after an acknowledged drop): %s%s", when, r.SQL(n), first, s.agreement(reads, i))
		}
		for d != "" {
			if time.Since(t0) > s.grace {
				o, u, lv := s.h.Layout()
				s.fail("%s: read %q differs from the model with the drops applied (still after "+s.grace.String()+"): %s [shape %s; files ordered=%d unordered=%d maxlevel=%d; restarts=%d kills=%d drops=%d]%s",
					when, r.SQL(n), d, r.Shape(), o, u, lv, s.restarts, s.kills, s.drops, s.agreement(reads, i))
			}
			time.Sleep(250 * time.Millisecond)
			d = s.runRead(r)
			s.alive("during a read")
		}
		class := "late-" + s.lastEvent
		s.c.Class(class)
		s.c.Class(class + ":" + r.Shape())
		noteLate(class, time.Since(t0).Milliseconds(), fmt.Sprintf("%s: %q was wrong for %d ms: %s", when, r.SQL(n), time.Since(t0).Milliseconds(), first))
	}
}

// agreement runs the other reads of a check once and says which shapes agree with the model and which do not
// (the read shapes must agree with each other).
func (s *S) agreement(reads []ReadSpec, failing int) string {
	right, wrong := map[string]bool{}, map[string]bool{}
	for j := range reads {
		if j == failing || s.w.ns[reads[j].NS] == nil || !s.h.Srv.Alive() {
			continue
		}
		if reads[j].NS != reads[failing].NS || reads[j].Mst != reads[failing].Mst {
			continue
		}
		if s.runRead(&reads[j]) == "" {
			right[reads[j].Shape()] = true
		} else {
			wrong[reads[j].Shape()] = true
		}
	}
	return fmt.Sprintf(" | other reads of the same measurement in this check: wrong %s, right %s", setStr(wrong), setStr(right))
}

// batteryFor: every read shape over one measurement (deterministic).
func batteryFor(n *nsState, mst string, p *Pred) []ReadSpec {
	ns := n.Name
	tmin, tmax := hist.TS(0), hist.TS(0)+60e9
	l := []ReadSpec{
		{Kind: "rows", NS: ns, Mst: mst},
		{Kind: "rows", NS: ns, Mst: mst, Group: []string{"*"}},
		{Kind: "rows", NS: ns, Mst: mst, Group: []string{"host"}},
		{Kind: "rows", NS: ns, Mst: mst, FC: &FieldCond{Field: "i", Op: ">=", Val: 0}},
		{Kind: "rows", NS: ns, Mst: mst, Pred: &Pred{Op: "ne", Key: "host", Val: "q"}},
		{Kind: "agg", NS: ns, Mst: mst, Field: "i"},
		{Kind: "agg", NS: ns, Mst: mst, Field: "i", Exact: true},
		{Kind: "agg", NS: ns, Mst: mst, Field: "f", Group: []string{"host"}},
		{Kind: "agg", NS: ns, Mst: mst, Field: "f", Group: []string{"host"}, Exact: true},
		{Kind: "agg", NS: ns, Mst: mst, Field: "i", Every: 10, Range: true, TMin: tmin, TMax: tmax},
		{Kind: "agg", NS: ns, Mst: mst, Field: "i", Every: 10, Range: true, TMin: tmin, TMax: tmax, Exact: true, Group: []string{"dc"}},
		{Kind: "series", NS: ns, Mst: mst},
		{Kind: "tagkeys", NS: ns, Mst: mst},
		{Kind: "tagvalues", NS: ns, Mst: mst, Key: "host"},
		{Kind: "tagvalues", NS: ns, Mst: mst, Key: "dc"},
	}
	if p != nil {
		l = append(l,
			ReadSpec{Kind: "rows", NS: ns, Mst: mst, Pred: p},
			ReadSpec{Kind: "rows", NS: ns, Mst: mst, Pred: p, Group: []string{"*"}},
			ReadSpec{Kind: "agg", NS: ns, Mst: mst, Pred: p, Field: "i"},
			ReadSpec{Kind: "series", NS: ns, Mst: mst, Pred: p},
			ReadSpec{Kind: "tagvalues", NS: ns, Mst: mst, Key: "host", Pred: p},
		)
	}
	return l
}

var allMsts = map[string][]string{"db0": {"m0", "m1"}, "db0.rp1": {"r0"}, "db1": {"m0", "m1"}}

// fullCheck: the whole battery over every measurement name of every namespace, and the database-level listings.
func (s *S) fullCheck(when string, strict bool) {
	var reads []ReadSpec
	for _, name := range s.w.order {
		n := s.w.ns[name]
		for _, m := range allMsts[name] {
			reads = append(reads, batteryFor(n, m, &Pred{Op: "eq", Key: "host", Val: "a"})...)
		}
		if n.RP == "" {
			reads = append(reads, ReadSpec{Kind: "series", NS: name}, ReadSpec{Kind: "measurements", NS: name})
		}
	}
	s.check(reads, when, strict)
}

// exec interprets one op (shared by the generator and the replay).
func (s *S) exec(op Op) {
	if op.Kind == "start" {
		return
	}
	s.c.Op(op)
	if op.Kind != "kill" && op.Kind != "restart" {
		s.alive("before " + op.Kind)
	}
	switch op.Kind {
	case "setup":
		switch op.Mode {
		case "rp":
			s.h.Srv.MustExec("", `CREATE RETENTION POLICY "rp1" ON "db0" DURATION 0s REPLICATION 1`)
			s.w.add("db0.rp1", "db0", "rp1")
		case "db":
			s.h.Srv.MustExec("", `CREATE DATABASE "db1"`)
			s.w.add("db1", "db1", "")
		}
		s.lastEvent = "setup"
	case "write":
		s.write(op.NS, op.Points)
		s.lastEvent = "write"
	case "flush":
		s.flush()
		s.lastEvent = "flush"
	case "reorg":
		s.h.Reorg(op.Cmd)
		s.lastEvent = "reorg"
	case "restart":
		s.restart()
	case "kill":
		s.kill(op.SettleMs)
	case "drop":
		s.awaitVisible()
		s.drop(op.Drop)
	case "wait":
		time.Sleep(time.Duration(op.SettleMs) * time.Millisecond)
	case "recreate":
		s.recreate(op.Drop)
	case "check":
		s.check(op.Reads, "check", op.Strict)
	case "fullcheck":
		s.fullCheck("full check", op.Strict)
	case "sleep": // replays only
		time.Sleep(time.Duration(op.SettleMs) * time.Millisecond)
	default:
		bb.Fatal("unknown op %q", op.Kind)
	}
}

// ---------------------------------------------------------------- generators

var tagSets = []map[string]string{
	{"host": "a"}, {"host": "a", "dc": "x"}, {"host": "a", "dc": "y"}, {"host": "b", "dc": "x"}, {"host": "b"}, {"host": "c", "dc": "y"},
}

type gen struct {
	counter int
	maxT    int
}

func (g *gen) fields(t *rapid.T) map[string]string {
	fs := map[string]string{}
	mask := rapid.IntRange(1, 15).Draw(t, "fieldmask") | rapid.SampledFrom([]int{0, 1, 2, 3}).Draw(t, "numeric")
	for i, n := range []string{"i", "f", "s", "b"} {
		if mask&(1<<i) == 0 {
			continue
		}
		g.counter++
		switch n {
		case "i":
			fs[n] = fmt.Sprint(g.counter)
		case "f":
			fs[n] = fmt.Sprintf("%g", float64(g.counter)+0.25)
		case "s":
			fs[n] = fmt.Sprintf("v%d", g.counter)
		default:
			fs[n] = fmt.Sprint(g.counter%2 == 0)
		}
	}
	return fs
}

func (g *gen) timeIdx(t *rapid.T) int {
	var ti int
	switch rapid.IntRange(0, 5).Draw(t, "tkind") {
	case 0: // late data (out-of-order files)
		ti = rapid.IntRange(0, max(g.maxT, 1)).Draw(t, "tlate")
	case 1: // the other shard group (its own series index)
		ti = rapid.IntRange(64, 79).Draw(t, "tshard2")
	case 2:
		ti = min(g.maxT+rapid.IntRange(0, 2).Draw(t, "tadv"), 59)
	default:
		ti = rapid.IntRange(0, 40).Draw(t, "t")
	}
	if ti > g.maxT && ti < 64 {
		g.maxT = ti
	}
	return ti
}

func (g *gen) point(t *rapid.T, ns string) hist.PointJ {
	return hist.PointJ{Mst: rapid.SampledFrom(allMsts[ns]).Draw(t, "mst"), Tags: rapid.SampledFrom(tagSets).Draw(t, "tags"), T: g.timeIdx(t), Fields: g.fields(t)}
}

// noOverwrite moves every point that would hit an existing (series,time) - in the model or earlier in the batch -
// to the next free second of its shard group, or leaves it out. (Overwrites are C02's subject; the aggregate
// push-down counts a row overwritten across memtable and files twice, which is not a matter of drops.)
func noOverwrite(n *nsState, ps []hist.PointJ) []hist.PointJ {
	used := map[string]bool{}
	var out []hist.PointJ
	for _, p := range ps {
		key := model.SeriesKeyOf(p.Mst, p.Tags)
		taken := func(ti int) bool {
			if used[fmt.Sprintf("%s|%d", key, ti)] {
				return true
			}
			sd := n.St.Series[key]
			return sd != nil && sd.Rows[hist.TS(ti)] != nil
		}
		lo, hi := 0, 63
		if p.T >= 64 {
			lo, hi = 64, 79
		}
		ti, ok := p.T, false
		for k := 0; k <= hi-lo; k++ {
			c := lo + (p.T-lo+k)%(hi-lo+1)
			if !taken(c) {
				ti, ok = c, true
				break
			}
		}
		if !ok {
			continue
		}
		p.T = ti
		used[fmt.Sprintf("%s|%d", key, ti)] = true
		out = append(out, p)
	}
	return out
}

var hostVals = []string{"a", "a", "b", "c", "z"}
var dcVals = []string{"x", "y", "", "q"}

func genLeaf(t *rapid.T, regexOK bool) *Pred {
	if rapid.IntRange(0, 2).Draw(t, "onDC") == 0 {
		return &Pred{Op: rapid.SampledFrom([]string{"eq", "ne"}).Draw(t, "dcop"), Key: "dc", Val: rapid.SampledFrom(dcVals).Draw(t, "dcval")}
	}
	ops := []string{"eq", "eq", "ne"}
	if regexOK {
		ops = append(ops, "re", "nre")
	}
	return &Pred{Op: rapid.SampledFrom(ops).Draw(t, "hostop"), Key: "host", Val: rapid.SampledFrom(hostVals).Draw(t, "hostval")}
}

func genPred(t *rapid.T, regexOK bool) *Pred {
	switch rapid.IntRange(0, 4).Draw(t, "predshape") {
	case 0:
		return &Pred{Op: "and", L: genLeaf(t, regexOK), R: genLeaf(t, regexOK)}
	case 1:
		return &Pred{Op: "or", L: genLeaf(t, regexOK), R: genLeaf(t, regexOK)}
	default:
		return genLeaf(t, regexOK)
	}
}

func (s *S) pickNS(t *rapid.T) string {
	// the first namespace (db0) twice as likely
	l := append([]string{s.w.order[0]}, s.w.order...)
	return rapid.SampledFrom(l).Draw(t, "ns")
}

func (s *S) genRead(t *rapid.T, preds []*Pred) ReadSpec {
	ns := s.pickNS(t)
	r := ReadSpec{NS: ns, Mst: rapid.SampledFrom(allMsts[ns]).Draw(t, "rmst")}
	pickPred := func() *Pred {
		if len(preds) > 0 && rapid.IntRange(0, 1).Draw(t, "reusePred") == 0 {
			return rapid.SampledFrom(preds).Draw(t, "oldpred") // a filter of an earlier drop / read (warm caches)
		}
		return genPred(t, true)
	}
	genRange := func(every int) {
		r.Range = true
		if every > 0 {
			if rapid.IntRange(0, 3).Draw(t, "group2") == 0 {
				r.TMin = hist.TS(64)
				r.TMax = r.TMin + 20e9
			} else {
				a := rapid.IntRange(0, 4).Draw(t, "ra") * 10
				r.TMin = hist.TS(0) + int64(a)*1e9
				r.TMax = r.TMin + int64(rapid.IntRange(1, 6-a/10).Draw(t, "rn"))*10e9
			}
			return
		}
		a := rapid.IntRange(0, 79).Draw(t, "ra")
		b := rapid.IntRange(a, 79).Draw(t, "rb")
		r.TMin, r.TMax = hist.TS(a), hist.TS(b)+1
	}
	switch rapid.IntRange(0, 9).Draw(t, "rkind") {
	case 0, 1, 2, 3:
		r.Kind = "rows"
		if rapid.IntRange(0, 2).Draw(t, "hasPred") > 0 {
			r.Pred = pickPred()
		}
		if rapid.IntRange(0, 2).Draw(t, "hasFC") == 0 {
			r.FC = s.genFC(t)
		}
		switch rapid.IntRange(0, 3).Draw(t, "grp") {
		case 0:
			r.Group = []string{"*"}
		case 1:
			r.Group = []string{rapid.SampledFrom([]string{"host", "dc"}).Draw(t, "gkey")}
		}
		if rapid.IntRange(0, 3).Draw(t, "hasRange") == 0 {
			genRange(0)
		}
		r.Desc = rapid.IntRange(0, 4).Draw(t, "desc") == 0
	case 4, 5, 6:
		r.Kind = "agg"
		r.Field = rapid.SampledFrom([]string{"i", "f"}).Draw(t, "aggfield")
		r.Exact = rapid.Bool().Draw(t, "exact")
		if rapid.IntRange(0, 2).Draw(t, "hasPred") == 0 {
			r.Pred = pickPred()
		}
		if rapid.IntRange(0, 3).Draw(t, "hasFC") == 0 {
			r.FC = s.genFC(t)
		}
		switch rapid.IntRange(0, 3).Draw(t, "grp") {
		case 0:
			r.Group = []string{"host"}
		case 1:
			r.Group = []string{"dc"}
		case 2:
			r.Group = []string{"host", "dc"}
		}
		switch rapid.IntRange(0, 3).Draw(t, "time") {
		case 0:
			r.Every = rapid.SampledFrom([]int{2, 5, 10}).Draw(t, "every")
			genRange(r.Every)
		case 1:
			genRange(0)
		}
	case 7:
		r.Kind = "series"
		if rapid.Bool().Draw(t, "dbLevel") && s.w.ns[ns].RP == "" {
			r.Mst = ""
		} else if rapid.Bool().Draw(t, "hasPred") {
			r.Pred = pickPred()
		}
	case 8:
		r.Kind = "tagvalues"
		r.Key = rapid.SampledFrom([]string{"host", "dc"}).Draw(t, "tvkey")
		if rapid.IntRange(0, 2).Draw(t, "hasPred") == 0 {
			r.Pred = pickPred()
		}
	default:
		if rapid.Bool().Draw(t, "tk") || s.w.ns[ns].RP != "" {
			r.Kind = "tagkeys"
		} else {
			r.Kind, r.Mst = "measurements", ""
		}
	}
	return r
}

func (s *S) genFC(t *rapid.T) *FieldCond {
	fc := &FieldCond{Field: rapid.SampledFrom([]string{"i", "f"}).Draw(t, "fcfield"), Op: rapid.SampledFrom([]string{">=", ">", "<", "<="}).Draw(t, "fcop")}
	fc.Val = float64(rapid.IntRange(0, 60).Draw(t, "fcval"))
	if fc.Field == "f" {
		fc.Val += 0.5
	}
	return fc
}

func knobsFor(seg, cold string) map[string]string {
	k := map[string]string{}
	if seg != "" {
		k["max-rows-per-segment"] = seg
	}
	if cold != "" {
		// default 5s: an idle memtable is flushed by the server itself (the key lives in [data.memtable])
		k["raw:data.memtable"] = `write-cold-duration = "` + cold + `"`
	}
	return k
}

func runHistory(t *rapid.T, c *ev.Case) {
	seg := rapid.SampledFrom([]string{"8", "8", ""}).Draw(t, "maxRowsPerSegment")
	mode := rapid.SampledFrom([]string{"single", "single", "single", "rp", "db"}).Draw(t, "namespaces")
	c.Class("namespaces=" + mode)
	cold := rapid.SampledFrom([]string{"", "1h"}).Draw(t, "writeColdDuration")
	c.Class("write-cold-duration=" + cold)
	caseDesc := map[string]any{"kind": "history", "segrows": seg, "cold": cold}
	h := hist.New(c, 13, knobsFor(seg, cold), func(format string, a ...any) { c.Failf(t, prop, caseDesc, format, a...) })
	defer h.Close()
	s := newS(h, c, h.Fail)
	g := &gen{}
	s.exec(Op{Kind: "setup", Mode: mode})
	var preds []*Pred // filters used so far (reads re-use them: the same filter before and after a drop)

	reads := func(t *rapid.T, k int) {
		rs := make([]ReadSpec, k)
		for i := range rs {
			rs[i] = s.genRead(t, preds)
			if rs[i].Pred != nil && len(preds) < 12 {
				preds = append(preds, rs[i].Pred)
			}
		}
		s.exec(Op{Kind: "check", Reads: rs})
	}
	// known finding: after a restart, a write to a live series that has an older dropped incarnation gets a second
	// live series id (rows of one series out of order, drops that miss rows): such points are left out
	thaw := func(ns string, ps []hist.PointJ) []hist.PointJ {
		var out []hist.PointJ
		for _, p := range ps {
			if s.frozen[ns+"|"+model.SeriesKeyOf(p.Mst, p.Tags)] {
				c.Excluded("write-after-restart-to-a-live-series-that-was-dropped-and-rewritten-before")
				continue
			}
			out = append(out, p)
		}
		return out
	}
	write := func(t *rapid.T) {
		ns := s.pickNS(t)
		k := rapid.IntRange(1, 10).Draw(t, "n")
		ps := make([]hist.PointJ, k)
		for i := range ps {
			ps[i] = g.point(t, ns)
		}
		if ps = noOverwrite(s.w.ns[ns], thaw(ns, ps)); len(ps) > 0 {
			s.exec(Op{Kind: "write", NS: ns, Points: ps})
		}
	}
	// rewrite: new points for series / measurements that were dropped (they must behave as fresh ones)
	var freshlyDropped []string // series removed by the latest drop (preferred by the rewrite that follows it)
	rewrite := func(t *rapid.T) {
		if len(s.droppedKeys) == 0 {
			t.Skip("nothing dropped yet")
		}
		pool := s.droppedKeys
		if len(freshlyDropped) > 0 && rapid.IntRange(0, 2).Draw(t, "fresh") > 0 {
			pool = freshlyDropped
		}
		sk := rapid.SampledFrom(pool).Draw(t, "droppedSeries")
		i := strings.Index(sk, "|")
		ns, key := sk[:i], sk[i+1:]
		parts := strings.Split(key, ",")
		tags := map[string]string{}
		for _, kv := range parts[1:] {
			p := strings.SplitN(kv, "=", 2)
			tags[p[0]] = p[1]
		}
		k := rapid.IntRange(1, 4).Draw(t, "n")
		ps := make([]hist.PointJ, k)
		for j := range ps {
			ps[j] = hist.PointJ{Mst: parts[0], Tags: tags, T: g.timeIdx(t), Fields: g.fields(t)}
		}
		if ps = noOverwrite(s.w.ns[ns], thaw(ns, ps)); len(ps) == 0 {
			return
		}
		c.Class("write-to-dropped-series-or-measurement")
		s.exec(Op{Kind: "write", NS: ns, Points: ps})
	}
	doDrop := func(t *rapid.T) {
		kinds := []string{"series", "series", "series", "series", "measurement"}
		if mode == "rp" {
			kinds = append(kinds, "rp", "rp")
		}
		if mode == "db" {
			kinds = append(kinds, "database", "database")
		}
		d := &Drop{Kind: rapid.SampledFrom(kinds).Draw(t, "dropKind")}
		if !fixedDefect5 && mode == "db" && d.Kind == "series" {
			// known finding: series ids repeat between databases and a pooled index search keeps the deleted-id set
			// of the index it served last, so a DROP SERIES in one database hides / spares series of the other one
			c.Excluded("drop-series-while-a-second-database-exists")
			d.Kind = rapid.SampledFrom([]string{"measurement", "database"}).Draw(t, "dropKindDB")
		}
		switch d.Kind {
		case "rp":
			d.NS = "db0.rp1"
		case "database":
			d.NS = rapid.SampledFrom([]string{"db1", "db1", "db0"}).Draw(t, "dropDB")
		default:
			d.NS = s.pickNS(t)
			d.Mst = rapid.SampledFrom(allMsts[d.NS]).Draw(t, "dropMst")
		}
		n := s.w.ns[d.NS]
		if (d.Kind == "series" || d.Kind == "measurement") && n.Ever[d.Mst] == nil {
			t.Skip("measurement does not exist")
		}
		c.Class("drop:" + d.Kind)
		var targeted []ReadSpec
		if d.Kind == "series" {
			if rapid.IntRange(0, 7).Draw(t, "noWhere") > 0 {
				if len(preds) > 0 && rapid.IntRange(0, 2).Draw(t, "reusePred") == 0 {
					d.Pred = rapid.SampledFrom(preds).Draw(t, "oldpred")
				} else if all := n.matching(d.Mst, nil); len(all) > 0 && rapid.IntRange(0, 3).Draw(t, "fromSeries") > 0 {
					// a predicate built from the tags of an existing series (selects at least that one)
					sd := rapid.SampledFrom(all).Draw(t, "victim")
					leaf := func(k string) *Pred {
						if sd.Tags[k] == "" && rapid.Bool().Draw(t, "viaNe") {
							return &Pred{Op: "ne", Key: k, Val: rapid.SampledFrom([]string{"x", "y"}).Draw(t, "neval")}
						}
						return &Pred{Op: "eq", Key: k, Val: sd.Tags[k]}
					}
					switch rapid.IntRange(0, 4).Draw(t, "victimShape") {
					case 0:
						d.Pred = leaf("dc")
					case 1:
						d.Pred = &Pred{Op: "and", L: leaf("host"), R: leaf("dc")}
					case 2:
						d.Pred = &Pred{Op: "or", L: leaf("host"), R: genLeaf(t, false)}
					default:
						d.Pred = leaf("host")
					}
				} else {
					d.Pred = genPred(t, rapid.IntRange(0, 3).Draw(t, "regex") == 0)
				}
				if !s.keysKnown(n, d.Mst, d.Pred, nil) {
					d.Pred = &Pred{Op: "eq", Key: "host", Val: rapid.SampledFrom(hostVals).Draw(t, "fallbackHost")}
				}
				if len(preds) < 12 {
					preds = append(preds, d.Pred)
				}
			}
			s.awaitVisible()
			if s.reachesDetached(d) {
				// known finding: DROP SERIES does not reach shard groups created after the deleted-series index
				c.Excluded("drop-series-reaching-a-shard-group-created-after-the-first-drop-or-start")
				if s.logHoldsTrouble() {
					c.Excluded("restart-while-rows-of-a-dropped-series-are-only-in-the-log")
					s.exec(Op{Kind: "flush"})
				}
				c.Class("clean-restart")
				s.exec(Op{Kind: "restart", Note: "attach the deleted-series set to every index"})
			}
			sel := n.matching(d.Mst, d.Pred)
			all := n.matching(d.Mst, nil)
			switch {
			case len(sel) == 0:
				c.Class("drop-series-selects:none")
			case len(sel) == len(all):
				c.Class("drop-series-selects:all")
			default:
				c.Class("drop-series-selects:some")
			}
			var where []string
			mem, files := false, false
			for _, sd := range sel {
				sk := d.NS + "|" + model.SeriesKeyOf(sd.Mst, sd.Tags)
				mem = mem || s.unflushed[sk]
				files = files || s.inFiles[sk]
			}
			o, u, lv := h.Layout()
			_ = o
			if mem {
				where = append(where, "memtable")
				c.Class("dropped-rows-in:memtable")
			}
			if files {
				where = append(where, "files")
				c.Class("dropped-rows-in:files")
				if u > 0 {
					where = append(where, "unordered-files-present")
					c.Class("dropped-rows-in:files,out-of-order-files-present")
				}
				if lv > 0 {
					where = append(where, "compacted")
					c.Class("dropped-rows-in:files,compacted-files-present")
				}
			}
			if s.restarts+s.kills > 0 {
				where = append(where, "after-restart")
				c.Class("drop-series-after-restart")
			}
			shared := false
			for _, a := range sel {
				for _, b := range all {
					if d.Pred.Match(b.Tags) {
						continue
					}
					if a.Tags["host"] == b.Tags["host"] || (a.Tags["dc"] != "" && a.Tags["dc"] == b.Tags["dc"]) {
						shared = true
					}
				}
			}
			if shared {
				c.Class("dropped-series-shares-a-tag-value-with-a-kept-one")
			}
			if len(sel) > 0 && len(sel) < len(all) && files {
				s.ntOpen = true
				s.ntKeys = append(s.ntKeys, d.SQL(n)+" ["+strings.Join(where, ",")+"]")
			}
			targeted = batteryFor(n, d.Mst, d.Pred)
		} else if d.Kind == "measurement" {
			targeted = batteryFor(n, d.Mst, nil)
		} else {
			for _, m := range allMsts[d.NS] {
				targeted = append(targeted, batteryFor(n, m, nil)[:6]...)
			}
		}
		nDroppedBefore := len(s.droppedKeys)
		s.exec(Op{Kind: "drop", Drop: d})
		freshlyDropped = nil
		if len(s.droppedKeys) > nDroppedBefore {
			freshlyDropped = append(freshlyDropped, s.droppedKeys[nDroppedBefore:]...)
		}
		if d.Kind == "database" && d.NS == "db0" {
			// every read needs the database: re-create first
			s.exec(Op{Kind: "recreate", Drop: d})
		}
		targeted = append(targeted, ReadSpec{Kind: "series", NS: d.NS}, ReadSpec{Kind: "measurements", NS: d.NS})
		if n.RP != "" {
			targeted = targeted[:len(targeted)-2]
			targeted = append(targeted, ReadSpec{Kind: "series", NS: "db0"}, ReadSpec{Kind: "measurements", NS: "db0"})
		}
		s.exec(Op{Kind: "check", Reads: targeted, Note: "right after the drop"})
		if d.Kind == "rp" || (d.Kind == "database" && d.NS != "db0") {
			s.exec(Op{Kind: "recreate", Drop: d})
		}
		// writes to what was just dropped (a re-created measurement / series must behave as a fresh one); for the two-phase drops
		// (marked first, purged by a background loop) once more after the purge had time to finish
		if len(s.droppedKeys) > 0 {
			switch mode := rapid.SampledFrom([]string{"none", "now", "now", "afterPurge", "afterPurge", "both"}).Draw(t, "rewriteMode"); {
			case mode == "now" || d.Kind == "series" && mode != "none":
				rewrite(t)
				reads(t, 2)
			case mode == "afterPurge":
				// nothing touches the dropped name until the background purge is over, then it is written again
				s.exec(Op{Kind: "wait", SettleMs: 2500})
				c.Class("write-to-dropped-name-after-the-purge")
				rewrite(t)
				reads(t, 3)
			case mode == "both":
				rewrite(t)
				reads(t, 2)
				s.exec(Op{Kind: "wait", SettleMs: 2500})
				rewrite(t)
				reads(t, 2)
			}
		}
	}
	kill := func(t *rapid.T) {
		op := Op{Kind: "kill", SettleMs: 6000}
		if s.logHoldsTrouble() {
			// known finding: the log replay re-creates dropped series from their unflushed rows
			c.Excluded("restart-while-rows-of-a-dropped-series-are-only-in-the-log")
			s.exec(Op{Kind: "flush"})
		}
		if s.dropUnsettled {
			// known finding: the deleted-series set is not durable at the acknowledgement
			c.Excluded("kill-9-within-6s-of-drop-series")
		}
		c.Class("kill-9")
		s.exec(op)
	}

	// a first layer of data so that drops have something to act on
	for i, k := 0, rapid.IntRange(1, 3).Draw(t, "k0"); i < k; i++ {
		write(t)
		if rapid.Bool().Draw(t, "flush0") {
			s.exec(Op{Kind: "flush"})
		}
	}
	reads(t, 3)
	t.Repeat(map[string]func(*rapid.T){
		"write":  func(t *rapid.T) { write(t); reads(t, 2) },
		"write2": func(t *rapid.T) { write(t); reads(t, 2) },
		"rewrite": func(t *rapid.T) {
			rewrite(t)
			reads(t, 2)
		},
		"flush": func(t *rapid.T) { s.exec(Op{Kind: "flush"}); reads(t, 2) },
		"reorg": func(t *rapid.T) {
			if h.Flushes == 0 {
				t.Skip("no files")
			}
			s.exec(Op{Kind: "reorg", Cmd: rapid.SampledFrom([]string{"merge", "compact", "all", "full"}).Draw(t, "cmd")})
			reads(t, 3)
		},
		"manyFlushes": func(t *rapid.T) {
			k := rapid.IntRange(3, 9).Draw(t, "k")
			for i := 0; i < k; i++ {
				write(t)
				s.exec(Op{Kind: "flush"})
			}
			s.exec(Op{Kind: "reorg", Cmd: "all"})
			reads(t, 3)
		},
		"restart": func(t *rapid.T) {
			if s.logHoldsTrouble() {
				c.Excluded("restart-while-rows-of-a-dropped-series-are-only-in-the-log")
				s.exec(Op{Kind: "flush"})
			}
			c.Class("clean-restart")
			s.exec(Op{Kind: "restart"})
			reads(t, 2)
		},
		"kill":    func(t *rapid.T) { kill(t); reads(t, 2) },
		"drop":    doDrop,
		"drop2":   doDrop,
		"drop3":   doDrop,
		"reads":   func(t *rapid.T) { reads(t, 4) },
	})
	s.exec(Op{Kind: "fullcheck"})
	if p := h.Srv.PanicInLogs(); p != "" {
		h.Fail("the server logged a panic during the history: %s", p)
	}
	if s.drops > 0 {
		c.Class("history-with-drop")
	}
	if len(s.ntKeys) > 0 {
		nonDirect := 0
		for sh := range s.shapesAfterNT {
			if sh != "rows+tagfilter" {
				nonDirect++
			}
		}
		if nonDirect > 0 {
			c.Nontrivial(map[string]any{"drops": s.ntKeys, "ops": c.Ops()})
			c.Sample(map[string]any{"partial_drops_of_flushed_series": s.ntKeys, "ops": summarize(c.Ops())})
		}
	}
}

func summarize(ops []any) []string {
	var out []string
	for _, o := range ops {
		op, ok := o.(Op)
		if !ok {
			continue
		}
		switch op.Kind {
		case "write":
			out = append(out, fmt.Sprintf("write(%s,%d)", op.NS, len(op.Points)))
		case "reorg":
			out = append(out, "reorg("+op.Cmd+")")
		case "drop":
			db, rp, _ := strings.Cut(op.Drop.NS, ".")
			out = append(out, op.Drop.SQL(&nsState{DB: db, RP: rp}))
		case "check":
			shapes := map[string]bool{}
			for i := range op.Reads {
				shapes[op.Reads[i].Shape()] = true
			}
			var l []string
			for k := range shapes {
				l = append(l, k)
			}
			sort.Strings(l)
			out = append(out, fmt.Sprintf("check(%d reads: %s)", len(op.Reads), strings.Join(l, " ")))
		case "setup":
			out = append(out, "setup("+op.Mode+")")
		default:
			out = append(out, op.Kind)
		}
	}
	if len(out) > 50 {
		out = append(out[:50], fmt.Sprintf("... %d more", len(out)-50))
	}
	return out
}

func TestDropHistories(t *testing.T) {
	rapid.Check(t, ev.Prop(prop, campaign, runHistory))
}

// ---------------------------------------------------------------- replay

type violation struct{ msg string }

func replayHistory(seg, cold string, noExcl bool, graceS int, ops []Op) (err error) {
	c := ev.Begin("replay")
	var h *hist.H
	defer func() {
		if h != nil {
			h.Close()
		}
		if r := recover(); r != nil {
			if v, ok := r.(violation); ok {
				err = fmt.Errorf("%s | executed: %v", v.msg, summarize(c.Ops()))
				return
			}
			panic(r)
		}
	}()
	fail := func(format string, a ...any) { panic(violation{fmt.Sprintf(format, a...)}) }
	h = hist.New(c, 13, knobsFor(seg, cold), fail)
	s := newS(h, c, fail)
	s.noExcl = noExcl
	if graceS > 0 {
		s.grace = time.Duration(graceS) * time.Second
	}
	for _, op := range ops {
		s.exec(op)
	}
	s.fullCheck("end of the replay", false)
	return nil
}

func TestReplay(t *testing.T) {
	ev.RunReplays(func(raw json.RawMessage, f ev.Failure) error {
		var hc struct {
			Seg    string `json:"segrows"`
			Cold   string `json:"cold"`
			NoExcl bool   `json:"no_exclusions"` // replays of known findings evaluate every read
			GraceS int    `json:"grace_s"`       // replays of known findings: shorter grace period than 30 s
		}
		_ = json.Unmarshal(raw, &hc)
		b, _ := json.Marshal(f.Ops)
		var ops []Op
		if err := json.Unmarshal(b, &ops); err != nil {
			return ev.InconclusiveError(err.Error())
		}
		if len(ops) == 0 {
			return ev.InconclusiveError("no ops in the replay file")
		}
		return replayHistory(hc.Seg, hc.Cold, hc.NoExcl, hc.GraceS, ops)
	})
}
