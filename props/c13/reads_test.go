package c13

import (
	"encoding/json"
	"fmt"
	"sort"
	"strconv"
	"strings"

	"verif/internal/bb"
	"verif/internal/hist"
	"verif/internal/model"
)

// ReadSpec is one read of some shape; it is recorded in the op list, so replays re-run it exactly.
type ReadSpec struct {
	Kind  string     `json:"kind"` // rows | agg | series | tagkeys | tagvalues | measurements
	NS    string     `json:"ns"`
	Mst   string     `json:"m,omitempty"` // listings: "" = database level (no FROM)
	Pred  *Pred      `json:"pred,omitempty"`
	FC    *FieldCond `json:"fc,omitempty"`
	Group []string   `json:"group,omitempty"` // tag keys or ["*"]
	Every int        `json:"every,omitempty"` // agg: group by time(<Every>s), needs Range
	Range bool       `json:"range,omitempty"`
	TMin  int64      `json:"tmin,omitempty"` // inclusive
	TMax  int64      `json:"tmax,omitempty"` // exclusive
	Exact bool       `json:"exact,omitempty"` // /*+ Exact_Statistic_Query */
	Field string     `json:"field,omitempty"` // agg: i | f
	Key   string     `json:"key,omitempty"`   // tagvalues
	Desc  bool       `json:"desc,omitempty"`
}

// Shape names the read shape (class counters, non-trivial rule).
func (r *ReadSpec) Shape() string {
	switch r.Kind {
	case "rows":
		s := "rows"
		if r.Pred != nil {
			s += "+tagfilter"
		}
		if r.FC != nil {
			s += "+fieldfilter"
		}
		if len(r.Group) > 0 {
			s += "+groupbytag"
		}
		if s == "rows" {
			s = "rows-plain"
		}
		return s
	case "agg":
		s := "agg"
		if r.Exact {
			s += "-exact"
		}
		if r.Pred != nil {
			s += "+tagfilter"
		}
		if r.FC != nil {
			s += "+fieldfilter"
		}
		if len(r.Group) > 0 {
			s += "+groupbytag"
		}
		if r.Every > 0 {
			s += "+groupbytime"
		}
		return s
	}
	if r.Pred != nil {
		return "show-" + r.Kind + "+where"
	}
	return "show-" + r.Kind
}

// Direct reports whether the read is a plain selection / listing with a tag filter and nothing else.
func (r *ReadSpec) Direct() bool {
	return r.Kind == "rows" && r.Pred != nil && r.FC == nil && len(r.Group) == 0
}

func (r *ReadSpec) where() string {
	var conds []string
	if r.Pred != nil {
		conds = append(conds, r.Pred.SQL())
	}
	if r.FC != nil {
		conds = append(conds, r.FC.SQL())
	}
	if r.Range {
		conds = append(conds, fmt.Sprintf("time >= %d AND time < %d", r.TMin, r.TMax))
	}
	if len(conds) == 0 {
		return ""
	}
	return " WHERE " + strings.Join(conds, " AND ")
}

func (r *ReadSpec) SQL(n *nsState) string {
	switch r.Kind {
	case "rows":
		q := "SELECT * FROM " + n.src(r.Mst) + r.where()
		if len(r.Group) > 0 {
			q += " GROUP BY " + groupList(r.Group, 0)
		}
		if r.Desc {
			q += " ORDER BY time DESC"
		}
		return q
	case "agg":
		f := `"` + r.Field + `"`
		hint := ""
		if r.Exact {
			hint = "/*+ Exact_Statistic_Query */ "
		}
		q := fmt.Sprintf("SELECT %scount(%s), sum(%s), min(%s), max(%s), first(%s), last(%s) FROM %s%s", hint, f, f, f, f, f, f, n.src(r.Mst), r.where())
		if len(r.Group) > 0 || r.Every > 0 {
			q += " GROUP BY " + groupList(r.Group, r.Every)
		}
		return q
	case "series":
		q := "SHOW SERIES"
		if r.Mst != "" {
			q += " FROM " + n.src(r.Mst)
		}
		return q + r.where()
	case "tagkeys":
		return "SHOW TAG KEYS FROM " + n.src(r.Mst)
	case "tagvalues":
		return "SHOW TAG VALUES FROM " + n.src(r.Mst) + ` WITH KEY = "` + r.Key + `"` + r.where()
	case "measurements":
		return "SHOW MEASUREMENTS"
	}
	panic("bad read kind " + r.Kind)
}

func groupList(group []string, every int) string {
	var l []string
	for _, g := range group {
		if g == "*" {
			l = append(l, "*")
		} else {
			l = append(l, `"`+g+`"`)
		}
	}
	if every > 0 {
		l = append(l, fmt.Sprintf("time(%ds)", every))
	}
	return strings.Join(l, ", ")
}

func emptyErr(e string) bool {
	return strings.Contains(e, "not found") || strings.Contains(e, "being delete")
}

// runRead executes the read once and compares it with the model: "" = equal, otherwise the first difference.
func (s *S) runRead(r *ReadSpec) string {
	n := s.w.ns[r.NS]
	if n == nil {
		return "harness: unknown namespace " + r.NS
	}
	res, err := s.h.Srv.Query(n.DB, r.SQL(n), nil)
	if err != nil {
		if !s.h.Srv.Alive() {
			return "server died during the read"
		}
		return "query failed: " + err.Error()
	}
	var series []bb.Series
	if res.Err != "" {
		if !emptyErr(res.Err) {
			return "query error: " + res.Err
		}
	} else if len(res.Results) > 0 {
		series = res.Results[0].Series
	}
	nss := []*nsState{n}
	if r.Mst == "" {
		nss = s.w.ofDB(n.DB)
	}
	switch r.Kind {
	case "rows":
		return cmpRows(series, n.expectRows(r), r)
	case "agg":
		return cmpAgg(series, n.expectAgg(r), r)
	case "series":
		return cmpSet(listing(series, 0, ""), expectSeries(nss, r.Mst, r.Pred), nil, "series")
	case "tagvalues":
		return cmpSet(listing(series, 1, r.Key+"="), expectTagValues(nss, r.Mst, r.Key, r.Pred), nil, "tag value")
	case "tagkeys":
		must, may := expectTagKeys(nss, r.Mst)
		return cmpSet(listing(series, 0, ""), must, may, "tag key")
	case "measurements":
		must, may := expectMeasurements(nss)
		return cmpSet(listing(series, 0, ""), must, may, "measurement")
	}
	return "harness: bad read kind"
}

func listing(series []bb.Series, col int, prefix string) map[string]bool {
	out := map[string]bool{}
	for _, se := range series {
		for _, v := range se.Values {
			if len(v) > col {
				if x, ok := v[col].(string); ok {
					out[prefix+x] = true
				}
			}
		}
	}
	return out
}

// cmpSet: got must contain `must`; everything in got must be in `may` (nil: may = must).
func cmpSet(got, must, may map[string]bool, what string) string {
	if may == nil {
		may = must
	}
	for k := range must {
		if !got[k] {
			return fmt.Sprintf("%s %q missing from the listing: got %s want %s", what, k, setStr(got), setStr(must))
		}
	}
	for k := range got {
		if !may[k] && !must[k] {
			return fmt.Sprintf("%s %q listed but it does not exist in the model: got %s want %s", what, k, setStr(got), setStr(must))
		}
	}
	return ""
}

func cellString(x any, col string) (string, bool, error) {
	if x == nil {
		return "", false, nil
	}
	if k, ok := hist.Kinds[col]; ok {
		v, err := bb.ToValue(x, k)
		if err != nil {
			return "", false, err
		}
		return v.String(), true, nil
	}
	if sv, ok := x.(string); ok { // a tag column
		return sv, true, nil
	}
	return "", false, fmt.Errorf("unknown column %q holds %T %v", col, x, x)
}

func cmpRows(series []bb.Series, exp map[string][]string, r *ReadSpec) string {
	seen := map[string]bool{}
	for _, se := range series {
		gk := model.SeriesKeyOf(se.Name, se.Tags)
		if seen[gk] {
			return "result series " + gk + " returned twice"
		}
		seen[gk] = true
		if len(se.Columns) == 0 || se.Columns[0] != "time" {
			return fmt.Sprintf("first column is not time: %v", se.Columns)
		}
		type tr struct {
			t int64
			s string
		}
		var got []tr
		for _, vals := range se.Values {
			tn, ok := vals[0].(json.Number)
			if !ok {
				return fmt.Sprintf("time is %T", vals[0])
			}
			ts, _ := strconv.ParseInt(tn.String(), 10, 64)
			cols := map[string]string{}
			for ci := 1; ci < len(se.Columns) && ci < len(vals); ci++ {
				cs, ok, err := cellString(vals[ci], se.Columns[ci])
				if err != nil {
					return err.Error()
				}
				if !ok {
					continue
				}
				name := se.Columns[ci]
				if _, isField := hist.Kinds[name]; !isField {
					name = "tag:" + name
				}
				cols[name] = cs
			}
			got = append(got, tr{ts, rowString(ts, cols)})
		}
		for i := 1; i < len(got); i++ {
			if (!r.Desc && got[i].t < got[i-1].t) || (r.Desc && got[i].t > got[i-1].t) {
				return fmt.Sprintf("group %s: rows not ordered by time at index %d", gk, i)
			}
		}
		sort.SliceStable(got, func(i, j int) bool {
			if got[i].t != got[j].t {
				return got[i].t < got[j].t
			}
			return got[i].s < got[j].s
		})
		want := exp[gk]
		if want == nil {
			first := ""
			if len(got) > 0 {
				first = got[0].s
			}
			return fmt.Sprintf("group %s returned (%d rows, first {%s}) but the model has no row for it", gk, len(got), first)
		}
		for i := 0; i < len(got) || i < len(want); i++ {
			if i >= len(got) {
				return fmt.Sprintf("group %s: row missing {%s} (got %d rows, want %d)", gk, want[i], len(got), len(want))
			}
			if i >= len(want) {
				return fmt.Sprintf("group %s: extra row {%s} (got %d rows, want %d)", gk, got[i].s, len(got), len(want))
			}
			if got[i].s != want[i] {
				return fmt.Sprintf("group %s row %d: got {%s} want {%s} (got %d rows, want %d)", gk, i, got[i].s, want[i], len(got), len(want))
			}
		}
	}
	var missing []string
	for gk := range exp {
		if !seen[gk] {
			missing = append(missing, gk)
		}
	}
	if len(missing) > 0 {
		sort.Strings(missing)
		return fmt.Sprintf("group %s missing from the result (%d rows expected, first {%s})", missing[0], len(exp[missing[0]]), exp[missing[0]][0])
	}
	return ""
}

func num(x any) (float64, bool) {
	n, ok := x.(json.Number)
	if !ok {
		return 0, false
	}
	f, err := strconv.ParseFloat(n.String(), 64)
	return f, err == nil
}

func cmpAgg(series []bb.Series, exp map[string]map[int64]*aggExp, r *ReadSpec) string {
	seen := map[string]bool{}
	wantCols := []string{"time", "count", "sum", "min", "max", "first", "last"}
	for _, se := range series {
		gk := model.SeriesKeyOf(se.Name, se.Tags)
		if seen[gk] {
			return "result series " + gk + " returned twice"
		}
		seen[gk] = true
		if strings.Join(se.Columns, ",") != strings.Join(wantCols, ",") {
			return fmt.Sprintf("unexpected columns %v", se.Columns)
		}
		want := exp[gk]
		gotBuckets := map[int64]bool{}
		for _, vals := range se.Values {
			if len(vals) != len(wantCols) {
				return fmt.Sprintf("row with %d cells", len(vals))
			}
			var b int64
			if r.Every > 0 {
				tn, ok := vals[0].(json.Number)
				if !ok {
					return fmt.Sprintf("time is %T", vals[0])
				}
				b, _ = strconv.ParseInt(tn.String(), 10, 64)
			}
			if gotBuckets[b] {
				return fmt.Sprintf("group %s: bucket %d returned twice", gk, b-hist.T0)
			}
			gotBuckets[b] = true
			a := want[b]
			cnt, hasCnt := num(vals[1])
			if a == nil {
				// an empty bucket / empty group: count 0 (or null) and nothing else
				if hasCnt && cnt != 0 {
					return fmt.Sprintf("group %s bucket %d: count=%v but the model has no value there", gk, b-hist.T0, vals[1])
				}
				for ci := 2; ci < len(vals); ci++ {
					if vals[ci] != nil {
						return fmt.Sprintf("group %s bucket %d: %s=%v but the model has no value there", gk, b-hist.T0, wantCols[ci], vals[ci])
					}
				}
				continue
			}
			if !hasCnt || cnt != float64(a.n) {
				return fmt.Sprintf("group %s bucket %d: count=%v want %d", gk, b-hist.T0, vals[1], a.n)
			}
			chk := func(ci int, okf func(float64) bool, wantS string) string {
				v, ok := num(vals[ci])
				if !ok || !okf(v) {
					return fmt.Sprintf("group %s bucket %d: %s=%v want %s", gk, b-hist.T0, wantCols[ci], vals[ci], wantS)
				}
				return ""
			}
			if d := chk(2, func(v float64) bool { return v == a.sum }, fmt.Sprint(a.sum)); d != "" {
				return d
			}
			if d := chk(3, func(v float64) bool { return v == a.min }, fmt.Sprint(a.min)); d != "" {
				return d
			}
			if d := chk(4, func(v float64) bool { return v == a.max }, fmt.Sprint(a.max)); d != "" {
				return d
			}
			if d := chk(5, func(v float64) bool { return a.first[v] }, fmt.Sprint(a.first)); d != "" {
				return d
			}
			if d := chk(6, func(v float64) bool { return a.last[v] }, fmt.Sprint(a.last)); d != "" {
				return d
			}
		}
		for b, a := range want {
			if !gotBuckets[b] {
				return fmt.Sprintf("group %s: bucket %d missing (count %d expected)", gk, b-hist.T0, a.n)
			}
		}
	}
	var missing []string
	for gk := range exp {
		if !seen[gk] {
			missing = append(missing, gk)
		}
	}
	if len(missing) > 0 {
		sort.Strings(missing)
		n := 0
		for _, a := range exp[missing[0]] {
			n += a.n
		}
		return fmt.Sprintf("group %s missing from the aggregate result (count %d expected)", missing[0], n)
	}
	return ""
}
