package c07

// Whole data file round trip: MsBuilder.WriteData per series -> NewTSSPFile, read back through the
// file object the builder returns and through OpenTSSPFile on the closed file: meta index, chunk
// metas (plain, projected, both chunk-meta codecs), every segment of every column, per-segment
// time ranges, file-level id/time ranges, bloom filter and the pre-aggregation statistics.

import (
	"bytes"
	"fmt"
	"math"
	"os"
	"sort"
	"testing"

	"github.com/openGemini/openGemini/engine/comm"
	"github.com/openGemini/openGemini/engine/immutable"
	"github.com/openGemini/openGemini/lib/config"
	"github.com/openGemini/openGemini/lib/fileops"
	"github.com/openGemini/openGemini/lib/record"
	"github.com/openGemini/openGemini/lib/util"
	"github.com/openGemini/openGemini/lib/util/lifted/influx/influxql"
	"github.com/openGemini/openGemini/lib/util/lifted/vm/protoparser/influx"
	"pgregory.net/rapid"
	"verif/internal/ev"
)

type mSeries struct {
	ID  uint64 `json:"id"`
	Rec *mRec  `json:"rec"`
	// Proj is the query schema used for the lookup by id (sorted field names, may name fields the
	// series does not have); empty = all columns.
	Proj []string `json:"proj,omitempty"`
}

// fileCase is the replayable description of one whole-file case.
type fileCase struct {
	Kind       string    `json:"kind"`                 // "data_file"
	SegRows    int       `json:"seg_rows"`             // max rows per segment
	SegRowsRaw bool      `json:"seg_rows_raw"`         // set like [data] max-rows-per-segment (no rounding to a multiple of 8)
	MetaMode   int       `json:"meta_mode"`            // chunk-meta compression when the file is written
	ReadMode   int       `json:"read_mode"`            // chunk-meta compression configured when the file is reopened
	Mmap       bool      `json:"mmap,omitempty"`       // [data] enable-mmap-read
	ReadCache  bool      `json:"read_cache,omitempty"` // data and meta read caches enabled
	Series     []mSeries `json:"series"`
	// Strict also applies the oracle parts left out of the generated campaign for known findings (set in their replay files).
	Strict bool `json:"strict,omitempty"`
}

type fileOutcome struct {
	segments   int
	metaBlocks int
	bigChunks  int
	preaggSkip map[string]int
	excluded   map[string]int // known-finding classes whose oracle part was left out
}

// Known-finding classes whose part of the oracle is left out of the generated run (each has a replay with "strict": true).
const (
	// C07-preagg-sentinel (replays/C07/file_preagg_int_max_sentinel.json, file_preagg_float_inf_sentinel.json): the
	// pre-aggregation builders start from min=MaxInt64/MaxFloat64, max=MinInt64/-MaxFloat64 and only replace them on a strict
	// comparison, so an extreme that equals (or, for +-Inf and NaN, lies beyond) the start value is never recorded.
	exclPreaggSentinel = "pre-agg min/max of a column whose extreme is MaxInt64/MinInt64, +-MaxFloat64 or +-Inf"
	// C07-preagg-bool-null-time (replays/C07/file_preagg_bool_null_time.json)
	exclPreaggBoolTime = "time of the pre-agg min/max of a boolean column that has nulls"
	// C07-preagg-zero-nan-sum (replays/C07/file_preagg_zero_nan_sum.json)
	exclPreaggZeroNaN = "pre-agg sum of a float column holding only zeros and NaN (chunk-meta mode self)"
)

var prio = fileops.IO_PRIORITY_NORMAL

var timeRef = record.Field{Name: record.TimeField, Type: influx.Field_Type_Int}

func checkDataFile(fc *fileCase) (out fileOutcome, err error) {
	out.preaggSkip = map[string]int{}
	out.excluded = map[string]int{}
	defer func() {
		if r := recover(); r != nil {
			err = fmt.Errorf("panic: %v", r)
		}
	}()
	defer immutable.SetChunkMetaCompressMode(immutable.ChunkMetaCompressNone)
	dir, e := os.MkdirTemp("/dev/shm", "c07file-")
	if e != nil {
		return out, ev.InconclusiveError(e.Error())
	}
	defer os.RemoveAll(dir)

	fileops.EnableMmapRead(fc.Mmap)
	defer fileops.EnableMmapRead(false)
	if fc.ReadCache {
		fileops.EnableReadDataCache(32 << 20)
		fileops.EnableReadMetaCache(32 << 20)
		defer fileops.EnableReadDataCache(0)
		defer fileops.EnableReadMetaCache(0)
	}
	immutable.SetChunkMetaCompressMode(fc.MetaMode)
	var conf *immutable.Config
	if fc.SegRowsRaw {
		immutable.SetMaxRowsPerSegment4TsStore(fc.SegRows)
		conf = immutable.NewTsStoreConfig()
		immutable.SetMaxRowsPerSegment4TsStore(0)
	} else {
		conf = immutable.NewTsStoreConfig()
		conf.SetMaxRowsPerSegment(fc.SegRows)
	}
	segRows := conf.GetMaxRowsPerSegment()
	lockPath := ""
	fileName := immutable.NewTSSPFileName(1, 0, 0, 0, true, &lockPath)
	b := immutable.NewMsBuilder(dir, "mst_0000", &lockPath, conf, len(fc.Series), fileName, util.Hot, nil, 2, config.TSSTORE, nil, 0)
	for i := range fc.Series {
		s := &fc.Series[i]
		if e := b.WriteData(s.ID, s.Rec.build()); e != nil {
			return out, fmt.Errorf("WriteData(series %d, %d rows) failed: %v", s.ID, s.Rec.rows(), e)
		}
	}
	f, e := b.NewTSSPFile(false)
	if e != nil || f == nil {
		return out, fmt.Errorf("NewTSSPFile failed: %v (file %v)", e, f)
	}
	path := f.Path()
	if e := verifyFile(fc, f, segRows, "as returned by the builder", &out); e != nil {
		_ = f.Close()
		return out, e
	}
	if e := f.Close(); e != nil {
		return out, fmt.Errorf("close: %v", e)
	}
	immutable.SetChunkMetaCompressMode(fc.ReadMode)
	f2, e := immutable.OpenTSSPFile(path, &lockPath, true)
	if e != nil {
		return out, fmt.Errorf("OpenTSSPFile on the file just written failed: %v", e)
	}
	defer f2.Close()
	out.segments, out.metaBlocks = 0, 0
	if e := verifyFile(fc, f2, segRows, "reopened", &out); e != nil {
		return out, e
	}
	return out, nil
}

func call(name, field string) []*comm.CallOption {
	ref := &influxql.VarRef{Val: field}
	return []*comm.CallOption{{Call: &influxql.Call{Name: name, Args: []influxql.Expr{ref}}, Ref: ref}}
}

func verifyFile(fc *fileCase, f immutable.TSSPFile, segRows int, how string, out *fileOutcome) (err error) {
	wrap := func(e error) error { return fmt.Errorf("file %s: %v", how, e) }
	defer func() {
		if r := recover(); r != nil {
			err = wrap(fmt.Errorf("panic: %v", r))
		}
	}()
	// ---- file level
	fileMin, fileMax := int64(math.MaxInt64), int64(math.MinInt64)
	for i := range fc.Series {
		t := fc.Series[i].Rec.Times
		fileMin, fileMax = min(fileMin, t[0]), max(fileMax, t[len(t)-1])
	}
	if mn, mx, e := f.MinMaxTime(); e != nil || mn != fileMin || mx != fileMax {
		return wrap(fmt.Errorf("file time range [%d,%d] err=%v, want [%d,%d]", mn, mx, e, fileMin, fileMax))
	}
	st := f.FileStat()
	for i := range fc.Series {
		id := fc.Series[i].ID
		if ok, e := f.Contains(id); e != nil || !ok {
			return wrap(fmt.Errorf("Contains(%d) = %v, %v for a series in the file", id, ok, e))
		}
		if !st.ContainsId(id) {
			return wrap(fmt.Errorf("trailer id range does not contain series %d", id))
		}
	}
	if st.ContainsId(fc.Series[0].ID-1) && fc.Series[0].ID > 0 || fc.Series[len(fc.Series)-1].ID < math.MaxUint64 && st.ContainsId(fc.Series[len(fc.Series)-1].ID+1) {
		return wrap(fmt.Errorf("trailer id range is wider than [%d,%d]", fc.Series[0].ID, fc.Series[len(fc.Series)-1].ID))
	}

	// ---- id / last time / row count table (used by the sequencer to classify later writes)
	pairs := &immutable.IdTimePairs{}
	if e := f.LoadIdTimes(pairs); e != nil {
		return wrap(fmt.Errorf("LoadIdTimes: %v", e))
	}
	if len(pairs.Ids) != len(fc.Series) || len(pairs.Tms) != len(fc.Series) || len(pairs.Rows) != len(fc.Series) {
		return wrap(fmt.Errorf("id-time table has %d ids, %d times, %d row counts; %d series written", len(pairs.Ids), len(pairs.Tms), len(pairs.Rows), len(fc.Series)))
	}
	for i := range fc.Series {
		s := &fc.Series[i]
		if pairs.Ids[i] != s.ID || pairs.Tms[i] != s.Rec.Times[s.Rec.rows()-1] || pairs.Rows[i] != int64(s.Rec.rows()) {
			return wrap(fmt.Errorf("id-time table entry %d: id %d last time %d rows %d, want id %d last time %d rows %d", i, pairs.Ids[i], pairs.Tms[i], pairs.Rows[i],
				s.ID, s.Rec.Times[s.Rec.rows()-1], s.Rec.rows()))
		}
	}

	// ---- every meta block, every chunk meta in file order
	ctx := immutable.NewReadContext(true)
	defer ctx.Release()
	dctx := immutable.NewReadContext(false)
	defer dctx.Release()
	si := 0
	nblocks := int(f.MetaIndexItemNum())
	for bi := 0; bi < nblocks; bi++ {
		mi, e := f.MetaIndexAt(bi)
		if e != nil || mi == nil {
			return wrap(fmt.Errorf("MetaIndexAt(%d): %v", bi, e))
		}
		cms, e := f.ReadChunkMetaData(bi, mi, nil, prio)
		if e != nil {
			return wrap(fmt.Errorf("ReadChunkMetaData(block %d): %v", bi, e))
		}
		if len(cms) != int(mi.GetCount()) || len(cms) == 0 {
			return wrap(fmt.Errorf("meta block %d: %d chunk metas, meta index says %d", bi, len(cms), mi.GetCount()))
		}
		if si+len(cms) > len(fc.Series) {
			return wrap(fmt.Errorf("meta blocks hold more chunk metas than series written (%d)", len(fc.Series)))
		}
		if mi.GetID() != fc.Series[si].ID {
			return wrap(fmt.Errorf("meta block %d: first id %d, want %d", bi, mi.GetID(), fc.Series[si].ID))
		}
		bmin, bmax := int64(math.MaxInt64), int64(math.MinInt64)
		for k := range cms {
			t := fc.Series[si+k].Rec.Times
			bmin, bmax = min(bmin, t[0]), max(bmax, t[len(t)-1])
		}
		if !mi.IsExist(util.TimeRange{Min: bmin, Max: bmin}) || !mi.IsExist(util.TimeRange{Min: bmax, Max: bmax}) ||
			(bmin > math.MinInt64 && mi.IsExist(util.TimeRange{Min: math.MinInt64, Max: bmin - 1})) ||
			(bmax < math.MaxInt64 && mi.IsExist(util.TimeRange{Min: bmax + 1, Max: math.MaxInt64})) {
			return wrap(fmt.Errorf("meta block %d: time range of the meta index is not [%d,%d]", bi, bmin, bmax))
		}
		for k := range cms {
			s := &fc.Series[si+k]
			if e := verifyChunk(f, &cms[k], s, allCols(s.Rec), segRows, ctx, dctx, true, out); e != nil {
				return wrap(fmt.Errorf("series %d: %v", s.ID, e))
			}
			if e := verifyPreAgg(f, &cms[k], s, fc.Strict, out); e != nil {
				return wrap(fmt.Errorf("series %d: %v", s.ID, e))
			}
			if e := verifyMetaCodec(&cms[k]); e != nil {
				return wrap(fmt.Errorf("series %d: %v", s.ID, e))
			}
		}
		si += len(cms)
		out.metaBlocks++
	}
	if si != len(fc.Series) {
		return wrap(fmt.Errorf("meta blocks hold %d chunk metas, %d series were written", si, len(fc.Series)))
	}

	// ---- the query path: look every series up by id with a projected schema
	for i := range fc.Series {
		s := &fc.Series[i]
		idx, mi, e := f.MetaIndex(s.ID, record.MinMaxTimeRange)
		if e != nil || mi == nil {
			return wrap(fmt.Errorf("MetaIndex(id %d) = %v, %v", s.ID, mi, e))
		}
		var schema record.Schemas
		var cols []int
		if len(s.Proj) > 0 {
			for _, name := range s.Proj {
				typ := influx.Field_Type_Float
				for ci := range s.Rec.Cols {
					if s.Rec.Cols[ci].Name == name {
						typ = s.Rec.Cols[ci].Type
						cols = append(cols, ci)
					}
				}
				schema = append(schema, record.Field{Name: name, Type: typ})
			}
			schema = append(schema, timeRef)
		} else {
			cols = allCols(s.Rec)
		}
		mctx := immutable.NewChunkMetaContext(schema)
		cm, e := f.ChunkMeta(s.ID, mi.GetOffset(), mi.GetSize(), mi.GetCount(), idx, mctx, prio)
		if e != nil || cm == nil {
			mctx.Release()
			return wrap(fmt.Errorf("ChunkMeta(id %d, projection %v) = %v, %v", s.ID, s.Proj, cm, e))
		}
		if cm.GetSid() != s.ID {
			mctx.Release()
			return wrap(fmt.Errorf("ChunkMeta(id %d) returned the chunk meta of series %d", s.ID, cm.GetSid()))
		}
		e = verifyChunk(f, cm, s, cols, segRows, ctx, dctx, false, out)
		mctx.Release()
		if e != nil {
			return wrap(fmt.Errorf("series %d looked up by id with projection %v: %v", s.ID, s.Proj, e))
		}
		// an id that was not written (between two written ids) must not resolve to a chunk
		if i+1 < len(fc.Series) && fc.Series[i+1].ID-s.ID > 1 {
			absent := s.ID + 1 + (fc.Series[i+1].ID-s.ID-1)/2
			idx, mi, e := f.MetaIndex(absent, record.MinMaxTimeRange)
			if e != nil {
				return wrap(fmt.Errorf("MetaIndex(absent id %d): %v", absent, e))
			}
			if mi != nil {
				cm, e := f.ChunkMeta(absent, mi.GetOffset(), mi.GetSize(), mi.GetCount(), idx, nil, prio)
				if e != nil || cm != nil {
					return wrap(fmt.Errorf("ChunkMeta(id %d that was never written) = sid %v, err %v", absent, cm, e))
				}
			}
		}
	}
	return nil
}

// verifyChunk checks the chunk meta of one series and reads all its segments, restricted to cols.
func verifyChunk(f immutable.TSSPFile, cm *immutable.ChunkMeta, s *mSeries, cols []int, segRows int, ctx, dctx *immutable.ReadContext, full bool, out *fileOutcome) error {
	m := s.Rec
	if cm.GetSid() != s.ID {
		return fmt.Errorf("chunk meta has sid %d", cm.GetSid())
	}
	cm.Validation()
	rows := m.rows()
	wantSegs := (rows + segRows - 1) / segRows
	if cm.SegmentCount() != wantSegs {
		return fmt.Errorf("%d segments for %d rows at %d rows per segment, want %d", cm.SegmentCount(), rows, segRows, wantSegs)
	}
	if mn, mx := cm.MinMaxTime(); mn != m.Times[0] || mx != m.Times[rows-1] {
		return fmt.Errorf("chunk time range [%d,%d], want [%d,%d]", mn, mx, m.Times[0], m.Times[rows-1])
	}
	cmeta := cm.GetColMeta()
	if len(cmeta) != len(cols)+1 {
		return fmt.Errorf("chunk meta has %d columns, want %d", len(cmeta), len(cols)+1)
	}
	schema := make(record.Schemas, 0, len(cols)+1)
	for gi, ci := range cols {
		c := &m.Cols[ci]
		if cmeta[gi].Name() != c.Name || int(cmeta[gi].Type()) != c.Type {
			return fmt.Errorf("column meta %d is %s/%d, want %s/%d", gi, cmeta[gi].Name(), cmeta[gi].Type(), c.Name, c.Type)
		}
		schema = append(schema, record.Field{Name: c.Name, Type: c.Type})
	}
	if !cmeta[len(cols)].IsTime() || cm.TimeMeta().Name() != record.TimeField {
		return fmt.Errorf("last column meta is %q, want time", cmeta[len(cols)].Name())
	}
	schema = append(schema, timeRef)
	if n, e := cm.TimeMeta().RowCount(&timeRef, ctx); e != nil || n != int64(rows) {
		return fmt.Errorf("row count in the time column meta = %d, %v; want %d", n, e, rows)
	}
	if full {
		var size int64
		for i := range cmeta {
			for seg := 0; seg < wantSegs; seg++ {
				sg := cmeta[i].GetSegment(seg)
				_, n := sg.OffsetSize()
				size += int64(n)
			}
		}
		if size >= 64*1024 {
			out.bigChunks++ // read segment by segment instead of as one block
		}
	}
	pos := 0
	for seg := 0; seg < wantSegs; seg++ {
		end := min(pos+segRows, rows)
		tr := cm.GetTimeRangeBy(seg)
		if tr[0] != m.Times[pos] || tr[1] != m.Times[end-1] {
			return fmt.Errorf("segment %d time range [%d,%d], want [%d,%d]", seg, tr[0], tr[1], m.Times[pos], m.Times[end-1])
		}
		rec := record.NewRecordBuilder(append(record.Schemas{}, schema...))
		got, e := f.ReadAt(cm, seg, rec, ctx, prio)
		if e != nil {
			return fmt.Errorf("ReadAt(segment %d): %v", seg, e)
		}
		if len(cols) == 0 {
			// none of the queried fields exists in this series: the reader returns no record
			if got != nil {
				return fmt.Errorf("segment %d: a record of %d rows was returned although none of the queried fields exists", seg, got.RowNums())
			}
			pos = end
			continue
		}
		if e := compareRows(m, cols, pos, end, got, false); e != nil {
			return fmt.Errorf("segment %d (rows %d..%d): %v", seg, pos, end, e)
		}
		if full {
			rec := record.NewRecordBuilder(append(record.Schemas{}, schema...))
			got, e := f.ReadAt(cm, seg, rec, dctx, prio)
			if e != nil {
				return fmt.Errorf("descending ReadAt(segment %d): %v", seg, e)
			}
			if e := compareRows(m, cols, pos, end, got, true); e != nil {
				return fmt.Errorf("segment %d (rows %d..%d) read in descending order: %v", seg, pos, end, e)
			}
			out.segments++
		}
		pos = end
	}
	return nil
}

// verifyMetaCodec round-trips a chunk meta through the self-compressing codec and back to the plain one.
func verifyMetaCodec(cm *immutable.ChunkMeta) error {
	saved := int(immutable.GetChunkMetaCompressMode())
	defer immutable.SetChunkMetaCompressMode(saved)
	immutable.SetChunkMetaCompressMode(immutable.ChunkMetaCompressNone)
	exp, e := immutable.MarshalChunkMeta(nil, cm, nil)
	if e != nil {
		return fmt.Errorf("plain MarshalChunkMeta: %v", e)
	}
	cctx := immutable.GetChunkMetaCodecCtx()
	defer cctx.Release()
	trailer := &immutable.Trailer{}
	trailer.ChunkMetaHeader = &immutable.ChunkMetaHeader{}
	cctx.SetTrailer(trailer)
	immutable.SetChunkMetaCompressMode(immutable.ChunkMetaCompressSelf)
	buf, e := immutable.MarshalChunkMeta(cctx, cm, []byte{0xA5})
	if e != nil {
		return fmt.Errorf("self-compressed MarshalChunkMeta: %v", e)
	}
	trailer.ChunkMetaHeader = cctx.GetHeader()
	other := &immutable.ChunkMeta{}
	rest, e := immutable.UnmarshalChunkMeta(cctx, other, buf[1:])
	if e != nil {
		return fmt.Errorf("UnmarshalChunkMeta of a self-compressed chunk meta: %v", e)
	}
	if len(rest) != 0 {
		return fmt.Errorf("UnmarshalChunkMeta left %d bytes", len(rest))
	}
	other.Validation()
	immutable.SetChunkMetaCompressMode(immutable.ChunkMetaCompressNone)
	got, e := immutable.MarshalChunkMeta(nil, other, nil)
	if e != nil {
		return fmt.Errorf("plain MarshalChunkMeta after the round trip: %v", e)
	}
	if !bytes.Equal(exp, got) {
		return fmt.Errorf("chunk meta changed by the self-compressing codec round trip (sid %d -> %d, %d -> %d bytes)", cm.GetSid(), other.GetSid(), len(exp), len(got))
	}
	// and the plain codec
	third := &immutable.ChunkMeta{}
	if _, e := third.UnmarshalWithColumns(exp, nil); e != nil {
		return fmt.Errorf("plain unmarshal: %v", e)
	}
	got, _ = immutable.MarshalChunkMeta(nil, third, nil)
	if !bytes.Equal(exp, got) {
		return fmt.Errorf("chunk meta changed by the plain codec round trip")
	}
	return nil
}

// verifyPreAgg compares count/sum/min/max (with the time of the extreme) as the readers see them
// (ReadAt with a call option over the whole time range) with values recomputed from the model.
func verifyPreAgg(f immutable.TSSPFile, cm *immutable.ChunkMeta, s *mSeries, strict bool, out *fileOutcome) error {
	m := s.Rec
	for ci := range m.Cols {
		c := &m.Cols[ci]
		cnt := int64(c.nonNull())
		read := func(op string) (*record.ColMeta, error) {
			rc := immutable.NewReadContext(true)
			defer rc.Release()
			rc.Set(true, record.MinMaxTimeRange, false, call(op, c.Name))
			rec := record.NewRecordBuilder(record.Schemas{{Name: c.Name, Type: c.Type}, timeRef})
			got, e := f.ReadAt(cm, 0, rec, rc, prio)
			if e != nil {
				return nil, fmt.Errorf("column %q: reading pre-aggregated %s: %v", c.Name, op, e)
			}
			if got == nil || got.RecMeta == nil || len(got.ColMeta) == 0 {
				return nil, nil
			}
			return &got.ColMeta[0], nil
		}
		// count
		cmeta, e := read("count")
		if e != nil {
			return e
		}
		var gotCnt int64
		if cmeta != nil && cmeta.Count() != nil {
			v, ok := cmeta.Count().(int64)
			if !ok {
				return fmt.Errorf("column %q: pre-aggregated count has type %T", c.Name, cmeta.Count())
			}
			gotCnt = v
		}
		if gotCnt != cnt {
			return fmt.Errorf("column %q (%s): pre-aggregated count %d, column holds %d values", c.Name, typeName(c.Type), gotCnt, cnt)
		}
		if cnt == 0 || c.Type == influx.Field_Type_String {
			continue
		}
		switch c.Type {
		case influx.Field_Type_Int:
			var sum int64
			mn, mx := int64(math.MaxInt64), int64(math.MinInt64)
			var mnT, mxT int64
			first := true
			for r := 0; r < m.rows(); r++ {
				if c.isNull(r) {
					continue
				}
				v := c.I[r]
				sum += v
				if first || v < mn {
					mn, mnT = v, m.Times[r]
				}
				if first || v > mx {
					mx, mxT = v, m.Times[r]
				}
				first = false
			}
			if cmeta, e = read("sum"); e != nil {
				return e
			}
			if cmeta == nil || cmeta.Sum() != sum {
				return fmt.Errorf("column %q (int): pre-aggregated sum %v, want %d", c.Name, metaSum(cmeta), sum)
			}
			if cmeta, e = read("min"); e != nil {
				return e
			}
			if mn == math.MaxInt64 && !strict {
				out.excluded[exclPreaggSentinel]++
			} else if v, tm := metaMin(cmeta); v != mn || tm != mnT {
				return fmt.Errorf("column %q (int, %d values): pre-aggregated min %v at time %d, want %d at %d", c.Name, cnt, v, tm, mn, mnT)
			}
			if cmeta, e = read("max"); e != nil {
				return e
			}
			if (mx == math.MinInt64 || cnt == 1 && mn == math.MaxInt64) && !strict {
				out.excluded[exclPreaggSentinel]++
			} else if v, tm := metaMax(cmeta); v != mx || tm != mxT {
				return fmt.Errorf("column %q (int, %d values): pre-aggregated max %v at time %d, want %d at %d", c.Name, cnt, v, tm, mx, mxT)
			}
		case influx.Field_Type_Float:
			var sum float64
			var mn, mx float64
			var mnT, mxT int64
			haveMn, haveMx := false, false
			for r := 0; r < m.rows(); r++ {
				if c.isNull(r) {
					continue
				}
				v := math.Float64frombits(c.F[r])
				sum += v
				if math.IsNaN(v) {
					continue // NaN has no order: it is never a minimum or maximum
				}
				if !haveMn || v < mn {
					mn, mnT, haveMn = v, m.Times[r], true
				}
				if !haveMx || v > mx {
					mx, mxT, haveMx = v, m.Times[r], true
				}
			}
			if cnt == 1 && (!haveMn || mn >= math.MaxFloat64) && !strict {
				// a single value NaN, MaxFloat64 or +Inf: the one-value form of the statistics stores only the
				// (never replaced) start value of min, so sum and max are derived from it as well
				out.excluded[exclPreaggSentinel]++
				continue
			}
			if cmeta, e = read("sum"); e != nil {
				return e
			}
			gs, ok := metaSum(cmeta).(float64)
			// (C07-preagg-zero-nan-sum, fixed in /repo: no exclusion any more; replays/C07/file_preagg_zero_nan_sum.json is the regression case)
			if !ok || !(gs == sum || math.IsNaN(gs) && math.IsNaN(sum)) {
				return fmt.Errorf("column %q (float): pre-aggregated sum %v, want %v", c.Name, metaSum(cmeta), sum)
			}
			if !haveMn {
				out.preaggSkip["float column of NaN only: min/max undefined"]++
				continue
			}
			if cmeta, e = read("min"); e != nil {
				return e
			}
			if mn >= math.MaxFloat64 && !strict {
				out.excluded[exclPreaggSentinel]++
			} else if v, tm := metaMin(cmeta); v != mn || tm != mnT {
				return fmt.Errorf("column %q (float, %d values): pre-aggregated min %v at time %d, want %v at %d", c.Name, cnt, v, tm, mn, mnT)
			}
			if cmeta, e = read("max"); e != nil {
				return e
			}
			if (mx <= -math.MaxFloat64 || cnt == 1 && mn >= math.MaxFloat64) && !strict {
				out.excluded[exclPreaggSentinel]++
			} else if v, tm := metaMax(cmeta); v != mx || tm != mxT {
				return fmt.Errorf("column %q (float, %d values): pre-aggregated max %v at time %d, want %v at %d", c.Name, cnt, v, tm, mx, mxT)
			}
		case influx.Field_Type_Boolean:
			var mn, mx bool
			var mnT, mxT int64
			first := true
			for r := 0; r < m.rows(); r++ {
				if c.isNull(r) {
					continue
				}
				v := c.B[r]
				if first || (!v && mn) {
					mn, mnT = v, m.Times[r]
				}
				if first || (v && !mx) {
					mx, mxT = v, m.Times[r]
				}
				first = false
			}
			// known finding C07-preagg-bool-null-time (replays/C07/file_preagg_bool_null_time.json): BooleanPreAgg.addValues
			// indexes the time column by the position among the non-null values, so with nulls the time is that of another row
			// (C07-preagg-bool-null-time, fixed in /repo: the time is checked for every column; replays/C07/file_preagg_bool_null_time.json is the regression case)
			timeChecked := true
			if cmeta, e = read("min"); e != nil {
				return e
			}
			if v, tm := metaMin(cmeta); v != mn || (timeChecked && tm != mnT) {
				return fmt.Errorf("column %q (bool, %d values in %d rows): pre-aggregated min %v at time %d, want %v at %d", c.Name, cnt, m.rows(), v, tm, mn, mnT)
			}
			if cmeta, e = read("max"); e != nil {
				return e
			}
			if v, tm := metaMax(cmeta); v != mx || (timeChecked && tm != mxT) {
				return fmt.Errorf("column %q (bool, %d values in %d rows): pre-aggregated max %v at time %d, want %v at %d", c.Name, cnt, m.rows(), v, tm, mx, mxT)
			}
		}
	}
	return nil
}

func metaSum(m *record.ColMeta) any {
	if m == nil {
		return nil
	}
	return m.Sum()
}

func metaMin(m *record.ColMeta) (any, int64) {
	if m == nil {
		return nil, 0
	}
	return m.Min()
}

func metaMax(m *record.ColMeta) (any, int64) {
	if m == nil {
		return nil, 0
	}
	return m.Max()
}

func TestDataFile(t *testing.T) {
	rapid.Check(t, ev.Prop(prop, "data_file", func(t *rapid.T, c *ev.Case) {
		fc := &fileCase{Kind: "data_file"}
		fc.SegRows = rapid.SampledFrom([]int{8, 8, 16, 16, 24, 32, 64, 1000}).Draw(t, "segrows")
		if rapid.IntRange(0, 3).Draw(t, "raw") == 0 {
			fc.SegRowsRaw = true
			fc.SegRows = rapid.SampledFrom([]int{1, 2, 3, 5, 7, 9, 10, 13, 17, 100}).Draw(t, "segrowsraw")
			c.Class("segrows=not_multiple_of_8")
		} else {
			c.Class("segrows=multiple_of_8")
		}
		modes := []int{immutable.ChunkMetaCompressNone, immutable.ChunkMetaCompressSnappy, immutable.ChunkMetaCompressLZ4, immutable.ChunkMetaCompressSelf}
		fc.MetaMode = rapid.SampledFrom(modes).Draw(t, "metamode")
		fc.ReadMode = fc.MetaMode
		if rapid.IntRange(0, 3).Draw(t, "modechange") == 0 {
			fc.ReadMode = rapid.SampledFrom(modes).Draw(t, "readmode")
		}
		c.Class(fmt.Sprintf("chunkmeta_mode=%d", fc.MetaMode))
		if fc.ReadMode != fc.MetaMode {
			c.Class("reopened_under_other_chunkmeta_mode")
		}
		fc.Mmap = rapid.IntRange(0, 3).Draw(t, "mmap") == 3
		fc.ReadCache = rapid.IntRange(0, 3).Draw(t, "readcache") == 3
		if fc.Mmap {
			c.Class("read=mmap")
		}
		if fc.ReadCache {
			c.Class("read=cached")
		}
		nser := rapid.OneOf(rapid.IntRange(1, 4), rapid.IntRange(1, 40)).Draw(t, "nseries")
		id := rapid.OneOf(rapid.Uint64Range(1, 1000), rapid.Uint64Range(1, 1<<62)).Draw(t, "id0")
		maxRows := 300
		if nser > 6 {
			maxRows = 40
		}
		segs := 0
		for i := 0; i < nser; i++ {
			n := rapid.OneOf(rapid.IntRange(1, maxRows), rapid.IntRange(1, 20), rapid.SampledFrom([]int{1, fc.SegRows, fc.SegRows + 1, 2 * fc.SegRows})).Draw(t, "rows")
			if n > 600 {
				n = 600
			}
			s := mSeries{ID: id, Rec: genRecord(t, n, 5, rapid.IntRange(0, 7).Draw(t, "allownull") == 0)}
			if rapid.Bool().Draw(t, "project") {
				for ci := range s.Rec.Cols {
					if rapid.Bool().Draw(t, "keep") {
						s.Proj = append(s.Proj, s.Rec.Cols[ci].Name)
					}
				}
				if rapid.IntRange(0, 2).Draw(t, "ghost") == 0 {
					s.Proj = append(s.Proj, rapid.SampledFrom([]string{"0ghost", "m_missing", "zzzz", "tie"}).Draw(t, "ghostname"))
				}
				sort.Strings(s.Proj)
				if len(s.Proj) > 0 {
					c.Class("lookup=projected")
				}
			}
			fc.Series = append(fc.Series, s)
			id += rapid.OneOf(rapid.Uint64Range(1, 3), rapid.Uint64Range(1, 1<<40)).Draw(t, "idgap")
			ns := (n + fc.SegRows - 1) / fc.SegRows
			if !fc.SegRowsRaw {
				ns = (n + (fc.SegRows+7)/8*8 - 1) / ((fc.SegRows + 7) / 8 * 8)
			}
			segs += ns
			if ns > 1 {
				c.Class("series_multi_segment")
			}
			if n == 1 {
				c.Class("series_one_row")
			}
			for ci := range s.Rec.Cols {
				col := &s.Rec.Cols[ci]
				c.Class("type=" + typeName(col.Type))
				c.Class("nulls=" + col.nullPat)
				if col.nonNull() == 1 {
					c.Class("column_one_value")
				}
			}
		}
		switch {
		case nser == 1:
			c.Class("series=1")
		case nser <= 6:
			c.Class("series<=6")
		default:
			c.Class("series>6")
		}
		out, err := checkDataFile(fc)
		if err != nil {
			if _, inc := err.(ev.InconclusiveError); inc {
				t.Skip(err.Error())
			}
			c.Failf(t, prop, fc, "%v", err)
		}
		if out.bigChunks > 0 {
			c.Class("chunk>=64KiB")
		}
		if out.metaBlocks > 1 {
			c.Class("meta_blocks>1")
		}
		for k := range out.preaggSkip {
			c.Class("preagg_unchecked: " + k)
		}
		for k, n := range out.excluded {
			for i := 0; i < n; i++ {
				c.Excluded(k)
			}
		}
		switch {
		case segs <= 1:
			c.Class("segments=1")
		case segs <= 8:
			c.Class("segments<=8")
		default:
			c.Class("segments>8")
		}
		if segs >= 2 {
			c.Nontrivial(fmt.Sprintf("file|%d|%d|%s", fc.SegRows, fc.MetaMode, ev.Hash(fc.Series)))
			c.Sample(map[string]any{"kind": "data_file", "series": nser, "segments": segs, "seg_rows": fc.SegRows, "chunkmeta_mode": fc.MetaMode,
				"first_series": fmt.Sprintf("id=%d rows=%d cols=%d", fc.Series[0].ID, fc.Series[0].Rec.rows(), len(fc.Series[0].Rec.Cols))})
		}
	}))
}
