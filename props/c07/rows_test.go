package c07

// Row batches as written to the write-ahead log and sent from ts-sql to ts-store:
// influx.FastMarshalMultiRows -> influx.FastUnmarshalMultiRows.

import (
	"bytes"
	"fmt"
	"math"
	"runtime"
	"sort"
	"strconv"
	"strings"
	"sync"
	"testing"

	"github.com/golang/snappy"
	"github.com/openGemini/openGemini/lib/util/lifted/vm/protoparser/influx"
	"pgregory.net/rapid"
	"verif/internal/ev"
)

type mTag struct {
	K []byte `json:"k"`
	V []byte `json:"v"`
}

type mField struct {
	Key  []byte `json:"key"`
	Type int32  `json:"type"`
	Num  uint64 `json:"num"` // bits of NumValue
	Str  []byte `json:"str,omitempty"`
}

type mIdx struct {
	Oid  uint32   `json:"oid"`
	List []uint16 `json:"list"`
}

type mRow struct {
	Name     []byte   `json:"name"`
	Tags     []mTag   `json:"tags"`
	Fields   []mField `json:"fields"`
	Time     int64    `json:"time"`
	ShardKey []byte   `json:"shard_key"`
	Idx      []mIdx   `json:"idx,omitempty"`
	SkipSK   bool     `json:"skip_sk,omitempty"` // Row.SkipMarshalShardKey() was called
}

// rowsCase is the replayable description of one row-batch case.
type rowsCase struct {
	Kind   string `json:"kind"` // "row_batch"
	Rows   []mRow `json:"rows"`
	Reuse  string `json:"reuse"`            // "fresh" | "wal" | "decoder": how the receiver's pools are reused
	Prev   []mRow `json:"prev,omitempty"`   // batch decoded before with the same pools
	Prefix []int  `json:"prefix,omitempty"` // strict prefix lengths to try (nil = all)
}

func (m *mRow) toRow() influx.Row {
	r := influx.Row{Name: string(m.Name), Timestamp: m.Time}
	for _, tg := range m.Tags {
		r.Tags = append(r.Tags, influx.Tag{Key: string(tg.K), Value: string(tg.V)})
	}
	for _, f := range m.Fields {
		r.Fields = append(r.Fields, influx.Field{Key: string(f.Key), Type: f.Type, NumValue: math.Float64frombits(f.Num), StrValue: string(f.Str)})
	}
	r.ShardKey = append([]byte{}, m.ShardKey...)
	for _, ix := range m.Idx {
		r.IndexOptions = append(r.IndexOptions, influx.IndexOption{Oid: ix.Oid, IndexList: append([]uint16{}, ix.List...)})
	}
	if m.SkipSK {
		r.SkipMarshalShardKey()
	}
	return r
}

func modelOfRow(r *influx.Row, skipSK bool) mRow {
	m := mRow{Name: []byte(r.Name), Time: r.Timestamp, ShardKey: append([]byte{}, r.ShardKey...), SkipSK: skipSK}
	for _, tg := range r.Tags {
		m.Tags = append(m.Tags, mTag{K: []byte(tg.Key), V: []byte(tg.Value)})
	}
	for _, f := range r.Fields {
		m.Fields = append(m.Fields, mField{Key: []byte(f.Key), Type: f.Type, Num: math.Float64bits(f.NumValue), Str: []byte(f.StrValue)})
	}
	for _, ix := range r.IndexOptions {
		m.Idx = append(m.Idx, mIdx{Oid: ix.Oid, List: append([]uint16{}, ix.IndexList...)})
	}
	return m
}

// rowEqual compares a decoded row with the model; it returns "" when equal.
func rowEqual(m *mRow, r *influx.Row) string {
	if r.Name != string(m.Name) {
		return fmt.Sprintf("name %q want %q", clip(r.Name), clip(string(m.Name)))
	}
	if r.Timestamp != m.Time {
		return fmt.Sprintf("timestamp %d want %d", r.Timestamp, m.Time)
	}
	wantSK := m.ShardKey
	if m.SkipSK {
		wantSK = nil
	}
	if !bytes.Equal(r.ShardKey, wantSK) {
		return fmt.Sprintf("shard key %q want %q", clip(string(r.ShardKey)), clip(string(wantSK)))
	}
	if len(r.Tags) != len(m.Tags) {
		return fmt.Sprintf("%d tags want %d", len(r.Tags), len(m.Tags))
	}
	for i := range m.Tags {
		if r.Tags[i].Key != string(m.Tags[i].K) || r.Tags[i].Value != string(m.Tags[i].V) || r.Tags[i].IsArray {
			return fmt.Sprintf("tag %d: %q=%q (array %v) want %q=%q", i, clip(r.Tags[i].Key), clip(r.Tags[i].Value), r.Tags[i].IsArray, clip(string(m.Tags[i].K)), clip(string(m.Tags[i].V)))
		}
	}
	if len(r.Fields) != len(m.Fields) {
		return fmt.Sprintf("%d fields want %d", len(r.Fields), len(m.Fields))
	}
	for i := range m.Fields {
		f, w := &r.Fields[i], &m.Fields[i]
		if f.Key != string(w.Key) || f.Type != w.Type {
			return fmt.Sprintf("field %d: %q type %d want %q type %d", i, clip(f.Key), f.Type, clip(string(w.Key)), w.Type)
		}
		if w.Type == influx.Field_Type_String {
			if f.StrValue != string(w.Str) {
				return fmt.Sprintf("field %q: %q want %q", clip(f.Key), clip(f.StrValue), clip(string(w.Str)))
			}
		} else if math.Float64bits(f.NumValue) != w.Num {
			return fmt.Sprintf("field %q: bits %016x want %016x", clip(f.Key), math.Float64bits(f.NumValue), w.Num)
		}
	}
	if len(r.IndexOptions) != len(m.Idx) {
		return fmt.Sprintf("%d index options want %d", len(r.IndexOptions), len(m.Idx))
	}
	for i := range m.Idx {
		if r.IndexOptions[i].Oid != m.Idx[i].Oid || len(r.IndexOptions[i].IndexList) != len(m.Idx[i].List) {
			return fmt.Sprintf("index option %d: oid %d list %v want oid %d list %v", i, r.IndexOptions[i].Oid, r.IndexOptions[i].IndexList, m.Idx[i].Oid, m.Idx[i].List)
		}
		for j := range m.Idx[i].List {
			if r.IndexOptions[i].IndexList[j] != m.Idx[i].List[j] {
				return fmt.Sprintf("index option %d: list %v want %v", i, r.IndexOptions[i].IndexList, m.Idx[i].List)
			}
		}
	}
	// the receiver derives the series key from name and tags
	tags := make(influx.PointTags, 0, len(m.Tags))
	for _, tg := range m.Tags {
		tags = append(tags, influx.Tag{Key: string(tg.K), Value: string(tg.V)})
	}
	if want := influx.MakeIndexKey(string(m.Name), tags, nil); !bytes.Equal(r.IndexKey, want) {
		return fmt.Sprintf("index key %q want %q", clip(string(r.IndexKey)), clip(string(want)))
	}
	return ""
}

// receiver models the reusable decode buffers of the WAL replay (engine/wal.go walRowsObjects)
// and of the store-side request decoder (lib/pointsdecoder DecoderWork).
type receiver struct {
	rows   []influx.Row
	tags   []influx.Tag
	fields []influx.Field
	opts   []influx.IndexOption
	keys   []byte
}

func (rv *receiver) reset(style string) {
	switch style {
	case "wal": // putWalRowsObjects
		rv.rows, rv.tags, rv.fields, rv.opts, rv.keys = rv.rows[:0], rv.tags[:0], rv.fields[:0], rv.opts[:0], rv.keys[:0]
	case "decoder": // DecoderWork.DecodeShardAndRows
		rv.rows, rv.tags, rv.fields, rv.keys = rv.rows[:0], rv.tags[:0], rv.fields[:0], rv.keys[:0]
		for i := range rv.opts {
			rv.opts[i].IndexList = rv.opts[i].IndexList[:0]
		}
		rv.opts = rv.opts[:0]
	}
}

// decode returns the rows, an error, or the panic value and the innermost parser.go frame.
func (rv *receiver) decode(src []byte) (rows []influx.Row, err error, panicked any, site string) {
	defer func() {
		if r := recover(); r != nil {
			panicked = r
			site = panicSite()
		}
	}()
	rv.rows, rv.tags, rv.fields, rv.opts, rv.keys, err = influx.FastUnmarshalMultiRows(src, rv.rows, rv.tags, rv.fields, rv.opts, rv.keys)
	return rv.rows, err, nil, ""
}

var (
	siteCacheMu sync.Mutex
	siteCache   = map[uintptr]string{} // pc -> "file:line func" for frames in parser.go, "-" for others
)

// panicSite returns the innermost frame of the row codec on the panicking stack.
func panicSite() string {
	var pcs [32]uintptr
	n := runtime.Callers(3, pcs[:])
	siteCacheMu.Lock()
	defer siteCacheMu.Unlock()
	for _, pc := range pcs[:n] {
		s, ok := siteCache[pc]
		if !ok {
			s = "-"
			fr, _ := runtime.CallersFrames([]uintptr{pc}).Next()
			if k := strings.Index(fr.File, "lib/util/lifted/vm/protoparser/influx/parser.go"); k >= 0 {
				fn := fr.Function
				if j := strings.LastIndex(fn, "/"); j >= 0 {
					fn = fn[j+1:]
				}
				s = fmt.Sprintf("%s:%d %s", fr.File[k:], fr.Line, fn)
			}
			siteCache[pc] = s
		}
		if s != "-" {
			return s
		}
	}
	return "unknown"
}

var (
	panicSitesMu sync.Mutex
	panicSites   = map[string]int{}
)

func notePanicSite(campaign, site string) {
	panicSitesMu.Lock()
	panicSites[site]++
	cp := make(map[string]int, len(panicSites))
	for k, v := range panicSites {
		cp[k] = v
	}
	panicSitesMu.Unlock()
	ev.Note(campaign, "prefix_panic_sites", cp)
}

type rowsOutcome struct {
	bytes        int
	prefixTried  int
	prefixErr    int
	prefixPanic  int
	panicSites   map[string]int
	prefixAsRows int // strict prefixes decoded without error into a true prefix of the rows
	frameTried   int // cut snappy frames tried
	frameErr     int // ... that were recognised as incomplete (snappy or row decoder error)
}

// checkRowBatch runs the round trip and the prefix property on one case.
func checkRowBatch(rc *rowsCase) (out rowsOutcome, err error) {
	out.panicSites = map[string]int{}
	rows := make([]influx.Row, len(rc.Rows))
	for i := range rc.Rows {
		rows[i] = rc.Rows[i].toRow()
	}
	return checkRowBatchRows(rc, rows)
}

func checkRowBatchRows(rc *rowsCase, rows []influx.Row) (out rowsOutcome, err error) {
	out.panicSites = map[string]int{}
	var enc []byte
	func() {
		defer func() {
			if r := recover(); r != nil {
				err = fmt.Errorf("FastMarshalMultiRows panicked: %v", r)
			}
		}()
		var e error
		enc, e = influx.FastMarshalMultiRows([]byte{0xA5, 0xA5, 0xA5}, rows)
		if e != nil {
			err = fmt.Errorf("FastMarshalMultiRows rejected rows the write path accepts: %v", e)
		}
	}()
	if err != nil {
		return out, err
	}
	if len(enc) < 3 || enc[0] != 0xA5 || enc[1] != 0xA5 || enc[2] != 0xA5 {
		return out, fmt.Errorf("FastMarshalMultiRows clobbered the bytes already in the buffer")
	}
	enc = enc[3:]
	out.bytes = len(enc)

	rv := &receiver{}
	if rc.Reuse != "fresh" && len(rc.Prev) > 0 {
		prev := make([]influx.Row, len(rc.Prev))
		for i := range rc.Prev {
			prev[i] = rc.Prev[i].toRow()
		}
		pb, e := influx.FastMarshalMultiRows(nil, prev)
		if e != nil {
			return out, fmt.Errorf("FastMarshalMultiRows rejected the previous batch: %v", e)
		}
		if _, e, p, site := rv.decode(pb); e != nil || p != nil {
			return out, fmt.Errorf("decoding the previous batch: err=%v panic=%v %s", e, p, site)
		}
		rv.reset(rc.Reuse)
	}
	wire := append([]byte{}, enc...)
	got, e, p, site := rv.decode(wire)
	if p != nil {
		return out, fmt.Errorf("FastUnmarshalMultiRows panicked on a complete batch (receiver buffers: %s): %v at %s", rc.Reuse, p, site)
	}
	if e != nil {
		return out, fmt.Errorf("FastUnmarshalMultiRows failed on a complete batch (receiver buffers: %s): %v", rc.Reuse, e)
	}
	if len(got) != len(rc.Rows) {
		return out, fmt.Errorf("decoded %d rows, encoded %d", len(got), len(rc.Rows))
	}
	for i := range rc.Rows {
		if d := rowEqual(&rc.Rows[i], &got[i]); d != "" {
			return out, fmt.Errorf("row %d (receiver buffers: %s): %s", i, rc.Reuse, d)
		}
	}

	// every strict prefix: error, or a true prefix of the rows - never other rows
	try := rc.Prefix
	if try == nil {
		for n := 0; n < len(enc); n++ {
			try = append(try, n)
		}
	}
	for _, n := range try {
		if n < 0 || n >= len(enc) {
			continue
		}
		out.prefixTried++
		pv := &receiver{}
		src := append(make([]byte, 0, n), enc[:n]...) // exact capacity: reads past the end fault or panic
		prows, e, p, site := pv.decode(src)
		switch {
		case p != nil:
			out.prefixPanic++
			out.panicSites[site]++
		case e != nil:
			out.prefixErr++
		default:
			if len(prows) > len(rc.Rows) {
				return out, fmt.Errorf("prefix of %d/%d bytes decoded without error into %d rows, batch has %d", n, len(enc), len(prows), len(rc.Rows))
			}
			for i := range prows {
				if d := rowEqual(&rc.Rows[i], &prows[i]); d != "" {
					return out, fmt.Errorf("prefix of %d/%d bytes decoded without error into fabricated row %d: %s", n, len(enc), i, d)
				}
			}
			if len(prows) == len(rc.Rows) {
				return out, fmt.Errorf("strict prefix of %d/%d bytes decoded without error into all %d rows", n, len(enc), len(prows))
			}
			out.prefixAsRows++
		}
	}
	// the WAL stores the batch as one snappy block; a record cut short must not decompress into
	// something that decodes into other rows
	comp := snappy.Encode(nil, enc)
	for _, n := range try {
		if n < 0 || n >= len(comp) {
			continue
		}
		out.frameTried++
		dec, e := snappy.Decode(nil, comp[:n:n])
		if e != nil {
			out.frameErr++
			continue
		}
		pv := &receiver{}
		prows, e, p, _ := pv.decode(dec)
		if p != nil || e != nil {
			out.frameErr++
			continue
		}
		if len(prows) >= len(rc.Rows) {
			return out, fmt.Errorf("snappy frame cut to %d/%d bytes decoded without error into %d rows, batch has %d", n, len(comp), len(prows), len(rc.Rows))
		}
		for i := range prows {
			if d := rowEqual(&rc.Rows[i], &prows[i]); d != "" {
				return out, fmt.Errorf("snappy frame cut to %d/%d bytes decoded without error into fabricated row %d: %s", n, len(comp), i, d)
			}
		}
	}
	return out, nil
}

// ---------------------------------------------------------------- generators

const safeAlpha = "abcdefghijklmnopqrstuvwxyzABCDEFGHIJKLMNOPQRSTUVWXYZ0123456789_-."

func genIdent(t *rapid.T, label string, maxLen int) string {
	k := rapid.IntRange(0, 9).Draw(t, label+"kind")
	switch {
	case k == 0:
		return rapid.SampledFrom([]string{"host", "region", "cpu", "usage_idle", "value", "名前", "a", "zz", "dc-1", "x.y"}).Draw(t, label)
	case k == 1 && maxLen > 100:
		return strings.Repeat("n", rapid.SampledFrom([]int{200, 249, 250}).Draw(t, label+"len"))
	default:
		n := rapid.IntRange(1, 12).Draw(t, label+"len")
		b := make([]byte, n)
		for i := range b {
			b[i] = safeAlpha[rapid.IntRange(0, len(safeAlpha)-1).Draw(t, label+"c")]
		}
		if b[0] == '#' {
			b[0] = 'h'
		}
		return string(b)
	}
}

func distinctIdents(t *rapid.T, label string, n, maxLen int, forbid map[string]bool) []string {
	seen := map[string]bool{}
	var out []string
	for tries := 0; len(out) < n && tries < 4*n+8; tries++ {
		s := genIdent(t, label, maxLen)
		if seen[s] || forbid[s] {
			continue
		}
		seen[s] = true
		out = append(out, s)
	}
	return out
}

var hostileNums = []float64{0, math.Copysign(0, -1), 1, -1, math.Inf(1), math.Inf(-1), math.NaN(), math.Float64frombits(0x7ff0000000000002) /* prometheus stale marker */, math.Float64frombits(0xfff8000000000001), math.MaxFloat64, -math.MaxFloat64, math.SmallestNonzeroFloat64, 1e-300, 0.1, 123.456, 1 << 53, 1<<53 + 2}

// genFieldValue returns type, numeric value, string value and the line-protocol text ("" if the
// value cannot be written in line protocol).
func genFieldValue(t *rapid.T) (typ int32, num float64, str string, lp string) {
	switch rapid.IntRange(0, 3).Draw(t, "ftype") {
	case 0:
		v := rapid.OneOf(rapid.Int64(), rapid.SampledFrom(hostileInts), rapid.Int64Range(-100, 100)).Draw(t, "ival")
		return influx.Field_Type_Int, float64(v), "", strconv.FormatInt(v, 10) + "i"
	case 1:
		v := rapid.OneOf(rapid.Float64(), rapid.SampledFrom(hostileNums), rapid.Map(rapid.IntRange(-1000, 1000), func(i int) float64 { return float64(i) / 8 })).Draw(t, "fval")
		if math.IsNaN(v) || math.IsInf(v, 0) {
			return influx.Field_Type_Float, v, "", ""
		}
		return influx.Field_Type_Float, v, "", strconv.FormatFloat(v, 'g', -1, 64)
	case 2:
		b := rapid.Bool().Draw(t, "bval")
		if b {
			return influx.Field_Type_Boolean, 1, "", rapid.SampledFrom([]string{"t", "T", "true", "True", "TRUE"}).Draw(t, "btxt")
		}
		return influx.Field_Type_Boolean, 0, "", rapid.SampledFrom([]string{"f", "F", "false", "False", "FALSE"}).Draw(t, "btxt")
	default:
		var s string
		switch rapid.IntRange(0, 5).Draw(t, "skind") {
		case 0:
			s = ""
		case 1:
			s = strings.Repeat(rapid.SampledFrom([]string{"ab", "x", "log line ", "é"}).Draw(t, "unit"), rapid.IntRange(1, 120).Draw(t, "rep"))
		default:
			s = rapid.StringOfN(rapid.RuneFrom([]rune("abcXYZ 019,=.-_:/éß名")), 0, 30, -1).Draw(t, "sval")
		}
		return influx.Field_Type_String, 0, s, `"` + s + `"`
	}
}

type genRowOut struct {
	row    influx.Row
	lp     string // complete line-protocol line, "" when not expressible
	lpName string
}

func lpEscape(s string) string {
	s = strings.ReplaceAll(s, ",", `\,`)
	s = strings.ReplaceAll(s, " ", `\ `)
	s = strings.ReplaceAll(s, "=", `\=`)
	return s
}

// genBatch draws the rows of one batch: some parsed from generated line protocol with the
// package's own parser, some built directly (the Prometheus remote-write path builds rows directly).
func genBatch(t *rapid.T, c *ev.Case, label string, maxRows int) []mRow {
	n := rapid.OneOf(rapid.IntRange(1, maxRows), rapid.IntRange(1, 4)).Draw(t, label+"nrows")
	msts := distinctIdents(t, label+"mst", rapid.IntRange(1, 3).Draw(t, label+"nmst"), 250, map[string]bool{"": true})
	ver := uint32(rapid.SampledFrom([]int{0, 0, 1, 0xffff}).Draw(t, label+"ver"))
	var out []mRow
	for i := 0; i < n; i++ {
		name := msts[rapid.IntRange(0, len(msts)-1).Draw(t, "mst")]
		tagKeys := distinctIdents(t, "tagk", rapid.IntRange(0, 5).Draw(t, "ntags"), 12, nil)
		fieldKeys := distinctIdents(t, "fieldk", rapid.IntRange(1, 6).Draw(t, "nfields"), 12, map[string]bool{"time": true})
		if len(fieldKeys) == 0 {
			fieldKeys = []string{"value"}
		}
		ts := rapid.OneOf(rapid.Int64Range(0, 1<<62), rapid.Int64Range(0, math.MaxInt64-1), rapid.Int64Range(math.MinInt64+2, math.MaxInt64-1), rapid.Just(int64(1700000000000000000))).Draw(t, "ts")
		if ts < 0 {
			c.Class("ts_negative")
		}
		var row influx.Row
		lpOK := true
		var sb strings.Builder
		sb.WriteString(lpEscape(name))
		var tags influx.PointTags
		for _, k := range tagKeys {
			var v string
			switch rapid.IntRange(0, 250).Draw(t, "tvkind") {
			case 137: // rapid favours the ends of a range: a middle value makes this branch rare
				// 65535 is the longest tag value the parser accepts (C07-tagvalue-65536, fixed in /repo; the replay is the regression case)
				ln := rapid.SampledFrom([]int{255, 256, 65534, 65535}).Draw(t, "tvlen")
				v = strings.Repeat("v", ln)
				c.Class("tagvalue_long")
			default:
				v = genIdent(t, "tagv", 12)
			}
			tags = append(tags, influx.Tag{Key: k, Value: v})
			sb.WriteString("," + lpEscape(k) + "=" + lpEscape(v))
		}
		sb.WriteString(" ")
		var fields influx.Fields
		for j, k := range fieldKeys {
			typ, num, str, lp := genFieldValue(t)
			fields = append(fields, influx.Field{Key: k, Type: typ, NumValue: num, StrValue: str})
			if lp == "" {
				lpOK = false
			}
			if j > 0 {
				sb.WriteString(",")
			}
			sb.WriteString(lpEscape(k) + "=" + lp)
		}
		sb.WriteString(" " + strconv.FormatInt(ts, 10))
		parsed := false
		if lpOK && ts >= 0 && rapid.IntRange(0, 3).Draw(t, "viaparser") != 0 { // the line-protocol parser has no negative timestamps
			var pr influx.PointRows
			if err := pr.Unmarshal(sb.String(), false); err == nil && len(pr.Rows) == 1 {
				row = pr.Rows[0]
				parsed = true
			} else {
				c.Class("lp_rejected_by_parser")
			}
		}
		if !parsed {
			sort.Sort(&tags)
			row = influx.Row{Name: name, Tags: tags, Fields: fields, Timestamp: ts}
			c.Class("row_src=direct")
		} else {
			c.Class("row_src=parser")
		}
		// what the coordinator does before the batch is marshalled
		row.Name = influx.GetNameWithVersion(row.Name, ver)
		sort.Stable(&row.Fields)
		if rapid.IntRange(0, 2).Draw(t, "idxopt") == 0 {
			k := rapid.IntRange(1, 3).Draw(t, "nidx")
			for a := 0; a < k; a++ {
				ln := rapid.SampledFrom([]int{0, 1, 1, 2, 3, 4, 5, 8, 9}).Draw(t, "idxlen")
				lst := make([]uint16, ln)
				for b := range lst {
					lst[b] = uint16(rapid.IntRange(0, len(row.Tags)+len(row.Fields)-1).Draw(t, "idxpos"))
				}
				row.IndexOptions = append(row.IndexOptions, influx.IndexOption{Oid: uint32(rapid.IntRange(0, 6).Draw(t, "oid")), IndexList: lst})
			}
			c.Class("index_options")
		}
		skip := false
		switch rapid.IntRange(0, 3).Draw(t, "skmode") {
		case 0: // no shard key configured: all tags
			_ = row.UnmarshalShardKeyByTag(nil)
		case 1: // shard key = a subset of the tags
			var sub []string
			for _, tg := range row.Tags {
				if rapid.Bool().Draw(t, "skpick") {
					sub = append(sub, tg.Key)
				}
			}
			if err := row.UnmarshalShardKeyByTag(sub); err != nil {
				row.ShardKey = row.ShardKey[:0]
			}
		case 2:
			skip = true
			_ = row.UnmarshalShardKeyByTag(nil)
			row.SkipMarshalShardKey()
			c.Class("shardkey_skipped")
		default:
			row.ShardKey = nil
		}
		for _, f := range row.Fields {
			c.Class("ftype=" + influx.FieldTypeString(f.Type))
			if f.Type == influx.Field_Type_Float && (math.IsNaN(f.NumValue) || math.IsInf(f.NumValue, 0)) {
				c.Class("float_nan_or_inf")
			}
			if f.Type == influx.Field_Type_Int && math.Abs(f.NumValue) >= 1<<62 {
				c.Class("int_extreme")
			}
			if f.Type == influx.Field_Type_String && f.StrValue == "" {
				c.Class("string_empty")
			}
		}
		if len(row.Tags) == 0 {
			c.Class("no_tags")
		}
		out = append(out, modelOfRow(&row, skip))
	}
	return out
}

func hasIdx(rows []mRow) bool {
	for i := range rows {
		if len(rows[i].Idx) > 0 {
			return true
		}
	}
	return false
}

func TestRowBatch(t *testing.T) {
	rapid.Check(t, ev.Prop(prop, "row_batch", func(t *rapid.T, c *ev.Case) {
		rc := &rowsCase{Kind: "row_batch"}
		rc.Rows = genBatch(t, c, "", 12)
		rc.Reuse = rapid.SampledFrom([]string{"fresh", "wal", "decoder"}).Draw(t, "reuse")
		if rc.Reuse != "fresh" {
			rc.Prev = genBatch(t, c, "prev", 6)
			// (C07-indexlist-reuse, fixed in /repo: pools that held index options are reused freely)
			if hasIdx(rc.Rows) && hasIdx(rc.Prev) {
				c.Class("pool_reuse_with_index_options")
			}
		}
		c.Class("receiver=" + rc.Reuse)
		rows := make([]influx.Row, len(rc.Rows))
		size := 0
		for i := range rc.Rows {
			rows[i] = rc.Rows[i].toRow()
			size += len(rc.Rows[i].Name) + 40
			for _, tg := range rc.Rows[i].Tags {
				size += len(tg.K) + len(tg.V) + 4
			}
			for _, f := range rc.Rows[i].Fields {
				size += len(f.Key) + len(f.Str) + 12
			}
		}
		if size > 3000 {
			// long batch: all short prefixes, the tail, and a sample in between
			for n := 0; n < 600; n++ {
				rc.Prefix = append(rc.Prefix, n)
			}
			for k := 0; k < 300; k++ {
				rc.Prefix = append(rc.Prefix, rapid.IntRange(600, size+200).Draw(t, "cut"))
			}
			for n := size - 400; n < size+400; n++ {
				rc.Prefix = append(rc.Prefix, n)
			}
			c.Class("prefixes=sampled")
		} else {
			c.Class("prefixes=all")
		}
		out, err := checkRowBatchRows(rc, rows)
		if err != nil {
			c.Failf(t, prop, rc, "%v", err)
		}
		switch {
		case len(rc.Rows) == 1:
			c.Class("rows=1")
		case len(rc.Rows) <= 4:
			c.Class("rows<=4")
		default:
			c.Class("rows>4")
		}
		if out.prefixPanic > 0 {
			c.Class("prefix_panic")
			for s := range out.panicSites {
				notePanicSite("row_batch", s)
			}
		}
		if out.prefixErr > 0 {
			c.Class("prefix_error")
		}
		if out.frameTried > 0 && out.frameErr == out.frameTried {
			c.Class("cut_snappy_frames_all_recognised")
		}
		if out.prefixAsRows > 0 {
			c.Class("prefix_decoded_as_row_prefix")
		}
		c.Nontrivial(fmt.Sprintf("rows|%s|%s", rc.Reuse, ev.Hash(rc.Rows)))
		c.Sample(map[string]any{"kind": "row_batch", "rows": len(rc.Rows), "bytes": out.bytes, "receiver": rc.Reuse,
			"prefixes_tried": out.prefixTried, "prefix_error": out.prefixErr, "prefix_panic": out.prefixPanic,
			"first_row": fmt.Sprintf("%s tags=%d fields=%d t=%d", clip(string(rc.Rows[0].Name)), len(rc.Rows[0].Tags), len(rc.Rows[0].Fields), rc.Rows[0].Time)})
	}))
}

// ---------------------------------------------------------------- line-protocol driven case (replay of the 65536-byte tag value)

// lpCase is a batch given as one line of line protocol: <measurement>,<tagkey>=<'v' x TagValueLen> <fields> <ts>.
type lpCase struct {
	Kind        string `json:"kind"` // "row_batch_lp"
	Measurement string `json:"measurement"`
	TagKey      string `json:"tag_key"`
	TagValueLen int    `json:"tag_value_len"`
	Fields      string `json:"fields"`
}

// walkBatch walks an encoded batch with bounds checks only (no allocation by counts) and reports
// whether the length fields are consistent with the buffer, i.e. whether it is safe to hand the
// buffer to FastUnmarshalMultiRows.
func walkBatch(b []byte) error {
	need := func(n int) error {
		if n < 0 || len(b) < n {
			return fmt.Errorf("length field points %d bytes past the end of the batch", n-len(b))
		}
		return nil
	}
	u16 := func() int { v := int(b[0])<<8 | int(b[1]); b = b[2:]; return v }
	u32 := func() int { v := int(b[0])<<24 | int(b[1])<<16 | int(b[2])<<8 | int(b[3]); b = b[4:]; return v }
	if err := need(5); err != nil {
		return err
	}
	rows := u32()
	b = b[1:]
	for r := 0; r < rows; r++ {
		if err := need(1); err != nil {
			return err
		}
		n := int(b[0])
		b = b[1:]
		if err := need(n + 4); err != nil {
			return err
		}
		b = b[n:]
		n = u32()
		if err := need(n + 4); err != nil {
			return err
		}
		b = b[n:]
		tags := u32()
		if tags > len(b) {
			return fmt.Errorf("row %d: tag count %d exceeds the batch", r, tags)
		}
		for i := 0; i < 2*tags; i++ {
			if err := need(2); err != nil {
				return err
			}
			n = u16()
			if err := need(n); err != nil {
				return err
			}
			b = b[n:]
		}
		if err := need(4); err != nil {
			return err
		}
		fields := u32()
		if fields > len(b) {
			return fmt.Errorf("row %d: field count %d exceeds the batch (%d bytes left)", r, fields, len(b))
		}
		for i := 0; i < fields; i++ {
			if err := need(2); err != nil {
				return err
			}
			n = u16()
			if err := need(n + 1); err != nil {
				return err
			}
			b = b[n:]
			typ := int32(b[0])
			b = b[1:]
			if typ <= influx.Field_Type_Unknown || typ >= influx.Field_Type_Last {
				return fmt.Errorf("row %d field %d: type byte %d", r, i, typ)
			}
			if err := need(8); err != nil {
				return err
			}
			if typ == influx.Field_Type_String {
				hi, lo := u32(), u32()
				if hi != 0 {
					return fmt.Errorf("row %d field %d: string length exceeds the batch", r, i)
				}
				if err := need(lo); err != nil {
					return err
				}
				b = b[lo:]
			} else {
				b = b[8:]
			}
		}
		if err := need(1); err != nil {
			return err
		}
		has := b[0]
		b = b[1:]
		if has != 'n' {
			if err := need(4); err != nil {
				return err
			}
			k := u32()
			if k > len(b) {
				return fmt.Errorf("row %d: index option count %d exceeds the batch", r, k)
			}
			for i := 0; i < k; i++ {
				if err := need(6); err != nil {
					return err
				}
				b = b[4:]
				n = u16()
				if err := need(2 * n); err != nil {
					return err
				}
				b = b[2*n:]
			}
		}
		if err := need(8); err != nil {
			return err
		}
		b = b[8:]
	}
	if len(b) != 0 {
		return fmt.Errorf("%d bytes left after the last row", len(b))
	}
	return nil
}

func checkLPBatch(lc *lpCase) error {
	line := lc.Measurement + "," + lc.TagKey + "=" + strings.Repeat("v", lc.TagValueLen) + " " + lc.Fields + " 1700000000000000000"
	var pr influx.PointRows
	if err := pr.Unmarshal(line, false); err != nil || len(pr.Rows) != 1 {
		return nil // the write path does not accept this line: nothing to encode
	}
	row := pr.Rows[0]
	row.Name = influx.GetNameWithVersion(row.Name, 0)
	sort.Stable(&row.Fields)
	_ = row.UnmarshalShardKeyByTag([]string{})
	row.ShardKey = row.ShardKey[:0]
	want := modelOfRow(&row, false)
	enc, err := influx.FastMarshalMultiRows(nil, []influx.Row{row})
	if err != nil {
		return fmt.Errorf("FastMarshalMultiRows rejected a row the parser accepted: %v", err)
	}
	if err := walkBatch(enc); err != nil {
		return fmt.Errorf("a row accepted by the line-protocol parser (tag value of %d bytes) is encoded into an inconsistent batch of %d bytes: %v "+
			"(FastUnmarshalMultiRows is not called on it: it would allocate by the misread field count and die with an unrecoverable out-of-memory error)", lc.TagValueLen, len(enc), err)
	}
	rv := &receiver{}
	got, e, p, site := rv.decode(enc)
	if p != nil || e != nil {
		return fmt.Errorf("decode of a complete batch: err=%v panic=%v %s", e, p, site)
	}
	if len(got) != 1 {
		return fmt.Errorf("decoded %d rows, encoded 1", len(got))
	}
	if d := rowEqual(&want, &got[0]); d != "" {
		return fmt.Errorf("row 0: %s", d)
	}
	return nil
}
