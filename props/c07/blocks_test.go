package c07

import (
	"fmt"
	"math"
	"strings"
	"testing"

	"github.com/openGemini/openGemini/lib/encoding"
	"github.com/openGemini/openGemini/lib/util"
	"pgregory.net/rapid"
	"verif/internal/ev"
)

const prop = "C07"

func TestMain(m *testing.M) { ev.Main(m) }

// ---------------------------------------------------------------- generators

var hostileInts = []int64{0, 1, -1, math.MaxInt64, math.MinInt64, math.MaxInt64 - 1, math.MinInt64 + 1, 1 << 59, -(1 << 59), 1<<60 - 1, 1 << 60, 1<<60 + 1, 1 << 62, -(1 << 62), 1 << 31, 1 << 32, 1 << 53}

func genInts(t *rapid.T, label string) ([]int64, string) {
	n := rapid.IntRange(0, 600).Draw(t, label+"n")
	shape := rapid.SampledFrom([]string{"const", "constdelta", "smalldelta", "hostile", "random", "mixed", "bigdelta", "monotone"}).Draw(t, label+"shape")
	vals := make([]int64, n)
	if n == 0 {
		return vals, shape
	}
	base := rapid.OneOf(rapid.Int64(), rapid.SampledFrom(hostileInts), rapid.Int64Range(-1000, 1000)).Draw(t, label+"base")
	switch shape {
	case "const":
		for i := range vals {
			vals[i] = base
		}
	case "constdelta":
		d := rapid.OneOf(rapid.Int64Range(-1000, 1000), rapid.Int64(), rapid.SampledFrom(hostileInts)).Draw(t, label+"d")
		v := base
		for i := range vals {
			vals[i] = v
			v += d // wraps around like the encoder's arithmetic
		}
	case "smalldelta":
		v := base
		for i := range vals {
			vals[i] = v
			v += rapid.Int64Range(-64, 64).Draw(t, "d")
		}
	case "monotone":
		v := base
		for i := range vals {
			vals[i] = v
			v += rapid.Int64Range(0, 1<<20).Draw(t, "d")
		}
	case "bigdelta":
		v := base
		for i := range vals {
			vals[i] = v
			v += rapid.SampledFrom([]int64{1 << 59, 1<<60 - 1, 1 << 60, -(1 << 60), 1 << 61, 3, -3}).Draw(t, "d")
		}
	case "hostile":
		for i := range vals {
			vals[i] = rapid.SampledFrom(hostileInts).Draw(t, "v")
		}
	case "random":
		for i := range vals {
			vals[i] = rapid.Int64().Draw(t, "v")
		}
	default:
		for i := range vals {
			switch rapid.IntRange(0, 3).Draw(t, "k") {
			case 0:
				vals[i] = base
			case 1:
				vals[i] = base + int64(i)
			case 2:
				vals[i] = rapid.SampledFrom(hostileInts).Draw(t, "v")
			default:
				vals[i] = rapid.Int64Range(-5, 5).Draw(t, "v")
			}
		}
	}
	return vals, shape
}

var hostileFloats = []float64{0, math.Copysign(0, -1), 1, -1, math.Inf(1), math.Inf(-1), math.NaN(), math.Float64frombits(0x7ff8000000000001), math.Float64frombits(0xfff0000000000001), math.MaxFloat64, -math.MaxFloat64, math.SmallestNonzeroFloat64, -math.SmallestNonzeroFloat64, 1.5, 2.25, 100, 0.1, 1e-300, 1e300, 4294967296, 4294967295, 123.456}

func genFloats(t *rapid.T, label string) ([]float64, string) {
	n := rapid.IntRange(0, 500).Draw(t, label+"n")
	shape := rapid.SampledFrom([]string{"same", "runs", "fewdecimals", "ints", "random", "hostile", "mixed", "gauge", "fewdistinct"}).Draw(t, label+"shape")
	vals := make([]float64, 0, n)
	switch shape {
	case "same":
		v := rapid.OneOf(rapid.Float64(), rapid.SampledFrom(hostileFloats)).Draw(t, "v")
		for i := 0; i < n; i++ {
			vals = append(vals, v)
		}
	case "runs":
		for len(vals) < n {
			v := rapid.OneOf(rapid.Float64(), rapid.SampledFrom(hostileFloats), rapid.Map(rapid.IntRange(-20, 20), func(i int) float64 { return float64(i) / 4 })).Draw(t, "v")
			k := rapid.IntRange(1, 40).Draw(t, "k")
			for j := 0; j < k && len(vals) < n; j++ {
				vals = append(vals, v)
			}
		}
	case "fewdistinct":
		pool := rapid.SliceOfN(rapid.OneOf(rapid.Float64(), rapid.SampledFrom(hostileFloats)), 1, 9).Draw(t, "pool")
		for i := 0; i < n; i++ {
			vals = append(vals, pool[rapid.IntRange(0, len(pool)-1).Draw(t, "i")])
		}
	case "fewdecimals":
		for i := 0; i < n; i++ {
			vals = append(vals, float64(rapid.IntRange(-100000, 100000).Draw(t, "v"))/100)
		}
	case "ints":
		for i := 0; i < n; i++ {
			vals = append(vals, float64(rapid.Int64Range(-1<<40, 1<<40).Draw(t, "v")))
		}
	case "gauge":
		v := rapid.Float64Range(-1e6, 1e6).Draw(t, "v0")
		for i := 0; i < n; i++ {
			vals = append(vals, v)
			v += rapid.Float64Range(-1, 1).Draw(t, "d")
		}
	case "hostile":
		for i := 0; i < n; i++ {
			vals = append(vals, rapid.SampledFrom(hostileFloats).Draw(t, "v"))
		}
	case "random":
		for i := 0; i < n; i++ {
			vals = append(vals, math.Float64frombits(rapid.Uint64().Draw(t, "bits")))
		}
	default:
		for i := 0; i < n; i++ {
			switch rapid.IntRange(0, 3).Draw(t, "k") {
			case 0:
				vals = append(vals, rapid.SampledFrom(hostileFloats).Draw(t, "v"))
			case 1:
				vals = append(vals, float64(rapid.IntRange(-1000, 1000).Draw(t, "v"))/8)
			case 2:
				vals = append(vals, rapid.Float64().Draw(t, "v"))
			default:
				vals = append(vals, float64(i))
			}
		}
	}
	return vals, shape
}

func genStrings(t *rapid.T, label string) ([]string, string) {
	n := rapid.IntRange(0, 300).Draw(t, label+"n")
	shape := rapid.SampledFrom([]string{"empty", "short", "repetitive", "incompressible", "mixed", "long", "same"}).Draw(t, label+"shape")
	vals := make([]string, n)
	switch shape {
	case "empty":
	case "short":
		for i := range vals {
			vals[i] = rapid.StringN(0, 12, -1).Draw(t, "s")
		}
	case "same":
		s := rapid.StringN(0, 40, -1).Draw(t, "s")
		for i := range vals {
			vals[i] = s
		}
	case "repetitive":
		unit := rapid.StringN(1, 8, -1).Draw(t, "u")
		for i := range vals {
			vals[i] = strings.Repeat(unit, rapid.IntRange(0, 60).Draw(t, "r"))
		}
	case "incompressible":
		for i := range vals {
			vals[i] = string(rapid.SliceOfN(rapid.Byte(), 0, 200).Draw(t, "b"))
		}
	case "long":
		for i := range vals {
			if rapid.IntRange(0, 20).Draw(t, "big") == 0 {
				vals[i] = strings.Repeat(rapid.StringN(1, 16, -1).Draw(t, "u"), rapid.IntRange(1000, 5000).Draw(t, "r"))
			} else {
				vals[i] = rapid.StringN(0, 30, -1).Draw(t, "s")
			}
		}
	default:
		for i := range vals {
			switch rapid.IntRange(0, 3).Draw(t, "k") {
			case 0:
				vals[i] = ""
			case 1:
				vals[i] = string(rapid.SliceOfN(rapid.Byte(), 0, 40).Draw(t, "b"))
			case 2:
				vals[i] = strings.Repeat("ab", rapid.IntRange(0, 100).Draw(t, "r"))
			default:
				vals[i] = rapid.String().Draw(t, "s")
			}
		}
	}
	return vals, shape
}

func sizeClass(n int) string {
	switch {
	case n == 0:
		return "n=0"
	case n < 3:
		return "n<3"
	case n <= 4:
		return "n<=4"
	case n <= 240:
		return "n<=240"
	default:
		return "n>240"
	}
}

// ---------------------------------------------------------------- block round trips

func TestIntBlock(t *testing.T) {
	rapid.Check(t, ev.Prop(prop, "int_block", func(t *rapid.T, c *ev.Case) {
		vals, shape := genInts(t, "")
		prefix := rapid.SliceOfN(rapid.Byte(), 0, 3).Draw(t, "outprefix")
		c.Class("shape=" + shape)
		c.Class(sizeClass(len(vals)))
		ctx := encoding.NewCoderContext()
		defer ctx.Release()
		out, err := encoding.EncodeIntegerBlock(util.Int64Slice2byte(vals), append([]byte{}, prefix...), ctx)
		if err != nil {
			c.Failf(t, prop, map[string]any{"kind": "int_block", "vals": vals}, "encoder rejected accepted values: %v", err)
		}
		if string(out[:len(prefix)]) != string(prefix) {
			c.Failf(t, prop, map[string]any{"kind": "int_block", "vals": vals}, "encoder clobbered the bytes already in the output buffer")
		}
		out = out[len(prefix):]
		if len(vals) == 0 {
			return
		}
		mode := out[0] >> 4
		c.Class(fmt.Sprintf("mode=%d", mode))
		var buf []byte
		got, err := encoding.DecodeIntegerBlock(out, &buf, ctx)
		if err != nil {
			c.Failf(t, prop, map[string]any{"kind": "int_block", "vals": vals}, "decode error %v (mode %d)", err, mode)
		}
		if len(got) != len(vals) {
			c.Failf(t, prop, map[string]any{"kind": "int_block", "vals": vals}, "decoded %d values, encoded %d (mode %d)", len(got), len(vals), mode)
		}
		for i := range vals {
			if got[i] != vals[i] {
				c.Failf(t, prop, map[string]any{"kind": "int_block", "vals": vals}, "value %d: got %d want %d (mode %d)", i, got[i], vals[i], mode)
			}
		}
		if len(vals) >= 2 {
			c.Nontrivial(fmt.Sprintf("int|%s|%d|%s", shape, mode, ev.Hash(vals)))
			c.Sample(map[string]any{"kind": "int_block", "shape": shape, "n": len(vals), "mode": mode, "head": head(vals, 6)})
		}
	}))
}

func TestTimeBlock(t *testing.T) {
	rapid.Check(t, ev.Prop(prop, "time_block", func(t *rapid.T, c *ev.Case) {
		vals, shape := genInts(t, "")
		if rapid.Bool().Draw(t, "regular") && len(vals) > 0 {
			// the common case: regular / jittered sampling
			step := rapid.SampledFrom([]int64{1, 1000, 1e6, 1e9, 10e9, 60e9, 7}).Draw(t, "step")
			jit := rapid.Bool().Draw(t, "jitter")
			v := rapid.Int64Range(0, 1<<61).Draw(t, "t0")
			for i := range vals {
				vals[i] = v
				v += step
				if jit {
					v += rapid.Int64Range(0, 3).Draw(t, "j")
				}
			}
			shape = "regular"
			if jit {
				shape = "jitter"
			}
		}
		c.Class("shape=" + shape)
		c.Class(sizeClass(len(vals)))
		ctx := encoding.NewCoderContext()
		defer ctx.Release()
		out, err := encoding.EncodeTimestampBlock(util.Int64Slice2byte(vals), nil, ctx)
		if err != nil {
			c.Failf(t, prop, map[string]any{"kind": "time_block", "vals": vals}, "encoder rejected accepted values: %v", err)
		}
		if len(vals) == 0 {
			return
		}
		mode := out[0] >> 4
		c.Class(fmt.Sprintf("mode=%d", mode))
		var buf []byte
		got, err := encoding.DecodeTimestampBlock(out, &buf, ctx)
		if err != nil {
			c.Failf(t, prop, map[string]any{"kind": "time_block", "vals": vals}, "decode error %v (mode %d)", err, mode)
		}
		if len(got) != len(vals) {
			c.Failf(t, prop, map[string]any{"kind": "time_block", "vals": vals}, "decoded %d values, encoded %d (mode %d)", len(got), len(vals), mode)
		}
		for i := range vals {
			if got[i] != vals[i] {
				c.Failf(t, prop, map[string]any{"kind": "time_block", "vals": vals}, "value %d: got %d want %d (mode %d)", i, got[i], vals[i], mode)
			}
		}
		if len(vals) >= 2 {
			c.Nontrivial(fmt.Sprintf("time|%s|%d|%s", shape, mode, ev.Hash(vals)))
			c.Sample(map[string]any{"kind": "time_block", "shape": shape, "n": len(vals), "mode": mode, "head": head(vals, 6)})
		}
	}))
}

func floatBits(v []float64) []string {
	o := make([]string, len(v))
	for i := range v {
		o[i] = fmt.Sprintf("%016x", math.Float64bits(v[i]))
	}
	return o
}

func checkFloatBlock(vals []float64) (mode int, err error) {
	defer func() {
		if r := recover(); r != nil {
			err = fmt.Errorf("panic: %v", r)
		}
	}()
	ctx := encoding.NewCoderContext()
	defer ctx.Release()
	out, e := encoding.EncodeFloatBlock(util.Float64Slice2byte(vals), nil, ctx)
	if e != nil {
		return -1, fmt.Errorf("encoder rejected accepted values: %v", e)
	}
	if len(vals) == 0 {
		return -1, nil
	}
	mode = int(out[0] >> 4)
	var buf []byte
	got, e := encoding.DecodeFloatBlock(out, &buf, ctx)
	if e != nil {
		return mode, fmt.Errorf("decode error %v (mode %d)", e, mode)
	}
	if len(got) != len(vals) {
		return mode, fmt.Errorf("decoded %d values, encoded %d (mode %d)", len(got), len(vals), mode)
	}
	for i := range vals {
		if math.Float64bits(got[i]) != math.Float64bits(vals[i]) {
			return mode, fmt.Errorf("value %d: got bits %016x want %016x (mode %d)", i, math.Float64bits(got[i]), math.Float64bits(vals[i]), mode)
		}
	}
	return mode, nil
}

func TestFloatBlock(t *testing.T) {
	rapid.Check(t, ev.Prop(prop, "float_block", func(t *rapid.T, c *ev.Case) {
		vals, shape := genFloats(t, "")
		c.Class("shape=" + shape)
		c.Class(sizeClass(len(vals)))
		mode, err := checkFloatBlock(vals)
		if err != nil {
			c.Failf(t, prop, map[string]any{"kind": "float_block", "bits": floatBits(vals)}, "%v", err)
		}
		if len(vals) == 0 {
			return
		}
		c.Class(fmt.Sprintf("mode=%d", mode))
		if len(vals) >= 2 {
			c.Nontrivial(fmt.Sprintf("float|%s|%d|%s", shape, mode, ev.Hash(floatBits(vals))))
			c.Sample(map[string]any{"kind": "float_block", "shape": shape, "n": len(vals), "mode": mode, "head": fmt.Sprint(head(vals, 6))})
		}
	}))
}

func TestBoolBlock(t *testing.T) {
	rapid.Check(t, ev.Prop(prop, "bool_block", func(t *rapid.T, c *ev.Case) {
		n := rapid.IntRange(0, 700).Draw(t, "n")
		shape := rapid.SampledFrom([]string{"alltrue", "allfalse", "alternate", "random"}).Draw(t, "shape")
		vals := make([]bool, n)
		for i := range vals {
			switch shape {
			case "alltrue":
				vals[i] = true
			case "alternate":
				vals[i] = i%2 == 0
			case "random":
				vals[i] = rapid.Bool().Draw(t, "b")
			}
		}
		c.Class("shape=" + shape)
		c.Class(sizeClass(n))
		ctx := encoding.NewCoderContext()
		defer ctx.Release()
		out, err := encoding.EncodeBooleanBlock(util.BooleanSlice2byte(vals), nil, ctx)
		if err != nil {
			c.Failf(t, prop, map[string]any{"kind": "bool_block", "vals": vals}, "encoder error: %v", err)
		}
		if n == 0 {
			return
		}
		var buf []byte
		got, err := encoding.DecodeBooleanBlock(out, &buf, ctx)
		if err != nil {
			c.Failf(t, prop, map[string]any{"kind": "bool_block", "vals": vals}, "decode error %v", err)
		}
		if len(got) != n {
			c.Failf(t, prop, map[string]any{"kind": "bool_block", "vals": vals}, "decoded %d values, encoded %d", len(got), n)
		}
		for i := range vals {
			if got[i] != vals[i] {
				c.Failf(t, prop, map[string]any{"kind": "bool_block", "vals": vals}, "value %d differs", i)
			}
		}
		if n >= 2 {
			c.Nontrivial(fmt.Sprintf("bool|%s|%s", shape, ev.Hash(vals)))
			c.Sample(map[string]any{"kind": "bool_block", "shape": shape, "n": n})
		}
	}))
}

func checkStringBlock(vals []string) (mode int, err error) {
	defer func() {
		if r := recover(); r != nil {
			err = fmt.Errorf("panic: %v", r)
		}
	}()
	var data []byte
	var offs []uint32
	for _, s := range vals {
		offs = append(offs, uint32(len(data)))
		data = append(data, s...)
	}
	ctx := encoding.NewCoderContext()
	defer ctx.Release()
	out, e := encoding.EncodeStringBlock(data, offs, nil, ctx)
	if e != nil {
		return -1, fmt.Errorf("encoder error: %v", e)
	}
	if len(vals) == 0 {
		return -1, nil
	}
	mode = int(out[0] >> 4)
	var dst []byte
	var dstOff []uint32
	gotData, gotOff, e := encoding.DecodeStringBlock(out, &dst, &dstOff, ctx)
	if e != nil {
		return mode, fmt.Errorf("decode error %v (mode %d)", e, mode)
	}
	if len(gotOff) != len(vals) {
		return mode, fmt.Errorf("decoded %d strings, encoded %d (mode %d)", len(gotOff), len(vals), mode)
	}
	for i := range vals {
		end := len(gotData)
		if i+1 < len(gotOff) {
			end = int(gotOff[i+1])
		}
		if int(gotOff[i]) > end || end > len(gotData) {
			return mode, fmt.Errorf("string %d: bad offsets %d..%d of %d", i, gotOff[i], end, len(gotData))
		}
		if string(gotData[gotOff[i]:end]) != vals[i] {
			return mode, fmt.Errorf("string %d: got %q want %q (mode %d)", i, clip(string(gotData[gotOff[i]:end])), clip(vals[i]), mode)
		}
	}
	return mode, nil
}

func clip(s string) string {
	if len(s) > 80 {
		return s[:80] + "..."
	}
	return s
}

func TestStringBlock(t *testing.T) {
	rapid.Check(t, ev.Prop(prop, "string_block", func(t *rapid.T, c *ev.Case) {
		vals, shape := genStrings(t, "")
		c.Class("shape=" + shape)
		c.Class(sizeClass(len(vals)))
		mode, err := checkStringBlock(vals)
		if err != nil {
			c.Failf(t, prop, map[string]any{"kind": "string_block", "vals": vals}, "%v", err)
		}
		if len(vals) == 0 {
			return
		}
		c.Class(fmt.Sprintf("mode=%d", mode))
		if len(vals) >= 2 {
			c.Nontrivial(fmt.Sprintf("string|%s|%d|%s", shape, mode, ev.Hash(vals)))
			c.Sample(map[string]any{"kind": "string_block", "shape": shape, "n": len(vals), "mode": mode})
		}
	}))
}

func head[T any](v []T, n int) []T {
	if len(v) > n {
		return v[:n]
	}
	return v
}
