package c07

import (
	"encoding/json"
	"fmt"
	"math"
	"strconv"
	"testing"

	"verif/internal/ev"
)

type replayCase struct {
	Kind string   `json:"kind"`
	Bits []string `json:"bits"`
	Strs []string `json:"vals_str"`
}

func TestReplay(t *testing.T) {
	ev.RunReplays(func(raw json.RawMessage, f ev.Failure) error {
		var rc replayCase
		if err := json.Unmarshal(raw, &rc); err != nil {
			return ev.InconclusiveError(err.Error())
		}
		switch rc.Kind {
		case "float_block":
			vals := make([]float64, len(rc.Bits))
			for i, b := range rc.Bits {
				u, err := strconv.ParseUint(b, 16, 64)
				if err != nil {
					return ev.InconclusiveError(err.Error())
				}
				vals[i] = math.Float64frombits(u)
			}
			_, err := checkFloatBlock(vals)
			return err
		default:
			return replayOther(rc.Kind, raw)
		}
	})
}

func replayOther(kind string, raw json.RawMessage) error {
	switch kind {
	case "record_codec":
		var rc recordCase
		if err := json.Unmarshal(raw, &rc); err != nil || rc.Rec == nil {
			return ev.InconclusiveError(fmt.Sprintf("bad record_codec case: %v", err))
		}
		return checkRecordCodec(&rc)
	case "row_batch":
		var rc rowsCase
		if err := json.Unmarshal(raw, &rc); err != nil || len(rc.Rows) == 0 {
			return ev.InconclusiveError(fmt.Sprintf("bad row_batch case: %v", err))
		}
		_, err := checkRowBatch(&rc)
		return err
	case "row_batch_lp":
		var lc lpCase
		if err := json.Unmarshal(raw, &lc); err != nil || lc.Measurement == "" {
			return ev.InconclusiveError(fmt.Sprintf("bad row_batch_lp case: %v", err))
		}
		return checkLPBatch(&lc)
	case "data_file":
		var fc fileCase
		if err := json.Unmarshal(raw, &fc); err != nil || len(fc.Series) == 0 {
			return ev.InconclusiveError(fmt.Sprintf("bad data_file case: %v", err))
		}
		_, err := checkDataFile(&fc)
		return err
	}
	return ev.InconclusiveError(fmt.Sprintf("no replayer for kind %q", kind))
}
