package c07

import (
	"encoding/json"
	"fmt"
	"math"
	"strconv"
	"testing"

	"verif/internal/ev"
)

type replayCase struct {
	Kind string   `json:"kind"`
	Bits []string `json:"bits"`
	Strs []string `json:"vals_str"`
}

func TestReplay(t *testing.T) {
	ev.RunReplays(func(raw json.RawMessage, f ev.Failure) error {
		var rc replayCase
		if err := json.Unmarshal(raw, &rc); err != nil {
			return ev.InconclusiveError(err.Error())
		}
		switch rc.Kind {
		case "float_block":
			vals := make([]float64, len(rc.Bits))
			for i, b := range rc.Bits {
				u, err := strconv.ParseUint(b, 16, 64)
				if err != nil {
					return ev.InconclusiveError(err.Error())
				}
				vals[i] = math.Float64frombits(u)
			}
			_, err := checkFloatBlock(vals)
			return err
		default:
			return replayOther(rc.Kind, raw)
		}
	})
}

func replayOther(kind string, raw json.RawMessage) error {
	return ev.InconclusiveError(fmt.Sprintf("no replayer for kind %q", kind))
}
