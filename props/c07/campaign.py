from campaigns_util import B

SPEC = {
    "pkg": "props/c07", "level": "exploration",
    "rule": ("column blocks: rapid shape generators per column type (constant, constant delta, small/large deltas, int64 extremes; floats: same, runs, "
             "few decimals, integers, NaN payloads, +-Inf, -0, subnormals; strings: empty, repetitive, incompressible, long) -> encode -> decode "
             "must be bit-identical; non-trivial = >= 2 values; distinct = hash of (shape, encoder mode byte, values). "
             "record_codec: records of 0..300 rows, 1..6 columns of all four types, null patterns none/all/alternating/random/sparse/dense/blocks, "
             "whole or sliced (aligned/unaligned), decoded into a fresh or a reused record: schema, every value, every null flag; non-trivial = >= 2 rows. "
             "row_batch: 1..12 rows parsed from generated line protocol by the package's parser or built directly (NaN/Inf, int64 extremes), shaped as the "
             "coordinator does (name with version, sorted tags/fields, shard key, index options), decoded into fresh or reused receiver pools (WAL-replay and "
             "store-request styles): all row attributes bitwise; every strict prefix must give an error, a (counted) panic or a true prefix of the rows; "
             "every case is non-trivial (>= 1 row, all prefixes tried or sampled for long batches). "
             "data_file: 1..40 series of 1..600 rows written with MsBuilder at 1..1000 rows per segment under each chunk-meta compression mode, read through the "
             "builder's file object and after reopening: meta index, chunk metas (plain, projected lookup by id, both chunk-meta codecs), every segment of every "
             "column ascending and descending, segment/chunk/file time ranges, id range, bloom filter, pre-aggregated count/sum/min/max with times against values "
             "recomputed from the generated record; non-trivial = >= 2 segments in the file"),
    "assumptions": ["exported codec entry points are the ones the engine calls (CoderContext reuse as in the column builder)",
                    "records handed to MsBuilder.WriteData are sorted by time with unique timestamps and ascending series ids (what a flush produces)",
                    "column segment encode/decode (ColumnBuilder.EncodeColumn / decodeColumnData) is not drivable from outside the package on its own and is "
                    "covered through the whole-file round trip",
                    "a panic of FastUnmarshalMultiRows on a truncated batch is counted (class prefix_panic, sites in notes) but not failed: in the WAL path a "
                    "truncated record is caught earlier by the snappy frame"],
    "campaigns": [
        {"name": "int_block", "run": "^TestIntBlock$", "quick": B(6000, 2), "thorough": B(90000, 2, 3000)},
        {"name": "time_block", "run": "^TestTimeBlock$", "quick": B(6000, 2), "thorough": B(90000, 2, 3000)},
        {"name": "float_block", "run": "^TestFloatBlock$", "quick": B(6000, 2), "thorough": B(90000, 2, 3000)},
        {"name": "bool_block", "run": "^TestBoolBlock$", "quick": B(4000, 1), "thorough": B(30000, 1, 3000)},
        {"name": "string_block", "run": "^TestStringBlock$", "quick": B(4000, 2), "thorough": B(45000, 2, 3000)},
        {"name": "record_codec", "run": "^TestRecordCodec$", "quick": B(8000, 1), "thorough": B(120000, 1, 3000)},
        {"name": "row_batch", "run": "^TestRowBatch$", "quick": B(2400, 3), "thorough": B(15000, 3, 3000)},
        {"name": "data_file", "run": "^TestDataFile$", "quick": B(2400, 3), "thorough": B(25000, 3, 3000)},
    ],
    "fuzz": [
        {"target": "FuzzFloatBlock", "seconds": 60},
        {"target": "FuzzIntBlock", "seconds": 60},
        {"target": "FuzzStringBlock", "seconds": 60},
        {"target": "FuzzRowBatch", "seconds": 60},
    ],
}

META = {
    "engine": "lib-rapid",
    "technique": "property-based round-trip testing (rapid shape generators per encoder branch; whole-file and row-batch round trips; native go fuzz in thorough)",
    "text": ("Generated columns/records/row batches/data files are encoded and decoded through the exported codec entry points and must come back bit-identical "
             "(values, nulls, order, time ranges, statistics); truncated row batches must never decode into other rows; encoder-mode and shape coverage is "
             "measured. Exploration: finds counterexamples, never proves absence."),
    "note": ("Trusts Go's math.Float64bits comparison and the harness' own structural comparison and recomputation of the statistics (sequential float sum, first "
             "occurrence of the extreme). Known-finding classes are left out of the generated run and listed under excluded_by_construction; each has a replay."),
}
