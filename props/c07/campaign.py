from campaigns_util import B

SPEC = {
    "pkg": "props/c07", "level": "exploration",
    "rule": ("rapid shape generators per column type (constant, constant delta, small/large deltas, int64 extremes; floats: same, runs, "
             "few decimals, integers, NaN payloads, +-Inf, -0, subnormals; strings: empty, repetitive, incompressible, long) -> encode -> decode "
             "must be bit-identical; a case is non-trivial when it has >= 2 values; distinct = hash of (shape, encoder mode byte, values)"),
    "assumptions": ["exported codec entry points are the ones the engine calls (CoderContext reuse as in the column builder)"],
    "campaigns": [
        {"name": "int_block", "run": "^TestIntBlock$", "quick": B(3000, 2), "thorough": B(60000, 3, 3000)},
        {"name": "time_block", "run": "^TestTimeBlock$", "quick": B(3000, 2), "thorough": B(60000, 3, 3000)},
        {"name": "float_block", "run": "^TestFloatBlock$", "quick": B(3000, 2), "thorough": B(60000, 3, 3000)},
        {"name": "bool_block", "run": "^TestBoolBlock$", "quick": B(2000, 1), "thorough": B(30000, 1, 3000)},
        {"name": "string_block", "run": "^TestStringBlock$", "quick": B(2000, 2), "thorough": B(30000, 3, 3000)},
    ],
}

META = {
    "engine": "lib-rapid",
    "technique": "property-based round-trip testing (rapid shape generators per encoder branch; native go fuzz in thorough)",
    "text": ("Generated columns/records/row batches are encoded and decoded through the exported codec entry points and must come back bit-identical; "
             "encoder-mode coverage is measured. Exploration: finds counterexamples, never proves absence."),
    "note": "Trusts Go's math.Float64bits comparison and the harness' own structural comparison; whole-file and WAL-frame parts are covered to the extent the evidence lists.",
}
