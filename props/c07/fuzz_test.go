package c07

// Native fuzz targets (thorough tier: `go test -fuzz`). Each target carries its own oracle
// (round trip, and for row batches the prefix property) and is seeded with hostile constants.

import (
	"encoding/binary"
	"fmt"
	"math"
	"sort"
	"testing"

	"github.com/openGemini/openGemini/lib/encoding"
	"github.com/openGemini/openGemini/lib/util"
	"github.com/openGemini/openGemini/lib/util/lifted/vm/protoparser/influx"
)

func floatsToBytes(v []float64) []byte {
	b := make([]byte, 0, 8*len(v))
	for _, x := range v {
		b = binary.LittleEndian.AppendUint64(b, math.Float64bits(x))
	}
	return b
}

func intsToBytes(v []int64) []byte {
	b := make([]byte, 0, 8*len(v))
	for _, x := range v {
		b = binary.LittleEndian.AppendUint64(b, uint64(x))
	}
	return b
}

func repeatF(v float64, n int) []float64 {
	o := make([]float64, n)
	for i := range o {
		o[i] = v
	}
	return o
}

// FuzzFloatBlock: the input is read as 8-byte groups, each the bits of one float64 of a column block.
func FuzzFloatBlock(f *testing.F) {
	f.Add(floatsToBytes(hostileFloats))
	f.Add(floatsToBytes(repeatF(math.Copysign(0, -1), 9)))
	f.Add(floatsToBytes([]float64{1, 1.5, 1, 0, 1, 0, math.Inf(1), 0, math.Inf(-1)}))
	f.Add(floatsToBytes(append(repeatF(2.5, 40), math.NaN(), math.Float64frombits(0x7ff0000000000002), 2.5, 2.5, 2.5)))
	f.Add(floatsToBytes([]float64{0.1, 0.2, 0.30000000000000004, 1e-300, 1e300, 123.456, 100, 4294967296, 4294967295}))
	f.Add(floatsToBytes([]float64{1, 2, 3, 4, 5, 6, 7, 8, 9, 10, 11, 12, 13, 14, 15, 16, 17}))
	f.Fuzz(func(t *testing.T, b []byte) {
		n := len(b) / 8
		if n > 4096 {
			n = 4096
		}
		vals := make([]float64, n)
		for i := range vals {
			vals[i] = math.Float64frombits(binary.LittleEndian.Uint64(b[8*i:]))
		}
		if _, err := checkFloatBlock(vals); err != nil {
			t.Fatalf("float block of %d values %v: %v", n, floatBits(head(vals, 40)), err)
		}
	})
}

func checkIntLikeBlock(vals []int64, timestamps bool) (err error) {
	defer func() {
		if r := recover(); r != nil {
			err = fmt.Errorf("panic: %v", r)
		}
	}()
	ctx := encoding.NewCoderContext()
	defer ctx.Release()
	var out []byte
	var e error
	if timestamps {
		out, e = encoding.EncodeTimestampBlock(util.Int64Slice2byte(vals), nil, ctx)
	} else {
		out, e = encoding.EncodeIntegerBlock(util.Int64Slice2byte(vals), nil, ctx)
	}
	if e != nil {
		return fmt.Errorf("encoder rejected accepted values: %v", e)
	}
	if len(vals) == 0 {
		return nil
	}
	var buf []byte
	var got []int64
	if timestamps {
		got, e = encoding.DecodeTimestampBlock(out, &buf, ctx)
	} else {
		got, e = encoding.DecodeIntegerBlock(out, &buf, ctx)
	}
	if e != nil {
		return fmt.Errorf("decode error %v (mode %d)", e, out[0]>>4)
	}
	if len(got) != len(vals) {
		return fmt.Errorf("decoded %d values, encoded %d (mode %d)", len(got), len(vals), out[0]>>4)
	}
	for i := range vals {
		if got[i] != vals[i] {
			return fmt.Errorf("value %d: got %d want %d (mode %d)", i, got[i], vals[i], out[0]>>4)
		}
	}
	return nil
}

// FuzzIntBlock: 8-byte groups are int64 values; the first byte selects the integer or the timestamp codec
// and whether the values are taken as they are or as deltas (so that the fuzzer reaches sorted inputs).
func FuzzIntBlock(f *testing.F) {
	f.Add(byte(0), intsToBytes(hostileInts))
	f.Add(byte(1), intsToBytes(hostileInts))
	f.Add(byte(2), intsToBytes([]int64{1700000000000000000, 1e9, 1e9, 1e9, 1e9, 1e9, 1e9, 1e9 + 1, 1e9, 1e9}))
	f.Add(byte(3), intsToBytes([]int64{math.MinInt64, math.MaxInt64, math.MaxInt64, 1, 1 << 60, 1<<60 - 1, 1<<60 + 1, -(1 << 60)}))
	f.Add(byte(0), intsToBytes([]int64{5, 5, 5, 5, 5, 5, 5, 5, 5}))
	f.Add(byte(1), intsToBytes([]int64{0, 1, 2, 3, 4, 5, 6, 7, 8, 9, 10, 11, 12, 13, 14, 15, 16, 17, 18, 19, 20, 21, 22, 23, 24, 25, 26, 27, 28, 29, 30, 31, 32}))
	f.Fuzz(func(t *testing.T, sel byte, b []byte) {
		n := len(b) / 8
		if n > 4096 {
			n = 4096
		}
		vals := make([]int64, n)
		var acc int64
		for i := range vals {
			v := int64(binary.LittleEndian.Uint64(b[8*i:]))
			if sel&2 != 0 {
				acc += v
				v = acc
			}
			vals[i] = v
		}
		if err := checkIntLikeBlock(vals, sel&1 != 0); err != nil {
			t.Fatalf("block (timestamps=%v) of %d values %v: %v", sel&1 != 0, n, head(vals, 40), err)
		}
	})
}

// FuzzStringBlock: data is cut into strings at the lengths given by cuts (one byte per string).
func FuzzStringBlock(f *testing.F) {
	f.Add([]byte("hello world hello world hello world"), []byte{5, 1, 5, 1, 5, 1, 5, 1, 5, 6})
	f.Add([]byte{}, []byte{0, 0, 0, 0, 0, 0, 0, 0, 0})
	f.Add([]byte("aaaaaaaaaaaaaaaaaaaaaaaaaaaaaaaaaaaaaaaaaaaaaaaaaaaaaaaaaaaaaaaaaaaaaaaaaaaaaaaaaaaaaaaaaaaa"), []byte{0, 255, 0})
	f.Add([]byte{0, 1, 2, 3, 4, 5, 6, 7, 8, 9, 250, 251, 252, 253, 254, 255, 0x80, 0xff, 0xfe}, []byte{1, 2, 3, 4, 5, 0, 0, 4})
	f.Add([]byte("x"), []byte{1})
	f.Fuzz(func(t *testing.T, data []byte, cuts []byte) {
		if len(cuts) > 2048 {
			cuts = cuts[:2048]
		}
		if len(data) > 1<<20 {
			data = data[:1<<20]
		}
		vals := make([]string, 0, len(cuts))
		for _, c := range cuts {
			k := int(c)
			if k > len(data) {
				k = len(data)
			}
			vals = append(vals, string(data[:k]))
			data = data[k:]
		}
		if len(vals) > 0 {
			vals[len(vals)-1] += string(data) // the rest goes to the last string (long values)
		}
		if _, err := checkStringBlock(vals); err != nil {
			t.Fatalf("string block of %d strings: %v", len(vals), err)
		}
	})
}

// FuzzRowBatch builds 1..4 rows from the arguments the way the write path shapes them (sorted
// tags and fields, measurement name with version), marshals them and checks the round trip and
// every strict prefix (error, panic - counted only -, or a true prefix of the rows; never other rows).
func FuzzRowBatch(f *testing.F) {
	f.Add("cpu", "host", "a", "region", "eu", "usage", byte(3), math.Float64bits(1.5), "", "n", byte(1), uint64(0), "", int64(1700000000000000000), []byte("cpu_0000,host=a"), uint32(0), []byte{}, byte(0))
	f.Add("m", "", "", "", "", "f", byte(4), uint64(0), "", "g", byte(4), uint64(0), "some text, with = and \" and \\", int64(0), []byte{}, uint32(2), []byte{0, 1, 0, 2}, byte(3))
	f.Add("名前", "k", "v", "k2", "v2", "nan", byte(3), uint64(0x7ff0000000000002), "", "inf", byte(3), math.Float64bits(math.Inf(-1)), "", int64(math.MaxInt64-1), []byte{0, 0, 0}, uint32(4294967295), []byte{255, 255, 0, 0, 1, 1, 2, 2, 3, 3}, byte(1))
	f.Add("x", "t", "1", "u", "2", "i", byte(1), math.Float64bits(float64(math.MinInt64)), "", "b", byte(5), math.Float64bits(1), "", int64(math.MinInt64+2), []byte("x_0000"), uint32(1), []byte{0, 0}, byte(2))
	f.Fuzz(func(t *testing.T, name, tk1, tv1, tk2, tv2, fk1 string, ft1 byte, num1 uint64, str1 string, fk2 string, ft2 byte, num2 uint64, str2 string,
		ts int64, sk []byte, oid uint32, idx []byte, nrows byte) {
		clipS := func(s string, n int) string {
			if len(s) > n {
				return s[:n]
			}
			return s
		}
		name = clipS(name, 250)
		if name == "" {
			name = "m"
		}
		fk1, fk2 = clipS(fk1, 255), clipS(fk2, 255)
		if fk1 == "" {
			fk1 = "f"
		}
		if fk2 == "" || fk2 == fk1 {
			fk2 = fk1 + "2"
		}
		str1, str2 = clipS(str1, 1<<16), clipS(str2, 1<<16)
		ftype := func(b byte) int32 {
			return []int32{influx.Field_Type_Int, influx.Field_Type_Float, influx.Field_Type_String, influx.Field_Type_Boolean}[b%4]
		}
		var tags influx.PointTags
		// tag values of 65536 bytes and more are the known finding C07-tagvalue-65536 / rejected by the parser
		if tk1 != "" && tv1 != "" {
			tags = append(tags, influx.Tag{Key: clipS(tk1, 255), Value: clipS(tv1, 65535)})
		}
		if tk2 != "" && tv2 != "" && clipS(tk2, 255) != clipS(tk1, 255) {
			tags = append(tags, influx.Tag{Key: clipS(tk2, 255), Value: clipS(tv2, 65535)})
		}
		sort.Sort(&tags)
		if len(idx) > 64 {
			idx = idx[:64]
		}
		n := int(nrows%4) + 1
		rows := make([]influx.Row, n)
		rc := &rowsCase{Kind: "row_batch", Reuse: "fresh"}
		for i := range rows {
			r := &rows[i]
			r.Name = influx.GetNameWithVersion(name, uint32(i))
			r.Tags = append(influx.PointTags{}, tags...)
			mk := func(k string, ft byte, num uint64, str string) influx.Field {
				fd := influx.Field{Key: k, Type: ftype(ft)}
				switch fd.Type {
				case influx.Field_Type_String:
					fd.StrValue = str
				case influx.Field_Type_Boolean:
					fd.NumValue = float64(num & 1)
				case influx.Field_Type_Int:
					fd.NumValue = float64(int64(num) + int64(i))
				default:
					fd.NumValue = math.Float64frombits(num + uint64(i))
				}
				return fd
			}
			r.Fields = influx.Fields{mk(fk1, ft1, num1, str1), mk(fk2, ft2, num2, str2)}
			sort.Stable(&r.Fields)
			r.Timestamp = ts + int64(i)
			if i%2 == 0 {
				r.ShardKey = append([]byte{}, sk...)
			}
			if len(idx) >= 2 && i != 1 {
				lst := make([]uint16, 0, len(idx)/2)
				for k := 0; k+1 < len(idx); k += 2 {
					lst = append(lst, uint16(idx[k])<<8|uint16(idx[k+1]))
				}
				r.IndexOptions = influx.IndexOptions{{Oid: oid, IndexList: lst}}
				if oid%3 == 0 {
					r.IndexOptions = append(r.IndexOptions, influx.IndexOption{Oid: oid + 1, IndexList: lst[:len(lst)/2]})
				}
			}
			rc.Rows = append(rc.Rows, modelOfRow(r, false))
		}
		if _, err := checkRowBatchRows(rc, rows); err != nil {
			t.Fatalf("%v", err)
		}
	})
}
