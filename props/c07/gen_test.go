package c07

// Generated records shared by the record-codec and the whole-file round trips: a plain model
// (values and null flags per row), the construction of a record.Record from it the way the
// write path does (row-wise appends), and the logical comparison of a decoded record with it.

import (
	"fmt"
	"math"
	"sort"
	"strings"

	"github.com/openGemini/openGemini/lib/record"
	"github.com/openGemini/openGemini/lib/util/lifted/vm/protoparser/influx"
	"pgregory.net/rapid"
)

// mCol is one generated column. Values of null rows are ignored.
type mCol struct {
	Name string   `json:"name"`
	Type int      `json:"type"`
	Null string   `json:"null"` // one byte per row: '1' = null
	I    []int64  `json:"i,omitempty"`
	F    []uint64 `json:"f,omitempty"` // float bits
	S    [][]byte `json:"s,omitempty"`
	B    []bool   `json:"b,omitempty"`

	nullPat string
	shape   string
}

type mRec struct {
	Cols  []mCol  `json:"cols"`
	Times []int64 `json:"times"`
}

func (c *mCol) isNull(i int) bool { return c.Null[i] == '1' }

func (c *mCol) nonNull() int { return len(c.Null) - strings.Count(c.Null, "1") }

func (m *mRec) rows() int { return len(m.Times) }

func typeName(t int) string {
	switch t {
	case influx.Field_Type_Int:
		return "int"
	case influx.Field_Type_Float:
		return "float"
	case influx.Field_Type_String:
		return "string"
	case influx.Field_Type_Boolean:
		return "bool"
	}
	return fmt.Sprint(t)
}

// ---------------------------------------------------------------- value generators of a given length

func intsN(t *rapid.T, n int) ([]int64, string) {
	shape := rapid.SampledFrom([]string{"const", "constdelta", "smalldelta", "hostile", "random", "mixed", "bigdelta"}).Draw(t, "ishape")
	vals := make([]int64, n)
	if n == 0 {
		return vals, shape
	}
	base := rapid.OneOf(rapid.Int64(), rapid.SampledFrom(hostileInts), rapid.Int64Range(-1000, 1000)).Draw(t, "ibase")
	switch shape {
	case "const":
		for i := range vals {
			vals[i] = base
		}
	case "constdelta":
		d := rapid.OneOf(rapid.Int64Range(-1000, 1000), rapid.Int64(), rapid.SampledFrom(hostileInts)).Draw(t, "id")
		v := base
		for i := range vals {
			vals[i] = v
			v += d
		}
	case "smalldelta":
		v := base
		for i := range vals {
			vals[i] = v
			v += rapid.Int64Range(-64, 64).Draw(t, "d")
		}
	case "bigdelta":
		v := base
		for i := range vals {
			vals[i] = v
			v += rapid.SampledFrom([]int64{1 << 59, 1<<60 - 1, 1 << 60, -(1 << 60), 1 << 61, 3, -3}).Draw(t, "d")
		}
	case "hostile":
		for i := range vals {
			vals[i] = rapid.SampledFrom(hostileInts).Draw(t, "v")
		}
	case "random":
		for i := range vals {
			vals[i] = rapid.Int64().Draw(t, "v")
		}
	default:
		for i := range vals {
			switch rapid.IntRange(0, 3).Draw(t, "k") {
			case 0:
				vals[i] = base
			case 1:
				vals[i] = base + int64(i)
			case 2:
				vals[i] = rapid.SampledFrom(hostileInts).Draw(t, "v")
			default:
				vals[i] = rapid.Int64Range(-5, 5).Draw(t, "v")
			}
		}
	}
	return vals, shape
}

func floatsN(t *rapid.T, n int) ([]uint64, string) {
	shape := rapid.SampledFrom([]string{"same", "runs", "fewdecimals", "ints", "random", "hostile", "mixed", "gauge"}).Draw(t, "fshape")
	vals := make([]float64, 0, n)
	switch shape {
	case "same":
		v := rapid.OneOf(rapid.Float64(), rapid.SampledFrom(hostileFloats)).Draw(t, "v")
		for i := 0; i < n; i++ {
			vals = append(vals, v)
		}
	case "runs":
		for len(vals) < n {
			v := rapid.OneOf(rapid.Float64(), rapid.SampledFrom(hostileFloats), rapid.Map(rapid.IntRange(-20, 20), func(i int) float64 { return float64(i) / 4 })).Draw(t, "v")
			k := rapid.IntRange(1, 40).Draw(t, "k")
			for j := 0; j < k && len(vals) < n; j++ {
				vals = append(vals, v)
			}
		}
	case "fewdecimals":
		for i := 0; i < n; i++ {
			vals = append(vals, float64(rapid.IntRange(-100000, 100000).Draw(t, "v"))/100)
		}
	case "ints":
		for i := 0; i < n; i++ {
			vals = append(vals, float64(rapid.Int64Range(-1<<40, 1<<40).Draw(t, "v")))
		}
	case "gauge":
		v := rapid.Float64Range(-1e6, 1e6).Draw(t, "v0")
		for i := 0; i < n; i++ {
			vals = append(vals, v)
			v += rapid.Float64Range(-1, 1).Draw(t, "d")
		}
	case "hostile":
		for i := 0; i < n; i++ {
			vals = append(vals, rapid.SampledFrom(hostileFloats).Draw(t, "v"))
		}
	case "random":
		for i := 0; i < n; i++ {
			vals = append(vals, math.Float64frombits(rapid.Uint64().Draw(t, "bits")))
		}
	default:
		for i := 0; i < n; i++ {
			switch rapid.IntRange(0, 3).Draw(t, "k") {
			case 0:
				vals = append(vals, rapid.SampledFrom(hostileFloats).Draw(t, "v"))
			case 1:
				vals = append(vals, float64(rapid.IntRange(-1000, 1000).Draw(t, "v"))/8)
			case 2:
				vals = append(vals, rapid.Float64().Draw(t, "v"))
			default:
				vals = append(vals, float64(i))
			}
		}
	}
	out := make([]uint64, n)
	for i := range vals {
		out[i] = math.Float64bits(vals[i])
	}
	return out, shape
}

func stringsN(t *rapid.T, n int) ([][]byte, string) {
	shape := rapid.SampledFrom([]string{"empty", "short", "repetitive", "incompressible", "mixed", "long", "same", "bulk"}).Draw(t, "sshape")
	vals := make([][]byte, n)
	for i := range vals {
		vals[i] = []byte{}
	}
	switch shape {
	case "empty":
	case "short":
		for i := range vals {
			vals[i] = []byte(rapid.StringN(0, 12, -1).Draw(t, "s"))
		}
	case "same":
		s := rapid.StringN(0, 40, -1).Draw(t, "s")
		for i := range vals {
			vals[i] = []byte(s)
		}
	case "repetitive":
		unit := rapid.StringN(1, 8, -1).Draw(t, "u")
		for i := range vals {
			vals[i] = []byte(strings.Repeat(unit, rapid.IntRange(0, 30).Draw(t, "r")))
		}
	case "incompressible":
		for i := range vals {
			vals[i] = rapid.SliceOfN(rapid.Byte(), 0, 60).Draw(t, "b")
		}
	case "bulk":
		// several hundred incompressible bytes per row (chunks beyond the 64 KiB single-read limit); the bytes are a fixed
		// function of a drawn seed, so the case stays a function of the rapid draws
		seed := rapid.Uint64().Draw(t, "bulkseed")
		ln := rapid.IntRange(200, 900).Draw(t, "bulklen")
		for i := range vals {
			vals[i] = expandBytes(seed+uint64(i)*0x9e3779b97f4a7c15, ln+i%7)
		}
	case "long":
		for i := range vals {
			if rapid.IntRange(0, 60).Draw(t, "big") == 0 {
				vals[i] = []byte(strings.Repeat(rapid.StringN(1, 16, -1).Draw(t, "u"), rapid.IntRange(500, 3000).Draw(t, "r")))
			} else {
				vals[i] = []byte(rapid.StringN(0, 30, -1).Draw(t, "s"))
			}
		}
	default:
		for i := range vals {
			switch rapid.IntRange(0, 3).Draw(t, "k") {
			case 0:
			case 1:
				vals[i] = rapid.SliceOfN(rapid.Byte(), 0, 40).Draw(t, "b")
			case 2:
				vals[i] = []byte(strings.Repeat("ab", rapid.IntRange(0, 50).Draw(t, "r")))
			default:
				vals[i] = []byte(rapid.StringN(0, 20, -1).Draw(t, "s"))
			}
		}
	}
	for i := range vals {
		if vals[i] == nil {
			vals[i] = []byte{}
		}
	}
	return vals, shape
}

func boolsN(t *rapid.T, n int) ([]bool, string) {
	shape := rapid.SampledFrom([]string{"alltrue", "allfalse", "alternate", "random"}).Draw(t, "bshape")
	vals := make([]bool, n)
	for i := range vals {
		switch shape {
		case "alltrue":
			vals[i] = true
		case "alternate":
			vals[i] = i%2 == 0
		case "random":
			vals[i] = rapid.Bool().Draw(t, "b")
		}
	}
	return vals, shape
}

// nullsN draws a null pattern; allowAll=false never makes every row null.
func nullsN(t *rapid.T, n int, allowAll bool) (string, string) {
	pats := []string{"none", "none", "alternating", "random", "sparse", "dense", "blocks"}
	if allowAll {
		pats = append(pats, "all")
	}
	pat := rapid.SampledFrom(pats).Draw(t, "nullpat")
	b := make([]byte, n)
	for i := range b {
		b[i] = '0'
	}
	switch pat {
	case "all":
		for i := range b {
			b[i] = '1'
		}
	case "alternating":
		ph := rapid.IntRange(0, 1).Draw(t, "phase")
		for i := range b {
			if i%2 == ph {
				b[i] = '1'
			}
		}
	case "random":
		for i := range b {
			if rapid.Bool().Draw(t, "n") {
				b[i] = '1'
			}
		}
	case "sparse":
		for i := range b {
			if rapid.IntRange(0, 15).Draw(t, "n") == 0 {
				b[i] = '1'
			}
		}
	case "dense":
		for i := range b {
			if rapid.IntRange(0, 15).Draw(t, "n") != 0 {
				b[i] = '1'
			}
		}
	case "blocks":
		// runs of nulls / values whose lengths straddle byte and segment boundaries
		null := rapid.Bool().Draw(t, "startnull")
		for i := 0; i < n; {
			k := rapid.SampledFrom([]int{1, 2, 7, 8, 9, 15, 16, 17, 24, 31, 33}).Draw(t, "run")
			for j := 0; j < k && i < n; j, i = j+1, i+1 {
				if null {
					b[i] = '1'
				}
			}
			null = !null
		}
	}
	if !allowAll && n > 0 && !strings.Contains(string(b), "0") {
		b[rapid.IntRange(0, n-1).Draw(t, "keep")] = '0'
		if pat != "none" {
			pat += "+1"
		}
	}
	return string(b), pat
}

var fieldNames = []string{"a", "b", "cpu", "f0", "f1", "host", "mem_used", "s", "usage_idle", "v", "value", "zz", "Z", "_x", "tim", "timf", "名", "x y", "a,b", "q\"uote"}

// genTimes draws n strictly increasing timestamps inside the valid point time range.
func genTimes(t *rapid.T, n int) ([]int64, string) {
	shape := rapid.SampledFrom([]string{"regular", "regular", "jitter", "irregular", "extreme"}).Draw(t, "tshape")
	times := make([]int64, n)
	if n == 0 {
		return times, shape
	}
	const minT, maxT = math.MinInt64 + 2, math.MaxInt64 - 1
	switch shape {
	case "regular", "jitter":
		step := rapid.SampledFrom([]int64{1, 7, 1000, 1e6, 1e9, 10e9, 60e9}).Draw(t, "step")
		t0 := rapid.OneOf(rapid.Int64Range(0, 1<<61), rapid.Int64Range(-1<<40, 1<<40), rapid.Just(int64(1700000000000000000))).Draw(t, "t0")
		v := t0
		for i := range times {
			times[i] = v
			v += step
			if shape == "jitter" {
				v += rapid.Int64Range(0, 3).Draw(t, "j")
			}
		}
	case "irregular":
		v := rapid.Int64Range(-1<<50, 1<<50).Draw(t, "t0")
		for i := range times {
			times[i] = v
			v += rapid.OneOf(rapid.Int64Range(1, 10), rapid.Int64Range(1, 1<<40)).Draw(t, "d")
		}
	default:
		// touches the ends of the time range
		if rapid.Bool().Draw(t, "low") {
			v := int64(minT)
			for i := range times {
				times[i] = v
				v += rapid.Int64Range(1, 1<<30).Draw(t, "d")
			}
		} else {
			v := int64(maxT)
			for i := n - 1; i >= 0; i-- {
				times[i] = v
				v -= rapid.Int64Range(1, 1<<30).Draw(t, "d")
			}
		}
	}
	return times, shape
}

// genRecord draws a record of n rows with 1..maxCols field columns (distinct sorted names) plus time.
func genRecord(t *rapid.T, n, maxCols int, allowAllNull bool) *mRec {
	m := &mRec{}
	m.Times, _ = genTimes(t, n)
	k := rapid.IntRange(1, maxCols).Draw(t, "ncols")
	names := rapid.SliceOfNDistinct(rapid.SampledFrom(fieldNames), k, k, rapid.ID[string]).Draw(t, "names")
	sort.Strings(names)
	for _, name := range names {
		c := mCol{Name: name}
		c.Type = rapid.SampledFrom([]int{influx.Field_Type_Int, influx.Field_Type_Float, influx.Field_Type_String, influx.Field_Type_Boolean}).Draw(t, "type")
		c.Null, c.nullPat = nullsN(t, n, allowAllNull)
		switch c.Type {
		case influx.Field_Type_Int:
			c.I, c.shape = intsN(t, n)
		case influx.Field_Type_Float:
			c.F, c.shape = floatsN(t, n)
		case influx.Field_Type_String:
			c.S, c.shape = stringsN(t, n)
		default:
			c.B, c.shape = boolsN(t, n)
		}
		m.Cols = append(m.Cols, c)
	}
	return m
}

// ---------------------------------------------------------------- model -> record.Record

func (m *mRec) schema() record.Schemas {
	s := make(record.Schemas, 0, len(m.Cols)+1)
	for i := range m.Cols {
		s = append(s, record.Field{Name: m.Cols[i].Name, Type: m.Cols[i].Type})
	}
	return append(s, record.Field{Name: record.TimeField, Type: influx.Field_Type_Int})
}

// build appends row by row like the memtable does.
func (m *mRec) build() *record.Record {
	rec := record.NewRecordBuilder(m.schema())
	for ci := range m.Cols {
		c := &m.Cols[ci]
		cv := rec.Column(ci)
		for r := 0; r < m.rows(); r++ {
			null := c.isNull(r)
			switch c.Type {
			case influx.Field_Type_Int:
				if null {
					cv.AppendIntegerNull()
				} else {
					cv.AppendInteger(c.I[r])
				}
			case influx.Field_Type_Float:
				if null {
					cv.AppendFloatNull()
				} else {
					cv.AppendFloat(math.Float64frombits(c.F[r]))
				}
			case influx.Field_Type_String:
				if null {
					cv.AppendStringNull()
				} else {
					cv.AppendString(string(c.S[r]))
				}
			default:
				if null {
					cv.AppendBooleanNull()
				} else {
					cv.AppendBoolean(c.B[r])
				}
			}
		}
	}
	tc := rec.TimeColumn()
	for _, v := range m.Times {
		tc.AppendInteger(v)
	}
	return rec
}

// ---------------------------------------------------------------- decoded record vs model

// compareRows checks that got holds exactly rows [from,to) of the model, restricted to the model
// columns listed in cols (indices into m.Cols, in the order of got's schema) followed by time.
// reverse: got holds the rows in descending order.
func compareRows(m *mRec, cols []int, from, to int, got *record.Record, reverse bool) error {
	if got == nil {
		return fmt.Errorf("no record returned for rows %d..%d", from, to)
	}
	if len(got.Schema) != len(cols)+1 || len(got.ColVals) != len(cols)+1 {
		return fmt.Errorf("decoded record has %d schema fields / %d columns, want %d", len(got.Schema), len(got.ColVals), len(cols)+1)
	}
	n := to - from
	if got.RowNums() != n {
		return fmt.Errorf("decoded record has %d rows, want %d (rows %d..%d)", got.RowNums(), n, from, to)
	}
	src := func(i int) int {
		if reverse {
			return to - 1 - i
		}
		return from + i
	}
	tc := got.TimeColumn()
	if got.Schema[len(cols)].Name != record.TimeField || got.Schema[len(cols)].Type != influx.Field_Type_Int {
		return fmt.Errorf("last schema field is %v, want time", got.Schema[len(cols)])
	}
	if tc.Len != n || tc.NilCount != 0 {
		return fmt.Errorf("time column len %d nil %d, want %d rows no nulls", tc.Len, tc.NilCount, n)
	}
	tv := tc.IntegerValues()
	if len(tv) != n {
		return fmt.Errorf("time column holds %d values, want %d", len(tv), n)
	}
	for i := 0; i < n; i++ {
		if tv[i] != m.Times[src(i)] {
			return fmt.Errorf("time of row %d: got %d want %d", src(i), tv[i], m.Times[src(i)])
		}
	}
	for gi, ci := range cols {
		c := &m.Cols[ci]
		if got.Schema[gi].Name != c.Name || got.Schema[gi].Type != c.Type {
			return fmt.Errorf("schema field %d: got %s/%d want %s/%d", gi, got.Schema[gi].Name, got.Schema[gi].Type, c.Name, c.Type)
		}
		cv := got.Column(gi)
		if cv.Len != n {
			return fmt.Errorf("column %q: len %d want %d", c.Name, cv.Len, n)
		}
		wantNil := 0
		for i := 0; i < n; i++ {
			if c.isNull(src(i)) {
				wantNil++
			}
		}
		if cv.NilCount != wantNil {
			return fmt.Errorf("column %q (%s): NilCount %d want %d (rows %d..%d)", c.Name, typeName(c.Type), cv.NilCount, wantNil, from, to)
		}
		var iv []int64
		var fv []float64
		var bv []bool
		switch c.Type {
		case influx.Field_Type_Int:
			iv = cv.IntegerValues()
			if len(iv) != n-wantNil {
				return fmt.Errorf("column %q: %d int values stored, want %d", c.Name, len(iv), n-wantNil)
			}
		case influx.Field_Type_Float:
			fv = cv.FloatValues()
			if len(fv) != n-wantNil {
				return fmt.Errorf("column %q: %d float values stored, want %d", c.Name, len(fv), n-wantNil)
			}
		case influx.Field_Type_Boolean:
			bv = cv.BooleanValues()
			if len(bv) != n-wantNil {
				return fmt.Errorf("column %q: %d bool values stored, want %d", c.Name, len(bv), n-wantNil)
			}
		case influx.Field_Type_String:
			if len(cv.Offset) != n {
				return fmt.Errorf("column %q: %d string offsets, want %d", c.Name, len(cv.Offset), n)
			}
		}
		dense := 0
		for i := 0; i < n; i++ {
			r := src(i)
			null := c.isNull(r)
			if cv.IsNil(i) != null {
				return fmt.Errorf("column %q (%s) row %d: null flag got %v want %v", c.Name, typeName(c.Type), r, cv.IsNil(i), null)
			}
			if null {
				continue
			}
			switch c.Type {
			case influx.Field_Type_Int:
				if iv[dense] != c.I[r] {
					return fmt.Errorf("column %q row %d: got %d want %d", c.Name, r, iv[dense], c.I[r])
				}
			case influx.Field_Type_Float:
				if math.Float64bits(fv[dense]) != c.F[r] {
					return fmt.Errorf("column %q row %d: got float bits %016x want %016x", c.Name, r, math.Float64bits(fv[dense]), c.F[r])
				}
			case influx.Field_Type_Boolean:
				if bv[dense] != c.B[r] {
					return fmt.Errorf("column %q row %d: got %v want %v", c.Name, r, bv[dense], c.B[r])
				}
			case influx.Field_Type_String:
				s, isNil := cv.StringValueSafe(i)
				if isNil || s != string(c.S[r]) {
					return fmt.Errorf("column %q row %d: got %q want %q", c.Name, r, clip(s), clip(string(c.S[r])))
				}
			}
			dense++
		}
	}
	return nil
}

func allCols(m *mRec) []int {
	o := make([]int, len(m.Cols))
	for i := range o {
		o[i] = i
	}
	return o
}

// expandBytes is a pure function (xorshift64*) from a seed to n bytes.
func expandBytes(seed uint64, n int) []byte {
	if seed == 0 {
		seed = 0x2545F4914F6CDD1D
	}
	b := make([]byte, n)
	for i := 0; i < n; i += 8 {
		seed ^= seed >> 12
		seed ^= seed << 25
		seed ^= seed >> 27
		v := seed * 0x2545F4914F6CDD1D
		for j := 0; j < 8 && i+j < n; j++ {
			b[i+j] = byte(v >> (8 * j))
		}
	}
	return b
}
