package c07

import (
	"fmt"
	"testing"

	"github.com/openGemini/openGemini/lib/record"
	"github.com/openGemini/openGemini/lib/util/lifted/vm/protoparser/influx"
	"pgregory.net/rapid"
	"verif/internal/ev"
)

// recordCase is the replayable description of one record-codec case.
type recordCase struct {
	Kind   string `json:"kind"` // "record_codec"
	Rec    *mRec  `json:"rec"`
	From   int    `json:"from"` // marshalled rows [From,To) of Rec (a slice when not the whole record)
	To     int    `json:"to"`
	Prefix int    `json:"prefix"`          // bytes already in the destination buffer
	Reuse  *mRec  `json:"reuse,omitempty"` // record previously decoded into the destination
}

func checkRecordCodec(rc *recordCase) (err error) {
	defer func() {
		if r := recover(); r != nil {
			err = fmt.Errorf("panic: %v", r)
		}
	}()
	full := rc.Rec.build()
	src := full
	if rc.From != 0 || rc.To != rc.Rec.rows() {
		src = &record.Record{}
		src.SliceFromRecord(full, rc.From, rc.To)
	}
	buf := make([]byte, rc.Prefix, rc.Prefix+16)
	for i := range buf {
		buf[i] = 0xA5
	}
	out := src.Marshal(buf)
	for i := 0; i < rc.Prefix; i++ {
		if out[i] != 0xA5 {
			return fmt.Errorf("Marshal clobbered byte %d of the bytes already in the buffer", i)
		}
	}
	out = out[rc.Prefix:]
	if len(out) != src.CodecSize() {
		return fmt.Errorf("CodecSize()=%d but Marshal wrote %d bytes", src.CodecSize(), len(out))
	}
	dst := &record.Record{}
	if rc.Reuse != nil {
		// destination taken from a pool: it still holds another decoded record
		pb := rc.Reuse.build().Marshal(nil)
		dst.Unmarshal(pb)
	}
	wire := append([]byte{}, out...) // the receiver owns its bytes
	dst.Unmarshal(wire)
	if e := compareRows(rc.Rec, allCols(rc.Rec), rc.From, rc.To, dst, false); e != nil {
		return e
	}
	// the decoded record must not alias the wire buffer
	for i := range wire {
		wire[i] ^= 0xFF
	}
	if e := compareRows(rc.Rec, allCols(rc.Rec), rc.From, rc.To, dst, false); e != nil {
		return fmt.Errorf("after the wire buffer was reused: %v", e)
	}
	return nil
}

func TestRecordCodec(t *testing.T) {
	rapid.Check(t, ev.Prop(prop, "record_codec", func(t *rapid.T, c *ev.Case) {
		n := rapid.OneOf(rapid.IntRange(0, 300), rapid.IntRange(100, 300), rapid.IntRange(0, 20), rapid.SampledFrom([]int{0, 1, 7, 8, 9, 63, 64, 65, 300})).Draw(t, "rows")
		rc := &recordCase{Kind: "record_codec"}
		rc.Rec = genRecord(t, n, 6, true)
		rc.To = n
		form := "built"
		if n >= 2 && rapid.IntRange(0, 2).Draw(t, "slice") == 0 {
			rc.From = rapid.IntRange(0, n-1).Draw(t, "from")
			rc.To = rapid.IntRange(rc.From+1, n).Draw(t, "to")
			form = "slice"
			if rc.From%8 != 0 {
				form = "slice_unaligned"
			}
		}
		if rapid.IntRange(0, 3).Draw(t, "prefix") == 0 {
			rc.Prefix = rapid.IntRange(1, 9).Draw(t, "prefixlen")
		}
		if rapid.IntRange(0, 2).Draw(t, "reuse") == 0 {
			rc.Reuse = genRecord(t, rapid.IntRange(0, 40).Draw(t, "reuserows"), 6, true)
			c.Class("dst=reused")
		} else {
			c.Class("dst=fresh")
		}
		c.Class("form=" + form)
		c.Class(rowsClass(rc.To - rc.From))
		types := map[int]bool{}
		for i := range rc.Rec.Cols {
			col := &rc.Rec.Cols[i]
			c.Class("type=" + typeName(col.Type))
			c.Class("nulls=" + col.nullPat)
			types[col.Type] = true
			if col.Type == influx.Field_Type_String {
				for r := rc.From; r < rc.To; r++ {
					if !col.isNull(r) && len(col.S[r]) == 0 {
						c.Class("has_empty_string_value")
						break
					}
				}
			}
		}
		c.Class(fmt.Sprintf("coltypes=%d", len(types)))
		if err := checkRecordCodec(rc); err != nil {
			c.Failf(t, prop, rc, "%v", err)
		}
		if rc.To-rc.From >= 2 {
			c.Nontrivial(fmt.Sprintf("record|%s|%s", form, ev.Hash(rc)))
			c.Sample(map[string]any{"kind": "record_codec", "form": form, "rows": rc.To - rc.From, "columns": colNames(rc.Rec)})
		}
	}))
}

func rowsClass(n int) string {
	switch {
	case n == 0:
		return "rows=0"
	case n == 1:
		return "rows=1"
	case n <= 8:
		return "rows<=8"
	case n <= 64:
		return "rows<=64"
	default:
		return "rows>64"
	}
}

func colNames(m *mRec) []string {
	var o []string
	for i := range m.Cols {
		o = append(o, m.Cols[i].Name+":"+typeName(m.Cols[i].Type)+":nulls="+m.Cols[i].nullPat)
	}
	return o
}
