package c18

import (
	"encoding/json"
	"fmt"
	"os"
	"testing"
)

// TestMinimise (manual aid, skipped unless C18_MIN names a case file with one query): greedily removes series and
// samples while the query still violates the property, writes <file>.min.json.
func TestMinimise(t *testing.T) {
	p := os.Getenv("C18_MIN")
	if p == "" {
		t.Skip("C18_MIN not set")
	}
	b, err := os.ReadFile(p)
	if err != nil {
		t.Fatal(err)
	}
	var wrap struct {
		Case *CaseJ `json:"case"`
	}
	var c CaseJ
	if json.Unmarshal(b, &wrap) == nil && wrap.Case != nil {
		c = *wrap.Case
	} else if err := json.Unmarshal(b, &c); err != nil {
		t.Fatal(err)
	}
	fails := func(x *CaseJ) bool {
		vs := runCase(x, func(int, string) {}, false)
		return len(vs) > 0 && vs[0].Query.Expr != ""
	}
	if !fails(&c) {
		t.Fatal("the case does not fail")
	}
	clone := func(x *CaseJ) *CaseJ {
		bb, _ := json.Marshal(x)
		var y CaseJ
		_ = json.Unmarshal(bb, &y)
		return &y
	}
	cur := clone(&c)
	cur.Data.Flush = c.Data.Flush
	// flush mode
	if cur.Data.Flush != 0 {
		y := clone(cur)
		y.Data.Flush = 0
		if fails(y) {
			cur = y
		}
	}
	// series
	for i := 0; i < len(cur.Data.Series); {
		if len(cur.Data.Series) == 1 {
			break
		}
		y := clone(cur)
		y.Data.Series = append(y.Data.Series[:i], y.Data.Series[i+1:]...)
		if fails(y) {
			cur = y
		} else {
			i++
		}
	}
	// samples: drop halves, quarters, ..., single samples
	for si := range cur.Data.Series {
		for chunk := len(cur.Data.Series[si].Samples) / 2; chunk >= 1; chunk /= 2 {
			for from := 0; from < len(cur.Data.Series[si].Samples); {
				n := len(cur.Data.Series[si].Samples)
				to := min(from+chunk, n)
				if to-from >= n {
					break
				}
				y := clone(cur)
				y.Data.Series[si].Samples = append(y.Data.Series[si].Samples[:from], y.Data.Series[si].Samples[to:]...)
				if fails(y) {
					cur = y
				} else {
					from += chunk
				}
			}
		}
	}
	// instant instead of range when possible
	if q := cur.Queries[0]; q.Step > 0 {
		for _, st := range q.steps() {
			y := clone(cur)
			y.Queries[0].Start, y.Queries[0].End, y.Queries[0].Step = st, st, 0
			if fails(y) {
				cur = y
				break
			}
		}
	}
	out, _ := json.MarshalIndent(cur, "", " ")
	_ = os.WriteFile(p+".min.json", out, 0o644)
	fmt.Printf("minimised: %d series, %s\n", len(cur.Data.Series), p+".min.json")
}
