package c18

import (
	"fmt"
	"math"
	"os"
	"strings"
	"time"

	"verif/internal/bb"
)

// Violation of the property on one query of a case.
type Violation struct {
	Query QueryJ
	Msg   string
}

// loaded is a sample set present both in a fresh database of the server and in the reference storage.
type loaded struct {
	s      *bb.Server
	db     string
	ref    *memStore
	data   *DataJ
	absEps float64
}

func maxAbs(d *DataJ) float64 {
	m := 1.0
	for _, s := range d.Series {
		for _, p := range s.Samples {
			f := math.Abs(p.Float())
			if !math.IsNaN(f) && !math.IsInf(f, 0) && f > m {
				m = f
			}
		}
	}
	return m
}

// load writes the sample set through remote write into a fresh database and waits until it is visible.
// A refused valid write is returned as an error text (a violation of the premise, reported by the caller).
func load(d *DataJ) (*loaded, string) { return loadOn(server(), d) }

func loadOn(s *bb.Server, d *DataJ) (*loaded, string) {
	tA := time.Now()
	db := freshDB(s)
	if os.Getenv("C18_TIMING") != "" {
		fmt.Printf("TIMING freshDB=%v\n", time.Since(tA))
	}
	l := &loaded{s: s, db: db, ref: newMemStore(d), data: d, absEps: 1e-12 * maxAbs(d)}
	write := func(pick func(si, pi int) bool) string {
		st, body := promWrite(s, db, encodeWrite(d.Series, d.Base, pick))
		if st != 204 {
			if !s.Alive() {
				return "server died during remote write: " + s.PanicInLogs()
			}
			return fmt.Sprintf("valid remote write refused: status %d %s", st, body)
		}
		return ""
	}
	if d.Flush == 2 || d.Flush == 3 {
		var lo, hi int64 = math.MaxInt64, math.MinInt64
		for _, se := range d.Series {
			for _, p := range se.Samples {
				lo, hi = min(lo, p.T), max(hi, p.T)
			}
		}
		mid := lo + (hi-lo)/2
		if msg := write(func(si, pi int) bool { return d.Series[si].Samples[pi].T <= mid }); msg != "" {
			return nil, msg
		}
		if !awaitVisiblePart(s, db, d, mid) {
			return nil, visibilityProblem(s)
		}
		s.Flush()
		if msg := write(func(si, pi int) bool { return d.Series[si].Samples[pi].T > mid }); msg != "" {
			return nil, msg
		}
	} else {
		if msg := write(nil); msg != "" {
			return nil, msg
		}
	}
	if !awaitVisible(s, db, d) {
		return nil, visibilityProblem(s)
	}
	if d.Flush == 1 || d.Flush == 3 {
		s.Flush()
	}
	return l, ""
}

func visibilityProblem(s *bb.Server) string {
	if !s.Alive() {
		return "server died after remote write: " + s.PanicInLogs()
	}
	return "acknowledged samples never became visible (30 s)"
}

func awaitVisiblePart(s *bb.Server, db string, d *DataJ, mid int64) bool {
	part := &DataJ{Base: d.Base}
	for _, se := range d.Series {
		ps := SeriesJ{Labels: se.Labels}
		for _, p := range se.Samples {
			if p.T <= mid {
				ps.Samples = append(ps.Samples, p)
			}
		}
		part.Series = append(part.Series, ps)
	}
	return awaitVisible(s, db, part)
}

// transient reports whether a differing answer is correct when the same query is asked again a moment later
// (observed rarely while the server flushes in the background; not re-executable, therefore counted, not failed).
func (l *loaded) transient(expr string, start, end, step int64, want *Result) bool {
	if !l.s.Alive() {
		return false
	}
	time.Sleep(300 * time.Millisecond)
	got, _, _, err := promQuery(l.s, l.db, expr, start, end, step)
	if err != nil || got == nil {
		return false
	}
	ok := diffResults(got, want, l.absEps) == ""
	if ok {
		fmt.Fprintf(os.Stderr, "C18 transient discrepancy (second attempt agrees): %s start=%d end=%d step=%d\n", expr, start, end, step)
	}
	return ok
}

// steps of a range query (ms after base)
func (q QueryJ) steps() []int64 {
	if q.Step <= 0 {
		return []int64{q.Start}
	}
	var out []int64
	for t := q.Start; t <= q.End; t += q.Step {
		out = append(out, t)
	}
	return out
}

// checkQuery evaluates one query on both sides. Returns "" when the property holds.
// note receives observations ("ref_error", "ref_empty", "nonempty", ...).
func (l *loaded) checkQuery(q QueryJ, note func(string)) string {
	base := l.data.Base
	srvDied := func() string {
		if !l.s.Alive() {
			return "server died while answering: " + l.s.PanicInLogs()
		}
		return ""
	}
	if q.Step > 0 {
		want := refQuery(l.ref, q.Expr, base+q.Start, base+q.End, q.Step)
		got, _, _, err := promQuery(l.s, l.db, q.Expr, base+q.Start, base+q.End, q.Step)
		if err != nil {
			if m := srvDied(); m != "" {
				return m
			}
			bb.Fatal("query_range transport error: %v", err)
		}
		if want.Err != "" {
			note("ref_error")
			return "" // the reference refuses the expression: nothing is promised
		}
		if len(want.Series) > 0 {
			note("nonempty")
		} else {
			note("ref_empty")
		}
		if d := diffResults(got, want, l.absEps); d != "" && l.transient(q.Expr, base+q.Start, base+q.End, q.Step, want) {
			note("transient_discrepancy_not_reproduced_on_retry")
			return ""
		} else if d != "" {
			return fmt.Sprintf("query_range differs from the upstream engine: %s\n server:    %s\n reference: %s", d, got, want)
		}
		// metamorphic relation + instant differential at every step
		for _, t := range q.steps() {
			if q.NoInstants {
				break
			}
			wi := refQuery(l.ref, q.Expr, base+t, base+t, 0)
			gi, _, _, err := promQuery(l.s, l.db, q.Expr, base+t, base+t, 0)
			if err != nil {
				if m := srvDied(); m != "" {
					return m
				}
				bb.Fatal("query transport error: %v", err)
			}
			if wi.Err != "" {
				note("ref_error_instant")
				continue
			}
			if gi.Err == "" && gi.Type == "scalar" && wi.Type == "scalar" {
				// scalars are reported as a one-point series without labels by both decoders
			}
			if d := diffResults(gi, wi, l.absEps); d != "" {
				if l.transient(q.Expr, base+t, base+t, 0, wi) {
					note("transient_discrepancy_not_reproduced_on_retry")
					continue
				}
				return fmt.Sprintf("instant query at t=%d differs from the upstream engine: %s\n server:    %s\n reference: %s", base+t, d, gi, wi)
			}
			if gi.Type == "vector" {
				if d := diffResults(gi, sliceAt(got, base+t), l.absEps); d != "" {
					return fmt.Sprintf("query_range is not the sequence of instant queries: step t=%d: instant vs range slice: %s\n instant: %s\n range:   %s", base+t, d, gi, got)
				}
			}
		}
		return ""
	}
	want := refQuery(l.ref, q.Expr, base+q.Start, base+q.Start, 0)
	got, _, _, err := promQuery(l.s, l.db, q.Expr, base+q.Start, base+q.Start, 0)
	if err != nil {
		if m := srvDied(); m != "" {
			return m
		}
		bb.Fatal("query transport error: %v", err)
	}
	if want.Err != "" {
		note("ref_error")
		return ""
	}
	if len(want.Series) > 0 {
		note("nonempty")
	} else {
		note("ref_empty")
	}
	if d := diffResults(got, want, l.absEps); d != "" && l.transient(q.Expr, base+q.Start, base+q.Start, 0, want) {
		note("transient_discrepancy_not_reproduced_on_retry")
		return ""
	} else if d != "" {
		return fmt.Sprintf("instant query differs from the upstream engine: %s\n server:    %s\n reference: %s", d, got, want)
	}
	return ""
}

// runCase loads the data and checks every query; the first violation is returned (all of them when all is set).
func runCase(c *CaseJ, note func(qi int, what string), all bool) []Violation {
	return runCaseOn(server(), c, note, all)
}

// runOnFreshServer checks the case on a server process started for it alone (what the replay tier does).
func runOnFreshServer(c *CaseJ) []Violation {
	s := bb.NewServer(bb.Options{Prop: 18, Instance: 1, NoHook: true})
	s.MustStart()
	defer s.Destroy()
	return runCaseOn(s, c, func(int, string) {}, false)
}

func runCaseOn(s *bb.Server, c *CaseJ, note func(qi int, what string), all bool) []Violation {
	t0 := time.Now()
	l, msg := loadOn(s, &c.Data)
	if msg != "" {
		return []Violation{{Msg: msg}}
	}
	if os.Getenv("C18_TIMING") != "" {
		defer func(t1 time.Time) {
			fmt.Printf("TIMING load=%v queries=%v n=%d\n", t1.Sub(t0), time.Since(t1), len(c.Queries))
		}(time.Now())
	}
	var out []Violation
	for i, q := range c.Queries {
		if !l.s.Alive() {
			break // the server was replaced after a hanging query: the remaining queries are not judged
		}
		if m := l.checkQuery(q, func(w string) { note(i, w) }); m != "" {
			out = append(out, Violation{Query: q, Msg: fmt.Sprintf("%s [start=%d end=%d step=%d]: %s", q.Expr, c.Data.Base+q.Start, c.Data.Base+q.End, q.Step, m)})
			if !all {
				return out
			}
		}
	}
	return out
}

func shortMsg(s string) string {
	if i := strings.Index(s, "\n"); i > 0 {
		return s[:i]
	}
	return s
}
