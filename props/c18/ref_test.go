package c18

import (
	"context"
	"fmt"
	"math"
	"sort"
	"strconv"
	"strings"
	"time"

	"github.com/prometheus/prometheus/model/histogram"
	"github.com/prometheus/prometheus/model/labels"
	"github.com/prometheus/prometheus/model/value"
	"github.com/prometheus/prometheus/promql"
	"github.com/prometheus/prometheus/storage"
	"github.com/prometheus/prometheus/tsdb/chunkenc"
	"github.com/prometheus/prometheus/tsdb/chunks"
	"github.com/prometheus/prometheus/util/annotations"
)

// ------------------------------------------------------------------ case description (JSON, re-executable)

// SampleJ: T = milliseconds after DataJ.Base; V = decimal float, "NaN", "+Inf", "-Inf" or "stale" (staleness marker).
type SampleJ struct {
	T int64  `json:"t"`
	V string `json:"v"`
}

func (p SampleJ) Float() float64 {
	switch p.V {
	case "stale":
		return math.Float64frombits(value.StaleNaN)
	case "NaN":
		return math.Float64frombits(value.NormalNaN)
	case "+Inf":
		return math.Inf(1)
	case "-Inf":
		return math.Inf(-1)
	}
	f, err := strconv.ParseFloat(p.V, 64)
	if err != nil {
		panic("bad sample value " + p.V)
	}
	return f
}

func fmtV(f float64) string {
	switch {
	case value.IsStaleNaN(f):
		return "stale"
	case math.IsNaN(f):
		return "NaN"
	case math.IsInf(f, 1):
		return "+Inf"
	case math.IsInf(f, -1):
		return "-Inf"
	}
	return strconv.FormatFloat(f, 'g', -1, 64)
}

type SeriesJ struct {
	Labels  map[string]string `json:"labels"` // includes __name__
	Samples []SampleJ         `json:"samples"`
}

// DataJ is one sample set. Flush: 0 = everything stays in the memtable, 1 = forced flush after the write,
// 2 = the first half (by time) is written and flushed, the second half stays in the memtable, 3 = the second half is
// flushed as well (two files).
type DataJ struct {
	Base   int64     `json:"base_ms"`
	Series []SeriesJ `json:"series"`
	Flush  int       `json:"flush"`
}

// QueryJ: times are milliseconds after DataJ.Base. Step == 0: one instant query at Start.
// Step > 0: the range query [Start, End] and the instant queries at its steps.
type QueryJ struct {
	Expr  string `json:"expr"`
	Start int64  `json:"start"`
	End   int64  `json:"end"`
	Step  int64  `json:"step"`
	// NoInstants: only the range query is compared (the instant form of the expression is in a known-finding class)
	NoInstants bool `json:"no_instants,omitempty"`
}

type CaseJ struct {
	Kind    string   `json:"kind"` // "promql"
	Data    DataJ    `json:"data"`
	Queries []QueryJ `json:"queries"`
}

// ------------------------------------------------------------------ normalised results

type Point struct {
	T int64 // ms
	V float64
}

type RSeries struct {
	Labels map[string]string
	Points []Point
}

type Result struct {
	Type   string
	Series []RSeries
	Err    string
}

func labelKey(m map[string]string) string {
	ks := make([]string, 0, len(m))
	for k, v := range m {
		if v != "" {
			ks = append(ks, k)
		}
	}
	sort.Strings(ks)
	var sb strings.Builder
	sb.WriteByte('{')
	for i, k := range ks {
		if i > 0 {
			sb.WriteByte(',')
		}
		sb.WriteString(k + "=" + strconv.Quote(m[k]))
	}
	sb.WriteByte('}')
	return sb.String()
}

func (r *Result) String() string {
	if r == nil {
		return "<nil>"
	}
	if r.Err != "" {
		return "error: " + r.Err
	}
	keys := make([]string, 0, len(r.Series))
	by := map[string][]string{}
	for _, s := range r.Series {
		k := labelKey(s.Labels)
		var sb strings.Builder
		for i, p := range s.Points {
			if i > 0 {
				sb.WriteByte(' ')
			}
			if i >= 24 {
				sb.WriteString(fmt.Sprintf("... (%d points, last at %d)", len(s.Points), s.Points[len(s.Points)-1].T))
				break
			}
			sb.WriteString(fmt.Sprintf("%s@%d", fmtV(p.V), p.T))
		}
		if _, ok := by[k]; !ok {
			keys = append(keys, k)
		}
		by[k] = append(by[k], sb.String())
	}
	sort.Strings(keys)
	var sb strings.Builder
	sb.WriteString(r.Type + "[")
	for i, k := range keys {
		if i > 0 {
			sb.WriteString("; ")
		}
		sb.WriteString(k + " => " + strings.Join(by[k], " | "))
	}
	sb.WriteString("]")
	out := sb.String()
	if len(out) > 6000 {
		out = out[:6000] + fmt.Sprintf(" ... (%d series)", len(r.Series))
	}
	return out
}

// ------------------------------------------------------------------ in-memory storage for the upstream engine

type fsample struct {
	t int64
	f float64
}

func (s fsample) T() int64                      { return s.t }
func (s fsample) F() float64                    { return s.f }
func (s fsample) H() *histogram.Histogram       { return nil }
func (s fsample) FH() *histogram.FloatHistogram { return nil }
func (s fsample) Type() chunkenc.ValueType      { return chunkenc.ValFloat }

type memSeries struct {
	lset    labels.Labels
	samples []chunks.Sample
}

type memStore struct{ series []memSeries }

func newMemStore(d *DataJ) *memStore {
	st := &memStore{}
	for _, s := range d.Series {
		if len(s.Samples) == 0 {
			continue
		}
		ms := memSeries{lset: labels.FromMap(s.Labels)}
		for _, p := range s.Samples {
			ms.samples = append(ms.samples, fsample{t: d.Base + p.T, f: p.Float()})
		}
		sort.SliceStable(ms.samples, func(i, j int) bool { return ms.samples[i].T() < ms.samples[j].T() })
		st.series = append(st.series, ms)
	}
	sort.Slice(st.series, func(i, j int) bool { return labels.Compare(st.series[i].lset, st.series[j].lset) < 0 })
	return st
}

func (m *memStore) Querier(mint, maxt int64) (storage.Querier, error) { return m, nil }
func (m *memStore) Close() error                                      { return nil }
func (m *memStore) LabelValues(ctx context.Context, name string, matchers ...*labels.Matcher) ([]string, annotations.Annotations, error) {
	return nil, nil, fmt.Errorf("not implemented")
}
func (m *memStore) LabelNames(ctx context.Context, matchers ...*labels.Matcher) ([]string, annotations.Annotations, error) {
	return nil, nil, fmt.Errorf("not implemented")
}

func (m *memStore) Select(ctx context.Context, sortSeries bool, hints *storage.SelectHints, matchers ...*labels.Matcher) storage.SeriesSet {
	var out []storage.Series
	for _, s := range m.series {
		ok := true
		for _, mt := range matchers {
			if !mt.Matches(s.lset.Get(mt.Name)) {
				ok = false
				break
			}
		}
		if ok {
			out = append(out, storage.NewListSeries(s.lset, s.samples))
		}
	}
	return &listSet{series: out, i: -1}
}

type listSet struct {
	series []storage.Series
	i      int
}

func (l *listSet) Next() bool                        { l.i++; return l.i < len(l.series) }
func (l *listSet) At() storage.Series                { return l.series[l.i] }
func (l *listSet) Err() error                        { return nil }
func (l *listSet) Warnings() annotations.Annotations { return nil }

var refEngine = promql.NewEngine(promql.EngineOpts{
	MaxSamples:           50000000,
	Timeout:              2 * time.Minute,
	LookbackDelta:        5 * time.Minute,
	EnableAtModifier:     true,
	EnableNegativeOffset: true,
})

func msTime(ms int64) time.Time { return time.Unix(ms/1000, (ms%1000)*int64(time.Millisecond)).UTC() }

// refQuery evaluates with the upstream engine. step == 0: instant query at start.
func refQuery(st *memStore, expr string, start, end, step int64) *Result {
	ctx := context.Background()
	var q promql.Query
	var err error
	if step > 0 {
		q, err = refEngine.NewRangeQuery(ctx, st, nil, expr, msTime(start), msTime(end), time.Duration(step)*time.Millisecond)
	} else {
		q, err = refEngine.NewInstantQuery(ctx, st, nil, expr, msTime(start))
	}
	if err != nil {
		return &Result{Err: err.Error()}
	}
	defer q.Close()
	r := q.Exec(ctx)
	if r.Err != nil {
		return &Result{Err: r.Err.Error()}
	}
	out := &Result{}
	switch v := r.Value.(type) {
	case promql.Vector:
		out.Type = "vector"
		for _, s := range v {
			if s.H != nil {
				return &Result{Err: "histogram sample in reference result"}
			}
			out.Series = append(out.Series, RSeries{Labels: s.Metric.Map(), Points: []Point{{T: s.T, V: s.F}}})
		}
	case promql.Matrix:
		out.Type = "matrix"
		for _, s := range v {
			rs := RSeries{Labels: s.Metric.Map()}
			for _, p := range s.Floats {
				rs.Points = append(rs.Points, Point{T: p.T, V: p.F})
			}
			out.Series = append(out.Series, rs)
		}
	case promql.Scalar:
		out.Type = "scalar"
		out.Series = append(out.Series, RSeries{Labels: map[string]string{}, Points: []Point{{T: v.T, V: v.V}}})
	default:
		return &Result{Err: fmt.Sprintf("unexpected reference value type %T", r.Value)}
	}
	return out
}

// ------------------------------------------------------------------ comparison

func closeEnough(a, b, absEps float64) bool {
	if math.IsNaN(a) || math.IsNaN(b) {
		return math.IsNaN(a) && math.IsNaN(b)
	}
	if math.IsInf(a, 0) || math.IsInf(b, 0) {
		return a == b
	}
	if a == b {
		return true
	}
	d := math.Abs(a - b)
	return d <= 1e-9*math.Max(math.Abs(a), math.Abs(b)) || d <= absEps
}

// diffResults returns "" when got (server) equals want (reference): same result type, same series set (label sets,
// order irrelevant, no duplicates), same timestamps, values within 1e-9 relative (NaN == NaN, +-Inf equal).
func diffResults(got, want *Result, absEps float64) string {
	if want.Err != "" || got.Err != "" {
		if want.Err != "" && got.Err != "" {
			return ""
		}
		return fmt.Sprintf("one side failed: server=%s reference=%s", got.String(), want.String())
	}
	if len(got.Series) == 0 && len(want.Series) == 0 {
		return "" // an empty result is an empty result (the server labels an empty matrix as "vector")
	}
	if got.Type != want.Type {
		return fmt.Sprintf("result type %q, reference %q", got.Type, want.Type)
	}
	gm := map[string]RSeries{}
	for _, s := range got.Series {
		k := labelKey(s.Labels)
		if _, dup := gm[k]; dup {
			return "server result holds the label set " + k + " twice"
		}
		gm[k] = s
	}
	wm := map[string]RSeries{}
	for _, s := range want.Series {
		wm[labelKey(s.Labels)] = s
	}
	var keys []string
	for k := range wm {
		keys = append(keys, k)
	}
	sort.Strings(keys)
	for _, k := range keys {
		g, ok := gm[k]
		if !ok {
			return "series " + k + " missing in the server result"
		}
		w := wm[k]
		gp := append([]Point(nil), g.Points...)
		sort.SliceStable(gp, func(i, j int) bool { return gp[i].T < gp[j].T })
		if len(gp) != len(w.Points) {
			return fmt.Sprintf("series %s: %d points, reference %d", k, len(gp), len(w.Points))
		}
		for i := range gp {
			if gp[i].T != w.Points[i].T {
				return fmt.Sprintf("series %s: point %d at t=%d, reference t=%d", k, i, gp[i].T, w.Points[i].T)
			}
			if !closeEnough(gp[i].V, w.Points[i].V, absEps) {
				return fmt.Sprintf("series %s at t=%d: value %s, reference %s", k, gp[i].T, fmtV(gp[i].V), fmtV(w.Points[i].V))
			}
		}
	}
	var extra []string
	for k := range gm {
		if _, ok := wm[k]; !ok {
			extra = append(extra, k)
		}
	}
	if len(extra) > 0 {
		sort.Strings(extra)
		return "series " + extra[0] + " in the server result but not in the reference"
	}
	return ""
}

// sliceAt extracts the instant-vector view of a range result at time t (ms).
func sliceAt(r *Result, t int64) *Result {
	out := &Result{Type: "vector"}
	for _, s := range r.Series {
		for _, p := range s.Points {
			if p.T == t {
				out.Series = append(out.Series, RSeries{Labels: s.Labels, Points: []Point{p}})
			}
		}
	}
	return out
}
