package c18

import (
	"fmt"
	"math"
	"sort"
	"strconv"
	"strings"

	"pgregory.net/rapid"
)

const (
	baseMid   = int64(1700000000000) // inside a 7-day shard group
	baseCross = int64(1700092800000) // a shard-group boundary (multiple of 7 d)
	lookback  = int64(300000)
)

// ------------------------------------------------------------------ sample sets

var labelSetsPool = []map[string]string{
	{"job": "a", "inst": "i0"},
	{"job": "a", "inst": "i1", "zone": "x"},
	{"job": "b", "inst": "i0", "zone": "y"},
	{"job": "b", "inst": "i2"},
	{"job": "a", "inst": "i2", "zone": "y"},
	{"job": "b", "inst": "i1", "zone": "x"},
	{"job": "a", "inst": "i0", "zone": "x"},   // same (job,inst) as the first one: many-to-one shapes
	{"job": "ab", "inst": "i1", "zone": "xy"}, // values that contain other values: regex anchoring
}

var metricPool = []string{"ca", "ga", "cb", "gb"} // c* counters, g* gauges

type dataInfo struct {
	dupJobInst bool // two series of one metric share (job, inst)
	metrics    []string
	iv         int64
	span       int64 // last scrape slot (ms after base)
	classes    []string
}

func roundDec(f float64, dec int) float64 {
	p := math.Pow(10, float64(dec))
	r := math.Round(f*p) / p
	if r == 0 {
		return 0 // no negative zero (max_over_time(-0, 0) is order dependent upstream; only visible through 1/x)
	}
	return r
}

func genData(t *rapid.T) (DataJ, dataInfo) {
	var d DataJ
	var info dataInfo
	cls := func(s string) { info.classes = append(info.classes, s) }
	d.Base = baseMid
	iv := rapid.SampledFrom([]int64{15000, 30000, 60000, 10000}).Draw(t, "interval")
	n := rapid.IntRange(6, 48).Draw(t, "slots")
	info.iv, info.span = iv, int64(n-1)*iv
	if rapid.IntRange(0, 9).Draw(t, "cross") == 9 {
		// the sample set straddles a shard-group boundary
		d.Base = baseCross - (info.span/2/iv)*iv
		cls("data:two_shard_groups")
	}
	d.Flush = rapid.SampledFrom([]int{0, 0, 0, 0, 1, 1, 1, 2}).Draw(t, "flush")
	cls(fmt.Sprintf("data:flush%d", d.Flush))
	nm := rapid.IntRange(1, 3).Draw(t, "nmetrics")
	mi := rapid.IntRange(0, len(metricPool)-1).Draw(t, "metric0")
	for k := 0; k < nm; k++ {
		info.metrics = append(info.metrics, metricPool[(mi+k)%len(metricPool)])
	}
	nls := rapid.IntRange(1, 4).Draw(t, "nlabelsets")
	ls0 := rapid.IntRange(0, len(labelSetsPool)-1).Draw(t, "labelset0")
	specials := rapid.IntRange(0, 11).Draw(t, "specials") // 10: NaN values, 11: NaN and +-Inf values
	total := 0
	for _, m := range info.metrics {
		for k := 0; k < nls; k++ {
			if total >= 8 {
				break
			}
			if k > 0 && rapid.IntRange(0, 4).Draw(t, "skipseries") == 0 {
				continue
			}
			total++
			lbl := map[string]string{"__name__": m}
			for a, b := range labelSetsPool[(ls0+k)%len(labelSetsPool)] {
				lbl[a] = b
			}
			se := SeriesJ{Labels: lbl}
			phase := int64(0)
			if rapid.IntRange(0, 2).Draw(t, "phased") == 2 {
				phase = int64(rapid.IntRange(1, int(iv)-1).Draw(t, "phase"))
				cls("data:phase_shift")
			}
			jitter := rapid.IntRange(0, 2).Draw(t, "jitter") == 2
			if jitter {
				cls("data:irregular_scrapes")
			}
			from, to := 0, n
			switch rapid.IntRange(0, 7).Draw(t, "extent") {
			case 5:
				from = rapid.IntRange(1, n-1).Draw(t, "from")
				cls("data:starts_late")
			case 6, 7:
				to = rapid.IntRange(1, n-1).Draw(t, "to")
				cls("data:stops_early")
			}
			gapFrom, gapTo, gapStale := -1, -1, false
			switch rapid.IntRange(0, 7).Draw(t, "gap") {
			case 5:
				gapFrom = rapid.IntRange(1, n-1).Draw(t, "gapfrom")
				gapTo = gapFrom + rapid.IntRange(1, 3).Draw(t, "gaplen")
				cls("data:short_gap")
			case 6, 7:
				gapFrom = rapid.IntRange(1, n-1).Draw(t, "gapfrom")
				gapTo = gapFrom + int(lookback/iv) + rapid.IntRange(0, 4).Draw(t, "gaplen")
				cls("data:gap_over_lookback")
			}
			if gapFrom >= 0 {
				gapStale = rapid.IntRange(0, 2).Draw(t, "gapstale") == 2
			}
			endStale := to < n && rapid.Bool().Draw(t, "endstale")
			counter := strings.HasPrefix(m, "c")
			decimals := rapid.IntRange(0, 2).Draw(t, "decimals")
			cur := float64(rapid.IntRange(0, 500).Draw(t, "v0"))
			if !counter {
				cur = float64(rapid.IntRange(-100, 100).Draw(t, "g0"))
			}
			constant := !counter && rapid.IntRange(0, 9).Draw(t, "constant") == 9
			staleDone := false
			for i := from; i < n; i++ {
				ts := int64(i)*iv + phase
				if jitter {
					ts += int64(rapid.IntRange(-2000, 2000).Draw(t, "dt"))
				}
				if ts < 0 {
					ts = 0
				}
				if i >= to {
					if endStale && !staleDone {
						se.Samples = append(se.Samples, SampleJ{T: ts, V: "stale"})
						cls("data:stale_marker")
					}
					break
				}
				if gapFrom >= 0 && i >= gapFrom && i < gapTo {
					if gapStale && i == gapFrom {
						se.Samples = append(se.Samples, SampleJ{T: ts, V: "stale"})
						cls("data:stale_marker")
					}
					continue
				}
				// next value
				if counter {
					inc := float64(rapid.IntRange(0, 4000).Draw(t, "inc")) / 100
					if rapid.IntRange(0, 11).Draw(t, "reset") == 11 {
						cur = roundDec(inc/10, decimals)
						cls("data:counter_reset")
					} else {
						cur = roundDec(cur+inc, decimals)
					}
				} else if !constant {
					cur = roundDec(cur+float64(rapid.IntRange(-3000, 3000).Draw(t, "dv"))/100, decimals)
				}
				v := fmtV(cur)
				if specials >= 10 {
					switch rapid.IntRange(0, 29).Draw(t, "special") {
					case 27:
						v = "NaN"
						cls("data:nan_value")
					case 28:
						if specials == 11 {
							v = "+Inf"
							cls("data:inf_value")
						}
					case 29:
						if specials == 11 {
							v = "-Inf"
							cls("data:inf_value")
						}
					}
				}
				se.Samples = append(se.Samples, SampleJ{T: ts, V: v})
			}
			// strictly increasing timestamps within a series (jitter may have swapped neighbours)
			sort.SliceStable(se.Samples, func(a, b int) bool { return se.Samples[a].T < se.Samples[b].T })
			out := se.Samples[:0]
			for _, p := range se.Samples {
				if len(out) > 0 && out[len(out)-1].T == p.T {
					continue
				}
				out = append(out, p)
			}
			se.Samples = out
			if len(se.Samples) > 0 {
				d.Series = append(d.Series, se)
			}
		}
	}
	if len(d.Series) == 0 {
		t.Skip("empty sample set")
	}
	seen := map[string]bool{}
	for _, se := range d.Series {
		k := se.Labels["__name__"] + "|" + se.Labels["job"] + "|" + se.Labels["inst"]
		if seen[k] {
			info.dupJobInst = true
		}
		seen[k] = true
	}
	return d, info
}

// ------------------------------------------------------------------ expressions

// rungs of the ladder
const (
	rungSelectors = 1
	rungRangeFn   = 2
	rungAgg       = 3
	rungBinop     = 4
	rungCombo     = 5
)

type matcherJ struct{ Metric, Label, Op, Value string }

type exprGen struct {
	t        *rapid.T
	info     dataInfo
	feats    map[string]bool
	matchers []matcherJ
}

func (g *exprGen) feat(s string) { g.feats[s] = true }

var durations = []int64{60000, 120000, 300000, 30000, 45000, 90000, 600000, 15000, 420000, 3600000}

func durStr(ms int64) string {
	if ms%60000 == 0 {
		return fmt.Sprintf("%dm", ms/60000)
	}
	if ms%1000 == 0 {
		return fmt.Sprintf("%ds", ms/1000)
	}
	return fmt.Sprintf("%dms", ms)
}

var eqValues = map[string][]string{
	"job":  {"a", "b", "zz", "ab"},
	"inst": {"i0", "i1", "i2", "i9"},
	"zone": {"x", "y", "", "q"},
}
var reValues = map[string][]string{
	"job":  {"a|b", "a", ".+", ".*", "[ab]", "b|zz", "a.*"},
	"inst": {"i.*", "i[01]", "i0|i2", ".+", "i\\\\d", "i1", ".*2"},
	"zone": {"x|y", ".+", ".*", "x", "x|", "", "[^x]"},
}

func (g *exprGen) matcher(metric string) string {
	t := g.t
	lbl := rapid.SampledFrom([]string{"job", "inst", "zone"}).Draw(t, "mlabel")
	op := rapid.SampledFrom([]string{"=", "!=", "=~", "!~"}).Draw(t, "mop")
	var v string
	if op == "=" || op == "!=" {
		v = rapid.SampledFrom(eqValues[lbl]).Draw(t, "mval")
	} else {
		v = rapid.SampledFrom(reValues[lbl]).Draw(t, "mre")
	}
	g.feat("matcher:" + op)
	if v == "" {
		g.feat("matcher:" + op + "empty")
	}
	g.matchers = append(g.matchers, matcherJ{metric, lbl, op, v})
	return lbl + op + `"` + v + `"`
}

func (g *exprGen) metric() string {
	t := g.t
	if rapid.IntRange(0, 39).Draw(t, "nometric") == 0 {
		g.feat("sel:unknown_metric")
		return "nosuch"
	}
	return rapid.SampledFrom(g.info.metrics).Draw(t, "metric")
}

// selector renders an instant vector selector (without offset).
func (g *exprGen) selector() string {
	t := g.t
	m := g.metric()
	nm := rapid.SampledFrom([]int{0, 0, 1, 1, 1, 2}).Draw(t, "nmatchers")
	var ms []string
	for i := 0; i < nm; i++ {
		ms = append(ms, g.matcher(m))
	}
	g.feat("sel")
	if rapid.IntRange(0, 19).Draw(t, "nameform") == 0 {
		g.feat("sel:name_matcher")
		ms = append([]string{`__name__="` + m + `"`}, ms...)
		return "{" + strings.Join(ms, ",") + "}"
	}
	if len(ms) == 0 {
		return m
	}
	return m + "{" + strings.Join(ms, ",") + "}"
}

func (g *exprGen) offset() string {
	t := g.t
	switch rapid.IntRange(0, 11).Draw(t, "offset") {
	case 8, 9, 10:
		g.feat("offset")
		return " offset " + durStr(rapid.SampledFrom([]int64{60000, 30000, 300000, 47000, 600000, g.info.iv}).Draw(t, "offdur"))
	case 11:
		g.feat("offset")
		g.feat("offset:negative")
		return " offset -" + durStr(rapid.SampledFrom([]int64{60000, 30000, 300000}).Draw(t, "negoffdur"))
	}
	return ""
}

var rangeFns = []string{"rate", "increase", "delta", "irate", "idelta",
	"avg_over_time", "min_over_time", "max_over_time", "sum_over_time", "count_over_time", "last_over_time",
	"present_over_time", "stddev_over_time", "stdvar_over_time"}

func (g *exprGen) rangeCall() string {
	t := g.t
	fn := rapid.SampledFrom(rangeFns).Draw(t, "fn")
	g.feat("fn:" + fn)
	g.feat("rangefn")
	r := rapid.SampledFrom(append([]int64{g.info.iv, 2 * g.info.iv, 4 * g.info.iv}, durations...)).Draw(t, "range")
	g.feat("range:" + durStr(r))
	return fn + "(" + g.selector() + "[" + durStr(r) + "]" + g.offset() + ")"
}

// leaf: selector (with optional offset) or a range function call
func (g *exprGen) leaf(rangeFnWeight int) string {
	if rapid.IntRange(0, 9).Draw(g.t, "leafkind") < rangeFnWeight {
		return g.rangeCall()
	}
	return g.selector() + g.offset()
}

var aggOps = []string{"sum", "avg", "min", "max", "count"}

func (g *exprGen) agg(inner string) string {
	t := g.t
	op := rapid.SampledFrom(aggOps).Draw(t, "aggop")
	g.feat("agg:" + op)
	g.feat("agg")
	mode := rapid.SampledFrom([]string{"", "by", "by", "without", "without"}).Draw(t, "aggmode")
	if mode == "" {
		g.feat("agg:nogroup")
		return op + "(" + inner + ")"
	}
	g.feat("agg:" + mode)
	lbls := rapid.SampledFrom([]string{"job", "inst", "zone", "job,inst", "job,zone", "inst,zone", "", "nolabel", "job,inst,zone", "job,__name__"}).Draw(t, "agglabels")
	if lbls == "" {
		g.feat("agg:" + mode + "_empty")
	}
	if strings.Contains(lbls, "__name__") {
		g.feat("agg:" + mode + "_name")
	}
	if rapid.Bool().Draw(t, "aggsuffix") {
		return op + "(" + inner + ") " + mode + " (" + lbls + ")"
	}
	return op + " " + mode + " (" + lbls + ") (" + inner + ")"
}

var arithOps = []string{"+", "-", "*", "/", "%", "^"}
var cmpOps = []string{"==", "!=", ">", "<", ">=", "<="}

func (g *exprGen) scalar() string {
	v := rapid.SampledFrom([]string{"2", "10", "0", "1", "0.5", "100", "-1", "3", "1000", "7.25"}).Draw(g.t, "scalar")
	if v == "0" {
		g.feat("scalar:zero")
	}
	if strings.HasPrefix(v, "-") {
		g.feat("scalar:negative")
	}
	return v
}

func (g *exprGen) binop(lhs, rhs func() string, vv bool) string {
	t := g.t
	var op string
	if rapid.Bool().Draw(t, "cmp") {
		op = rapid.SampledFrom(cmpOps).Draw(t, "cmpop")
		g.feat("bin:cmp")
		if rapid.Bool().Draw(t, "bool") {
			op += " bool"
			g.feat("bin:bool")
		} else {
			g.feat("bin:filter")
		}
	} else {
		op = rapid.SampledFrom(arithOps).Draw(t, "arithop")
		g.feat("bin:arith")
		g.feat("bin:" + op)
	}
	if !vv {
		g.feat("bin:vector_scalar")
		if rapid.IntRange(0, 3).Draw(t, "scalarleft") == 0 {
			g.feat("bin:scalar_left")
			return g.scalar() + " " + op + " " + lhs()
		}
		return lhs() + " " + op + " " + g.scalar()
	}
	g.feat("bin:vector_vector")
	match := ""
	switch rapid.IntRange(0, 7).Draw(t, "matching") {
	case 3, 4:
		match = " on (" + rapid.SampledFrom([]string{"job,inst", "job,inst,zone", "inst", "job"}).Draw(t, "onlabels") + ")"
		g.feat("bin:on")
	case 5, 6:
		match = " ignoring (" + rapid.SampledFrom([]string{"zone", "job", "inst", "nolabel"}).Draw(t, "ignlabels") + ")"
		g.feat("bin:ignoring")
	case 7:
		forms := []string{"group_left", "group_right", "group_left (zone)"}
		if g.info.dupJobInst {
			// two series that differ only in zone would collapse into one output label set with group_left (zone):
			// upstream answers such an expression only when a comparison filter happens to drop one of them
			forms = forms[:2]
		}
		match = " on (job,inst) " + rapid.SampledFrom(forms).Draw(t, "group")
		g.feat("bin:group")
	}
	return lhs() + " " + op + match + " " + rhs()
}

// expr renders an expression of the given rung.
func (g *exprGen) expr(rung int) string {
	t := g.t
	switch rung {
	case rungSelectors:
		if rapid.IntRange(0, 11).Draw(t, "matrixsel") == 0 {
			g.feat("sel:matrix_instant")
			return g.selector() + "[" + durStr(rapid.SampledFrom(durations).Draw(t, "mrange")) + "]" + g.offset()
		}
		return g.selector() + g.offset()
	case rungRangeFn:
		return g.rangeCall()
	case rungAgg:
		if rapid.IntRange(0, 2).Draw(t, "nestedAgg") == 0 {
			// aggregation over aggregation (outer grouping a subset / superset / unrelated to the inner one)
			g.feat("agg:nested")
			if rapid.Bool().Draw(t, "byOverBy") {
				// by over by with the outer labels a subset of the inner ones (prefix of the sorted inner labels or not): the
				// planner may stream the outer aggregation over the inner groups only when its groups are contiguous there
				pairs := [][2]string{{"job", "job,inst"}, {"inst", "job,inst"}, {"zone", "job,zone"}, {"job", "job,zone"}, {"zone", "inst,zone"}, {"inst", "inst,zone"}, {"job,zone", "job,inst,zone"}, {"inst", "job,inst,zone"}}
				p := rapid.SampledFrom(pairs).Draw(t, "byPair")
				g.feat("agg:by_over_by")
				o1, o2 := rapid.SampledFrom(aggOps).Draw(t, "outerop"), rapid.SampledFrom(aggOps).Draw(t, "innerop")
				return o1 + " by (" + p[0] + ") (" + o2 + " by (" + p[1] + ") (" + g.leaf(5) + "))"
			}
			return g.agg(g.agg(g.leaf(5)))
		}
		return g.agg(g.leaf(5))
	case rungBinop:
		leaf := func() string { return g.leaf(4) }
		vv := rapid.Bool().Draw(t, "vv")
		return g.binop(leaf, leaf, vv)
	default:
		return g.combo(2)
	}
}

func (g *exprGen) combo(depth int) string {
	t := g.t
	if depth == 0 {
		return g.leaf(5)
	}
	sub := func() string { return g.combo(depth - 1) }
	switch rapid.IntRange(0, 5).Draw(t, "combo") {
	case 0, 1:
		g.feat("combo:agg_of")
		return g.agg(sub())
	case 2:
		g.feat("combo:bin_scalar")
		return g.binop(func() string { return "(" + sub() + ")" }, nil, false)
	case 3, 4:
		g.feat("combo:bin_vv")
		p := func() string { return "(" + sub() + ")" }
		return g.binop(p, p, true)
	default:
		return g.leaf(5)
	}
}

// ------------------------------------------------------------------ evaluation times

// genTimes picks start/end/step so that evaluation times hit sample timestamps, miss them by 1 ms, sit exactly
// on / next to the look-back and range boundaries, or fall anywhere.
func genTimes(t *rapid.T, d *DataJ, info dataInfo, instantOnly bool, feat func(string)) (start, end, step int64) {
	si := rapid.IntRange(0, len(d.Series)-1).Draw(t, "anchorseries")
	se := d.Series[si]
	pi := rapid.IntRange(0, len(se.Samples)-1).Draw(t, "anchorsample")
	anchor := se.Samples[pi].T
	switch rapid.IntRange(0, 9).Draw(t, "tkind") {
	case 0, 1, 2:
		feat("time:hits_sample")
	case 3:
		anchor++
		feat("time:sample_plus_1ms")
	case 4:
		anchor--
		feat("time:sample_minus_1ms")
	case 5:
		anchor += rapid.SampledFrom([]int64{lookback, lookback + 1, lookback - 1}).Draw(t, "lb")
		feat("time:lookback_boundary")
	case 6:
		anchor += rapid.SampledFrom(durations).Draw(t, "rb") + int64(rapid.IntRange(-1, 1).Draw(t, "rbd"))
		feat("time:range_boundary")
	default:
		anchor = int64(rapid.IntRange(-60000, int(info.span)+420000).Draw(t, "tany"))
		feat("time:anywhere")
	}
	start = anchor
	if instantOnly {
		return start, start, 0
	}
	step = rapid.SampledFrom([]int64{info.iv, 15000, 30000, 60000, 47000, 1000, 300000, 7000, 90000, 2 * info.iv}).Draw(t, "step")
	k := rapid.IntRange(0, 10).Draw(t, "nsteps")
	end = start + int64(k)*step
	if rapid.IntRange(0, 3).Draw(t, "endrem") == 0 && step > 1 {
		end += int64(rapid.IntRange(1, int(min(step-1, 100000))).Draw(t, "rem"))
		feat("time:end_off_grid")
	}
	feat("time:steps_" + strconv.Itoa(min(k, 2)) + func() string {
		if k > 2 {
			return "+"
		}
		return ""
	}())
	if step == info.iv {
		feat("time:step_eq_scrape_interval")
	}
	return
}
