// Package c18: PromQL answers of the real ts-server (remote write + /api/v1/query[_range]) are compared with
// the upstream Prometheus engine (module cache, v0.50.1) evaluating the same expression over the same samples.
package c18

import (
	"bytes"
	"encoding/json"
	"errors"
	"fmt"
	"io"
	"net"
	"net/http"
	"net/url"
	"os"
	"sort"
	"strconv"
	"strings"
	"sync"
	"testing"
	"time"

	"github.com/golang/snappy"
	"github.com/prometheus/prometheus/prompb"
	"verif/internal/bb"
	"verif/internal/ev"
)

const prop = "C18"
const maxBody = 4 << 20
const queryTimeout = 15 * time.Second

var queryClient = &http.Client{Timeout: queryTimeout, Transport: &http.Transport{MaxIdleConnsPerHost: 4, DisableCompression: true}}

func isTimeout(err error) bool {
	var ne net.Error
	return errors.As(err, &ne) && ne.Timeout()
}

func TestMain(m *testing.M) {
	code := m.Run()
	ev.Flush()
	bb.CleanupAll()
	os.Exit(code)
}

var (
	srvMu  sync.Mutex
	srv    *bb.Server
	dbSeq  int
	dbLive []string
)

// server returns the long-lived server of this test process (started on first use).
func server() *bb.Server {
	srvMu.Lock()
	defer srvMu.Unlock()
	if srv != nil && srv.Alive() {
		return srv
	}
	if srv != nil {
		// the server died: a crash of the system under test is reported by the caller; start a new one
		srv.Destroy()
	}
	srv = bb.NewServer(bb.Options{Prop: 18, NoHook: true})
	srv.MustStart()
	return srv
}

// freshDB creates a new database on the long-lived server; older ones are dropped to keep the server lean.
func freshDB(s *bb.Server) string {
	srvMu.Lock()
	dbSeq++
	name := fmt.Sprintf("p%d_%d", os.Getpid(), dbSeq)
	dbLive = append(dbLive, name)
	var drop []string
	for len(dbLive) > 3 && os.Getenv("C18_NODROP") == "" {
		drop = append(drop, dbLive[0])
		dbLive = dbLive[1:]
	}
	srvMu.Unlock()
	for _, d := range drop {
		_, _ = s.Query("", "drop database "+d, nil)
	}
	for try := 0; ; try++ {
		r, err := s.Query("", "create database "+name, nil)
		if err == nil && r.Err == "" {
			return name
		}
		if try > 50 {
			msg := ""
			if r != nil {
				msg = r.Raw
			}
			if !s.Alive() {
				msg += " [server process gone: " + s.PanicInLogs() + "]"
			}
			bb.Fatal("create database %s: %v %s", name, err, msg)
		}
		time.Sleep(100 * time.Millisecond)
	}
}

// ------------------------------------------------------------------ remote write

func encodeWrite(series []SeriesJ, base int64, pick func(si, pi int) bool) []byte {
	var req prompb.WriteRequest
	for si, s := range series {
		ts := prompb.TimeSeries{}
		names := make([]string, 0, len(s.Labels))
		for k := range s.Labels {
			names = append(names, k)
		}
		sort.Strings(names)
		for _, k := range names {
			ts.Labels = append(ts.Labels, prompb.Label{Name: k, Value: s.Labels[k]})
		}
		for pi, p := range s.Samples {
			if pick != nil && !pick(si, pi) {
				continue
			}
			ts.Samples = append(ts.Samples, prompb.Sample{Timestamp: base + p.T, Value: p.Float()})
		}
		if len(ts.Samples) > 0 {
			req.Timeseries = append(req.Timeseries, ts)
		}
	}
	if len(req.Timeseries) == 0 {
		return nil
	}
	b, err := req.Marshal()
	if err != nil {
		bb.Fatal("marshal write request: %v", err)
	}
	return snappy.Encode(nil, b)
}

// promWrite posts one remote-write request; 5xx is a refusal and is retried, anything but 204 afterwards is returned.
func promWrite(s *bb.Server, db string, body []byte) (int, string) {
	if body == nil {
		return 204, ""
	}
	var status int
	var text string
	for try := 0; try < 60; try++ {
		req, _ := http.NewRequest("POST", s.URL()+"/api/v1/write?db="+url.QueryEscape(db), bytes.NewReader(body))
		req.Header.Set("Content-Encoding", "snappy")
		req.Header.Set("Content-Type", "application/x-protobuf")
		resp, err := s.HTTP.Do(req)
		if err != nil {
			status, text = 0, err.Error()
			if !s.Alive() {
				return status, text
			}
			time.Sleep(100 * time.Millisecond)
			continue
		}
		b, _ := io.ReadAll(resp.Body)
		resp.Body.Close()
		status, text = resp.StatusCode, string(b)
		if status < 500 {
			return status, text
		}
		time.Sleep(100 * time.Millisecond)
	}
	return status, text
}

// ------------------------------------------------------------------ prom query API

type promResp struct {
	Status string `json:"status"`
	Data   struct {
		ResultType string          `json:"resultType"`
		Result     json.RawMessage `json:"result"`
	} `json:"data"`
	ErrorType string `json:"errorType"`
	Error     string `json:"error"`
}

func msToSec(ms int64) string {
	neg := ""
	if ms < 0 {
		neg, ms = "-", -ms
	}
	return fmt.Sprintf("%s%d.%03d", neg, ms/1000, ms%1000)
}

// promQuery runs an instant (step == 0) or a range query. Returns the decoded result, the HTTP status and the raw body.
func promQuery(s *bb.Server, db, expr string, start, end, step int64) (*Result, int, string, error) {
	v := url.Values{"db": {db}, "query": {expr}}
	path := "/api/v1/query"
	if step > 0 {
		path = "/api/v1/query_range"
		v.Set("start", msToSec(start))
		v.Set("end", msToSec(end))
		v.Set("step", msToSec(step))
	} else {
		v.Set("time", msToSec(start))
	}
	resp, err := queryClient.Get(s.URL() + path + "?" + v.Encode())
	if err != nil {
		if isTimeout(err) && s.Alive() {
			// the query hangs (the reference needs milliseconds): the server is replaced, it may be spinning
			s.Kill()
			return &Result{Err: fmt.Sprintf("no answer within %v", queryTimeout)}, 0, "", nil
		}
		return nil, 0, "", err
	}
	b, err := io.ReadAll(io.LimitReader(resp.Body, maxBody+1))
	resp.Body.Close()
	if err != nil {
		if isTimeout(err) && s.Alive() {
			s.Kill()
			return &Result{Err: fmt.Sprintf("answer not complete within %v", queryTimeout)}, 0, "", nil
		}
		return nil, 0, "", err
	}
	if len(b) > maxBody {
		// a runaway answer (the reference answers of the generated queries are a few KiB)
		queryClient.CloseIdleConnections()
		return &Result{Err: fmt.Sprintf("response body larger than %d bytes, starts with: %.600s", maxBody, string(b))}, resp.StatusCode, "", nil
	}
	raw := string(b)
	var pr promResp
	dec := json.NewDecoder(bytes.NewReader(b))
	dec.UseNumber()
	if err := dec.Decode(&pr); err != nil {
		return &Result{Err: fmt.Sprintf("undecodable body (status %d): %.300s", resp.StatusCode, raw)}, resp.StatusCode, raw, nil
	}
	if pr.Status != "success" {
		return &Result{Err: fmt.Sprintf("status %d %s: %s", resp.StatusCode, pr.ErrorType, pr.Error)}, resp.StatusCode, raw, nil
	}
	res, derr := decodeResult(pr.Data.ResultType, pr.Data.Result)
	if derr != nil {
		return &Result{Err: fmt.Sprintf("undecodable result: %v: %.300s", derr, raw)}, resp.StatusCode, raw, nil
	}
	return res, resp.StatusCode, raw, nil
}

func parseTS(n json.Number) (int64, error) {
	// seconds with a fractional part -> integer milliseconds (exact for decimal strings with <= 3 digits)
	f, err := strconv.ParseFloat(n.String(), 64)
	if err != nil {
		return 0, err
	}
	ms := f * 1000
	if ms >= 0 {
		return int64(ms + 0.5), nil
	}
	return int64(ms - 0.5), nil
}

func parsePair(raw json.RawMessage) (Point, error) {
	var pair []json.RawMessage
	if err := json.Unmarshal(raw, &pair); err != nil || len(pair) != 2 {
		return Point{}, fmt.Errorf("bad [ts,value] pair %s", string(raw))
	}
	var ts json.Number
	d := json.NewDecoder(bytes.NewReader(pair[0]))
	d.UseNumber()
	if err := d.Decode(&ts); err != nil {
		return Point{}, err
	}
	t, err := parseTS(ts)
	if err != nil {
		return Point{}, err
	}
	var vs string
	if err := json.Unmarshal(pair[1], &vs); err != nil {
		return Point{}, fmt.Errorf("value is not a string: %s", string(pair[1]))
	}
	f, err := strconv.ParseFloat(vs, 64)
	if err != nil {
		return Point{}, err
	}
	return Point{T: t, V: f}, nil
}

func decodeResult(typ string, raw json.RawMessage) (*Result, error) {
	res := &Result{Type: typ}
	switch typ {
	case "vector":
		var items []struct {
			Metric map[string]string `json:"metric"`
			Value  json.RawMessage   `json:"value"`
		}
		if err := json.Unmarshal(raw, &items); err != nil {
			return nil, err
		}
		for _, it := range items {
			p, err := parsePair(it.Value)
			if err != nil {
				return nil, err
			}
			res.Series = append(res.Series, RSeries{Labels: it.Metric, Points: []Point{p}})
		}
	case "matrix":
		var items []struct {
			Metric map[string]string `json:"metric"`
			Values []json.RawMessage `json:"values"`
		}
		if err := json.Unmarshal(raw, &items); err != nil {
			return nil, err
		}
		for _, it := range items {
			rs := RSeries{Labels: it.Metric}
			for _, v := range it.Values {
				p, err := parsePair(v)
				if err != nil {
					return nil, err
				}
				rs.Points = append(rs.Points, p)
			}
			res.Series = append(res.Series, rs)
		}
	case "scalar":
		p, err := parsePair(raw)
		if err != nil {
			return nil, err
		}
		res.Series = append(res.Series, RSeries{Labels: map[string]string{}, Points: []Point{p}})
	default:
		return nil, fmt.Errorf("unexpected result type %q", typ)
	}
	return res, nil
}

// awaitVisible polls (InfluxQL raw select) until every written series shows all its samples.
func awaitVisible(s *bb.Server, db string, d *DataJ) bool {
	want := map[string]int{}
	msts := map[string]bool{}
	for _, se := range d.Series {
		if len(se.Samples) == 0 {
			continue
		}
		want[labelKey(se.Labels)] = len(se.Samples)
		msts[se.Labels["__name__"]] = true
	}
	names := make([]string, 0, len(msts))
	for m := range msts {
		names = append(names, bb.Quote(m))
	}
	sort.Strings(names)
	if len(names) == 0 {
		return true
	}
	q := "select count(value) from " + strings.Join(names, ",") + " group by *"
	deadline := time.Now().Add(30 * time.Second)
	for {
		res, err := s.Query(db, q, nil)
		if err == nil && res.Err == "" && len(res.Results) > 0 {
			got := map[string]int{}
			for _, se := range res.Results[0].Series {
				n := 0
				if len(se.Values) > 0 && len(se.Values[0]) > 1 {
					if num, ok := se.Values[0][1].(json.Number); ok {
						i, _ := num.Int64()
						n = int(i)
					}
				}
				got[labelKey(se.Tags)] = n
			}
			ok := true
			for k, n := range want {
				if got[k] < n {
					ok = false
				}
			}
			if ok {
				return true
			}
		}
		if time.Now().After(deadline) || !s.Alive() {
			return false
		}
		time.Sleep(100 * time.Millisecond)
	}
}
