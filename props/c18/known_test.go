package c18

import (
	"os"
	"regexp"
	"strings"

	"github.com/prometheus/prometheus/model/labels"
)

// knownClass names the known-finding class a generated query falls into ("" = none). Queries of such a class are
// left out of the generated campaigns (counted as excluded); each class has a replay under replays/C18/.
func knownClass(d *DataJ, q QueryJ, g *exprGen) string {
	if os.Getenv("C18_NO_EXCLUSIONS") != "" {
		return ""
	}
	for _, m := range g.matchers {
		// K1: a matcher with an empty value is dropped by the translation (selector.go: `if len(item.Value) == 0 { continue }`)
		if m.Value == "" {
			return "matcher_with_empty_value"
		}
		// K3: a matcher on a label name that no series of the selected metric carries is ignored, although it does not
		// match the empty string (upstream: no series)
		if mt, err := labels.NewMatcher(matchType(m.Op), m.Label, m.Value); err == nil && !mt.Matches("") {
			has := false
			for _, s := range d.Series {
				if s.Labels["__name__"] == m.Metric && s.Labels[m.Label] != "" {
					has = true
				}
			}
			if !has {
				return "matcher_on_label_unknown_to_metric"
			}
		}
		// K2: regex matchers are compiled unanchored; excluded when, for a value of that label present in the sample set
		// (or the empty string of a series without the label), substring match and full match differ
		if m.Op == "=~" || m.Op == "!~" {
			un, err1 := regexp.Compile(m.Value)
			an, err2 := regexp.Compile("^(?:" + m.Value + ")$")
			if err1 != nil || err2 != nil {
				continue
			}
			vals := map[string]bool{}
			for _, s := range d.Series {
				vals[s.Labels[m.Label]] = true
			}
			for v := range vals {
				if un.MatchString(v) != an.MatchString(v) {
					return "regex_matcher_unanchored"
				}
			}
		}
	}
	_ = strings.Contains
	return ""
}

func matchType(op string) labels.MatchType {
	switch op {
	case "=":
		return labels.MatchEqual
	case "!=":
		return labels.MatchNotEqual
	case "=~":
		return labels.MatchRegexp
	}
	return labels.MatchNotRegexp
}
