package c18

import (
	"os"
	"regexp"
	"strings"
)

// knownClass names the known-finding class a generated query falls into ("" = none). Queries of such a class are
// left out of the generated campaigns (counted as excluded); each class has a replay under replays/C18/.
func knownClass(d *DataJ, q QueryJ, g *exprGen) string {
	if os.Getenv("C18_NO_EXCLUSIONS") != "" {
		return ""
	}
	for _, m := range g.matchers {
		// K1: a matcher with an empty value is dropped by the translation (selector.go: `if len(item.Value) == 0 { continue }`)
		if m.Value == "" {
			return "matcher_with_empty_value"
		}
		// K2: regex matchers are compiled unanchored; excluded when, for a value of that label present in the sample set
		// (or the empty string of a series without the label), substring match and full match differ
		if m.Op == "=~" || m.Op == "!~" {
			un, err1 := regexp.Compile(m.Value)
			an, err2 := regexp.Compile("^(?:" + m.Value + ")$")
			if err1 != nil || err2 != nil {
				continue
			}
			vals := map[string]bool{}
			for _, s := range d.Series {
				vals[s.Labels[m.Label]] = true
			}
			for v := range vals {
				if un.MatchString(v) != an.MatchString(v) {
					return "regex_matcher_unanchored"
				}
			}
		}
	}
	_ = strings.Contains
	return ""
}
