package c18

import (
	"math"
	"os"
	"regexp"
	"strconv"
	"time"

	"github.com/prometheus/prometheus/model/labels"
	"github.com/prometheus/prometheus/model/value"
	"github.com/prometheus/prometheus/promql/parser"
)

// selUse is one selector of an expression with its context.
type selUse struct {
	underAgg bool // some ancestor is an aggregation
	vs       *parser.VectorSelector
	metric   string
	rng      int64  // ms, 0 = instant vector selector
	off      int64  // ms
	fn       string // function applied directly to the range vector ("" otherwise)
}

func selectorsOf(expr parser.Expr) []selUse {
	var out []selUse
	parser.Inspect(expr, func(node parser.Node, path []parser.Node) error {
		vs, ok := node.(*parser.VectorSelector)
		if !ok {
			return nil
		}
		u := selUse{vs: vs, metric: vs.Name, off: int64(vs.OriginalOffset / time.Millisecond)}
		for _, m := range vs.LabelMatchers {
			if m.Name == "__name__" && m.Type == labels.MatchEqual {
				u.metric = m.Value
			}
		}
		for _, p := range path {
			if _, ok := p.(*parser.AggregateExpr); ok {
				u.underAgg = true
			}
		}
		if n := len(path); n > 0 {
			if ms, ok := path[n-1].(*parser.MatrixSelector); ok {
				u.rng = int64(ms.Range / time.Millisecond)
				if n > 1 {
					if c, ok := path[n-2].(*parser.Call); ok {
						u.fn = c.Func.Name
					}
				}
			}
		}
		out = append(out, u)
		return nil
	})
	return out
}

// recordsOf splits the samples of a series the way the storage holds them in the generated layouts: one record per
// (shard group, file | memtable).
func recordsOf(d *DataJ, se *SeriesJ) [][]SampleJ {
	var cut []int64
	if d.Flush == 2 || d.Flush == 3 {
		var lo, hi int64 = 1 << 62, -(1 << 62)
		for _, s := range d.Series {
			for _, p := range s.Samples {
				lo, hi = min(lo, p.T), max(hi, p.T)
			}
		}
		cut = append(cut, lo+(hi-lo)/2+1) // first timestamp of the second part
	}
	const week = int64(7 * 24 * 3600 * 1000)
	if b := (d.Base/week + 1) * week; b-d.Base < 4*3600*1000 {
		cut = append(cut, b-d.Base)
	}
	part := func(t int64) int {
		n := 0
		for i, c := range cut {
			if t >= c {
				n |= 1 << i
			}
		}
		return n
	}
	var recs [][]SampleJ
	var cur []SampleJ
	last := -1
	for _, p := range se.Samples {
		k := part(p.T)
		if k != last && len(cur) > 0 {
			recs = append(recs, cur)
			cur = nil
		}
		last = k
		cur = append(cur, p)
	}
	if len(cur) > 0 {
		recs = append(recs, cur)
	}
	return recs
}

func nameMatchers(vs *parser.VectorSelector) int {
	n := 0
	for _, m := range vs.LabelMatchers {
		if m.Name == "__name__" {
			n++
		}
	}
	if vs.Name != "" && n == 0 {
		return 0
	}
	return n
}

func unparen(e parser.Expr) parser.Expr {
	for {
		p, ok := e.(*parser.ParenExpr)
		if !ok {
			return e
		}
		e = p.Expr
	}
}

func hasRangeCall(e parser.Expr) bool {
	found := false
	parser.Inspect(e, func(node parser.Node, _ []parser.Node) error {
		if _, ok := node.(*parser.MatrixSelector); ok {
			found = true
		}
		return nil
	})
	return found
}

var gapFns = map[string]bool{"avg_over_time": true, "min_over_time": true, "max_over_time": true, "sum_over_time": true, "count_over_time": true, "last_over_time": true}

// knownClass names the known-finding class a query falls into ("" = none). Queries of such a class are left out of the
// generated campaigns (counted as excluded); each class has a replay under replays/C18/.
func knownClass(d *DataJ, q QueryJ) string {
	instant := q.Step == 0
	if os.Getenv("C18_NO_EXCLUSIONS") != "" {
		return ""
	}
	expr, err := parser.ParseExpr(q.Expr)
	if err != nil {
		return ""
	}
	sels := selectorsOf(expr)
	for _, u := range sels {
		for _, m := range u.vs.LabelMatchers {
			if m.Name == "__name__" {
				continue
			}
			// K1: a matcher with an empty value is dropped by the translation
			if m.Value == "" {
				return "matcher_with_empty_value"
			}
			// K3: a matcher on a label name that no series of the selected metric carries is ignored although it does
			// not match the empty string (upstream: no series), and it makes the other matchers of the selector ineffective
			if others := len(u.vs.LabelMatchers) - 1 - nameMatchers(u.vs); !m.Matches("") || others > 0 {
				has := false
				for _, s := range d.Series {
					if s.Labels["__name__"] == u.metric && s.Labels[m.Name] != "" {
						has = true
					}
				}
				if !has {
					return "matcher_on_label_unknown_to_metric"
				}
			}
			// K2: regex matchers are compiled unanchored; excluded when, for a value of that label in the sample set
			// (or the empty string of a series without the label), substring match and full match differ
			if m.Type == labels.MatchRegexp || m.Type == labels.MatchNotRegexp {
				un, err := regexp.Compile(m.Value)
				if err != nil {
					continue
				}
				for _, s := range d.Series {
					v := s.Labels[m.Name]
					full := m.Matches(v)
					if m.Type == labels.MatchNotRegexp {
						full = !full
					}
					if un.MatchString(v) != full {
						return "regex_matcher_unanchored"
					}
				}
			}
		}
	}
	// K7: an aggregation whose by/without list names __name__
	k7 := false
	parser.Inspect(expr, func(node parser.Node, _ []parser.Node) error {
		if a, ok := node.(*parser.AggregateExpr); ok {
			for _, g := range a.Grouping {
				if g == "__name__" {
					k7 = true
				}
			}
		}
		return nil
	})
	if k7 {
		return "aggregation_grouping_names_metric_name"
	}
	// K10: grouped aggregation (by / without) directly over a vector-vector operator of which exactly one operand
	// contains a range-function call: the answer is empty
	k10, k10b, k10c := false, false, false
	parser.Inspect(expr, func(node parser.Node, _ []parser.Node) error {
		a, ok := node.(*parser.AggregateExpr)
		if !ok || (len(a.Grouping) == 0 && !a.Without) {
			return nil
		}
		inner := a.Expr
		for {
			p, ok := inner.(*parser.ParenExpr)
			if !ok {
				break
			}
			inner = p.Expr
		}
		b, ok := inner.(*parser.BinaryExpr)
		if !ok || b.LHS.Type() != parser.ValueTypeVector || b.RHS.Type() != parser.ValueTypeVector {
			return nil
		}
		if hasRangeCall(b.LHS) != hasRangeCall(b.RHS) {
			k10 = true
		}
		// K10c: ... or the aggregation is "without ()" (empty list) in a range query: the answer is empty
		if a.Without && len(a.Grouping) == 0 && !instant {
			k10c = true
		}
		// K10b: ... or the operator has an on/ignoring modifier (the grouping is applied to the operands before they are
		// matched, label differences outside the by-list are lost)
		if vm := b.VectorMatching; vm != nil && (vm.On || len(vm.MatchingLabels) > 0) {
			k10b = true
		}
		return nil
	})
	if k10 {
		return "grouped_aggregation_over_operator_mixing_selector_and_range_function"
	}
	if k10b {
		return "grouped_aggregation_over_operator_with_on_or_ignoring"
	}
	if k10c {
		return "aggregation_without_empty_list_over_vector_operator"
	}
	// K11: instant query, a selector with a negative offset below two or more nested operators / aggregations (at least
	// one binary operator): the answer carries the timestamp t+|offset| or is empty
	// K12: a comparison whose vector operand is itself a comparison with the bool modifier
	k11, k12 := false, false
	parser.Inspect(expr, func(node parser.Node, path []parser.Node) error {
		switch n := node.(type) {
		case *parser.VectorSelector:
			if n.OriginalOffset < 0 && instant {
				depth, bin := 0, false
				for _, p := range path {
					switch p.(type) {
					case *parser.BinaryExpr:
						depth++
						bin = true
					case *parser.AggregateExpr:
						depth++
					}
				}
				if depth >= 2 && bin {
					k11 = true
				}
			}
		case *parser.BinaryExpr:
			if !n.Op.IsComparisonOperator() {
				return nil
			}
			for _, side := range []parser.Expr{n.LHS, n.RHS} {
				for {
					p, ok := side.(*parser.ParenExpr)
					if !ok {
						break
					}
					side = p.Expr
				}
				if in, ok := side.(*parser.BinaryExpr); ok && in.Op.IsComparisonOperator() && in.ReturnBool {
					k12 = true
				}
			}
		}
		return nil
	})
	// K13: instant query, aggregation directly over (vector-vector operator) <op> scalar: the aggregation is not applied
	if instant {
		k13 := false
		parser.Inspect(expr, func(node parser.Node, _ []parser.Node) error {
			a, ok := node.(*parser.AggregateExpr)
			if !ok {
				return nil
			}
			b, ok := unparen(a.Expr).(*parser.BinaryExpr)
			if !ok {
				return nil
			}
			for _, pair := range [][2]parser.Expr{{b.LHS, b.RHS}, {b.RHS, b.LHS}} {
				if pair[1].Type() != parser.ValueTypeScalar {
					continue
				}
				if in, ok := unparen(pair[0]).(*parser.BinaryExpr); ok && in.LHS.Type() == parser.ValueTypeVector && in.RHS.Type() == parser.ValueTypeVector {
					k13 = true
				}
			}
			return nil
		})
		if k13 {
			return "instant_aggregation_over_vector_operator_combined_with_scalar"
		}
	}
	if k11 {
		return "instant_negative_offset_in_nested_operator"
	}
	if k12 {
		return "comparison_of_bool_comparison"
	}
	// K8: range query, aggregation over a selector whose offset is larger than the step
	if q.Step > 0 {
		for _, u := range sels {
			if u.underAgg && (u.off > q.Step || -u.off > q.Step) {
				return "aggregation_over_offset_larger_than_step"
			}
		}
	}
	// K9: range query, vector-vector operator: a series on the right-hand side has its last point earlier than a
	// series on the left-hand side (the merge then runs on into the rows of the next right-hand series)
	if q.Step > 0 {
		k9 := false
		var st *memStore
		parser.Inspect(expr, func(node parser.Node, _ []parser.Node) error {
			b, ok := node.(*parser.BinaryExpr)
			if !ok || k9 || b.LHS.Type() != parser.ValueTypeVector || b.RHS.Type() != parser.ValueTypeVector {
				return nil
			}
			if st == nil {
				st = newMemStore(d)
			}
			l := refQuery(st, b.LHS.String(), d.Base+q.Start, d.Base+q.End, q.Step)
			r := refQuery(st, b.RHS.String(), d.Base+q.Start, d.Base+q.End, q.Step)
			if l.Err != "" || r.Err != "" {
				return nil
			}
			lastOf := func(res *Result, latest bool) (int64, bool) {
				var out int64
				found := false
				for _, se := range res.Series {
					if len(se.Points) == 0 {
						continue
					}
					t := se.Points[len(se.Points)-1].T
					if !found || (latest && t > out) || (!latest && t < out) {
						out, found = t, true
					}
				}
				return out, found
			}
			lmax, ok1 := lastOf(l, true)
			rmin, ok2 := lastOf(r, false)
			if ok1 && ok2 && lmax > rmin && len(r.Series) > 1 {
				k9 = true
			}
			if b.VectorMatching != nil && b.VectorMatching.Card != parser.CardOneToOne {
				rmax, _ := lastOf(r, true)
				lmin, _ := lastOf(l, false)
				if ok1 && ok2 && rmax > lmin && len(l.Series) > 1 {
					k9 = true
				}
			}
			return nil
		})
		if k9 {
			return "vector_vector_right_series_ends_before_left"
		}
	}
	// K16: vector-vector arithmetic / comparison operator: over the queried range the "one" side of the matching (both
	// sides of a one-to-one matching; the left-hand side only when the right-hand side holds its signature) has two series
	// with the same matching signature. The server refuses that while it builds its match maps, whatever the values and
	// the timestamps, and answers with an empty result; upstream looks at each step, and only at pairs a filter keeps.
	{
		k16 := false
		var st *memStore
		parser.Inspect(expr, func(node parser.Node, _ []parser.Node) error {
			b, ok := node.(*parser.BinaryExpr)
			if !ok || k16 || b.Op.IsSetOperator() || b.LHS.Type() != parser.ValueTypeVector || b.RHS.Type() != parser.ValueTypeVector {
				return nil
			}
			if st == nil {
				st = newMemStore(d)
			}
			l := refQuery(st, b.LHS.String(), d.Base+q.Start, d.Base+q.End, q.Step)
			r := refQuery(st, b.RHS.String(), d.Base+q.Start, d.Base+q.End, q.Step)
			if l.Err != "" || r.Err != "" {
				return nil
			}
			if duplicateMatchSignature(b.VectorMatching, l, r) {
				k16 = true
			}
			return nil
		})
		if k16 {
			return "vector_matching_duplicate_signature_on_one_side"
		}
	}
	// K17: grouped aggregation (by / without) directly over a vector-vector operator whose operands both contain a range
	// function: the operands are regrouped by the aggregation's labels before the operator sees them, and the operator
	// pairs the rows of a group by position. Wrong as soon as, in some group that both operands populate, the operands'
	// series differ, or (two or more series) their (step, series) rows differ (a sample without a partner).
	{
		k17 := false
		var st *memStore
		parser.Inspect(expr, func(node parser.Node, _ []parser.Node) error {
			a, ok := node.(*parser.AggregateExpr)
			if !ok || k17 || (len(a.Grouping) == 0 && !a.Without) {
				return nil
			}
			b, ok := unparen(a.Expr).(*parser.BinaryExpr)
			if !ok || b.Op.IsSetOperator() || b.LHS.Type() != parser.ValueTypeVector || b.RHS.Type() != parser.ValueTypeVector {
				return nil
			}
			if !hasRangeCall(b.LHS) || !hasRangeCall(b.RHS) {
				return nil
			}
			if st == nil {
				st = newMemStore(d)
			}
			l := refQuery(st, b.LHS.String(), d.Base+q.Start, d.Base+q.End, q.Step)
			r := refQuery(st, b.RHS.String(), d.Base+q.Start, d.Base+q.End, q.Step)
			if l.Err != "" || r.Err != "" {
				return nil
			}
			if unpairedRowsInSharedGroup(a, b.VectorMatching, l, r) {
				k17 = true
			}
			return nil
		})
		if k17 {
			return "grouped_aggregation_over_operator_of_range_functions_with_unpaired_samples"
		}
	}
	// K11b: instant query, vector-vector operator of which one operand is an aggregation over a range function with an
	// offset and the other operand contains a vector-vector operator: the aggregated sample is looked up at / stamped with
	// t - offset (empty answer or shifted timestamp); same family as K11
	if instant {
		k11b := false
		aggOverOffsetRange := func(e parser.Expr) bool {
			a, ok := unparen(e).(*parser.AggregateExpr)
			if !ok {
				return false
			}
			for _, u := range selectorsOf(a.Expr) {
				if u.rng > 0 && u.off != 0 {
					return true
				}
			}
			return false
		}
		holdsVectorOperator := func(e parser.Expr) bool {
			found := false
			parser.Inspect(e, func(node parser.Node, _ []parser.Node) error {
				if b, ok := node.(*parser.BinaryExpr); ok && b.LHS.Type() == parser.ValueTypeVector && b.RHS.Type() == parser.ValueTypeVector {
					found = true
				}
				return nil
			})
			return found
		}
		parser.Inspect(expr, func(node parser.Node, _ []parser.Node) error {
			b, ok := node.(*parser.BinaryExpr)
			if !ok || b.LHS.Type() != parser.ValueTypeVector || b.RHS.Type() != parser.ValueTypeVector {
				return nil
			}
			if (aggOverOffsetRange(b.LHS) && holdsVectorOperator(b.RHS)) || (aggOverOffsetRange(b.RHS) && holdsVectorOperator(b.LHS)) {
				k11b = true
			}
			return nil
		})
		if k11b {
			return "instant_aggregation_over_offset_range_function_beside_nested_operator"
		}
	}
	// K18: a comparison with the bool modifier between a scalar and a vector operand that is a unary minus expression
	// (the generator writes one as "-1 ^ v", which parses as -(1 ^ v)): the modifier is ignored, the comparison filters
	{
		k18 := false
		parser.Inspect(expr, func(node parser.Node, _ []parser.Node) error {
			b, ok := node.(*parser.BinaryExpr)
			if !ok || !b.Op.IsComparisonOperator() || !b.ReturnBool {
				return nil
			}
			for _, pair := range [][2]parser.Expr{{b.LHS, b.RHS}, {b.RHS, b.LHS}} {
				if pair[1].Type() != parser.ValueTypeScalar || pair[0].Type() != parser.ValueTypeVector {
					continue
				}
				if u, ok := unparen(pair[0]).(*parser.UnaryExpr); ok && u.Op == parser.SUB {
					k18 = true
				}
			}
			return nil
		})
		if k18 {
			return "bool_comparison_of_unary_minus"
		}
	}
	// R1 (oracle, not a finding): some comparison of the expression has, at some step, operands that the reference itself
	// computes equal up to the rounding the property grants (1e-9 relative) without being identical, or identical and not
	// zero while one of them comes from an order-dependent floating-point computation (rate, increase, delta, irate,
	// idelta, avg/sum/stddev/stdvar_over_time, sum, avg): one unit in the last place decides what the comparison keeps,
	// the answer is not determined "up to floating-point rounding"
	{
		var st *memStore
		r1 := false
		absEps := 1e-12 * maxAbs(d)
		near := func(a, b float64, inexact bool) bool {
			if math.IsNaN(a) || math.IsNaN(b) || math.IsInf(a, 0) || math.IsInf(b, 0) {
				return false
			}
			if a == b {
				return inexact && a != 0
			}
			df := math.Abs(a - b)
			return df <= 1e-9*math.Max(math.Abs(a), math.Abs(b)) || df <= absEps
		}
		parser.Inspect(expr, func(node parser.Node, _ []parser.Node) error {
			b, ok := node.(*parser.BinaryExpr)
			if !ok || r1 || !b.Op.IsComparisonOperator() {
				return nil
			}
			if b.LHS.Type() == parser.ValueTypeScalar && b.RHS.Type() == parser.ValueTypeScalar {
				return nil
			}
			if st == nil {
				st = newMemStore(d)
			}
			l := refQuery(st, b.LHS.String(), d.Base+q.Start, d.Base+q.End, q.Step)
			r := refQuery(st, b.RHS.String(), d.Base+q.Start, d.Base+q.End, q.Step)
			if l.Err != "" || r.Err != "" {
				return nil
			}
			inexact := orderDependentArithmetic(b.LHS) || orderDependentArithmetic(b.RHS)
			scalarSide := b.LHS.Type() == parser.ValueTypeScalar || b.RHS.Type() == parser.ValueTypeScalar
			type key struct {
				sig string
				t   int64
			}
			right := map[key][]float64{}
			for _, s := range r.Series {
				sig := ""
				if !scalarSide {
					sig = matchSignature(b.VectorMatching, s.Labels)
				}
				for _, p := range s.Points {
					right[key{sig, p.T}] = append(right[key{sig, p.T}], p.V)
				}
			}
			for _, s := range l.Series {
				sig := ""
				if !scalarSide {
					sig = matchSignature(b.VectorMatching, s.Labels)
				}
				for _, p := range s.Points {
					for _, v := range right[key{sig, p.T}] {
						if near(p.V, v, inexact) {
							r1 = true
						}
					}
				}
			}
			return nil
		})
		if r1 {
			return "comparison_decided_by_rounding (oracle)"
		}
	}
	// K14: min / max over an expression (not a bare selector) whose value is NaN or +-Inf at some step: the answer is
	// -+MaxFloat64.  K15: a filtering comparison (no bool) keeps NaN samples.
	{
		var st *memStore
		k14, k15 := false, false
		special := func(e parser.Expr, inf bool) bool {
			if st == nil {
				st = newMemStore(d)
			}
			r := refQuery(st, e.String(), d.Base+q.Start, d.Base+q.End, q.Step)
			if r.Err != "" {
				return false
			}
			for _, se := range r.Series {
				for _, p := range se.Points {
					if math.IsNaN(p.V) || (inf && math.IsInf(p.V, 0)) {
						return true
					}
				}
			}
			return false
		}
		parser.Inspect(expr, func(node parser.Node, _ []parser.Node) error {
			switch n := node.(type) {
			case *parser.AggregateExpr:
				if n.Op != parser.MIN && n.Op != parser.MAX {
					return nil
				}
				if _, bare := unparen(n.Expr).(*parser.VectorSelector); !bare && special(n.Expr, true) {
					k14 = true
				}
			case *parser.BinaryExpr:
				if !n.Op.IsComparisonOperator() || n.ReturnBool {
					return nil
				}
				for _, side := range []parser.Expr{n.LHS, n.RHS} {
					if side.Type() == parser.ValueTypeVector && special(side, false) {
						k15 = true
					}
				}
			}
			return nil
		})
		if k14 {
			return "min_max_over_expression_with_nan_or_inf"
		}
		if k15 {
			return "filter_comparison_keeps_nan"
		}
	}
	// K6: a later stored record of a series begins with (or holds nothing but) a staleness marker, e.g. the marker is
	// in the memtable and the samples before it are in a file: range functions lose the windows that hold the samples
	// of the earlier record, or never answer
	for _, u := range sels {
		if u.rng == 0 {
			continue
		}
		for si := range d.Series {
			se := &d.Series[si]
			if se.Labels["__name__"] != u.metric {
				continue
			}
			recs := recordsOf(d, se)
			if len(recs) < 2 {
				continue
			}
			for ri, rec := range recs {
				only := true
				for _, p := range rec {
					if p.V != "stale" {
						only = false
					}
				}
				if only || (ri > 0 && rec[0].V == "stale") {
					return "record_begins_with_staleness_marker"
				}
			}
		}
	}
	if q.Step > 0 {
		steps := q.steps()
		for _, u := range sels {
			if u.rng == 0 {
				// K4c (same cause as K4b, instant vector selector): the query end is not on the step grid, a stored record
				// of the series ends after the last evaluation timestamp and the next record begins not after the end:
				// the sample of the last step is lost (the carried-over "previous sample" is the one after the step)
				for si := range d.Series {
					se := &d.Series[si]
					if se.Labels["__name__"] != u.metric {
						continue
					}
					recs := recordsOf(d, se)
					for ri := 1; ri < len(recs); ri++ {
						prev := recs[ri-1]
						a, t0 := prev[len(prev)-1].T+u.off, recs[ri][0].T+u.off
						if a > steps[len(steps)-1] && t0 <= q.End {
							return "record_starts_between_last_step_and_end"
						}
					}
				}
				continue
			}
			for si := range d.Series {
				se := &d.Series[si]
				if se.Labels["__name__"] != u.metric {
					continue
				}
				recs := recordsOf(d, se)
				for ri, rec := range recs {
					// samples fetched by the query and not staleness markers
					var ts []int64
					for _, p := range rec {
						t := p.T + u.off
						if t >= steps[0]-u.rng && t <= steps[len(steps)-1] && !value.IsStaleNaN(p.Float()) {
							ts = append(ts, t)
						}
					}
					// K4b: the query end is not on the step grid and a later stored record of the series has its first
					// sample after the last evaluation timestamp but not after the end: the last window is lost
					// (sum/avg/min/max/count/last_over_time, irate, idelta; rate, increase, delta, stddev/stdvar/present_over_time are right)
					if (gapFns[u.fn] || u.fn == "irate" || u.fn == "idelta") && ri > 0 && len(rec) > 0 {
						if t0 := rec[0].T + u.off; t0 > steps[len(steps)-1] && t0 <= q.End {
							return "record_starts_between_last_step_and_end"
						}
					}
					if len(ts) == 0 {
						continue
					}
					if q.Step <= u.rng {
						continue
					}
					// K4: every fetched sample of a stored record lies in the same gap between two evaluation windows
					if gapFns[u.fn] {
						for k := 0; k+1 < len(steps); k++ {
							if ts[0] > steps[k] && ts[len(ts)-1] < steps[k+1]-u.rng {
								return "all_samples_of_a_record_between_two_windows"
							}
						}
					}
					// K5: a window spans two stored records of the series and the first sample of the second record
					// lies exactly on the evaluation timestamp (not the first one)
					if ri > 0 {
						prev := recs[ri-1]
						pt := prev[len(prev)-1].T + u.off
						for k := 1; k < len(steps); k++ {
							if ts[0] == steps[k] && pt >= steps[k]-u.rng && rec[0].T+u.off == ts[0] {
								return "window_spans_two_records_second_starts_on_step"
							}
						}
					}
				}
			}
		}
	}
	return ""
}

// matchSignature renders the labels a vector matching compares (on: the listed labels; otherwise all labels but the
// listed ones and the metric name).
func matchSignature(vm *parser.VectorMatching, lbls map[string]string) string {
	m := map[string]string{}
	if vm != nil && vm.On {
		for _, n := range vm.MatchingLabels {
			m[n] = lbls[n]
		}
	} else {
		for k, v := range lbls {
			m[k] = v
		}
		delete(m, "__name__")
		if vm != nil {
			for _, n := range vm.MatchingLabels {
				delete(m, n)
			}
		}
	}
	return labelKey(m)
}

// duplicateMatchSignature: l and r are the operands' answers over the whole queried range. True when the side the server
// indexes first (right; left for group_right) holds two series with one matching signature, or, one-to-one, the
// left side holds two series with a signature that the right side holds as well.
func duplicateMatchSignature(vm *parser.VectorMatching, l, r *Result) bool {
	count := func(res *Result) map[string]int {
		m := map[string]int{}
		for _, s := range res.Series {
			m[matchSignature(vm, s.Labels)]++
		}
		return m
	}
	dup := func(m map[string]int, partner map[string]int) bool {
		for k, n := range m {
			if n > 1 && (partner == nil || partner[k] > 0) {
				return true
			}
		}
		return false
	}
	ls, rs := count(l), count(r)
	card := parser.CardOneToOne
	if vm != nil {
		card = vm.Card
	}
	switch card {
	case parser.CardOneToMany:
		return dup(ls, nil)
	case parser.CardManyToOne:
		return dup(rs, nil)
	default:
		return dup(rs, nil) || dup(ls, rs)
	}
}

// aggregationGroup renders the output group of the aggregation a series with these labels falls into.
func aggregationGroup(a *parser.AggregateExpr, lbls map[string]string) string {
	m := map[string]string{}
	if a.Without {
		for k, v := range lbls {
			m[k] = v
		}
		delete(m, "__name__")
		for _, n := range a.Grouping {
			delete(m, n)
		}
	} else {
		for _, n := range a.Grouping {
			m[n] = lbls[n]
		}
	}
	return labelKey(m)
}

// unpairedRowsInSharedGroup: l and r are the operands' answers over the whole queried range. True when some group of
// the aggregation holds rows of both operands and either the operands' series in that group are not the same (by
// matching signature), or there are two or more of them and the (step, series) rows of the operands differ.
func unpairedRowsInSharedGroup(a *parser.AggregateExpr, vm *parser.VectorMatching, l, r *Result) bool {
	type side struct {
		rows   map[string]bool
		series map[string]bool
	}
	collect := func(res *Result) map[string]*side {
		out := map[string]*side{}
		for _, s := range res.Series {
			if len(s.Points) == 0 {
				continue
			}
			g := aggregationGroup(a, s.Labels)
			sd := out[g]
			if sd == nil {
				sd = &side{rows: map[string]bool{}, series: map[string]bool{}}
				out[g] = sd
			}
			sig := matchSignature(vm, s.Labels)
			sd.series[sig] = true
			for _, p := range s.Points {
				sd.rows[strconv.FormatInt(p.T, 10)+"|"+sig] = true
			}
		}
		return out
	}
	lg, rg := collect(l), collect(r)
	for g, ls := range lg {
		rs := rg[g]
		if rs == nil {
			continue
		}
		same := len(ls.series) == len(rs.series)
		for k := range ls.series {
			if !rs.series[k] {
				same = false
			}
		}
		if !same {
			return true // the group pairs series that the operator does not match
		}
		if len(ls.series) < 2 {
			continue // one series on either side, the same one: paired by time
		}
		if len(ls.rows) != len(rs.rows) {
			return true
		}
		for k := range ls.rows {
			if !rs.rows[k] {
				return true
			}
		}
	}
	return false
}

var orderDependentFns = map[string]bool{"rate": true, "increase": true, "delta": true, "irate": true, "idelta": true,
	"avg_over_time": true, "sum_over_time": true, "stddev_over_time": true, "stdvar_over_time": true}

// orderDependentArithmetic: the value of e comes from a floating-point computation whose rounding depends on the order
// of the operations (two correct implementations may differ in the last place).
func orderDependentArithmetic(e parser.Expr) bool {
	found := false
	parser.Inspect(e, func(node parser.Node, _ []parser.Node) error {
		switch n := node.(type) {
		case *parser.Call:
			if orderDependentFns[n.Func.Name] {
				found = true
			}
		case *parser.AggregateExpr:
			if n.Op == parser.SUM || n.Op == parser.AVG {
				found = true
			}
		}
		return nil
	})
	return found
}
