package c18

import (
	"encoding/json"
	"fmt"
	"os"
	"sort"
	"strings"
	"sync/atomic"
	"testing"

	"github.com/prometheus/prometheus/promql/parser"
	"pgregory.net/rapid"
	"verif/internal/ev"
)

var exprCount, surveySeq atomic.Int64

// runRung is one rung of the ladder: a generated sample set, 10..24 generated expressions of the rung with generated
// evaluation times; every expression is evaluated as a range query and as the instant queries at its steps by the
// server and by the upstream engine.
func runRung(t *testing.T, campaign string, rung int) {
	rapid.Check(t, ev.Prop(prop, campaign, func(t *rapid.T, c *ev.Case) {
		d, info := genData(t)
		for _, k := range info.classes {
			c.Class(k)
		}
		cj := &CaseJ{Kind: "promql", Data: d}
		var feats []map[string]bool
		nq := rapid.IntRange(10, 24).Draw(t, "nqueries")
		for i := 0; i < nq; i++ {
			g := &exprGen{t: t, info: info, feats: map[string]bool{}}
			e := g.expr(rung)
			instantOnly := g.feats["sel:matrix_instant"]
			start, end, step := genTimes(t, &d, info, instantOnly, g.feat)
			q := QueryJ{Expr: e, Start: start, End: end, Step: step}
			if k := knownClass(&d, q); k != "" {
				c.Excluded(k)
				continue
			}
			if q.Step > 0 {
				// the instant queries at the steps are instant forms of the same expression
				qi := q
				qi.Step, qi.End = 0, qi.Start
				if k := knownClass(&d, qi); k != "" {
					c.Excluded(k + " (instant queries at the steps only)")
					q.NoInstants = true
				}
			}
			cj.Queries = append(cj.Queries, q)
			feats = append(feats, g.feats)
		}
		if len(cj.Queries) == 0 {
			c.Class("case:all_queries_excluded")
			return
		}
		nonEmpty := 0
		survey := os.Getenv("C18_SURVEY") != ""
		vs := runCase(cj, func(qi int, what string) {
			switch what {
			case "nonempty":
				nonEmpty++
				for f := range feats[qi] {
					c.Class("nonempty:" + f)
				}
			case "ref_error", "ref_error_instant":
				c.Class("reference_refuses_expression")
			case "transient_discrepancy_not_reproduced_on_retry":
				c.Class(what)
			case "ref_empty":
				c.Class("reference_result_empty")
			}
		}, survey)
		exprCount.Add(int64(len(cj.Queries)))
		ev.Note(campaign, "expressions_checked_by_last_process", exprCount.Load())
		for _, fs := range feats {
			ks := make([]string, 0, len(fs))
			for f := range fs {
				ks = append(ks, f)
			}
			sort.Strings(ks)
			for _, f := range ks {
				c.Class("expr:" + f)
			}
		}
		if nonEmpty > 0 {
			c.Nontrivial(cj)
			c.Sample(map[string]any{"series": len(d.Series), "queries": cj.Queries})
		}
		// a discrepancy counts when it shows again on a server process started for the case alone (that is what the
		// replay does); otherwise it is counted and logged: behaviour that depends on the history of a long-lived
		// server is not re-executable from the case
		var confirmed []Violation
		for _, v := range vs {
			if v.Query.Expr == "" {
				confirmed = append(confirmed, v)
				continue
			}
			one := &CaseJ{Kind: "promql", Data: d, Queries: []QueryJ{v.Query}}
			if again := runOnFreshServer(one); len(again) > 0 {
				confirmed = append(confirmed, again[0])
			} else {
				c.Class("discrepancy_not_reproduced_on_fresh_server")
				b, _ := json.Marshal(one)
				fmt.Fprintf(os.Stderr, "C18 discrepancy not reproduced on a fresh server: %.600s\n case: %s\n", strings.ReplaceAll(v.Msg, "\n", " | "), b)
				ev.Note(campaign, fmt.Sprintf("not_reproduced_on_fresh_server_%d_%d", os.Getpid(), surveySeq.Add(1)), fmt.Sprintf("%.300s", strings.ReplaceAll(v.Msg, "\n", " | ")))
			}
		}
		vs = confirmed
		if survey && os.Getenv("C18_DIAG") != "" {
			for _, v := range vs {
				if v.Query.Expr != "" {
					diagnose(&d, v.Query)
				}
			}
		}
		if survey {
			for _, v := range vs {
				b, _ := json.Marshal(&CaseJ{Kind: "promql", Data: d, Queries: []QueryJ{v.Query}})
				n := surveySeq.Add(1)
				f := fmt.Sprintf("%s/%s-%d-%d.json", os.Getenv("C18_SURVEY"), campaign, os.Getpid(), n)
				_ = os.WriteFile(f, b, 0o644)
				fmt.Printf("SURVEY %s %.700s\n", f, strings.ReplaceAll(v.Msg, "\n", " | "))
			}
			return
		}
		if len(vs) > 0 {
			v := vs[0]
			fc := &CaseJ{Kind: "promql", Data: d, Queries: []QueryJ{v.Query}}
			if v.Query.Expr == "" {
				fc.Queries = nil
			}
			c.Failf(t, prop, fc, "%s", v.Msg)
		}
	}))
}

func TestSelectors(t *testing.T)    { runRung(t, "selectors", rungSelectors) }
func TestRangeFuncs(t *testing.T)   { runRung(t, "range_functions", rungRangeFn) }
func TestAggregations(t *testing.T) { runRung(t, "aggregations", rungAgg) }
func TestBinops(t *testing.T)       { runRung(t, "binary_operators", rungBinop) }
func TestCombos(t *testing.T)       { runRung(t, "combinations", rungCombo) }

// diagnose (manual aid): loads the sample set once more and prints both answers for the query and for each of its selectors.
func diagnose(d *DataJ, q QueryJ) {
	l, msg := load(d)
	if msg != "" {
		fmt.Println("DIAG load:", msg)
		return
	}
	show := func(e string) {
		got, _, _, _ := promQuery(l.s, l.db, e, d.Base+q.Start, d.Base+q.End, q.Step)
		want := refQuery(l.ref, e, d.Base+q.Start, d.Base+q.End, q.Step)
		fmt.Printf("DIAG %s\n  server: %s\n  ref:    %s\n", e, got, want)
	}
	show(q.Expr)
	if expr, err := parser.ParseExpr(q.Expr); err == nil {
		for _, u := range selectorsOf(expr) {
			show(u.vs.String())
		}
	}
	show(q.Expr)
	r, _ := l.s.Query(l.db, "select value from /.*/ group by *", nil)
	if r != nil {
		fmt.Printf("DIAG raw: %.3000s\n", r.Raw)
	}
	fmt.Printf("DIAG files: %v\n", l.s.Files(""))
}
