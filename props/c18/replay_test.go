package c18

import (
	"encoding/json"
	"fmt"
	"os"
	"path/filepath"
	"testing"

	"verif/internal/ev"
)

// TestReplay re-executes saved cases: the sample set is loaded into a fresh database of a fresh server process,
// every query is evaluated by the server and by the upstream engine; nil = the property holds on the case.
func TestReplay(t *testing.T) {
	ev.RunReplays(func(raw json.RawMessage, f ev.Failure) error {
		var c CaseJ
		if err := json.Unmarshal(raw, &c); err != nil {
			return ev.InconclusiveError(err.Error())
		}
		if c.Kind != "promql" || len(c.Data.Series) == 0 {
			return ev.InconclusiveError(fmt.Sprintf("no replayer for kind %q / empty sample set", c.Kind))
		}
		vs := runCase(&c, func(int, string) {}, false)
		if len(vs) > 0 {
			return fmt.Errorf("%s", shortMsg(vs[0].Msg))
		}
		return nil
	})
}

// TestReplaysAreExcluded: every saved known-finding case must fall into a class that the generated campaigns leave
// out (otherwise the campaigns would keep failing on it), and the class must be the same for the instant form.
func TestReplaysAreExcluded(t *testing.T) {
	root := os.Getenv("VERIF_ROOT")
	if root == "" {
		root = "../.."
	}
	files, _ := filepath.Glob(filepath.Join(root, "replays", "C18", "*.json"))
	if len(files) == 0 {
		t.Skip("no replay files")
	}
	for _, p := range files {
		b, err := os.ReadFile(p)
		if err != nil {
			t.Fatal(err)
		}
		var f struct {
			Case CaseJ `json:"case"`
		}
		if err := json.Unmarshal(b, &f); err != nil {
			t.Fatalf("%s: %v", p, err)
		}
		for _, q := range f.Case.Queries {
			if k := knownClass(&f.Case.Data, q); k == "" {
				t.Errorf("%s: %s is in no known-finding class", filepath.Base(p), q.Expr)
			}
		}
	}
}
