package c18

import (
	"encoding/json"
	"fmt"
	"os"
	"strings"
	"testing"
)

// TestProbe (manual aid, skipped unless C18_PROBE names a case file): prints both answers for every query of the case.
func TestProbe(t *testing.T) {
	p := os.Getenv("C18_PROBE")
	if p == "" {
		t.Skip("C18_PROBE not set")
	}
	b, err := os.ReadFile(p)
	if err != nil {
		t.Fatal(err)
	}
	var wrap struct {
		Case *CaseJ `json:"case"`
	}
	var c CaseJ
	if json.Unmarshal(b, &wrap) == nil && wrap.Case != nil {
		c = *wrap.Case
	} else if err := json.Unmarshal(b, &c); err != nil {
		t.Fatal(err)
	}
	if pre := os.Getenv("C18_PRELOAD"); pre != "" {
		// load (and query) another case first: state left behind by earlier databases of the same server
		pb, err := os.ReadFile(pre)
		if err != nil {
			t.Fatal(err)
		}
		var pc CaseJ
		if err := json.Unmarshal(pb, &pc); err != nil {
			t.Fatal(err)
		}
		vs := runCase(&pc, func(int, string) {}, true)
		fmt.Printf("== preload: %d violations\n", len(vs))
	}
	l, msg := load(&c.Data)
	if msg != "" {
		t.Fatal(msg)
	}
	base := c.Data.Base
	for _, iq := range strings.Split(os.Getenv("C18_INFLUXQL"), ";") {
		if iq == "" {
			continue
		}
		r, err := l.s.Query(l.db, iq, nil)
		if err != nil {
			t.Fatal(err)
		}
		fmt.Printf("== influxql %s\n   %s\n", iq, r.Raw)
	}
	for _, q := range c.Queries {
		fmt.Printf("== %s start=%d end=%d step=%d\n", q.Expr, q.Start, q.End, q.Step)
		got, st, raw, err := promQuery(l.s, l.db, q.Expr, base+q.Start, base+q.End, q.Step)
		if err != nil {
			t.Fatal(err)
		}
		want := refQuery(l.ref, q.Expr, base+q.Start, base+q.End, q.Step)
		fmt.Printf("   server(%d): %s\n   ref:        %s\n", st, got, want)
		if os.Getenv("C18_RAW") != "" {
			fmt.Printf("   raw: %s\n", raw)
		}
		if d := diffResults(got, want, l.absEps); d != "" && want.Err == "" {
			fmt.Printf("   DIFF: %s\n", d)
		}
		if m := l.checkQuery(q, func(string) {}); m != "" {
			fmt.Printf("   CHECK: %s\n", shortMsg(m))
		}
	}
}

// TestClassify (manual aid, skipped unless C18_CLASSIFY lists case files separated by ':'): prints the known-finding class
// of every query of the files (range form and instant form).
func TestClassify(t *testing.T) {
	list := os.Getenv("C18_CLASSIFY")
	if list == "" {
		t.Skip("C18_CLASSIFY not set")
	}
	for _, p := range strings.Split(list, ":") {
		b, err := os.ReadFile(p)
		if err != nil {
			t.Fatal(err)
		}
		var wrap struct {
			Case *CaseJ `json:"case"`
		}
		var c CaseJ
		if json.Unmarshal(b, &wrap) == nil && wrap.Case != nil {
			c = *wrap.Case
		} else if err := json.Unmarshal(b, &c); err != nil {
			t.Fatal(err)
		}
		for _, q := range c.Queries {
			qi := q
			qi.Step, qi.End = 0, qi.Start
			fmt.Printf("%s: %s [%d..%d/%d] class=%q instant-form class=%q\n", p, q.Expr, q.Start, q.End, q.Step, knownClass(&c.Data, q), knownClass(&c.Data, qi))
		}
	}
}
