from campaigns_util import B

SPEC = {
    "pkg": "props/c18", "level": "exploration", "bins": ["ts-server"], "max_parallel": 8, "replay_timeout": 900,
    "rule": ("differential test of the real ts-server against the upstream Prometheus engine (promql v0.50.1 from the module cache, in-memory storage). One case = a "
             "generated sample set (1-3 metrics x 1-4 label sets of 2-3 labels, scrape interval 10/15/30/60 s, 6-48 scrapes; counters with resets, gauges, "
             "phase shift, irregular scrape times, late start, early stop with or without staleness marker, short gaps and gaps longer than the 5 min look-back, "
             "NaN / +-Inf values, all in the memtable / flushed / half flushed, optionally straddling a shard-group boundary) written through POST /api/v1/write "
             "(snappy prompb) into a fresh database and awaited, plus 10-24 expressions of the rung with evaluation times that hit sample timestamps, miss them by "
             "1 ms, sit on / next to the look-back and range boundaries or fall anywhere, steps equal to / unrelated to the scrape interval. Each expression is "
             "run as query_range and as the instant queries at every step on both sides: same series set and label sets (order irrelevant, no duplicates), same "
             "timestamps, values within 1e-9 relative (NaN = NaN, +-Inf equal; absolute slack 1e-12 x largest input), and the range answer must be the sequence of "
             "the instant answers. Ladder of sub-campaigns: selectors (=, !=, =~, !~, offset, instant matrix selector) -> range functions (rate, increase, delta, "
             "irate, idelta, avg/min/max/sum/count/last/present/stddev/stdvar_over_time) -> aggregations (sum/avg/min/max/count, by/without) -> binary operators "
             "(arithmetic, comparison with/without bool, vector-scalar both sides, vector-vector with on/ignoring/group_left/right) -> nested combinations. "
             "Non-trivial: at least one expression of the case has a non-empty upstream result; distinct by (sample set, expression list). A discrepancy fails "
             "the case only when it shows again on a server process started for the case alone (what the replay does)."),
    "assumptions": ["the upstream engine with look-back 5 min over an in-memory Queryable holding exactly the written samples is the reference; an expression the "
                    "reference refuses (many-to-many matching ...) promises nothing",
                    "HTTP 204 acknowledges a remote write; the samples are awaited with an InfluxQL count per series before the first PromQL query",
                    "an empty answer is an empty answer whatever resultType the server prints",
                    "answers larger than 4 MiB or later than 15 s are violations (the reference answers are a few KiB)",
                    "known-finding classes (see known_test.go, one replay each) are left out of the generated expressions and counted under excluded_by_construction",
                    "an expression is left out (class 'comparison_decided_by_rounding (oracle)', counted under excluded_by_construction, not a finding) when one of its "
                    "comparisons has, at some step, operands that the reference itself computes equal up to the granted 1e-9 without being identical (or identical, "
                    "non-zero and coming from rate/increase/delta/irate/idelta/avg/sum/stddev/stdvar computations): one unit in the last place then decides "
                    "what the comparison keeps",
                    "discrepancies that disappear on retry / on a freshly started server are counted (classes transient_discrepancy_not_reproduced_on_retry, "
                    "discrepancy_not_reproduced_on_fresh_server) and logged, not failed: they are not re-executable"],
    "campaigns": [
        {"name": "selectors", "run": "^TestSelectors$", "quick": B(12, 1, 600, shrinktime="20s"), "thorough": B(100, 1, 3000, shrinktime="60s")},
        {"name": "range_functions", "run": "^TestRangeFuncs$", "quick": B(12, 2, 600, shrinktime="20s"), "thorough": B(100, 2, 3000, shrinktime="60s")},
        {"name": "aggregations", "run": "^TestAggregations$", "quick": B(12, 1, 600, shrinktime="20s"), "thorough": B(100, 1, 3000, shrinktime="60s")},
        {"name": "binary_operators", "run": "^TestBinops$", "quick": B(12, 1, 600, shrinktime="20s"), "thorough": B(120, 1, 3000, shrinktime="60s")},
        {"name": "combinations", "run": "^TestCombos$", "quick": B(12, 2, 600, shrinktime="20s"), "thorough": B(100, 2, 3000, shrinktime="60s")},
    ],
}

META = {
    "engine": "bb-server",
    "technique": "differential PBT (rapid) of the real server's PromQL endpoints against the upstream Prometheus engine on the same samples, plus the "
                 "metamorphic relation range query = sequence of instant queries",
    "text": ("Generated sample sets are written through the Prometheus remote-write endpoint and into an in-memory storage of the upstream engine; generated "
             "expressions (ladder: selectors, range functions, aggregations, binary operators, combinations) are evaluated as range and instant queries on both "
             "sides and compared series by series. Exploration: samples expressions and sample layouts (class counts in the evidence), no exhaustiveness."),
    "note": ("Trusts the upstream engine v0.50.1 as the definition of PromQL and the harness' JSON decoding and comparison. Only the generated subset: no subqueries, "
             "@, set operators, histograms, topk/quantile. Many known-finding classes are excluded by construction (each with a replay); state-dependent "
             "discrepancies that do not survive a reload are only counted."),
}
