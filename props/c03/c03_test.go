package c03

import (
	"encoding/json"
	"fmt"
	"os"
	"strconv"
	"strings"
	"testing"
	"time"

	"pgregory.net/rapid"
	"verif/internal/bb"
	"verif/internal/ev"
	"verif/internal/hist"
)

const prop = "C03"

func TestMain(m *testing.M) {
	code := m.Run()
	ev.Flush()
	bb.CleanupAll()
	os.Exit(code)
}

var tagSets = []map[string]string{{"host": "a"}, {"host": "b"}, {"host": "c"}, {"host": "a", "dc": "x"}}
var msts = []string{"m0", "m1"}

// files touched by the replace protocol of compaction / merge
const reorgPattern = `/data/.*(\.tssp|compact_log|merge_log|\.init|\.tmp)`

type state struct {
	h        *hist.H
	crashes  int
	ntKeys   []string
	leftover int
}

func (s *state) fullCheck(when string) {
	check := func(r hist.Read) {
		if d := s.h.CheckRead(r); d != "" {
			o, u, lv := s.h.Layout()
			s.h.Fail("%s: %q differs from the contents before the reorganisation: %s [files ordered=%d unordered=%d maxlevel=%d]", when, r.SQL(), d, o, u, lv)
		}
	}
	for _, m := range msts {
		for _, desc := range []bool{false, true} {
			check(hist.Read{Mst: m, NoTime: true, Grouped: true, Desc: desc})
		}
		// time-bounded answers too: a rewritten file carries its own time range (and per-chunk / per-segment ranges) that
		// queries prune by - half-open windows from fixed cut points (no random draws here: replays re-execute this)
		for _, k := range []int{3, 7, 12, 20, 30, 45, 64, 70} {
			check(hist.Read{Mst: m, TMin: hist.TS(k), TMax: hist.TS(79) + 5e9, Grouped: true})
			check(hist.Read{Mst: m, TMin: hist.TS(0) - 5e9, TMax: hist.TS(k) - 1, Grouped: true, Desc: k%2 == 0})
		}
	}
}

func exec(s *state, op hist.Op) {
	h := s.h
	if op.Kind == "start" || op.Kind == "crashed" {
		return
	}
	h.C.Op(op)
	switch op.Kind {
	case "write":
		h.Write(op.Points)
	case "flush":
		h.Flush()
	case "reorg":
		h.Reorg(op.Cmd)
		s.fullCheck("after " + op.Cmd)
	case "restart":
		h.CleanRestart()
	case "read":
		if d := h.CheckRead(*op.Read); d != "" {
			h.Fail("read %q: %s", op.Read.SQL(), d)
		}
	case "crashReorg":
		// arm a crash before the k-th mutation of a file of the replace protocol, run the pass, recover
		s.fullCheck("before " + op.Cmd)
		before := len(h.Srv.Trace())
		h.Srv.Arm(op.Arm, op.K, -1)
		done := h.Srv.Reorg(op.Cmd, 120*time.Second)
		if h.Srv.Alive() {
			h.Srv.Disarm()
			if !done {
				bb.Fatal("reorganisation pass did not finish")
			}
			// the pass had fewer than k matching mutations (or nothing to do): the armed crash stays pending, so restart cleanly
			h.C.Class("no-crash")
			h.Srv.Kill()
			s.recover("kill after completed pass")
			return
		}
		tr := h.Srv.Trace()
		step := ""
		if len(tr) > 0 {
			step = tr[len(tr)-1]
		}
		s.crashes++
		kind := stepKind(step)
		h.C.Class("crash-step:" + kind)
		h.C.Op(hist.Op{Kind: "crashed", Note: step})
		s.ntKeys = append(s.ntKeys, fmt.Sprintf("%s/%s/#%d", op.Cmd, kind, len(tr)-before))
		s.recover("crash in " + op.Cmd + " at [" + shorten(step) + "]")
		// let the interrupted work be redone and check again
		h.Reorg("all")
		s.fullCheck("after redoing the interrupted pass")
	case "crashRecovery":
		// second crash: during the recovery that follows (server must be down)
		h.Srv.Kill()
		h.Srv.Start(fmt.Sprintf("%s,%d", op.Arm, op.K))
		deadline := time.Now().Add(40 * time.Second)
		for time.Now().Before(deadline) && h.Srv.Alive() {
			if h.Srv.WaitReady(300 * time.Millisecond) {
				time.Sleep(300 * time.Millisecond)
				if h.Srv.Alive() {
					break
				}
			}
		}
		if !h.Srv.Alive() {
			h.C.Class("crash-in-recovery")
			s.ntKeys = append(s.ntKeys, "recovery")
		}
		s.recover("second crash during recovery")
	default:
		bb.Fatal("unknown op %q", op.Kind)
	}
}

func shorten(l string) string {
	if i := strings.Index(l, "/data/data/"); i >= 0 {
		j := strings.Index(l, " ")
		return l[:min(j+30, i)] + l[i:]
	}
	return l
}

func stepKind(line string) string {
	op := ""
	f := strings.Fields(line)
	if len(f) >= 3 {
		op = f[2]
	}
	switch {
	case strings.Contains(line, "compact_log") || strings.Contains(line, "merge_log"):
		return op + "-intentlog"
	case strings.Contains(line, ".init ->"):
		return "rename-new-file"
	case strings.Contains(line, ".tssp.init"):
		return op + "-new-file"
	case strings.Contains(line, "out-of-order") && strings.Contains(line, ".tssp"):
		return op + "-unordered-file"
	case strings.Contains(line, ".tssp"):
		return op + "-old-file"
	}
	return op + "-other"
}

func (s *state) recover(when string) {
	h := s.h
	h.Srv.Kill()
	h.Srv.Start("")
	if !h.Srv.WaitReady(90 * time.Second) {
		if p := h.Srv.PanicInLogs(); p != "" {
			h.Fail("server does not come back after %s: %s", when, p)
		}
		bb.Fatal("server not ready after %s: %s", when, h.Srv.TailLog(1500))
	}
	h.Restarts++
	h.Gen++
	h.AwaitState(when)
	s.fullCheck("after recovery from " + when)
	for _, f := range h.Srv.Files("data") {
		if strings.HasSuffix(f, ".init") || strings.HasSuffix(f, ".tmp") {
			s.leftover++
			h.C.Class("leftover-temp-file-on-disk(informational)")
			break
		}
	}
}

type gen struct{ counter int }

func (g *gen) batch(t *rapid.T, late bool, n int) []hist.PointJ {
	ps := make([]hist.PointJ, n)
	for i := range ps {
		p := hist.PointJ{Mst: rapid.SampledFrom(msts).Draw(t, "mst"), Tags: rapid.SampledFrom(tagSets).Draw(t, "tags"), Fields: map[string]string{}}
		if late {
			p.T = rapid.IntRange(0, 20).Draw(t, "tlate")
		} else {
			p.T = rapid.IntRange(0, 60).Draw(t, "t")
		}
		mask := rapid.IntRange(1, 15).Draw(t, "fieldmask")
		for j, n := range hist.FieldNames {
			if mask&(1<<j) == 0 {
				continue
			}
			g.counter++
			switch n {
			case "i":
				p.Fields[n] = fmt.Sprint(g.counter)
			case "f":
				p.Fields[n] = fmt.Sprintf("%g", float64(g.counter)+0.25)
			case "s":
				p.Fields[n] = fmt.Sprintf("v%d", g.counter)
			default:
				p.Fields[n] = fmt.Sprint(g.counter%2 == 0)
			}
		}
		ps[i] = p
	}
	return ps
}

func runHistory(t *rapid.T, c *ev.Case) {
	seg := rapid.SampledFrom([]string{"8", ""}).Draw(t, "maxRowsPerSegment")
	knobs := map[string]string{}
	if seg != "" {
		knobs["max-rows-per-segment"] = seg
	}
	h := hist.New(c, 3, knobs, func(format string, a ...any) {
		c.Failf(t, prop, map[string]any{"kind": "history", "segrows": seg}, format, a...)
	})
	defer h.Close()
	s := &state{h: h}
	g := &gen{}
	// build a file set: k flushed generations, some with late data (out-of-order files)
	build := func(t *rapid.T, k int) {
		for i := 0; i < k; i++ {
			late := rapid.IntRange(0, 3).Draw(t, "late") == 0
			exec(s, hist.Op{Kind: "write", Points: g.batch(t, late, rapid.IntRange(2, 14).Draw(t, "n"))})
			exec(s, hist.Op{Kind: "flush"})
		}
	}
	build(t, rapid.IntRange(3, 9).Draw(t, "k0"))
	t.Repeat(map[string]func(*rapid.T){
		"build": func(t *rapid.T) { build(t, rapid.IntRange(1, 8).Draw(t, "k")) },
		"crashReorg": func(t *rapid.T) {
			cmd := rapid.SampledFrom([]string{"merge", "compact", "all", "all", "full"}).Draw(t, "cmd")
			k := rapid.IntRange(1, 45).Draw(t, "k")
			exec(s, hist.Op{Kind: "crashReorg", Cmd: cmd, Arm: reorgPattern, K: k})
			if rapid.IntRange(0, 3).Draw(t, "second") == 0 {
				// build something to reorganise again and crash a second time in the recovery after it
				build(t, rapid.IntRange(2, 8).Draw(t, "k2"))
				exec(s, hist.Op{Kind: "crashReorg", Cmd: "all", Arm: reorgPattern, K: rapid.IntRange(1, 30).Draw(t, "k3")})
				exec(s, hist.Op{Kind: "crashRecovery", Arm: reorgPattern, K: rapid.IntRange(1, 10).Draw(t, "k4")})
			}
		},
		"reorg": func(t *rapid.T) {
			exec(s, hist.Op{Kind: "reorg", Cmd: rapid.SampledFrom([]string{"merge", "compact", "all", "full"}).Draw(t, "cmd")})
		},
		"write": func(t *rapid.T) {
			exec(s, hist.Op{Kind: "write", Points: g.batch(t, rapid.Bool().Draw(t, "late"), rapid.IntRange(1, 8).Draw(t, "n"))})
		},
	})
	s.fullCheck("end of history")
	if s.crashes > 0 {
		c.Nontrivial(map[string]any{"steps": s.ntKeys, "ops": c.Ops()})
		c.Sample(map[string]any{"crash_steps": s.ntKeys, "ops": summarize(c.Ops())})
	}
}

func summarize(ops []any) []string {
	var out []string
	for _, o := range ops {
		op := o.(hist.Op)
		switch op.Kind {
		case "write":
			out = append(out, fmt.Sprintf("write(%d)", len(op.Points)))
		case "reorg":
			out = append(out, "reorg("+op.Cmd+")")
		case "crashReorg":
			out = append(out, fmt.Sprintf("crashReorg(%s,k=%d)", op.Cmd, op.K))
		case "crashRecovery":
			out = append(out, fmt.Sprintf("crashRecovery(k=%d)", op.K))
		case "crashed":
			out = append(out, "crashed["+shorten(op.Note)+"]")
		default:
			out = append(out, op.Kind)
		}
	}
	return out
}

func TestCrashInReorg(t *testing.T) {
	rapid.Check(t, ev.Prop(prop, "crash_in_reorg", runHistory))
}

// ---------------------------------------------------------------- exhaustive step enumeration for fixed plan shapes

type shape struct {
	name string
	seg  string
	ops  []hist.Op // builds the file set
	cmd  string    // the pass whose steps are enumerated
}

func fixedBatch(gen int, late bool) []hist.PointJ {
	var ps []hist.PointJ
	for si, tags := range tagSets {
		for j := 0; j < 6; j++ {
			t := gen*5 + j
			if late {
				t = j * 2
			}
			p := hist.PointJ{Mst: msts[(si+j)%2], Tags: tags, T: t, Fields: map[string]string{}}
			n := gen*100 + si*10 + j
			p.Fields["i"] = fmt.Sprint(n)
			if j%2 == 0 {
				p.Fields["f"] = fmt.Sprintf("%g", float64(n)+0.5)
			}
			if j%3 == 0 {
				p.Fields["s"] = fmt.Sprintf("v%d", n)
			}
			if gen%2 == 0 {
				p.Fields["b"] = fmt.Sprint(n%2 == 0)
			}
			ps = append(ps, p)
		}
	}
	return ps
}

func shapes() []shape {
	var l0 []hist.Op
	for g := 0; g < 8; g++ {
		l0 = append(l0, hist.Op{Kind: "write", Points: fixedBatch(g, false)}, hist.Op{Kind: "flush"})
	}
	var ooo []hist.Op
	for g := 0; g < 3; g++ {
		ooo = append(ooo, hist.Op{Kind: "write", Points: fixedBatch(g+3, false)}, hist.Op{Kind: "flush"})
	}
	for g := 0; g < 3; g++ {
		ooo = append(ooo, hist.Op{Kind: "write", Points: fixedBatch(g, true)}, hist.Op{Kind: "flush"})
	}
	full := append(append([]hist.Op{}, l0...), hist.Op{Kind: "reorg", Cmd: "compact"})
	full = append(full, hist.Op{Kind: "write", Points: fixedBatch(9, false)}, hist.Op{Kind: "flush"})
	return []shape{
		{name: "level0-to-1", seg: "8", ops: l0, cmd: "compact"},
		{name: "merge-out-of-order", seg: "8", ops: ooo, cmd: "merge"},
		{name: "full-compaction", seg: "", ops: full, cmd: "full"},
		{name: "merge-then-compact", seg: "", ops: append(append([]hist.Op{}, ooo...), l0[6:]...), cmd: "all"},
	}
}

type violation struct{ msg string }

func runShape(sh shape, k int, second int) (n int, fired bool, err error) {
	c := ev.Begin("enumerate_steps")
	var h *hist.H
	defer func() {
		if h != nil {
			h.Close()
		}
		if r := recover(); r != nil {
			if v, ok := r.(violation); ok {
				err = fmt.Errorf("%s | executed: %v", v.msg, summarize(c.Ops()))
				return
			}
			panic(r)
		}
		if k > 0 {
			c.Class("shape=" + sh.name)
			if fired {
				c.Class("crash-fired")
				c.Nontrivial(fmt.Sprintf("%s/k=%d/second=%d", sh.name, k, second))
				c.Sample(map[string]any{"shape": sh.name, "k": k, "second": second, "ops": summarize(c.Ops())})
			}
			c.Done()
		}
	}()
	knobs := map[string]string{}
	if sh.seg != "" {
		knobs["max-rows-per-segment"] = sh.seg
	}
	h = hist.New(c, 3, knobs, func(format string, a ...any) { panic(violation{fmt.Sprintf(format, a...)}) })
	s := &state{h: h}
	for _, op := range sh.ops {
		exec(s, op)
	}
	if k == 0 { // profiling: count matching mutations of the pass
		before := len(h.Srv.Trace())
		exec(s, hist.Op{Kind: "reorg", Cmd: sh.cmd})
		for _, l := range h.Srv.Trace()[before:] {
			if bb.MatchOpPath(reorgPattern, l) {
				n++
			}
		}
		return n, false, nil
	}
	exec(s, hist.Op{Kind: "crashReorg", Cmd: sh.cmd, Arm: reorgPattern, K: k})
	fired = s.crashes > 0
	if second > 0 {
		exec(s, hist.Op{Kind: "write", Points: fixedBatch(10, false)})
		exec(s, hist.Op{Kind: "flush"})
		exec(s, hist.Op{Kind: "crashRecovery", Arm: reorgPattern, K: second})
	}
	s.fullCheck("end")
	return 0, fired, nil
}

func TestEnumerateSteps(t *testing.T) {
	shard, _ := strconv.Atoi(os.Getenv("VERIF_SHARD"))
	shards, _ := strconv.Atoi(os.Getenv("VERIF_SHARDS"))
	if shards == 0 {
		shards = 1
	}
	shs := shapes()
	if ev.Tier() == "quick" {
		shs = shs[:2]
	}
	total := map[string]int{}
	job := 0
	for _, sh := range shs {
		n, _, err := runShape(sh, 0, 0)
		if err != nil {
			c := ev.Begin("enumerate_steps")
			c.FailTB(t, prop, map[string]any{"kind": "enum", "shape": sh.name, "k": 0}, "shape %s fails without any crash: %v", sh.name, err)
		}
		total[sh.name] = n
		for k := 1; k <= n; k++ {
			job++
			if job%shards != shard {
				continue
			}
			if _, _, err := runShape(sh, k, 0); err != nil {
				c := ev.Begin("enumerate_steps")
				c.FailTB(t, prop, map[string]any{"kind": "enum", "shape": sh.name, "k": k}, "shape %s, crash before step %d of %d: %v", sh.name, k, n, err)
			}
		}
	}
	ev.Note("enumerate_steps", "steps_per_shape", total)
}

func replayHistory(seg string, ops []hist.Op) (err error) {
	c := ev.Begin("replay")
	var h *hist.H
	defer func() {
		if h != nil {
			h.Close()
		}
		if r := recover(); r != nil {
			if v, ok := r.(violation); ok {
				err = fmt.Errorf("%s | executed: %v", v.msg, summarize(c.Ops()))
				return
			}
			panic(r)
		}
	}()
	knobs := map[string]string{}
	if seg != "" {
		knobs["max-rows-per-segment"] = seg
	}
	h = hist.New(c, 3, knobs, func(format string, a ...any) { panic(violation{fmt.Sprintf(format, a...)}) })
	s := &state{h: h}
	for _, op := range ops {
		if !h.Srv.Alive() {
			s.recover("crash")
		}
		exec(s, op)
	}
	s.fullCheck("end")
	return nil
}

func TestReplay(t *testing.T) {
	ev.RunReplays(func(raw json.RawMessage, f ev.Failure) error {
		var hc struct {
			Kind  string `json:"kind"`
			Seg   string `json:"segrows"`
			Shape string `json:"shape"`
			K     int    `json:"k"`
		}
		_ = json.Unmarshal(raw, &hc)
		if hc.Kind == "enum" {
			for _, sh := range shapes() {
				if sh.name == hc.Shape {
					_, _, err := runShape(sh, hc.K, 0)
					return err
				}
			}
			return ev.InconclusiveError("unknown shape " + hc.Shape)
		}
		b, _ := json.Marshal(f.Ops)
		var ops []hist.Op
		if err := json.Unmarshal(b, &ops); err != nil {
			return ev.InconclusiveError(err.Error())
		}
		return replayHistory(hc.Seg, ops)
	})
}
