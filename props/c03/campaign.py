from campaigns_util import B

SPEC = {
    "pkg": "props/c03", "level": "fault_enumeration", "bins": ["ts-server"],
    "rule": ("histories that build overlapping ordered and out-of-order files (3-9+ flushes, partial rows, two measurements, max-rows-per-segment 8 or default), "
             "then run a harness-triggered merge / level compaction / full compaction pass (hook H4, real planner) with a crash armed before the k-th mutation "
             "of a file of the replace protocol (new .init files, renames, old-file removals, intent logs); oracle: full dump (asc+desc) before = after the pass = "
             "after crash+restart = after redoing the pass = last-write-wins model. Non-trivial: the crash fired inside the pass; distinct by (pass, step kind, step index, op list). "
             "enumerate_steps: for fixed plan shapes every step k of the pass is enumerated (one fresh server per k)"),
    "assumptions": ["process death only (kill -9), the OS survives", "only the state once the server answers the full dump correctly or 30 s passed is judged"],
    "campaigns": [
        {"name": "crash_in_reorg", "run": "^TestCrashInReorg$", "quick": B(2, 6, 900, steps=6, shrinktime="60s"),
         "thorough": B(10, 8, 3400, steps=10, shrinktime="180s")},
        {"name": "enumerate_steps", "run": "^TestEnumerateSteps$", "quick": B(1, 10, 900), "thorough": B(1, 8, 3400)},
    ],
    "max_parallel": 18,
    "exhaustive_note": ("enumerate_steps: for each fixed plan shape (level0-to-1, merge-out-of-order; thorough adds full-compaction, merge-then-compact) the crash point "
                        "ranges over every replace-protocol file mutation 1..N of the pass (N per shape in notes.steps_per_shape)"),
}

META = {
    "engine": "bb-server",
    "technique": "model-based stateful PBT (rapid) with generated crash points inside compaction/merge (fileops hook), plus exhaustive step enumeration for fixed plans",
    "text": ("Crash points inside the real compaction/merge replace protocol are generated (rapid) and, for fixed plan shapes, enumerated completely; every outcome is "
             "compared with the last-write-wins model through the real query path."),
    "note": "Trusts the harness model, the hook's total order of file mutations and the H4 trigger calling the same planner entry points as the ticker.",
}
