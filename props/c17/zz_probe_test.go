package c17

import (
	"fmt"
	"math"
	"testing"

	"github.com/openGemini/openGemini/lib/raftlog"
	"go.etcd.io/etcd/raft/v3/raftpb"
)

func TestProbeInstall(t *testing.T) {
	for _, rw := range []int{2} {
		m, err := newMachine(rw)
		if err != nil {
			t.Fatal(err)
		}
		show := func(tag string) {
			st := m.store
			f, _ := st.FirstIndex()
			l, _ := st.LastIndex()
			fmt.Println(tag, "first", f, "last", l)
			for _, i := range []uint64{50, 51, 99, 100, 101} {
				tm, err := st.Term(i)
				fmt.Println("  term", i, tm, err)
			}
			for _, r := range [][2]uint64{{40, 104}, {101, 106}, {51, 101}, {100, 102}} {
				es, err := st.Entries(r[0], r[1], math.MaxUint64)
				s := ""
				for _, e := range es {
					s += fmt.Sprint(e.Index, " ")
				}
				fmt.Println("  entries", r, err, s)
			}
		}
		_ = m.step(Op{Kind: "save", Start: 1, N: 50, Term: 1, SzBase: 8, HS: &HS{Term: 1, Vote: 1, Commit: 50}})
		sn := raftpb.Snapshot{Data: []byte("snapshot"), Metadata: raftpb.SnapshotMetadata{Index: 100, Term: 3, ConfState: raftpb.ConfState{Voters: []uint64{1, 2}}}}
		fmt.Println("save snap", m.store.Save(&raftpb.HardState{Term: 3, Vote: 1, Commit: 100}, nil, &sn))
		show("after install")
		es := Op{Start: 101, N: 5, Term: 3, SzBase: 8}.entries()
		fmt.Println("save ents", m.store.Save(nil, es, nil))
		show("after append")
		m.store.Close()
		st, err := raftlog.Init(m.root, 0)
		fmt.Println("reopen", err)
		if err == nil {
			m.store = st
			show("after reopen")
		}
		fmt.Println("deleteBefore(100)", m.store.DeleteBefore(100))
		show("after deleteBefore")
		m.close()
	}
}
