package c17

import (
	"encoding/json"
	"errors"
	"testing"

	"verif/internal/ev"
)

// TestReplay re-executes a saved history (the "case" of a failure file: {"rw_type":..,"ops":[..]}) with the same
// per-step oracles as the campaigns.
func TestReplay(t *testing.T) {
	ev.RunReplays(func(raw json.RawMessage, f ev.Failure) error {
		var cs Case
		if err := json.Unmarshal(raw, &cs); err != nil {
			return ev.InconclusiveError(err.Error())
		}
		if len(cs.Ops) == 0 || (cs.RWType != 1 && cs.RWType != 2) {
			return ev.InconclusiveError("case has no ops / no rw_type")
		}
		err := runCase(cs)
		if err == nil {
			return nil
		}
		var v violation
		if errors.As(err, &v) {
			return err
		}
		return ev.InconclusiveError(err.Error())
	})
}
