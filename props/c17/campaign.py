from campaigns_util import B

SPEC = {
    "pkg": "props/c17", "level": "exploration",
    "rule": ("rapid state machine (t.Repeat) over raftlog.RaftDiskStorage: Save of contiguous batches (append at last+1; overwrite at an index above the "
             "commit index with same/new term; 1..35000 entries; payloads 0 B..4 MiB so that files rotate by slot count (30000) and by size (32 MiB)), "
             "hard state, conf-state record, CreateSnapshot, DeleteBefore(<= snapshot index), Close+Init, Term/Entries queries at all boundaries and "
             "size limits; after every step first/last/hard state/snapshot and boundary reads, after every reopen and every overwrite a comparison of "
             "the log with etcd raft.MemoryStorage fed the same operations (plus an uncompacted model for the entries the file-granular deletion keeps); "
             "crash_image: directory copied before a generated file mutation (hook H1) of an operation and opened by a second store. A case is "
             "non-trivial when it overwrote entries of a rotated file or reopened after a rotation (store_small, which never rotates: overwrote entries and "
             "reopened afterwards; crash_image: an image was taken and judged); distinct = hash of the operation list"),
    "assumptions": [
        "call sequences are those raft.Ready/raftconn produce: batches contiguous, first index in (commit, last+1], snapshot index in [previous snapshot, commit], DeleteBefore index <= snapshot index",
        "first index after a prefix deletion is only bounded (previous answer <= first <= requested), the store deletes whole files",
        "a crash image is a process death (all completed write calls visible), not a power failure",
        "Term(i) for i > last on a log without any entry may answer ErrCompacted instead of ErrUnavailable (raft never asks)",
        "Save with a snapshot ahead of the log (snapshot received from a leader) is not generated: known finding, replay only",
        "conf-state record (snapshot with index 0) is only saved while no real snapshot exists",
    ],
    "campaigns": [
        {"name": "store_small", "run": "^TestStoreSmall$", "quick": B(300, 2), "thorough": B(15000, 2, 3400)},
        {"name": "store_v2", "run": "^TestStoreV2$", "quick": B(20, 6), "thorough": B(600, 6, 3400)},
        {"name": "store_v1", "run": "^TestStoreV1$", "quick": B(20, 3), "thorough": B(600, 3, 3400)},
        {"name": "crash_image", "run": "^TestCrashImage$", "quick": B(20, 4), "thorough": B(500, 4, 3400)},
    ],
}

META = {
    "engine": "lib-rapid",
    "technique": "model-based differential state-machine testing against etcd raft.MemoryStorage (rapid t.Repeat), reopen and crash images via the fileops hook",
    "text": ("Generated histories of saves (appending, overlapping, conflicting; bulk and multi-MiB batches that rotate files), snapshots, prefix deletions, "
             "reopens and queries are applied to the on-disk raft log store and to etcd's in-memory reference; every answer must agree, also after "
             "Close+Init and for a directory image taken in the middle of an operation. Exploration: finds counterexamples, never proves absence."),
    "note": "Trusts etcd's MemoryStorage as the meaning of the Storage contract and the harness' own uncompacted model (cross-checked against MemoryStorage on every read both can answer).",
}
