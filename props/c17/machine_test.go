package c17

// Differential machine: lib/raftlog.RaftDiskStorage against etcd's raft.MemoryStorage (plus a never-compacted
// plain model of the log, needed because the disk store deletes prefixes file by file and therefore keeps
// entries the reference has already dropped).

import (
	"bytes"
	"errors"
	"fmt"
	"io"
	"math"
	"os"
	"path/filepath"
	"reflect"

	"github.com/openGemini/openGemini/lib/config"
	"github.com/openGemini/openGemini/lib/fileops"
	"github.com/openGemini/openGemini/lib/logger"
	"github.com/openGemini/openGemini/lib/raftlog"
	"go.etcd.io/etcd/raft/v3"
	"go.etcd.io/etcd/raft/v3/raftpb"
	"go.uber.org/zap"
)

const prop = "C17"

// constants of lib/raftlog/log.go (unexported there); only used to steer the generator and to label classes.
const (
	slotsPerFile   = 30000
	dataAreaStart  = 1 << 20
	maxLogFileSize = 32 << 20
)

func init() {
	// the store logs every truncation/rotation; keep campaigns quiet and fast
	logger.GetSuppressLogger()
	logger.SetLogger(zap.NewNop())
	// wrap the VFS of lib/fileops (hook H1) before any store opens a file, so that every file object is traced
	fileops.SetVerifFSCallback(nil)
}

// ---------------------------------------------------------------- payloads

// payloads are windows into one fixed pseudo-random table: no copying for multi-MiB entries, and two different
// (index, term) pairs get different bytes.
const maxPayload = 4 << 20

var rndTable = func() []byte {
	b := make([]byte, maxPayload+(1<<20)+8)
	x := uint64(0x9E3779B97F4A7C15)
	for i := 0; i+8 <= len(b); i += 8 {
		x ^= x << 13
		x ^= x >> 7
		x ^= x << 17
		for k := 0; k < 8; k++ {
			b[i+k] = byte(x >> (8 * k))
		}
	}
	return b
}()

func payload(index, term uint64, n int) []byte {
	if n == 0 {
		return nil
	}
	off := int((index*7919 + term*104729) % (1 << 20))
	return rndTable[off : off+n : off+n]
}

// ---------------------------------------------------------------- operations (also the replay format)

type HS struct {
	Term   uint64 `json:"term"`
	Vote   uint64 `json:"vote"`
	Commit uint64 `json:"commit"`
}

// Op is one step of a history. Kinds:
//
//	save     Save(hs?, entries[Start .. Start+N-1], nil); entry i has term Term (+1 from offset TermUpAt on),
//	         payload length SzBase + (i*2654435761 mod (SzVar+1)), type EntryConfChange when i mod TypMod == 0 (TypMod>0)
//	conf     Save(nil, nil, {ConfState only}) as raftconn does after applying a conf change (Voters = Voters)
//	snap     CreateSnapshot(Index, {Voters}, "snapshot")
//	del      DeleteBefore(Index)
//	install  Save(hs, nil, {Index, Term, Voters, "snapshot"}) with Index > last: what raftconn does when a follower that
//	         fell behind receives the leader's snapshot (replay only; known finding C17-snapshot-install-first-index)
//	reopen   Close + Init on the same directory
//	term     Term(Index)
//	ents     Entries(Lo, Hi, Max)
//	scan     compare every entry in [first,last] (batched reads) with the model
//	crash    (crash_image campaign) run the embedded op In with a directory copy taken before its Step-th file mutation
type Op struct {
	Kind     string   `json:"op"`
	Start    uint64   `json:"start,omitempty"`
	N        int      `json:"n,omitempty"`
	Term     uint64   `json:"term,omitempty"`
	TermUpAt int      `json:"term_up_at,omitempty"`
	SzBase   int      `json:"sz_base,omitempty"`
	SzVar    int      `json:"sz_var,omitempty"`
	TypMod   int      `json:"typ_mod,omitempty"`
	HS       *HS      `json:"hs,omitempty"`
	Voters   []uint64 `json:"voters,omitempty"`
	Index    uint64   `json:"index,omitempty"`
	Lo       uint64   `json:"lo,omitempty"`
	Hi       uint64   `json:"hi,omitempty"`
	Max      uint64   `json:"max,omitempty"`
	Step     int      `json:"step,omitempty"`
	In       *Op      `json:"in,omitempty"`
	Known    string   `json:"known,omitempty"` // crash step whose image falls into a known-finding class (not judged)
}

type Case struct {
	RWType int  `json:"rw_type"` // config.EntryFileRWType: 2 = pread/pwrite with slot cache (default), 1 = whole file in memory
	Ops    []Op `json:"ops"`
}

func (o Op) entries() []raftpb.Entry {
	es := make([]raftpb.Entry, o.N)
	for k := 0; k < o.N; k++ {
		idx := o.Start + uint64(k)
		term := o.Term
		if o.TermUpAt > 0 && k >= o.TermUpAt {
			term++
		}
		n := o.SzBase
		if o.SzVar > 0 {
			n += int((idx * 2654435761) % uint64(o.SzVar+1))
		}
		typ := raftpb.EntryNormal
		if o.TypMod > 0 && idx%uint64(o.TypMod) == 0 {
			typ = raftpb.EntryConfChange
		}
		es[k] = raftpb.Entry{Term: term, Index: idx, Type: typ, Data: payload(idx, term, n)}
	}
	return es
}

// ---------------------------------------------------------------- machine

type machine struct {
	rwType int
	root   string // directory given to raftlog.Init
	store  *raftlog.RaftDiskStorage
	ms     *raft.MemoryStorage
	full   []raftpb.Entry // full[i-1] is the entry with index i; never compacted

	hs         raftpb.HardState
	snap       raftpb.Snapshot
	commit     uint64
	storeFirst uint64 // last first index the store reported (monotone)
	reopens    int
	installed  uint64 // index of an installed (received) snapshot; full[] holds placeholders up to it
}

func newMachine(rwType int) (*machine, error) {
	root, err := os.MkdirTemp("/dev/shm", "c17-")
	if err != nil {
		return nil, err
	}
	config.EntryFileRWType = rwType
	m := &machine{rwType: rwType, root: root, ms: raft.NewMemoryStorage(), storeFirst: 1}
	m.store, err = raftlog.Init(root, 0)
	if err != nil {
		os.RemoveAll(root)
		return nil, fmt.Errorf("Init of an empty directory: %v", err)
	}
	return m, nil
}

func (m *machine) close() {
	if m.store != nil {
		_ = m.store.Close()
		m.store = nil
	}
	os.RemoveAll(m.root)
}

func (m *machine) last() uint64 { return uint64(len(m.full)) }

func (m *machine) termOf(i uint64) uint64 {
	if i == 0 || i > m.last() {
		return 0
	}
	return m.full[i-1].Term
}

func (m *machine) msFirst() uint64 { f, _ := m.ms.FirstIndex(); return f }

// violation is returned when the store breaks the property; any other error means the harness itself is broken.
type violation struct{ msg string }

func (v violation) Error() string { return v.msg }

func vio(format string, a ...any) error { return violation{fmt.Sprintf(format, a...)} }

func sameEntry(a, b raftpb.Entry) bool {
	return a.Index == b.Index && a.Term == b.Term && a.Type == b.Type && bytes.Equal(a.Data, b.Data)
}

func descr(e raftpb.Entry) string {
	h := e.Data
	if len(h) > 8 {
		h = h[:8]
	}
	return fmt.Sprintf("{index %d term %d type %d len %d data %x..}", e.Index, e.Term, e.Type, len(e.Data), h)
}

func diffEntries(what string, got, want []raftpb.Entry) error {
	if len(got) != len(want) {
		gf, gl, wf, wl := uint64(0), uint64(0), uint64(0), uint64(0)
		if len(got) > 0 {
			gf, gl = got[0].Index, got[len(got)-1].Index
		}
		if len(want) > 0 {
			wf, wl = want[0].Index, want[len(want)-1].Index
		}
		return vio("%s: got %d entries [%d..%d], want %d entries [%d..%d]", what, len(got), gf, gl, len(want), wf, wl)
	}
	for i := range got {
		if !sameEntry(got[i], want[i]) {
			return vio("%s: entry #%d: got %s want %s", what, i, descr(got[i]), descr(want[i]))
		}
	}
	return nil
}

// limitSize is the size rule of the raft Storage contract (at least one entry, stop before exceeding max).
func limitSize(ents []raftpb.Entry, max uint64) []raftpb.Entry {
	if len(ents) == 0 {
		return ents
	}
	size := uint64(ents[0].Size())
	n := 1
	for ; n < len(ents); n++ {
		size += uint64(ents[n].Size())
		if size > max {
			break
		}
	}
	return ents[:n]
}

func (m *machine) apply(o Op) error {
	switch o.Kind {
	case "save":
		return m.save(o)
	case "conf":
		sn := raftpb.Snapshot{Metadata: raftpb.SnapshotMetadata{ConfState: raftpb.ConfState{Voters: o.Voters}}}
		if err := m.store.Save(nil, nil, &sn); err != nil {
			return vio("Save(conf state only): %v", err)
		}
		m.snap = sn
		return nil
	case "snap":
		return m.createSnapshot(o)
	case "del":
		return m.deleteBefore(o)
	case "reopen":
		return m.reopen()
	case "install":
		return m.install(o)
	case "term":
		return m.checkTerm(o.Index)
	case "ents":
		return m.checkEntries(o.Lo, o.Hi, o.Max)
	case "scan":
		return m.scan()
	}
	return fmt.Errorf("unknown op %q", o.Kind)
}

func (m *machine) save(o Op) error {
	es := o.entries()
	var hs *raftpb.HardState
	if o.HS != nil {
		hs = &raftpb.HardState{Term: o.HS.Term, Vote: o.HS.Vote, Commit: o.HS.Commit}
	}
	if len(es) > 0 {
		// domain of the real caller (raft.Ready): contiguous batch, starts above the commit index and at most at last+1
		if es[0].Index <= m.commit || es[0].Index > m.last()+1 || es[0].Index < 1 {
			return fmt.Errorf("harness: save start %d outside (commit %d, last+1 %d]", es[0].Index, m.commit, m.last()+1)
		}
	}
	if err := m.store.Save(hs, es, nil); err != nil {
		return vio("Save(%d entries from %d): %v", len(es), o.Start, err)
	}
	m.modelSave(o, es)
	return nil
}

func (m *machine) modelSave(o Op, es []raftpb.Entry) {
	if len(es) > 0 {
		if err := m.ms.Append(es); err != nil {
			panic(fmt.Sprintf("harness: reference Append: %v", err))
		}
		m.full = append(m.full[:es[0].Index-1], es...)
	}
	if o.HS != nil {
		h := raftpb.HardState{Term: o.HS.Term, Vote: o.HS.Vote, Commit: o.HS.Commit}
		if !raft.IsEmptyHardState(h) {
			m.hs = h
			_ = m.ms.SetHardState(h)
			m.commit = h.Commit
		}
	}
}

func (m *machine) createSnapshot(o Op) error {
	cs := raftpb.ConfState{Voters: o.Voters}
	if o.Index < m.snap.Metadata.Index || o.Index > m.commit || o.Index < 1 {
		return fmt.Errorf("harness: snapshot index %d outside [snap %d, commit %d]", o.Index, m.snap.Metadata.Index, m.commit)
	}
	if err := m.store.CreateSnapshot(o.Index, &cs, []byte("snapshot")); err != nil {
		return vio("CreateSnapshot(%d) with first<=%d last=%d: %v", o.Index, m.msFirst(), m.last(), err)
	}
	m.modelSnapshot(o)
	return nil
}

func (m *machine) modelSnapshot(o Op) {
	cs := raftpb.ConfState{Voters: o.Voters}
	want := raftpb.Snapshot{Data: []byte("snapshot"), Metadata: raftpb.SnapshotMetadata{Index: o.Index, Term: m.termOf(o.Index), ConfState: cs}}
	if o.Index > m.snap.Metadata.Index || raft.IsEmptySnap(m.snap) {
		got, err := m.ms.CreateSnapshot(o.Index, &cs, []byte("snapshot"))
		if err != nil || !reflect.DeepEqual(got.Metadata, want.Metadata) {
			panic(fmt.Sprintf("harness: reference CreateSnapshot(%d) = %+v, %v; model %+v", o.Index, got.Metadata, err, want.Metadata))
		}
	}
	m.snap = want
}

func (m *machine) compactRef(keepFrom uint64) {
	// the reference keeps a dummy entry at the compaction index: Compact(i-1) makes i the first index
	if keepFrom >= 2 && keepFrom-1 >= m.msFirst() {
		if err := m.ms.Compact(keepFrom - 1); err != nil {
			panic(fmt.Sprintf("harness: reference Compact(%d): %v", keepFrom-1, err))
		}
	}
}

func (m *machine) deleteBefore(o Op) error {
	err := m.store.DeleteBefore(o.Index)
	if o.Index < m.storeFirst {
		// already gone (the caller may ask again with a stale index): refusing is fine, state must not change
		return nil
	}
	if o.Index > m.snap.Metadata.Index {
		return fmt.Errorf("harness: DeleteBefore(%d) above snapshot index %d", o.Index, m.snap.Metadata.Index)
	}
	if err != nil {
		return vio("DeleteBefore(%d) with first=%d last=%d: %v", o.Index, m.storeFirst, m.last(), err)
	}
	m.compactRef(o.Index)
	return nil
}

// install: the reference discards its log (ApplySnapshot): first = Index+1, last = Index, Term(Index) = snapshot term.
func (m *machine) install(o Op) error {
	if o.Index <= m.last() || o.HS == nil || o.HS.Commit != o.Index {
		return fmt.Errorf("harness: install needs index > last and a hard state committing it")
	}
	sn := raftpb.Snapshot{Data: []byte("snapshot"), Metadata: raftpb.SnapshotMetadata{Index: o.Index, Term: o.Term, ConfState: raftpb.ConfState{Voters: o.Voters}}}
	hs := raftpb.HardState{Term: o.HS.Term, Vote: o.HS.Vote, Commit: o.HS.Commit}
	if err := m.store.Save(&hs, nil, &sn); err != nil {
		return vio("Save(hard state, no entries, snapshot at %d): %v", o.Index, err)
	}
	if err := m.ms.ApplySnapshot(sn); err != nil {
		return fmt.Errorf("harness: reference ApplySnapshot: %v", err)
	}
	_ = m.ms.SetHardState(hs)
	for m.last() < o.Index {
		m.full = append(m.full, raftpb.Entry{}) // never saved
	}
	m.full[o.Index-1] = raftpb.Entry{Index: o.Index, Term: o.Term}
	m.hs, m.commit, m.snap, m.installed = hs, o.Index, sn, o.Index
	if tm, err := m.store.Term(o.Index); err != nil || tm != o.Term {
		return vio("Term(%d) = %d, %v after installing the snapshot {index %d term %d}", o.Index, tm, err, o.Index, o.Term)
	}
	return nil
}

func (m *machine) reopen() error {
	if err := m.store.Close(); err != nil {
		return vio("Close: %v", err)
	}
	m.store = nil
	config.EntryFileRWType = m.rwType
	st, err := raftlog.Init(m.root, 0)
	if err != nil {
		return vio("Init after Close: %v", err)
	}
	m.store = st
	m.reopens++
	// Init re-applies the prefix deletion up to the snapshot index
	if si := m.snap.Metadata.Index; si > 0 {
		m.compactRef(si)
	}
	return nil
}

// ---------------------------------------------------------------- oracles

// checkBasic compares first/last index, hard state, snapshot and conf state. Cheap; run after every step.
func (m *machine) checkBasic() error {
	first, err := m.store.FirstIndex()
	if err != nil {
		return vio("FirstIndex: %v", err)
	}
	// file-granular prefix deletion: the store may keep more than asked for, never less, and never un-delete
	if first < m.storeFirst || first > m.msFirst() {
		return vio("FirstIndex = %d, want within [%d (previous answer), %d (reference after the requested deletions)]", first, m.storeFirst, m.msFirst())
	}
	if m.installed > 0 && first <= m.installed {
		// the entries between the old end of the log and the snapshot were never saved: a first index at or below the
		// snapshot index promises entries the store cannot have
		ents, eerr := m.store.Entries(first, m.installed+1, math.MaxUint64)
		gap := ""
		for k := 1; k < len(ents); k++ {
			if ents[k].Index != ents[k-1].Index+1 {
				gap = fmt.Sprintf("; the answer jumps from index %d to %d", ents[k-1].Index, ents[k].Index)
				break
			}
		}
		return vio("FirstIndex = %d after a snapshot at %d was installed over a log that ended below it (reference: %d); Entries(%d,%d,max) = %d entries, err %v%s",
			first, m.installed, m.msFirst(), first, m.installed+1, len(ents), eerr, gap)
	}
	m.storeFirst = first
	last, err := m.store.LastIndex()
	if err != nil {
		return vio("LastIndex: %v", err)
	}
	rl, _ := m.ms.LastIndex()
	if rl != m.last() {
		return fmt.Errorf("harness: reference last %d, model last %d", rl, m.last())
	}
	if last != m.last() {
		return vio("LastIndex = %d, want %d", last, m.last())
	}
	hs, cs, err := m.store.InitialState()
	if err != nil {
		return vio("InitialState: %v", err)
	}
	rhs, _, _ := m.ms.InitialState()
	if !reflect.DeepEqual(rhs, m.hs) {
		return fmt.Errorf("harness: reference hard state %+v, model %+v", rhs, m.hs)
	}
	if !reflect.DeepEqual(hs, m.hs) {
		return vio("InitialState hard state = %+v, want %+v", hs, m.hs)
	}
	if !sameU64s(cs.Voters, m.snap.Metadata.ConfState.Voters) {
		return vio("InitialState conf state voters = %v, want %v", cs.Voters, m.snap.Metadata.ConfState.Voters)
	}
	hs2, err := m.store.HardState()
	if err != nil || !reflect.DeepEqual(hs2, m.hs) {
		return vio("HardState = %+v, %v, want %+v", hs2, err, m.hs)
	}
	sn, err := m.store.Snapshot()
	if err != nil {
		return vio("Snapshot: %v", err)
	}
	if sn.Metadata.Index != m.snap.Metadata.Index || sn.Metadata.Term != m.snap.Metadata.Term ||
		!bytes.Equal(sn.Data, m.snap.Data) || !sameU64s(sn.Metadata.ConfState.Voters, m.snap.Metadata.ConfState.Voters) {
		return vio("Snapshot = {index %d term %d voters %v data %q}, want {index %d term %d voters %v data %q}",
			sn.Metadata.Index, sn.Metadata.Term, sn.Metadata.ConfState.Voters, sn.Data,
			m.snap.Metadata.Index, m.snap.Metadata.Term, m.snap.Metadata.ConfState.Voters, m.snap.Data)
	}
	if m.snap.Metadata.Index > 0 {
		rs, _ := m.ms.Snapshot()
		if rs.Metadata.Index != m.snap.Metadata.Index || rs.Metadata.Term != m.snap.Metadata.Term {
			return fmt.Errorf("harness: reference snapshot %+v, model %+v", rs.Metadata, m.snap.Metadata)
		}
	}
	return nil
}

func sameU64s(a, b []uint64) bool {
	if len(a) != len(b) {
		return false
	}
	for i := range a {
		if a[i] != b[i] {
			return false
		}
	}
	return true
}

func (m *machine) checkTerm(i uint64) error {
	got, err := m.store.Term(i)
	// cross-check model and reference where the reference still has the index
	if rt, rerr := m.ms.Term(i); rerr == nil && i >= 1 && rt != m.termOf(i) {
		return fmt.Errorf("harness: reference Term(%d)=%d, model %d", i, rt, m.termOf(i))
	}
	switch {
	case i == 0:
		// raft asks for Term(first-1) only; index 0 is the dummy of an uncompacted log (term 0)
		if m.storeFirst == 1 {
			if err != nil || got != 0 {
				return vio("Term(0) = %d, %v on a log without deleted prefix, want 0, nil", got, err)
			}
		} else if !(err == nil && got == 0) && !errors.Is(err, raft.ErrCompacted) {
			return vio("Term(0) = %d, %v, want ErrCompacted (or 0)", got, err)
		}
	case i < m.storeFirst:
		if errors.Is(err, raft.ErrCompacted) || (err == nil && got == m.termOf(i)) {
			return nil
		}
		return vio("Term(%d) = %d, %v with first=%d, want ErrCompacted", i, got, err, m.storeFirst)
	case i <= m.last():
		if err != nil || got != m.termOf(i) {
			return vio("Term(%d) = %d, %v with first=%d last=%d, want %d", i, got, err, m.storeFirst, m.last(), m.termOf(i))
		}
	default:
		// raft never asks for a term above LastIndex. The reference says ErrUnavailable; the store says ErrCompacted
		// while it holds no entry at all (raft treats both alike) - accepted for the empty log only.
		if !errors.Is(err, raft.ErrUnavailable) && !(m.last() == 0 && errors.Is(err, raft.ErrCompacted)) {
			return vio("Term(%d) = %d, %v with last=%d, want ErrUnavailable", i, got, err, m.last())
		}
	}
	return nil
}

func (m *machine) checkEntries(lo, hi, max uint64) error {
	if lo > hi || lo < 1 {
		return fmt.Errorf("harness: Entries(%d,%d)", lo, hi)
	}
	got, err := m.store.Entries(lo, hi, max)
	what := fmt.Sprintf("Entries(%d,%d,%d) with first=%d last=%d", lo, hi, max, m.storeFirst, m.last())
	switch {
	case lo < m.storeFirst:
		if !errors.Is(err, raft.ErrCompacted) {
			return vio("%s: got %d entries, err %v, want ErrCompacted", what, len(got), err)
		}
		return nil
	case hi > m.last()+1:
		if !errors.Is(err, raft.ErrUnavailable) {
			return vio("%s: got %d entries, err %v, want ErrUnavailable", what, len(got), err)
		}
		return nil
	}
	if err != nil {
		return vio("%s: %v", what, err)
	}
	want := limitSize(m.full[lo-1:hi-1], max)
	if e := diffEntries(what, got, want); e != nil {
		return e
	}
	if lo >= m.msFirst() && lo < hi {
		ref, rerr := m.ms.Entries(lo, hi, max)
		if rerr != nil {
			return fmt.Errorf("harness: reference %s: %v", what, rerr)
		}
		if e := diffEntries("harness: reference vs model "+what, ref, want); e != nil {
			return fmt.Errorf("%v", e)
		}
	}
	return nil
}

// checkBoundaries probes Term and Entries at every boundary the state defines. pivots are extra indexes of interest
// (start and end of the last batch, index of the last snapshot/deletion); they are probed first. Reads are bounded
// by a byte budget so that histories with multi-MiB payloads stay fast.
func (m *machine) checkBoundaries(pivots ...uint64) error {
	last, first, rf := m.last(), m.storeFirst, m.msFirst()
	set := map[uint64]bool{}
	var idx []uint64
	add := func(i uint64) {
		if i <= last+2 && !set[i] {
			set[i] = true
			idx = append(idx, i)
		}
	}
	for _, p := range append(pivots, first, last, rf, m.snap.Metadata.Index, m.commit, slotsPerFile, 2*slotsPerFile) {
		if p > 0 {
			add(p - 1)
		}
		add(p)
		add(p + 1)
	}
	add(0)
	add(last + 2)
	for _, i := range idx {
		if err := m.checkTerm(i); err != nil {
			return err
		}
	}
	budget := int64(24 << 20)
	probe := func(lo, hi, max uint64) error {
		if lo >= first && hi <= last+1 {
			// the store reads one entry past the ones that fit
			n := uint64(len(limitSize(m.full[lo-1:hi-1], max)))
			for i := lo; i < min(lo+n+1, hi); i++ {
				budget -= int64(len(m.full[i-1].Data))
			}
		}
		return m.checkEntries(lo, hi, max)
	}
	for _, lo := range idx {
		if lo < 1 || lo > last+1 {
			continue
		}
		if budget < 0 {
			break
		}
		for _, q := range [][2]uint64{{0, math.MaxUint64}, {1, 0}, {3, 0}, {3, math.MaxUint64}} {
			if err := probe(lo, lo+q[0], q[1]); err != nil {
				return err
			}
		}
		if lo <= last {
			// a size limit that cuts inside the range: exactly the first two entries fit / just do not fit
			max := uint64(m.full[lo-1].Size())
			if lo+1 <= last {
				max += uint64(m.full[lo].Size())
			}
			if err := probe(lo, min(lo+4, last+1), max); err != nil {
				return err
			}
			if err := probe(lo, min(lo+4, last+1), max-1); err != nil {
				return err
			}
		}
	}
	return nil
}

// scan reads the whole log in batches and compares every entry, then checks Term of a stride of indexes.
func (m *machine) scan() error { return m.scanFrom(m.storeFirst) }

// scanFrom compares every entry in [from,last] and the first two entries of the log.
func (m *machine) scanFrom(from uint64) error {
	if err := m.checkBasic(); err != nil {
		return err
	}
	last := m.last()
	from = max(from, m.storeFirst)
	if from > m.storeFirst && m.storeFirst <= last {
		if err := m.checkEntries(m.storeFirst, min(m.storeFirst+2, last+1), math.MaxUint64); err != nil {
			return err
		}
	}
	lo := from
	for lo <= last {
		hi := min(lo+10000, last+1)
		got, err := m.store.Entries(lo, hi, math.MaxUint64)
		if err != nil {
			return vio("scan Entries(%d,%d,max) with first=%d last=%d: %v", lo, hi, m.storeFirst, last, err)
		}
		if e := diffEntries(fmt.Sprintf("scan Entries(%d,%d,max) with first=%d last=%d", lo, hi, m.storeFirst, last), got, m.full[lo-1:hi-1]); e != nil {
			return e
		}
		lo = hi
	}
	n := last - m.storeFirst + 1
	stride := n/64 + 1
	for i := m.storeFirst; i <= last; i += stride {
		if err := m.checkTerm(i); err != nil {
			return err
		}
	}
	// one unbounded read of everything, as raftconn's replay does (Entries(snapshot index, commit+1, MaxUint64))
	if si := m.snap.Metadata.Index; si >= m.storeFirst && si >= 1 && m.commit >= si {
		if err := m.checkEntries(si, m.commit+1, math.MaxUint64); err != nil {
			return err
		}
	}
	return nil
}

// ---------------------------------------------------------------- directory copies (crash images)

func copyDir(src, dst string) error {
	return filepath.Walk(src, func(p string, fi os.FileInfo, err error) error {
		if err != nil {
			return err
		}
		rel, _ := filepath.Rel(src, p)
		q := filepath.Join(dst, rel)
		if fi.IsDir() {
			return os.MkdirAll(q, 0o750)
		}
		in, err := os.Open(p)
		if err != nil {
			return err
		}
		defer in.Close()
		out, err := os.OpenFile(q, os.O_CREATE|os.O_WRONLY|os.O_TRUNC, 0o600)
		if err != nil {
			return err
		}
		if _, err = io.Copy(out, in); err != nil {
			out.Close()
			return err
		}
		return out.Close()
	})
}
