package c17

// Crash images (hook H1): lib/raftlog does all its file I/O through lib/fileops, so the verif build's
// fileops.SetVerifFSCallback sees every mutation (openfile-create, write, ftruncate, sync, remove). Before the
// Step-th mutation of an operation the directory is copied; the copy is what a process death at that point
// leaves behind (no power failure: everything written so far is there). The copy is opened with a second store.

import (
	"bytes"
	"errors"
	"fmt"
	"math"
	"os"
	"path/filepath"
	"reflect"
	"strings"
	"testing"

	"github.com/openGemini/openGemini/lib/config"
	"github.com/openGemini/openGemini/lib/fileops"
	"github.com/openGemini/openGemini/lib/raftlog"
	"go.etcd.io/etcd/raft/v3"
	"go.etcd.io/etcd/raft/v3/raftpb"
	"pgregory.net/rapid"
)

type crashInfo struct {
	taken   bool
	mutOp   string // the mutation that did not happen any more
	mutFile string // "entry" or "meta"
	total   int    // mutations the operation made
	// the image was taken between the two write calls with which a truncation zero-fills the slot table
	// (known finding C17-torn-zero-fill)
	tornZeroFill bool
	// the image was taken inside the group of write calls with which one operation updates the meta file (hard state =
	// length + data; snapshot = index + term + length + data) (known finding C17-torn-meta-record)
	tornMeta bool
	// the image was taken between two file removals of a truncation that spans files; the files are removed oldest
	// first, so a file in the middle of the log is missing (known finding C17-truncation-removes-oldest-first)
	tornRemove bool
}

func allZero(b []byte) bool {
	for _, x := range b {
		if x != 0 {
			return false
		}
	}
	return true
}

func (m *machine) crashStep(o Op, info *crashInfo) error {
	if o.In == nil {
		return fmt.Errorf("crash op without inner op")
	}
	in := *o.In
	// state before the in-flight operation
	bLast, bHS, bSnap, bFirst := m.last(), m.hs, m.snap, m.storeFirst
	a := bLast + 1
	if in.Kind == "save" && in.N > 0 {
		a = in.Start
	}
	oldTail := append([]raftpb.Entry(nil), m.full[a-1:]...)

	img, err := os.MkdirTemp("/dev/shm", "c17-img-")
	if err != nil {
		return err
	}
	defer os.RemoveAll(img)
	var ci crashInfo
	var cpErr error
	n := 0
	prev4 := false
	metaWrites := 0
	removes := 0
	prefix := m.root + string(filepath.Separator)
	fileops.SetVerifFSCallback(func(op, path string, data []byte) int {
		if !strings.HasPrefix(path, prefix) {
			return -1
		}
		n++
		isEntry := strings.HasSuffix(path, ".entry")
		if n == o.Step && prev4 && op == "write" && isEntry && len(data) >= 32 && allZero(data) {
			ci.tornZeroFill = true
		}
		prev4 = op == "write" && isEntry && len(data) == 4
		if n == o.Step && op == "remove" && removes > 0 && in.Kind == "save" {
			ci.tornRemove = true
		}
		if op == "remove" {
			removes++
		}
		isMeta := strings.HasSuffix(path, "raft.meta")
		if n == o.Step && op == "write" && isMeta && metaWrites > 0 {
			ci.tornMeta = true
		}
		if op == "write" && isMeta {
			metaWrites++
		}
		if n == o.Step {
			cpErr = copyDir(m.root, img)
			ci.taken = true
			ci.mutOp = op
			ci.mutFile = "entry"
			if strings.HasSuffix(path, "raft.meta") {
				ci.mutFile = "meta"
			}
		}
		return -1
	})
	stepErr := m.step(in)
	fileops.SetVerifFSCallback(nil)
	ci.total = n
	if info != nil {
		*info = ci
	}
	if stepErr != nil {
		return stepErr
	}
	if cpErr != nil {
		return fmt.Errorf("copying the directory: %v", cpErr)
	}
	if !ci.taken {
		return nil
	}
	if o.Known != "" {
		// recorded by the generator: image belongs to a known-finding class, not judged
		return nil
	}
	if (ci.tornZeroFill || ci.tornMeta || ci.tornRemove) && info != nil && !allowKnownEnv {
		return nil
	}
	what := fmt.Sprintf("crash image before mutation %d/%d (%s of %s file) of %s", o.Step, ci.total, ci.mutOp, ci.mutFile, in.Kind)
	if err := m.checkImage(img, a, bLast, oldTail, bHS, bSnap, bFirst); err != nil {
		if v, ok := err.(violation); ok {
			return violation{what + ": " + v.msg}
		}
		return err
	}
	return nil
}

func sameSnap(a, b raftpb.Snapshot) bool {
	return a.Metadata.Index == b.Metadata.Index && a.Metadata.Term == b.Metadata.Term && bytes.Equal(a.Data, b.Data) &&
		sameU64s(a.Metadata.ConfState.Voters, b.Metadata.ConfState.Voters)
}

// checkImage: the image opens; its log is contiguous; below a (the first index the in-flight operation writes) it holds
// exactly the entries of the last completed operation; from a on each entry is the old or the new one; hard state
// and snapshot are the old or the new ones; the hard state does not commit beyond the log.
func (m *machine) checkImage(img string, a, bLast uint64, oldTail []raftpb.Entry, bHS raftpb.HardState, bSnap raftpb.Snapshot, bFirst uint64) (err error) {
	defer func() {
		if r := recover(); r != nil {
			err = vio("panic while opening/reading the image: %v", r)
		}
	}()
	config.EntryFileRWType = m.rwType
	st, ierr := raftlog.Init(img, 0)
	if ierr != nil {
		return vio("Init: %v", ierr)
	}
	defer st.Close()
	first, _ := st.FirstIndex()
	last, _ := st.LastIndex()
	upper := max(m.msFirst(), m.snap.Metadata.Index, 1)
	if first < bFirst || first > upper {
		return vio("FirstIndex = %d, want within [%d, %d]", first, bFirst, upper)
	}
	aLast := m.last()
	if last+1 < a || last > max(bLast, aLast) {
		return vio("LastIndex = %d; the in-flight operation writes from %d, last was %d and becomes %d", last, a, bLast, aLast)
	}
	hs, herr := st.HardState()
	if herr != nil {
		return vio("HardState: %v", herr)
	}
	if !reflect.DeepEqual(hs, bHS) && !reflect.DeepEqual(hs, m.hs) {
		return vio("HardState = %+v, want the old %+v or the new %+v", hs, bHS, m.hs)
	}
	if hs.Commit > last {
		return vio("HardState.Commit = %d beyond LastIndex = %d", hs.Commit, last)
	}
	sn, serr := st.Snapshot()
	if serr != nil {
		return vio("Snapshot: %v", serr)
	}
	if !sameSnap(sn, bSnap) && !sameSnap(sn, m.snap) {
		return vio("Snapshot = %+v, want the old %+v or the new %+v", sn.Metadata, bSnap.Metadata, m.snap.Metadata)
	}
	want := func(j uint64) (old, new *raftpb.Entry) {
		if j < a {
			return &m.full[j-1], &m.full[j-1]
		}
		if j-a < uint64(len(oldTail)) {
			old = &oldTail[j-a]
		}
		if j <= aLast {
			new = &m.full[j-1]
		}
		return
	}
	next := first
	for next <= last {
		hi := min(next+10000, last+1)
		got, eerr := st.Entries(next, hi, math.MaxUint64)
		if eerr != nil {
			return vio("Entries(%d,%d,max) with first=%d last=%d: %v", next, hi, first, last, eerr)
		}
		if uint64(len(got)) != hi-next {
			return vio("Entries(%d,%d,max) with first=%d last=%d returned %d entries", next, hi, first, last, len(got))
		}
		for k, e := range got {
			j := next + uint64(k)
			o, nw := want(j)
			if (o != nil && sameEntry(e, *o)) || (nw != nil && sameEntry(e, *nw)) {
				continue
			}
			w := "nothing"
			if o != nil {
				w = "old " + descr(*o)
			}
			if nw != nil {
				w += " or new " + descr(*nw)
			}
			return vio("entry at index %d (in-flight operation writes from %d): got %s, want %s", j, a, descr(e), w)
		}
		next = hi
	}
	// Term agrees with Entries at the boundaries
	for _, j := range []uint64{first, a - 1, a, last} {
		if j < first || j > last || j == 0 {
			continue
		}
		tm, terr := st.Term(j)
		o, nw := want(j)
		if terr != nil || !((o != nil && o.Term == tm) || (nw != nil && nw.Term == tm)) {
			return vio("Term(%d) = %d, %v disagrees with the entries", j, tm, terr)
		}
	}
	if _, terr := st.Term(last + 1); !errors.Is(terr, raft.ErrUnavailable) && !(last == 0 && errors.Is(terr, raft.ErrCompacted)) {
		return vio("Term(last+1 = %d) = %v, want ErrUnavailable", last+1, terr)
	}
	return nil
}

// ---------------------------------------------------------------- generator: the ordinary machine, some steps in flight

func (g *gen) maybeCrash(o Op) (Op, bool) {
	t := g.t
	switch o.Kind {
	case "save", "snap", "del", "conf", "reopen":
	default:
		return o, false
	}
	rotAt := 0 // mutation number at which this save starts rotating because the slot table is full
	if o.Kind == "save" && o.N > 0 {
		fi, slot := g.m.store.SlotGe(o.Start)
		if g.m.last() == 0 {
			fi, slot = -1, 0
		}
		if fi == -1 && slot >= 0 && slot+o.N > slotsPerFile {
			rotAt = 3 * (slotsPerFile - slot)
			if o.Start <= g.m.last() {
				rotAt += 2
			}
		}
	}
	if c := rapid.IntRange(0, 2).Draw(t, "crash?"); c == 2 || (c == 1 && rotAt == 0) {
		return o, false
	}
	est := 8
	switch o.Kind {
	case "save":
		est = 3*o.N + 12
	case "snap", "conf":
		est = 5
	case "del":
		est = 3
	}
	var k int
	switch mode := rapid.IntRange(0, 3).Draw(t, "stepMode"); {
	case rotAt > 0 && mode <= 2:
		// 3 write calls per entry, then truncate, sync, create, 1 MiB write, sync for the new file
		k = max(1, rotAt+rapid.IntRange(-3, 10).Draw(t, "stepRot"))
	case mode == 0:
		k = rapid.IntRange(1, min(est, 10)).Draw(t, "stepEarly")
	case mode == 1:
		k = rapid.IntRange(max(1, est-22), est).Draw(t, "stepLate")
	default:
		k = rapid.IntRange(1, est).Draw(t, "step")
	}
	g.nearRotation = rotAt > 0 && k >= rotAt-3 && k <= rotAt+10
	in := o
	return Op{Kind: "crash", Step: k, In: &in}, true
}

func (g *gen) doCrash(o Op) {
	g.cs.Ops = append(g.cs.Ops, o)
	g.c.Op(o)
	var ci crashInfo
	err := g.m.crashStep(o, &ci)
	if ci.tornZeroFill && !allowKnownEnv {
		g.c.Excluded("crash_between_the_two_writes_of_truncation_zero_fill")
		g.cs.Ops[len(g.cs.Ops)-1].Known = "torn_zero_fill"
	}
	if ci.tornRemove && !allowKnownEnv {
		g.c.Excluded("crash_between_file_removals_of_truncation")
		g.cs.Ops[len(g.cs.Ops)-1].Known = "truncation_removes_oldest_first"
	}
	if ci.tornMeta && !allowKnownEnv {
		g.c.Excluded("crash_inside_the_write_group_of_a_meta_record")
		g.cs.Ops[len(g.cs.Ops)-1].Known = "torn_meta_record"
	}
	if ci.taken {
		g.c.Class("image_before_" + ci.mutOp + "_" + ci.mutFile + "_during_" + o.In.Kind)
		g.c.Class("image_taken")
		if g.nearRotation {
			g.c.Class("image_within_slot_rotation_window")
		}
		g.images++
	} else {
		g.c.Class("step_beyond_operation")
	}
	if err == nil {
		return
	}
	if v, ok := err.(violation); ok {
		g.c.Failf(g.t, prop, g.cs, "step %d (crash): %s", len(g.cs.Ops)-1, v.msg)
	}
	g.t.Fatalf("harness error at step %d (crash): %v", len(g.cs.Ops)-1, err)
}

func TestCrashImage(t *testing.T) {
	rapid.Check(t, machineProp("crash_image", 2, []string{"small", "bulk", "bulk", "fat", "mixed"}, false, true))
}
