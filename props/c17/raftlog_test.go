package c17

// C17: the replication log store (lib/raftlog) answers like etcd's reference MemoryStorage fed the same history,
// also after Close + Init of the directory.

import (
	"fmt"
	"math"
	"os"
	"path/filepath"
	"strings"
	"testing"

	"pgregory.net/rapid"
	"verif/internal/ev"
)

func TestMain(m *testing.M) { ev.Main(m) }

// step = one operation followed by the oracles that belong to it. Shared by the generator and TestReplay so that
// a replay judges exactly what the campaign judged.
func (m *machine) step(o Op) error {
	lastBefore := m.last()
	inRotated := false
	if o.Kind == "save" && o.N > 0 && o.Start <= lastBefore {
		fi, _ := m.store.SlotGe(o.Start)
		inRotated = fi != -1
	}
	if err := m.apply(o); err != nil {
		return err
	}
	if err := m.checkBasic(); err != nil {
		return err
	}
	switch o.Kind {
	case "save", "snap", "del", "reopen", "conf", "install":
		if err := m.checkBoundaries(o.Start, o.Start+uint64(o.N), o.Index); err != nil {
			return err
		}
	}
	// a reopen, and every append that discarded entries of a rotated file, is followed by a comparison of the whole
	// log; other discarding appends by a comparison of the log from 300 entries before the cut (whole log if short)
	if o.Kind == "reopen" || inRotated {
		return m.scan()
	}
	if o.Kind == "save" && o.N > 0 && o.Start <= lastBefore {
		if m.last() <= 5000 || o.Start <= 300 {
			return m.scan()
		}
		return m.scanFrom(o.Start - 300)
	}
	return nil
}

func runCase(cs Case) error {
	m, err := newMachine(cs.RWType)
	if err != nil {
		return err
	}
	defer m.close()
	for i, o := range cs.Ops {
		if o.Kind == "crash" {
			if err := m.crashStep(o, nil); err != nil {
				return wrapStep(i, o, err)
			}
			continue
		}
		if err := m.step(o); err != nil {
			return wrapStep(i, o, err)
		}
	}
	return nil
}

func wrapStep(i int, o Op, err error) error {
	if v, ok := err.(violation); ok {
		return violation{fmt.Sprintf("step %d (%s): %s", i, o.Kind, v.msg)}
	}
	return fmt.Errorf("step %d (%s): %v", i, o.Kind, err)
}

// ---------------------------------------------------------------- generator

type gen struct {
	t       *rapid.T
	c       *ev.Case
	m       *machine
	cs      Case
	profile string
	budget  int // entries this case may still append (keeps bulk cases below ~1 s)
	fatLeft int // bytes of fat payload this case may still append

	rotated             bool
	conflictRotated     bool
	reopenAfterRot      bool
	conflictSinceRe     bool
	allowKnownDefect    bool
	crash               bool // crash_image campaign: some mutating steps run with a directory copy taken mid-way
	images              int
	nearRotation        bool
	reopenAfterConflict bool
}

func (g *gen) fileCount() int {
	des, _ := os.ReadDir(filepath.Join(g.m.root, "__raft_entries__"))
	n := 0
	for _, de := range des {
		if strings.HasSuffix(de.Name(), ".entry") {
			n++
		}
	}
	return n
}

// do executes one step; a violation ends the case with a replayable record.
func (g *gen) do(o Op) {
	if g.crash {
		if co, yes := g.maybeCrash(o); yes {
			g.doCrash(co)
			return
		}
	}
	g.cs.Ops = append(g.cs.Ops, o)
	g.c.Op(o)
	err := g.m.step(o)
	if err == nil {
		return
	}
	if v, ok := err.(violation); ok {
		g.c.Failf(g.t, prop, g.cs, "step %d (%s): %s", len(g.cs.Ops)-1, o.Kind, v.msg)
	}
	g.t.Fatalf("harness error at step %d (%s): %v", len(g.cs.Ops)-1, o.Kind, err)
}

func (g *gen) drawHS(newLast uint64, lastTerm uint64) *HS {
	t := g.t
	if rapid.IntRange(0, 9).Draw(t, "hs?") < 4 {
		return nil
	}
	m := g.m
	term := max(m.hs.Term, lastTerm)
	if rapid.IntRange(0, 3).Draw(t, "hsTermUp") == 0 {
		term++
	}
	commit := m.commit
	switch rapid.IntRange(0, 5).Draw(t, "commitMode") {
	case 0, 1: // unchanged: keeps room for later conflicting appends
	case 2:
		commit = min(newLast, commit+uint64(rapid.IntRange(1, 5).Draw(t, "commitStep")))
	case 3:
		commit = newLast
	case 4:
		if newLast > commit {
			commit = rapid.Uint64Range(commit, newLast).Draw(t, "commit")
		}
	case 5:
		if newLast > 0 {
			commit = max(commit, newLast-1)
		}
	}
	if term == 0 {
		term = 1
	}
	return &HS{Term: term, Vote: uint64(rapid.IntRange(0, 3).Draw(t, "vote")), Commit: commit}
}

func (g *gen) drawSizes(o *Op) {
	t := g.t
	kind := g.profile
	if kind == "mixed" {
		kind = rapid.SampledFrom([]string{"small", "small", "bulk", "fat"}).Draw(t, "sizeKind")
	}
	switch kind {
	case "small":
		o.N = rapid.IntRange(1, 20).Draw(t, "n")
		o.SzBase = rapid.SampledFrom([]int{0, 0, 1, 8, 8, 100, 1000, 5000, 70000}).Draw(t, "szBase")
		o.SzVar = rapid.SampledFrom([]int{0, 0, 16, 300}).Draw(t, "szVar")
	case "bulk":
		switch rapid.IntRange(0, 6).Draw(t, "bulkKind") {
		case 0, 1:
			o.N = rapid.IntRange(1, 20).Draw(t, "n")
		case 2:
			o.N = rapid.IntRange(100, 3000).Draw(t, "n")
		case 3:
			// fill the file that receives the batch exactly to its last slot (or one less / one more)
			o.N = rapid.IntRange(1, 20).Draw(t, "n")
			if fi, slot := g.m.store.SlotGe(o.Start); g.m.last() > 0 && fi == -1 && slot >= 0 {
				if n := slotsPerFile - slot + rapid.IntRange(-1, 1).Draw(t, "fillOff"); n >= 1 {
					o.N = n
					g.c.Class("batch_ends_at_last_slot_of_file")
				}
			}
		default:
			// around the slot table size of one file (30000): fills, exactly fills or overflows a file
			o.N = rapid.OneOf(rapid.IntRange(10000, 35000), rapid.IntRange(slotsPerFile-3, slotsPerFile+3)).Draw(t, "n")
		}
		o.SzBase = rapid.SampledFrom([]int{0, 8, 8, 40, 1100}).Draw(t, "szBase")
		o.SzVar = rapid.SampledFrom([]int{0, 0, 16}).Draw(t, "szVar")
	case "fat":
		o.N = rapid.IntRange(1, 6).Draw(t, "n")
		o.SzBase = rapid.SampledFrom([]int{1 << 20, 2 << 20, 3 << 20, 4<<20 - 4096, 900 << 10}).Draw(t, "szBase")
		o.SzVar = rapid.SampledFrom([]int{0, 4095}).Draw(t, "szVar")
		if g.fatLeft < o.N*(o.SzBase+o.SzVar) {
			o.N = rapid.IntRange(1, 5).Draw(t, "n2")
			o.SzBase, o.SzVar = 100, 16
		}
	}
	if o.N > g.budget {
		o.N = max(1, min(o.N, rapid.IntRange(1, 20).Draw(t, "n3")))
	}
}

// save draws one Save call. mode: "append" (at last+1), "conflict" (at an existing index above the commit index).
func (g *gen) save(mode string) {
	t, m := g.t, g.m
	o := Op{Kind: "save"}
	last := m.last()
	o.Start = last + 1
	if mode == "conflict" {
		if m.commit >= last {
			t.Skip("nothing above the commit index to overwrite")
		}
		lo, hi := m.commit+1, last
		// where to cut: the last entry, near the end, anywhere, or at/around the first slot of a file
		switch rapid.IntRange(0, 5).Draw(t, "cutMode") {
		case 0:
			o.Start = hi
		case 1:
			o.Start = uint64(max(int64(lo), int64(hi)-int64(rapid.IntRange(0, 10).Draw(t, "back"))))
		case 2, 3:
			o.Start = rapid.Uint64Range(lo, hi).Draw(t, "cut")
		default:
			// first index of the file that holds a drawn index, or a neighbour of it
			x := rapid.Uint64Range(lo, hi).Draw(t, "cutFile")
			_, slot := m.store.SlotGe(x)
			fs := x - uint64(slot)
			fs = uint64(max(1, int64(fs)+int64(rapid.IntRange(-1, 1).Draw(t, "cutOff"))))
			o.Start = min(max(fs, lo), hi)
		}
		// (C17-rotated-file-first-payload, fixed in /repo: truncations into a rotated file at any slot are generated;
		// replays/C17/rotated_file_first_payload_*.json are the regression cases)
	}
	g.drawSizes(&o)
	prevTerm := m.termOf(o.Start - 1)
	o.Term = max(prevTerm, 1)
	switch rapid.IntRange(0, 3).Draw(t, "termMode") {
	case 0:
		o.Term += uint64(rapid.IntRange(1, 3).Draw(t, "termUp"))
	case 1:
		if mode == "conflict" {
			// overwrite with a term that differs from the stored one (lower is possible in raft as long as it
			// is not below the term of the preceding entry)
			if old := m.termOf(o.Start); old > o.Term {
				o.Term = rapid.Uint64Range(o.Term, old).Draw(t, "termLower")
			} else {
				o.Term = old + 1
			}
		}
	}
	if o.N > 1 && rapid.IntRange(0, 3).Draw(t, "termSplit") == 0 {
		o.TermUpAt = rapid.IntRange(1, o.N-1).Draw(t, "termUpAt")
	}
	if rapid.IntRange(0, 4).Draw(t, "typ") == 0 {
		o.TypMod = rapid.IntRange(1, 5).Draw(t, "typMod")
	}
	newLast := o.Start + uint64(o.N) - 1
	lastTerm := o.Term
	if o.TermUpAt > 0 {
		lastTerm++
	}
	o.HS = g.drawHS(newLast, lastTerm)

	// classes
	filesBefore := g.fileCount()
	if mode == "conflict" {
		fi, slot := m.store.SlotGe(o.Start)
		switch {
		case fi == -1:
			g.c.Class("conflict_in_current_file")
		case slot == 0:
			g.c.Class("conflict_at_first_slot_of_rotated_file")
			g.conflictRotated = true
		default:
			g.c.Class("conflict_into_rotated_file_slot_gt0")
			g.conflictRotated = true
		}
		if m.termOf(o.Start) == o.Term {
			g.c.Class("overlap_same_term")
		}
		if newLast < last {
			g.c.Class("log_gets_shorter")
		}
		g.conflictSinceRe = true
	}
	if o.SzBase == 0 && o.SzVar == 0 {
		g.c.Class("empty_payloads")
	}
	g.budget -= o.N
	if o.SzBase >= 512<<10 {
		g.fatLeft -= o.N * (o.SzBase + o.SzVar)
	}
	g.do(o)
	if after := g.fileCount(); after > filesBefore {
		g.rotated = true
		if o.SzBase >= 512<<10 || (o.SzBase >= 1000 && o.N >= 10000) {
			g.c.Class("rotation_by_size")
		} else {
			g.c.Class("rotation_by_slot_count")
		}
	}
	if g.fileCount() >= 3 {
		g.c.Class("three_or_more_files")
	}
}

func (g *gen) hsOnly() {
	m := g.m
	if m.last() == 0 {
		g.t.Skip("empty")
	}
	hs := g.drawHS(m.last(), m.termOf(m.last()))
	if hs == nil {
		g.t.Skip("no hard state drawn")
	}
	g.c.Class("hard_state_only_save")
	g.do(Op{Kind: "save", HS: hs})
}

func (g *gen) voters() []uint64 {
	n := rapid.IntRange(1, 3).Draw(g.t, "voters")
	v := make([]uint64, n)
	for i := range v {
		v[i] = uint64(i + 1)
	}
	return v
}

func (g *gen) conf() {
	if g.m.snap.Metadata.Index != 0 {
		// raftconn stores the conf state as a snapshot record with index 0; after a real snapshot exists that
		// would erase it, which is the caller's business, not the store's
		g.t.Skip("snapshot exists")
	}
	g.c.Class("conf_state_record")
	g.do(Op{Kind: "conf", Voters: g.voters()})
}

func (g *gen) snapshot() {
	t, m := g.t, g.m
	lo := max(m.snap.Metadata.Index, m.storeFirst, 1)
	if m.commit < lo {
		t.Skip("nothing committed to snapshot")
	}
	i := m.commit
	switch rapid.IntRange(0, 3).Draw(t, "snapMode") {
	case 0:
		i = lo
	case 1:
		i = rapid.Uint64Range(lo, m.commit).Draw(t, "snapIndex")
	}
	g.c.Class("create_snapshot")
	if i == m.snap.Metadata.Index {
		g.c.Class("create_snapshot_same_index")
	}
	g.do(Op{Kind: "snap", Index: i, Voters: g.voters()})
}

func (g *gen) del() {
	t, m := g.t, g.m
	si := m.snap.Metadata.Index
	if si == 0 {
		t.Skip("no snapshot")
	}
	i := si
	switch rapid.IntRange(0, 4).Draw(t, "delMode") {
	case 0:
		lo := uint64(0)
		if m.storeFirst > 2 {
			lo = m.storeFirst - 2
		}
		i = rapid.Uint64Range(lo, si).Draw(t, "delIndex")
	case 1:
		// the leader proposes min(slowest follower's match index, snapshot index)
		i = rapid.Uint64Range(min(m.storeFirst, si), si).Draw(t, "delIndex2")
	}
	before := m.storeFirst
	g.do(Op{Kind: "del", Index: i})
	g.c.Class("delete_before")
	if m.storeFirst > before {
		g.c.Class("delete_removed_files")
	}
	if i < before {
		g.c.Class("delete_below_first")
	}
}

func (g *gen) reopen() {
	g.c.Class("reopen")
	if g.rotated {
		g.c.Class("reopen_after_rotation")
		g.reopenAfterRot = true
	}
	if g.conflictSinceRe {
		g.c.Class("reopen_after_conflict")
		g.reopenAfterConflict = true
	}
	g.conflictSinceRe = false
	before := g.m.storeFirst
	g.do(Op{Kind: "reopen"})
	if g.m.storeFirst > before {
		g.c.Class("reopen_removed_files")
	}
}

func (g *gen) drawIndex(label string) uint64 {
	i := g.drawIndex0(label)
	if i > g.m.last()+3 {
		i = g.m.last() + 3
	}
	return i
}

func (g *gen) drawIndex0(label string) uint64 {
	t, m := g.t, g.m
	last := m.last()
	switch rapid.IntRange(0, 5).Draw(t, label+"Mode") {
	case 0:
		return rapid.Uint64Range(0, last+2).Draw(t, label)
	case 1:
		return uint64(max(0, int64(m.storeFirst)+int64(rapid.IntRange(-2, 2).Draw(t, label+"Off"))))
	case 2:
		return uint64(max(0, int64(last)+int64(rapid.IntRange(-2, 2).Draw(t, label+"Off"))))
	case 3:
		// around a file boundary
		k := uint64(rapid.IntRange(1, 3).Draw(t, label+"File")) * slotsPerFile
		return uint64(int64(k) + int64(rapid.IntRange(-2, 2).Draw(t, label+"Off")))
	case 4:
		return uint64(max(0, int64(m.msFirst())+int64(rapid.IntRange(-2, 2).Draw(t, label+"Off"))))
	default:
		if last > m.storeFirst {
			return rapid.Uint64Range(m.storeFirst, last).Draw(t, label)
		}
		return last
	}
}

func (g *gen) queryTerm() {
	i := g.drawIndex("term")
	m := g.m
	switch {
	case i < m.storeFirst:
		g.c.Class("term_below_first")
	case i > m.last():
		g.c.Class("term_above_last")
	}
	g.do(Op{Kind: "term", Index: i})
}

func (g *gen) queryEntries() {
	t, m := g.t, g.m
	lo := max(g.drawIndex("lo"), 1)
	var hi uint64
	switch rapid.IntRange(0, 4).Draw(t, "hiMode") {
	case 0:
		hi = lo + uint64(rapid.IntRange(0, 40).Draw(t, "span"))
	case 1:
		hi = m.last() + 1
	case 2:
		hi = lo + uint64(rapid.IntRange(0, 40000).Draw(t, "bigSpan"))
	default:
		hi = max(g.drawIndex("hi"), lo)
	}
	if hi < lo {
		hi = lo
	}
	var mx uint64
	switch rapid.IntRange(0, 5).Draw(t, "maxMode") {
	case 0:
		mx = 0
	case 1:
		mx = math.MaxUint64
	case 2:
		mx = uint64(rapid.IntRange(0, 200).Draw(t, "maxSmall"))
	case 3:
		mx = uint64(rapid.IntRange(0, 100000).Draw(t, "maxMid"))
	case 4:
		// exactly what k entries from lo need, or one byte less
		if lo <= m.last() {
			k := uint64(rapid.IntRange(1, 8).Draw(t, "fitK"))
			for i := lo; i < lo+k && i <= m.last(); i++ {
				mx += uint64(m.full[i-1].Size())
			}
			mx -= uint64(rapid.IntRange(0, 1).Draw(t, "fitMinus"))
		}
	default:
		mx = uint64(rapid.IntRange(0, 12<<20).Draw(t, "maxBig"))
	}
	switch {
	case lo < m.storeFirst:
		g.c.Class("entries_compacted")
	case hi > m.last()+1:
		g.c.Class("entries_unavailable")
	case lo == hi:
		g.c.Class("entries_empty_range")
	default:
		want := limitSize(m.full[lo-1:hi-1], mx)
		if uint64(len(want)) < hi-lo {
			g.c.Class("entries_cut_by_size_limit")
		}
		if f1, _ := m.store.SlotGe(lo); hi-1 <= m.last() {
			if f2, _ := m.store.SlotGe(want[len(want)-1].Index); f1 != f2 {
				g.c.Class("entries_span_files")
			}
		}
	}
	g.do(Op{Kind: "ents", Lo: lo, Hi: hi, Max: mx})
}

// VERIF_C17_ALLOW_KNOWN=1 switches the known-finding exclusions off (used to validate a candidate repair: with it the
// campaigns search the full domain, and fail within seconds on the unrepaired tree).
var allowKnownEnv = os.Getenv("VERIF_C17_ALLOW_KNOWN") == "1"

func machineProp(campaign string, rwType int, profiles []string, allowKnown, crash bool) func(t *rapid.T) {
	allowKnown = allowKnown || allowKnownEnv
	return ev.Prop(prop, campaign, func(t *rapid.T, c *ev.Case) {
		profile := rapid.SampledFrom(profiles).Draw(t, "profile")
		m, err := newMachine(rwType)
		if err != nil {
			t.Fatalf("harness: %v", err)
		}
		defer m.close()
		g := &gen{t: t, c: c, m: m, cs: Case{RWType: rwType}, profile: profile, budget: 72000, fatLeft: 80 << 20, allowKnownDefect: allowKnown, crash: crash}
		c.Class("profile_" + profile)
		if profile == "bulk" || profile == "fat" || profile == "mixed" {
			// start from a log that already is near or past a rotation point in a good share of the cases
			if rapid.IntRange(0, 2).Draw(t, "prefill") > 0 {
				g.save("append")
			}
		}
		t.Repeat(map[string]func(*rapid.T){
			"append":    func(*rapid.T) { g.save("append") },
			"append2":   func(*rapid.T) { g.save("append") },
			"conflict":  func(*rapid.T) { g.save("conflict") },
			"conflict2": func(*rapid.T) { g.save("conflict") },
			"hs":        func(*rapid.T) { g.hsOnly() },
			"conf":      func(*rapid.T) { g.conf() },
			"snap":      func(*rapid.T) { g.snapshot() },
			"del":       func(*rapid.T) { g.del() },
			"reopen":    func(*rapid.T) { g.reopen() },
			"term":      func(*rapid.T) { g.queryTerm() },
			"entries":   func(*rapid.T) { g.queryEntries() },
			"entries2":  func(*rapid.T) { g.queryEntries() },
		})
		// every history ends with: compare everything, reopen, compare everything
		g.do(Op{Kind: "scan"})
		g.reopen()
		smallOnly := len(profiles) == 1 && profiles[0] == "small"
		if (!crash && (g.conflictRotated || g.reopenAfterRot || (smallOnly && g.reopenAfterConflict))) || (crash && g.images > 0) {
			c.Nontrivial(g.cs)
		}
		if len(g.cs.Ops) <= 14 {
			c.Sample(g.cs)
		} else {
			c.Sample(map[string]any{"rw_type": rwType, "ops_total": len(g.cs.Ops), "first_ops": g.cs.Ops[:14]})
		}
	})
}

var allProfiles = []string{"small", "bulk", "bulk", "fat", "mixed"}

// default file access mode (pread/pwrite with per-slot cache)
func TestStoreV2(t *testing.T) { rapid.Check(t, machineProp("store_v2", 2, allProfiles, false, false)) }

// entry-file-rw-type = 1 (whole file kept in memory)
func TestStoreV1(t *testing.T) { rapid.Check(t, machineProp("store_v1", 1, allProfiles, false, false)) }

// small histories only: many more steps per second, all boundary logic except rotation
func TestStoreSmall(t *testing.T) {
	rapid.Check(t, machineProp("store_small", 2, []string{"small"}, false, false))
}
