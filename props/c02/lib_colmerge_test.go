package c02

// Library-level companion of C02, part 4: the column-wise merge of an ordered column segment with
// the out-of-order data of the same series (record.MergeHelper, immutable.MergeTimes,
// immutable.FillNilCol), driven as engine/immutable/merge_performer.go and unordered_reader.go do:
// the out-of-order files' columns are first folded over an all-null column spanning the union of
// their times (oldest file first), the result is then merged over the ordered column.

import (
	"fmt"
	"testing"

	"github.com/openGemini/openGemini/engine/immutable"
	"github.com/openGemini/openGemini/lib/record"
	"github.com/openGemini/openGemini/lib/util/lifted/vm/protoparser/influx"
	"pgregory.net/rapid"
	"verif/internal/ev"
)

type lCol struct {
	Times   []int64  `json:"times"`
	Vals    []string `json:"vals"`              // "" = null
	Missing bool     `json:"missing,omitempty"` // the file has rows at these times but not this column
}

type colCase struct {
	Kind      string  `json:"kind"` // "ooo_column"
	Type      int     `json:"type"`
	Order     *lCol   `json:"order"`
	Unordered []*lCol `json:"unordered"` // oldest file first
	Twice     bool    `json:"twice,omitempty"`
}

func (lc *lCol) build(typ int) (*record.ColVal, error) {
	if len(lc.Times) != len(lc.Vals) {
		return nil, fmt.Errorf("times/vals mismatch")
	}
	cv := &record.ColVal{}
	for _, v := range lc.Vals {
		if err := appendLit(cv, typ, v); err != nil {
			return nil, err
		}
	}
	return cv, nil
}

// decodeCol reads one column the way decodeRec does, against the given times.
func decodeCol(cv *record.ColVal, times []int64, typ int) ([]dRow, error) {
	rec := &record.Record{}
	rec.Schema = record.Schemas{{Name: "v", Type: typ}, {Name: record.TimeField, Type: influx.Field_Type_Int}}
	rec.ColVals = make([]record.ColVal, 2)
	if cv != nil {
		rec.ColVals[0] = *cv
	}
	rec.ColVals[1].AppendIntegers(times...)
	if cv == nil && len(times) > 0 {
		return nil, fmt.Errorf("no column returned for %d times", len(times))
	}
	_, rows, lz, err := decodeRec(rec)
	if err != nil {
		return nil, err
	}
	if lz {
		return nil, fmt.Errorf("column has length 0 for %d times", len(times))
	}
	return rows, nil
}

type colInfo struct {
	eqOrder, eqAmong bool
	nullOverValue    bool
}

func checkColMerge(cc *colCase) (info colInfo, err error) {
	defer func() {
		if r := recover(); r != nil {
			err = fmt.Errorf("panic: %v", r)
		}
	}()
	if cc.Order == nil || len(cc.Order.Times) == 0 || !sortedUnique(cc.Order.Times, true) {
		return info, ev.InconclusiveError("ordered column must be non-empty, sorted, unique")
	}
	ref := record.Field{Name: "v", Type: cc.Type}
	want := newLWW()
	put := func(lc *lCol) {
		for i, t := range lc.Times {
			row := want.touch(t)
			if !lc.Missing && lc.Vals[i] != "" {
				row["v"] = lc.Vals[i]
			}
		}
	}
	put(cc.Order)
	for _, u := range cc.Unordered {
		if len(u.Times) == 0 || !sortedUnique(u.Times, true) {
			return info, ev.InconclusiveError("out-of-order columns must be non-empty, sorted, unique")
		}
		put(u)
	}
	mhU := record.NewMergeHelper() // UnorderedReaderContext.mh
	mhO := record.NewMergeHelper() // mergePerformer.mh
	var rows []dRow
	passes := 1
	if cc.Twice {
		passes = 2 // the helpers live as long as the merge: the second pass runs on used helpers
	}
	for pass := 0; pass < passes; pass++ {
		orderCol, e := cc.Order.build(cc.Type)
		if e != nil {
			return info, ev.InconclusiveError(e.Error())
		}
		// UnorderedReader.InitTimes
		var nilTimes, swap []int64
		for _, u := range cc.Unordered {
			swap = immutable.MergeTimes(nilTimes, u.Times, swap[:0])
			nilTimes, swap = swap, nilTimes
		}
		mergedCol, mergedTimes := orderCol, cc.Order.Times
		if len(nilTimes) > 0 {
			// UnorderedReader.Read
			nilCol := &record.ColVal{}
			immutable.FillNilCol(nilCol, len(nilTimes), &ref)
			added := 0
			for _, u := range cc.Unordered {
				if u.Missing {
					continue
				}
				col, e := u.build(cc.Type)
				if e != nil {
					return info, ev.InconclusiveError(e.Error())
				}
				mhU.AddUnorderedCol(col, u.Times)
				added++
			}
			uCol, uTimes := nilCol, nilTimes
			if added > 0 {
				uCol, uTimes, e = mhU.Merge(nilCol, nilTimes, cc.Type)
				if e != nil {
					return info, fmt.Errorf("merge of the out-of-order columns: %v", e)
				}
			}
			// mergePerformer.merge
			mhO.AddUnorderedCol(uCol, uTimes)
			mergedCol, mergedTimes, e = mhO.Merge(orderCol, cc.Order.Times, cc.Type)
			if e != nil {
				return info, fmt.Errorf("merge over the ordered column: %v", e)
			}
		}
		record.CheckCol(mergedCol, cc.Type) // asserted by the writer in debug builds
		rows, e = decodeCol(mergedCol, mergedTimes, cc.Type)
		if e != nil {
			return info, fmt.Errorf("pass %d: merged column malformed: %v", pass, e)
		}
		if e := compareLWW(rows, want, true); e != nil {
			return info, fmt.Errorf("pass %d: %v", pass, e)
		}
		if len(rows) != len(want.rows) {
			return info, fmt.Errorf("pass %d: merged column has %d rows, the inputs hold %d distinct timestamps", pass, len(rows), len(want.rows))
		}
	}
	return info, nil
}

func genCol(t *rapid.T, typ, src, n int, lo, hi int64, allowMissing bool) *lCol {
	lc := &lCol{Times: genDistinctTimes(t, "t", n, lo, hi)}
	pat := rapid.SampledFrom(nullPats).Draw(t, "nullpat")
	if allowMissing && rapid.IntRange(0, 5).Draw(t, "missing") == 0 {
		lc.Missing = true
	}
	for range lc.Times {
		null := false
		switch pat {
		case "all":
			null = true
		case "sparse":
			null = rapid.IntRange(0, 4).Draw(t, "null") == 0
		case "dense":
			null = rapid.IntRange(0, 4).Draw(t, "null") != 0
		}
		if null || lc.Missing {
			lc.Vals = append(lc.Vals, "")
		} else {
			lc.Vals = append(lc.Vals, genVal(t, typ, src))
		}
	}
	return lc
}

func TestLibColumnMerge(t *testing.T) {
	rapid.Check(t, ev.Prop(prop, "lib_ooo_column_merge", func(t *rapid.T, c *ev.Case) {
		cc := &colCase{Kind: "ooo_column"}
		cc.Type = rapid.SampledFrom([]int{influx.Field_Type_Int, influx.Field_Type_Float, influx.Field_Type_String, influx.Field_Type_Boolean}).Draw(t, "type")
		c.Class("type=" + libTypeName(cc.Type))
		nO := rapid.OneOf(rapid.IntRange(1, 12), rapid.IntRange(1, 40), rapid.SampledFrom([]int{1, 8, 9, 64, 65})).Draw(t, "nOrder")
		d := int64(2 * nO)
		place := rapid.SampledFrom([]string{"across", "across", "across", "before", "after", "inside"}).Draw(t, "place")
		c.Class("place=" + place)
		oLo, oHi := int64(10), 10+d
		cc.Order = genCol(t, cc.Type, 1, nO, oLo, oHi, false)
		k := rapid.IntRange(0, 3).Draw(t, "files")
		c.Class(fmt.Sprintf("ooo_files=%d", k))
		for i := 0; i < k; i++ {
			n := rapid.IntRange(1, 14).Draw(t, "n")
			lo, hi := int64(0), oHi+10
			switch place {
			case "before":
				lo, hi = 0, 9
			case "after":
				lo, hi = oHi+1, oHi+1+int64(2*n)
			case "inside":
				lo, hi = oLo+1, oHi
			}
			if hi-lo+1 < int64(n) {
				n = int(hi - lo + 1)
			}
			cc.Unordered = append(cc.Unordered, genCol(t, cc.Type, 2+i, n, lo, hi, true))
		}
		cc.Twice = rapid.IntRange(0, 2).Draw(t, "twice") == 0
		if cc.Twice {
			c.Class("helpers_reused")
		}
		eqO, eqA, miss, alln := 0, 0, false, false
		for i, u := range cc.Unordered {
			eqO += equalTimes(cc.Order.Times, u.Times)
			for _, v := range cc.Unordered[:i] {
				eqA += equalTimes(v.Times, u.Times)
			}
			miss = miss || u.Missing
			an := !u.Missing
			for _, v := range u.Vals {
				if v != "" {
					an = false
				}
			}
			alln = alln || an
		}
		if eqO > 0 {
			c.Class("equal_timestamps_with_ordered")
		}
		if eqA > 0 {
			c.Class("equal_timestamps_among_ooo_files")
		}
		if miss {
			c.Class("column_missing_in_a_file")
		}
		if alln {
			c.Class("all_null_column")
		}
		if _, err := checkColMerge(cc); err != nil {
			c.Failf(t, prop, cc, "%v", err)
		}
		if eqO > 0 && k > 0 {
			c.Class("nontrivial")
			c.Nontrivial(ev.Hash(cc))
			c.Sample(map[string]any{"type": libTypeName(cc.Type), "ordered_rows": nO, "ooo_files": k, "equal_with_ordered": eqO, "equal_among_ooo": eqA})
		}
	}))
}
