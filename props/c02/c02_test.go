package c02

import (
	"encoding/json"
	"fmt"
	"os"
	"strings"
	"testing"

	"pgregory.net/rapid"
	"verif/internal/bb"
	"verif/internal/ev"
	"verif/internal/hist"
)

const prop = "C02"

func TestMain(m *testing.M) {
	code := m.Run()
	ev.Flush()
	bb.CleanupAll()
	os.Exit(code)
}

var tagSets = []map[string]string{{"host": "a"}, {"host": "b"}, {"host": "c"}, {"host": "a", "dc": "x"}}
var msts = []string{"m0", "m1"}

type gen struct {
	counter int
	maxT    int // highest time index written so far (late data = below it)
}

func (g *gen) point(t *rapid.T, h *hist.H) hist.PointJ {
	p := hist.PointJ{Mst: rapid.SampledFrom(msts).Draw(t, "mst"), Tags: rapid.SampledFrom(tagSets).Draw(t, "tags")}
	switch rapid.IntRange(0, 5).Draw(t, "tkind") {
	case 0: // late data
		p.T = rapid.IntRange(0, max(g.maxT, 1)).Draw(t, "tlate")
	case 1: // the other shard group
		p.T = rapid.IntRange(64, 79).Draw(t, "tshard2")
	case 2: // append
		p.T = min(g.maxT+rapid.IntRange(0, 2).Draw(t, "tadv"), 63)
	default:
		p.T = rapid.IntRange(0, 40).Draw(t, "t")
	}
	if p.T > g.maxT && p.T < 64 {
		g.maxT = p.T
	}
	p.Fields = map[string]string{}
	// a subset of the fields: partial rows
	mask := rapid.IntRange(1, 15).Draw(t, "fieldmask")
	for i, n := range hist.FieldNames {
		if mask&(1<<i) == 0 {
			continue
		}
		g.counter++
		switch n {
		case "i":
			p.Fields[n] = fmt.Sprint(g.counter)
		case "f":
			p.Fields[n] = fmt.Sprintf("%g", float64(g.counter)+0.25)
		case "s":
			p.Fields[n] = fmt.Sprintf("v%d", g.counter)
		default:
			p.Fields[n] = fmt.Sprint(g.counter%2 == 0)
		}
	}
	return p
}

func genRead(t *rapid.T) hist.Read {
	r := hist.Read{Mst: rapid.SampledFrom(msts).Draw(t, "rmst"), Grouped: rapid.IntRange(0, 3).Draw(t, "grouped") > 0, Desc: rapid.IntRange(0, 3).Draw(t, "desc") == 0}
	switch rapid.IntRange(0, 4).Draw(t, "range") {
	case 0:
		r.NoTime = true
	case 1:
		r.TMin, r.TMax = hist.TS(0)-5e9, hist.TS(79)+5e9
	default:
		a := rapid.IntRange(0, 79).Draw(t, "ra")
		b := rapid.IntRange(a, 79).Draw(t, "rb")
		r.TMin = hist.TS(a) + int64(rapid.IntRange(-1, 1).Draw(t, "da"))
		r.TMax = hist.TS(b) + int64(rapid.IntRange(-1, 1).Draw(t, "db"))
	}
	if rapid.IntRange(0, 2).Draw(t, "fsel") == 0 {
		mask := rapid.IntRange(1, 15).Draw(t, "rmask")
		for i, n := range hist.FieldNames {
			if mask&(1<<i) != 0 {
				r.Fields = append(r.Fields, n)
			}
		}
	}
	if rapid.IntRange(0, 4).Draw(t, "hostf") == 0 {
		r.Host = rapid.SampledFrom([]string{"a", "b", "c"}).Draw(t, "host")
	}
	return r
}

// exec interprets one op (shared with replay).
func exec(h *hist.H, op hist.Op) {
	switch op.Kind {
	case "start":
		return
	}
	h.C.Op(op)
	switch op.Kind {
	case "write":
		h.Write(op.Points)
	case "flush":
		h.Flush()
	case "reorg":
		h.Reorg(op.Cmd)
	case "restart":
		h.CleanRestart()
	case "read":
		if d := h.CheckRead(*op.Read); d != "" {
			layers, ow := h.ReadSpansLayers(*op.Read)
			o, u, lv := h.Layout()
			h.Fail("read %q differs from the last-write-wins replay of the acknowledged writes: %s [generations in range: %d, overwritten across generations: %v, files ordered=%d unordered=%d maxlevel=%d]", op.Read.SQL(), d, layers, ow, o, u, lv)
		}
	default:
		bb.Fatal("unknown op %q", op.Kind)
	}
}

func knobsFor(seg string) map[string]string {
	k := map[string]string{}
	if seg != "" {
		k["max-rows-per-segment"] = seg
	}
	return k
}

func runHistory(t *rapid.T, c *ev.Case) {
	seg := rapid.SampledFrom([]string{"8", "8", ""}).Draw(t, "maxRowsPerSegment")
	c.Class("segrows=" + seg)
	h := hist.New(c, 2, knobsFor(seg), func(format string, a ...any) {
		c.Failf(t, prop, map[string]any{"kind": "history", "segrows": seg}, format, a...)
	})
	defer h.Close()
	g := &gen{}
	nt := map[string]bool{}
	doRead := func(t *rapid.T) {
		r := genRead(t)
		exec(h, hist.Op{Kind: "read", Read: &r})
		layers, ow := h.ReadSpansLayers(r)
		o, u, lv := h.Layout()
		if layers >= 2 {
			c.Class("read-spans-2+generations")
		}
		if layers >= 2 && ow {
			key := fmt.Sprintf("layers>=2,overwritten,ordered=%v,unordered=%v,level=%d,desc=%v,grouped=%v,restarts=%v", o > 0, u > 0, lv, r.Desc, r.Grouped, h.Restarts > 0)
			nt[key] = true
			c.Class("nontrivial-read")
			if u > 0 {
				c.Class("read-with-unordered-files")
			}
			if lv > 0 {
				c.Class("read-after-compaction")
			}
			if h.Reorgs["merge"] > 0 {
				c.Class("read-after-merge")
			}
			if h.Restarts > 0 {
				c.Class("read-after-restart")
			}
			if r.Desc {
				c.Class("read-descending")
			}
		}
	}
	write := func(t *rapid.T) {
		n := rapid.IntRange(1, 12).Draw(t, "n")
		ps := make([]hist.PointJ, n)
		for i := range ps {
			ps[i] = g.point(t, h)
			if i > 0 && rapid.IntRange(0, 5).Draw(t, "dupInBatch") == 0 {
				// the same (series,time) twice in one request
				ps[i].Mst, ps[i].Tags, ps[i].T = ps[i-1].Mst, ps[i-1].Tags, ps[i-1].T
				c.Class("duplicate-in-batch")
			}
		}
		exec(h, hist.Op{Kind: "write", Points: ps})
		doRead(t)
	}
	// a run of consecutive timestamps of one series (9-30 rows): with max-rows-per-segment = 8 its chunk has several segments, so that
	// read ranges start / end inside, on and between segments, and runs written later overlap flushed ones segment by segment
	writeRun := func(t *rapid.T) {
		mst := rapid.SampledFrom(msts).Draw(t, "runmst")
		tags := rapid.SampledFrom(tagSets).Draw(t, "runtags")
		start := rapid.IntRange(0, 45).Draw(t, "runstart")
		n := rapid.IntRange(9, min(30, 63-start)).Draw(t, "runlen")
		var ps []hist.PointJ
		for k := 0; k < n; k++ {
			if rapid.IntRange(0, 9).Draw(t, "rungap") == 0 {
				continue
			}
			p := hist.PointJ{Mst: mst, Tags: tags, T: start + k, Fields: map[string]string{}}
			mask := 15
			if rapid.IntRange(0, 2).Draw(t, "runpartial") == 0 {
				mask = rapid.IntRange(1, 15).Draw(t, "fieldmask")
			}
			for i, n := range hist.FieldNames {
				if mask&(1<<i) == 0 {
					continue
				}
				g.counter++
				switch n {
				case "i":
					p.Fields[n] = fmt.Sprint(g.counter)
				case "f":
					p.Fields[n] = fmt.Sprintf("%g", float64(g.counter)+0.25)
				case "s":
					p.Fields[n] = fmt.Sprintf("v%d", g.counter)
				default:
					p.Fields[n] = fmt.Sprint(g.counter%2 == 0)
				}
			}
			ps = append(ps, p)
		}
		if start+n-1 > g.maxT {
			g.maxT = start + n - 1
		}
		if len(ps) == 0 {
			t.Skip("empty run")
		}
		c.Class("dense-run-written")
		exec(h, hist.Op{Kind: "write", Points: ps})
		doRead(t)
	}
	actions := map[string]func(*rapid.T){
		"writeRun": writeRun,
		"write":  write,
		"write2": write,
		"write3": write,
		"flush": func(t *rapid.T) {
			exec(h, hist.Op{Kind: "flush"})
			doRead(t)
		},
		"flush2": func(t *rapid.T) {
			exec(h, hist.Op{Kind: "flush"})
			doRead(t)
		},
		"reorg": func(t *rapid.T) {
			if h.Flushes == 0 {
				t.Skip("no files")
			}
			cmd := rapid.SampledFrom([]string{"merge", "compact", "all", "full"}).Draw(t, "cmd")
			exec(h, hist.Op{Kind: "reorg", Cmd: cmd})
			doRead(t)
			doRead(t)
		},
		"restart": func(t *rapid.T) {
			exec(h, hist.Op{Kind: "restart"})
			doRead(t)
		},
		"read": doRead,
		"manyFlushes": func(t *rapid.T) {
			// enough flushed files for a level compaction (8 files of level 0)
			k := rapid.IntRange(4, 9).Draw(t, "k")
			for i := 0; i < k; i++ {
				write(t)
				exec(h, hist.Op{Kind: "flush"})
			}
			exec(h, hist.Op{Kind: "reorg", Cmd: "all"})
			doRead(t)
			doRead(t)
		},
	}
	t.Repeat(actions)
	// final full dump of both measurements, both orders
	for _, m := range msts {
		for _, desc := range []bool{false, true} {
			r := hist.Read{Mst: m, NoTime: true, Grouped: true, Desc: desc}
			exec(h, hist.Op{Kind: "read", Read: &r})
		}
	}
	if len(nt) > 0 {
		keys := make([]string, 0, len(nt))
		for k := range nt {
			keys = append(keys, k)
		}
		c.Nontrivial(map[string]any{"shapes": keys, "ops": c.Ops()})
		c.Sample(map[string]any{"nontrivial_read_shapes": keys, "ops": summarize(c.Ops())})
	}
}

func summarize(ops []any) []string {
	var out []string
	for _, o := range ops {
		op := o.(hist.Op)
		switch op.Kind {
		case "write":
			out = append(out, fmt.Sprintf("write(%d)", len(op.Points)))
		case "reorg":
			out = append(out, "reorg("+op.Cmd+")")
		case "read":
			out = append(out, "read["+strings.TrimPrefix(op.Read.SQL(), "select ")+"]")
		default:
			out = append(out, op.Kind)
		}
	}
	if len(out) > 60 {
		out = append(out[:60], fmt.Sprintf("... %d more", len(out)-60))
	}
	return out
}

func TestLayoutHistories(t *testing.T) {
	rapid.Check(t, ev.Prop(prop, "layout_histories", runHistory))
}

type violation struct{ msg string }

func replayHistory(seg string, ops []hist.Op) (err error) {
	c := ev.Begin("replay")
	var h *hist.H
	defer func() {
		if h != nil {
			h.Close()
		}
		if r := recover(); r != nil {
			if v, ok := r.(violation); ok {
				err = fmt.Errorf("%s", v.msg)
				return
			}
			panic(r)
		}
	}()
	h = hist.New(c, 2, knobsFor(seg), func(format string, a ...any) { panic(violation{fmt.Sprintf(format, a...)}) })
	for _, op := range ops {
		exec(h, op)
	}
	return nil
}

func TestReplay(t *testing.T) {
	ev.RunReplays(func(raw json.RawMessage, f ev.Failure) error {
		if fn, ok := libReplayers[f.Campaign]; ok { // library-level companion campaigns (lib_*_test.go)
			return fn(raw)
		}
		var hc struct {
			Seg string `json:"segrows"`
		}
		_ = json.Unmarshal(raw, &hc)
		b, _ := json.Marshal(f.Ops)
		var ops []hist.Op
		if err := json.Unmarshal(b, &ops); err != nil {
			return ev.InconclusiveError(err.Error())
		}
		return replayHistory(hc.Seg, ops)
	})
}
