package c02

// Library-level companion of C02, part 1: record.MergeRecord / MergeRecordDescend /
// MergeRecordLimitRows / MergeRecordLimitRowsDescend (memtable over snapshot table, out-of-order
// file over out-of-order file) and MergeRecordByMaxTimeOfOldRec + SliceFromRecord + KickNilRow driven
// the way engine/series_cursor.go drives them (memtable record over the stream of file records).

import (
	"fmt"
	"math"
	"sort"
	"testing"

	"github.com/openGemini/openGemini/lib/record"
	"pgregory.net/rapid"
	"verif/internal/ev"
)

// ---------------------------------------------------------------- pair merge

type pairCase struct {
	Kind  string  `json:"kind"` // "merge_pair"
	Op    string  `json:"op"`   // merge | merge_desc | limit | limit_desc | chain | chain_desc
	New   *lRec   `json:"new,omitempty"`
	Old   *lRec   `json:"old,omitempty"`
	Limit int     `json:"limit,omitempty"`
	Drain bool    `json:"drain,omitempty"` // keep calling with the returned positions until both inputs are consumed
	Dst   string  `json:"dst,omitempty"`   // "prealloc": destination made as fileLoopCursor.initOutOfOrderItersByRecord makes it
	Chain []*lRec `json:"chain,omitempty"` // oldest first; each is merged over the accumulated result
}

type pairInfo struct {
	cut, cutBothRemain bool
	steps              int
	lenZero            bool
}

func firstBeyond(last int64, r *lRec, pos int, asc bool) error {
	if pos >= r.n() {
		return nil
	}
	t := r.Times[pos]
	if asc && t <= last || !asc && t >= last {
		return fmt.Errorf("the call returned rows up to time %d but left input row %d (time %d) unconsumed: the next batch would repeat or go back in time", last, pos, t)
	}
	return nil
}

func checkMergePair(pc *pairCase) (info pairInfo, err error) {
	defer func() {
		if r := recover(); r != nil {
			err = fmt.Errorf("panic: %v", r)
		}
	}()
	switch pc.Op {
	case "chain", "chain_desc":
		return checkChain(pc)
	}
	if pc.New == nil || pc.Old == nil || pc.New.n() == 0 || pc.Old.n() == 0 {
		return info, ev.InconclusiveError("merge_pair needs two non-empty records")
	}
	asc := pc.Op == "merge" || pc.Op == "limit"
	if !sortedUnique(pc.New.Times, asc) || !sortedUnique(pc.Old.Times, asc) {
		return info, ev.InconclusiveError("inputs must be sorted by time without duplicates")
	}
	newRec, e := pc.New.build()
	if e != nil {
		return info, ev.InconclusiveError(e.Error())
	}
	oldRec, e := pc.Old.build()
	if e != nil {
		return info, ev.InconclusiveError(e.Error())
	}
	nN, nO := pc.New.n(), pc.Old.n()
	limit := pc.Limit
	var all []dRow
	np, op := 0, 0
	for step := 0; ; step++ {
		if step > nN+nO+2 {
			return info, fmt.Errorf("no progress after %d calls (positions new=%d old=%d)", step, np, op)
		}
		var out record.Record
		if pc.Dst == "prealloc" {
			out = *record.NewRecord(oldRec.Schema, false)
			out.Schema = nil
		}
		ne, oe := nN, nO
		switch pc.Op {
		case "merge":
			out.MergeRecord(newRec, oldRec)
		case "merge_desc":
			out.MergeRecordDescend(newRec, oldRec)
		case "limit":
			ne, oe = out.MergeRecordLimitRows(newRec, oldRec, np, op, limit)
		case "limit_desc":
			ne, oe = out.MergeRecordLimitRowsDescend(newRec, oldRec, np, op, limit)
		default:
			return info, ev.InconclusiveError("unknown op " + pc.Op)
		}
		info.steps++
		if ne < np || ne > nN || oe < op || oe > nO {
			return info, fmt.Errorf("call %d returned positions new=%d old=%d outside [%d..%d] / [%d..%d]", step, ne, oe, np, nN, op, nO)
		}
		fields, rows, lz, e := decodeRec(&out)
		if e != nil {
			return info, fmt.Errorf("call %d: malformed result: %v", step, e)
		}
		info.lenZero = info.lenZero || lz
		if e := checkSchemaTypes(fields); e != nil {
			return info, e
		}
		want := newLWW()
		want.apply(pc.Old, op, oe)
		want.apply(pc.New, np, ne)
		if e := compareLWW(rows, want, asc); e != nil {
			return info, fmt.Errorf("call %d (new rows %d..%d over old rows %d..%d): %v", step, np, ne, op, oe, e)
		}
		if len(rows) > 0 {
			last := rows[len(rows)-1].T
			if e := firstBeyond(last, pc.New, ne, asc); e != nil {
				return info, fmt.Errorf("call %d, new input: %v", step, e)
			}
			if e := firstBeyond(last, pc.Old, oe, asc); e != nil {
				return info, fmt.Errorf("call %d, old input: %v", step, e)
			}
		}
		if step == 0 && (ne < nN || oe < nO) {
			info.cut = true
			info.cutBothRemain = ne < nN && oe < nO
		}
		if (pc.Op == "merge" || pc.Op == "merge_desc") && (ne != nN || oe != nO) {
			return info, fmt.Errorf("unlimited merge did not consume the inputs")
		}
		all = append(all, rows...)
		if ne == np && oe == op {
			return info, fmt.Errorf("call %d consumed nothing (positions new=%d old=%d, limit %d)", step, np, op, limit)
		}
		np, op = ne, oe
		if !pc.Drain || np >= nN || op >= nO {
			break
		}
	}
	if !pc.Drain {
		return info, nil
	}
	// one input is used up: the rest of the other one is cut into batches (engine/iterators_helper.go cutRecord)
	rest := func(rec *record.Record, pos, n int) error {
		for pos < n {
			k := n - pos
			if k > limit {
				k = limit
			}
			var out record.Record
			out.SliceFromRecord(rec, pos, pos+k)
			_, rows, _, e := decodeRec(&out)
			if e != nil {
				return fmt.Errorf("slice %d..%d: malformed result: %v", pos, pos+k, e)
			}
			all = append(all, rows...)
			pos += k
		}
		return nil
	}
	if e := rest(newRec, np, nN); e != nil {
		return info, e
	}
	if e := rest(oldRec, op, nO); e != nil {
		return info, e
	}
	want := newLWW()
	want.applyAll(pc.Old)
	want.applyAll(pc.New)
	if e := compareLWW(all, want, asc); e != nil {
		return info, fmt.Errorf("concatenation of all batches: %v", e)
	}
	return info, nil
}

// checkChain folds records the way tsmMergeCursor.FirstTimeInit folds the out-of-order files of a
// series: every next record is the newer one.
func checkChain(pc *pairCase) (info pairInfo, err error) {
	asc := pc.Op == "chain"
	if len(pc.Chain) < 2 {
		return info, ev.InconclusiveError("chain needs >= 2 records")
	}
	var acc *record.Record
	want := newLWW()
	for i, m := range pc.Chain {
		if m.n() == 0 || !sortedUnique(m.Times, asc) {
			return info, ev.InconclusiveError("chain inputs must be non-empty, sorted, unique")
		}
		rec, e := m.build()
		if e != nil {
			return info, ev.InconclusiveError(e.Error())
		}
		want.applyAll(m)
		if i == 0 {
			acc = rec
			continue
		}
		var merged record.Record
		if asc {
			merged.MergeRecord(rec, acc)
		} else {
			merged.MergeRecordDescend(rec, acc)
		}
		acc = &merged
		info.steps++
		fields, rows, lz, e := decodeRec(acc)
		if e != nil {
			return info, fmt.Errorf("after merging record %d: malformed result: %v", i, e)
		}
		info.lenZero = info.lenZero || lz
		if e := checkSchemaTypes(fields); e != nil {
			return info, e
		}
		if e := compareLWW(rows, want, asc); e != nil {
			return info, fmt.Errorf("after merging record %d over the older ones: %v", i, e)
		}
	}
	return info, nil
}

var placements = []string{"interleave", "interleave", "interleave", "interleave", "after", "before", "touch_after", "touch_before", "inside", "contains", "same"}

// genTwoTimeSets draws the (ascending) time sets of the newer and the older record.
func genTwoTimeSets(t *rapid.T, nNew, nOld int) (tn, to []int64, place string) {
	place = rapid.SampledFrom(placements).Draw(t, "place")
	base := rapid.SampledFrom([]int64{0, 0, 1600000000000000000, -50}).Draw(t, "base")
	d := int64(nNew)
	if int64(nOld) > d {
		d = int64(nOld)
	}
	d *= 2
	switch place {
	case "interleave":
		tn = genDistinctTimes(t, "tnew", nNew, 0, d)
		to = genDistinctTimes(t, "told", nOld, 0, d)
	case "after":
		to = genDistinctTimes(t, "told", nOld, 0, d)
		tn = genDistinctTimes(t, "tnew", nNew, d+1, 2*d+1)
	case "before":
		tn = genDistinctTimes(t, "tnew", nNew, 0, d)
		to = genDistinctTimes(t, "told", nOld, d+1, 2*d+1)
	case "touch_after":
		to = genDistinctTimes(t, "told", nOld, 0, d)
		tn = genDistinctTimes(t, "tnew", nNew, 0, d)
		shift := to[len(to)-1] - tn[0]
		for i := range tn {
			tn[i] += shift
		}
	case "touch_before":
		to = genDistinctTimes(t, "told", nOld, 0, d)
		tn = genDistinctTimes(t, "tnew", nNew, 0, d)
		shift := to[0] - tn[len(tn)-1]
		for i := range tn {
			tn[i] += shift
		}
	case "inside":
		to = genDistinctTimes(t, "told", nOld, 0, 3*d)
		tn = genDistinctTimes(t, "tnew", nNew, d, 2*d)
	case "contains":
		tn = genDistinctTimes(t, "tnew", nNew, 0, 3*d)
		to = genDistinctTimes(t, "told", nOld, d, 2*d)
	default: // same
		to = genDistinctTimes(t, "told", nOld, 0, d)
		tn = append([]int64{}, to...)
	}
	// the ends of the legal timestamp range (models.MinNanoTime / MaxNanoTime)
	switch rapid.IntRange(0, 19).Draw(t, "extreme") {
	case 18:
		base = math.MaxInt64 - 1 - max(tn[len(tn)-1], to[len(to)-1])
	case 19:
		base = math.MinInt64 + 2 - min(tn[0], to[0])
	}
	for i := range tn {
		tn[i] += base
	}
	for i := range to {
		to[i] += base
	}
	return tn, to, place
}

// genTwoSchemas draws the field sets of the newer and the older record.
func genTwoSchemas(t *rapid.T) (fn, fo []lField, mode string) {
	mode = rapid.SampledFrom([]string{"same", "same", "new_subset", "old_subset", "independent", "independent", "disjoint"}).Draw(t, "schemas")
	a := genFieldSubset(t, "fa")
	sub := func(fs []lField) []lField {
		if len(fs) == 1 {
			return fs
		}
		var o []lField
		for _, f := range fs {
			if rapid.IntRange(0, 1).Draw(t, "keep") == 0 {
				o = append(o, f)
			}
		}
		if len(o) == 0 {
			o = []lField{fs[rapid.IntRange(0, len(fs)-1).Draw(t, "one")]}
		}
		return o
	}
	switch mode {
	case "same":
		return a, a, mode
	case "new_subset":
		return sub(a), a, mode
	case "old_subset":
		return a, sub(a), mode
	case "disjoint":
		var x, y []lField
		for _, f := range libFields {
			if rapid.IntRange(0, 1).Draw(t, "side") == 0 {
				x = append(x, f)
			} else {
				y = append(y, f)
			}
		}
		if len(x) == 0 {
			x, y = y[:1], y[1:]
		}
		if len(y) == 0 {
			x, y = x[1:], x[:1]
		}
		return x, y, mode
	default:
		return a, genFieldSubset(t, "fb"), mode
	}
}

func rangesOverlap(a, b *lRec) bool {
	lo := func(r *lRec) int64 { return min(r.Times[0], r.Times[r.n()-1]) }
	hi := func(r *lRec) int64 { return max(r.Times[0], r.Times[r.n()-1]) }
	return lo(a) <= hi(b) && lo(b) <= hi(a)
}

func nullOverValue(newR, oldR *lRec) (nullOver, valueOver bool) {
	idx := map[int64]int{}
	for i, t := range oldR.Times {
		idx[t] = i
	}
	for i, t := range newR.Times {
		j, ok := idx[t]
		if !ok {
			continue
		}
		for ci, f := range newR.Fields {
			for cj, g := range oldR.Fields {
				if f.Name != g.Name || oldR.Rows[j][cj] == "" {
					continue
				}
				if newR.Rows[i][ci] == "" {
					nullOver = true
				} else {
					valueOver = true
				}
			}
		}
	}
	return
}

func genRows(t *rapid.T, label string) int {
	return rapid.OneOf(rapid.IntRange(1, 10), rapid.IntRange(1, 10), rapid.IntRange(1, 10), rapid.IntRange(1, 40), rapid.IntRange(1, 40), rapid.SampledFrom([]int{1, 7, 8, 9, 16, 17, 64, 65}), rapid.IntRange(100, 300)).Draw(t, label)
}

func TestLibMergePair(t *testing.T) {
	rapid.Check(t, ev.Prop(prop, "lib_merge_pair", func(t *rapid.T, c *ev.Case) {
		pc := &pairCase{Kind: "merge_pair"}
		pc.Op = rapid.SampledFrom([]string{"merge", "merge_desc", "limit", "limit_desc", "limit", "limit_desc", "chain", "chain_desc"}).Draw(t, "op")
		c.Class("op=" + pc.Op)
		asc := pc.Op == "merge" || pc.Op == "limit" || pc.Op == "chain"
		if !asc {
			c.Class("descending")
		}
		if pc.Op == "chain" || pc.Op == "chain_desc" {
			k := rapid.IntRange(2, 4).Draw(t, "k")
			sameSchema := rapid.IntRange(0, 2).Draw(t, "chainSameSchema") > 0
			base := genFieldSubset(t, "f")
			eq, mism, alln := false, false, false
			for i := 0; i < k; i++ {
				fs := base
				if !sameSchema {
					fs = genFieldSubset(t, "fi")
				}
				n := rapid.IntRange(1, 12).Draw(t, "n")
				ts := genDistinctTimes(t, "t", n, 0, 16)
				r, _ := genRecOn(t, fs, ts, i+1, false)
				genSliceStyle(t, r)
				if !asc {
					reverseRec(r)
				}
				for _, p := range pc.Chain {
					if equalTimes(p.Times, r.Times) > 0 {
						eq = true
					}
					if schemaMismatch(p.Fields, r.Fields) {
						mism = true
					}
				}
				alln = alln || hasAllNullCol(r)
				pc.Chain = append(pc.Chain, r)
			}
			c.Class(fmt.Sprintf("chain_len=%d", k))
			if eq {
				c.Class("equal_timestamps")
			}
			if mism {
				c.Class("schema_mismatch")
			}
			if alln {
				c.Class("all_null_column")
			}
			info, err := checkMergePair(pc)
			if err != nil {
				c.Failf(t, prop, pc, "%v", err)
			}
			if info.lenZero {
				c.Class("output_column_len0")
			}
			if eq && mism {
				c.Nontrivial(ev.Hash(pc))
				c.Sample(map[string]any{"op": pc.Op, "records": len(pc.Chain), "first": recSummary(pc.Chain[0]), "last": recSummary(pc.Chain[k-1])})
			}
			return
		}
		nNew, nOld := genRows(t, "nNew"), genRows(t, "nOld")
		tn, to, place := genTwoTimeSets(t, nNew, nOld)
		fn, fo, smode := genTwoSchemas(t)
		pc.New, _ = genRecOn(t, fn, tn, 1, false)
		pc.Old, _ = genRecOn(t, fo, to, 2, false)
		genSliceStyle(t, pc.New)
		genSliceStyle(t, pc.Old)
		if !asc {
			reverseRec(pc.New)
			reverseRec(pc.Old)
		}
		c.Class("place=" + place)
		c.Class("schemas=" + smode)
		if tn[len(tn)-1] == math.MaxInt64-1 || to[len(to)-1] == math.MaxInt64-1 || tn[0] == math.MinInt64+2 || to[0] == math.MinInt64+2 {
			c.Class("extreme_timestamps")
		}
		eq := equalTimes(tn, to)
		mism := schemaMismatch(fn, fo)
		if eq > 0 {
			c.Class("equal_timestamps")
		}
		if mism {
			c.Class("schema_mismatch")
		}
		if hasAllNullCol(pc.New) || hasAllNullCol(pc.Old) {
			c.Class("all_null_column")
		}
		if pc.New.Pre+pc.New.Post+pc.Old.Pre+pc.Old.Post > 0 {
			c.Class("sliced_input")
		}
		no, vo := nullOverValue(pc.New, pc.Old)
		if no {
			c.Class("new_null_over_old_value")
		}
		if vo {
			c.Class("new_value_over_old_value")
		}
		if pc.Op == "limit" || pc.Op == "limit_desc" {
			total := nNew + nOld
			switch rapid.IntRange(0, 3).Draw(t, "limitKind") {
			case 0:
				pc.Limit = total // what the aggregate cursor passes
				pc.Dst = "prealloc"
				c.Class("limit=sum")
			case 1:
				pc.Limit = rapid.IntRange(1, total).Draw(t, "limit")
			default:
				pc.Limit = rapid.IntRange(1, max(1, total/2)).Draw(t, "limit")
			}
			pc.Drain = pc.Limit < total && rapid.IntRange(0, 1).Draw(t, "drain") == 0
			if pc.Drain {
				c.Class("limit_drain_loop")
			}
		}
		info, err := checkMergePair(pc)
		if err != nil {
			c.Failf(t, prop, pc, "%v", err)
		}
		if info.cut {
			c.Class("limit_cut")
			if info.cutBothRemain && rangesOverlap(pc.New, pc.Old) {
				c.Class("limit_cut_inside_overlap")
			}
		}
		if info.lenZero {
			c.Class("output_column_len0")
		}
		if eq > 0 && mism {
			c.Nontrivial(ev.Hash(pc))
			c.Sample(map[string]any{"op": pc.Op, "new": recSummary(pc.New), "old": recSummary(pc.Old), "equal_timestamps": eq, "limit": pc.Limit, "drain": pc.Drain})
		}
	}))
}

// ---------------------------------------------------------------- series cursor loop

type cursorCase struct {
	Kind   string  `json:"kind"` // "cursor_merge"
	Asc    bool    `json:"asc"`
	MaxRow int     `json:"max_row"`
	Mem    *lRec   `json:"mem,omitempty"` // memtable record of the series (newer)
	Tsm    []*lRec `json:"tsm"`           // records the file cursor returns, in read order (older)
	Ooo    *lRec   `json:"ooo,omitempty"` // merged out-of-order data of the series: newer than Tsm, older than Mem
}

// recIter mirrors engine/iterators_helper.go recordIter.
type recIter struct {
	rec      *record.Record
	pos, cnt int
}

func (r *recIter) init(rec *record.Record) {
	r.rec, r.pos, r.cnt = rec, 0, 0
	if rec != nil {
		r.cnt = rec.RowNums()
	}
}
func (r *recIter) reset()       { r.rec, r.pos, r.cnt = nil, 0, 0 }
func (r *recIter) remain() bool { return r.pos < r.cnt }
func (r *recIter) cut(maxRow int) *record.Record {
	var rec record.Record
	k := r.cnt - r.pos
	if k > maxRow {
		k = maxRow
	}
	rec.SliceFromRecord(r.rec, r.pos, r.pos+k)
	r.pos += k
	return &rec
}

// mergeDataMirror is engine/iterators_helper.go mergeData, statement by statement.
func mergeDataMirror(newIt, baseIt *recIter, maxRow int, asc bool) *record.Record {
	if newIt.rec == nil && baseIt.rec == nil {
		return nil
	}
	if baseIt.remain() && newIt.remain() {
		var m record.Record
		np, op := m.MergeRecordByMaxTimeOfOldRec(newIt.rec, baseIt.rec, newIt.pos, baseIt.pos, maxRow, asc)
		newIt.pos, baseIt.pos = np, op
		return &m
	} else if baseIt.remain() {
		if baseIt.pos == 0 {
			rec := baseIt.rec
			baseIt.reset()
			return rec
		}
		return baseIt.cut(maxRow)
	} else if newIt.remain() {
		if newIt.pos == 0 && newIt.cnt <= maxRow {
			rec := newIt.rec
			newIt.reset()
			return rec
		}
		return newIt.cut(maxRow)
	}
	return nil
}

type cursorInfo struct {
	batches, merges int
	lenZero         bool
}

// cursorLoop mirrors the Next loops of seriesCursor (kick=true: KickNilRow with the cursor's ColAux)
// and tsmMergeCursor (kick=false): the newer record over the stream of older records.
func cursorLoop(newRec *record.Record, olds []*record.Record, maxRow int, asc, kick bool, info *cursorInfo) ([]*record.Record, error) {
	var newIt, oldIt recIter
	newIt.init(newRec)
	colAux := &record.ColAux{}
	next := 0
	total := 0
	for _, r := range olds {
		total += r.RowNums()
	}
	if newRec != nil {
		total += newRec.RowNums()
	}
	var out []*record.Record
	for guard := 0; ; guard++ {
		if guard > 2*total+len(olds)+4 {
			return nil, fmt.Errorf("cursor loop does not terminate (%d iterations for %d input rows)", guard, total)
		}
		// seriesCursor.nextInner / tsmMergeCursor.Next
		var rec *record.Record
		if oldIt.remain() {
			rec = mergeDataMirror(&newIt, &oldIt, maxRow, asc)
			info.merges++
		} else {
			var oldRecord *record.Record
			if next < len(olds) {
				oldRecord = olds[next]
				next++
			}
			oldIt.init(oldRecord)
			rec = mergeDataMirror(&newIt, &oldIt, maxRow, asc)
		}
		if rec == nil {
			if next < len(olds) {
				return nil, fmt.Errorf("cursor ended before record %d of the older stream was read", next)
			}
			break
		}
		if kick {
			rec = rec.KickNilRow(nil, colAux)
			if rec.RowNums() == 0 {
				continue
			}
		}
		out = append(out, rec)
	}
	return out, nil
}

// judgeBatches decodes the batches of a cursor and compares their concatenation with the fold.
func judgeBatches(what string, batches []*record.Record, want *lwwModel, asc bool, info *cursorInfo) error {
	var all []dRow
	for bi, rec := range batches {
		fields, rows, lz, e := decodeRec(rec)
		if e != nil {
			return fmt.Errorf("%s, batch %d: malformed record: %v", what, bi, e)
		}
		info.lenZero = info.lenZero || lz
		if e := checkSchemaTypes(fields); e != nil {
			return fmt.Errorf("%s, batch %d: %v", what, bi, e)
		}
		if len(all) > 0 && len(rows) > 0 {
			p, q := all[len(all)-1].T, rows[0].T
			if asc && q <= p || !asc && q >= p {
				return fmt.Errorf("%s: batch %d starts at time %d, the batch before ended at %d (ascending=%v): duplicate or unsorted timestamps across batches", what, bi, q, p, asc)
			}
		}
		all = append(all, rows...)
	}
	if e := compareLWW(all, want, asc); e != nil {
		return fmt.Errorf("%s: %v", what, e)
	}
	return nil
}

func checkCursorMerge(cc *cursorCase) (info cursorInfo, err error) {
	defer func() {
		if r := recover(); r != nil {
			err = fmt.Errorf("panic: %v", r)
		}
	}()
	if cc.MaxRow < 1 {
		return info, ev.InconclusiveError("max_row < 1")
	}
	want := newLWW()
	var memRec, oooRec *record.Record
	var tsmRecs []*record.Record
	var prevLast *int64
	for _, m := range cc.Tsm {
		if m.n() == 0 || m.n() > cc.MaxRow || !sortedUnique(m.Times, cc.Asc) {
			return info, ev.InconclusiveError("file records must be non-empty, at most max_row rows, sorted, unique")
		}
		if prevLast != nil && (cc.Asc && m.Times[0] <= *prevLast || !cc.Asc && m.Times[0] >= *prevLast) {
			return info, ev.InconclusiveError("file records must follow each other in time")
		}
		l := m.Times[m.n()-1]
		prevLast = &l
		rec, e := m.build()
		if e != nil {
			return info, ev.InconclusiveError(e.Error())
		}
		tsmRecs = append(tsmRecs, rec)
		want.applyAll(m)
	}
	one := func(m *lRec) (*record.Record, error) {
		if m == nil {
			return nil, nil
		}
		if m.n() == 0 || !sortedUnique(m.Times, cc.Asc) {
			return nil, ev.InconclusiveError("memtable / out-of-order record must be non-empty, sorted, unique")
		}
		rec, e := m.build()
		if e != nil {
			return nil, ev.InconclusiveError(e.Error())
		}
		want.applyAll(m)
		return rec, nil
	}
	if oooRec, err = one(cc.Ooo); err != nil {
		return info, err
	}
	stream := tsmRecs
	if oooRec != nil {
		// tsmMergeCursor: merged out-of-order data over the ordered file records
		stream, err = cursorLoop(oooRec, tsmRecs, cc.MaxRow, cc.Asc, false, &info)
		if err != nil {
			return info, fmt.Errorf("file cursor: %v", err)
		}
		if e := judgeBatches("rows returned by the file cursor (out-of-order over ordered)", stream, want, cc.Asc, &info); e != nil {
			return info, e
		}
	}
	if memRec, err = one(cc.Mem); err != nil {
		return info, err
	}
	batches, e := cursorLoop(memRec, stream, cc.MaxRow, cc.Asc, true, &info)
	if e != nil {
		return info, fmt.Errorf("series cursor: %v", e)
	}
	info.batches = len(batches)
	if e := judgeBatches("rows returned by the cursor loop", batches, want, cc.Asc, &info); e != nil {
		return info, e
	}
	return info, nil
}

func TestLibCursorMerge(t *testing.T) {
	rapid.Check(t, ev.Prop(prop, "lib_cursor_merge", func(t *rapid.T, c *ev.Case) {
		cc := &cursorCase{Kind: "cursor_merge"}
		cc.Asc = rapid.IntRange(0, 2).Draw(t, "asc") > 0
		cc.MaxRow = rapid.SampledFrom([]int{1, 2, 3, 4, 5, 8, 8, 16, 1000}).Draw(t, "maxRow")
		if !cc.Asc {
			c.Class("descending")
		}
		c.Class(fmt.Sprintf("max_row=%d", cc.MaxRow))
		// the query schema is the same for the memtable and the files; a file record may lack columns in
		// the "mismatch" mode (kept separate in the classes)
		smode := rapid.SampledFrom([]string{"same", "same", "same", "mismatch"}).Draw(t, "schemas")
		c.Class("schemas=" + smode)
		base := genFieldSubset(t, "f")
		pick := func(label string) []lField {
			if smode == "same" {
				return base
			}
			return genFieldSubset(t, label)
		}
		nRecs := rapid.IntRange(0, 5).Draw(t, "nTsm")
		// a global ascending time axis; file records take consecutive disjoint stretches of it
		cur := int64(0)
		var allTsmTimes []int64
		for i := 0; i < nRecs; i++ {
			n := rapid.IntRange(1, min(cc.MaxRow, 12)).Draw(t, "n")
			span := int64(n) + int64(rapid.IntRange(0, n+2).Draw(t, "slack"))
			ts := genDistinctTimes(t, "t", n, cur, cur+span)
			cur = ts[len(ts)-1] + 1 + int64(rapid.IntRange(0, 3).Draw(t, "gap"))
			r, _ := genRecOn(t, pick("ft"), ts, 10+i, false)
			genSliceStyle(t, r)
			cc.Tsm = append(cc.Tsm, r)
			allTsmTimes = append(allTsmTimes, ts...)
		}
		overwriteSome := func(ts []int64, label string) []int64 {
			set := map[int64]bool{}
			for _, v := range ts {
				set[v] = true
			}
			for _, v := range allTsmTimes {
				if !set[v] && rapid.IntRange(0, 3).Draw(t, label) == 0 {
					set[v] = true
					ts = append(ts, v)
				}
			}
			sort.Slice(ts, func(i, j int) bool { return ts[i] < ts[j] })
			return ts
		}
		if nRecs > 0 && rapid.IntRange(0, 2).Draw(t, "hasOoo") == 0 {
			n := rapid.IntRange(1, 12).Draw(t, "nOoo")
			ts := overwriteSome(genDistinctTimes(t, "to", n, -2, cur+3), "oooOverwrite")
			cc.Ooo, _ = genRecOn(t, pick("fo"), ts, 5, false)
			allTsmTimes = append(allTsmTimes, ts...)
			c.Class("with_out_of_order_layer")
		}
		hasMem := nRecs == 0 || rapid.IntRange(0, 9).Draw(t, "hasMem") > 0
		eq := 0
		if hasMem {
			n := rapid.OneOf(rapid.IntRange(1, 10), rapid.IntRange(1, 40)).Draw(t, "nMem")
			lo, hi := int64(0), cur+3
			switch rapid.IntRange(0, 5).Draw(t, "memPlace") {
			case 0: // only newer than all files
				lo, hi = cur, cur+int64(2*n)
				c.Class("mem=after_files")
			case 1: // only older
				lo, hi = -int64(2*n)-1, -1
				c.Class("mem=before_files")
			default:
				lo, hi = -2, cur+3
				if hi-lo < int64(n) {
					hi = lo + int64(2*n)
				}
				c.Class("mem=across_files")
			}
			ts := genDistinctTimes(t, "tm", n, lo, hi)
			if lo < 0 && hi > 0 && len(allTsmTimes) > 0 {
				// overwrite some of the rows the files hold
				ts = overwriteSome(ts, "overwrite")
			}
			cc.Mem, _ = genRecOn(t, pick("fm"), ts, 1, false)
			eq = equalTimes(ts, allTsmTimes)
		} else {
			c.Class("mem=none")
		}
		if !cc.Asc {
			for _, r := range cc.Tsm {
				reverseRec(r)
			}
			for i, j := 0, len(cc.Tsm)-1; i < j; i, j = i+1, j-1 {
				cc.Tsm[i], cc.Tsm[j] = cc.Tsm[j], cc.Tsm[i]
			}
			if cc.Mem != nil {
				reverseRec(cc.Mem)
			}
			if cc.Ooo != nil {
				reverseRec(cc.Ooo)
			}
		}
		mism, alln, partial := false, false, false
		partial = partialOverlap(cc.Mem, cc.Ooo)
		for _, r := range cc.Tsm {
			if cc.Mem != nil && schemaMismatch(cc.Mem.Fields, r.Fields) {
				mism = true
			}
			partial = partial || partialOverlap(cc.Mem, r)
			alln = alln || hasAllNullCol(r)
		}
		alln = alln || hasAllNullCol(cc.Mem)
		c.Class(fmt.Sprintf("file_records=%d", nRecs))
		if eq > 0 {
			c.Class("equal_timestamps")
		}
		if mism {
			c.Class("schema_mismatch")
		}
		if alln {
			c.Class("all_null_column")
		}
		if cc.Mem != nil && cc.Mem.n() > cc.MaxRow {
			c.Class("mem_longer_than_max_row")
		}
		info, err := checkCursorMerge(cc)
		if err != nil {
			c.Failf(t, prop, cc, "%v", err)
		}
		if info.merges > 0 {
			c.Class("remainder_merged_again")
		}
		if info.lenZero {
			c.Class("output_column_len0")
		}
		if partial {
			c.Class("partial_field_overwrite")
		}
		if eq > 0 && partial {
			c.Class("nontrivial")
			c.Nontrivial(ev.Hash(cc))
			c.Sample(map[string]any{"asc": cc.Asc, "max_row": cc.MaxRow, "mem": recSummary(cc.Mem), "file_records": nRecs, "equal_timestamps": eq, "batches": info.batches})
		}
	}))
}
