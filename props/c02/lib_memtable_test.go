package c02

// Library-level companion of C02, part 3: the memtable (engine/mutable). Rows are written the way
// shard.writeRows does (MTable.WriteRows with rows grouped per measurement), read the way the series
// cursor does (MemTables.Values over the active and the snapshot table, then KickNilRow) and taken
// out the way commitSnapshot/FlushChunks does (ApplyConcurrency, GetAllSid, chunk.SortRecord,
// SplitRecordByTime). Every observation must equal the last-write-wins fold of the rows written.

import (
	"fmt"
	"math"
	"sort"
	"strconv"
	"sync"
	"testing"

	"github.com/openGemini/openGemini/engine/mutable"
	"github.com/openGemini/openGemini/lib/config"
	"github.com/openGemini/openGemini/lib/record"
	"github.com/openGemini/openGemini/lib/util"
	"github.com/openGemini/openGemini/lib/util/lifted/vm/protoparser/influx"
	"github.com/savsgio/dictpool"
	"pgregory.net/rapid"
	"verif/internal/ev"
)

type memRow struct {
	Mst    string   `json:"mst"`
	Sid    uint64   `json:"sid"`
	T      int64    `json:"t"`
	Fields []lField `json:"fields"` // sorted by name, as the coordinator sorts them
	Vals   []string `json:"vals"`   // one literal per field, never null
}

type memRead struct {
	Mst    string   `json:"mst"`
	Sid    uint64   `json:"sid"`
	TMin   int64    `json:"tmin"`
	TMax   int64    `json:"tmax"`
	Fields []lField `json:"fields"` // query schema (sorted); may name fields the memtable never saw
	Asc    bool     `json:"asc"`
}

type memOp struct {
	Op    string   `json:"op"` // write | read | snapshot
	Rows  []memRow `json:"rows,omitempty"`
	Read  *memRead `json:"read,omitempty"`
	Split []int64  `json:"split,omitempty"` // snapshot: last-flushed times used to split the chunks (cycled over the series)
}

type memCase struct {
	Kind       string  `json:"kind"` // "memtable"
	Ops        []memOp `json:"ops"`
	FinalSplit []int64 `json:"final_split"`
}

type memInfo struct {
	readsBoth, readsNil, readsOverwrite int
	chunksUnsorted, chunksDup           int
	splitBoth                           int
	kicked                              int
}

type sKey struct {
	mst string
	sid uint64
}

type memTableModel struct {
	tbl    *mutable.MemTable
	series map[sKey]*lwwModel
	// per series: were rows appended out of order / with repeated timestamps since creation
	unsorted, dup map[sKey]bool
	lastT         map[sKey]int64
}

func newMemTableModel() *memTableModel {
	return &memTableModel{tbl: mutable.NewMemTable(config.TSSTORE), series: map[sKey]*lwwModel{}, unsorted: map[sKey]bool{}, dup: map[sKey]bool{}, lastT: map[sKey]int64{}}
}

func rowToInflux(r *memRow) (influx.Row, error) {
	row := influx.Row{Name: r.Mst, PrimaryId: r.Sid, SeriesId: r.Sid, Timestamp: r.T}
	if len(r.Fields) == 0 || len(r.Fields) != len(r.Vals) {
		return row, fmt.Errorf("row needs fields")
	}
	for i, f := range r.Fields {
		if i > 0 && r.Fields[i-1].Name >= f.Name {
			return row, fmt.Errorf("row fields not sorted")
		}
		lit := r.Vals[i]
		if lit == "" {
			return row, fmt.Errorf("null in a written row")
		}
		fld := influx.Field{Key: f.Name, Type: int32(f.Type)}
		body := lit[1:]
		switch f.Type {
		case influx.Field_Type_Int:
			v, err := strconv.ParseInt(body, 10, 64)
			if err != nil || v > 1<<53 || v < -(1<<53) {
				return row, fmt.Errorf("integer literal %q outside the float64-exact range", lit)
			}
			fld.NumValue = float64(v)
		case influx.Field_Type_Float:
			u, err := strconv.ParseUint(body, 16, 64)
			if err != nil {
				return row, err
			}
			fld.NumValue = math.Float64frombits(u)
		case influx.Field_Type_Boolean:
			if body == "1" {
				fld.NumValue = 1
			}
		case influx.Field_Type_String:
			fld.StrValue = body
		default:
			return row, fmt.Errorf("bad type")
		}
		row.Fields = append(row.Fields, fld)
	}
	return row, nil
}

func (m *memTableModel) write(rows []memRow) error {
	// shard.mapRows: rows grouped by measurement, arrival order kept
	var d dictpool.Dict
	for i := range rows {
		r := &rows[i]
		ir, err := rowToInflux(r)
		if err != nil {
			return ev.InconclusiveError(err.Error())
		}
		if !d.Has(r.Mst) {
			rp := make([]influx.Row, 0, len(rows))
			d.Set(r.Mst, &rp)
		}
		rp := d.Get(r.Mst).(*[]influx.Row)
		*rp = append(*rp, ir)
		k := sKey{r.Mst, r.Sid}
		mod := m.series[k]
		if mod == nil {
			mod = newLWW()
			m.series[k] = mod
			m.lastT[k] = math.MinInt64
		}
		if _, ok := mod.rows[r.T]; ok {
			m.dup[k] = true
		}
		if r.T <= m.lastT[k] {
			m.unsorted[k] = true
		} else {
			m.lastT[k] = r.T
		}
		row := mod.touch(r.T)
		for i, f := range r.Fields {
			row[f.Name] = r.Vals[i]
		}
	}
	wc := mutable.WriteRowsCtx{}
	wc.SetSeriesRowCountFunc(func(string, uint64, int64) {})
	wc.SetMsRowCount(&util.SyncMap[string, *int64]{})
	if err := m.tbl.MTable.WriteRows(m.tbl, &d, wc); err != nil {
		return fmt.Errorf("WriteRows: %v", err)
	}
	return nil
}

// flushCheck takes the table apart as a flush does and compares every chunk with the fold.
func (m *memTableModel) flushCheck(split []int64, info *memInfo) error {
	var mu sync.Mutex
	var errs []string
	seen := map[sKey]bool{}
	fail := func(format string, a ...any) {
		mu.Lock()
		errs = append(errs, fmt.Sprintf(format, a...))
		mu.Unlock()
	}
	m.tbl.ApplyConcurrency(func(msName string) {
		defer func() {
			if r := recover(); r != nil {
				fail("panic while flushing %s: %v", msName, r)
			}
		}()
		msInfo, err := m.tbl.GetMsInfo(msName)
		if err != nil {
			fail("GetMsInfo(%s): %v", msName, err)
			return
		}
		hlp := record.NewColumnSortHelper()
		defer hlp.Release()
		recPool := []record.Record{{}, {}}
		sids := msInfo.GetAllSid()
		for i := 1; i < len(sids); i++ {
			if sids[i-1] >= sids[i] {
				fail("GetAllSid not ascending: %v", sids)
			}
		}
		for si, sid := range sids {
			k := sKey{msName, sid}
			want := m.series[k]
			if want == nil {
				fail("flush of %s yields series %d which was never written", msName, sid)
				continue
			}
			mu.Lock()
			seen[k] = true
			if m.unsorted[k] {
				info.chunksUnsorted++
			}
			if m.dup[k] {
				info.chunksDup++
			}
			mu.Unlock()
			chunk, exist := msInfo.CreateChunk(sid)
			if !exist {
				fail("series %d of %s listed by GetAllSid has no chunk", sid, msName)
				continue
			}
			chunk.SortRecord(hlp)
			rec := chunk.WriteRec.GetRecord()
			fields, rows, _, e := decodeRec(rec)
			if e != nil {
				fail("%s sid %d: sorted chunk malformed: %v", msName, sid, e)
				continue
			}
			if e := checkSchemaTypes(fields); e != nil {
				fail("%s sid %d: %v", msName, sid, e)
				continue
			}
			if e := compareLWW(rows, want, true); e != nil {
				fail("%s sid %d: sorted chunk: %v", msName, sid, e)
				continue
			}
			if len(rows) != len(want.rows) {
				fail("%s sid %d: sorted chunk has %d rows for %d distinct timestamps written", msName, sid, len(rows), len(want.rows))
				continue
			}
			record.CheckRecord(rec) // what compaction asserts about every record it reads back
			ft := int64(math.MinInt64)
			if len(split) > 0 {
				ft = split[(si+len(msName))%len(split)]
			}
			orderRec, unOrderRec := mutable.SplitRecordByTime(rec, recPool, ft)
			_, orows, _, e := decodeRec(orderRec)
			if e != nil {
				fail("%s sid %d: ordered part malformed: %v", msName, sid, e)
				continue
			}
			_, urows, _, e := decodeRec(unOrderRec)
			if e != nil {
				fail("%s sid %d: out-of-order part malformed: %v", msName, sid, e)
				continue
			}
			for _, r := range orows {
				if r.T <= ft {
					fail("%s sid %d: ordered part holds time %d <= last flushed time %d", msName, sid, r.T, ft)
				}
			}
			for _, r := range urows {
				if r.T > ft {
					fail("%s sid %d: out-of-order part holds time %d > last flushed time %d", msName, sid, r.T, ft)
				}
			}
			if len(orows) > 0 && len(urows) > 0 {
				mu.Lock()
				info.splitBoth++
				mu.Unlock()
			}
			all := append(append([]dRow{}, urows...), orows...)
			if e := compareLWW(all, want, true); e != nil {
				fail("%s sid %d: out-of-order part + ordered part (split at %d): %v", msName, sid, ft, e)
				continue
			}
			if len(all) != len(want.rows) {
				fail("%s sid %d: the two parts hold %d rows for %d distinct timestamps", msName, sid, len(all), len(want.rows))
			}
		}
		mutable.PutSidsImpl(sids)
	})
	for k := range m.series {
		if !seen[k] {
			errs = append(errs, fmt.Sprintf("series %d of %s was written but is not part of the flush", k.sid, k.mst))
		}
	}
	if len(errs) > 0 {
		sort.Strings(errs)
		return fmt.Errorf("%s", errs[0])
	}
	return nil
}

func checkMemtable(mc *memCase) (info memInfo, err error) {
	defer func() {
		if r := recover(); r != nil {
			err = fmt.Errorf("panic: %v", r)
		}
	}()
	active := newMemTableModel()
	var snapshot *memTableModel
	colAux := &record.ColAux{}
	for oi, op := range mc.Ops {
		switch op.Op {
		case "write":
			if e := active.write(op.Rows); e != nil {
				return info, e
			}
		case "snapshot":
			if snapshot != nil {
				// the previous snapshot is flushed before the next one is taken
				if e := snapshot.flushCheck(op.Split, &info); e != nil {
					return info, fmt.Errorf("op %d (flush of the snapshot table): %v", oi, e)
				}
			}
			snapshot = active
			active = newMemTableModel()
		case "read":
			rd := op.Read
			if rd == nil {
				return info, ev.InconclusiveError("read without selection")
			}
			mts := mutable.NewMemTables(true)
			var snapTbl *mutable.MemTable
			if snapshot != nil {
				snapTbl = snapshot.tbl
			}
			mts.Init(active.tbl, snapTbl)
			schema := (&lRec{Fields: rd.Fields}).schema()
			rec := mts.Values(rd.Mst, rd.Sid, util.TimeRange{Min: rd.TMin, Max: rd.TMax}, schema, rd.Asc)
			k := sKey{rd.Mst, rd.Sid}
			want := newLWW()
			layers := 0
			overwrite := false
			if snapshot != nil && snapshot.series[k] != nil {
				layers++
				for t, r := range snapshot.series[k].rows {
					row := want.touch(t)
					for f, v := range r {
						row[f] = v
					}
				}
			}
			if active.series[k] != nil {
				layers++
				for t, r := range active.series[k].rows {
					if _, ok := want.rows[t]; ok {
						overwrite = true
					}
					row := want.touch(t)
					for f, v := range r {
						row[f] = v
					}
				}
			}
			want = want.restrict(rd.TMin, rd.TMax, fieldNames(rd.Fields))
			if layers == 2 {
				info.readsBoth++
				if overwrite {
					info.readsOverwrite++
				}
			}
			if rec == nil {
				info.readsNil++
				if want.cells() > 0 {
					return info, fmt.Errorf("op %d: read %+v returned nothing, the fold has %d rows with values", oi, *rd, len(want.rows))
				}
				continue
			}
			fields, rows, _, e := decodeRec(rec)
			if e != nil {
				return info, fmt.Errorf("op %d: read %+v: malformed record: %v", oi, *rd, e)
			}
			if len(fields) != len(rd.Fields) {
				return info, fmt.Errorf("op %d: read %+v: record has columns %v", oi, *rd, fieldNames(fields))
			}
			for i := range fields {
				if fields[i] != rd.Fields[i] {
					return info, fmt.Errorf("op %d: read %+v: column %d is %v", oi, *rd, i, fields[i])
				}
			}
			if e := compareLWW(rows, want, rd.Asc); e != nil {
				return info, fmt.Errorf("op %d: read %+v: %v", oi, *rd, e)
			}
			kicked := rec.KickNilRow(nil, colAux)
			_, krows, _, e := decodeRec(kicked)
			if e != nil {
				return info, fmt.Errorf("op %d: read %+v: malformed record after KickNilRow: %v", oi, *rd, e)
			}
			if e := compareLWW(krows, want, rd.Asc); e != nil {
				return info, fmt.Errorf("op %d: read %+v, after KickNilRow: %v", oi, *rd, e)
			}
			for _, r := range krows {
				if len(r.C) == 0 {
					return info, fmt.Errorf("op %d: read %+v: KickNilRow left the all-null row at time %d", oi, *rd, r.T)
				}
			}
			if len(krows) < len(rows) {
				info.kicked++
			}
		default:
			return info, ev.InconclusiveError("unknown op " + op.Op)
		}
	}
	if snapshot != nil {
		if e := snapshot.flushCheck(mc.FinalSplit, &info); e != nil {
			return info, fmt.Errorf("final flush of the snapshot table: %v", e)
		}
	}
	if e := active.flushCheck(mc.FinalSplit, &info); e != nil {
		return info, fmt.Errorf("final flush of the active table: %v", e)
	}
	return info, nil
}

var memMsts = []string{"m0_0000", "m1_0000"}

func genMemRow(t *rapid.T, counter *int) memRow {
	r := memRow{Mst: rapid.SampledFrom([]string{"m0_0000", "m0_0000", "m0_0000", "m1_0000"}).Draw(t, "mst"), Sid: uint64(rapid.IntRange(1, 3).Draw(t, "sid"))}
	switch rapid.IntRange(0, 3).Draw(t, "tkind") {
	case 0:
		r.T = int64(rapid.IntRange(0, 5).Draw(t, "t"))
	default:
		r.T = int64(rapid.IntRange(0, 24).Draw(t, "t"))
	}
	r.T += 1600000000000000000
	// partial rows: any non-empty subset of the fields
	r.Fields = genFieldSubset(t, "f")
	*counter++
	for _, f := range r.Fields {
		r.Vals = append(r.Vals, genValS(t, f.Type, *counter, true))
	}
	return r
}

func genSplit(t *rapid.T) []int64 {
	n := rapid.IntRange(1, 3).Draw(t, "nsplit")
	out := make([]int64, n)
	for i := range out {
		switch rapid.IntRange(0, 4).Draw(t, "splitKind") {
		case 0:
			out[i] = math.MinInt64 // no ordered file yet
		case 1:
			out[i] = math.MaxInt64
		default:
			out[i] = 1600000000000000000 + int64(rapid.IntRange(-1, 25).Draw(t, "splitT"))
		}
	}
	return out
}

func TestLibMemtable(t *testing.T) {
	rapid.Check(t, ev.Prop(prop, "lib_memtable", func(t *rapid.T, c *ev.Case) {
		mc := &memCase{Kind: "memtable"}
		counter := 0
		nOps := rapid.IntRange(2, 12).Draw(t, "nOps")
		snaps := 0
		var written []sKey
		isWritten := map[sKey]bool{}
		for i := 0; i < nOps; i++ {
			switch k := rapid.IntRange(0, 9).Draw(t, "opKind"); {
			case k <= 4:
				n := rapid.OneOf(rapid.IntRange(1, 6), rapid.IntRange(1, 30)).Draw(t, "nRows")
				op := memOp{Op: "write"}
				for j := 0; j < n; j++ {
					r := genMemRow(t, &counter)
					if j > 0 && rapid.IntRange(0, 5).Draw(t, "dupInBatch") == 0 {
						p := op.Rows[j-1]
						r.Mst, r.Sid, r.T = p.Mst, p.Sid, p.T
					}
					op.Rows = append(op.Rows, r)
					if k := (sKey{r.Mst, r.Sid}); !isWritten[k] {
						isWritten[k] = true
						written = append(written, k)
					}
				}
				mc.Ops = append(mc.Ops, op)
			case k <= 7:
				rd := &memRead{Mst: rapid.SampledFrom([]string{"m0_0000", "m0_0000", "m0_0000", "m1_0000", "m2_0000"}).Draw(t, "rmst"), Sid: uint64(rapid.IntRange(1, 4).Draw(t, "rsid")), Asc: rapid.IntRange(0, 2).Draw(t, "asc") > 0}
				if len(written) > 0 && rapid.IntRange(0, 5).Draw(t, "knownSeries") > 0 {
					k := written[rapid.IntRange(0, len(written)-1).Draw(t, "series")]
					rd.Mst, rd.Sid = k.mst, k.sid
				}
				base := int64(1600000000000000000)
				switch rapid.IntRange(0, 4).Draw(t, "range") {
				case 0, 1:
					rd.TMin, rd.TMax = math.MinInt64, math.MaxInt64
				case 2:
					rd.TMin, rd.TMax = base-5, base+30
				default:
					a := rapid.IntRange(-1, 25).Draw(t, "ra")
					b := rapid.IntRange(a, 26).Draw(t, "rb")
					rd.TMin, rd.TMax = base+int64(a), base+int64(b)
				}
				rd.Fields = genFieldSubset(t, "rf")
				mc.Ops = append(mc.Ops, memOp{Op: "read", Read: rd})
			default:
				mc.Ops = append(mc.Ops, memOp{Op: "snapshot", Split: genSplit(t)})
				snaps++
			}
		}
		mc.FinalSplit = genSplit(t)
		// always end with reads of the first series in both orders
		for _, asc := range []bool{true, false} {
			mc.Ops = append(mc.Ops, memOp{Op: "read", Read: &memRead{Mst: "m0_0000", Sid: 1, TMin: math.MinInt64, TMax: math.MaxInt64, Fields: libFields, Asc: asc}})
		}
		info, err := checkMemtable(mc)
		if err != nil {
			c.Failf(t, prop, mc, "%v", err)
		}
		if snaps > 0 {
			c.Class("with_snapshot_table")
		}
		if info.readsBoth > 0 {
			c.Class("read_active_over_snapshot")
		}
		if info.readsOverwrite > 0 {
			c.Class("read_overwrite_across_tables")
		}
		if info.readsNil > 0 {
			c.Class("read_empty")
		}
		if info.chunksUnsorted > 0 {
			c.Class("chunk_written_out_of_order")
		}
		if info.chunksDup > 0 {
			c.Class("chunk_with_duplicate_timestamps")
		}
		if info.splitBoth > 0 {
			c.Class("flush_split_into_ordered_and_unordered")
		}
		if info.kicked > 0 {
			c.Class("all_null_rows_kicked")
		}
		if info.chunksDup > 0 && info.chunksUnsorted > 0 {
			c.Class("nontrivial")
			c.Nontrivial(ev.Hash(mc))
			c.Sample(map[string]any{"ops": len(mc.Ops), "snapshots": snaps, "reads_over_both_tables": info.readsBoth, "chunks_with_duplicates": info.chunksDup})
		}
	}))
}
