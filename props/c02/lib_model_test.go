package c02

// Library-level companion of C02: model records, the last-write-wins fold, strict decoding of
// record.Record (null bitmaps, counts, schema order) and the shared generators.

import (
	"fmt"
	"math"
	"sort"
	"strconv"
	"strings"

	"github.com/openGemini/openGemini/lib/record"
	"github.com/openGemini/openGemini/lib/util/lifted/vm/protoparser/influx"
	"pgregory.net/rapid"
)

// ---------------------------------------------------------------- model records

type lField struct {
	Name string `json:"n"`
	Type int    `json:"t"`
}

// universe of fields: sorted by name, every column type twice
var libFields = []lField{
	{"a_i", influx.Field_Type_Int}, {"b_f", influx.Field_Type_Float}, {"c_s", influx.Field_Type_String}, {"d_b", influx.Field_Type_Boolean},
	{"e_s", influx.Field_Type_String}, {"f_i", influx.Field_Type_Int}, {"g_b", influx.Field_Type_Boolean}, {"h_f", influx.Field_Type_Float},
}

func libFieldType(name string) int {
	for _, f := range libFields {
		if f.Name == name {
			return f.Type
		}
	}
	return influx.Field_Type_Unknown
}

func libTypeName(t int) string {
	switch t {
	case influx.Field_Type_Int:
		return "int"
	case influx.Field_Type_Float:
		return "float"
	case influx.Field_Type_String:
		return "string"
	case influx.Field_Type_Boolean:
		return "bool"
	}
	return fmt.Sprintf("type%d", t)
}

// lRec is the replayable description of one record: Rows[r][c] is a typed literal ("i<dec>",
// "f<hex bits>", "s<text>", "b0"/"b1") or "" for null. Pre/Post > 0: the record handed to the code
// under test is a SliceFromRecord view [Pre, Pre+n) of a longer record (bitmap offset != 0).
type lRec struct {
	Fields []lField   `json:"fields"`
	Times  []int64    `json:"times"`
	Rows   [][]string `json:"rows"`
	Pre    int        `json:"pre,omitempty"`
	Post   int        `json:"post,omitempty"`
}

func (m *lRec) n() int { return len(m.Times) }

func (m *lRec) schema() record.Schemas {
	s := make(record.Schemas, 0, len(m.Fields)+1)
	for _, f := range m.Fields {
		s = append(s, record.Field{Name: f.Name, Type: f.Type})
	}
	return append(s, record.Field{Name: record.TimeField, Type: influx.Field_Type_Int})
}

func (m *lRec) validate() error {
	if m == nil {
		return fmt.Errorf("nil record")
	}
	if len(m.Fields) == 0 {
		return fmt.Errorf("record without fields")
	}
	for i, f := range m.Fields {
		if i > 0 && m.Fields[i-1].Name >= f.Name {
			return fmt.Errorf("fields not sorted by name")
		}
		if f.Name == record.TimeField {
			return fmt.Errorf("time as a field")
		}
	}
	if len(m.Rows) != len(m.Times) {
		return fmt.Errorf("rows/times length mismatch")
	}
	for _, r := range m.Rows {
		if len(r) != len(m.Fields) {
			return fmt.Errorf("row width mismatch")
		}
	}
	return nil
}

func litInt(v int64) string     { return "i" + strconv.FormatInt(v, 10) }
func litFloat(v float64) string { return fmt.Sprintf("f%016x", math.Float64bits(v)) }
func litStr(v string) string    { return "s" + v }
func litBool(v bool) string {
	if v {
		return "b1"
	}
	return "b0"
}

func appendLit(cv *record.ColVal, typ int, lit string) error {
	if lit == "" {
		switch typ {
		case influx.Field_Type_Int:
			cv.AppendIntegerNull()
		case influx.Field_Type_Float:
			cv.AppendFloatNull()
		case influx.Field_Type_String:
			cv.AppendStringNull()
		case influx.Field_Type_Boolean:
			cv.AppendBooleanNull()
		default:
			return fmt.Errorf("unknown type %d", typ)
		}
		return nil
	}
	body := lit[1:]
	switch {
	case typ == influx.Field_Type_Int && lit[0] == 'i':
		v, err := strconv.ParseInt(body, 10, 64)
		if err != nil {
			return err
		}
		cv.AppendInteger(v)
	case typ == influx.Field_Type_Float && lit[0] == 'f':
		u, err := strconv.ParseUint(body, 16, 64)
		if err != nil {
			return err
		}
		cv.AppendFloat(math.Float64frombits(u))
	case typ == influx.Field_Type_String && lit[0] == 's':
		cv.AppendString(body)
	case typ == influx.Field_Type_Boolean && lit[0] == 'b':
		cv.AppendBoolean(body == "1")
	default:
		return fmt.Errorf("literal %q does not fit type %s", lit, libTypeName(typ))
	}
	return nil
}

func junkLit(typ, j, c int) string {
	if (j+c)%3 == 0 {
		return ""
	}
	switch typ {
	case influx.Field_Type_Int:
		return litInt(int64(770000 + j))
	case influx.Field_Type_Float:
		return litFloat(770000.5 + float64(j))
	case influx.Field_Type_String:
		return litStr(strings.Repeat("J", 1+j%5))
	default:
		return litBool(j%2 == 0)
	}
}

// build makes the record the way the write path does (append row values column by column);
// with Pre/Post it returns a slice view of a longer record.
func (m *lRec) build() (*record.Record, error) {
	if err := m.validate(); err != nil {
		return nil, err
	}
	rec := record.NewRecordBuilder(m.schema())
	n := m.n()
	total := m.Pre + n + m.Post
	for ci, f := range m.Fields {
		cv := rec.Column(ci)
		for j := 0; j < total; j++ {
			lit := ""
			if j >= m.Pre && j < m.Pre+n {
				lit = m.Rows[j-m.Pre][ci]
			} else {
				lit = junkLit(f.Type, j, ci)
			}
			if err := appendLit(cv, f.Type, lit); err != nil {
				return nil, err
			}
		}
	}
	tc := rec.TimeColumn()
	for j := 0; j < total; j++ {
		switch {
		case j < m.Pre:
			tc.AppendInteger(-1000000 - int64(m.Pre-j))
		case j < m.Pre+n:
			tc.AppendInteger(m.Times[j-m.Pre])
		default:
			tc.AppendInteger(1<<40 + int64(j))
		}
	}
	if m.Pre == 0 && m.Post == 0 {
		return rec, nil
	}
	v := &record.Record{}
	v.SliceFromRecord(rec, m.Pre, m.Pre+n)
	return v, nil
}

// ---------------------------------------------------------------- strict decoding

type dRow struct {
	T int64
	C map[string]string // non-null cells
}

func bitSet(bm []byte, i int) (bool, bool) {
	if i>>3 >= len(bm) {
		return false, false
	}
	return bm[i>>3]&(1<<(uint(i)&7)) != 0, true
}

// decodeRec reads a record produced by the code under test and verifies its internal consistency:
// schema/column counts, time column last and without nulls, field names strictly ascending, every
// column as long as the time column, NilCount equal to the zero bits of the bitmap, value storage
// sized for the non-null rows. A column of length 0 in a record with rows is read as all-null
// (the package pads missing query columns lazily); lenZero reports that it happened.
func decodeRec(rec *record.Record) (fields []lField, rows []dRow, lenZero bool, err error) {
	if rec == nil || len(rec.Schema) == 0 {
		return nil, nil, false, nil
	}
	if len(rec.ColVals) != len(rec.Schema) {
		return nil, nil, false, fmt.Errorf("record has %d schema fields but %d columns", len(rec.Schema), len(rec.ColVals))
	}
	last := len(rec.Schema) - 1
	if rec.Schema[last].Name != record.TimeField || rec.Schema[last].Type != influx.Field_Type_Int {
		return nil, nil, false, fmt.Errorf("last schema field is %v, want time", rec.Schema[last])
	}
	tc := &rec.ColVals[last]
	n := tc.Len
	if tc.NilCount != 0 {
		return nil, nil, false, fmt.Errorf("time column has NilCount %d", tc.NilCount)
	}
	tv := tc.IntegerValues()
	if len(tv) != n {
		return nil, nil, false, fmt.Errorf("time column Len %d but %d stored values", n, len(tv))
	}
	rows = make([]dRow, n)
	for i := range rows {
		rows[i] = dRow{T: tv[i], C: map[string]string{}}
	}
	for ci := 0; ci < last; ci++ {
		f := rec.Schema[ci]
		if ci > 0 && rec.Schema[ci-1].Name >= f.Name {
			return nil, nil, false, fmt.Errorf("schema not strictly ascending by name at %d: %q then %q", ci, rec.Schema[ci-1].Name, f.Name)
		}
		if f.Name == record.TimeField {
			return nil, nil, false, fmt.Errorf("time column at schema position %d of %d", ci, last)
		}
		fields = append(fields, lField{Name: f.Name, Type: f.Type})
		cv := &rec.ColVals[ci]
		if cv.Len == 0 && n > 0 {
			lenZero = true
			continue
		}
		if cv.Len != n {
			return nil, nil, false, fmt.Errorf("column %q has Len %d, time column has %d rows", f.Name, cv.Len, n)
		}
		nulls := 0
		isNull := make([]bool, n)
		for i := 0; i < n; i++ {
			set, ok := bitSet(cv.Bitmap, cv.BitMapOffset+i)
			if !ok {
				return nil, nil, false, fmt.Errorf("column %q: bitmap of %d bytes too short for offset %d + %d rows", f.Name, len(cv.Bitmap), cv.BitMapOffset, n)
			}
			if !set {
				isNull[i] = true
				nulls++
			}
			if cv.IsNil(i) != isNull[i] {
				return nil, nil, false, fmt.Errorf("column %q row %d (time %d): IsNil=%v but bitmap bit says null=%v (NilCount=%d)", f.Name, i, tv[i], cv.IsNil(i), isNull[i], cv.NilCount)
			}
		}
		if nulls != cv.NilCount {
			return nil, nil, false, fmt.Errorf("column %q: NilCount %d but bitmap has %d null rows of %d", f.Name, cv.NilCount, nulls, n)
		}
		valid := n - nulls
		var iv []int64
		var fv []float64
		var bv []bool
		switch f.Type {
		case influx.Field_Type_Int:
			if len(cv.Val) != 8*valid {
				return nil, nil, false, fmt.Errorf("column %q (int): %d value bytes for %d non-null rows", f.Name, len(cv.Val), valid)
			}
			iv = cv.IntegerValues()
		case influx.Field_Type_Float:
			if len(cv.Val) != 8*valid {
				return nil, nil, false, fmt.Errorf("column %q (float): %d value bytes for %d non-null rows", f.Name, len(cv.Val), valid)
			}
			fv = cv.FloatValues()
		case influx.Field_Type_Boolean:
			if len(cv.Val) != valid {
				return nil, nil, false, fmt.Errorf("column %q (bool): %d value bytes for %d non-null rows", f.Name, len(cv.Val), valid)
			}
			bv = cv.BooleanValues()
		case influx.Field_Type_String:
			if len(cv.Offset) != n {
				return nil, nil, false, fmt.Errorf("column %q (string): %d offsets for %d rows", f.Name, len(cv.Offset), n)
			}
			for i := 0; i < n; i++ {
				end := uint32(len(cv.Val))
				if i+1 < n {
					end = cv.Offset[i+1]
				}
				if cv.Offset[i] > end || int(end) > len(cv.Val) {
					return nil, nil, false, fmt.Errorf("column %q (string): offsets not monotone at row %d (%d..%d of %d bytes)", f.Name, i, cv.Offset[i], end, len(cv.Val))
				}
				if isNull[i] && end != cv.Offset[i] {
					return nil, nil, false, fmt.Errorf("column %q (string): null row %d owns %d value bytes", f.Name, i, end-cv.Offset[i])
				}
			}
		default:
			return nil, nil, false, fmt.Errorf("column %q has type %d", f.Name, f.Type)
		}
		dense := 0
		for i := 0; i < n; i++ {
			if isNull[i] {
				continue
			}
			switch f.Type {
			case influx.Field_Type_Int:
				rows[i].C[f.Name] = litInt(iv[dense])
			case influx.Field_Type_Float:
				rows[i].C[f.Name] = litFloat(fv[dense])
			case influx.Field_Type_Boolean:
				rows[i].C[f.Name] = litBool(bv[dense])
			case influx.Field_Type_String:
				s, _ := cv.StringValueSafe(i)
				rows[i].C[f.Name] = litStr(s)
			}
			dense++
		}
	}
	return fields, rows, lenZero, nil
}

// ---------------------------------------------------------------- last-write-wins fold

type lwwModel struct {
	rows map[int64]map[string]string
}

func newLWW() *lwwModel { return &lwwModel{rows: map[int64]map[string]string{}} }

func (m *lwwModel) touch(t int64) map[string]string {
	r := m.rows[t]
	if r == nil {
		r = map[string]string{}
		m.rows[t] = r
	}
	return r
}

// apply folds rows [from,to) of r over the model: a non-null cell replaces, a null cell keeps.
func (m *lwwModel) apply(r *lRec, from, to int) {
	for i := from; i < to; i++ {
		row := m.touch(r.Times[i])
		for ci, f := range r.Fields {
			if v := r.Rows[i][ci]; v != "" {
				row[f.Name] = v
			}
		}
	}
}

func (m *lwwModel) applyAll(r *lRec) {
	if r != nil {
		m.apply(r, 0, r.n())
	}
}

// restrict keeps times in [tmin,tmax] and the named fields (nil = all).
func (m *lwwModel) restrict(tmin, tmax int64, names []string) *lwwModel {
	o := newLWW()
	for t, r := range m.rows {
		if t < tmin || t > tmax {
			continue
		}
		nr := o.touch(t)
		for k, v := range r {
			if names == nil {
				nr[k] = v
				continue
			}
			for _, nme := range names {
				if nme == k {
					nr[k] = v
				}
			}
		}
	}
	return o
}

func (m *lwwModel) cells() int {
	c := 0
	for _, r := range m.rows {
		c += len(r)
	}
	return c
}

func (m *lwwModel) times(asc bool) []int64 {
	ts := make([]int64, 0, len(m.rows))
	for t := range m.rows {
		ts = append(ts, t)
	}
	sort.Slice(ts, func(i, j int) bool {
		if asc {
			return ts[i] < ts[j]
		}
		return ts[i] > ts[j]
	})
	return ts
}

func fmtCells(c map[string]string) string {
	ks := make([]string, 0, len(c))
	for k := range c {
		ks = append(ks, k)
	}
	sort.Strings(ks)
	var sb strings.Builder
	sb.WriteByte('{')
	for i, k := range ks {
		if i > 0 {
			sb.WriteByte(' ')
		}
		v := c[k]
		if len(v) > 24 {
			v = v[:24] + "..."
		}
		fmt.Fprintf(&sb, "%s=%s", k, v)
	}
	sb.WriteByte('}')
	return sb.String()
}

// compareLWW checks got against the fold in both directions: rows strictly ordered by time (no
// duplicate timestamp), every row at a time the inputs hold, every cell equal to the fold's cell
// (nothing invented, no stale value, no null where the fold has a value), every fold row with at
// least one value present (nothing dropped). A row whose cells are all null may be absent.
func compareLWW(got []dRow, want *lwwModel, asc bool) error {
	seen := map[int64]bool{}
	for i, g := range got {
		if i > 0 {
			p := got[i-1].T
			if g.T == p {
				return fmt.Errorf("timestamp %d appears twice (rows %d and %d)", g.T, i-1, i)
			}
			if (asc && g.T < p) || (!asc && g.T > p) {
				return fmt.Errorf("rows not sorted by time: row %d has %d after %d (ascending=%v)", i, g.T, p, asc)
			}
		}
		w, ok := want.rows[g.T]
		if !ok {
			return fmt.Errorf("row %d at time %d %s is in none of the inputs (invented row)", i, g.T, fmtCells(g.C))
		}
		seen[g.T] = true
		for k, v := range g.C {
			wv, ok := w[k]
			if !ok {
				return fmt.Errorf("time %d field %s: got %s, last-write-wins fold has no value", g.T, k, clipLit(v))
			}
			if wv != v {
				return fmt.Errorf("time %d field %s: got %s, last-write-wins fold has %s", g.T, k, clipLit(v), clipLit(wv))
			}
		}
		for k, wv := range w {
			if _, ok := g.C[k]; !ok {
				return fmt.Errorf("time %d field %s: got null, last-write-wins fold has %s", g.T, k, clipLit(wv))
			}
		}
	}
	for _, t := range want.times(true) {
		if !seen[t] && len(want.rows[t]) > 0 {
			return fmt.Errorf("row at time %d %s of the fold is missing (dropped row)", t, fmtCells(want.rows[t]))
		}
	}
	return nil
}

func clipLit(s string) string {
	if len(s) > 40 {
		return s[:40] + "..."
	}
	return s
}

// checkSchemaTypes: every output column has the type its field has in the inputs.
func checkSchemaTypes(fields []lField) error {
	for _, f := range fields {
		if t := libFieldType(f.Name); t != f.Type {
			return fmt.Errorf("output column %q has type %s, the field has type %s", f.Name, libTypeName(f.Type), libTypeName(t))
		}
	}
	return nil
}

func sortedUnique(times []int64, asc bool) bool {
	for i := 1; i < len(times); i++ {
		if asc && times[i] <= times[i-1] || !asc && times[i] >= times[i-1] {
			return false
		}
	}
	return true
}

// ---------------------------------------------------------------- generators

func genFieldSubset(t *rapid.T, label string) []lField {
	mask := rapid.OneOf(rapid.IntRange(1, 255), rapid.SampledFrom([]int{1, 2, 4, 8, 15, 240, 255, 5, 10})).Draw(t, label+"mask")
	var out []lField
	for i, f := range libFields {
		if mask&(1<<i) != 0 {
			out = append(out, f)
		}
	}
	return out
}

var hostileI = []int64{math.MaxInt64, math.MinInt64, 0, -1}

// a write request carries numbers as float64 (influx.Field.NumValue): integers beyond 2^53 are the
// subject of C06, not of this property
var hostileISafe = []int64{1<<53 - 1, -(1<<53 - 1), 0, -1}
var hostileF = []float64{math.NaN(), math.Copysign(0, -1), math.Inf(1), 1e-300}

// genVal draws a value that carries its source (src) so that values of different inputs differ.
func genVal(t *rapid.T, typ, src int) string { return genValS(t, typ, src, false) }

func genValS(t *rapid.T, typ, src int, safeInt bool) string {
	k := rapid.IntRange(0, 11).Draw(t, "v")
	switch typ {
	case influx.Field_Type_Int:
		if k < 8 {
			return litInt(int64(src*100 + k))
		}
		if safeInt {
			return litInt(hostileISafe[k-8])
		}
		return litInt(hostileI[k-8])
	case influx.Field_Type_Float:
		if k < 8 {
			return litFloat(float64(src*100+k) + 0.25)
		}
		return litFloat(hostileF[k-8])
	case influx.Field_Type_String:
		switch {
		case k < 6:
			return litStr(fmt.Sprintf("%d_%d", src, k))
		case k == 6:
			return litStr("")
		case k == 7:
			return litStr(fmt.Sprintf("%d:", src) + strings.Repeat("x", 37))
		case k == 8:
			return litStr(fmt.Sprintf("é%dß", src))
		default:
			return litStr(string(rune('a' + (src+k)%26)))
		}
	default:
		return litBool((k+src)%2 == 0)
	}
}

var nullPats = []string{"none", "none", "none", "sparse", "sparse", "sparse", "dense", "dense", "all"}

// genRecOn draws the cells of a record over the given fields and times. rowNonEmpty: every row
// carries at least one value (what a write produces); otherwise all-null rows may occur (what a
// projection of a wider row produces).
func genRecOn(t *rapid.T, fields []lField, times []int64, src int, rowNonEmpty bool) (*lRec, []string) {
	r := &lRec{Fields: fields, Times: times, Rows: make([][]string, len(times))}
	pats := make([]string, len(fields))
	for ci := range fields {
		pats[ci] = rapid.SampledFrom(nullPats).Draw(t, "nullpat")
	}
	for i := range times {
		row := make([]string, len(fields))
		any := false
		for ci, f := range fields {
			null := false
			switch pats[ci] {
			case "all":
				null = true
			case "sparse":
				null = rapid.IntRange(0, 4).Draw(t, "null") == 0
			case "dense":
				null = rapid.IntRange(0, 4).Draw(t, "null") != 0
			}
			if !null {
				row[ci] = genVal(t, f.Type, src)
				any = true
			}
		}
		if rowNonEmpty && !any {
			ci := rapid.IntRange(0, len(fields)-1).Draw(t, "forced")
			row[ci] = genVal(t, fields[ci].Type, src)
		}
		r.Rows[i] = row
	}
	return r, pats
}

func genSliceStyle(t *rapid.T, r *lRec) {
	if rapid.IntRange(0, 2).Draw(t, "sliced") == 0 {
		r.Pre = rapid.IntRange(0, 9).Draw(t, "pre")
		r.Post = rapid.IntRange(0, 3).Draw(t, "post")
	}
}

// genDistinctTimes draws n distinct times from [lo,hi], ascending.
func genDistinctTimes(t *rapid.T, label string, n int, lo, hi int64) []int64 {
	if int64(n) > hi-lo+1 {
		n = int(hi - lo + 1)
	}
	ts := rapid.SliceOfNDistinct(rapid.Int64Range(lo, hi), n, n, rapid.ID[int64]).Draw(t, label)
	sort.Slice(ts, func(i, j int) bool { return ts[i] < ts[j] })
	return ts
}

func reverseRec(r *lRec) {
	for i, j := 0, r.n()-1; i < j; i, j = i+1, j-1 {
		r.Times[i], r.Times[j] = r.Times[j], r.Times[i]
		r.Rows[i], r.Rows[j] = r.Rows[j], r.Rows[i]
	}
}

func hasAllNullCol(r *lRec) bool {
	if r == nil || r.n() == 0 {
		return false
	}
	for ci := range r.Fields {
		all := true
		for i := range r.Rows {
			if r.Rows[i][ci] != "" {
				all = false
				break
			}
		}
		if all {
			return true
		}
	}
	return false
}

func fieldNames(fs []lField) []string {
	o := make([]string, len(fs))
	for i, f := range fs {
		o[i] = f.Name
	}
	return o
}

// schemaMismatch: some field is present in exactly one of the two schemas.
func schemaMismatch(a, b []lField) bool {
	in := func(fs []lField, n string) bool {
		for _, f := range fs {
			if f.Name == n {
				return true
			}
		}
		return false
	}
	for _, f := range a {
		if !in(b, f.Name) {
			return true
		}
	}
	for _, f := range b {
		if !in(a, f.Name) {
			return true
		}
	}
	return false
}

func equalTimes(a, b []int64) int {
	set := map[int64]bool{}
	for _, t := range a {
		set[t] = true
	}
	c := 0
	for _, t := range b {
		if set[t] {
			c++
		}
	}
	return c
}

func recSummary(r *lRec) string {
	if r == nil {
		return "nil"
	}
	s := fmt.Sprintf("%d rows x %v", r.n(), fieldNames(r.Fields))
	if r.n() > 0 {
		s += fmt.Sprintf(" t=%d..%d", r.Times[0], r.Times[r.n()-1])
	}
	if r.Pre+r.Post > 0 {
		s += fmt.Sprintf(" slice(pre=%d,post=%d)", r.Pre, r.Post)
	}
	return s
}

// partialOverlap: at a timestamp both records hold, some field has a value in exactly one of the
// two rows (a partial-field overwrite).
func partialOverlap(a, b *lRec) bool {
	if a == nil || b == nil {
		return false
	}
	idx := map[int64]int{}
	for i, t := range b.Times {
		idx[t] = i
	}
	val := func(r *lRec, row int, name string) string {
		for ci, f := range r.Fields {
			if f.Name == name {
				return r.Rows[row][ci]
			}
		}
		return ""
	}
	for i, t := range a.Times {
		j, ok := idx[t]
		if !ok {
			continue
		}
		for _, f := range libFields {
			if (val(a, i, f.Name) == "") != (val(b, j, f.Name) == "") {
				return true
			}
		}
	}
	return false
}
