package c02

// Library-level companion of C02, part 2: the sort + de-duplication of a write-cache record
// (record.ColumnSortHelper.Sort, what the memtable read and flush paths and the out-of-order
// self-merge use) and the concatenation of records with different schemas that precedes it
// (Record.Merge / AppendRec: ChunkIterators.Next, shelf wal reader).

import (
	"fmt"
	"math"
	"testing"

	"github.com/openGemini/openGemini/lib/record"
	"pgregory.net/rapid"
	"verif/internal/ev"
)

type sortCase struct {
	Kind  string  `json:"kind"`           // "sort_dedup"
	Mode  string  `json:"mode"`           // direct | chunkiter | shelf | walreader
	Parts []*lRec `json:"parts"`          // direct: one record in write order; else: concatenated in this order (later = newer)
	Warm  *lRec   `json:"warm,omitempty"` // record sorted by the same helper before (helpers come from a pool)
}

type sortInfo struct {
	dupTimes, unsorted bool
	outRows            int
}

// unionFields: fields of all parts, sorted by name.
func unionFields(parts []*lRec) []lField {
	var out []lField
	for _, f := range libFields {
		for _, p := range parts {
			found := false
			for _, g := range p.Fields {
				if g.Name == f.Name {
					found = true
				}
			}
			if found {
				out = append(out, f)
				break
			}
		}
	}
	return out
}

// compareConcat: got must be exactly the rows of the parts, in order, over the union schema.
func compareConcat(got []dRow, fields []lField, parts []*lRec) error {
	uf := unionFields(parts)
	if len(fields) != len(uf) {
		return fmt.Errorf("concatenated record has columns %v, want %v", fieldNames(fields), fieldNames(uf))
	}
	for i := range uf {
		if fields[i] != uf[i] {
			return fmt.Errorf("concatenated record column %d is %v, want %v", i, fields[i], uf[i])
		}
	}
	k := 0
	for pi, p := range parts {
		for i := 0; i < p.n(); i++ {
			if k >= len(got) {
				return fmt.Errorf("concatenated record has %d rows, part %d row %d is missing", len(got), pi, i)
			}
			g := got[k]
			if g.T != p.Times[i] {
				return fmt.Errorf("concatenated row %d has time %d, want %d (part %d row %d)", k, g.T, p.Times[i], pi, i)
			}
			nn := 0
			for ci, f := range p.Fields {
				v := p.Rows[i][ci]
				if v == "" {
					continue
				}
				nn++
				if g.C[f.Name] != v {
					return fmt.Errorf("concatenated row %d (time %d) field %s: got %q want %q (part %d row %d)", k, g.T, f.Name, clipLit(g.C[f.Name]), clipLit(v), pi, i)
				}
			}
			if len(g.C) != nn {
				return fmt.Errorf("concatenated row %d (time %d) has cells %s, part %d row %d has %d values", k, g.T, fmtCells(g.C), pi, i, nn)
			}
			k++
		}
	}
	if k != len(got) {
		return fmt.Errorf("concatenated record has %d rows, the parts have %d", len(got), k)
	}
	return nil
}

func checkSortDedup(sc *sortCase) (info sortInfo, err error) {
	defer func() {
		if r := recover(); r != nil {
			err = fmt.Errorf("panic: %v", r)
		}
	}()
	if len(sc.Parts) == 0 {
		return info, ev.InconclusiveError("no parts")
	}
	// a fresh helper per case keeps the case reproducible; Warm reproduces a pooled one
	hlp := &record.ColumnSortHelper{}
	if sc.Warm != nil {
		w, e := sc.Warm.build()
		if e != nil {
			return info, ev.InconclusiveError(e.Error())
		}
		_ = hlp.Sort(w)
	}
	want := newLWW()
	var recs []*record.Record
	for _, p := range sc.Parts {
		r, e := p.build()
		if e != nil {
			return info, ev.InconclusiveError(e.Error())
		}
		recs = append(recs, r)
		want.applyAll(p)
	}
	var rec *record.Record
	switch sc.Mode {
	case "direct":
		if len(recs) != 1 {
			return info, ev.InconclusiveError("direct mode takes one record")
		}
		rec = recs[0]
	case "chunkiter":
		// immutable.ChunkIterators.Next
		merged := &record.Record{}
		first := recs[0]
		merged.Reset()
		merged.SetSchema(first.Schema)
		merged.ReserveColVal(len(first.Schema))
		merged.ReserveColumnRows(first.RowNums())
		merged.Merge(first)
		for _, r := range recs[1:] {
			merged.Merge(r)
		}
		rec = merged
	case "shelf":
		// engine/shelf/processor.go: rec, swap = swap, rec for the first non-empty one, then rec.Merge(swap)
		rec = recs[0]
		for _, r := range recs[1:] {
			rec.Merge(r)
		}
	case "walreader":
		// engine/shelf/wal_reader.go ReadRecord (keepSchema=false)
		dst := &record.Record{}
		for _, r := range recs {
			if dst.Len() == 0 {
				dst.Schema = append(dst.Schema[:0], r.Schema...)
				dst.ReserveColVal(r.Len())
				dst.AppendRec(r, 0, r.RowNums())
			} else {
				dst.Merge(r)
			}
		}
		rec = dst
	default:
		return info, ev.InconclusiveError("unknown mode " + sc.Mode)
	}
	if sc.Mode != "direct" {
		for _, p := range sc.Parts {
			if p.n() == 0 {
				return info, ev.InconclusiveError("empty part")
			}
		}
		fields, rows, _, e := decodeRec(rec)
		if e != nil {
			return info, fmt.Errorf("concatenated record malformed: %v", e)
		}
		if e := compareConcat(rows, fields, sc.Parts); e != nil {
			return info, e
		}
	}
	if rec.RowNums() > 0 {
		ts := rec.Times()
		seen := map[int64]bool{}
		for i, v := range ts {
			if seen[v] {
				info.dupTimes = true
			}
			seen[v] = true
			if i > 0 && v < ts[i-1] {
				info.unsorted = true
			}
		}
	}
	out := hlp.Sort(rec)
	fields, rows, _, e := decodeRec(out)
	if e != nil {
		return info, fmt.Errorf("sorted record malformed: %v", e)
	}
	if e := checkSchemaTypes(fields); e != nil {
		return info, e
	}
	info.outRows = len(rows)
	if e := compareLWW(rows, want, true); e != nil {
		return info, fmt.Errorf("after sort + de-duplication: %v", e)
	}
	// the flush path hands the result to the file writer: every written time must be there
	if len(rows) != len(want.rows) {
		return info, fmt.Errorf("sorted record has %d rows, the input holds %d distinct timestamps", len(rows), len(want.rows))
	}
	return info, nil
}

// genWriteOrderRec: a record as the write cache holds it: rows in arrival order, any times,
// repeated timestamps, every row with at least one value.
func genWriteOrderRec(t *rapid.T, src int, allowEmpty bool) (*lRec, string) {
	fields := genFieldSubset(t, "f")
	lo := 1
	if allowEmpty {
		lo = 0
	}
	n := rapid.OneOf(rapid.IntRange(lo, 12), rapid.IntRange(lo, 12), rapid.IntRange(lo, 60), rapid.SampledFrom([]int{1, 2, 8, 9, 64, 65})).Draw(t, "n")
	shape := rapid.SampledFrom([]string{"random", "random", "few_times", "sorted_with_dups", "reversed", "mostly_sorted", "one_time"}).Draw(t, "shape")
	times := make([]int64, n)
	dom := int64(n)
	if dom < 2 {
		dom = 2
	}
	switch shape {
	case "random":
		for i := range times {
			times[i] = rapid.Int64Range(0, 2*dom).Draw(t, "t")
		}
	case "few_times":
		for i := range times {
			times[i] = rapid.Int64Range(0, 3).Draw(t, "t")
		}
	case "sorted_with_dups":
		cur := int64(0)
		for i := range times {
			cur += int64(rapid.IntRange(0, 2).Draw(t, "d"))
			times[i] = cur
		}
	case "reversed":
		cur := 3 * dom
		for i := range times {
			cur -= int64(rapid.IntRange(0, 2).Draw(t, "d"))
			times[i] = cur
		}
	case "mostly_sorted":
		for i := range times {
			times[i] = int64(i)
			if rapid.IntRange(0, 5).Draw(t, "late") == 0 {
				times[i] = rapid.Int64Range(0, int64(i)).Draw(t, "t")
			}
		}
	default:
		for i := range times {
			times[i] = 7
		}
	}
	base := rapid.SampledFrom([]int64{0, 0, 1600000000000000000, -50}).Draw(t, "base")
	if n > 0 {
		lo, hi := times[0], times[0]
		for _, v := range times {
			lo, hi = min(lo, v), max(hi, v)
		}
		// the ends of the legal timestamp range (models.MinNanoTime / MaxNanoTime)
		switch rapid.IntRange(0, 19).Draw(t, "extreme") {
		case 18:
			base = math.MaxInt64 - 1 - hi
		case 19:
			base = math.MinInt64 + 2 - lo
		}
	}
	for i := range times {
		times[i] += base
	}
	r, _ := genRecOn(t, fields, times, src, true)
	return r, shape
}

func TestLibSortDedup(t *testing.T) {
	rapid.Check(t, ev.Prop(prop, "lib_sort_dedup", func(t *rapid.T, c *ev.Case) {
		sc := &sortCase{Kind: "sort_dedup"}
		sc.Mode = rapid.SampledFrom([]string{"direct", "direct", "direct", "chunkiter", "shelf", "walreader"}).Draw(t, "mode")
		c.Class("mode=" + sc.Mode)
		if rapid.IntRange(0, 2).Draw(t, "warm") == 0 {
			sc.Warm, _ = genWriteOrderRec(t, 9, false)
			c.Class("helper_reused")
		}
		eq, mism := false, false
		if sc.Mode == "direct" {
			r, shape := genWriteOrderRec(t, 1, true)
			sc.Parts = []*lRec{r}
			c.Class("shape=" + shape)
			if r.n() == 0 {
				c.Class("empty_record")
			}
		} else {
			k := rapid.IntRange(2, 4).Draw(t, "k")
			c.Class(fmt.Sprintf("parts=%d", k))
			sameSchema := rapid.IntRange(0, 2).Draw(t, "sameSchema") == 0
			base := genFieldSubset(t, "f")
			for i := 0; i < k; i++ {
				fs := base
				if !sameSchema {
					fs = genFieldSubset(t, "fi")
				}
				var r *lRec
				if sc.Mode == "chunkiter" {
					// chunks of files: sorted and unique each
					n := rapid.IntRange(1, 12).Draw(t, "n")
					ts := genDistinctTimes(t, "t", n, 0, 18)
					r, _ = genRecOn(t, fs, ts, i+1, true)
					genSliceStyle(t, r)
				} else {
					n := rapid.IntRange(1, 10).Draw(t, "n")
					ts := make([]int64, n)
					for j := range ts {
						ts[j] = rapid.Int64Range(0, 12).Draw(t, "t")
					}
					r, _ = genRecOn(t, fs, ts, i+1, true)
				}
				for _, p := range sc.Parts {
					if equalTimes(p.Times, r.Times) > 0 {
						eq = true
					}
					if schemaMismatch(p.Fields, r.Fields) {
						mism = true
					}
				}
				sc.Parts = append(sc.Parts, r)
			}
		}
		alln := false
		for _, p := range sc.Parts {
			alln = alln || hasAllNullCol(p)
		}
		if alln {
			c.Class("all_null_column")
		}
		if mism {
			c.Class("schema_mismatch")
		}
		info, err := checkSortDedup(sc)
		if err != nil {
			c.Failf(t, prop, sc, "%v", err)
		}
		if info.dupTimes {
			c.Class("duplicate_timestamps")
		}
		if info.unsorted {
			c.Class("unsorted_input")
		}
		if !info.dupTimes && !info.unsorted {
			c.Class("already_sorted_unique")
		}
		if eq {
			c.Class("equal_timestamps_across_parts")
		}
		nt := info.dupTimes && (sc.Mode == "direct" || mism)
		if nt {
			c.Class("nontrivial")
			c.Nontrivial(ev.Hash(sc))
			c.Sample(map[string]any{"mode": sc.Mode, "parts": len(sc.Parts), "first": recSummary(sc.Parts[0]), "rows_out": info.outRows, "helper_reused": sc.Warm != nil})
		}
	}))
}
