package c02

import (
	"encoding/json"
	"fmt"

	"verif/internal/ev"
)

// libReplayers re-execute a saved case of the library-level campaigns (dispatch by the "campaign"
// field of the replay file, see TestReplay).
var libReplayers = map[string]func(raw json.RawMessage) error{
	"lib_merge_pair": func(raw json.RawMessage) error {
		var pc pairCase
		if err := json.Unmarshal(raw, &pc); err != nil || pc.Kind != "merge_pair" {
			return ev.InconclusiveError(fmt.Sprintf("bad merge_pair case: %v", err))
		}
		_, err := checkMergePair(&pc)
		return err
	},
	"lib_cursor_merge": func(raw json.RawMessage) error {
		var cc cursorCase
		if err := json.Unmarshal(raw, &cc); err != nil || cc.Kind != "cursor_merge" {
			return ev.InconclusiveError(fmt.Sprintf("bad cursor_merge case: %v", err))
		}
		_, err := checkCursorMerge(&cc)
		return err
	},
	"lib_sort_dedup": func(raw json.RawMessage) error {
		var sc sortCase
		if err := json.Unmarshal(raw, &sc); err != nil || sc.Kind != "sort_dedup" {
			return ev.InconclusiveError(fmt.Sprintf("bad sort_dedup case: %v", err))
		}
		_, err := checkSortDedup(&sc)
		return err
	},
	"lib_memtable": func(raw json.RawMessage) error {
		var mc memCase
		if err := json.Unmarshal(raw, &mc); err != nil || mc.Kind != "memtable" {
			return ev.InconclusiveError(fmt.Sprintf("bad memtable case: %v", err))
		}
		_, err := checkMemtable(&mc)
		return err
	},
	"lib_ooo_column_merge": func(raw json.RawMessage) error {
		var cc colCase
		if err := json.Unmarshal(raw, &cc); err != nil || cc.Kind != "ooo_column" {
			return ev.InconclusiveError(fmt.Sprintf("bad ooo_column case: %v", err))
		}
		_, err := checkColMerge(&cc)
		return err
	},
}
